package tasksim

import (
	"context"
	"encoding/json"
	"errors"
	"fmt"
	"io"
	"log/slog"
	"sort"
	"sync"
	"time"

	"github.com/indexsupply/shovel/shovel"
	"github.com/indexsupply/shovel/shovel/config"
	"github.com/indexsupply/shovel/wctx"
	"github.com/jackc/pgx/v5/pgxpool"

	"verif/harness/fakepg"
	"verif/harness/lib"
)

func init() {
	// the implementation logs through the default slog logger; keep the drivers quiet
	slog.SetDefault(slog.New(slog.NewTextHandler(io.Discard, nil)))
}

// WorldSpec describes a world: sources, integrations and the chain history
// of each source's node.
type WorldSpec struct {
	Srcs []SrcSpec
	IGs  []IGSpec
	Hist map[string]*History // by source name
	// Real: the tasks keep the jrpc2.Client built by loadTasks and talk HTTP to a
	// simnode serving the same chain versions (instead of the scripted Source)
	Real bool
	// DBRows: integrations that are NOT in the configuration file but saved in
	// shovel.integrations (as the dashboard does), possibly several rows with one name
	DBRows []DBRow
}

// DBRow: integration Name is stored Copies times in shovel.integrations; with
// FirstDiffers the first row carries another address filter than the others
// (the last row is the declaration the case expects to run).
type DBRow struct {
	Name         string
	Copies       int
	FirstDiffers bool
	// Spelled: the stored declaration keeps the SPELLING of its sources' start / stop
	// (SrcRef.StartText / StopText) instead of the numbers a re-marshalled struct would have
	Spelled bool `json:",omitempty"`
	// OmitAgg: the stored declaration has NO filter_agg (the dashboard stores what the user
	// sent; ValidateFix, which turns an omitted filter_agg into "or", runs on the file only)
	OmitAgg bool `json:",omitempty"`
}

// TaskH is one running task with its ids.
type TaskH struct {
	ID   int // t_id of the case (stable across restarts)
	T    *shovel.Task
	Info shovel.VerifTaskInfo
	Spec *IGSpec
	Src  *TaskSource
	Uniq bool
}

// World is fakepg + pool + the real tasks built by loadTasks, wired to
// scripted sources and a recorder.
type World struct {
	Spec  WorldSpec
	Conf  config.Root
	JSON  string
	PG    *fakepg.Server
	Pool  *pgxpool.Pool
	Nodes map[string]*Node
	Tasks []*TaskH // the tasks of the current configuration
	All   []*TaskH // every task handle ever built with a distinct id (earlier configurations included)
	Gen   int      // configuration generation: task ids are index + 1 + 10*Gen
	Names *Names
	Rec   *Recorder
	Init  DbView
	// ConfigAnomalies: static oracle right after ValidateFix (Dependencies vs declared references)
	ConfigAnomalies []string
	// StepAnomalies: what a RETURNED Converge left behind (oracle "a step that returns has
	// closed its transaction and given its connection back"), and steps that never returned
	StepAnomalies []string
	stepNo        int // steps started so far (for messages)
	leakedTx      int // open server-side transactions already reported (current pool)
	leakedConns   int // pool connections never released, already reported (current pool)
	ctx           context.Context
}

// PoolMaxConns: size of the pgx pool of a world.  pgxpool's default is max(4, NumCPU): a
// fixed number keeps "how many leaked connections exhaust the pool" machine independent.
// (The largest worlds run six tasks, each holding one connection inside a step.)
const PoolMaxConns = 8

// StepTimeout bounds one Converge call (and one scheduling decision of the statement-level
// scheduler).  Healthy steps take milliseconds; a step that exceeds it is blocked for good
// (every pool connection leaked: Begin waits for ever) and is reported as "did not return".
var StepTimeout = 10 * time.Second

// stepTimeout: with every pool connection already known to be leaked a step cannot even
// begin; one second is then enough to observe that it does not return.
func (w *World) stepTimeout() time.Duration {
	if w.leakedConns >= PoolMaxConns {
		return time.Second
	}
	return StepTimeout
}

// leakGrace: pgxpool destroys a broken connection in a goroutine of its own, so "no
// connection is acquired any more" may lag the return of Converge by a scheduler tick.
const leakGrace = 300 * time.Millisecond

// NewWorld builds the configuration, starts the fake database, applies the
// schema and the integration tables exactly as cmd/shovel does, and loads
// the tasks through loadTasks.
func NewWorld(spec WorldSpec) (*World, error) {
	w := &World{Spec: spec, Nodes: map[string]*Node{}, ctx: context.Background()}
	if spec.Real {
		// the HTTP nodes must exist before the configuration names their URLs
		spec.Srcs = append([]SrcSpec{}, spec.Srcs...)
		for i, s := range spec.Srcs {
			h := spec.Hist[s.Name]
			if h == nil {
				return nil, fmt.Errorf("no history for source %s", s.Name)
			}
			n := NewNode(h, nil)
			n.enableSim()
			w.Nodes[s.Name] = n
			spec.Srcs[i].URL = n.sim.sim.URL()
			spec.Srcs[i].Poll = "1h" // the head poller must never fire: no wall-clock dependence
		}
		w.Spec = spec
	}
	conf, js, err := BuildConfig(spec.Srcs, spec.IGs)
	if err != nil {
		w.Close()
		return nil, err
	}
	w.Conf, w.JSON = conf, js
	w.checkDependencies()
	var sn, in, tn []string
	for _, s := range spec.Srcs {
		sn = append(sn, s.Name)
	}
	for _, ig := range spec.IGs {
		in = append(in, ig.Name)
		tn = append(tn, ig.Table)
	}
	w.Names = NewNames(sn, in, tn)
	w.Rec = NewRecorder(w.Names)
	w.Rec.SortRows = spec.Real
	if w.PG, err = fakepg.Start(); err != nil {
		return nil, err
	}
	w.Rec.pg = w.PG
	w.PG.SetDetectWaits(true)
	w.Rec.Mute(true)
	w.PG.SetObserver(w.Rec.Observe)
	for _, s := range spec.Srcs {
		h := spec.Hist[s.Name]
		if h == nil {
			return nil, fmt.Errorf("no history for source %s", s.Name)
		}
		if n := w.Nodes[s.Name]; n != nil {
			n.rec = w.Rec
			continue
		}
		w.Nodes[s.Name] = NewNode(h, w.Rec)
	}
	if err := w.connect(true); err != nil {
		w.Close()
		return nil, err
	}
	w.Rec.Mute(false)
	w.Init = w.Rec.View(w.PG.Snapshot())
	return w, nil
}

// connect opens the pool and loads the tasks; with migrate it first runs the
// start-up sequence of cmd/shovel (advisory lock, schema, table migration).
func (w *World) connect(migrate bool) error {
	var err error
	if w.Pool, err = pgxpool.New(w.ctx, fmt.Sprintf("%s&pool_max_conns=%d", w.PG.URL(), PoolMaxConns)); err != nil {
		return err
	}
	w.leakedTx, w.leakedConns = 0, 0
	if migrate {
		tx, err := w.Pool.Begin(w.ctx)
		if err != nil {
			return err
		}
		if _, err = tx.Exec(w.ctx, "select pg_advisory_xact_lock($1)", int64(42)); err != nil {
			return fmt.Errorf("advisory lock: %w", err)
		}
		if _, err = tx.Exec(w.ctx, shovel.Schema); err != nil {
			return fmt.Errorf("schema: %w", err)
		}
		if err = config.Migrate(w.ctx, tx, w.Conf); err != nil {
			return fmt.Errorf("migrate: %w", err)
		}
		if err = tx.Commit(w.ctx); err != nil {
			return err
		}
		snap := w.PG.Snapshot()
		w.Rec.cols = map[string][]string{}
		for i := range w.Spec.IGs {
			ig := &w.Spec.IGs[i]
			t := snap.Table(ig.Table)
			if t == nil {
				return fmt.Errorf("table %s was not created", ig.Table)
			}
			w.Rec.cols[ig.Table] = t.Columns
			var content []string
			for _, c := range t.Columns {
				if !isStamp(c) && !isKey(c) {
					content = append(content, c)
				}
			}
			if len(content) == 1 {
				w.Rec.refOnly[ig.Table] = content[0]
			}
		}
	}
	if migrate {
		if err := w.moveToDatabase(); err != nil {
			return err
		}
	}
	ctx := wctx.WithVersion(w.ctx, "verif")
	tasks, err := shovel.VerifTaskLoad(ctx, w.Pool, w.Conf)
	if err != nil {
		return fmt.Errorf("loadTasks: %w", err)
	}
	// loadTasks iterates a map: order the tasks by (integration, source) name
	sort.SliceStable(tasks, func(i, j int) bool {
		a, b := tasks[i].VerifTaskInfo(), tasks[j].VerifTaskInfo()
		if a.IGName != b.IGName {
			return a.IGName < b.IGName
		}
		return a.SrcName < b.SrcName
	})
	// no (source, integration) pair may be served by two tasks
	seenPair := map[string]int{}
	for _, t := range tasks {
		info := t.VerifTaskInfo()
		seenPair[info.SrcName+"/"+info.IGName]++
	}
	for k, n := range seenPair {
		if n > 1 {
			msg := fmt.Sprintf("loadTasks built %d tasks for the pair %s", n, k)
			dup := false
			for _, a := range w.ConfigAnomalies {
				if a == msg {
					dup = true
				}
			}
			if !dup {
				w.ConfigAnomalies = append(w.ConfigAnomalies, msg)
			}
		}
	}
	sort.Strings(w.ConfigAnomalies)
	snap := w.PG.Snapshot()
	w.Tasks = nil
	for i, t := range tasks {
		info := t.VerifTaskInfo()
		var spec *IGSpec
		for k := range w.Spec.IGs {
			if w.Spec.IGs[k].Name == info.IGName {
				spec = &w.Spec.IGs[k]
			}
		}
		if spec == nil {
			return fmt.Errorf("task for unknown integration %q", info.IGName)
		}
		h := &TaskH{ID: i + 1 + 10*w.Gen, T: t, Info: info, Spec: spec}
		node := w.Nodes[info.SrcName]
		if node == nil {
			return fmt.Errorf("task for unknown source %q", info.SrcName)
		}
		// load-time oracle: the task's range and chain id are the DECIMAL values the
		// configuration states, however it spells them (number, quoted, zero-padded, $ENV)
		for _, sr := range spec.Sources {
			if sr.Name != info.SrcName {
				continue
			}
			if info.Start != sr.Start || info.Stop != sr.Stop {
				say := func(text string, v uint64) string {
					if text != "" {
						return text
					}
					return fmt.Sprint(v)
				}
				w.addConfigAnomaly(fmt.Sprintf("the task of %s/%s runs with start %d stop %d; the configuration says start %s stop %s, i.e. %d and %d",
					info.SrcName, info.IGName, info.Start, info.Stop, say(sr.StartText, sr.Start), say(sr.StopText, sr.Stop), sr.Start, sr.Stop))
				h.Info.Start, h.Info.Stop = sr.Start, sr.Stop // the dynamic oracles judge against the configured range
			}
		}
		for _, ss := range w.Spec.Srcs {
			if ss.Name == info.SrcName && ss.ChainID != info.ChainID {
				w.addConfigAnomaly(fmt.Sprintf("the task of %s/%s runs with chain id %d; the configuration says %s = %d", info.SrcName, info.IGName, info.ChainID, ss.ChainIDText, ss.ChainID))
			}
		}
		if w.Spec.Real {
			t.VerifTaskSetSource(node.RealSourceFor(h.ID, spec, info.SrcName, t.VerifTaskSource(), info.Batch))
		} else {
			h.Src = node.SourceFor(h.ID, spec, info.SrcName)
			t.VerifTaskSetSource(h.Src)
		}
		if ts := snap.Table(spec.Table); ts != nil {
			h.Uniq = len(ts.Unique) > 0
		}
		w.Rec.igs[h.ID] = spec
		w.Rec.srcOf[h.ID] = info.SrcName
		w.Tasks = append(w.Tasks, h)
		known := false
		for k, o := range w.All {
			if o.ID == h.ID {
				w.All[k] = h // same configuration rebuilt after a restart
				known = true
			}
		}
		if !known {
			w.All = append(w.All, h)
		}
	}
	return nil
}

func (w *World) addConfigAnomaly(msg string) {
	for _, a := range w.ConfigAnomalies {
		if a == msg {
			return
		}
	}
	w.ConfigAnomalies = append(w.ConfigAnomalies, msg)
	sort.Strings(w.ConfigAnomalies)
}

// moveToDatabase takes the integrations named in Spec.DBRows out of the file
// configuration and stores them (after ValidateFix, as JSON) in
// shovel.integrations, the way the dashboard saves them.
func (w *World) moveToDatabase() error {
	for _, row := range w.Spec.DBRows {
		var found *config.Integration
		var keep []config.Integration
		for i := range w.Conf.Integrations {
			if w.Conf.Integrations[i].Name == row.Name {
				found = &w.Conf.Integrations[i]
			} else {
				keep = append(keep, w.Conf.Integrations[i])
			}
		}
		if found == nil {
			return fmt.Errorf("DBRows: no integration %q", row.Name)
		}
		stored := *found
		if row.OmitAgg {
			stored.FilterAGG = ""
		}
		last, err := json.Marshal(stored)
		if err != nil {
			return err
		}
		if row.Spelled {
			var m map[string]any
			if err := json.Unmarshal(last, &m); err != nil {
				return err
			}
			for _, ig := range w.Spec.IGs {
				if ig.Name == row.Name {
					m["sources"] = ig.jsonConfig()["sources"]
				}
			}
			if last, err = json.Marshal(m); err != nil {
				return err
			}
		}
		first := last
		if row.FirstDiffers {
			var specs []IGSpec
			for _, ig := range w.Spec.IGs {
				if ig.Name == row.Name {
					ig.AddrFlt = !ig.AddrFlt
				}
				specs = append(specs, ig)
			}
			alt, _, err := BuildConfig(w.Spec.Srcs, specs)
			if err != nil {
				return err
			}
			for i := range alt.Integrations {
				if alt.Integrations[i].Name == row.Name {
					if first, err = json.Marshal(alt.Integrations[i]); err != nil {
						return err
					}
				}
			}
		}
		for c := 0; c < row.Copies; c++ {
			conf := last
			if c == 0 && row.Copies > 1 {
				conf = first
			}
			if _, err := w.Pool.Exec(w.ctx, `insert into shovel.integrations(name, conf) values ($1, $2)`, row.Name, conf); err != nil {
				return fmt.Errorf("saving integration %q: %w", row.Name, err)
			}
		}
		w.Conf.Integrations = keep
	}
	return nil
}

// checkDependencies is the static oracle on ValidateFix: for every
// integration, the SET of names in Dependencies equals the set of integrations
// its declaration references through filter_ref (event inputs and block fields).
func (w *World) checkDependencies() {
	w.ConfigAnomalies = nil
	written := refsInJSON(w.JSON)
	for i := range w.Spec.IGs {
		spec := &w.Spec.IGs[i]
		var got []string
		for _, ig := range w.Conf.Integrations {
			if ig.Name == spec.Name {
				got = ig.Dependencies
			}
		}
		set := func(xs []string) string {
			m := map[string]bool{}
			for _, x := range xs {
				m[x] = true
			}
			var ks []string
			for k := range m {
				ks = append(ks, k)
			}
			sort.Strings(ks)
			return fmt.Sprint(ks)
		}
		// what the shape declares and what the configuration TEXT says (filter_ref objects at
		// any depth: event inputs, components of tuple inputs, block fields) must agree
		declared := append(append([]string{}, spec.DeclaredRefs()...), written[spec.Name]...)
		if set(got) != set(declared) {
			w.ConfigAnomalies = append(w.ConfigAnomalies, fmt.Sprintf("ValidateFix: integration %q references %s through filter_ref but Dependencies = %s",
				spec.Name, set(declared), set(got)))
		}
	}
}

// refsInJSON lists, per integration of the configuration text, the integrations named by
// filter_ref objects at ANY depth of its event inputs (components of tuple inputs included)
// and of its block fields.
func refsInJSON(raw string) map[string][]string {
	out := map[string][]string{}
	var root struct {
		Integrations []map[string]any `json:"integrations"`
	}
	if json.Unmarshal([]byte(raw), &root) != nil {
		return out
	}
	var walk func(name string, v any)
	walk = func(name string, v any) {
		switch x := v.(type) {
		case map[string]any:
			if fr, ok := x["filter_ref"].(map[string]any); ok {
				if ig, _ := fr["integration"].(string); ig != "" {
					out[name] = append(out[name], ig)
				}
			}
			for _, k := range []string{"inputs", "components"} {
				walk(name, x[k])
			}
		case []any:
			for _, e := range x {
				walk(name, e)
			}
		}
	}
	for _, ig := range root.Integrations {
		name, _ := ig["name"].(string)
		walk(name, ig["event"])
		walk(name, ig["block"])
	}
	return out
}

// Reconfigure models a restart of the process with another batch size /
// concurrency for source src ("" = every source): the configuration is
// rebuilt, every connection dropped, pool and tasks rebuilt by loadTasks.
// The tasks of the new configuration get new ids (old id + 10) on the same
// (source, integration) pairs.
func (w *World) Reconfigure(src string, batch, conc int) error {
	srcs := append([]SrcSpec{}, w.Spec.Srcs...)
	for i := range srcs {
		if src == "" || srcs[i].Name == src {
			srcs[i].Batch, srcs[i].Conc = batch, conc
		}
	}
	conf, js, err := BuildConfig(srcs, w.Spec.IGs)
	if err != nil {
		return err
	}
	w.Spec.Srcs, w.Conf, w.JSON = srcs, conf, js
	w.Gen++
	return w.Restart(false)
}

// Rep returns the task of the CURRENT configuration that works on the same
// (source, integration) pair as task tid (of any configuration).
func (w *World) Rep(tid int) *TaskH {
	o := w.Task(tid)
	if o == nil {
		return nil
	}
	for _, t := range w.Tasks {
		if t.Info.SrcName == o.Info.SrcName && t.Info.IGName == o.Info.IGName {
			return t
		}
	}
	return o
}

// SamePair reports whether task tid works on t's pair.
func (w *World) SamePair(tid int, t *TaskH) bool {
	o := w.Task(tid)
	return o != nil && o.Info.SrcName == t.Info.SrcName && o.Info.IGName == t.Info.IGName
}

// MaxBatch is the largest batch size any configuration gave t's pair.
func (w *World) MaxBatch(t *TaskH) int {
	m := t.Info.Batch
	for _, o := range w.All {
		if w.SamePair(o.ID, t) && o.Info.Batch > m {
			m = o.Info.Batch
		}
	}
	return m
}

// closePool closes the current pool.  pgxpool.Close waits until every acquired connection
// has been released; a connection leaked by a step (its transaction was never ended) is never
// released, so the pool is then closed in the background and abandoned.
func (w *World) closePool() {
	p := w.Pool
	w.Pool = nil
	if p == nil {
		return
	}
	if w.leakedConns > 0 || !w.poolIdle(p, 0) {
		go p.Close()
		return
	}
	p.Close()
}

// poolIdle waits (at most leakGrace) until no more than allowed connections are acquired.
func (w *World) poolIdle(p *pgxpool.Pool, allowed int) bool {
	t0 := time.Now()
	grace := leakGrace
	if len(w.StepAnomalies) > 0 {
		grace = 20 * time.Millisecond // the case fails anyway: do not spend the grace period again and again
	}
	for int(p.Stat().AcquiredConns()) > allowed {
		if time.Since(t0) > grace {
			return false
		}
		time.Sleep(200 * time.Microsecond)
	}
	return true
}

// checkReturned is the oracle applied when a Converge call of task tid has RETURNED
// (whatever it returned): no session of the fake database has a transaction open and every
// connection is back in the pool - except for the inFlight other steps that the
// statement-level scheduler holds at a statement.
func (w *World) checkReturned(tid int, outcome string, inFlight int) {
	if w.Pool == nil {
		return
	}
	if n := len(w.PG.OpenTransactions()) - inFlight; n > w.leakedTx {
		w.StepAnomalies = append(w.StepAnomalies, fmt.Sprintf("step %d (task %d) returned %s and left %d transaction(s) open on the server: begun, neither committed nor rolled back (their uncommitted rows keep their unique-index entries; a retry has to wait for them)",
			w.stepNo, tid, outcome, n-w.leakedTx))
		w.leakedTx = n
	}
	if !w.poolIdle(w.Pool, inFlight+w.leakedConns) {
		n := int(w.Pool.Stat().AcquiredConns()) - inFlight
		w.StepAnomalies = append(w.StepAnomalies, fmt.Sprintf("step %d (task %d) returned %s without giving its connection back to the pool: %d of %d connections are held by nobody", w.stepNo, tid, outcome, n, PoolMaxConns))
		w.leakedConns = n
	}
}

// hung records a Converge call that did not return within StepTimeout.
func (w *World) hung(tid int) {
	st := w.Pool.Stat()
	w.StepAnomalies = append(w.StepAnomalies, fmt.Sprintf("step %d (task %d) did not return: %d of %d pool connections acquired (%d leaked by earlier steps), %d transaction(s) open on the server: pool exhausted / transaction left open",
		w.stepNo, tid, st.AcquiredConns(), PoolMaxConns, w.leakedConns, len(w.PG.OpenTransactions())))
	w.Rec.Kill(tid)
}

func (w *World) Close() {
	w.closePool()
	if w.PG != nil {
		w.PG.Close()
	}
	for _, n := range w.Nodes {
		if n.sim != nil {
			n.sim.sim.Close()
		}
	}
}

// Task returns the task with the given id (current or earlier configuration).
func (w *World) Task(id int) *TaskH {
	for _, t := range w.Tasks {
		if t.ID == id {
			return t
		}
	}
	for _, t := range w.All {
		if t.ID == id {
			return t
		}
	}
	return nil
}

// Classify maps Converge's result to the outcome classes of the case format.
func Classify(panicked bool, err error) string {
	switch {
	case panicked:
		return "OPanicked"
	case err == nil:
		return "OConverged"
	case errors.Is(err, shovel.ErrNothingNew):
		return "ONothingNew"
	case errors.Is(err, shovel.ErrDone):
		return "ODone"
	case errors.Is(err, shovel.ErrAhead):
		return "OAhead"
	case errors.Is(err, shovel.ErrReorg):
		return "OReorgLimit"
	}
	return "OFailed"
}

// StepResult is what one Converge call did.
type StepResult struct {
	Tid     int
	Outcome string
	Err     string
	Panic   string
	Crashed bool
	First   int    // index of the step's first event
	Last    int    // index after its last event
	Calls   []Call `json:"-"` // node calls of the step (non-interleaved steps only)
}

// Step runs one Converge of task tid to completion (no interleaving).
func (w *World) Step(tid int) StepResult {
	t := w.Task(tid)
	res := StepResult{Tid: tid, First: len(w.Rec.Events)}
	node := w.Nodes[t.Info.SrcName]
	node.beginStep(tid)
	c0 := len(node.Calls())
	w.Rec.SetRunning(tid)
	w.Rec.Start(tid)
	var err error
	var panicked bool
	var msg string
	w.stepNo++
	done := make(chan struct{})
	go func() {
		defer close(done)
		panicked, msg = lib.Catch(func() { err = t.T.Converge() })
	}()
	select {
	case <-done:
	case <-time.After(w.stepTimeout()):
		w.hung(tid)
		res.Outcome, res.Last = "OHung", len(w.Rec.Events)
		return res
	}
	res.Calls = node.Calls()[c0:]
	node.endStepSim()
	res.Outcome = Classify(panicked, err)
	defer func() { w.checkReturned(tid, res.Outcome, 0) }()
	if err != nil {
		res.Err = err.Error()
	}
	res.Panic = msg
	if panicked && w.pendingEmptyLoad(tid) {
		w.Rec.EmptyLoad(tid)
	}
	w.Rec.End(tid, res.Outcome)
	res.Crashed = w.Rec.Crashed()
	res.Last = len(w.Rec.Events)
	return res
}

// pendingEmptyLoad: a panic right after RLatest/QLatestDep without any Get
// call means load started no partition (legacy batch < conc).
func (w *World) pendingEmptyLoad(tid int) bool {
	w.Rec.mu.Lock()
	defer w.Rec.mu.Unlock()
	if len(w.Rec.gets[tid]) > 0 {
		return false
	}
	for i := len(w.Rec.Events) - 1; i >= 0; i-- {
		e := w.Rec.Events[i]
		if e.Tid != tid || e.Kind != "op" {
			continue
		}
		return e.Op.Name == "RLatest" || e.Op.Name == "QLatestDep"
	}
	return false
}

// Restart models process death + restart: every connection is dropped (open
// write sets discarded), the pool is recreated and the tasks are rebuilt by
// loadTasks from the same configuration.  If the crash was not already
// recorded by a crash fault, ECrash + ESnap are recorded now.
func (w *World) Restart(alreadyRecorded bool) error {
	if !alreadyRecorded {
		var ids []int
		for _, t := range w.Tasks {
			ids = append(ids, t.ID)
		}
		w.PG.Crash()
		w.Rec.CrashNow(ids)
	}
	w.Rec.Mute(true)
	defer w.Rec.Mute(false)
	w.closePool()
	return w.connect(false)
}

// ---------------------------------------------------------------- statement-level interleaving

// Sched runs the steps of several tasks interleaved at statement
// granularity: at any moment at most one task goroutine runs; every
// database statement is a scheduling point held by the fakepg gate.
type Sched struct {
	w       *World
	mu      sync.Mutex
	arrive  chan fakepg.StmtInfo
	finish  chan StepResult
	blocked map[int]chan struct{} // tid -> release channel of its held statement
	active  map[int]bool
	running int
}

func (w *World) NewSched() *Sched {
	s := &Sched{w: w, arrive: make(chan fakepg.StmtInfo), finish: make(chan StepResult), blocked: map[int]chan struct{}{}, active: map[int]bool{}}
	w.PG.SetGate(func(i fakepg.StmtInfo) {
		s.mu.Lock()
		tid := s.running
		rel := make(chan struct{})
		if tid != 0 {
			s.blocked[tid] = rel
		}
		s.mu.Unlock()
		if tid == 0 {
			return // not under the scheduler (setup / restart)
		}
		s.arrive <- i
		<-rel
	})
	return s
}

func (s *Sched) Close() { s.w.PG.SetGate(nil) }

// Active reports whether task tid has a step in flight.
func (s *Sched) Active(tid int) bool { return s.active[tid] }

// AnyActive reports whether some step is in flight.
func (s *Sched) AnyActive() bool { return len(s.active) > 0 }

// Advance lets task tid run until its next database statement arrives at the
// gate or its step ends.  If the task is idle a new step is started.  It
// returns the step result when the step ended.
func (s *Sched) Advance(tid int) (ended bool, res StepResult) {
	w := s.w
	s.mu.Lock()
	s.running = tid
	rel := s.blocked[tid]
	delete(s.blocked, tid)
	s.mu.Unlock()
	w.Rec.SetRunning(tid)
	switch {
	case rel != nil:
		close(rel)
	case !s.active[tid]:
		s.active[tid] = true
		t := w.Task(tid)
		w.stepNo++
		w.Nodes[t.Info.SrcName].beginStep(tid)
		w.Rec.Start(tid)
		go func() {
			r := StepResult{Tid: tid}
			var err error
			panicked, msg := lib.Catch(func() { err = t.T.Converge() })
			r.Outcome = Classify(panicked, err)
			if err != nil {
				r.Err = err.Error()
			}
			r.Panic = msg
			s.finish <- r
		}()
	default:
		panic("tasksim: task active but not blocked")
	}
	select {
	case <-s.arrive:
		return false, StepResult{}
	case <-time.After(w.stepTimeout()):
		delete(s.active, tid)
		w.hung(tid)
		s.mu.Lock()
		s.running = 0
		s.mu.Unlock()
		return true, StepResult{Tid: tid, Outcome: "OHung"}
	case r := <-s.finish:
		delete(s.active, tid)
		defer func() { w.checkReturned(tid, r.Outcome, len(s.active)) }()
		if r.Outcome == "OPanicked" && w.pendingEmptyLoad(tid) {
			w.Rec.EmptyLoad(tid)
		}
		w.Rec.End(tid, r.Outcome)
		s.mu.Lock()
		s.running = 0
		s.mu.Unlock()
		return true, r
	}
}

// Drain runs every in-flight step to its end, in task id order.
func (s *Sched) Drain() []StepResult {
	var out []StepResult
	for len(s.active) > 0 {
		ids := make([]int, 0, len(s.active))
		for id := range s.active {
			ids = append(ids, id)
		}
		sort.Ints(ids)
		for {
			ended, r := s.Advance(ids[0])
			if ended {
				out = append(out, r)
				break
			}
		}
	}
	return out
}
