package tasksim

import (
	"fmt"
	"strings"
)

// Coq printers for coq/Corr/TaskCase.v.

func cN(n uint64) string { return fmt.Sprintf("%d", n) }
func cI(n int) string    { return fmt.Sprintf("%d", n) }

func cList(xs []string) string { return "[" + strings.Join(xs, "; ") + "]" }

func (c CurID) Coq() string {
	return fmt.Sprintf("Cur %d %d %d %d", c.Src, c.IG, c.Num, c.Hash)
}

func (r RowID) Coq() string {
	return fmt.Sprintf("Row %d %d %d %d %d %d", r.Tbl, r.Src, r.IG, r.BNum, r.Key, r.Val)
}

func (d DbView) Coq() string {
	var cs, rs []string
	for _, c := range d.Curs {
		cs = append(cs, c.Coq())
	}
	for _, r := range d.Rows {
		rs = append(rs, r.Coq())
	}
	return "(Db " + cList(cs) + " " + cList(rs) + ")"
}

func (b BlkID) Coq() string {
	var rs []string
	for _, r := range b.Rows {
		rs = append(rs, fmt.Sprintf("(%d,%d)", r[0], r[1]))
	}
	return fmt.Sprintf("Blk %d %d %d %s", b.Num, b.Hash, b.Parent, cList(rs))
}

func (o *Op) CoqIO() string {
	switch o.Name {
	case "Begin", "Commit", "Rollback":
		return o.Name
	case "QLatest":
		return fmt.Sprintf("(QLatest %d %d)", o.Src, o.IG)
	case "QLatestDep":
		var ds []string
		for _, d := range o.Deps {
			ds = append(ds, cI(d))
		}
		return fmt.Sprintf("(QLatestDep %d %s)", o.Src, cList(ds))
	case "DelCursors":
		return fmt.Sprintf("(DelCursors %d %d %d)", o.Src, o.IG, o.N)
	case "QPrev":
		return fmt.Sprintf("(QPrev %d %d)", o.Src, o.IG)
	case "DelRows":
		return fmt.Sprintf("(DelRows %d %d %d %d)", o.Tbl, o.Src, o.IG, o.N)
	case "CopyRows":
		var rs []string
		for _, r := range o.Rows {
			rs = append(rs, r.Coq())
		}
		return fmt.Sprintf("(CopyRows %d %s)", o.Tbl, cList(rs))
	case "InsCursor":
		return fmt.Sprintf("(InsCursor (%s) %d %d %d)", o.Cur.Coq(), o.TNum, o.THash, o.NBlocks)
	case "QRef":
		return fmt.Sprintf("(QRef %d %d %d)", o.Tbl, o.Col, o.V)
	case "RLatest":
		return fmt.Sprintf("(RLatest %d)", o.N)
	case "RHash":
		return fmt.Sprintf("(RHash %d)", o.N)
	case "RGet":
		var ps []string
		for _, p := range o.Parts {
			ps = append(ps, fmt.Sprintf("(%d,%d)", p[0], p[1]))
		}
		return "(RGet " + cList(ps) + ")"
	}
	// a statement outside the vocabulary: printed as a reference lookup no model issues
	return "(QRef 0 0 0)"
}

func (o *Op) CoqReply() string {
	if o.Fail != "" {
		return "(RFail " + o.Fail + ")"
	}
	switch o.Name {
	case "Begin", "Commit", "Rollback", "InsCursor":
		return "RUnit"
	case "QLatest":
		if !o.Some {
			return "(RCur None)"
		}
		return fmt.Sprintf("(RCur (Some (%d,%d)))", o.RNum, o.RHashID)
	case "QLatestDep":
		if !o.Some {
			return "(RDep None)"
		}
		return fmt.Sprintf("(RDep (Some (%d,%d,%d)))", o.RNum, o.RHashID, o.RCount)
	case "QPrev":
		if !o.Some {
			return "(RNum None)"
		}
		return fmt.Sprintf("(RNum (Some %d))", o.RNum)
	case "DelCursors", "DelRows", "CopyRows":
		return fmt.Sprintf("(RCount %d)", o.Count)
	case "QRef":
		if o.Bool {
			return "(RBool true)"
		}
		return "(RBool false)"
	case "RLatest":
		return fmt.Sprintf("(RHead %d %d)", o.RNum, o.RHashID)
	case "RHash":
		return fmt.Sprintf("(RHashV %d)", o.RHashID)
	case "RGet":
		var ss []string
		for _, sg := range o.Segs {
			if sg.Fail != "" {
				ss = append(ss, "SegFail "+sg.Fail)
				continue
			}
			var bs []string
			for _, b := range sg.Blocks {
				bs = append(bs, b.Coq())
			}
			ss = append(ss, "SegOk "+cList(bs))
		}
		return "(RSegs " + cList(ss) + ")"
	}
	return "RUnit"
}

func (e Event) Coq() string {
	switch e.Kind {
	case "start":
		return fmt.Sprintf("EStart %d", e.Tid)
	case "end":
		return fmt.Sprintf("EEnd %d %s", e.Tid, e.Out)
	case "op":
		return fmt.Sprintf("EOp %d %s %s", e.Tid, e.Op.CoqIO(), e.Op.CoqReply())
	case "snap":
		return "ESnap " + e.Db.Coq()
	case "crash":
		return "ECrash"
	case "ver":
		return fmt.Sprintf("EVer %d", e.Ver)
	}
	return "ECrash"
}

// TaskCoq prints the tcfg of a task.
func (w *World) TaskCoq(t *TaskH) string {
	var deps []string
	for _, d := range t.Info.Deps {
		deps = append(deps, cI(w.Names.IGID(d)))
	}
	b := func(x bool) string {
		if x {
			return "true"
		}
		return "false"
	}
	return fmt.Sprintf("Task %d %d %d %d %d %d %d %d %s %s %s", t.ID, w.Names.SrcID(t.Info.SrcName), w.Names.IGID(t.Info.IGName),
		w.Names.TblID(t.Info.Table), t.Info.Start, t.Info.Stop, t.Info.Batch, t.Info.Conc, cList(deps), b(t.Spec.hashes()), b(t.Uniq))
}

// ChainsCoq prints every version of every task's source as projected for the task.
func (w *World) ChainsCoq() string {
	var out []string
	for _, t := range w.All {
		node := w.Nodes[t.Info.SrcName]
		for _, ch := range node.Hist.Versions {
			var bs []string
			for _, b := range ch.Blocks {
				bs = append(bs, w.chainBlk(t, ch, b).Coq())
			}
			out = append(out, fmt.Sprintf("ChainV %d %d %s", ch.Ver, t.ID, cList(bs)))
		}
	}
	return "[" + strings.Join(out, ";\n     ") + "]"
}

// chainBlk: block b as the plan of task t serves it (for plans without
// headers the hash is visible only through a matching log; the parent is
// printed as in the real chain).
func (w *World) chainBlk(t *TaskH, ch *Chain, b *Block) BlkID {
	hash := b.Hash
	if !t.Spec.hashes() {
		hash = nil
		for _, tx := range b.Txs {
			for _, l := range tx.Logs {
				if nodeMatches(&t.Info.Filter, l) {
					hash = b.Hash
				}
			}
		}
	}
	return w.Rec.BlkFor(t.ID, ch, b, hash, b.Parent)
}

// CaseCoq prints the whole case.
func (w *World) CaseCoq() string {
	var ts, es []string
	for _, t := range w.All {
		ts = append(ts, w.TaskCoq(t))
	}
	for _, e := range w.Rec.Events {
		es = append(es, e.Coq())
	}
	return "(TCase " + cList(ts) + "\n    " + w.Init.Coq() + "\n    " + w.ChainsCoq() + "\n    [" + strings.Join(es, ";\n     ") + "])"
}
