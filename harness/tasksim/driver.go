package tasksim

import (
	"encoding/json"
	"fmt"
	"os"
	"strings"

	"verif/harness/lib"
)

// Header returns the Coq header of the case files of property C0<x>.
func Header(x int) string {
	return fmt.Sprintf("From Coq Require Import List NArith Bool.\nFrom Shovel Require Import Corr.TaskCase Corr.RunC0%d.\nImport ListNotations. Open Scope N_scope.\n", x)
}

// Judge runs a scenario, applies the oracles and builds the case.
// The case is added to out together with distribution counters (step
// outcomes, injected faults by kind, operations by name).
func Judge(out *lib.Out, sc *Scenario, kind string, oracles func(*Run) []string, nontrivial func(*Run) bool) lib.Case {
	run, err := sc.Exec()
	defer run.Close()
	if err != nil || run == nil {
		msgs := []string{"scenario aborted: " + fmt.Sprint(err)}
		if run != nil && run.W != nil {
			// what was observed before the scenario had to be given up
			for _, a := range run.W.StepAnomalies {
				if len(msgs) < 5 && !strings.Contains(msgs[0], a) {
					msgs = append(msgs, a)
				}
			}
			for _, a := range run.W.Rec.Anomalies {
				if len(msgs) < 7 {
					msgs = append(msgs, "unexpected database traffic: "+a)
				}
			}
		}
		c := lib.Case{Coq: "(TCase [] (Db [] []) [] [])", Desc: sc, Kind: kind, OracleOK: false,
			OracleMsg: strings.Join(msgs, " || "), Size: len(sc.Acts)}
		out.Add(c)
		return c
	}
	for _, st := range run.Steps {
		out.Count("step:" + st.Outcome)
	}
	for _, e := range run.W.Rec.Events {
		switch {
		case e.Kind == "crash":
			out.Count("event:crash")
		case e.Kind == "op" && e.Op.Fail != "":
			out.Count("fail:" + e.Op.Name + ":" + e.Op.Fail)
		case e.Kind == "op" && e.Op.Name == "RGet":
			for _, sg := range e.Op.Segs {
				if sg.Fail != "" {
					out.Count("fail:RGet-partition:" + sg.Fail)
				}
			}
			out.Count(fmt.Sprintf("load:partitions=%d", len(e.Op.Parts)))
		case e.Kind == "op" && (e.Op.Name == "DelCursors" || e.Op.Name == "QLatestDep" || e.Op.Name == "QRef"):
			out.Count("op:" + e.Op.Name)
		}
	}
	var msgs []string
	for i, st := range run.Steps {
		if st.Outcome == "OPanicked" && len(msgs) < 2 {
			msgs = append(msgs, fmt.Sprintf("step %d of task %d panicked: %s", i, st.Tid, st.Panic))
		}
	}
	msgs = append(msgs, run.W.ConfigAnomalies...)
	msgs = append(msgs, run.W.StepAnomalies...)
	msgs = append(msgs, oracles(run)...)
	for _, a := range run.W.Rec.Anomalies {
		if len(msgs) < 10 {
			msgs = append(msgs, "unexpected database traffic: "+a)
		}
	}
	c := lib.Case{Coq: run.W.CaseCoq(), Desc: sc, Kind: kind, Nontrivial: nontrivial(run), OracleOK: len(msgs) == 0,
		OracleMsg: strings.Join(msgs, " || "), Size: len(run.W.Rec.Events)}
	out.Add(c)
	return c
}

// ReplayScenario reads a replay file written by bin/check (or a bare scenario).
func ReplayScenario(path string) (*Scenario, string, error) {
	raw, err := os.ReadFile(path)
	if err != nil {
		return nil, "", err
	}
	var rep struct {
		FailingInput *struct {
			Desc *Scenario `json:"desc"`
			Kind string    `json:"kind"`
		} `json:"failing_input"`
		Broken []struct {
			Detail string `json:"detail"`
		} `json:"broken"`
	}
	if err := json.Unmarshal(raw, &rep); err == nil && rep.FailingInput != nil && rep.FailingInput.Desc != nil {
		return rep.FailingInput.Desc, rep.FailingInput.Kind, nil
	}
	// a correspondence mismatch carries the case description in broken[].detail
	for _, b := range rep.Broken {
		var c struct {
			Desc *Scenario `json:"desc"`
			Kind string    `json:"kind"`
		}
		if json.Unmarshal([]byte(b.Detail), &c) == nil && c.Desc != nil && len(c.Desc.Acts) > 0 {
			return c.Desc, c.Kind, nil
		}
	}
	var sc Scenario
	if err := json.Unmarshal(raw, &sc); err == nil && len(sc.Acts) > 0 {
		return &sc, "replay", nil
	}
	return nil, "", fmt.Errorf("no scenario found in %s", path)
}

// Steps helper: n consecutive steps of task tid.
func Steps(tid, n int) []Act {
	out := make([]Act, n)
	for i := range out {
		out[i] = Act{Do: "step", Tid: tid}
	}
	return out
}

// CountOutcomes tallies step outcomes.
func (r *Run) CountOutcomes() map[string]int {
	m := map[string]int{}
	for _, s := range r.Steps {
		m[s.Outcome]++
	}
	return m
}

// RowsIndexed is the number of rows in the last snapshot.
func (r *Run) RowsIndexed() int {
	for i := len(r.W.Rec.Events) - 1; i >= 0; i-- {
		if e := r.W.Rec.Events[i]; e.Kind == "snap" {
			return len(e.Db.Rows)
		}
	}
	return 0
}

// SawDecoy reports whether some served block carried a log / item that must
// not produce a row (more logs than intended rows).
func (r *Run) SawDecoy() bool {
	for _, n := range r.W.Nodes {
		for _, ch := range n.Hist.Versions {
			for _, b := range ch.Blocks {
				for _, tx := range b.Txs {
					for _, l := range tx.Logs {
						if strings.HasPrefix(l.Kind, "decoy") {
							return true
						}
					}
				}
			}
		}
	}
	return false
}
