package tasksim

import (
	"encoding/binary"
	"fmt"
	"sort"
	"strings"
	"sync"

	"verif/harness/fakepg"
)

// ---------------------------------------------------------------- ids

// Names maps names, hashes and row contents to the small integers of the
// case format.  Source ids are 1.., integration ids 11.. IN ASCENDING NAME
// ORDER, table ids 31..; key / value ids are interned in first-seen order.
type Names struct {
	mu   sync.Mutex
	Src  map[string]int
	IG   map[string]int
	Tbl  map[string]int
	key  map[string]int
	val  map[string]int
	hash map[string]int
}

func NewNames(srcs, igs, tbls []string) *Names {
	n := &Names{Src: map[string]int{}, IG: map[string]int{}, Tbl: map[string]int{}, key: map[string]int{}, val: map[string]int{}, hash: map[string]int{}}
	reg := func(m map[string]int, xs []string, base int) {
		s := append([]string{}, xs...)
		sort.Strings(s)
		for _, x := range s {
			if _, ok := m[x]; !ok {
				m[x] = base + len(m)
			}
		}
	}
	reg(n.Src, srcs, 1)
	reg(n.IG, igs, 11)
	reg(n.Tbl, tbls, 31)
	return n
}

func (n *Names) lookup(m map[string]int, s string, base int) int {
	n.mu.Lock()
	defer n.mu.Unlock()
	if id, ok := m[s]; ok {
		return id
	}
	id := base + len(m)
	m[s] = id
	return id
}

func (n *Names) SrcID(s string) int { return n.lookup(n.Src, s, 1) }
func (n *Names) IGID(s string) int  { return n.lookup(n.IG, s, 11) } // unknown names: appended
func (n *Names) TblID(s string) int { return n.lookup(n.Tbl, strings.TrimPrefix(s, "public."), 31) }
func (n *Names) KeyID(s string) int { return n.lookup(n.key, s, 1) }
func (n *Names) ValID(s string) int { return n.lookup(n.val, s, 1) }

func (n *Names) rev(m map[string]int, id int) string {
	n.mu.Lock()
	defer n.mu.Unlock()
	for k, v := range m {
		if v == id {
			return k
		}
	}
	return fmt.Sprintf("?%d", id)
}

// KeyStr / ValStr give the content behind a key / value id (ids depend on
// the order in which contents were first seen, the contents do not).
func (n *Names) KeyStr(id int) string { return n.rev(n.key, id) }
func (n *Names) ValStr(id int) string { return n.rev(n.val, id) }

// HashID: 0 for the empty hash, the generator's id for generated hashes,
// an interned id >= 900001 for anything else.
func (n *Names) HashID(h []byte) int {
	if len(h) == 0 {
		return 0
	}
	if len(h) == 32 && h[0] == 0xb1 {
		zero := true
		for _, b := range h[1:24] {
			if b != 0 {
				zero = false
			}
		}
		if zero {
			return int(binary.BigEndian.Uint64(h[24:]))
		}
	}
	if len(h) == 32 && h[0] == 0x99 {
		return 999
	}
	return n.lookup(n.hash, string(h), 900001)
}

func nameOf(v fakepg.Value) string {
	switch x := v.(type) {
	case string:
		return x
	case nil:
		return "<NULL>"
	}
	return fakepg.FormatValue(v)
}

// ---------------------------------------------------------------- data

type CurID struct {
	Src, IG int
	Num     uint64
	Hash    int
}

type RowID struct {
	Tbl, Src, IG int
	BNum         uint64
	Key, Val     int
	Ghost        uint64 `json:"-"` // fakepg row identity (insert order); not part of the case
	Null         string `json:"-"` // which of src_name / ig_name / block_num are NULL in the row ("" = none)
}

type DbView struct {
	Curs []CurID
	Rows []RowID
}

type BlkID struct {
	Num          uint64
	Hash, Parent int
	Rows         [][2]int // (key, val) intended for this task
	Ver          int      `json:"-"`
}

type Seg struct {
	Fail   string // "" = ok
	Blocks []BlkID
}

// Op is one operation with its reply.
type Op struct {
	Name    string // Begin Commit Rollback QLatest QLatestDep DelCursors QPrev DelRows CopyRows InsCursor QRef RLatest RHash RGet Unknown
	Src, IG int
	Tbl     int
	N       uint64
	Deps    []int
	Rows    []RowID
	Cur     CurID
	TNum    uint64
	THash   int
	NBlocks uint64
	Col, V  int
	Parts   [][2]uint64

	Fail    string // "" | KErr | KDrop | KDropAfter | KUnique | KPanic
	Count   int    // rows affected
	Some    bool   // option replies: a row was returned
	RNum    uint64
	RHashID int
	RCount  uint64
	Bool    bool
	Segs    []Seg

	SQL      string `json:",omitempty"`
	Err      string `json:",omitempty"`
	Injected bool
	seq      int
	rawV     string // QRef: the looked-up value, interned when the operation is emitted
}

type Event struct {
	Kind string // start end op snap crash ver
	Tid  int
	Op   *Op     `json:",omitempty"`
	Out  string  `json:",omitempty"`
	Db   *DbView `json:",omitempty"`
	Ver  int     `json:",omitempty"`
}

// ---------------------------------------------------------------- recorder

type pendingGet struct {
	call   Call
	src    *TaskSource
	served []ServedBlock
	err    error
	kind   string // failure kind when not a plain error
}

// Recorder merges database statements (fakepg observer) and node calls into
// one event list in observation order.
type Recorder struct {
	mu        sync.Mutex
	names     *Names
	pg        *fakepg.Server
	Events    []Event
	running   int // task whose goroutine is running (statements are attributed to it)
	gets      map[int][]pendingGet
	dead      map[int]bool // tasks whose step was killed by a crash: events suppressed
	crashed   bool
	Anomalies []string // statements outside the vocabulary, non-injected errors
	tableOf   map[int]string
	igs       map[int]*IGSpec // tid -> spec (for intended rows)
	srcOf     map[int]string
	refOnly   map[string]string   // table -> its single content column (QRef col=1 convention)
	cols      map[string][]string // table -> columns (after migration)
	muted     bool
	refBuf    []Event // real-client mode: reference lookups waiting to be emitted in canonical order
	// SnapEvery: record the committed database after every database statement
	SnapEvery bool
	// SortRows (real-client mode): jrpc2's logs()/traces() attach transactions to a
	// block in map-iteration order, so the order of the rows inside a block is not
	// determined; copied and intended rows are both printed sorted by (block, key)
	SortRows bool
}

func NewRecorder(names *Names) *Recorder {
	return &Recorder{names: names, gets: map[int][]pendingGet{}, dead: map[int]bool{}, igs: map[int]*IGSpec{}, srcOf: map[int]string{}, refOnly: map[string]string{}}
}

// Mute suppresses recording (setup statements).
func (r *Recorder) Mute(b bool) {
	r.mu.Lock()
	r.muted = b
	r.mu.Unlock()
}

func (r *Recorder) SetRunning(tid int) {
	r.mu.Lock()
	r.running = tid
	r.mu.Unlock()
}

// add appends an event.  In real-client mode (SortRows) the order of the transactions inside
// a block - and with it the order of a step's reference lookups - varies from run to run
// (jrpc2 attaches transactions by iterating a map): a run of consecutive QRef operations of
// one task, uninterrupted by any other event, is therefore emitted sorted by content, and
// the looked-up values are interned in that order.
func (r *Recorder) add(e Event) {
	if r.SortRows && e.Kind == "op" && e.Op.Name == "QRef" {
		if len(r.refBuf) > 0 && r.refBuf[0].Tid != e.Tid {
			r.flushRefs()
		}
		r.refBuf = append(r.refBuf, e)
		return
	}
	r.flushRefs()
	r.Events = append(r.Events, e)
}

func (r *Recorder) flushRefs() {
	if len(r.refBuf) == 0 {
		return
	}
	buf := r.refBuf
	r.refBuf = nil
	sort.SliceStable(buf, func(i, j int) bool {
		a, b := buf[i].Op, buf[j].Op
		if a.Tbl != b.Tbl {
			return a.Tbl < b.Tbl
		}
		if a.Col != b.Col {
			return a.Col < b.Col
		}
		if a.rawV != b.rawV {
			return a.rawV < b.rawV
		}
		if a.Bool != b.Bool {
			return !a.Bool
		}
		return a.Fail < b.Fail
	})
	for _, e := range buf {
		e.Op.V = r.names.ValID(e.Op.rawV)
		r.Events = append(r.Events, e)
	}
}

func (r *Recorder) Ver(v int) {
	r.mu.Lock()
	defer r.mu.Unlock()
	r.add(Event{Kind: "ver", Ver: v})
}

func (r *Recorder) Start(tid int) {
	r.mu.Lock()
	defer r.mu.Unlock()
	delete(r.dead, tid)
	r.add(Event{Kind: "start", Tid: tid})
}

// End closes a step (unless a crash killed it).
func (r *Recorder) End(tid int, outcome string) {
	r.mu.Lock()
	defer r.mu.Unlock()
	if r.dead[tid] {
		delete(r.gets, tid)
		return
	}
	r.flushGets(tid)
	r.snap()
	r.add(Event{Kind: "end", Tid: tid, Out: outcome})
}

// Kill suppresses every further event of task tid (its step never returned).
func (r *Recorder) Kill(tid int) {
	r.mu.Lock()
	r.dead[tid] = true
	delete(r.gets, tid)
	r.mu.Unlock()
}

// Snap records the committed database now.
func (r *Recorder) Snap() {
	r.mu.Lock()
	defer r.mu.Unlock()
	r.snap()
}

func (r *Recorder) snap() {
	v := r.View(r.pg.Snapshot())
	r.add(Event{Kind: "snap", Db: &v})
}

// CrashNow records process death (used when the crash is not tied to a statement).
func (r *Recorder) CrashNow(tids []int) {
	r.mu.Lock()
	defer r.mu.Unlock()
	r.crash(tids)
}

func (r *Recorder) crash(tids []int) {
	for _, t := range tids {
		r.dead[t] = true
		delete(r.gets, t)
	}
	r.add(Event{Kind: "crash"})
	r.snap()
}

// View converts a fakepg snapshot into ids.
func (r *Recorder) View(s fakepg.Snapshot) DbView {
	var v DbView
	for i := range s.Tables {
		t := &s.Tables[i]
		if t.Name == "shovel.task_updates" {
			si, ii, ni, hi := t.Col("src_name"), t.Col("ig_name"), t.Col("num"), t.Col("hash")
			for _, row := range t.Rows {
				c := CurID{}
				if si >= 0 {
					c.Src = r.names.SrcID(nameOf(row.Vals[si]))
				}
				if ii >= 0 {
					c.IG = r.names.IGID(nameOf(row.Vals[ii]))
				}
				if ni >= 0 {
					c.Num, _ = fakepg.Uint64(row.Vals[ni])
				}
				if hi >= 0 {
					if b, ok := row.Vals[hi].([]byte); ok {
						c.Hash = r.names.HashID(b)
					}
				}
				v.Curs = append(v.Curs, c)
			}
			continue
		}
		if !strings.HasPrefix(t.Name, "public.") || t.Col("src_name") < 0 || t.Col("ig_name") < 0 || t.Col("block_num") < 0 {
			continue
		}
		for _, row := range t.Rows {
			rw := r.rowID(t.Name, t.Columns, row.Vals)
			rw.Ghost = row.ID
			v.Rows = append(v.Rows, rw)
		}
	}
	sort.SliceStable(v.Curs, func(i, j int) bool {
		a, b := v.Curs[i], v.Curs[j]
		if a.Src != b.Src {
			return a.Src < b.Src
		}
		if a.IG != b.IG {
			return a.IG < b.IG
		}
		return a.Num < b.Num
	})
	sort.SliceStable(v.Rows, func(i, j int) bool {
		a, b := v.Rows[i], v.Rows[j]
		if a.Tbl != b.Tbl {
			return a.Tbl < b.Tbl
		}
		if a.Src != b.Src {
			return a.Src < b.Src
		}
		if a.IG != b.IG {
			return a.IG < b.IG
		}
		if a.BNum != b.BNum {
			return a.BNum < b.BNum
		}
		if a.Key != b.Key {
			return a.Key < b.Key
		}
		return a.Ghost < b.Ghost
	})
	return v
}

func (r *Recorder) rowID(table string, cols []string, vals []fakepg.Value) RowID {
	get := func(c string) fakepg.Value {
		for i, n := range cols {
			if n == c && i < len(vals) {
				return vals[i]
			}
		}
		return nil
	}
	// canonical form over ALL columns of the table (a COPY names only the
	// integration's own columns; the others are NULL)
	all := cols
	if tc, ok := r.cols[strings.TrimPrefix(table, "public.")]; ok {
		all = tc
	}
	src, ig, bn, key, val := CanonRow(all, get)
	rw := RowID{Tbl: r.names.TblID(table), Src: r.names.SrcID(nameOf(src)), IG: r.names.IGID(nameOf(ig)),
		Key: r.names.KeyID(key), Val: r.names.ValID(val)}
	rw.BNum, _ = fakepg.Uint64(bn)
	for _, c := range []string{"src_name", "ig_name", "block_num"} {
		if get(c) == nil {
			rw.Null += " " + c
		}
	}
	return rw
}

// IntendedRow canonicalises an intended row of a table with the given columns.
func (r *Recorder) IntendedRow(table string, cols []string, rv RowVals) RowID {
	get := func(c string) fakepg.Value { return rv[c] }
	src, ig, bn, key, val := CanonRow(cols, get)
	rw := RowID{Tbl: r.names.TblID(table), Src: r.names.SrcID(nameOf(src)), IG: r.names.IGID(nameOf(ig)),
		Key: r.names.KeyID(key), Val: r.names.ValID(val)}
	rw.BNum, _ = fakepg.Uint64(bn)
	return rw
}

func (r *Recorder) tableCols(table string) []string {
	if c, ok := r.cols[table]; ok {
		return c
	}
	t := r.pg.Snapshot().Table(table)
	if t == nil {
		return nil
	}
	return t.Columns
}

// ---------------------------------------------------------------- node calls

func (r *Recorder) failKind(err error) string {
	if err != nil {
		return "KErr"
	}
	return ""
}

func (r *Recorder) RPCLatest(c Call, num uint64, hash []byte, err error) {
	r.RPCLatestK(c, num, hash, r.failKind(err))
}

func (r *Recorder) RPCLatestK(c Call, num uint64, hash []byte, kind string) {
	r.mu.Lock()
	defer r.mu.Unlock()
	if r.muted || r.dead[c.Task] {
		return
	}
	r.flushGets(c.Task)
	r.add(Event{Kind: "op", Tid: c.Task, Op: &Op{Name: "RLatest", N: c.N, Fail: kind, RNum: num, RHashID: r.names.HashID(hash)}})
}

// Anomaly records something outside the vocabulary of the case format.
func (r *Recorder) Anomaly(msg string) {
	r.mu.Lock()
	r.Anomalies = append(r.Anomalies, msg)
	r.mu.Unlock()
}

func (r *Recorder) RPCHash(c Call, hash []byte, err error) {
	r.RPCHashK(c, hash, r.failKind(err))
}

func (r *Recorder) RPCHashK(c Call, hash []byte, kind string) {
	r.mu.Lock()
	defer r.mu.Unlock()
	if r.muted || r.dead[c.Task] {
		return
	}
	r.flushGets(c.Task)
	r.add(Event{Kind: "op", Tid: c.Task, Op: &Op{Name: "RHash", N: c.N, Fail: kind, RHashID: r.names.HashID(hash)}})
}

// RPCGetK records a partition that failed with the given kind.
func (r *Recorder) RPCGetK(c Call, kind string) {
	r.mu.Lock()
	defer r.mu.Unlock()
	if r.muted || r.dead[c.Task] {
		return
	}
	r.gets[c.Task] = append(r.gets[c.Task], pendingGet{call: c, kind: kind})
}

func (r *Recorder) RPCGet(c Call, src *TaskSource, served []ServedBlock, err error) {
	r.mu.Lock()
	defer r.mu.Unlock()
	if r.muted || r.dead[c.Task] {
		return
	}
	r.gets[c.Task] = append(r.gets[c.Task], pendingGet{call: c, src: src, served: served, err: err})
}

// BlkFor renders block b of chain ch as task tid sees it.
func (r *Recorder) BlkFor(tid int, ch *Chain, b *Block, hash, parent []byte) BlkID {
	ig, src := r.igs[tid], r.srcOf[tid]
	out := BlkID{Num: b.Num, Hash: r.names.HashID(hash), Parent: r.names.HashID(parent), Ver: ch.Ver}
	if ig == nil {
		return out
	}
	cols := r.tableCols(ig.Table)
	for _, rv := range ig.Project(ch, b, src) {
		id := r.IntendedRow(ig.Table, cols, rv)
		out.Rows = append(out.Rows, [2]int{id.Key, id.Val})
	}
	if r.SortRows {
		sort.SliceStable(out.Rows, func(i, j int) bool {
			if out.Rows[i][0] != out.Rows[j][0] {
				return out.Rows[i][0] < out.Rows[j][0]
			}
			return out.Rows[i][1] < out.Rows[j][1]
		})
	}
	return out
}

// flushGets turns the Get calls of one load into one RGet op (partitions by start).
func (r *Recorder) flushGets(tid int) {
	gs := r.gets[tid]
	if len(gs) == 0 {
		return
	}
	delete(r.gets, tid)
	sort.SliceStable(gs, func(i, j int) bool { return gs[i].call.Start < gs[j].call.Start })
	op := &Op{Name: "RGet"}
	for _, g := range gs {
		op.Parts = append(op.Parts, [2]uint64{g.call.Start, g.call.Limit})
		if g.kind != "" {
			op.Segs = append(op.Segs, Seg{Fail: g.kind})
			continue
		}
		if g.err != nil {
			op.Segs = append(op.Segs, Seg{Fail: "KErr"})
			continue
		}
		var sg Seg
		for _, sb := range g.served {
			sg.Blocks = append(sg.Blocks, r.BlkFor(tid, sb.Chain, sb.B, sb.Hash, sb.Parent))
		}
		op.Segs = append(op.Segs, sg)
	}
	r.add(Event{Kind: "op", Tid: tid, Op: op})
}

// EmptyLoad records a load that started no partition at all (legacy batch < conc).
func (r *Recorder) EmptyLoad(tid int) {
	r.mu.Lock()
	defer r.mu.Unlock()
	r.add(Event{Kind: "op", Tid: tid, Op: &Op{Name: "RGet"}})
}

// ---------------------------------------------------------------- database statements

// Observe is installed as the fakepg observer.
func (r *Recorder) Observe(e fakepg.Entry) {
	r.mu.Lock()
	defer r.mu.Unlock()
	if r.muted {
		return
	}
	tid := r.running
	if r.dead[tid] {
		return
	}
	if e.Kind == "set" || e.Kind == "disconnect" {
		return
	}
	r.flushGets(tid)
	op := r.classify(tid, e)
	op.seq = e.Seq
	crashBefore := strings.HasPrefix(e.Outcome, "crash") && !strings.HasPrefix(e.Outcome, "crash-after")
	crashAfter := strings.HasPrefix(e.Outcome, "crash-after")
	if !crashBefore {
		r.add(Event{Kind: "op", Tid: tid, Op: op})
	}
	if crashBefore || crashAfter {
		r.crashed = true
		all := []int{}
		for t := range r.igs {
			all = append(all, t)
		}
		r.crash(all)
		return
	}
	if r.SnapEvery || op.Name == "Commit" || op.Name == "Rollback" || op.Fail == "KDrop" || op.Fail == "KDropAfter" {
		r.snap()
	}
}

// CrashAt records process death from inside a node call of a running step.
func (r *Recorder) CrashAt(tids []int) {
	r.mu.Lock()
	defer r.mu.Unlock()
	r.crashed = true
	r.crash(tids) // a load in flight is dropped: its RGet never completed
}

// Crashed reports (and clears) whether a crash fault fired since the last call.
func (r *Recorder) Crashed() bool {
	r.mu.Lock()
	defer r.mu.Unlock()
	c := r.crashed
	r.crashed = false
	return c
}

func bytesOf(v fakepg.Value) []byte {
	b, _ := v.([]byte)
	return b
}

func (r *Recorder) classify(tid int, e fakepg.Entry) *Op {
	op := &Op{SQL: e.SQL}
	// reply class
	switch {
	case e.Fault == "error":
		op.Fail, op.Injected = "KErr", true
	case e.Fault == "drop" || e.Fault == "crash":
		op.Fail, op.Injected = "KDrop", true
	case e.Fault == "drop-after" || e.Fault == "crash-after":
		op.Injected = true
		if strings.Contains(e.Outcome, "(ok)") {
			op.Fail = "KDropAfter"
		} else {
			op.Fail = "KDrop" // executed but failed by itself: no effect
		}
	case strings.HasPrefix(e.Outcome, "error:23505"):
		op.Fail = "KUnique"
	case strings.HasPrefix(e.Outcome, "error:"):
		op.Fail = "KErr"
		op.Err = e.Err
		r.Anomalies = append(r.Anomalies, fmt.Sprintf("statement failed by itself: %s: %s", e.SQL, e.Err))
	}
	op.Count = e.Affected
	par := func(i int) fakepg.Value {
		if i < len(e.Params) {
			return e.Params[i]
		}
		return nil
	}
	colIdx := func(name string) int {
		for i, c := range e.Cols {
			if c == name {
				return i
			}
		}
		return -1
	}
	cell := func(name string) fakepg.Value {
		if len(e.Rows) == 0 {
			return nil
		}
		if i := colIdx(name); i >= 0 && i < len(e.Rows[0]) {
			return e.Rows[0][i]
		}
		return nil
	}
	lower := strings.ToLower(e.SQL)
	switch e.Kind {
	case "begin":
		op.Name = "Begin"
	case "commit":
		op.Name = "Commit"
		if e.Tag == "ROLLBACK" && op.Fail == "" {
			// commit of an aborted transaction: the client sees an error, nothing is committed
			op.Fail = "KErr"
		}
	case "rollback":
		op.Name = "Rollback"
	case "select":
		switch {
		case e.Table == "shovel.task_updates" && strings.HasPrefix(lower, "with "):
			op.Name = "QLatestDep"
			op.Src = r.names.SrcID(nameOf(par(0)))
			if arr, ok := par(1).([]fakepg.Value); ok {
				for _, d := range arr {
					op.Deps = append(op.Deps, r.names.IGID(nameOf(d)))
				}
			}
			if len(e.Rows) > 0 {
				op.Some = true
				op.RNum, _ = fakepg.Uint64(cell("num"))
				op.RHashID = r.names.HashID(bytesOf(cell("hash")))
				if len(e.Rows[0]) >= 3 {
					op.RCount, _ = fakepg.Uint64(e.Rows[0][2])
				}
			}
		case e.Table == "shovel.task_updates" && colIdx("num") >= 0 && colIdx("hash") >= 0:
			op.Name = "QLatest"
			op.Src, op.IG = r.names.SrcID(nameOf(par(0))), r.names.IGID(nameOf(par(1)))
			if len(e.Rows) > 0 {
				op.Some = true
				op.RNum, _ = fakepg.Uint64(cell("num"))
				op.RHashID = r.names.HashID(bytesOf(cell("hash")))
			}
		case e.Table == "shovel.task_updates" && colIdx("num") >= 0 && len(e.Cols) == 1:
			op.Name = "QPrev"
			op.Src, op.IG = r.names.SrcID(nameOf(par(0))), r.names.IGID(nameOf(par(1)))
			if len(e.Rows) > 0 {
				op.Some = true
				op.RNum, _ = fakepg.Uint64(cell("num"))
			}
		case strings.HasPrefix(lower, "select true from "):
			op.Name = "QRef"
			op.Tbl = r.names.TblID(e.Table)
			op.Col = 2
			rest := strings.Fields(lower[len("select true from "):])
			if len(rest) >= 3 && r.refOnly[strings.TrimPrefix(e.Table, "public.")] == rest[2] {
				op.Col = 1
			}
			op.rawV = fakepg.FormatValue(par(0))
			if !r.SortRows {
				op.V = r.names.ValID(op.rawV)
			}
			op.Bool = len(e.Rows) > 0
		default:
			op.Name = "Unknown"
		}
	case "delete":
		switch {
		case e.Table == "shovel.task_updates" && len(e.Params) == 3:
			op.Name = "DelCursors"
			op.Src, op.IG = r.names.SrcID(nameOf(par(0))), r.names.IGID(nameOf(par(1)))
			op.N, _ = fakepg.Uint64(par(2))
		case strings.HasPrefix(e.Table, "public.") && len(e.Params) == 3:
			op.Name = "DelRows"
			op.Tbl = r.names.TblID(e.Table)
			op.Src, op.IG = r.names.SrcID(nameOf(par(0))), r.names.IGID(nameOf(par(1)))
			op.N, _ = fakepg.Uint64(par(2))
		default:
			op.Name = "Unknown"
		}
	case "copy":
		op.Name = "CopyRows"
		op.Tbl = r.names.TblID(e.Table)
		for _, row := range e.Rows {
			op.Rows = append(op.Rows, r.rowID(e.Table, e.Cols, row))
		}
		if r.SortRows {
			sort.SliceStable(op.Rows, func(i, j int) bool {
				a, b := op.Rows[i], op.Rows[j]
				if a.BNum != b.BNum {
					return a.BNum < b.BNum
				}
				if a.Key != b.Key {
					return a.Key < b.Key
				}
				return a.Val < b.Val
			})
		}
	case "insert":
		if e.Table == "shovel.task_updates" && len(e.Params) == 11 {
			op.Name = "InsCursor"
			op.Cur.Src, op.Cur.IG = r.names.SrcID(nameOf(par(1))), r.names.IGID(nameOf(par(2)))
			op.Cur.Num, _ = fakepg.Uint64(par(3))
			op.Cur.Hash = r.names.HashID(bytesOf(par(4)))
			op.TNum, _ = fakepg.Uint64(par(5))
			op.THash = r.names.HashID(bytesOf(par(6)))
			op.NBlocks, _ = fakepg.Uint64(par(8))
		} else {
			op.Name = "Unknown"
		}
	default:
		op.Name = "Unknown"
	}
	if op.Name == "Unknown" {
		r.Anomalies = append(r.Anomalies, "statement outside the task vocabulary: "+e.SQL)
	}
	return op
}
