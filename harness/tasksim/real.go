package tasksim

import (
	"bytes"
	"context"
	"fmt"
	"sync"

	"github.com/indexsupply/shovel/eth"
	"github.com/indexsupply/shovel/jrpc2"
	"github.com/indexsupply/shovel/shovel"
	"github.com/indexsupply/shovel/shovel/glf"

	"verif/harness/simnode"
)

// Real-client mode: the tasks keep the jrpc2.Client that loadTasks built
// (one per source, shared by the source's tasks, with its real head / header /
// block caches and maxreads = number of integrations) and talk HTTP JSON-RPC
// to a simnode that serves the same chain versions.  A thin wrapper per task
// records every Source call with what the client returned.

// toSim converts a chain version for the HTTP node.
func toSim(c *Chain) *simnode.Chain {
	out := &simnode.Chain{}
	for _, b := range c.Blocks {
		sb := simnode.Block{Num: b.Num, Hash: b.Hash, Parent: b.Parent, Time: b.Time}
		for _, tx := range b.Txs {
			st := simnode.Tx{Idx: tx.Idx, Hash: tx.Hash, Type: 2, From: tx.From, To: tx.To, Value: tx.Value,
				Nonce: 1, GasPrice: 1, Gas: 21000, V: 1, R: 1, S: 1, ChainID: 1, MaxPrio: 1, MaxFee: 1,
				Status: 1, GasUsed: 21000, EffectiveGasPrice: 1}
			for _, l := range tx.Logs {
				st.Logs = append(st.Logs, simnode.Log{Idx: l.Idx, Address: l.Addr, Topics: l.Topics, Data: l.Data})
			}
			for _, ta := range tx.Traces {
				st.Traces = append(st.Traces, simnode.Trace{From: ta.From, To: ta.To, CallType: ta.CallType, Value: ta.Value})
			}
			sb.Txs = append(sb.Txs, st)
		}
		out.Blocks = append(out.Blocks, sb)
	}
	return out
}

// simState is the HTTP side of a Node in real-client mode.
type simState struct {
	mu     sync.Mutex
	sim    *simnode.Node
	added  int // chain versions handed to the simnode so far
	nx     int // exchanges seen in the current step
	failAt int // -1 = off: the exchange with this index gets HTTP 500
	swAt   int // -1 = off: exchanges with index >= swAt are answered from swVer
	swVer  int
	lagAt  int // -1 = off: exchanges with index >= lagAt see the node lagKth blocks behind
	lagK   uint64
	heads  func(version int) uint64
}

// enableSim starts the HTTP node for n.
func (n *Node) enableSim() {
	st := &simState{failAt: -1, swAt: -1, lagAt: -1}
	st.heads = func(v int) uint64 { return n.Hist.Versions[v].Head().Num }
	st.sim = simnode.New(toSim(n.Hist.Versions[0]))
	st.added = 1
	st.sim.Pre(func(x *simnode.Exchange) {
		st.mu.Lock()
		i := st.nx
		st.nx++
		if st.failAt == i {
			x.Status = 500
			st.failAt = -1
		}
		if st.swAt >= 0 && i >= st.swAt {
			x.Version = st.swVer - 1
		}
		if st.lagAt >= 0 && i >= st.lagAt {
			if h := st.heads(x.Version); h > st.lagK {
				hd := h - st.lagK
				x.Head = &hd
			}
		}
		st.mu.Unlock()
	})
	n.sim = st
}

// syncSim hands new chain versions to the simnode and selects the served one.
func (n *Node) syncSim() {
	if n.sim == nil {
		return
	}
	for n.sim.added < len(n.Hist.Versions) {
		n.sim.sim.AddChain(toSim(n.Hist.Versions[n.sim.added]))
		n.sim.added++
	}
	n.mu.Lock()
	cur, lag := n.cur, n.lag
	n.mu.Unlock()
	n.sim.sim.SetChain(cur - 1)
	head := n.Hist.Versions[cur-1].Head().Num
	if lag > 0 && lag <= head {
		n.sim.sim.SetHead(head - lag)
	} else {
		n.sim.sim.ClearHead()
	}
}

// XFail: the k-th HTTP exchange of the next step is answered with status 500.
func (n *Node) XFail(k int) {
	n.sim.mu.Lock()
	n.sim.failAt = k
	n.sim.mu.Unlock()
}

// XSwitch: in the next step, HTTP exchanges with index >= k are answered from version ver.
func (n *Node) XSwitch(k, ver int) {
	n.syncSim()
	n.sim.mu.Lock()
	n.sim.swAt, n.sim.swVer = k, ver
	n.sim.mu.Unlock()
}

// XLag: in the next step, HTTP exchanges with index >= k are answered by a
// node that is behind by lag blocks (while earlier ones saw the full chain).
func (n *Node) XLag(k int, lag uint64) {
	n.sim.mu.Lock()
	n.sim.lagAt, n.sim.lagK = k, lag
	n.sim.mu.Unlock()
}

func (n *Node) beginStepSim() {
	if n.sim == nil {
		return
	}
	n.sim.mu.Lock()
	n.sim.nx = 0
	n.sim.mu.Unlock()
}

func (n *Node) endStepSim() {
	if n.sim == nil {
		return
	}
	n.sim.mu.Lock()
	n.sim.failAt, n.sim.swAt, n.sim.lagAt = -1, -1, -1
	n.sim.mu.Unlock()
}

// RealSource wraps the jrpc2 client of a task.
type RealSource struct {
	inner shovel.Source
	node  *Node
	tid   int
	ig    *IGSpec
	src   string
	batch int // the task's batch size (0 = unknown)
}

func (n *Node) RealSourceFor(tid int, ig *IGSpec, srcName string, inner shovel.Source, batch int) *RealSource {
	return &RealSource{inner: inner, node: n, tid: tid, ig: ig, src: srcName, batch: batch}
}

func (s *RealSource) NextURL() *jrpc2.URL { return s.inner.NextURL() }

func (s *RealSource) Latest(ctx context.Context, url string, n uint64) (num uint64, hash []byte, err error) {
	c, _, _, _ := s.node.decide(Call{Task: s.tid, Kind: "latest", N: n})
	defer func() {
		if r := recover(); r != nil {
			s.node.rec.RPCLatestK(c, 0, nil, "KPanic")
			panic(r)
		}
	}()
	num, hash, err = s.inner.Latest(ctx, url, n)
	s.node.rec.RPCLatest(c, num, hash, err)
	return
}

func (s *RealSource) Hash(ctx context.Context, url string, n uint64) (hash []byte, err error) {
	c, _, _, _ := s.node.decide(Call{Task: s.tid, Kind: "hash", N: n})
	defer func() {
		if r := recover(); r != nil {
			s.node.rec.RPCHashK(c, nil, "KPanic")
			panic(r)
		}
	}()
	hash, err = s.inner.Hash(ctx, url, n)
	s.node.rec.RPCHash(c, hash, err)
	return
}

func (s *RealSource) Get(ctx context.Context, url string, f *glf.Filter, start, limit uint64) (blocks []eth.Block, err error) {
	c, _, _, _ := s.node.decide(Call{Task: s.tid, Kind: "get", Start: start, Limit: limit})
	defer func() {
		if r := recover(); r != nil {
			// a panic in a partition goroutine would kill the process; it is
			// reported as a failed partition and as an anomaly instead
			err = fmt.Errorf("Source.Get panicked: %v", r)
			blocks = nil
			s.node.rec.RPCGetK(c, "KPanic")
			s.node.rec.Anomaly(fmt.Sprintf("jrpc2.Client.Get(%d, %d) panicked: %v", start, limit, r))
		}
	}()
	blocks, err = s.inner.Get(ctx, url, f, start, limit)
	if err != nil {
		s.node.rec.RPCGet(c, nil, nil, err)
		return
	}
	if s.batch > 0 && int(c.Off)+len(blocks) > s.batch {
		// more blocks than the WHOLE load may have: Task.insert would index its per-partition
		// destinations out of range inside a goroutine of its own, which no caller can recover
		// and which kills the process (and with it every other case of the run).  Reported,
		// and the partition is failed instead.  (Smaller excesses are passed on: their
		// consequences are what the oracles look at.)
		s.node.rec.Anomaly(fmt.Sprintf("jrpc2.Client.Get(start %d, limit %d) returned %d blocks %d..%d: with the partitions before it more than the batch size %d; not handed to the task (Task.insert would panic: index out of range)",
			start, limit, len(blocks), blocks[0].Num(), blocks[len(blocks)-1].Num(), s.batch))
		blocks, err = nil, fmt.Errorf("tasksim: Get(%d, %d) returned %d blocks", start, limit, len(blocks))
		s.node.rec.RPCGet(c, nil, nil, err)
		return
	}
	served := make([]ServedBlock, len(blocks))
	for i := range blocks {
		served[i] = s.node.identify(&blocks[i])
	}
	s.node.rec.RPCGet(c, nil, served, nil)
	return
}

// identify finds the block of the history that the client returned (by number
// and hash; a block without a hash - logs-only plan, no matching log - is
// taken from the version being served).
func (n *Node) identify(b *eth.Block) ServedBlock {
	hash, parent := append([]byte{}, b.Header.Hash...), append([]byte{}, b.Header.Parent...)
	n.mu.Lock()
	cur := n.cur
	n.mu.Unlock()
	if len(hash) == 0 {
		ch := n.Hist.Versions[cur-1]
		if blk := ch.At(b.Num()); blk != nil {
			return ServedBlock{Chain: ch, B: &Block{Num: blk.Num, Tag: blk.Tag, Hash: blk.Hash, Parent: blk.Parent, Time: blk.Time}, Hash: hash, Parent: parent}
		}
	}
	for v := len(n.Hist.Versions) - 1; v >= 0; v-- {
		ch := n.Hist.Versions[v]
		if blk := ch.At(b.Num()); blk != nil && bytes.Equal(blk.Hash, hash) {
			return ServedBlock{Chain: ch, B: blk, Hash: hash, Parent: parent}
		}
	}
	// not a block of the history: printed with the hash seen and no rows
	return ServedBlock{Chain: n.Hist.Versions[cur-1], B: &Block{Num: b.Num(), Hash: hash, Parent: parent}, Hash: hash, Parent: parent}
}
