// Package tasksim is the shared machinery of the task-layer drivers
// (harness/cmd/c01..c06): chain histories, integration shapes with their
// intended rows, a scripted shovel.Source, a world (fakepg + pool + real
// tasks from loadTasks), a recorder that merges database statements and node
// calls into the case format of coq/Corr/TaskCase.v, and the direct oracles.
package tasksim

import (
	"encoding/binary"
	"fmt"

	"golang.org/x/crypto/sha3"

	"verif/harness/lib"
)

func keccak(d []byte) []byte {
	k := sha3.NewLegacyKeccak256()
	k.Write(d)
	return k.Sum(nil)
}

// ---------------------------------------------------------------- chain data

// Log is one log of a transaction.  Intent fields say what the generator
// meant; Topics/Data are built FROM them (never the reverse).
type Log struct {
	Idx    uint64 // block-wide log index
	Addr   []byte // emitting contract
	Topics [][]byte
	Data   []byte
	Kind   string   // order (maker = From, amt = Value) | transfer | created | tags | decoy-topic (= Approval) | decoy-count | decoy-nodata | decoy-short
	From   []byte   // transfer; decoy-topic: owner
	To     []byte   // transfer; decoy-topic: spender
	Value  uint64   // transfer; decoy-topic: allowance
	Made   []byte   // created
	Tags   []string // tags: the elements of the string[] argument
}

type Trace struct {
	From, To []byte
	Value    uint64
	CallType string
}

type Tx struct {
	Idx    uint64
	Hash   []byte
	From   []byte
	To     []byte
	Value  uint64
	Logs   []*Log
	Traces []*Trace
}

type Block struct {
	Num    uint64
	Tag    int // fork the block was created on
	Hash   []byte
	Parent []byte
	Time   uint64
	Txs    []*Tx
}

// Chain is one version: Blocks[i].Num == i.
type Chain struct {
	Ver    int
	Blocks []*Block
}

func (c *Chain) Head() *Block { return c.Blocks[len(c.Blocks)-1] }

func (c *Chain) At(n uint64) *Block {
	if n < uint64(len(c.Blocks)) {
		return c.Blocks[n]
	}
	return nil
}

// HashID: hash id of block (tag, num) is tag*1000 + num + 1 (never 0); the
// 32-byte value carries the id in its last 8 bytes.
func HashBytes(tag int, num uint64) []byte {
	h := make([]byte, 32)
	h[0] = 0xb1
	binary.BigEndian.PutUint64(h[24:], uint64(tag)*1000+num+1)
	return h
}

// Addr returns a 20-byte address with a small id.
func Addr(i int) []byte {
	a := make([]byte, 20)
	a[0] = 0xa0
	binary.BigEndian.PutUint32(a[16:], uint32(i))
	return a
}

func word(b []byte) []byte {
	w := make([]byte, 32)
	copy(w[32-len(b):], b)
	return w
}

func wordU64(v uint64) []byte {
	w := make([]byte, 32)
	binary.BigEndian.PutUint64(w[24:], v)
	return w
}

// Event signatures used by the shapes.
const (
	SigTransfer = "Transfer(address,address,uint256)"
	SigCreated  = "Created(address)"
	SigApproval = "Approval(address,address,uint256)"
	SigTags     = "Tags(string[])"
	// one topic, a static tuple in the data: maker, amt
	SigOrder = "Order((address,uint256))"
	// three topics and NO data (a Transfer-shaped declaration would need one word)
	SigOwnership = "OwnershipTransferred(address,address)"
	// three topics, emitted by a raw LOG3 with four bytes of data
	SigPing = "Ping(address,address,bytes4)"
)

// encodeStringArray is the ABI encoding of one dynamic argument of type string[].
func encodeStringArray(xs []string) []byte {
	pad := func(b []byte) []byte {
		for len(b)%32 != 0 {
			b = append(b, 0)
		}
		return b
	}
	var tails [][]byte
	for _, x := range xs {
		tails = append(tails, append(wordU64(uint64(len(x))), pad([]byte(x))...))
	}
	out := wordU64(32)                             // offset of the array
	out = append(out, wordU64(uint64(len(xs)))...) // its length
	off := uint64(32 * len(xs))                    // element offsets count from the first offset word
	for _, t := range tails {
		out = append(out, wordU64(off)...)
		off += uint64(len(t))
	}
	for _, t := range tails {
		out = append(out, t...)
	}
	return out
}

func Topic0(sig string) []byte { return keccak([]byte(sig)) }

var (
	TokenAddr = Addr(200) // the contract the log shapes may filter on
	OtherAddr = Addr(201)
)

// GenOpts controls block content.
type GenOpts struct {
	MaxTxs  int
	MaxLogs int  // per transaction
	Traces  bool // generate trace actions
	Created bool // generate Created(address) logs (for filter_ref graphs)
	Decoys  bool
	// Orders: generate Order((address maker, uint256 amt) o) logs; the maker is picked like
	// the sender of a transfer (often an address created earlier: filter_ref graphs)
	Orders bool `json:",omitempty"`
	// OtherEvery: with Decoys one Transfer in OtherEvery is emitted by OtherAddr instead of
	// the token (0 = 4)
	OtherEvery int `json:",omitempty"`
	// TopicTwins: further decoys with the topic COUNT of Transfer / Approval but another
	// topic0 and data shorter than one word (none at all; four bytes).  With Decoys the
	// chain already has Approval logs (three topics, one word): "decoy-topic".
	TopicTwins bool
	Tags       bool // generate Tags(string[]) logs (1-4 elements, some of them empty strings)
	EmptyProb  int  // percent of blocks with no transaction
	// AlwaysTrace: every block above 0 has a transaction and every transaction at
	// least one trace action (jrpc2.traces treats an empty trace_block result as an error)
	AlwaysTrace bool
	MakeToken   bool // block 1 creates TokenAddr (for references on block field log_addr)
	// AddrBase separates the created addresses of different sources (reference
	// lookups are not keyed by source: equal addresses on two chains would make
	// the intended rows of one source depend on the progress of the other)
	AddrBase int `json:"-"`
	// ForkIsolated: transfers on a replacement fork use only addresses created
	// below the fork point (or never created): what a dependent derives from a
	// block then does not depend on whether its reference has already replaced
	// its own rows of the orphaned blocks
	ForkIsolated bool
}

// GenState tracks what the generator has handed out along one fork.
type GenState struct {
	Created [][]byte // addresses created so far on this fork (ascending block order)
	nextNew int
	// pickable: how many of Created a transfer may use as sender (-1 = all)
	pickable int
}

func (s *GenState) clone() *GenState {
	return &GenState{Created: append([][]byte{}, s.Created...), nextNew: s.nextNew, pickable: s.pickable}
}

// GenBlock creates block num on fork tag.
func GenBlock(r *lib.RNG, tag int, num uint64, parent []byte, o GenOpts, st *GenState) *Block {
	b := &Block{Num: num, Tag: tag, Hash: HashBytes(tag, num), Parent: parent, Time: 1_600_000_000 + num*12 + uint64(tag)}
	// (with MakeToken block 1 always has the transaction that creates the token address)
	if num == 0 || (!o.AlwaysTrace && !(o.MakeToken && num == 1) && r.Intn(100) < o.EmptyProb) {
		return b
	}
	ntx := r.Range(1, max(1, o.MaxTxs))
	logIdx := uint64(0)
	for ti := 0; ti < ntx; ti++ {
		tx := &Tx{Idx: uint64(ti), From: Addr(300 + r.Intn(4)), To: Addr(310 + r.Intn(3)), Value: uint64(r.Intn(1000))}
		tx.Hash = keccak([]byte(fmt.Sprintf("tx-%d-%d-%d", tag, num, ti)))
		nlogs := r.Intn(o.MaxLogs + 1)
		if o.MakeToken && num == 1 && ti == 0 {
			l := &Log{Idx: logIdx, Kind: "created", Made: TokenAddr, Addr: OtherAddr}
			logIdx++
			l.Topics = [][]byte{Topic0(SigCreated), word(l.Made)}
			st.Created = append(st.Created, l.Made)
			tx.Logs = append(tx.Logs, l)
		}
		for li := 0; li < nlogs; li++ {
			l := &Log{Idx: logIdx}
			logIdx++
			k := r.Intn(100)
			switch {
			case o.Tags && k >= 50 && k < 80:
				l.Kind, l.Addr = "tags", TokenAddr
				words := []string{"", "a", "", "bb", "ccc", "", "a-longer-tag-that-needs-more-than-thirty-two-bytes-of-data"}
				for n := r.Range(1, 4); n > 0; n-- {
					l.Tags = append(l.Tags, words[r.Intn(len(words))])
				}
				l.Topics = [][]byte{Topic0(SigTags)}
				l.Data = encodeStringArray(l.Tags)
			case o.Orders && k >= 80:
				l.Kind, l.Addr = "order", TokenAddr
				npick := len(st.Created)
				if st.pickable >= 0 && st.pickable < npick {
					npick = st.pickable
				}
				if npick > 0 && r.Bool() {
					l.From = st.Created[r.Intn(npick)]
				} else {
					l.From = Addr(1 + r.Intn(6)) // never created
				}
				l.Value = uint64(r.Intn(1 << 20))
				l.Topics = [][]byte{Topic0(SigOrder)}
				l.Data = append(word(l.From), wordU64(l.Value)...)
			case o.Created && k < 25:
				st.nextNew++
				l.Kind, l.Made, l.Addr = "created", Addr(1000+o.AddrBase+tag*100000+st.nextNew), TokenAddr
				l.Topics = [][]byte{Topic0(SigCreated), word(l.Made)}
				st.Created = append(st.Created, l.Made)
			case o.Decoys && k < 40:
				// an Approval: a decoy for the Transfer shapes, THE event of shape "appr"
				l.Kind, l.Addr = "decoy-topic", TokenAddr
				l.From, l.To, l.Value = Addr(1), Addr(2), uint64(r.Intn(99))
				l.Topics = [][]byte{Topic0(SigApproval), word(l.From), word(l.To)}
				l.Data = wordU64(l.Value)
			case o.TopicTwins && k >= 90 && k < 95:
				l.Kind, l.Addr = "decoy-nodata", TokenAddr
				l.Topics = [][]byte{Topic0(SigOwnership), word(Addr(3)), word(Addr(4))}
			case o.TopicTwins && k >= 95:
				l.Kind, l.Addr = "decoy-short", TokenAddr
				l.Topics = [][]byte{Topic0(SigPing), word(Addr(3)), word(Addr(4))}
				l.Data = []byte{0xde, 0xad, 0xbe, 0xef}
			case o.Decoys && k < 50:
				// same topic0, other topic count (ERC-721 style Transfer)
				l.Kind, l.Addr = "decoy-count", TokenAddr
				l.Topics = [][]byte{Topic0(SigTransfer), word(Addr(1)), word(Addr(2)), wordU64(7)}
			default:
				l.Kind = "transfer"
				l.Addr = TokenAddr
				every := o.OtherEvery
				if every < 2 {
					every = 4
				}
				if o.Decoys && r.Intn(every) == 0 {
					l.Addr = OtherAddr
				}
				npick := len(st.Created)
				if st.pickable >= 0 && st.pickable < npick {
					npick = st.pickable
				}
				if o.Created && npick > 0 && r.Bool() {
					l.From = st.Created[r.Intn(npick)]
				} else {
					l.From = Addr(1 + r.Intn(6)) // never created
				}
				l.To = Addr(10 + r.Intn(6))
				l.Value = uint64(r.Intn(1 << 20))
				l.Topics = [][]byte{Topic0(SigTransfer), word(l.From), word(l.To)}
				l.Data = wordU64(l.Value)
			}
			tx.Logs = append(tx.Logs, l)
		}
		if o.Traces {
			nta := r.Intn(3)
			if o.AlwaysTrace {
				nta = 1 + r.Intn(2)
			}
			for k := nta; k > 0; k-- {
				tx.Traces = append(tx.Traces, &Trace{From: Addr(320 + r.Intn(3)), To: Addr(330 + r.Intn(3)),
					Value: uint64(r.Intn(500)), CallType: "call"})
			}
		}
		b.Txs = append(b.Txs, tx)
	}
	return b
}

// History is a sequence of chain versions.
type History struct {
	Opts     GenOpts
	Versions []*Chain
	states   []*GenState // generator state at the head of each version
	nextTag  int
}

// NewHistory creates version 1 with blocks 0..head.
func NewHistory(r *lib.RNG, head int, o GenOpts) *History {
	h := &History{Opts: o, nextTag: 1}
	st := &GenState{pickable: -1}
	c := &Chain{Ver: 1}
	var parent []byte = make([]byte, 32)
	parent[0] = 0x99
	for n := 0; n <= head; n++ {
		b := GenBlock(r, 1, uint64(n), parent, o, st)
		c.Blocks = append(c.Blocks, b)
		parent = b.Hash
	}
	h.Versions = []*Chain{c}
	h.states = []*GenState{st}
	return h
}

func (h *History) Last() *Chain { return h.Versions[len(h.Versions)-1] }

// Grow appends a version extending the last one by k blocks.
func (h *History) Grow(r *lib.RNG, k int) *Chain {
	prev := h.Last()
	st := h.states[len(h.states)-1].clone()
	c := &Chain{Ver: len(h.Versions) + 1, Blocks: append([]*Block{}, prev.Blocks...)}
	tag := prev.Head().Tag
	for i := 0; i < k; i++ {
		p := c.Head()
		c.Blocks = append(c.Blocks, GenBlock(r, tag, p.Num+1, p.Hash, h.Opts, st))
	}
	h.Versions = append(h.Versions, c)
	h.states = append(h.states, st)
	return c
}

// Reorg appends a version that keeps blocks below fork and has newLen fresh
// blocks from fork on (newLen >= 1), on a new tag.
func (h *History) Reorg(r *lib.RNG, fork uint64, newLen int) *Chain {
	prev := h.Last()
	if fork < 1 {
		fork = 1
	}
	if fork > prev.Head().Num {
		fork = prev.Head().Num
	}
	h.nextTag++
	tag := h.nextTag
	// generator state of the common prefix: recompute the created set
	st := &GenState{nextNew: h.states[len(h.states)-1].nextNew, pickable: -1}
	for _, b := range prev.Blocks[:fork] {
		for _, tx := range b.Txs {
			for _, l := range tx.Logs {
				if l.Kind == "created" {
					st.Created = append(st.Created, l.Made)
				}
			}
		}
	}
	if h.Opts.ForkIsolated {
		st.pickable = len(st.Created) // only addresses created below the fork point
	}
	c := &Chain{Ver: len(h.Versions) + 1, Blocks: append([]*Block{}, prev.Blocks[:fork]...)}
	for i := 0; i < newLen; i++ {
		p := c.Head()
		c.Blocks = append(c.Blocks, GenBlock(r, tag, p.Num+1, p.Hash, h.Opts, st))
	}
	h.Versions = append(h.Versions, c)
	h.states = append(h.states, st)
	return c
}

// CreatedIn is the set of addresses created in blocks lo..hi of c.
func (c *Chain) CreatedIn(lo, hi uint64) map[string]bool {
	out := map[string]bool{}
	for _, b := range c.Blocks {
		if b.Num > hi {
			break
		}
		if b.Num < lo {
			continue
		}
		for _, tx := range b.Txs {
			for _, l := range tx.Logs {
				if l.Kind == "created" {
					out[string(l.Made)] = true
				}
			}
		}
	}
	return out
}
