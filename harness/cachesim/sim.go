// Package cachesim: a small scripted JSON-RPC node for the C08 driver
// (unchanging chain, failure injection per request class, request counters,
// a gate for the head poller) and the canonical dump of eth.Block values.
package cachesim

import (
	"encoding/binary"
	"encoding/hex"
	"encoding/json"
	"fmt"
	"io"
	"net/http"
	"net/http/httptest"
	"strconv"
	"strings"
	"sync"
)

// ---- the chain (block number = index) ----

type Log struct{ Idx, Addr, Body uint64 }
type Tx struct {
	Idx, Hash uint64
	Logs      []Log
	Traces    []uint64 // body ids of the transaction's trace actions, in order
}
type Block struct {
	Hash, Time uint64
	Txs        []Tx
}
type Chain []Block

// Sentinel id for bytes that do not carry the expected pattern.
const BadID = 999999999

// Hash32 is the 32-byte value standing for id (0 = empty).
func Hash32(id uint64) []byte {
	if id == 0 {
		return nil
	}
	b := make([]byte, 32)
	for i := 0; i < 4; i++ {
		binary.BigEndian.PutUint64(b[8*i:], id)
	}
	return b
}

func ID32(b []byte) uint64 {
	if len(b) == 0 {
		return 0
	}
	if len(b) != 32 {
		return BadID
	}
	id := binary.BigEndian.Uint64(b)
	for i := 1; i < 4; i++ {
		if binary.BigEndian.Uint64(b[8*i:]) != id {
			return BadID
		}
	}
	return id
}

func Addr20(id uint64) []byte {
	b := make([]byte, 20)
	for i := 0; i < 5; i++ {
		binary.BigEndian.PutUint32(b[4*i:], uint32(id))
	}
	return b
}

func IDAddr(b []byte) uint64 {
	if len(b) != 20 {
		return BadID
	}
	id := binary.BigEndian.Uint32(b)
	for i := 1; i < 5; i++ {
		if binary.BigEndian.Uint32(b[4*i:]) != id {
			return BadID
		}
	}
	return uint64(id)
}

func hx(b []byte) string { return "0x" + hex.EncodeToString(b) }
func qn(n uint64) string { return "0x" + strconv.FormatUint(n, 16) }

// AddrHex is the filter string of an address id.
func AddrHex(id uint64) string { return hx(Addr20(id)) }

func (c Chain) parent(n uint64) []byte {
	if n == 0 {
		return Hash32(7777777)
	}
	return Hash32(c[n-1].Hash)
}

func logJSON(l Log) map[string]any {
	return map[string]any{
		"logIndex": qn(l.Idx),
		"address":  hx(Addr20(l.Addr)),
		"topics":   []string{hx(Hash32(l.Body + 1))},
		"data":     hx(Hash32(l.Body)),
	}
}

func (c Chain) headerJSON(n uint64) map[string]any {
	return map[string]any{
		"number":     qn(n),
		"hash":       hx(Hash32(c[n].Hash)),
		"parentHash": hx(c.parent(n)),
		"timestamp":  qn(c[n].Time),
		"logsBloom":  "0x00",
	}
}

func (c Chain) blockJSON(n uint64, full bool) map[string]any {
	m := c.headerJSON(n)
	if full {
		txs := []any{}
		for _, t := range c[n].Txs {
			txs = append(txs, map[string]any{
				"transactionIndex": qn(t.Idx),
				"hash":             hx(Hash32(t.Hash)),
				"type":             "0x2",
				"nonce":            "0x1",
				"gas":              "0x5208",
				"from":             hx(Addr20(1)),
				"to":               hx(Addr20(2)),
				"input":            "0x",
				"value":            "0x0",
			})
		}
		m["transactions"] = txs
	}
	return m
}

func (c Chain) receiptsJSON(n uint64) []any {
	res := []any{}
	for _, t := range c[n].Txs {
		logs := []any{}
		for _, l := range t.Logs {
			logs = append(logs, logJSON(l))
		}
		res = append(res, map[string]any{
			"blockHash":         hx(Hash32(c[n].Hash)),
			"blockNumber":       qn(n),
			"transactionHash":   hx(Hash32(t.Hash)),
			"transactionIndex":  qn(t.Idx),
			"type":              "0x2",
			"from":              hx(Addr20(1)),
			"to":                hx(Addr20(2)),
			"status":            "0x1",
			"gasUsed":           "0x5208",
			"effectiveGasPrice": "0x1",
			"contractAddress":   "0x",
			"logs":              logs,
		})
	}
	return res
}

// trace_block(n): every trace of the block, transaction by transaction
func (c Chain) tracesJSON(n uint64) []any {
	res := []any{}
	for _, t := range c[n].Txs {
		for _, body := range t.Traces {
			res = append(res, map[string]any{
				"blockHash":           hx(Hash32(c[n].Hash)),
				"blockNumber":         n,
				"transactionHash":     hx(Hash32(t.Hash)),
				"transactionPosition": t.Idx,
				"action": map[string]any{
					"from": hx(Addr20(body)), "to": hx(Addr20(body + 1)),
					"callType": "call", "value": qn(body),
				},
			})
		}
	}
	return res
}

func (c Chain) logsJSON(from, to uint64, addrs []string) []any {
	res := []any{}
	for n := from; n <= to && n < uint64(len(c)); n++ {
		for _, t := range c[n].Txs {
			for _, l := range t.Logs {
				if len(addrs) > 0 {
					ok := false
					for _, a := range addrs {
						if strings.EqualFold(a, hx(Addr20(l.Addr))) {
							ok = true
						}
					}
					if !ok {
						continue
					}
				}
				m := logJSON(l)
				m["blockHash"] = hx(Hash32(c[n].Hash))
				m["blockNumber"] = qn(n)
				m["transactionHash"] = hx(Hash32(t.Hash))
				m["transactionIndex"] = qn(t.Idx)
				m["removed"] = false
				res = append(res, m)
			}
		}
	}
	return res
}

// ---- the server ----

type Head struct {
	Num  uint64
	Hash []byte
}

// Fault kinds.
const (
	FaultHTTP  = iota // status 500
	FaultRPC          // error member with a non-zero code
	FaultTrunc        // body cut in the middle
	// base requests only (others fall back to FaultRPC): the reply decodes and
	// carries blocks, but Client.blocks/headers must reject it in validate --
	// and they return the rejected blocks TOGETHER with the error
	FaultBadLink  // one block is not the chain's (other hash): the next parent link is broken
	FaultRenumber // the last block carries the wrong number
	NFaults
)

// BadHashDelta is added to the hash id of the block a FaultBadLink reply replaces.
const BadHashDelta = 5000

type rpcReq struct {
	ID     string            `json:"id"`
	Method string            `json:"method"`
	Params []json.RawMessage `json:"params"`
}

// Request classes.
const (
	ClsBase   = "base"   // batch of eth_getBlockByNumber(number, full)
	ClsExtra  = "extra"  // eth_getLogs pair or eth_getBlockReceipts batch
	ClsLatest = "latest" // direct eth_getBlockByNumber("latest") of Client.Latest
	ClsPoll   = "poll"   // the same from httpPoll (id "1")
	ClsTrace  = "trace"  // trace_block(n), one request per block
)

// PollAnswer is what a released poll request is answered with.
type PollAnswer struct {
	Head Head
	Fail bool
}

type Server struct {
	Chain Chain
	// Alt: a second version of the chain (a reorg: same blocks below some
	// height, other blocks from there on).  verBase / verAttach say which
	// version answers the blocks/headers batch and which one the receipts /
	// logs / trace requests (0 = Chain, 1 = Alt).
	Alt Chain
	HS  *httptest.Server

	mu        sync.Mutex
	failBase  bool
	failExtra bool
	faultKind int
	// per-key budget of base requests to fail (concurrent runs)
	failKeys           map[[2]uint64]int
	failTrce           map[uint64]int // block number -> trace_block requests to fail
	verBase, verAttach int
	// parking: the next parkLeft blocks/headers batches announce themselves on
	// Parked and are answered only after a token arrives on ParkRelease (the
	// request is "in flight": the caller sits inside the cache's getter)
	parkLeft    int
	Parked      chan struct{}
	ParkRelease chan struct{}
	counts      map[string]int
	head        *Head // answer to a direct "latest" (nil = fail)

	// poll gate: every poll request announces itself on Arrived and waits for
	// an answer on Release; nil = polls are answered like direct requests
	Arrived chan struct{}
	Release chan PollAnswer
	// number of poll requests currently waiting at the gate, and the maximum seen
	waiting, MaxWaiting int
}

func NewServer(c Chain) *Server {
	s := &Server{Chain: c, counts: map[string]int{}, failKeys: map[[2]uint64]int{}, failTrce: map[uint64]int{}}
	s.HS = httptest.NewServer(http.HandlerFunc(s.handle))
	return s
}

func (s *Server) URL() string { return s.HS.URL }
func (s *Server) Close()      { s.HS.Close() }

func (s *Server) SetFaults(base, extra bool, kind int) {
	s.mu.Lock()
	s.failBase, s.failExtra, s.faultKind = base, extra, kind
	s.mu.Unlock()
}

// FailKey makes the next n base requests for (start, limit) fail.
func (s *Server) FailKey(start, limit uint64, n int) {
	s.mu.Lock()
	s.failKeys[[2]uint64{start, limit}] = n
	s.mu.Unlock()
}

// FailTrace makes the next k trace_block requests for block n fail (0 clears).
func (s *Server) FailTrace(n uint64, k int) {
	s.mu.Lock()
	s.failTrce[n] = k
	s.mu.Unlock()
}

// ParkBase makes the next n blocks/headers batches wait for ParkRelease.
func (s *Server) ParkBase(n int) {
	s.mu.Lock()
	if s.Parked == nil {
		s.Parked = make(chan struct{}, 16)
		s.ParkRelease = make(chan struct{}, 16)
	}
	s.parkLeft = n
	s.mu.Unlock()
}

// SetVersions chooses the chain version per request class.
func (s *Server) SetVersions(base, attach int) {
	s.mu.Lock()
	s.verBase, s.verAttach = base, attach
	s.mu.Unlock()
}

func (s *Server) SetHead(h *Head) {
	s.mu.Lock()
	s.head = h
	s.mu.Unlock()
}

func (s *Server) Count(cls string) int {
	s.mu.Lock()
	defer s.mu.Unlock()
	return s.counts[cls]
}

func (s *Server) Counts() map[string]int {
	s.mu.Lock()
	defer s.mu.Unlock()
	m := map[string]int{}
	for k, v := range s.counts {
		m[k] = v
	}
	return m
}

func parseQ(raw json.RawMessage) (uint64, bool) {
	var str string
	if json.Unmarshal(raw, &str) != nil || !strings.HasPrefix(str, "0x") {
		return 0, false
	}
	n, err := strconv.ParseUint(str[2:], 16, 64)
	return n, err == nil
}

func (s *Server) fault(w http.ResponseWriter, kind int, ids []string, batch bool) {
	switch kind {
	case FaultHTTP:
		w.WriteHeader(500)
		io.WriteString(w, "scripted failure")
	case FaultTrunc:
		w.Header().Set("content-type", "application/json")
		io.WriteString(w, `[{"jsonrpc":"2.0","id":"x","resu`)
	default:
		var out []any
		for _, id := range ids {
			out = append(out, map[string]any{"jsonrpc": "2.0", "id": id,
				"error": map[string]any{"code": -32000, "message": "scripted failure"}})
		}
		w.Header().Set("content-type", "application/json")
		if batch {
			json.NewEncoder(w).Encode(out)
		} else {
			json.NewEncoder(w).Encode(out[0])
		}
	}
}

func (s *Server) handle(w http.ResponseWriter, r *http.Request) {
	body, _ := io.ReadAll(r.Body)
	var reqs []rpcReq
	batch := true
	if err := json.Unmarshal(body, &reqs); err != nil {
		var one rpcReq
		if err := json.Unmarshal(body, &one); err != nil {
			w.WriteHeader(400)
			return
		}
		reqs, batch = []rpcReq{one}, false
	}
	if len(reqs) == 0 {
		w.WriteHeader(400)
		return
	}
	ids := make([]string, len(reqs))
	for i := range reqs {
		ids[i] = reqs[i].ID
	}

	// classify
	cls := ClsBase
	switch {
	case !batch && reqs[0].Method == "trace_block":
		cls = ClsTrace
	case !batch:
		cls = ClsLatest
		if reqs[0].ID == "1" {
			cls = ClsPoll
		}
	case reqs[0].Method == "eth_getBlockReceipts" || (len(reqs) == 2 && reqs[1].Method == "eth_getLogs"):
		cls = ClsExtra
	}

	if cls == ClsPoll && s.Arrived != nil {
		s.mu.Lock()
		s.counts[cls]++
		s.waiting++
		if s.waiting > s.MaxWaiting {
			s.MaxWaiting = s.waiting
		}
		s.mu.Unlock()
		s.Arrived <- struct{}{}
		ans, ok := <-s.Release
		s.mu.Lock()
		s.waiting--
		s.mu.Unlock()
		if !ok || ans.Fail {
			s.fault(w, FaultHTTP, ids, false)
			return
		}
		s.writeHead(w, ids[0], ans.Head)
		return
	}

	s.mu.Lock()
	park := false
	if cls == ClsBase && s.parkLeft > 0 {
		s.parkLeft--
		park = true
	}
	s.mu.Unlock()
	if park {
		s.Parked <- struct{}{}
		<-s.ParkRelease
	}

	s.mu.Lock()
	s.counts[cls]++
	fail := (cls == ClsBase && s.failBase) || (cls == ClsExtra && s.failExtra)
	kind := s.faultKind
	chain := s.Chain
	if s.Alt != nil && ((cls == ClsBase && s.verBase == 1) || ((cls == ClsExtra || cls == ClsTrace) && s.verAttach == 1)) {
		chain = s.Alt
	}
	var head *Head
	if s.head != nil {
		h := *s.head
		head = &h
	}
	if cls == ClsTrace {
		if n, ok := parseQ(reqs[0].Params[0]); ok && s.failTrce[n] > 0 {
			s.failTrce[n]--
			fail = true
		}
	}
	if cls == ClsBase {
		if first, ok := parseQ(reqs[0].Params[0]); ok {
			k := [2]uint64{first, uint64(len(reqs))}
			if s.failKeys[k] > 0 {
				s.failKeys[k]--
				fail = true
			}
		}
	}
	s.mu.Unlock()

	corrupt := 0
	if fail && cls == ClsBase && kind >= FaultBadLink {
		corrupt = kind
		if kind == FaultBadLink && len(reqs) < 2 {
			corrupt = FaultRenumber // a single block has no link to break
		}
		fail = false
	} else if fail && kind >= FaultBadLink {
		kind = FaultRPC
	}
	if fail {
		s.fault(w, kind, ids, batch)
		return
	}

	switch cls {
	case ClsTrace:
		n, ok := parseQ(reqs[0].Params[0])
		var result any
		if ok && n < uint64(len(chain)) {
			result = chain.tracesJSON(n)
		}
		w.Header().Set("content-type", "application/json")
		json.NewEncoder(w).Encode(map[string]any{"jsonrpc": "2.0", "id": ids[0], "result": result})
	case ClsLatest, ClsPoll:
		if head == nil {
			s.fault(w, kind, ids, false)
			return
		}
		s.writeHead(w, ids[0], *head)
	case ClsBase:
		var out []any
		for i := range reqs {
			n, ok := parseQ(reqs[i].Params[0])
			var full bool
			json.Unmarshal(reqs[i].Params[1], &full)
			if !ok || n >= uint64(len(chain)) {
				out = append(out, map[string]any{"jsonrpc": "2.0", "id": ids[i], "result": nil})
				continue
			}
			bj := chain.blockJSON(n, full)
			switch {
			case corrupt == FaultBadLink && i == (len(reqs)-1)/2:
				bj["hash"] = hx(Hash32(chain[n].Hash + BadHashDelta))
			case corrupt == FaultRenumber && i == len(reqs)-1:
				bj["number"] = qn(n + 1)
				bj["hash"] = hx(Hash32(chain[n].Hash + BadHashDelta))
			}
			out = append(out, map[string]any{"jsonrpc": "2.0", "id": ids[i], "result": bj})
		}
		w.Header().Set("content-type", "application/json")
		json.NewEncoder(w).Encode(out)
	case ClsExtra:
		var out []any
		if reqs[0].Method == "eth_getBlockReceipts" {
			for i := range reqs {
				n, ok := parseQ(reqs[i].Params[0])
				if !ok || n >= uint64(len(chain)) {
					out = append(out, map[string]any{"jsonrpc": "2.0", "id": ids[i], "result": nil})
					continue
				}
				out = append(out, map[string]any{"jsonrpc": "2.0", "id": ids[i], "result": chain.receiptsJSON(n)})
			}
		} else {
			to, _ := parseQ(reqs[0].Params[0])
			var hdr any
			if to < uint64(len(chain)) {
				hdr = chain.headerJSON(to)
			}
			var lf struct {
				From    string   `json:"fromBlock"`
				To      string   `json:"toBlock"`
				Address []string `json:"address"`
			}
			json.Unmarshal(reqs[1].Params[0], &lf)
			a, _ := strconv.ParseUint(strings.TrimPrefix(lf.From, "0x"), 16, 64)
			b, _ := strconv.ParseUint(strings.TrimPrefix(lf.To, "0x"), 16, 64)
			out = append(out, map[string]any{"jsonrpc": "2.0", "id": ids[0], "result": hdr})
			out = append(out, map[string]any{"jsonrpc": "2.0", "id": ids[1], "result": chain.logsJSON(a, b, lf.Address)})
		}
		w.Header().Set("content-type", "application/json")
		json.NewEncoder(w).Encode(out)
	}
}

func (s *Server) writeHead(w http.ResponseWriter, id string, h Head) {
	w.Header().Set("content-type", "application/json")
	json.NewEncoder(w).Encode(map[string]any{"jsonrpc": "2.0", "id": id, "result": map[string]any{
		"number":     qn(h.Num),
		"hash":       hx(h.Hash),
		"parentHash": hx(Hash32(1)),
		"timestamp":  "0x1",
		"logsBloom":  "0x00",
	}})
}

// Describe is used in case descriptions.
func (c Chain) Describe() string {
	var sb strings.Builder
	for n, b := range c {
		fmt.Fprintf(&sb, "%d:h%d[", n, b.Hash)
		for _, t := range b.Txs {
			fmt.Fprintf(&sb, "tx%d(", t.Idx)
			for _, l := range t.Logs {
				fmt.Fprintf(&sb, "%d@%d ", l.Idx, l.Addr)
			}
			sb.WriteString(")")
		}
		sb.WriteString("] ")
	}
	return sb.String()
}
