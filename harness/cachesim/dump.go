package cachesim

import (
	"fmt"
	"sort"
	"strings"

	"github.com/indexsupply/shovel/eth"
)

// Canonical form of the implementation's blocks: ids instead of byte strings,
// transactions sorted by index (stable), logs in the order they are stored.

type DLog struct{ Idx, Addr, Body uint64 }
type DTx struct {
	Idx, Hash, Status uint64
	Logs              []DLog
	Traces            []uint64 // body ids of the trace actions, in order
}
type DBlock struct {
	Num, Hash, Time uint64
	Txs             []DTx
	Parent          uint64 // id of the parent hash (oracle only; not part of the Coq term)
}

func dumpLog(l *eth.Log) DLog {
	body := ID32(l.Data)
	if len(l.Topics) != 1 || ID32(l.Topics[0]) != body+1 {
		body = BadID
	}
	return DLog{Idx: uint64(l.Idx), Addr: IDAddr(l.Address), Body: body}
}

// a trace action carries body in from, body+1 in to, "call", and its position as index
func dumpTrace(ta *eth.TraceAction, pos int) uint64 {
	body := IDAddr(ta.From)
	if IDAddr(ta.To) != body+1 || ta.CallType != "call" || ta.Idx != uint64(pos) || ta.Value.Uint64() != body {
		return BadID
	}
	return body
}

// DumpBlock reads one block; with lock it holds the block's own mutex while
// reading (what logs() holds while attaching).
func DumpBlock(b *eth.Block, lock bool) DBlock {
	if lock {
		b.Lock()
		defer b.Unlock()
	}
	d := DumpBlockRaw(b)
	sort.SliceStable(d.Txs, func(i, j int) bool { return d.Txs[i].Idx < d.Txs[j].Idx })
	return d
}

// DumpBlockRaw keeps the transactions in the order the block stores them.
func DumpBlockRaw(b *eth.Block) DBlock {
	d := DBlock{Num: b.Num(), Hash: ID32(b.Header.Hash), Time: uint64(b.Header.Time), Parent: ID32(b.Header.Parent)}
	for i := range b.Txs {
		t := &b.Txs[i]
		dt := DTx{Idx: uint64(t.Idx), Hash: ID32(t.PrecompHash), Status: uint64(t.Status)}
		for j := range t.Logs {
			dt.Logs = append(dt.Logs, dumpLog(&t.Logs[j]))
		}
		for j := range t.TraceActions {
			dt.Traces = append(dt.Traces, dumpTrace(&t.TraceActions[j], j))
		}
		d.Txs = append(d.Txs, dt)
	}
	return d
}

func DumpBlocks(bs []eth.Block, lock bool) []DBlock {
	res := make([]DBlock, len(bs))
	for i := range bs {
		res[i] = DumpBlock(&bs[i], lock)
	}
	return res
}

// ---- Coq printers (Model/LogAttach.v records) ----

func (l DLog) Coq() string { return fmt.Sprintf("mkLog %d %d %d", l.Idx, l.Addr, l.Body) }

func CoqLogs(ls []DLog) string {
	xs := make([]string, len(ls))
	for i, l := range ls {
		xs[i] = l.Coq()
	}
	return "[" + strings.Join(xs, "; ") + "]"
}

func CoqNs(xs []uint64) string {
	ss := make([]string, len(xs))
	for i, x := range xs {
		ss[i] = fmt.Sprint(x)
	}
	return "[" + strings.Join(ss, "; ") + "]"
}

func (t DTx) Coq() string {
	return fmt.Sprintf("mkTx %d %d %d %s %s", t.Idx, t.Hash, t.Status, CoqLogs(t.Logs), CoqNs(t.Traces))
}

func (b DBlock) Coq() string {
	xs := make([]string, len(b.Txs))
	for i, t := range b.Txs {
		xs[i] = t.Coq()
	}
	return fmt.Sprintf("mkBlk %d %d %d [%s]", b.Num, b.Hash, b.Time, strings.Join(xs, "; "))
}

func CoqBlocks(bs []DBlock) string {
	xs := make([]string, len(bs))
	for i, b := range bs {
		xs[i] = b.Coq()
	}
	return "[" + strings.Join(xs, "; ") + "]"
}

// Coq term of the chain (Model/CGet.v: list cblock).
func (c Chain) Coq() string {
	bs := make([]string, len(c))
	for i, b := range c {
		txs := make([]string, len(b.Txs))
		for j, t := range b.Txs {
			ls := make([]DLog, len(t.Logs))
			for k, l := range t.Logs {
				ls[k] = DLog(l)
			}
			txs[j] = fmt.Sprintf("mkCtx %d %d %s %s", t.Idx, t.Hash, CoqLogs(ls), CoqNs(t.Traces))
		}
		bs[i] = fmt.Sprintf("mkCB %d %d [%s]", b.Hash, b.Time, strings.Join(txs, "; "))
	}
	return "[" + strings.Join(bs, "; ") + "]"
}

// ---- the caller's view (independent of the Coq model): what a caller with
// extra request x ("", "l", "r") and address filter addrs may compare ----

// View keeps, per block, header fields and per transaction the logs the
// caller asked for, sorted by index; transactions without such logs dropped.
func View(bs []DBlock, x string, addrs []uint64) []DBlock { return ViewT(bs, x, false, addrs) }

// ViewT: as View; plans with traces also compare every transaction's trace actions.
func ViewT(bs []DBlock, x string, traces bool, addrs []uint64) []DBlock {
	want := func(l DLog) bool {
		switch x {
		case "r":
			return true
		case "l":
			if len(addrs) == 0 {
				return true
			}
			for _, a := range addrs {
				if a == l.Addr {
					return true
				}
			}
		}
		return false
	}
	res := make([]DBlock, len(bs))
	for i, b := range bs {
		v := DBlock{Num: b.Num, Hash: b.Hash, Time: b.Time, Parent: b.Parent}
		for _, t := range b.Txs {
			vt := DTx{Idx: t.Idx, Hash: t.Hash}
			for _, l := range t.Logs {
				if want(l) {
					vt.Logs = append(vt.Logs, l)
				}
			}
			if traces {
				vt.Traces = append([]uint64(nil), t.Traces...)
			}
			if len(vt.Logs) == 0 && len(vt.Traces) == 0 {
				continue
			}
			sort.SliceStable(vt.Logs, func(a, b int) bool { return vt.Logs[a].Idx < vt.Logs[b].Idx })
			v.Txs = append(v.Txs, vt)
		}
		res[i] = v
	}
	return res
}

// Truth builds the caller's view directly from the chain.
func Truth(c Chain, base string, x string, addrs []uint64, start, limit uint64) []DBlock {
	return TruthT(c, base, x, false, addrs, start, limit)
}

func TruthT(c Chain, base string, x string, traces bool, addrs []uint64, start, limit uint64) []DBlock {
	var bs []DBlock
	for n := start; n < start+limit; n++ {
		b := DBlock{Num: n}
		if base != "" {
			b.Hash, b.Time, b.Parent = c[n].Hash, c[n].Time, ID32(c.parent(n))
		}
		if base == "" && x != "" {
			// the header hash is learnt from the logs / receipts of the block
			for _, t := range c[n].Txs {
				for _, l := range t.Logs {
					if x == "r" || len(addrs) == 0 || containsU(addrs, l.Addr) {
						b.Hash = c[n].Hash
					}
				}
				if x == "r" || (traces && len(t.Traces) > 0) {
					b.Hash = c[n].Hash
				}
			}
		}
		if base == "" && x == "" && traces {
			for _, t := range c[n].Txs {
				if len(t.Traces) > 0 {
					b.Hash = c[n].Hash
				}
			}
		}
		for _, t := range c[n].Txs {
			dt := DTx{Idx: t.Idx, Hash: t.Hash, Traces: t.Traces}
			for _, l := range t.Logs {
				dt.Logs = append(dt.Logs, DLog(l))
			}
			b.Txs = append(b.Txs, dt)
		}
		bs = append(bs, b)
	}
	return ViewT(bs, x, traces, addrs)
}

func containsU(xs []uint64, x uint64) bool {
	for _, y := range xs {
		if y == x {
			return true
		}
	}
	return false
}

// Problems lists violations of "no transaction index twice, no log index
// twice in a transaction" in a dump.
func Problems(bs []DBlock) []string {
	var out []string
	for _, b := range bs {
		seenTx := map[uint64]bool{}
		for _, t := range b.Txs {
			if seenTx[t.Idx] {
				out = append(out, fmt.Sprintf("block %d: transaction index %d twice", b.Num, t.Idx))
			}
			seenTx[t.Idx] = true
			seenLog := map[uint64]bool{}
			for _, l := range t.Logs {
				if seenLog[l.Idx] {
					out = append(out, fmt.Sprintf("block %d tx %d: log index %d twice", b.Num, t.Idx, l.Idx))
				}
				seenLog[l.Idx] = true
			}
		}
	}
	return out
}

func EqualDump(a, b []DBlock) bool { return fmt.Sprint(a) == fmt.Sprint(b) }
