package cachesim

import (
	"context"
	"net/http"
	"net/http/httptest"
	"strings"
	"sync"

	"nhooyr.io/websocket"
	"nhooyr.io/websocket/wsjson"
)

// WSServer: a scripted eth_subscribe("newHeads") endpoint.  Every accepted
// connection reads the subscription request, reports it on Subscribed and
// then forwards what the script puts on Send (an announcement, or Close).
type WSMsg struct {
	Head  Head
	Close bool
	Raw   map[string]any // sent as is when not nil
}

type WSServer struct {
	HS         *httptest.Server
	Subscribed chan string // method of the first request of each connection
	Send       chan WSMsg
	mu         sync.Mutex
	conns      int
}

func NewWSServer() *WSServer {
	s := &WSServer{Subscribed: make(chan string, 16), Send: make(chan WSMsg)}
	s.HS = httptest.NewServer(http.HandlerFunc(s.handle))
	return s
}

func (s *WSServer) URL() string { return "ws" + strings.TrimPrefix(s.HS.URL, "http") }

func (s *WSServer) Conns() int {
	s.mu.Lock()
	defer s.mu.Unlock()
	return s.conns
}

// Close ends the script: every connection handler returns.
func (s *WSServer) Close() {
	close(s.Send)
	s.HS.Close()
}

func (s *WSServer) handle(w http.ResponseWriter, r *http.Request) {
	c, err := websocket.Accept(w, r, nil)
	if err != nil {
		return
	}
	defer c.Close(websocket.StatusNormalClosure, "")
	s.mu.Lock()
	s.conns++
	s.mu.Unlock()
	ctx := context.Background()
	var req struct {
		Method string `json:"method"`
	}
	if err := wsjson.Read(ctx, c, &req); err != nil {
		return
	}
	// the confirmation a real node sends first
	wsjson.Write(ctx, c, map[string]any{"jsonrpc": "2.0", "id": "1", "result": "0x1234"})
	s.Subscribed <- req.Method
	for m := range s.Send {
		switch {
		case m.Close:
			c.Close(websocket.StatusInternalError, "scripted")
			return
		case m.Raw != nil:
			wsjson.Write(ctx, c, m.Raw)
		default:
			wsjson.Write(ctx, c, map[string]any{
				"jsonrpc": "2.0", "method": "eth_subscription",
				"params": map[string]any{"subscription": "0x1234", "result": map[string]any{
					"number": qn(m.Head.Num), "hash": hx(m.Head.Hash), "parentHash": hx(Hash32(1)),
				}},
			})
		}
	}
}
