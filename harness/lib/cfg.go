package lib

import (
	"flag"
	"fmt"
	"os"
)

// Cfg is the command line every property driver accepts:
//   <driver> -tier quick|thorough -seed N -out DIR [-replay FILE]
type Cfg struct {
	Tier   string
	Seed   uint64
	Out    string
	Replay string
}

func (c Cfg) Thorough() bool { return c.Tier == "thorough" }

func ParseCfg() Cfg {
	var cfg Cfg
	fs := flag.NewFlagSet(os.Args[0], flag.ExitOnError)
	fs.StringVar(&cfg.Tier, "tier", "quick", "quick|thorough")
	fs.Uint64Var(&cfg.Seed, "seed", 1, "seed")
	fs.StringVar(&cfg.Out, "out", ".", "output directory")
	fs.StringVar(&cfg.Replay, "replay", "", "replay file")
	fs.Parse(os.Args[1:])
	return cfg
}

// Main runs one driver and maps its error to exit status 3.
func Main(run func(Cfg) error) {
	if err := run(ParseCfg()); err != nil {
		fmt.Fprintln(os.Stderr, "driver error:", err)
		os.Exit(3)
	}
}
