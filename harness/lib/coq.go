package lib

import (
	"fmt"
	"math/big"
	"strconv"
	"strings"
)

// Coq term printers.  Numbers are printed in N/Z scope by the case file
// header; strings are byte lists.

func CBytes(b []byte) string {
	var s strings.Builder
	s.WriteString("[")
	for i, x := range b {
		if i > 0 {
			s.WriteString(";")
		}
		s.WriteString(strconv.Itoa(int(x)))
	}
	s.WriteString("]")
	return s.String()
}

func CStr(s string) string { return CBytes([]byte(s)) }

func CList(xs []string) string { return "[" + strings.Join(xs, "; ") + "]" }

func CBool(b bool) string {
	if b {
		return "true"
	}
	return "false"
}

func CN(n uint64) string { return strconv.FormatUint(n, 10) }

func CBig(n *big.Int) string { return n.String() }

func CNat(n int) string { return strconv.Itoa(n) + "%nat" }

func CZ(n int64) string {
	if n < 0 {
		return fmt.Sprintf("(%d)%%Z", n)
	}
	return fmt.Sprintf("%d%%Z", n)
}

func COpt(present bool, v string) string {
	if !present {
		return "None"
	}
	return "(Some " + v + ")"
}

func CPair(a, b string) string { return "(" + a + ", " + b + ")" }

// Outcome kinds shared with Base/Outcome.v
func COk(v string) string { return "(Ok " + v + ")" }

const CErr = "Err"
const CPanic = "Panic"
