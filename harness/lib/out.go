package lib

import (
	"crypto/sha256"
	"encoding/hex"
	"encoding/json"
	"fmt"
	"os"
	"path/filepath"
	"sort"
	"strings"
)

// One case of the correspondence run.
type Case struct {
	Coq        string `json:"-"`          // the Coq term of type `case`
	Desc       any    `json:"desc"`       // driver-level description, re-runnable by --replay
	Kind       string `json:"kind"`       // generator class (distribution)
	Nontrivial bool   `json:"nontrivial"` // by the property's rule
	OracleOK   bool   `json:"oracle_ok"`  // direct property oracle on the implementation's observation
	OracleMsg  string `json:"oracle_msg,omitempty"`
	Size       int    `json:"size"` // for choosing the smallest failing case
}

type Out struct {
	Prop     string
	Dir      string
	Header   string // Coq header of each shard (imports)
	Runner   string // e.g. "run"
	PerShard int
	Cases    []Case
	Dist     map[string]int
	Notes    map[string]any
	Rule     string
}

func NewOut(prop, dir, header, runner string, perShard int) *Out {
	return &Out{Prop: prop, Dir: dir, Header: header, Runner: runner, PerShard: perShard,
		Dist: map[string]int{}, Notes: map[string]any{}}
}

func (o *Out) Add(c Case) {
	o.Cases = append(o.Cases, c)
	o.Dist[c.Kind]++
}

func (o *Out) Count(k string) { o.Dist[k]++ }

type obsFile struct {
	Property           string         `json:"property"`
	Evaluations        int            `json:"evaluations"`
	DistinctNontrivial int            `json:"distinct_nontrivial"`
	Rule               string         `json:"rule"`
	Distribution       map[string]int `json:"distribution"`
	Samples            []any          `json:"samples"`
	OracleFailures     []Case         `json:"oracle_failures"`
	Shards             []string       `json:"shards"`
	Notes              map[string]any `json:"notes"`
}

// Flush writes cases_<prop>_<k>.v (+ .json with the descriptions) and obs_<prop>.json.
func (o *Out) Flush() error {
	if err := os.MkdirAll(o.Dir, 0o755); err != nil {
		return err
	}
	old, _ := filepath.Glob(filepath.Join(o.Dir, "cases_"+o.Prop+"_*"))
	for _, f := range old {
		os.Remove(f)
	}
	obs := obsFile{Property: o.Prop, Evaluations: len(o.Cases), Rule: o.Rule,
		Distribution: o.Dist, Notes: o.Notes, OracleFailures: []Case{}, Samples: []any{}}
	seen := map[string]bool{}
	for _, c := range o.Cases {
		if !c.OracleOK {
			obs.OracleFailures = append(obs.OracleFailures, c)
		}
		if c.Nontrivial {
			h := sha256.Sum256([]byte(c.Coq))
			k := hex.EncodeToString(h[:8])
			if !seen[k] {
				seen[k] = true
			}
		}
	}
	obs.DistinctNontrivial = len(seen)
	sort.SliceStable(obs.OracleFailures, func(i, j int) bool {
		return obs.OracleFailures[i].Size < obs.OracleFailures[j].Size
	})
	// samples: first case of each kind (at most 8)
	kinds := map[string]bool{}
	for _, c := range o.Cases {
		if !kinds[c.Kind] && len(obs.Samples) < 8 {
			kinds[c.Kind] = true
			obs.Samples = append(obs.Samples, map[string]any{"kind": c.Kind, "case": c.Desc})
		}
	}
	for k := 0; k*o.PerShard < len(o.Cases); k++ {
		lo, hi := k*o.PerShard, (k+1)*o.PerShard
		if hi > len(o.Cases) {
			hi = len(o.Cases)
		}
		name := fmt.Sprintf("cases_%s_%d", o.Prop, k)
		var sb strings.Builder
		sb.WriteString(o.Header)
		sb.WriteString("\nDefinition cases : list case := [\n")
		descs := make([]any, 0, hi-lo)
		for i := lo; i < hi; i++ {
			sb.WriteString("  ")
			sb.WriteString(o.Cases[i].Coq)
			if i+1 < hi {
				sb.WriteString(";")
			}
			sb.WriteString("\n")
			descs = append(descs, o.Cases[i])
		}
		sb.WriteString("].\n")
		sb.WriteString("Definition M := Eval vm_compute in " + o.Runner + " cases.\nPrint M.\n")
		if err := os.WriteFile(filepath.Join(o.Dir, name+".v"), []byte(sb.String()), 0o644); err != nil {
			return err
		}
		dj, _ := json.Marshal(descs)
		if err := os.WriteFile(filepath.Join(o.Dir, name+".json"), dj, 0o644); err != nil {
			return err
		}
		obs.Shards = append(obs.Shards, name)
	}
	oj, _ := json.MarshalIndent(obs, "", " ")
	return os.WriteFile(filepath.Join(o.Dir, "obs_"+o.Prop+".json"), oj, 0o644)
}

// Catch runs f and reports whether it panicked.
func Catch(f func()) (panicked bool, msg string) {
	defer func() {
		if r := recover(); r != nil {
			panicked = true
			msg = fmt.Sprint(r)
		}
	}()
	f()
	return
}
