// Package lib: shared helpers of the correspondence drivers.
package lib

// splitmix64; every random choice of a driver derives from one state.
type RNG struct{ s uint64 }

func NewRNG(seed uint64) *RNG {
	// the state is a hash of the seed: with a linear map the streams of
	// neighbouring seeds are shifts of one another (splitmix64 advances the
	// state by the same odd constant) and re-synchronise after a few draws
	z := seed + 0x9E3779B97F4A7C15
	z = (z ^ (z >> 30)) * 0xBF58476D1CE4E5B9
	z = (z ^ (z >> 27)) * 0x94D049BB133111EB
	z = z ^ (z >> 31)
	return &RNG{s: z*0x9E3779B97F4A7C15 + 0x1234567}
}

func (r *RNG) U64() uint64 {
	r.s += 0x9E3779B97F4A7C15
	z := r.s
	z = (z ^ (z >> 30)) * 0xBF58476D1CE4E5B9
	z = (z ^ (z >> 27)) * 0x94D049BB133111EB
	return z ^ (z >> 31)
}

// Intn returns a value in [0,n).
func (r *RNG) Intn(n int) int {
	if n <= 0 {
		return 0
	}
	return int(r.U64() % uint64(n))
}

// Range returns a value in [a,b].
func (r *RNG) Range(a, b int) int { return a + r.Intn(b-a+1) }

func (r *RNG) Bool() bool { return r.U64()&1 == 1 }

// Chance is true with probability num/den.
func (r *RNG) Chance(num, den int) bool { return r.Intn(den) < num }

func (r *RNG) Bytes(n int) []byte {
	b := make([]byte, n)
	for i := range b {
		b[i] = byte(r.U64())
	}
	return b
}

func Pick[T any](r *RNG, xs []T) T { return xs[r.Intn(len(xs))] }

// Fork derives an independent generator (for sub-streams whose consumption
// must not shift the parent's sequence).
func (r *RNG) Fork() *RNG { return &RNG{s: r.U64()} }
