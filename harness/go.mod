module verif/harness

go 1.21

require github.com/indexsupply/shovel v0.0.0

require (
	github.com/holiman/uint256 v1.2.4 // indirect
	golang.org/x/crypto v0.24.0 // indirect
	golang.org/x/sys v0.21.0 // indirect
)

replace github.com/indexsupply/shovel => /repo
