package rows

import (
	"bytes"
	"context"
	"fmt"
	"regexp"

	"github.com/jackc/pgx/v5"
	"github.com/jackc/pgx/v5/pgconn"
)

// FakeConn is a Go-level wpg.Conn: CopyFrom drains the source and records the
// rows; QueryRow answers the reference-filter query
//
//	select true from <table> where <column> = $1
//
// from DB; a table/column DB does not have is a query error.
type FakeConn struct {
	DB      []RefTable
	Table   pgx.Identifier
	Cols    []string
	Rows    [][]any
	Copies  int
	Queries int
	OnQuery func() // run once, inside the first QueryRow (re-entrancy)
}

func (f *FakeConn) CopyFrom(ctx context.Context, t pgx.Identifier, cols []string, src pgx.CopyFromSource) (int64, error) {
	f.Copies++
	f.Table = t
	f.Cols = append([]string{}, cols...)
	var n int64
	for src.Next() {
		v, err := src.Values()
		if err != nil {
			return 0, err
		}
		f.Rows = append(f.Rows, append([]any{}, v...))
		n++
	}
	return n, src.Err()
}

func (f *FakeConn) Exec(context.Context, string, ...any) (pgconn.CommandTag, error) {
	return pgconn.CommandTag{}, nil
}

func (f *FakeConn) Query(context.Context, string, ...any) (pgx.Rows, error) {
	return nil, fmt.Errorf("fakeconn: Query not supported")
}

var refQuery = regexp.MustCompile(`^select true from (\S+) where (\S+) = \$1$`)

type fakeRow struct {
	found bool
	err   error
}

func (r fakeRow) Scan(dest ...any) error {
	if r.err != nil {
		return r.err
	}
	if !r.found {
		return pgx.ErrNoRows
	}
	if len(dest) != 1 {
		return fmt.Errorf("fakeconn: scan into %d destinations", len(dest))
	}
	b, ok := dest[0].(*bool)
	if !ok {
		return fmt.Errorf("fakeconn: scan into %T", dest[0])
	}
	*b = true
	return nil
}

func (f *FakeConn) QueryRow(ctx context.Context, q string, args ...any) pgx.Row {
	f.Queries++
	if f.OnQuery != nil {
		g := f.OnQuery
		f.OnQuery = nil
		g()
	}
	m := refQuery.FindStringSubmatch(q)
	if m == nil {
		return fakeRow{err: fmt.Errorf("fakeconn: syntax error in %q", q)}
	}
	if len(args) != 1 {
		return fakeRow{err: fmt.Errorf("fakeconn: %d parameters", len(args))}
	}
	v, ok := args[0].([]byte)
	if !ok {
		return fakeRow{err: fmt.Errorf("fakeconn: parameter of type %T", args[0])}
	}
	for _, t := range f.DB {
		if t.Table == m[1] && t.Column == m[2] {
			for _, x := range t.Vals {
				if bytes.Equal(x, v) {
					return fakeRow{found: true}
				}
			}
			return fakeRow{}
		}
	}
	return fakeRow{err: fmt.Errorf("fakeconn: relation %q column %q does not exist", m[1], m[2])}
}
