package rows

import (
	"context"
	"database/sql/driver"
	"fmt"
	"math/big"
	"strings"
	"sync"

	"github.com/holiman/uint256"
	"github.com/indexsupply/shovel/dig"
	"github.com/indexsupply/shovel/eth"
	"github.com/indexsupply/shovel/shovel/config"
	"github.com/indexsupply/shovel/wctx"
	"github.com/indexsupply/shovel/wpg"
)

// ---- implementation inputs

func digFilter(f Flt) dig.Filter {
	return dig.Filter{Op: f.Op, Arg: f.Args, Ref: dig.Ref{Integration: f.RefIG, Table: f.RefTable, Column: f.RefCol}}
}

func (d Decl) DigEvent() dig.Event {
	ev := dig.Event{Name: d.Event, Type: "event"}
	for _, in := range d.Inputs {
		ev.Inputs = append(ev.Inputs, dig.Input{
			Indexed: in.Indexed, Name: in.Name, Type: in.Type, Column: in.Column, Filter: digFilter(in.Flt),
		})
	}
	return ev
}

func (d Decl) DigBlock() []dig.BlockData {
	var res []dig.BlockData
	for _, b := range d.Block {
		res = append(res, dig.BlockData{Name: b.Name, Column: b.Column, Filter: digFilter(b.Flt)})
	}
	return res
}

func (d Decl) DigTable() wpg.Table {
	t := wpg.Table{Name: "t_" + d.Name}
	for _, c := range d.TableCols {
		t.Columns = append(t.Columns, wpg.Column{Name: c, Type: "bytea"})
	}
	return t
}

func (d Decl) New() (dig.Integration, error) {
	return dig.New(d.Name, d.DigEvent(), d.DigBlock(), d.DigTable(), dig.Notification{}, d.Agg)
}

func (d Decl) SigHash() []byte { return d.DigEvent().SignatureHash() }

func u256(s string) uint256.Int {
	var x uint256.Int
	x.SetFromBig(dec(s))
	return x
}

func cp(b []byte) eth.Bytes {
	if b == nil {
		return nil
	}
	return append(eth.Bytes{}, b...)
}

// EthBlocks builds the []eth.Block that Insert receives (cap == len everywhere).
func EthBlocks(blocks []Block) []eth.Block {
	res := make([]eth.Block, len(blocks))
	for i, b := range blocks {
		res[i].Header = eth.Header{Number: eth.Uint64(b.Num), Hash: cp(b.Hash), Parent: cp(b.Parent), Time: eth.Uint64(b.Time)}
		res[i].Txs = make(eth.Txs, len(b.Txs))
		for j, t := range b.Txs {
			tx := &res[i].Txs[j]
			tx.PrecompHash = cp(t.Hash)
			tx.Idx = eth.Uint64(t.Idx)
			tx.From = cp(t.From)
			tx.To = cp(t.To)
			tx.Value = u256(t.Value)
			tx.Data = cp(t.Input)
			tx.Type = eth.Byte(t.Type)
			tx.Status = eth.Byte(t.Status)
			tx.GasUsed = eth.Uint64(t.GasUsed)
			tx.GasPrice = u256(t.GasPrice)
			tx.EffectiveGasPrice = u256(t.EffGasPrice)
			tx.ContractAddress = cp(t.Contract)
			tx.MaxPriorityFeePerGas = u256(t.MaxPrio)
			tx.MaxFeePerGas = u256(t.MaxFee)
			tx.Nonce = eth.Uint64(t.Nonce)
			tx.Logs = make(eth.Logs, len(t.Logs))
			for k, l := range t.Logs {
				lg := &tx.Logs[k]
				lg.Idx = eth.Uint64(l.Idx)
				lg.Address = cp(l.Addr)
				lg.Data = cp(l.Data)
				lg.Topics = make([]eth.Bytes, len(l.Topics))
				for m := range l.Topics {
					lg.Topics[m] = cp(l.Topics[m])
				}
			}
			tx.TraceActions = make([]eth.TraceAction, len(t.Traces))
			for k, a := range t.Traces {
				tx.TraceActions[k] = eth.TraceAction{Idx: a.Idx, CallType: a.CallType, From: cp(a.From), To: cp(a.To), Value: u256(a.Value)}
			}
		}
	}
	return res
}

// ---- canonical cells

type Cell struct {
	K string `json:"k"`           // int | bytes | bool | text | null | any | unknown
	I string `json:"i,omitempty"` // decimal
	B []byte `json:"b,omitempty"`
	T bool   `json:"t,omitempty"`
}

func CInt(n *big.Int) Cell { return Cell{K: "int", I: n.String()} }
func CIntU(n uint64) Cell  { return Cell{K: "int", I: new(big.Int).SetUint64(n).String()} }
func CBytes(b []byte) Cell { return Cell{K: "bytes", B: append([]byte{}, b...)} }
func CText(s string) Cell  { return Cell{K: "text", B: []byte(s)} }
func CBool(b bool) Cell    { return Cell{K: "bool", T: b} }
func CNull() Cell          { return Cell{K: "null"} }
func CAny() Cell           { return Cell{K: "any"} }

func (c Cell) String() string {
	switch c.K {
	case "int":
		return "int:" + c.I
	case "bytes":
		return fmt.Sprintf("bytes:%x", c.B)
	case "text":
		return fmt.Sprintf("text:%q", string(c.B))
	case "bool":
		return fmt.Sprintf("bool:%v", c.T)
	}
	return c.K
}

// Canon maps a value handed to COPY to its canonical cell:
// driver.Valuer -> its Value() (decimal strings of negInt / uint256 parsed),
// []byte (nil = NULL), bool, string, integers of every Go type, nil.
func Canon(x any) Cell {
	switch v := x.(type) {
	case nil:
		return CNull()
	case []byte:
		if v == nil {
			return CNull()
		}
		return CBytes(v)
	case eth.Bytes:
		if v == nil {
			return CNull()
		}
		return CBytes(v)
	case bool:
		return CBool(v)
	case string:
		return CText(v)
	case uint64:
		return CIntU(v)
	case eth.Uint64:
		return CIntU(uint64(v))
	case eth.Byte:
		return CIntU(uint64(v))
	case int:
		return CInt(big.NewInt(int64(v)))
	case driver.Valuer:
		dv, err := v.Value()
		if err != nil {
			return Cell{K: "unknown", I: "valuer error: " + err.Error()}
		}
		s, ok := dv.(string)
		if !ok {
			return Cell{K: "unknown", I: fmt.Sprintf("valuer gives %T", dv)}
		}
		n, ok := new(big.Int).SetString(s, 10)
		if !ok {
			return Cell{K: "unknown", I: "valuer gives " + s}
		}
		return CInt(n)
	}
	return Cell{K: "unknown", I: fmt.Sprintf("%T", x)}
}

// ---- running Insert

type Obs struct {
	Outcome string   `json:"outcome"` // ok | err | panic
	Msg     string   `json:"msg,omitempty"`
	Cols    []string `json:"cols,omitempty"`
	Rows    [][]Cell `json:"rows,omitempty"`
	Queries int      `json:"queries,omitempty"`
}

// NewValidated builds the integration the way the program does: the declaration
// goes through config.ValidateFix (default aggregation, required fields) first.
// The declaration must already carry its required fields (WithRequired), so that
// what ValidateFix returns is what the model and the oracle are given.
func (d Decl) NewValidated() (dig.Integration, error) {
	// as in a configuration file: a filter_ref names integration and column only;
	// ValidateFilterRefs resolves the referenced table
	ev, bl := d.DigEvent(), d.DigBlock()
	for i := range ev.Inputs {
		ev.Inputs[i].Filter.Ref.Table = ""
	}
	for i := range bl {
		bl[i].Filter.Ref.Table = ""
	}
	root := config.Root{Integrations: []config.Integration{{
		Name: d.Name, Enabled: true, Table: d.DigTable(), Block: bl, Event: ev, FilterAGG: d.Agg,
	}}}
	// the integrations that filter_ref entries name: "ig_<table>" with table <table>(<column>)
	have := map[string]bool{}
	addRef := func(f Flt) {
		if f.RefIG == "" || have[f.RefIG] {
			return
		}
		have[f.RefIG] = true
		root.Integrations = append(root.Integrations, config.Integration{
			Name: f.RefIG, Enabled: true,
			Table: wpg.Table{Name: strings.TrimPrefix(f.RefIG, "ig_"), Columns: []wpg.Column{{Name: f.RefCol, Type: "bytea"}}},
		})
	}
	for _, in := range d.Inputs {
		addRef(in.Flt)
	}
	for _, b := range d.Block {
		addRef(b.Flt)
	}
	if err := config.ValidateFix(&root); err != nil {
		return dig.Integration{}, fmt.Errorf("ValidateFix: %w", err)
	}
	ci := root.Integrations[0]
	if len(ci.Block) != len(d.Block) || len(ci.Table.Columns) != len(d.TableCols) {
		return dig.Integration{}, fmt.Errorf("ValidateFix changed the declaration: %d block entries, %d columns", len(ci.Block), len(ci.Table.Columns))
	}
	return dig.New(ci.Name, ci.Event, ci.Block, ci.Table, ci.Notification, ci.FilterAGG)
}

// WithRequired adds the fields config.AddRequiredFields adds.
func WithRequired(d *Decl) {
	ci := config.Integration{Name: d.Name, Table: d.DigTable(), Block: d.DigBlock(), Event: d.DigEvent()}
	ci.AddRequiredFields()
	for _, b := range ci.Block[len(d.Block):] {
		d.Block = append(d.Block, BD{Name: b.Name, Column: b.Column})
	}
	for _, col := range ci.Table.Columns[len(d.TableCols):] {
		d.TableCols = append(d.TableCols, col.Name)
	}
}

func (c *GCase) newIG() (dig.Integration, error) {
	if c.Validated {
		return c.Decl.NewValidated()
	}
	return c.Decl.New()
}

func RunInsert(c *GCase, blocks []eth.Block) (obs Obs) {
	d, src, chain, db := c.Decl, c.Src, c.Chain, c.DB
	defer func() {
		if r := recover(); r != nil {
			obs = Obs{Outcome: "panic", Msg: fmt.Sprint(r)}
		}
	}()
	ig, err := c.newIG()
	if err != nil {
		return Obs{Outcome: "err", Msg: "dig.New: " + err.Error()}
	}
	_ = d
	ctx := wctx.WithChainID(wctx.WithSrcName(context.Background(), src), chain)
	fc := &FakeConn{DB: db}
	var mu sync.Mutex
	_, err = ig.Insert(ctx, &mu, fc, blocks)
	if err != nil {
		return Obs{Outcome: "err", Msg: err.Error(), Queries: fc.Queries}
	}
	obs = Obs{Outcome: "ok", Cols: fc.Cols, Queries: fc.Queries}
	for _, r := range fc.Rows {
		row := make([]Cell, len(r))
		for i := range r {
			row[i] = Canon(r[i])
		}
		obs.Rows = append(obs.Rows, row)
	}
	return obs
}
