package rows

import (
	"bytes"
	"fmt"
	"math/big"
	"sort"
	"strings"
)

// The direct property oracle: the rows the declaration asks for, computed
// from the values the generator chose, by the reading of C11/C12 -- no use of
// dig's row builder, filters, field lookup or type mapping, nor of the Coq model.

// typed expectation of one column value
type exVal struct {
	Kind string // bytes | str | u64 | u256 | other
	Cell Cell
	B    []byte
	S    string
	N    *big.Int
}

func exBytes(b []byte) exVal {
	if b == nil {
		return exVal{Kind: "bytes", Cell: CNull()}
	}
	return exVal{Kind: "bytes", Cell: CBytes(b), B: b}
}
func exStr(s string) exVal    { return exVal{Kind: "str", Cell: CText(s), S: s} }
func exU64(n uint64) exVal    { return exVal{Kind: "u64", Cell: CIntU(n), N: new(big.Int).SetUint64(n)} }
func exU256(n *big.Int) exVal { return exVal{Kind: "u256", Cell: CInt(n), N: n} }
func exOther(c Cell) exVal    { return exVal{Kind: "other", Cell: c} }

// documented typing of an event input's value
func exInput(t abiType, v Val) exVal {
	switch t.Base {
	case "uint":
		return exU256(v.Big())
	case "int":
		return exOther(CInt(v.Big()))
	case "address":
		return exBytes(append([]byte{}, v.Bytes...))
	case "bool":
		return exOther(CBool(v.Bool))
	case "bytesN":
		w := make([]byte, 32)
		copy(w, v.Bytes)
		return exBytes(w)
	case "string":
		return exStr(v.Str)
	case "bytes":
		return exBytes(append([]byte{}, v.Bytes...))
	}
	panic("exInput")
}

type item struct {
	b  *Block
	t  *Tx
	l  *Log
	ta *Trace
}

// the field of the enclosing item, by name
func exField(name string, c *GCase, it item, abiIdx int) exVal {
	switch name {
	case "src_name":
		return exStr(c.Src)
	case "ig_name":
		return exStr(c.Decl.Name)
	case "chain_id":
		return exU64(c.Chain)
	case "block_hash":
		return exBytes(it.b.Hash)
	case "block_num":
		return exU64(it.b.Num)
	case "block_time":
		return exU64(it.b.Time)
	case "tx_hash":
		return exBytes(it.t.Hash)
	case "tx_idx":
		return exU64(it.t.Idx)
	case "tx_signer":
		return exBytes(it.t.From)
	case "tx_to":
		return exBytes(it.t.To)
	case "tx_value":
		return exU256(dec(it.t.Value))
	case "tx_input":
		return exBytes(it.t.Input)
	case "tx_type":
		return exOther(CIntU(it.t.Type))
	case "tx_status":
		return exOther(CIntU(it.t.Status))
	case "tx_gas_used":
		return exU64(it.t.GasUsed)
	case "tx_gas_price":
		return exU256(dec(it.t.GasPrice))
	case "tx_effective_gas_price":
		return exU256(dec(it.t.EffGasPrice))
	case "tx_contract_address":
		return exBytes(it.t.Contract)
	case "tx_max_priority_fee_per_gas":
		return exU256(dec(it.t.MaxPrio))
	case "tx_max_fee_per_gas":
		return exU256(dec(it.t.MaxFee))
	case "tx_nonce":
		return exU64(it.t.Nonce)
	case "log_idx":
		return exU64(it.l.Idx)
	case "log_addr":
		return exBytes(it.l.Addr)
	case "trace_action_call_type":
		return exStr(it.ta.CallType)
	case "trace_action_idx":
		return exU64(it.ta.Idx)
	case "trace_action_from":
		return exBytes(it.ta.From)
	case "trace_action_to":
		return exBytes(it.ta.To)
	case "trace_action_value":
		return exU256(dec(it.ta.Value))
	case "abi_idx":
		if abiIdx >= 0 {
			return exOther(CInt(big.NewInt(int64(abiIdx))))
		}
		return exOther(CNull())
	}
	return exOther(CNull())
}

func subslice(v, sub []byte) bool {
	if len(sub) == 0 {
		return true
	}
	for i := 0; i+len(sub) <= len(v); i++ {
		if bytes.Equal(v[i:i+len(sub)], sub) {
			return true
		}
	}
	return false
}

type refErr struct{ msg string }

func (e refErr) Error() string { return e.msg }

// decide: the decision of filter f on value v (nil: no comparison) by the
// reading of C12.  Operators outside the reading give ok=false.
func decide(f Flt, v exVal, db []RefTable) (res *bool, ok bool, err error) {
	if !f.Active() {
		return nil, true, nil
	}
	yes := func(b bool) (*bool, bool, error) { return &b, true, nil }
	switch v.Kind {
	case "bytes":
		if f.RefTable != "" {
			if f.Op != "contains" && f.Op != "!contains" {
				return nil, false, nil
			}
			for _, t := range db {
				if t.Table == f.RefTable && t.Column == f.RefCol {
					in := false
					for _, x := range t.Vals {
						if bytes.Equal(x, v.B) {
							in = true
						}
					}
					return yes(in == (f.Op == "contains"))
				}
			}
			return nil, true, refErr{"referenced table missing"}
		}
		if len(f.Args) == 0 {
			return nil, false, nil
		}
		switch f.Op {
		case "contains", "!contains":
			hit := false
			for _, a := range f.Args {
				if subslice(v.B, unhex(a)) {
					hit = true
				}
			}
			return yes(hit == (f.Op == "contains"))
		case "eq", "ne":
			hit := false
			for _, a := range f.Args {
				if bytes.Equal(v.B, unhex(a)) {
					hit = true
				}
			}
			return yes(hit == (f.Op == "eq"))
		}
		return nil, false, nil
	case "str":
		if len(f.Args) == 0 {
			return nil, false, nil
		}
		in := false
		for _, a := range f.Args {
			if a == v.S {
				in = true
			}
		}
		switch f.Op {
		case "contains":
			return yes(in)
		case "!contains":
			return yes(!in)
		case "eq":
			return yes(v.S == f.Args[0])
		case "ne":
			return yes(v.S != f.Args[0])
		}
		return nil, false, nil
	case "u64", "u256":
		if len(f.Args) == 0 {
			return nil, false, nil
		}
		a := f.Args[0]
		if a == "" || strings.Trim(a, "0123456789") != "" {
			return nil, true, refErr{"argument is not a decimal number"}
		}
		n, _ := new(big.Int).SetString(a, 10)
		bits := 64
		if v.Kind == "u256" {
			bits = 256
		}
		if n.BitLen() > bits {
			return nil, true, refErr{"argument out of range"}
		}
		c := v.N.Cmp(n)
		switch f.Op {
		case "eq":
			return yes(c == 0)
		case "ne":
			return yes(c != 0)
		case "gt":
			return yes(c > 0)
		case "lt":
			return yes(c < 0)
		}
		return nil, false, nil
	}
	return nil, true, nil // values of other kinds are not filtered
}

type Expect struct {
	Outcome string // ok | err | any
	Why     string
	Cols    []string
	Rows    [][]Cell
	NCand   int // candidate rows before filtering
	NFilt   int // decisions taken
	NRef    int // reference filters evaluated (each must issue one lookup query)
	// independent of Outcome: the candidate rows that are accepted on their own
	// (all their filters evaluate, and aggregate to true), in chain order;
	// Undecided: some row lies outside the reading, Accepted is not complete
	Accepted  [][]Cell
	Undecided bool
}

func (d Decl) Mode() string {
	for _, b := range d.Block {
		if strings.HasPrefix(b.Name, "trace_") {
			return "trace"
		}
	}
	for _, in := range d.Inputs {
		if in.Selected() {
			return "log"
		}
	}
	return "tx"
}

// candidate rows of one log: the columns of the selected inputs
func logCandidates(d Decl, l *Log) (cands [][]exVal, abi []int) {
	var arrIdx = -1
	for i, in := range d.Inputs {
		if in.Selected() && !in.Indexed && parseType(in.Type).Arr {
			arrIdx = i
		}
	}
	n := 1
	emptyArr := false
	if arrIdx >= 0 {
		n = len(l.Vals[arrIdx].Elems)
		if n == 0 {
			n, emptyArr = 1, true
		}
	}
	hasData := len(l.Data) > 0
	for r := 0; r < n; r++ {
		var row []exVal
		for i, in := range d.Inputs {
			if !in.Selected() {
				continue
			}
			t := parseType(in.Type)
			switch {
			case i == arrIdx && emptyArr:
				row = append(row, exVal{Kind: "any", Cell: CAny()})
			case i == arrIdx:
				row = append(row, exInput(t.elem(), l.Vals[i].Elems[r]))
			default:
				row = append(row, exInput(t, l.Vals[i]))
			}
		}
		cands = append(cands, row)
		if hasData {
			abi = append(abi, r)
		} else {
			abi = append(abi, -1)
		}
	}
	return
}

// Expected computes the rows the declaration asks for over the given chain.
func Expected(c *GCase, blocks []Block) Expect {
	d := c.Decl
	ex := Expect{Outcome: "ok"}
	for _, in := range d.Inputs {
		if in.Selected() {
			ex.Cols = append(ex.Cols, in.Column)
		}
	}
	for _, b := range d.Block {
		ex.Cols = append(ex.Cols, b.Column)
	}
	and := strings.ToLower(d.Agg) == "and"
	emit := func(inputs []exVal, it item, abi int, dataBranch bool) {
		ex.NCand++
		// the verdict on THIS candidate row, independent of every other row:
		// st = "" (decided), "err" (a filter cannot be evaluated), "any" (outside the reading)
		var results []bool
		st, why := "", ""
		note := func(f Flt, v exVal) {
			if st != "" {
				return
			}
			if v.Kind == "any" {
				if f.Active() {
					st, why = "any", "filter on an empty array's column"
				}
				return
			}
			r, ok, err := decide(f, v, c.DB)
			if f.Active() && v.Kind == "bytes" && f.RefTable != "" && (f.Op == "contains" || f.Op == "!contains") {
				ex.NRef++ // the lookup is attempted, whether or not the table exists
			}
			switch {
			case err != nil:
				st, why = "err", err.Error()
			case !ok:
				st, why = "any", "operator outside the reading: "+f.Op+" on "+v.Kind
			case r != nil:
				results = append(results, *r)
				ex.NFilt++
			}
		}
		var row []Cell
		k := 0
		for _, in := range d.Inputs {
			if !in.Selected() {
				continue
			}
			row = append(row, inputs[k].Cell)
			note(in.Flt, inputs[k])
			k++
		}
		for _, bd := range d.Block {
			v := exField(bd.Name, c, it, abi)
			row = append(row, v.Cell)
			if !(dataBranch && bd.Name == "abi_idx") {
				note(bd.Flt, v)
			}
		}
		acc := true
		if len(results) > 0 {
			acc = and
			for _, r := range results {
				if and {
					acc = acc && r
				} else {
					acc = acc || r
				}
			}
		}
		// rows the declaration ACCEPTS: evaluated without error, to true
		switch {
		case st == "any":
			ex.Undecided = true
		case st == "" && acc:
			ex.Accepted = append(ex.Accepted, row)
		}
		// the outcome of indexing this chain: the first row that cannot be
		// evaluated ends it (in program order)
		if ex.Outcome != "ok" {
			return
		}
		switch {
		case st != "":
			ex.Outcome, ex.Why = st, why
		case acc:
			ex.Rows = append(ex.Rows, row)
		}
	}
	mode := d.Mode()
	for bi := range blocks {
		b := &blocks[bi]
		for ti := range b.Txs {
			t := &b.Txs[ti]
			switch mode {
			case "tx":
				if len(d.Block) > 0 {
					emit(nil, item{b: b, t: t}, -1, false)
				}
			case "trace":
				for ai := range t.Traces {
					if len(d.Block) > 0 && len(ex.Cols) == len(d.Block) {
						emit(nil, item{b: b, t: t, ta: &t.Traces[ai]}, -1, false)
					}
				}
			case "log":
				for li := range t.Logs {
					l := &t.Logs[li]
					if !l.Match {
						continue
					}
					if l.BadABI {
						if ex.Outcome == "ok" {
							ex.Outcome, ex.Why = "err", "undecodable data"
						}
						continue
					}
					cands, abi := logCandidates(d, l)
					for r := range cands {
						emit(cands[r], item{b: b, t: t, l: l}, abi[r], len(l.Data) > 0)
					}
				}
			}
		}
	}
	if c.Expect != "" {
		ex.Outcome, ex.Why = c.Expect, "by construction: "+c.Comment
	}
	return ex
}

func cellEq(want, got Cell) bool {
	if want.K == "any" {
		return true
	}
	if want.K != got.K {
		// a text value handed over as bytes is stored as the same text
		if (want.K == "text" && got.K == "bytes") && bytes.Equal(want.B, got.B) {
			return true
		}
		return false
	}
	return want.I == got.I && bytes.Equal(want.B, got.B) && want.T == got.T
}

func rowKey(r []Cell) string {
	var sb strings.Builder
	for _, c := range r {
		k := c
		if k.K == "text" {
			k.K = "bytes"
		}
		sb.WriteString(k.String())
		sb.WriteByte('|')
	}
	return sb.String()
}

// Judge compares the implementation's observation with the expectation.
// sorted: compare as multisets (chains that went through the JSON client,
// whose transaction order is not deterministic).
func Judge(ex Expect, obs Obs, sorted bool) (bool, string) {
	switch ex.Outcome {
	case "any":
		return true, ""
	case "err":
		if obs.Outcome != "err" {
			return false, fmt.Sprintf("expected an error (%s), got %s with %d rows", ex.Why, obs.Outcome, len(obs.Rows))
		}
		return true, ""
	}
	if obs.Outcome != "ok" {
		return false, fmt.Sprintf("Insert %s: %s", obs.Outcome, obs.Msg)
	}
	if obs.Queries != ex.NRef {
		return false, fmt.Sprintf("%d lookup queries issued, %d reference filters evaluated", obs.Queries, ex.NRef)
	}
	if len(obs.Cols) != len(ex.Cols) {
		return false, fmt.Sprintf("COPY columns %v, declared %v", obs.Cols, ex.Cols)
	}
	for i := range ex.Cols {
		if obs.Cols[i] != ex.Cols[i] {
			return false, fmt.Sprintf("COPY column %d is %q, declared %q", i, obs.Cols[i], ex.Cols[i])
		}
	}
	want, got := ex.Rows, obs.Rows
	if len(want) != len(got) {
		return false, fmt.Sprintf("%d rows emitted, %d selected by the declaration%s", len(got), len(want), firstDiff(ex, want, got))
	}
	if sorted {
		want = append([][]Cell{}, want...)
		got = append([][]Cell{}, got...)
		sort.SliceStable(want, func(i, j int) bool { return rowKey(want[i]) < rowKey(want[j]) })
		sort.SliceStable(got, func(i, j int) bool { return rowKey(got[i]) < rowKey(got[j]) })
	}
	for i := range want {
		if len(want[i]) != len(got[i]) {
			return false, fmt.Sprintf("row %d has %d cells, want %d", i, len(got[i]), len(want[i]))
		}
		for j := range want[i] {
			if !cellEq(want[i][j], got[i][j]) {
				return false, fmt.Sprintf("row %d column %d (%s): stored %s, the declared field's value is %s",
					i, j, ex.Cols[j], got[i][j], want[i][j])
			}
		}
	}
	return true, ""
}

func firstDiff(ex Expect, want, got [][]Cell) string {
	have := map[string]int{}
	for _, r := range got {
		have[rowKey(r)]++
	}
	for _, r := range want {
		if have[rowKey(r)] == 0 {
			return "; missing row " + rowKey(r)
		}
		have[rowKey(r)]--
	}
	for _, r := range got {
		k := rowKey(r)
		n := 0
		for _, w := range want {
			if rowKey(w) == k {
				n++
			}
		}
		if n == 0 {
			return "; unexpected row " + k
		}
	}
	return ""
}

// LostByRestriction: the rows the declaration accepts on the whole chain that
// it does not accept on the delivered chain (C12: the restrictions sent to the
// node never exclude a log the declared filters would accept).  A row whose
// evaluation raises an error is not an accepted row.
func LostByRestriction(whole, delivered Expect) (lost []string, judged bool) {
	if whole.Undecided || delivered.Undecided {
		return nil, false
	}
	have := map[string]int{}
	for _, r := range delivered.Accepted {
		have[rowKey(r)]++
	}
	for _, r := range whole.Accepted {
		k := rowKey(r)
		if have[k] == 0 {
			lost = append(lost, k)
			continue
		}
		have[k]--
	}
	return lost, true
}
