// Package rows: shared machinery of the C11 / C12 correspondence drivers
// (row assembly and filters of dig.Integration).
//
// A generated case (GCase) is plain data: a declaration, a chain and the
// contents of referenced tables, together with the VALUES the generator
// chose for every event input of every log.  From it are derived
//   - the implementation's inputs (dig.New arguments, []eth.Block),
//   - the model's inputs (Coq terms of Model/Rows.v),
//   - the oracle's expectation (rows computed from the chosen values by the
//     reading of the property, independent of dig and of the Coq model).
package rows

import (
	"math/big"
)

// Filter of an input / block-data entry.
type Flt struct {
	Op       string   `json:"op,omitempty"`
	Args     []string `json:"args,omitempty"`
	RefIG    string   `json:"ref_ig,omitempty"`
	RefTable string   `json:"ref_table,omitempty"`
	RefCol   string   `json:"ref_col,omitempty"`
}

func (f Flt) Active() bool { return len(f.Args) > 0 || len(f.RefIG) > 0 }

type Input struct {
	Name    string `json:"name"`
	Indexed bool   `json:"indexed,omitempty"`
	Type    string `json:"type"`
	Column  string `json:"column,omitempty"` // "": not selected
	Flt     Flt    `json:"flt"`
}

func (i Input) Selected() bool { return i.Column != "" }

type BD struct {
	Name   string `json:"name"`
	Column string `json:"column"`
	Flt    Flt    `json:"flt"`
}

type Decl struct {
	Name      string   `json:"name"`
	Event     string   `json:"event"`
	Inputs    []Input  `json:"inputs"`
	Block     []BD     `json:"block"`
	TableCols []string `json:"table_cols"`
	Agg       string   `json:"agg"`
}

// Val: the value the generator chose for one input in one log.
// Scalars use Int/Bytes/Bool/Str according to the base type; arrays use Elems.
type Val struct {
	Int   string `json:"int,omitempty"` // decimal (uintN, intN)
	Bytes []byte `json:"bytes,omitempty"`
	Bool  bool   `json:"bool,omitempty"`
	Str   string `json:"str,omitempty"`
	Elems []Val  `json:"elems,omitempty"`
	IsArr bool   `json:"is_arr,omitempty"`
}

func (v Val) Big() *big.Int {
	n, _ := new(big.Int).SetString(v.Int, 10)
	if n == nil {
		return new(big.Int)
	}
	return n
}

type Log struct {
	Idx    uint64   `json:"idx"`
	Addr   []byte   `json:"addr"`
	Match  bool     `json:"match"`             // a log of the declared event (topic0 and topic count right)
	Decoy  string   `json:"decoy,omitempty"`   // how a non-matching log differs
	Vals   []Val    `json:"vals,omitempty"`    // one per event input (matching logs)
	Topics [][]byte `json:"topics"`            // as put on the chain
	Data   []byte   `json:"data"`              // as put on the chain
	BadABI bool     `json:"bad_abi,omitempty"` // data deliberately undecodable
}

type Trace struct {
	Idx      uint64 `json:"idx"`
	CallType string `json:"call_type"`
	From     []byte `json:"from"`
	To       []byte `json:"to"`
	Value    string `json:"value"`
}

type Tx struct {
	Hash        []byte  `json:"hash"`
	Idx         uint64  `json:"idx"`
	From        []byte  `json:"from"`
	To          []byte  `json:"to"` // nil: contract creation
	Value       string  `json:"value"`
	Input       []byte  `json:"input"`
	Type        uint64  `json:"type"`
	Status      uint64  `json:"status"`
	GasUsed     uint64  `json:"gas_used"`
	GasPrice    string  `json:"gas_price"`
	EffGasPrice string  `json:"eff_gas_price"`
	Contract    []byte  `json:"contract"`
	MaxPrio     string  `json:"max_prio"`
	MaxFee      string  `json:"max_fee"`
	Nonce       uint64  `json:"nonce"`
	Logs        []Log   `json:"logs"`
	Traces      []Trace `json:"traces"`
}

type Block struct {
	Hash   []byte `json:"hash"`
	Parent []byte `json:"parent"`
	Num    uint64 `json:"num"`
	Time   uint64 `json:"time"`
	Txs    []Tx   `json:"txs"`
}

type RefTable struct {
	Table  string   `json:"table"`
	Column string   `json:"column"`
	Vals   [][]byte `json:"vals"`
}

type GCase struct {
	Kind      string     `json:"kind"`
	Decl      Decl       `json:"decl"`
	Src       string     `json:"src"`
	Chain     uint64     `json:"chain"`
	DB        []RefTable `json:"db"`
	Blocks    []Block    `json:"blocks"`
	Abi       bool       `json:"abi,omitempty"`       // case file carries the full log data; the model decodes it
	Validated bool       `json:"validated,omitempty"` // built through config.ValidateFix
	Path      string     `json:"path"`                // "direct" | "json" | "pushdown"
	Expect    string     `json:"expect,omitempty"`    // "", "err", "any": what the oracle expects of the outcome class
	Comment   string     `json:"comment,omitempty"`
}

func dec(s string) *big.Int {
	n, ok := new(big.Int).SetString(s, 10)
	if !ok {
		return new(big.Int)
	}
	return n
}
