package rows

import (
	"bytes"
	"encoding/hex"
	"fmt"
	"math/big"
	"strings"

	"verif/harness/lib"
)

type GenOpts struct {
	RowMixP   int  // percent of log-mode cases shaped as: filtered array elements whose verdicts alternate within a log
	RefMixP   int  // percent of log-mode cases shaped as: positive log_addr argument filter + reference filters
	Filters   bool // generate filters (C12)
	LogAddrP  int  // percent of log-mode cases with a log_addr filter
	OddP      int  // percent of cases from the malformed / out-of-reading stream
	ForceMode string
}

var staticBases = []string{"uint", "int", "address", "bool", "bytesN"}

func genStaticType(r *lib.RNG) abiType {
	switch lib.Pick(r, staticBases) {
	case "uint":
		return abiType{Base: "uint", Bits: 8 * r.Range(1, 32)}
	case "int":
		return abiType{Base: "int", Bits: 8 * r.Range(1, 32)}
	case "address":
		return abiType{Base: "address"}
	case "bool":
		return abiType{Base: "bool"}
	}
	return abiType{Base: "bytesN", N: r.Range(1, 32)}
}

func genDataType(r *lib.RNG, allowArr bool) abiType {
	switch k := r.Intn(10); {
	case k < 5:
		return genStaticType(r)
	case k == 5:
		return abiType{Base: "string"}
	case k == 6:
		return abiType{Base: "bytes"}
	case !allowArr:
		return genStaticType(r)
	case k == 7:
		t := genStaticType(r)
		t.Arr = true
		return t
	case k == 8:
		t := genStaticType(r)
		t.Arr = true
		t.Fixed = r.Range(1, 4)
		return t
	}
	if r.Bool() {
		return abiType{Base: "string", Arr: true}
	}
	return abiType{Base: "bool", Arr: true}
}

var logFields = []string{
	"src_name", "ig_name", "chain_id", "block_hash", "block_num", "block_time",
	"tx_hash", "tx_idx", "tx_signer", "tx_to", "tx_value", "tx_input", "tx_type", "tx_status",
	"log_idx", "tx_gas_used", "tx_gas_price", "tx_effective_gas_price", "tx_contract_address",
	"tx_max_priority_fee_per_gas", "tx_max_fee_per_gas", "tx_nonce", "log_addr",
}
var txFields = []string{
	"src_name", "ig_name", "chain_id", "block_hash", "block_num", "block_time",
	"tx_hash", "tx_idx", "tx_signer", "tx_to", "tx_value", "tx_input", "tx_type", "tx_status",
	"tx_gas_used", "tx_gas_price", "tx_effective_gas_price", "tx_contract_address",
	"tx_max_priority_fee_per_gas", "tx_max_fee_per_gas", "tx_nonce",
}
var traceFields = []string{
	"trace_action_call_type", "trace_action_idx", "trace_action_from", "trace_action_to", "trace_action_value",
}

func shuffle[T any](r *lib.RNG, xs []T) {
	for i := len(xs) - 1; i > 0; i-- {
		j := r.Intn(i + 1)
		xs[i], xs[j] = xs[j], xs[i]
	}
}

func genHash(r *lib.RNG) []byte {
	h := r.Bytes(32)
	if r.Chance(1, 6) { // hashes with leading zero bytes exist
		for i := r.Range(1, 2); i > 0; i-- {
			h[i-1] = 0
		}
	}
	return h
}

func genU256(r *lib.RNG) string {
	switch r.Intn(5) {
	case 0:
		return "0"
	case 1:
		return new(big.Int).Sub(pow2(256), big.NewInt(1)).String()
	case 2:
		return new(big.Int).SetUint64(r.U64() % 1000).String()
	}
	return new(big.Int).SetBytes(r.Bytes(r.Range(1, 32))).String()
}

func genU64(r *lib.RNG) uint64 {
	switch r.Intn(6) {
	case 0:
		return 0
	case 1:
		return ^uint64(0)
	case 2:
		return 1 << 63
	case 3:
		return r.U64() % 100
	}
	return r.U64()
}

// GenCase: declaration first (no filters), then the chain with its values,
// then (C12) filters whose arguments are taken at and around the values.
func GenCase(r *lib.RNG, o GenOpts, id int) *GCase {
	c := &GCase{Src: lib.Pick(r, []string{"main", "src-" + fmt.Sprint(r.Intn(9)), "s"}), Chain: genU64(r), Path: "direct"}
	d := &c.Decl
	d.Name = fmt.Sprintf("ig%d", id)
	d.Event = lib.Pick(r, []string{"Transfer", "E", "Swap", "Evt"}) + fmt.Sprint(r.Intn(10))
	mode := "log"
	switch k := r.Intn(100); {
	case k < 10:
		mode = "tx"
	case k < 22:
		mode = "trace"
	}
	if o.ForceMode != "" {
		mode = o.ForceMode
	}
	c.Kind = mode

	// event inputs
	nin := r.Range(1, 6)
	nidx, haveSelArr := 0, false
	for i := 0; i < nin; i++ {
		in := Input{Name: fmt.Sprintf("a%d", i)}
		if nidx < 3 && r.Chance(2, 5) {
			in.Indexed = true
			nidx++
			in.Type = typeName(genStaticType(r))
		} else {
			t := genDataType(r, true)
			sel := mode == "log" && r.Chance(3, 5)
			if t.Arr && sel {
				if haveSelArr {
					t = genStaticType(r)
				} else {
					haveSelArr = true
				}
			}
			in.Type = typeName(t)
			if sel {
				in.Column = "x"
			}
		}
		if in.Indexed && mode == "log" && r.Chance(3, 5) {
			in.Column = "x"
		}
		if in.Column != "" {
			in.Column = lib.Pick(r, []string{"c_", "col", "v_"}) + in.Name
		}
		d.Inputs = append(d.Inputs, in)
	}
	if mode == "log" {
		any := false
		for _, in := range d.Inputs {
			any = any || in.Selected()
		}
		if !any {
			d.Inputs[0].Column = "c_" + d.Inputs[0].Name
			if t := parseType(d.Inputs[0].Type); t.Arr && haveSelArr {
				d.Inputs[0].Type = "uint256"
			}
		}
	}

	// block data
	var pool []string
	switch mode {
	case "log":
		pool = append([]string{}, logFields...)
	case "tx":
		pool = append([]string{}, txFields...)
	case "trace":
		pool = append(append([]string{}, txFields...), traceFields...)
	}
	shuffle(r, pool)
	nbd := r.Range(0, 6)
	if mode != "log" && nbd == 0 {
		nbd = 1
	}
	if r.Chance(1, 12) {
		nbd = len(pool)
	}
	names := pool[:nbd]
	if mode == "trace" {
		has := false
		for _, n := range names {
			has = has || strings.HasPrefix(n, "trace_")
		}
		if !has {
			names = append(names, lib.Pick(r, traceFields))
		}
	}
	if mode == "log" && r.Chance(1, 2) {
		names = append(names, "abi_idx")
		shuffle(r, names)
	}
	for i, n := range names {
		col := n
		if r.Chance(1, 2) {
			col = fmt.Sprintf("k%d_%s", i, strings.ReplaceAll(n[:3], "_", ""))
		}
		d.Block = append(d.Block, BD{Name: n, Column: col})
	}
	if o.Filters && mode == "log" && r.Intn(100) < o.LogAddrP {
		has := false
		for _, b := range d.Block {
			has = has || b.Name == "log_addr"
		}
		if !has {
			d.Block = append(d.Block, BD{Name: "log_addr", Column: "log_addr"})
			shuffle(r, d.Block)
		}
	}
	for _, in := range d.Inputs {
		if in.Selected() {
			d.TableCols = append(d.TableCols, in.Column)
		}
	}
	for _, b := range d.Block {
		d.TableCols = append(d.TableCols, b.Column)
	}
	if r.Bool() {
		d.TableCols = append(d.TableCols, "extra1", "trace_extra")
	}
	shuffle(r, d.TableCols)
	d.Agg = lib.Pick(r, []string{"", "or", "and", "and", "or", "AND", "Or"})

	c.Blocks = GenChain(r, *d, mode)
	if o.Filters {
		genFilters(r, c, o)
	}
	if !o.Filters && r.Chance(1, 40) {
		markBadABI(c)
	}
	return c
}

// GenChain: 1-3 blocks, 1-3 transactions each, logs / traces according to mode.
func GenChain(r *lib.RNG, d Decl, mode string) []Block {
	sighash := d.SigHash()
	nidx := 0
	for _, in := range d.Inputs {
		if in.Indexed {
			nidx++
		}
	}
	var blocks []Block
	num := genU64(r) % (1 << 40)
	parent := genHash(r)
	logIdx := uint64(0)
	for bi := r.Range(1, 3); bi > 0; bi-- {
		b := Block{Hash: genHash(r), Parent: parent, Num: num, Time: genU64(r)}
		parent, num = b.Hash, num+1
		logIdx = 0
		txIdx := uint64(r.Intn(2))
		for ti, nt := 0, r.Range(1, 3); ti < nt; ti++ {
			t := Tx{Hash: genHash(r), Idx: txIdx, From: genAddr(r), To: genAddr(r),
				Value: genU256(r), Input: r.Bytes(r.Intn(40)), Type: uint64(r.Intn(4)), Status: uint64(r.Intn(2)),
				GasUsed: genU64(r), GasPrice: genU256(r), EffGasPrice: genU256(r), Contract: nil,
				MaxPrio: genU256(r), MaxFee: genU256(r), Nonce: genU64(r)}
			txIdx += uint64(1 + r.Intn(2))
			if r.Chance(1, 4) {
				t.To, t.Contract = nil, genAddr(r)
			}
			if r.Chance(1, 6) {
				t.Input = nil
			}
			if mode == "log" {
				for li, nl := 0, r.Range(0, 3); li < nl; li++ {
					t.Logs = append(t.Logs, genLog(r, d, sighash, nidx, logIdx))
					logIdx += uint64(1 + r.Intn(2))
				}
			}
			if mode == "trace" {
				for ai, na := 0, r.Range(0, 3); ai < na; ai++ {
					t.Traces = append(t.Traces, Trace{Idx: uint64(ai), CallType: lib.Pick(r, []string{"call", "delegatecall", "staticcall", ""}),
						From: genAddr(r), To: genAddr(r), Value: genU256(r)})
				}
			}
			b.Txs = append(b.Txs, t)
		}
		blocks = append(blocks, b)
	}
	return blocks
}

// BuildLog: a log of the declared event carrying the given values
func BuildLog(d Decl, sighash []byte, vals []Val, addr []byte, idx uint64) Log {
	l := Log{Idx: idx, Addr: addr, Match: true, Vals: vals}
	var dtypes []abiType
	var dvals []Val
	topics := [][]byte{append([]byte{}, sighash...)}
	for i, in := range d.Inputs {
		t := parseType(in.Type)
		if in.Indexed {
			topics = append(topics, scalarWord(t, vals[i]))
		} else {
			dtypes = append(dtypes, t)
			dvals = append(dvals, vals[i])
		}
	}
	l.Topics = topics
	l.Data = encodeData(dtypes, dvals)
	if len(l.Data) == 0 {
		l.Data = nil
	}
	return l
}

func genLog(r *lib.RNG, d Decl, sighash []byte, nidx int, idx uint64) Log {
	var vals []Val
	for _, in := range d.Inputs {
		vals = append(vals, genVal(r, parseType(in.Type), true))
	}
	l := BuildLog(d, sighash, vals, genAddr(r), idx)
	if r.Chance(1, 4) {
		l.Match = false
		l.Vals = nil
		switch r.Intn(5) {
		case 0:
			l.Decoy = "other-topic0"
			l.Topics[0] = genHash(r)
		case 1:
			l.Decoy = "one-topic-more"
			l.Topics = append(l.Topics, genHash(r))
		case 2:
			l.Decoy = "one-topic-less"
			if len(l.Topics) > 1 {
				l.Topics = l.Topics[:len(l.Topics)-1]
			} else {
				l.Topics = nil
			}
		case 3:
			l.Decoy = "no-topics"
			l.Topics = nil
		default:
			l.Decoy = "topic0-one-bit-off"
			l.Topics[0][31] ^= 1
		}
	}
	return l
}

func markBadABI(c *GCase) {
	sel := false
	for _, in := range c.Decl.Inputs {
		sel = sel || (in.Selected() && !in.Indexed)
	}
	if !sel || c.Kind != "log" {
		return
	}
	for bi := range c.Blocks {
		for ti := range c.Blocks[bi].Txs {
			for li := range c.Blocks[bi].Txs[ti].Logs {
				l := &c.Blocks[bi].Txs[ti].Logs[li]
				if l.Match {
					l.BadABI = true
					l.Data = []byte{0}
					c.Kind = "log-bad-abi"
					return
				}
			}
		}
	}
}

// ---- filters

func hexArg(r *lib.RNG, b []byte) string {
	s := hex.EncodeToString(b)
	if len(s) > 0 && s[0] == '0' && r.Chance(1, 4) {
		s = s[1:] // odd-length spelling: DecodeHex pads a leading zero digit
	}
	switch r.Intn(5) {
	case 0:
		return "0x" + strings.ToUpper(s)
	case 1:
		return s
	case 2:
		return "0X" + s
	}
	return "0x" + s
}

func around(r *lib.RNG, n *big.Int, bits int) string {
	max := new(big.Int).Sub(pow2(bits), big.NewInt(1))
	var m *big.Int
	switch r.Intn(7) {
	case 0, 1:
		m = new(big.Int).Set(n)
	case 2:
		m = new(big.Int).Add(n, big.NewInt(1))
	case 3:
		m = new(big.Int).Sub(n, big.NewInt(1))
	case 4:
		m = big.NewInt(0)
	case 5:
		m = new(big.Int).Set(max)
	default:
		m = new(big.Int).SetBytes(r.Bytes(r.Range(1, bits/8)))
	}
	if m.Sign() < 0 {
		m = big.NewInt(0)
	}
	if m.Cmp(max) > 0 {
		m = max
	}
	s := m.String()
	if r.Chance(1, 8) {
		s = "00" + s
	}
	return s
}

// all values a column takes over the chain (typed), for choosing arguments
func columnValues(c *GCase, inputIdx int, bdName string) []exVal {
	var res []exVal
	for bi := range c.Blocks {
		b := &c.Blocks[bi]
		for ti := range b.Txs {
			t := &b.Txs[ti]
			if c.Decl.Mode() == "tx" && inputIdx < 0 {
				res = append(res, exField(bdName, c, item{b: b, t: t}, -1))
			}
			for ai := range t.Traces {
				if inputIdx < 0 {
					res = append(res, exField(bdName, c, item{b: b, t: t, ta: &t.Traces[ai]}, -1))
				}
			}
			for li := range t.Logs {
				l := &t.Logs[li]
				if !l.Match {
					continue
				}
				if inputIdx >= 0 {
					ty := parseType(c.Decl.Inputs[inputIdx].Type)
					if ty.Arr {
						for _, e := range l.Vals[inputIdx].Elems {
							res = append(res, exInput(ty.elem(), e))
						}
					} else {
						res = append(res, exInput(ty, l.Vals[inputIdx]))
					}
				} else {
					res = append(res, exField(bdName, c, item{b: b, t: t, l: l}, -1))
				}
			}
		}
	}
	return res
}

func genFilterFor(r *lib.RNG, c *GCase, vals []exVal, kind string, odd bool) Flt {
	pick := func() exVal {
		if len(vals) == 0 {
			return exVal{Kind: kind, B: r.Bytes(20), S: "zz", N: big.NewInt(int64(r.Intn(50)))}
		}
		return lib.Pick(r, vals)
	}
	var f Flt
	switch kind {
	case "bytes":
		f.Op = lib.Pick(r, []string{"contains", "!contains", "eq", "ne"})
		for n := r.Range(1, 3); n > 0; n-- {
			v := pick().B
			switch k := r.Intn(10); {
			case len(v) == 0:
			case len(v) > 1 && v[0] == 0 && k < 8:
				// a value that begins with zero bytes: itself (mostly), the value
				// without its leading zero bytes, zeros of the same length, a short run of zeros
				switch r.Intn(8) {
				case 0:
					v = bytes.TrimLeft(v, "\x00")
					if len(v) == 0 {
						v = []byte{0}
					}
				case 1:
					v = make([]byte, len(v))
				case 2:
					v = make([]byte, r.Range(1, 3))
				}
			case k < 5:
			case k < 7: // near miss
				v = append([]byte{}, v...)
				v[r.Intn(len(v))] ^= 1
			case k < 9 && len(v) > 2: // a proper sub-slice
				a := r.Intn(len(v) - 1)
				v = v[a : a+r.Range(1, len(v)-a)]
			default:
				v = r.Bytes(len(v))
			}
			f.Args = append(f.Args, hexArg(r, v))
		}
		if r.Chance(1, 4) && (f.Op == "contains" || f.Op == "!contains") { // reference filter
			f.RefTable, f.RefCol = fmt.Sprintf("ref_t%d", len(c.DB)), "c"
			f.RefIG = "ig_" + f.RefTable
			if r.Bool() {
				f.Args = nil
			}
			t := RefTable{Table: f.RefTable, Column: f.RefCol}
			for n := r.Intn(5); n > 0; n-- {
				if r.Chance(2, 3) {
					t.Vals = append(t.Vals, append([]byte{}, pick().B...))
				} else {
					t.Vals = append(t.Vals, r.Bytes(20))
				}
			}
			if !(odd && r.Chance(1, 2)) {
				c.DB = append(c.DB, t)
			} else {
				c.Comment += "referenced table missing; "
			}
		}
		if odd && r.Chance(1, 3) {
			f.Op = lib.Pick(r, []string{"gt", "xcontains", "", "EQ"})
		}
	case "str":
		f.Op = lib.Pick(r, []string{"contains", "!contains", "eq", "ne"})
		for n := r.Range(1, 3); n > 0; n-- {
			if r.Chance(2, 3) {
				f.Args = append(f.Args, pick().S)
			} else {
				f.Args = append(f.Args, genText(r, r.Intn(6)))
			}
		}
		if odd && r.Chance(1, 3) {
			f.Op = lib.Pick(r, []string{"gt", "lt"})
		}
		if odd && r.Chance(1, 4) {
			f.Args, f.RefIG = nil, "ref_ig" // f.Arg[0] on an empty list
		}
	case "u64", "u256":
		bits := 64
		if kind == "u256" {
			bits = 256
		}
		f.Op = lib.Pick(r, []string{"eq", "ne", "gt", "lt"})
		f.Args = []string{around(r, pick().N, bits)}
		if r.Chance(1, 5) {
			f.Args = append(f.Args, around(r, pick().N, bits)) // only the first counts
		}
		if odd {
			switch r.Intn(5) {
			case 0:
				f.Args[0] = "12x"
			case 1:
				f.Args[0] = "-1"
			case 2:
				f.Args[0] = pow2(bits).String() // one above the range
			case 3:
				f.Op = lib.Pick(r, []string{"contains", "ge"})
			default:
				f.Args[0] = "0x10"
			}
		}
	default:
		// bool, intN, tx_type, tx_status, abi_idx: not filtered whatever is declared
		f.Op = lib.Pick(r, []string{"eq", "ne", "contains"})
		f.Args = []string{lib.Pick(r, []string{"1", "0", "true", "0x01"})}
	}
	return f
}

func kindOfInput(t abiType) string {
	e := t.elem()
	switch e.Base {
	case "uint":
		return "u256"
	case "address", "bytesN", "bytes":
		return "bytes"
	case "string":
		return "str"
	}
	return "other"
}

func kindOfField(name string) string {
	switch name {
	case "src_name", "ig_name", "trace_action_call_type":
		return "str"
	case "chain_id", "block_num", "block_time", "tx_idx", "log_idx", "tx_gas_used", "tx_nonce", "trace_action_idx":
		return "u64"
	case "tx_value", "tx_gas_price", "tx_effective_gas_price", "tx_max_priority_fee_per_gas", "tx_max_fee_per_gas", "trace_action_value":
		return "u256"
	case "tx_type", "tx_status", "abi_idx":
		return "other"
	}
	return "bytes"
}

func genFilters(r *lib.RNG, c *GCase, o GenOpts) {
	odd := r.Intn(100) < o.OddP
	if odd {
		c.Kind += "-odd"
	}
	d := &c.Decl
	n := 0
	for i := range d.Inputs {
		in := &d.Inputs[i]
		// filters on unselected inputs are not part of the row (and never evaluated)
		if !in.Selected() || !r.Chance(2, 5) {
			continue
		}
		in.Flt = genFilterFor(r, c, columnValues(c, i, ""), kindOfInput(parseType(in.Type)), odd)
		n++
	}
	for i := range d.Block {
		bd := &d.Block[i]
		p := 1
		if bd.Name == "log_addr" {
			p = 4
		}
		if !r.Chance(p, 5) {
			continue
		}
		bd.Flt = genFilterFor(r, c, columnValues(c, -1, bd.Name), kindOfField(bd.Name), odd && bd.Name != "log_addr")
		if bd.Name == "log_addr" && bd.Flt.RefTable == "" && r.Chance(1, 10) {
			bd.Flt.Args = append(bd.Flt.Args, "0xa0a0a0a0") // a short argument: sub-slice semantics
		}
		n++
	}
	// a share of the log_addr cases in the shape where the restriction may be
	// sent to the node: positive operator, address-long literal arguments, and
	// either aggregation "and" or no other active filter
	for i := range d.Block {
		bd := &d.Block[i]
		if bd.Name != "log_addr" || !bd.Flt.Active() || !r.Chance(2, 5) {
			continue
		}
		bd.Flt = Flt{Op: lib.Pick(r, []string{"contains", "eq"})}
		vals := columnValues(c, -1, "log_addr")
		for k := r.Range(1, 3); k > 0; k-- {
			a := genAddr(r)
			if len(vals) > 0 && r.Chance(2, 3) {
				a = lib.Pick(r, vals).B
			}
			bd.Flt.Args = append(bd.Flt.Args, hexArg(r, a))
		}
		if r.Bool() {
			d.Agg = lib.Pick(r, []string{"and", "AND"})
		} else {
			for j := range d.Inputs {
				d.Inputs[j].Flt = Flt{}
			}
			for j := range d.Block {
				if j != i {
					d.Block[j].Flt = Flt{}
				}
			}
			c.DB = nil
		}
	}
	if n == 0 {
		c.Kind += "-nofilter"
	}
	if c.Decl.Mode() == "log" && r.Intn(100) < o.RefMixP {
		refMix(r, c)
	} else if c.Decl.Mode() == "log" && r.Intn(100) < o.RowMixP {
		rowMix(r, c)
	}
	fillFilteredEmptyArrays(r, c)
}

// An empty selected array yields one row whose array column has no element;
// the reading says nothing about a filter on that column, and the oracle would
// have to abstain for the whole case.  Give such arrays one element instead, so
// that every generated case is judged.
func fillFilteredEmptyArrays(r *lib.RNG, c *GCase) {
	d := c.Decl
	sh := d.SigHash()
	for i, in := range d.Inputs {
		t := parseType(in.Type)
		if !(in.Selected() && !in.Indexed && t.Arr && in.Flt.Active()) {
			continue
		}
		for bi := range c.Blocks {
			for ti := range c.Blocks[bi].Txs {
				logs := c.Blocks[bi].Txs[ti].Logs
				for li := range logs {
					l := &logs[li]
					if l.Match && !l.BadABI && len(l.Vals[i].Elems) == 0 {
						l.Vals[i].Elems = []Val{genScalar(r, t.elem())}
						*l = BuildLog(d, sh, l.Vals, l.Addr, l.Idx)
					}
				}
			}
		}
	}
}

// rowMix reshapes a log-mode case so that ONE log yields several rows with
// different verdicts: a selected array input (uint[], string[], address[], fixed
// or dynamic length) of 3-6 elements per log, a filter on the element whose
// verdict alternates along the array in every order (A R A R.., R A R.., A A R R,
// R R A A, random), both aggregations, and usually a second filter on a block
// field (constant within the log).  The accumulator must start afresh for every row.
func rowMix(r *lib.RNG, c *GCase) {
	d := &c.Decl
	k := c.Kind
	for _, suf := range []string{"-nofilter", "-odd"} {
		k = strings.ReplaceAll(k, suf, "")
	}
	c.Kind = k + "-rowmix"
	c.DB, c.Comment, c.Expect = nil, "", ""
	for i := range d.Inputs {
		d.Inputs[i].Flt = Flt{}
		if t := parseType(d.Inputs[i].Type); t.Arr && d.Inputs[i].Selected() && !d.Inputs[i].Indexed {
			d.Inputs[i].Type = typeName(t.elem()) // keep one selected array only
		}
	}
	for i := range d.Block {
		d.Block[i].Flt = Flt{}
	}
	addCol := func(col string) {
		for _, x := range d.TableCols {
			if x == col {
				return
			}
		}
		d.TableCols = append(d.TableCols, col)
	}
	elem := lib.Pick(r, []string{"uint256", "uint256", "uint64", "uint24", "string", "address", "address"})
	n := r.Range(3, 6)
	ty := elem + "[]"
	if elem != "string" && r.Chance(1, 4) {
		ty = fmt.Sprintf("%s[%d]", elem, n)
	}
	ai := -1
	for i, in := range d.Inputs {
		if !in.Indexed {
			ai = i
			break
		}
	}
	if ai < 0 {
		d.Inputs = append(d.Inputs, Input{Name: fmt.Sprintf("a%d", len(d.Inputs))})
		ai = len(d.Inputs) - 1
	}
	d.Inputs[ai].Type = ty
	d.Inputs[ai].Column = "c_" + d.Inputs[ai].Name
	addCol(d.Inputs[ai].Column)
	if r.Bool() {
		has := false
		for _, b := range d.Block {
			has = has || b.Name == "abi_idx"
		}
		if !has {
			d.Block = append(d.Block, BD{Name: "abi_idx", Column: "abi_idx"})
			addCol("abi_idx")
		}
	}

	// the element filter and generators of accepted / rejected elements
	var f Flt
	var acc, rej func() Val
	et := parseType(ty).elem()
	switch et.Base {
	case "uint":
		T := int64(r.Range(2, 1<<20))
		up := func() Val { return Val{Int: big.NewInt(T + 1 + int64(r.Intn(3))).String()} }
		down := func() Val { return Val{Int: big.NewInt(T - 1 - int64(r.Intn(2))).String()} }
		same := func() Val { return Val{Int: big.NewInt(T).String()} }
		other := func() Val {
			if r.Bool() {
				return up()
			}
			return down()
		}
		f = Flt{Op: lib.Pick(r, []string{"gt", "lt", "eq", "ne"}), Args: []string{big.NewInt(T).String()}}
		switch f.Op {
		case "gt":
			acc, rej = up, func() Val {
				if r.Bool() {
					return same()
				}
				return down()
			}
		case "lt":
			acc, rej = down, func() Val {
				if r.Bool() {
					return same()
				}
				return up()
			}
		case "eq":
			acc, rej = same, other
		default:
			acc, rej = other, same
		}
	case "string":
		s1, s2 := "in_"+genText(r, 3), "IN_"+genText(r, 2)
		one := func() Val { return Val{Str: s1} }
		two := func() Val { return Val{Str: s2} }
		out := func() Val { return Val{Str: lib.Pick(r, []string{"out", s1 + "x", "", "x" + s2})} }
		f = Flt{Op: lib.Pick(r, []string{"contains", "!contains", "eq", "ne"}), Args: []string{s1, s2}}
		in := func() Val {
			if r.Bool() {
				return one()
			}
			return two()
		}
		switch f.Op {
		case "contains":
			acc, rej = in, out
		case "!contains":
			acc, rej = out, in
		case "eq": // only the first argument counts
			acc, rej = one, func() Val {
				if r.Bool() {
					return two()
				}
				return out()
			}
		default:
			acc, rej = func() Val {
				if r.Bool() {
					return two()
				}
				return out()
			}, one
		}
	default: // address
		a1, a2 := genAddr(r), r.Bytes(20)
		in := func() Val {
			if r.Bool() {
				return Val{Bytes: a1}
			}
			return Val{Bytes: a2}
		}
		out := func() Val {
			b := append([]byte{}, a1...)
			b[r.Intn(20)] ^= byte(1 + r.Intn(200))
			return Val{Bytes: b}
		}
		f = Flt{Op: lib.Pick(r, []string{"contains", "!contains", "eq", "ne"}), Args: []string{hexArg(r, a1), hexArg(r, a2)}}
		if f.Op == "contains" || f.Op == "eq" {
			acc, rej = in, out
		} else {
			acc, rej = out, in
		}
	}
	d.Inputs[ai].Flt = f

	// the chain again (the event changed), then the arrays in alternating orders
	c.Blocks = GenChain(r, *d, "log")
	sh := d.SigHash()
	var idxs []uint64
	for bi := range c.Blocks {
		for ti := range c.Blocks[bi].Txs {
			logs := c.Blocks[bi].Txs[ti].Logs
			for li := range logs {
				l := &logs[li]
				if !l.Match {
					continue
				}
				m := n
				if parseType(ty).Fixed == 0 {
					m = r.Range(3, 6)
				}
				pat := r.Intn(9)
				var es []Val
				for j := 0; j < m; j++ {
					var a bool
					switch pat {
					case 0:
						a = j%2 == 0
					case 1:
						a = j%2 == 1
					case 2:
						a = j < m/2
					case 3:
						a = j >= m/2
					case 4: // only the first rejected
						a = j != 0
					case 5: // only a middle one rejected
						a = j != m/2
					case 6: // all but the last rejected
						a = j == m-1
					case 7: // only the last rejected
						a = j != m-1
					default:
						a = r.Bool()
					}
					if a {
						es = append(es, acc())
					} else {
						es = append(es, rej())
					}
				}
				l.Vals[ai] = Val{IsArr: true, Elems: es}
				*l = BuildLog(*d, sh, l.Vals, l.Addr, l.Idx)
				idxs = append(idxs, l.Idx)
			}
		}
	}
	// a second filter on a block field, true for some logs and false for others
	if r.Chance(2, 3) {
		var g Flt
		name := "log_idx"
		if r.Chance(1, 3) {
			name = "log_addr"
			vals := columnValues(c, -1, "log_addr")
			a := genAddr(r)
			if len(vals) > 0 {
				a = lib.Pick(r, vals).B
			}
			g = Flt{Op: lib.Pick(r, []string{"eq", "ne", "contains", "!contains"}), Args: []string{hexArg(r, a)}}
		} else {
			mid := uint64(1)
			if len(idxs) > 0 {
				mid = lib.Pick(r, idxs)
			}
			g = Flt{Op: lib.Pick(r, []string{"gt", "lt", "eq", "ne"}), Args: []string{fmt.Sprint(mid)}}
		}
		found := false
		for i := range d.Block {
			if d.Block[i].Name == name && !found {
				d.Block[i].Flt = g
				found = true
			}
		}
		if !found {
			d.Block = append(d.Block, BD{Name: name, Column: name, Flt: g})
			addCol(name)
		}
	}
	d.Agg = lib.Pick(r, []string{"", "or", "and", "and", "AND"})
}

// refMix reshapes a log-mode case: a positive log_addr filter whose literal
// arguments cover only SOME of the emitting contracts, and next to it one or
// two reference filters (pure: no literal arguments; sometimes with literal
// arguments too) on event inputs / block fields, whose referenced tables hold
// values of logs emitted by contracts OUTSIDE the log_addr arguments.  Under
// "or" such a log is accepted through the reference filter alone, so the
// address restriction must not be sent; under "and" it may.  Neighbouring
// shapes: a reference filter on log_addr itself, a filter on an input that has
// no column (never evaluated).
func refMix(r *lib.RNG, c *GCase) {
	d := &c.Decl
	strip := func(k string) string {
		for _, suf := range []string{"-nofilter", "-odd"} {
			k = strings.ReplaceAll(k, suf, "")
		}
		return k
	}
	c.Kind = strip(c.Kind) + "-refmix"
	c.DB, c.Comment, c.Expect = nil, "", ""
	for i := range d.Inputs {
		d.Inputs[i].Flt = Flt{}
	}
	for i := range d.Block {
		d.Block[i].Flt = Flt{}
	}
	addBD := func(name, col string) int {
		for i, b := range d.Block {
			if b.Name == name && b.Column == col {
				return i
			}
		}
		d.Block = append(d.Block, BD{Name: name, Column: col})
		d.TableCols = append(d.TableCols, col)
		return len(d.Block) - 1
	}
	la := -1
	for i, b := range d.Block {
		if b.Name == "log_addr" {
			la = i
		}
	}
	if la < 0 {
		la = addBD("log_addr", "log_addr")
	}
	// the emitting contracts
	var addrs [][]byte
	seen := map[string]bool{}
	each := func(f func(b *Block, t *Tx, l *Log)) {
		for bi := range c.Blocks {
			for ti := range c.Blocks[bi].Txs {
				t := &c.Blocks[bi].Txs[ti]
				for li := range t.Logs {
					if t.Logs[li].Match {
						f(&c.Blocks[bi], t, &t.Logs[li])
					}
				}
			}
		}
	}
	each(func(b *Block, t *Tx, l *Log) {
		if !seen[string(l.Addr)] {
			seen[string(l.Addr)] = true
			addrs = append(addrs, l.Addr)
		}
	})
	shuffle(r, addrs)
	inside := map[string]bool{}
	fl := Flt{Op: lib.Pick(r, []string{"contains", "eq"})}
	nin := 1
	if len(addrs) > 2 {
		nin = r.Range(1, len(addrs)-1)
	}
	for i := 0; i < nin && i < len(addrs); i++ {
		inside[string(addrs[i])] = true
		fl.Args = append(fl.Args, hexArg(r, addrs[i]))
	}
	if len(fl.Args) == 0 {
		fl.Args = []string{hexArg(r, genAddr(r))}
	}
	d.Block[la].Flt = fl

	// reference filters
	type target struct {
		input int
		bd    int
	}
	var targets []target
	for i, in := range d.Inputs {
		if in.Selected() && kindOfInput(parseType(in.Type)) == "bytes" {
			targets = append(targets, target{input: i, bd: -1})
		}
	}
	for i, b := range d.Block {
		if i != la && b.Name != "log_addr" && kindOfField(b.Name) == "bytes" {
			targets = append(targets, target{input: -1, bd: i})
		}
	}
	if len(targets) == 0 || r.Chance(1, 4) {
		name := lib.Pick(r, []string{"tx_signer", "tx_hash", "tx_to"})
		targets = append(targets, target{input: -1, bd: addBD(name, name)})
	}
	if r.Chance(1, 5) { // a reference filter on log_addr itself, as a second entry
		targets = append(targets, target{input: -1, bd: addBD("log_addr", "log_addr_ref")})
	}
	shuffle(r, targets)
	nref := r.Range(1, 2)
	if nref > len(targets) {
		nref = len(targets)
	}
	for k := 0; k < nref; k++ {
		tg := targets[k]
		f := Flt{Op: "contains", RefTable: fmt.Sprintf("ref_t%d", len(c.DB)), RefCol: "c"}
		f.RefIG = "ig_" + f.RefTable
		if r.Chance(1, 6) {
			f.Op = "!contains"
		}
		tbl := RefTable{Table: f.RefTable, Column: f.RefCol}
		var outside, all [][]byte
		each(func(b *Block, t *Tx, l *Log) {
			var vs []exVal
			if tg.input >= 0 {
				ty := parseType(d.Inputs[tg.input].Type)
				if ty.Arr {
					for _, e := range l.Vals[tg.input].Elems {
						vs = append(vs, exInput(ty.elem(), e))
					}
				} else {
					vs = append(vs, exInput(ty, l.Vals[tg.input]))
				}
			} else {
				vs = append(vs, exField(d.Block[tg.bd].Name, c, item{b: b, t: t, l: l}, -1))
			}
			for _, v := range vs {
				if v.B == nil {
					continue
				}
				all = append(all, v.B)
				if !inside[string(l.Addr)] {
					outside = append(outside, v.B)
				}
			}
		})
		if len(outside) > 0 {
			tbl.Vals = append(tbl.Vals, append([]byte{}, lib.Pick(r, outside)...))
		}
		for _, v := range all {
			if r.Chance(1, 3) {
				tbl.Vals = append(tbl.Vals, append([]byte{}, v...))
			}
		}
		if r.Chance(1, 3) {
			tbl.Vals = append(tbl.Vals, r.Bytes(20))
		}
		if r.Chance(1, 5) && len(all) > 0 { // the neighbouring shape: literal arguments as well (ignored by contains)
			f.Args = []string{hexArg(r, lib.Pick(r, all))}
		}
		c.DB = append(c.DB, tbl)
		if tg.input >= 0 {
			d.Inputs[tg.input].Flt = f
		} else {
			d.Block[tg.bd].Flt = f
		}
	}
	if r.Chance(1, 5) { // a filter on an input that has no column: not part of the row, never evaluated
		for i := range d.Inputs {
			if !d.Inputs[i].Selected() {
				d.Inputs[i].Flt = Flt{Op: "eq", Args: []string{"0x01"}}
				break
			}
		}
	}
	d.Agg = lib.Pick(r, []string{"", "or", "or", "Or", "and", ""})
}

// Size of a case, for choosing the smallest failing one
func (c *GCase) Size() int {
	n := len(c.Decl.Inputs) + len(c.Decl.Block)
	for _, b := range c.Blocks {
		for _, t := range b.Txs {
			n += 1 + 2*len(t.Logs) + len(t.Traces)
		}
	}
	return n
}

// EnsureAbiIdx adds an abi_idx column to the declaration if it has none.
func EnsureAbiIdx(c *GCase) {
	for _, b := range c.Decl.Block {
		if b.Name == "abi_idx" {
			return
		}
	}
	c.Decl.Block = append(c.Decl.Block, BD{Name: "abi_idx", Column: "abi_idx_col"})
	c.Decl.TableCols = append(c.Decl.TableCols, "abi_idx_col")
}
