package rows

import (
	"fmt"
	"math/big"
	"strconv"
	"strings"

	"verif/harness/lib"
)

// ---- ABI types handled by the generators: static elementary types,
// string, bytes, and one-level arrays T[] / T[k] (k <= 9) of static
// elementary types, plus string[].

type abiType struct {
	Base  string // "uint", "int", "address", "bool", "bytesN", "string", "bytes"
	Bits  int    // uint/int
	N     int    // bytesN
	Arr   bool
	Fixed int // 0: dynamic length
}

func parseType(s string) abiType {
	var t abiType
	base := s
	if i := strings.IndexByte(s, '['); i >= 0 {
		base = s[:i]
		t.Arr = true
		inner := s[i+1 : len(s)-1]
		if inner != "" {
			t.Fixed, _ = strconv.Atoi(inner)
		}
	}
	switch {
	case strings.HasPrefix(base, "uint"):
		t.Base = "uint"
		t.Bits, _ = strconv.Atoi(base[4:])
	case strings.HasPrefix(base, "int"):
		t.Base = "int"
		t.Bits, _ = strconv.Atoi(base[3:])
	case base == "address":
		t.Base = "address"
	case base == "bool":
		t.Base = "bool"
	case base == "string":
		t.Base = "string"
	case base == "bytes":
		t.Base = "bytes"
	case strings.HasPrefix(base, "bytes"):
		t.Base = "bytesN"
		t.N, _ = strconv.Atoi(base[5:])
	default:
		panic("rows: unknown type " + s)
	}
	return t
}

func (t abiType) elem() abiType     { e := t; e.Arr = false; e.Fixed = 0; return e }
func (t abiType) dynamicElem() bool { return t.Base == "string" || t.Base == "bytes" }
func (t abiType) dynamic() bool {
	if t.Arr {
		return t.Fixed == 0 || t.elem().dynamicElem()
	}
	return t.dynamicElem()
}

var two256 = new(big.Int).Lsh(big.NewInt(1), 256)

func word(n *big.Int) []byte {
	m := new(big.Int).Mod(n, two256) // two's complement of negatives
	b := m.Bytes()
	w := make([]byte, 32)
	copy(w[32-len(b):], b)
	return w
}

func pad32(b []byte) []byte {
	n := (len(b) + 31) / 32 * 32
	out := make([]byte, n)
	copy(out, b)
	return out
}

// the 32-byte word of a static scalar
func scalarWord(t abiType, v Val) []byte {
	switch t.Base {
	case "uint", "int":
		return word(v.Big())
	case "address":
		w := make([]byte, 32)
		copy(w[12:], v.Bytes)
		return w
	case "bool":
		w := make([]byte, 32)
		if v.Bool {
			w[31] = 1
		}
		return w
	case "bytesN":
		w := make([]byte, 32)
		copy(w, v.Bytes)
		return w
	}
	panic("scalarWord: not static: " + t.Base)
}

func dynBytes(t abiType, v Val) []byte {
	if t.Base == "string" {
		return []byte(v.Str)
	}
	return v.Bytes
}

// encoding of one value of type t: (head part if static, or tail part if dynamic)
func encodeVal(t abiType, v Val) []byte {
	switch {
	case t.Arr:
		et := t.elem()
		var out []byte
		if t.Fixed == 0 {
			out = append(out, word(big.NewInt(int64(len(v.Elems))))...)
		}
		if et.dynamicElem() {
			// offsets relative to the start of the element area
			off := 32 * len(v.Elems)
			var tails []byte
			for _, e := range v.Elems {
				out = append(out, word(big.NewInt(int64(off)))...)
				enc := encodeVal(et, e)
				tails = append(tails, enc...)
				off += len(enc)
			}
			return append(out, tails...)
		}
		for _, e := range v.Elems {
			out = append(out, scalarWord(et, e)...)
		}
		return out
	case t.dynamicElem():
		b := dynBytes(t, v)
		return append(word(big.NewInt(int64(len(b)))), pad32(b)...)
	default:
		return scalarWord(t, v)
	}
}

// ABI encoding of the non-indexed inputs as one tuple (head/tail)
func encodeData(types []abiType, vals []Val) []byte {
	headSize := 0
	for _, t := range types {
		if t.dynamic() {
			headSize += 32
		} else if t.Arr {
			headSize += 32 * t.Fixed
		} else {
			headSize += 32
		}
	}
	var head, tail []byte
	for i, t := range types {
		enc := encodeVal(t, vals[i])
		if t.dynamic() {
			head = append(head, word(big.NewInt(int64(headSize+len(tail))))...)
			tail = append(tail, enc...)
		} else {
			head = append(head, enc...)
		}
	}
	return append(head, tail...)
}

// ---- random values

func pow2(k int) *big.Int { return new(big.Int).Lsh(big.NewInt(1), uint(k)) }

// integer patterns {0,1,-1,min,max,2^k,2^k-1,random} of the given width
func genInt(r *lib.RNG, signed bool, bits int) *big.Int {
	max := new(big.Int).Sub(pow2(bits), big.NewInt(1))
	min := big.NewInt(0)
	if signed {
		max = new(big.Int).Sub(pow2(bits-1), big.NewInt(1))
		min = new(big.Int).Neg(pow2(bits - 1))
	}
	var n *big.Int
	switch r.Intn(9) {
	case 0:
		n = big.NewInt(0)
	case 1:
		n = big.NewInt(1)
	case 2:
		if signed {
			n = big.NewInt(-1)
		} else {
			n = new(big.Int).Set(max)
		}
	case 3:
		n = new(big.Int).Set(min)
	case 4:
		n = new(big.Int).Set(max)
	case 5:
		hi := bits
		if signed {
			hi = bits - 1
		}
		n = pow2(r.Intn(hi))
		if signed && r.Bool() {
			n.Neg(n)
		}
	case 6:
		hi := bits
		if signed {
			hi = bits - 1
		}
		n = new(big.Int).Sub(pow2(r.Range(1, hi)), big.NewInt(1))
		if signed && r.Bool() {
			n.Neg(n)
			n.Sub(n, big.NewInt(1)) // -(2^k)
		}
	default:
		n = new(big.Int).SetBytes(r.Bytes((bits + 7) / 8))
		n.Mod(n, pow2(bits))
		if signed {
			n.Sub(n, pow2(bits-1))
		}
	}
	if n.Cmp(min) < 0 || n.Cmp(max) > 0 {
		n = new(big.Int).Set(max)
	}
	return n
}

func genScalar(r *lib.RNG, t abiType) Val {
	switch t.Base {
	case "uint":
		return Val{Int: genInt(r, false, t.Bits).String()}
	case "int":
		return Val{Int: genInt(r, true, t.Bits).String()}
	case "address":
		return Val{Bytes: genAddr(r)}
	case "bool":
		return Val{Bool: r.Bool()}
	case "bytesN":
		return Val{Bytes: r.Bytes(t.N)}
	case "string":
		return Val{Str: genText(r, r.Intn(40))}
	case "bytes":
		return Val{Bytes: r.Bytes(r.Intn(70))}
	}
	panic("genScalar")
}

// a small pool of addresses so that filters hit
func genAddr(r *lib.RNG) []byte {
	a := make([]byte, 20)
	k := byte(r.Intn(6))
	for i := range a {
		a[i] = 0xa0 + k
	}
	if r.Chance(1, 5) {
		a[19] ^= byte(1 + r.Intn(3)) // near miss
	}
	if r.Chance(1, 12) {
		a = r.Bytes(20)
	}
	return a
}

func genText(r *lib.RNG, n int) string {
	const al = "abcXYZ09 _-"
	b := make([]byte, n)
	for i := range b {
		b[i] = al[r.Intn(len(al))]
	}
	return string(b)
}

func genVal(r *lib.RNG, t abiType, allowEmptyArr bool) Val {
	if !t.Arr {
		return genScalar(r, t)
	}
	n := t.Fixed
	if n == 0 {
		n = r.Range(1, 4)
		if allowEmptyArr && r.Chance(1, 8) {
			n = 0
		}
	}
	v := Val{IsArr: true}
	for i := 0; i < n; i++ {
		v.Elems = append(v.Elems, genScalar(r, t.elem()))
	}
	return v
}

// ---- what Result.Scan yields for well-formed data (the reading of the ABI
// row rule for the types above): cells of the selected non-indexed inputs;
// nil cell = nothing decoded there.
type scanCell struct {
	Nil bool
	B   []byte
}

func scanCellOf(t abiType, v Val) scanCell {
	if t.dynamicElem() {
		b := dynBytes(t, v)
		if len(b) == 0 {
			return scanCell{Nil: true}
		}
		return scanCell{B: b}
	}
	return scanCell{B: scalarWord(t, v)}
}

// selTypes/selVals: the SELECTED non-indexed inputs, in declaration order
func scanRows(selTypes []abiType, selVals []Val) [][]scanCell {
	n := len(selTypes)
	single := make([]scanCell, n)
	for i := range single {
		single[i] = scanCell{Nil: true}
	}
	var rows [][]scanCell
	for i, t := range selTypes {
		if !t.Arr {
			single[i] = scanCellOf(t, selVals[i])
			continue
		}
		for _, e := range selVals[i].Elems {
			row := make([]scanCell, n)
			for j := range row {
				row[j] = scanCell{Nil: true}
			}
			row[i] = scanCellOf(t.elem(), e)
			rows = append(rows, row)
		}
	}
	if len(rows) == 0 {
		rows = append(rows, make([]scanCell, n))
		for j := range rows[0] {
			rows[0][j] = scanCell{Nil: true}
		}
	}
	for _, row := range rows {
		for j := range row {
			if !single[j].Nil && len(single[j].B) > 0 {
				row[j] = single[j]
			}
		}
	}
	return rows
}

func typeName(t abiType) string {
	var b string
	switch t.Base {
	case "uint", "int":
		b = fmt.Sprintf("%s%d", t.Base, t.Bits)
	case "bytesN":
		b = fmt.Sprintf("bytes%d", t.N)
	default:
		b = t.Base
	}
	if t.Arr {
		if t.Fixed > 0 {
			return fmt.Sprintf("%s[%d]", b, t.Fixed)
		}
		return b + "[]"
	}
	return b
}
