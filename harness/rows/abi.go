package rows

import (
	"fmt"
	"math/big"
	"strconv"
	"strings"

	"verif/harness/lib"
)

// ---- ABI types handled by the generators: static elementary types,
// string, bytes, and one-level arrays T[] / T[k] (k <= 9) of static
// elementary types, plus string[].

type abiType struct {
	Base  string // "uint", "int", "address", "bool", "bytesN", "string", "bytes"
	Bits  int    // uint/int
	N     int    // bytesN
	Arr   bool
	Fixed int // 0: dynamic length
}

func parseType(s string) abiType {
	var t abiType
	base := s
	if i := strings.IndexByte(s, '['); i >= 0 {
		base = s[:i]
		t.Arr = true
		inner := s[i+1 : len(s)-1]
		if inner != "" {
			t.Fixed, _ = strconv.Atoi(inner)
		}
	}
	switch {
	case strings.HasPrefix(base, "uint"):
		t.Base = "uint"
		t.Bits, _ = strconv.Atoi(base[4:])
	case strings.HasPrefix(base, "int"):
		t.Base = "int"
		t.Bits, _ = strconv.Atoi(base[3:])
	case base == "address":
		t.Base = "address"
	case base == "bool":
		t.Base = "bool"
	case base == "string":
		t.Base = "string"
	case base == "bytes":
		t.Base = "bytes"
	case strings.HasPrefix(base, "bytes"):
		t.Base = "bytesN"
		t.N, _ = strconv.Atoi(base[5:])
	default:
		panic("rows: unknown type " + s)
	}
	return t
}

func (t abiType) elem() abiType     { e := t; e.Arr = false; e.Fixed = 0; return e }
func (t abiType) dynamicElem() bool { return t.Base == "string" || t.Base == "bytes" }
func (t abiType) dynamic() bool {
	if t.Arr {
		return t.Fixed == 0 || t.elem().dynamicElem()
	}
	return t.dynamicElem()
}

var two256 = new(big.Int).Lsh(big.NewInt(1), 256)

func word(n *big.Int) []byte {
	m := new(big.Int).Mod(n, two256) // two's complement of negatives
	b := m.Bytes()
	w := make([]byte, 32)
	copy(w[32-len(b):], b)
	return w
}

func pad32(b []byte) []byte {
	n := (len(b) + 31) / 32 * 32
	out := make([]byte, n)
	copy(out, b)
	return out
}

// the 32-byte word of a static scalar
func scalarWord(t abiType, v Val) []byte {
	switch t.Base {
	case "uint", "int":
		return word(v.Big())
	case "address":
		w := make([]byte, 32)
		copy(w[12:], v.Bytes)
		return w
	case "bool":
		w := make([]byte, 32)
		if v.Bool {
			w[31] = 1
		}
		return w
	case "bytesN":
		w := make([]byte, 32)
		copy(w, v.Bytes)
		return w
	}
	panic("scalarWord: not static: " + t.Base)
}

func dynBytes(t abiType, v Val) []byte {
	if t.Base == "string" {
		return []byte(v.Str)
	}
	return v.Bytes
}

// encoding of one value of type t: (head part if static, or tail part if dynamic)
func encodeVal(t abiType, v Val) []byte {
	switch {
	case t.Arr:
		et := t.elem()
		var out []byte
		if t.Fixed == 0 {
			out = append(out, word(big.NewInt(int64(len(v.Elems))))...)
		}
		if et.dynamicElem() {
			// offsets relative to the start of the element area
			off := 32 * len(v.Elems)
			var tails []byte
			for _, e := range v.Elems {
				out = append(out, word(big.NewInt(int64(off)))...)
				enc := encodeVal(et, e)
				tails = append(tails, enc...)
				off += len(enc)
			}
			return append(out, tails...)
		}
		for _, e := range v.Elems {
			out = append(out, scalarWord(et, e)...)
		}
		return out
	case t.dynamicElem():
		b := dynBytes(t, v)
		return append(word(big.NewInt(int64(len(b)))), pad32(b)...)
	default:
		return scalarWord(t, v)
	}
}

// ABI encoding of the non-indexed inputs as one tuple (head/tail)
func encodeData(types []abiType, vals []Val) []byte {
	headSize := 0
	for _, t := range types {
		if t.dynamic() {
			headSize += 32
		} else if t.Arr {
			headSize += 32 * t.Fixed
		} else {
			headSize += 32
		}
	}
	var head, tail []byte
	for i, t := range types {
		enc := encodeVal(t, vals[i])
		if t.dynamic() {
			head = append(head, word(big.NewInt(int64(headSize+len(tail))))...)
			tail = append(tail, enc...)
		} else {
			head = append(head, enc...)
		}
	}
	return append(head, tail...)
}

// ---- random values

func pow2(k int) *big.Int { return new(big.Int).Lsh(big.NewInt(1), uint(k)) }

// integer patterns of the given width: 0, 1, -1, min, max; the neighbourhood of
// EVERY power of two up to the width (2^k, 2^k +-1, 2^k +- 2^j, either sign);
// the machine-word boundaries 2^31, 2^32, 2^63, 2^64 (+-1, +-small, and uniformly
// random magnitudes inside [2^31,2^32) and [2^63,2^64)); uniformly random values
func genInt(r *lib.RNG, signed bool, bits int) *big.Int {
	max := new(big.Int).Sub(pow2(bits), big.NewInt(1))
	min := big.NewInt(0)
	if signed {
		max = new(big.Int).Sub(pow2(bits-1), big.NewInt(1))
		min = new(big.Int).Neg(pow2(bits - 1))
	}
	random := func() *big.Int {
		n := new(big.Int).SetBytes(r.Bytes((bits + 7) / 8))
		n.Mod(n, pow2(bits))
		if signed {
			n.Sub(n, pow2(bits-1))
		}
		return n
	}
	sign := func(n *big.Int) *big.Int {
		if signed && r.Bool() {
			return n.Neg(n)
		}
		return n
	}
	small := func() *big.Int { return big.NewInt(int64(r.Intn(300))) }
	// a power of two not above the width's magnitude range
	top := bits
	if signed {
		top = bits - 1
	}
	var n *big.Int
	switch r.Intn(16) {
	case 0:
		n = big.NewInt(0)
	case 1:
		n = sign(big.NewInt(1))
	case 2:
		n = new(big.Int).Set(min)
	case 3:
		n = new(big.Int).Set(max)
	case 4: // next to the extremes
		if r.Bool() {
			n = new(big.Int).Add(min, small())
		} else {
			n = new(big.Int).Sub(max, small())
		}
	case 5, 6, 7, 8: // the neighbourhood of a power of two
		k := r.Intn(top + 1)
		n = pow2(k)
		switch r.Intn(6) {
		case 0:
		case 1:
			n.Sub(n, big.NewInt(1))
		case 2:
			n.Add(n, big.NewInt(1))
		case 3:
			if k > 0 {
				n.Add(n, pow2(r.Intn(k)))
			}
		case 4:
			if k > 0 {
				n.Sub(n, pow2(r.Intn(k)))
			}
		default:
			n.Add(n, small())
		}
		n = sign(n)
	case 9, 10, 11, 12: // machine-word boundaries
		var ws []int
		for _, w := range []int{31, 32, 63, 64} {
			if w <= top {
				ws = append(ws, w)
			}
		}
		if len(ws) == 0 {
			n = random()
			break
		}
		w := ws[len(ws)-1-r.Intn(min2(len(ws), 2))] // mostly the two largest that fit
		if r.Chance(1, 4) {
			w = lib.Pick(r, ws)
		}
		n = pow2(w)
		switch r.Intn(6) {
		case 0:
		case 1:
			n.Sub(n, big.NewInt(1))
		case 2:
			n.Add(n, big.NewInt(1))
		case 3:
			n.Sub(n, small())
		case 4:
			n.Add(n, small())
		default: // uniformly inside [2^(w-1), 2^w)
			lo := pow2(w - 1)
			off := new(big.Int).SetBytes(r.Bytes(w/8 + 1))
			off.Mod(off, lo)
			n = lo.Add(lo, off)
		}
		n = sign(n)
	default:
		n = random()
	}
	if n.Cmp(min) < 0 || n.Cmp(max) > 0 {
		n = random()
	}
	return n
}

func min2(a, b int) int {
	if a < b {
		return a
	}
	return b
}

func genScalar(r *lib.RNG, t abiType) Val {
	switch t.Base {
	case "uint":
		return Val{Int: genInt(r, false, t.Bits).String()}
	case "int":
		return Val{Int: genInt(r, true, t.Bits).String()}
	case "address":
		return Val{Bytes: genAddr(r)}
	case "bool":
		return Val{Bool: r.Bool()}
	case "bytesN":
		if r.Chance(1, 4) {
			return Val{Bytes: zeroLead(r, t.N)}
		}
		return Val{Bytes: r.Bytes(t.N)}
	case "string":
		return Val{Str: genText(r, r.Intn(40))}
	case "bytes":
		if r.Chance(1, 5) {
			return Val{Bytes: zeroLead(r, r.Range(2, 40))}
		}
		return Val{Bytes: r.Bytes(r.Intn(70))}
	}
	panic("genScalar")
}

// a small pool of addresses so that filters hit
// zeroLead: an n-byte value from a small pool of families built around leading
// zero bytes: z in {1, 2, n-1, n} leading zeros followed by a fixed remainder R_z;
// variant 0 is that value, variant 1 differs from it only in the first byte,
// variant 2 has its zero prefix replaced by non-zero bytes (it embeds R_z)
func zeroLead(r *lib.RNG, n int) []byte {
	zs := []int{1, 2, n - 1, n}
	z := zs[r.Intn(len(zs))]
	if z < 1 {
		z = 1
	}
	if z > n {
		z = n
	}
	b := make([]byte, n)
	for i := z; i < n; i++ {
		b[i] = byte(0xd0 + z%13 + i%3)
	}
	switch r.Intn(4) {
	case 0, 1:
	case 2:
		b[0] = 0x01
	default:
		for i := 0; i < z; i++ {
			b[i] = 0xee
		}
	}
	return b
}

func genAddr(r *lib.RNG) []byte {
	if r.Chance(1, 5) {
		return zeroLead(r, 20)
	}
	a := make([]byte, 20)
	k := byte(r.Intn(6))
	for i := range a {
		a[i] = 0xa0 + k
	}
	if r.Chance(1, 5) {
		a[19] ^= byte(1 + r.Intn(3)) // near miss
	}
	if r.Chance(1, 12) {
		a = r.Bytes(20)
	}
	return a
}

func genText(r *lib.RNG, n int) string {
	const al = "abcXYZ09 _-"
	b := make([]byte, n)
	for i := range b {
		b[i] = al[r.Intn(len(al))]
	}
	return string(b)
}

func genVal(r *lib.RNG, t abiType, allowEmptyArr bool) Val {
	if !t.Arr {
		return genScalar(r, t)
	}
	n := t.Fixed
	if n == 0 {
		n = r.Range(1, 4)
		if allowEmptyArr && r.Chance(1, 8) {
			n = 0
		}
	}
	v := Val{IsArr: true}
	for i := 0; i < n; i++ {
		v.Elems = append(v.Elems, genScalar(r, t.elem()))
	}
	return v
}

// ---- what Result.Scan yields for well-formed data (the reading of the ABI
// row rule for the types above): cells of the selected non-indexed inputs;
// nil cell = nothing decoded there.
type scanCell struct {
	Nil bool
	B   []byte
}

func scanCellOf(t abiType, v Val) scanCell {
	if t.dynamicElem() {
		b := dynBytes(t, v)
		if len(b) == 0 {
			return scanCell{Nil: true}
		}
		return scanCell{B: b}
	}
	return scanCell{B: scalarWord(t, v)}
}

// selTypes/selVals: the SELECTED non-indexed inputs, in declaration order
func scanRows(selTypes []abiType, selVals []Val) [][]scanCell {
	n := len(selTypes)
	single := make([]scanCell, n)
	for i := range single {
		single[i] = scanCell{Nil: true}
	}
	var rows [][]scanCell
	for i, t := range selTypes {
		if !t.Arr {
			single[i] = scanCellOf(t, selVals[i])
			continue
		}
		for _, e := range selVals[i].Elems {
			row := make([]scanCell, n)
			for j := range row {
				row[j] = scanCell{Nil: true}
			}
			row[i] = scanCellOf(t.elem(), e)
			rows = append(rows, row)
		}
	}
	if len(rows) == 0 {
		rows = append(rows, make([]scanCell, n))
		for j := range rows[0] {
			rows[0][j] = scanCell{Nil: true}
		}
	}
	for _, row := range rows {
		for j := range row {
			if !single[j].Nil && len(single[j].B) > 0 {
				row[j] = single[j]
			}
		}
	}
	return rows
}

func typeName(t abiType) string {
	var b string
	switch t.Base {
	case "uint", "int":
		b = fmt.Sprintf("%s%d", t.Base, t.Bits)
	case "bytesN":
		b = fmt.Sprintf("bytes%d", t.N)
	default:
		b = t.Base
	}
	if t.Arr {
		if t.Fixed > 0 {
			return fmt.Sprintf("%s[%d]", b, t.Fixed)
		}
		return b + "[]"
	}
	return b
}
