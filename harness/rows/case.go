package rows

import (
	"bytes"
	"encoding/hex"
	"encoding/json"
	"fmt"
	"os"
	"strings"

	"verif/harness/lib"
)

// ---- the node's side of eth_getLogs: really applies the address / topic
// parameters it is given (hex strings as sent by jrpc2)

// unhex: the harness's own reading of a hex argument -- an optional 0x/0X
// prefix (once), an odd number of digits padded with one leading zero digit
func unhex(s string) []byte {
	if len(s) >= 2 && s[0] == '0' && (s[1] == 'x' || s[1] == 'X') {
		s = s[2:]
	}
	if len(s)%2 == 1 {
		s = "0" + s
	}
	b, _ := hex.DecodeString(s)
	return b
}

func NodePass(addrs []string, topics [][]string, l *Log) bool {
	if len(addrs) > 0 {
		hit := false
		for _, a := range addrs {
			if bytes.Equal(unhex(a), l.Addr) {
				hit = true
			}
		}
		if !hit {
			return false
		}
	}
	for i, alt := range topics {
		if i >= len(l.Topics) {
			return false
		}
		if len(alt) == 0 {
			continue
		}
		hit := false
		for _, a := range alt {
			if bytes.Equal(unhex(a), l.Topics[i]) {
				hit = true
			}
		}
		if !hit {
			return false
		}
	}
	return true
}

// NodeFilter: the chain as the indexer sees it when logs come from eth_getLogs
// with these parameters (transactions kept, logs withheld)
func NodeFilter(addrs []string, topics [][]string, blocks []Block) (res []Block, withheld int) {
	for _, b := range blocks {
		nb := b
		nb.Txs = nil
		for _, t := range b.Txs {
			nt := t
			nt.Logs = nil
			for i := range t.Logs {
				if NodePass(addrs, topics, &t.Logs[i]) {
					nt.Logs = append(nt.Logs, t.Logs[i])
				} else {
					withheld++
				}
			}
			nb.Txs = append(nb.Txs, nt)
		}
		res = append(res, nb)
	}
	return
}

// ---- running one generated case

type Result struct {
	Cases []lib.Case
}

type desc struct {
	Case      *GCase `json:"case"`
	Site      string `json:"site"`                       // what was run: insert | insert-after-node-filter | filter()
	Obs       *Obs   `json:"obs,omitempty"`              // implementation
	Want      any    `json:"want,omitempty"`             // oracle
	WantWhole any    `json:"want_whole_chain,omitempty"` // rows accepted over all logs of the chain (pushdown path)
	Pushed    any    `json:"pushed,omitempty"`           // eth_getLogs parameters
	Shape     string `json:"shape,omitempty"`            // classification used by known_findings
}

func nontrivial(c *GCase, ex Expect, obs Obs) bool {
	// rule: at least one row was emitted or at least one candidate row was
	// rejected by a filter, or an error/panic outcome was produced
	return len(obs.Rows) > 0 || ex.NCand > len(ex.Rows) || obs.Outcome != "ok"
}

const Rule = "the case emitted at least one row, or a filter rejected at least one candidate row, or Insert ended in an error/panic (by construction)"

func wantOf(ex Expect) any {
	rows := make([]string, len(ex.Rows))
	for i, r := range ex.Rows {
		rows[i] = rowKey(r)
	}
	return map[string]any{"outcome": ex.Outcome, "why": ex.Why, "cols": ex.Cols, "rows": rows}
}

func acceptedOf(ex Expect) any {
	rows := make([]string, len(ex.Accepted))
	for i, r := range ex.Accepted {
		rows[i] = rowKey(r)
	}
	return map[string]any{"accepted": rows, "undecided": ex.Undecided}
}

// Shape classifies a declaration by the features the known defects depend on.
func Shape(c *GCase) string {
	d := c.Decl
	var fs []string
	seenUnselIdx := false
	for _, in := range d.Inputs {
		if in.Indexed && !in.Selected() {
			seenUnselIdx = true
		}
		if in.Indexed && in.Selected() && seenUnselIdx {
			fs = append(fs, "selected-indexed-after-unselected-indexed")
			break
		}
	}
	for _, in := range d.Inputs {
		if in.Selected() && strings.Contains(in.Type, "[") && (strings.HasPrefix(in.Type, "bool") || strings.HasPrefix(in.Type, "string")) {
			fs = append(fs, "array-of-"+in.Type[:strings.Index(in.Type, "[")])
		}
	}
	for _, b := range d.Block {
		if strings.HasPrefix(b.Name, "trace_") != strings.HasPrefix(b.Column, "trace_") {
			fs = append(fs, "trace-prefix-differs")
			break
		}
	}
	nact := 0
	for _, in := range d.Inputs {
		if in.Selected() && in.Flt.Active() {
			nact++
		}
	}
	for _, b := range d.Block {
		if b.Flt.Active() {
			nact++
		}
	}
	for _, b := range d.Block {
		if b.Name == "log_addr" && len(b.Flt.Args) > 0 {
			switch {
			case b.Flt.Op != "contains" && b.Flt.Op != "eq":
				fs = append(fs, "log_addr-op-"+b.Flt.Op)
			case b.Flt.RefTable != "":
				fs = append(fs, "log_addr-ref")
			case strings.ToLower(d.Agg) != "and" && nact > 1:
				fs = append(fs, "log_addr-or-others")
			}
		}
	}
	if len(fs) == 0 {
		return "plain"
	}
	return strings.Join(fs, ",")
}

// RunCase runs one case on the implementation, judges it with the oracle
// and returns the correspondence case(s).
func RunCase(c *GCase) []lib.Case {
	sighash := c.Decl.SigHash()
	var res []lib.Case
	switch c.Path {
	case "pushdown":
		ig, err := c.newIG()
		if err != nil {
			obs := Obs{Outcome: "err", Msg: "building the integration: " + err.Error()}
			return []lib.Case{{Coq: CInsert(c, c.Blocks, sighash, obs), Kind: c.Kind, OracleOK: false, OracleMsg: obs.Msg,
				Desc: desc{Case: c, Site: "new", Obs: &obs, Shape: Shape(c)}, Size: c.Size()}}
		}
		gf := ig.Filter()
		addrs, topics := gf.Addresses(), gf.Topics()
		pushed := map[string]any{"addresses": addrs, "topics": topics}
		res = append(res, lib.Case{
			Coq: CPush(c.Decl, sighash, addrs, topics), Kind: "filter()", Nontrivial: len(addrs) > 0, OracleOK: true,
			Desc: desc{Case: c, Site: "filter()", Pushed: pushed, Shape: Shape(c)}, Size: c.Size(),
		})
		seen, withheld := NodeFilter(addrs, topics, c.Blocks)
		obs := RunInsert(c, EthBlocks(seen))
		// (a) what indexing the DELIVERED chain must give: an error iff a delivered
		//     log reaches a filter that cannot be evaluated, else the accepted rows
		//     of the delivered logs
		ex := Expected(c, seen)
		ok, msg := Judge(ex, obs, false)
		// (b) the property proper: every row the declaration accepts over ALL logs
		//     of the chain is still accepted over the delivered ones (a log whose
		//     evaluation raises an error is not an accepted log)
		whole := Expected(c, c.Blocks)
		if lost, judged := LostByRestriction(whole, ex); ok && judged && len(lost) > 0 {
			ok = false
			msg = fmt.Sprintf("%d accepted row(s) lost, e.g. %s", len(lost), lost[0])
		}
		if !ok {
			msg = fmt.Sprintf("with the eth_getLogs restrictions applied (%d logs withheld, addresses %v): %s", withheld, addrs, msg)
		}
		kind := c.Kind + "/pushdown"
		if len(addrs) > 0 {
			kind += "+addr"
		}
		res = append(res, lib.Case{
			Coq: CInsert(c, seen, sighash, obs), Kind: kind, Nontrivial: nontrivial(c, ex, obs), OracleOK: ok, OracleMsg: msg,
			Desc: desc{Case: c, Site: "insert-after-node-filter", Obs: &obs, Want: wantOf(ex), WantWhole: acceptedOf(whole), Pushed: pushed, Shape: Shape(c)}, Size: c.Size(),
		})
	default:
		obs := RunInsert(c, EthBlocks(c.Blocks))
		ex := Expected(c, c.Blocks)
		ok, msg := Judge(ex, obs, false)
		res = append(res, lib.Case{
			Coq: CInsert(c, c.Blocks, sighash, obs), Kind: c.Kind, Nontrivial: nontrivial(c, ex, obs), OracleOK: ok, OracleMsg: msg,
			Desc: desc{Case: c, Site: "insert", Obs: &obs, Want: wantOf(ex), Shape: Shape(c)}, Size: c.Size(),
		})
	}
	return res
}

// LoadReplay extracts the generated case from a replay file written by bin/check
// (failing_input.desc.case) or from a bare case file.
func LoadReplay(path string) (*GCase, error) {
	raw, err := os.ReadFile(path)
	if err != nil {
		return nil, err
	}
	var rep struct {
		FailingInput *struct {
			Desc desc `json:"desc"`
		} `json:"failing_input"`
		Case *GCase `json:"case"`
	}
	if err := json.Unmarshal(raw, &rep); err != nil {
		return nil, err
	}
	switch {
	case rep.FailingInput != nil && rep.FailingInput.Desc.Case != nil:
		return rep.FailingInput.Desc.Case, nil
	case rep.Case != nil:
		return rep.Case, nil
	}
	return nil, fmt.Errorf("%s: no case to replay (no failing input was recorded)", path)
}

// HasRef: some filter of the declaration references another integration
func HasRef(c *GCase) bool {
	for _, in := range c.Decl.Inputs {
		if in.Flt.RefIG != "" || in.Flt.RefTable != "" {
			return true
		}
	}
	for _, b := range c.Decl.Block {
		if b.Flt.RefIG != "" || b.Flt.RefTable != "" {
			return true
		}
	}
	return false
}

// Validatable: the declaration can go through config.ValidateFix as it is --
// every filter_ref names integration "ig_<table>" with its table and column,
// block-data names and input names are unique.
func Validatable(c *GCase) bool {
	ok := func(f Flt) bool {
		if f.RefIG == "" && f.RefTable == "" && f.RefCol == "" {
			return true
		}
		return f.RefTable != "" && f.RefCol != "" && f.RefIG == "ig_"+f.RefTable
	}
	names := map[string]bool{}
	for _, in := range c.Decl.Inputs {
		if !ok(in.Flt) {
			return false
		}
	}
	for _, b := range c.Decl.Block {
		if !ok(b.Flt) || names[b.Name] {
			return false
		}
		names[b.Name] = true
	}
	return true
}
