package rows

import (
	"bytes"
	"encoding/hex"
	"strconv"
	"strings"
)

// Hand-written cases that run before the random ones: the witnesses of the
// *_refuted lemmas of Properties/C11.v and Properties/C12.v (replayed on the
// implementation) and a few fixed points of the reading.

func rep(b byte, n int) []byte { return bytes.Repeat([]byte{b}, n) }

func fixedTx(idx uint64, logs []Log, traces []Trace) Tx {
	return Tx{Hash: rep(0x11+byte(idx), 32), Idx: idx, From: rep(0xf1, 20), To: rep(0xf2, 20), Value: "7",
		Input: []byte{1, 2, 3}, Type: 2, Status: 1, GasUsed: 21000, GasPrice: "9", EffGasPrice: "8",
		Contract: nil, MaxPrio: "3", MaxFee: "4", Nonce: 5, Logs: logs, Traces: traces}
}

func fixedBlock(num uint64, txs ...Tx) Block {
	return Block{Hash: rep(0xb0+byte(num), 32), Parent: rep(0xb0+byte(num)-1, 32), Num: num, Time: 1000 + num, Txs: txs}
}

func uintVal(s string) Val { return Val{Int: s} }

func finish(c *GCase) *GCase {
	d := &c.Decl
	for _, in := range d.Inputs {
		if in.Selected() {
			d.TableCols = append(d.TableCols, in.Column)
		}
	}
	for _, b := range d.Block {
		d.TableCols = append(d.TableCols, b.Column)
	}
	if c.Src == "" {
		c.Src = "main"
	}
	if c.Path == "" {
		c.Path = "direct"
	}
	return c
}

func Corpus11() []*GCase {
	var res []*GCase
	{ // legacy_topic_refuted_nodata: event (a indexed, NOT selected; b indexed, selected)
		d := Decl{Name: "w_topic", Event: "W", Inputs: []Input{
			{Name: "a", Indexed: true, Type: "uint256"},
			{Name: "b", Indexed: true, Type: "uint256", Column: "b"}}}
		l := BuildLog(d, d.SigHash(), []Val{uintVal("1"), uintVal("2")}, rep(0xaa, 20), 0)
		res = append(res, finish(&GCase{Kind: "corpus-topic-nodata", Decl: d, Blocks: []Block{fixedBlock(1, fixedTx(0, []Log{l}, nil))}}))
	}
	{ // legacy_topic_refuted: the same with a non-indexed selected input (data branch)
		d := Decl{Name: "w_topic_d", Event: "W", Inputs: []Input{
			{Name: "a", Indexed: true, Type: "address"},
			{Name: "c", Type: "int64", Column: "c"},
			{Name: "b", Indexed: true, Type: "uint256", Column: "b"},
			{Name: "z", Indexed: true, Type: "bool"},
			{Name: "y", Indexed: true, Type: "bytes4", Column: "y"}}, Block: []BD{{Name: "log_idx", Column: "log_idx"}}}
		l := BuildLog(d, d.SigHash(), []Val{{Bytes: rep(0xa1, 20)}, uintVal("-5"), uintVal("2"), {Bool: true}, {Bytes: []byte{1, 2, 3, 4}}}, rep(0xaa, 20), 3)
		res = append(res, finish(&GCase{Kind: "corpus-topic-data", Decl: d, Blocks: []Block{fixedBlock(1, fixedTx(0, []Log{l}, nil))}}))
	}
	{ // legacy_dbtype_refuted: bool[] elements, abi_idx from zero
		d := Decl{Name: "w_boolarr", Event: "F", Inputs: []Input{
			{Name: "f", Type: "bool[]", Column: "f"}, {Name: "n", Type: "uint8", Column: "n"}},
			Block: []BD{{Name: "abi_idx", Column: "abi_idx"}}}
		l := BuildLog(d, d.SigHash(), []Val{{IsArr: true, Elems: []Val{{Bool: true}, {Bool: false}, {Bool: true}}}, uintVal("255")}, rep(0xaa, 20), 0)
		res = append(res, finish(&GCase{Kind: "corpus-bool-array", Decl: d, Blocks: []Block{fixedBlock(1, fixedTx(0, []Log{l}, nil))}}))
	}
	{ // legacy_trace_refuted: a trace field in a column not named trace_*
		d := Decl{Name: "w_trace", Event: "T", Block: []BD{{Name: "trace_action_from", Column: "sender"}, {Name: "tx_hash", Column: "h"}}}
		tr := []Trace{{Idx: 0, CallType: "call", From: rep(9, 20), To: rep(8, 20), Value: "1"}, {Idx: 1, CallType: "call", From: rep(7, 20), To: nil, Value: "0"}}
		res = append(res, finish(&GCase{Kind: "corpus-trace-column", Decl: d, Blocks: []Block{fixedBlock(1, fixedTx(0, nil, tr))}}))
	}
	{ // the converse: a transaction field in a column named trace_*
		d := Decl{Name: "w_tracecol", Event: "T", Block: []BD{{Name: "tx_hash", Column: "trace_tx_hash"}}}
		res = append(res, finish(&GCase{Kind: "corpus-trace-named-column", Decl: d, Blocks: []Block{fixedBlock(1, fixedTx(0, nil, nil), fixedTx(1, nil, nil))}}))
	}
	{ // every integer width at its extremes, through topics and data
		for _, bits := range []int{8, 16, 24, 64, 128, 248, 256} {
			ty := "int" + itoa(bits)
			d := Decl{Name: "w_int" + itoa(bits), Event: "I", Inputs: []Input{
				{Name: "a", Indexed: true, Type: ty, Column: "a"}, {Name: "b", Type: ty, Column: "b"},
				{Name: "c", Type: "u" + ty, Column: "c"}}}
			min := new256neg(bits)
			l := BuildLog(d, d.SigHash(), []Val{uintVal(min), uintVal("-1"), uintVal(maxU(bits))}, rep(0xaa, 20), 0)
			res = append(res, finish(&GCase{Kind: "corpus-int-width", Decl: d, Blocks: []Block{fixedBlock(1, fixedTx(0, []Log{l}, nil))}}))
		}
	}
	{ // negative values whose magnitude lies around the machine-word boundaries, every signed width that holds them
		for _, bits := range []int{72, 128, 256} {
			ty := "int" + itoa(bits)
			d := Decl{Name: "w_word" + itoa(bits), Event: "N", Inputs: []Input{
				{Name: "a", Indexed: true, Type: ty, Column: "a"}, {Name: "b", Type: ty, Column: "b"},
				{Name: "c", Type: ty + "[]", Column: "c"}}, Block: []BD{{Name: "abi_idx", Column: "abi_idx"}}}
			l := BuildLog(d, d.SigHash(), []Val{
				uintVal("-9223372036854775809"), uintVal("-18446744073709551615"),
				{IsArr: true, Elems: []Val{uintVal("-9223372036854775808"), uintVal("-12345678901234567890"),
					uintVal("-18446744073709551616"), uintVal("-18446744073709551617"), uintVal("9223372036854775808"),
					uintVal("-4294967296"), uintVal("-2147483649")}}}, rep(0xaa, 20), 0)
			res = append(res, finish(&GCase{Kind: "corpus-int-word-boundary", Decl: d, Blocks: []Block{fixedBlock(1, fixedTx(0, []Log{l}, nil))}}))
		}
	}
	{ // abi_idx is the ELEMENT index, also when a filter rejects earlier elements of the same log
		mk := func(name, ty string, f Flt, agg string, elems ...Val) *GCase {
			d := Decl{Name: name, Event: "Batch", Agg: agg, Inputs: []Input{{Name: "id", Indexed: true, Type: "uint64", Column: "id"},
				{Name: "amounts", Type: ty, Column: "amount", Flt: f}},
				Block: []BD{{Name: "abi_idx", Column: "abi_idx"}, {Name: "log_idx", Column: "log_idx"}}}
			sh := d.SigHash()
			rev := make([]Val, len(elems))
			for i := range elems {
				rev[len(elems)-1-i] = elems[i]
			}
			logs := []Log{BuildLog(d, sh, []Val{uintVal("1"), {IsArr: true, Elems: elems}}, rep(0xaa, 20), 0),
				BuildLog(d, sh, []Val{uintVal("2"), {IsArr: true, Elems: rev}}, rep(0xaa, 20), 1)}
			return finish(&GCase{Kind: "corpus-abi-idx-filtered", Decl: d, Blocks: []Block{fixedBlock(1, fixedTx(0, logs, nil))}})
		}
		u := uintVal
		gt0 := Flt{Op: "gt", Args: []string{"0"}}
		res = append(res, mk("ai_mid", "uint256[]", gt0, "", u("5"), u("0"), u("7")))
		res = append(res, mk("ai_first", "uint256[]", gt0, "and", u("0"), u("5"), u("7")))
		res = append(res, mk("ai_alt", "uint256[]", gt0, "or", u("0"), u("5"), u("0"), u("7"), u("0"), u("9")))
		res = append(res, mk("ai_lastonly", "uint256[]", gt0, "", u("0"), u("0"), u("0"), u("9")))
		res = append(res, mk("ai_eq", "uint64[4]", Flt{Op: "eq", Args: []string{"7"}}, "", u("1"), u("7"), u("2"), u("7")))
		res = append(res, mk("ai_ne", "uint8[]", Flt{Op: "ne", Args: []string{"7"}}, "", u("7"), u("1"), u("7"), u("2")))
		res = append(res, mk("ai_str", "string[]", Flt{Op: "contains", Args: []string{"yes"}}, "", Val{Str: "no"}, Val{Str: "yes"}, Val{Str: "no"}, Val{Str: "yes"}))
		res = append(res, mk("ai_addr", "address[]", Flt{Op: "!contains", Args: []string{"0x" + strings.Repeat("bb", 20)}}, "",
			Val{Bytes: rep(0xbb, 20)}, Val{Bytes: rep(0xaa, 20)}, Val{Bytes: rep(0xbb, 20)}, Val{Bytes: rep(0xcc, 20)}))
	}
	return res
}

func itoa(n int) string         { return strconv.Itoa(n) }
func new256neg(bits int) string { return "-" + pow2(bits-1).String() }
func maxU(bits int) string {
	m := pow2(bits)
	return m.Sub(m, pow2(0)).String()
}

func hx(b []byte) string { return "0x" + hex.EncodeToString(b) }

func Corpus12() []*GCase {
	var res []*GCase
	A, B := rep(0xaa, 20), rep(0xbb, 20)
	base := func(name, agg string, fa, fl Flt) *GCase {
		d := Decl{Name: name, Event: "P", Agg: agg, Inputs: []Input{{Name: "a", Indexed: true, Type: "uint256", Column: "a", Flt: fa}},
			Block: []BD{{Name: "log_addr", Column: "log_addr", Flt: fl}, {Name: "log_idx", Column: "log_idx"}}}
		sh := d.SigHash()
		logs := []Log{
			BuildLog(d, sh, []Val{uintVal("5")}, A, 0), BuildLog(d, sh, []Val{uintVal("5")}, B, 1),
			BuildLog(d, sh, []Val{uintVal("6")}, A, 2), BuildLog(d, sh, []Val{uintVal("6")}, B, 3),
		}
		return finish(&GCase{Kind: "corpus-pushdown", Path: "pushdown", Decl: d, Blocks: []Block{fixedBlock(1, fixedTx(0, logs, nil))}})
	}
	// legacy_pushdown_refuted_negated_op
	res = append(res, base("p_neg", "", Flt{}, Flt{Op: "!contains", Args: []string{hx(A)}}))
	res = append(res, base("p_ne", "and", Flt{}, Flt{Op: "ne", Args: []string{hx(A)}}))
	// legacy_pushdown_refuted_or
	res = append(res, base("p_or", "or", Flt{Op: "eq", Args: []string{"5"}}, Flt{Op: "contains", Args: []string{hx(A)}}))
	res = append(res, base("p_or_default", "", Flt{Op: "gt", Args: []string{"5"}}, Flt{Op: "eq", Args: []string{hx(A)}}))
	// pushdown_not_vacuous
	res = append(res, base("p_and", "and", Flt{Op: "eq", Args: []string{"5"}}, Flt{Op: "contains", Args: []string{hx(A)}}))
	res = append(res, base("p_only", "", Flt{}, Flt{Op: "contains", Args: []string{hx(A), hx(B)}}))
	// a short argument: sub-slice containment, not an address
	res = append(res, base("p_short", "", Flt{}, Flt{Op: "contains", Args: []string{"0xaaaa"}}))
	// a reference filter together with literal arguments
	{
		c := base("p_ref", "", Flt{}, Flt{Op: "contains", Args: []string{hx(A)}, RefIG: "other", RefTable: "ref_t", RefCol: "c"})
		c.DB = []RefTable{{Table: "ref_t", Column: "c", Vals: [][]byte{B}}}
		res = append(res, c)
	}
	// a positive log_addr argument filter next to PURE reference filters: under "or" a log of
	// another contract whose value is in the referenced table is accepted, so no address may be sent
	refCase := func(name, agg string, onInput bool, refArgs []string) *GCase {
		W1, W2, W3 := rep(0xc1, 20), rep(0xc2, 20), rep(0xc3, 20)
		ref := Flt{Op: "contains", Args: refArgs, RefIG: "ig_ref_t", RefTable: "ref_t", RefCol: "c"}
		d := Decl{Name: name, Event: "R", Agg: agg, Inputs: []Input{
			{Name: "a", Indexed: true, Type: "uint256", Column: "a"},
			{Name: "w", Indexed: true, Type: "address", Column: "w"},
			{Name: "u", Type: "bool", Flt: Flt{Op: "eq", Args: []string{"0x01"}}}}, // no column: never evaluated
			Block: []BD{{Name: "log_addr", Column: "log_addr", Flt: Flt{Op: "contains", Args: []string{hx(A)}}},
				{Name: "log_idx", Column: "log_idx"}, {Name: "tx_signer", Column: "tx_signer"}}}
		if onInput {
			d.Inputs[1].Flt = ref
		} else {
			d.Block[2].Flt = ref
		}
		sh := d.SigHash()
		mk := func(a string, w, addr []byte, idx uint64) Log {
			return BuildLog(d, sh, []Val{uintVal(a), {Bytes: w}, {Bool: true}}, addr, idx)
		}
		t0 := fixedTx(0, []Log{mk("5", W1, A, 0), mk("5", W2, B, 1)}, nil)
		t1 := fixedTx(1, []Log{mk("6", W1, B, 2), mk("6", W3, A, 3)}, nil)
		t1.From = W2
		c := finish(&GCase{Kind: "corpus-pushdown-ref", Path: "pushdown", Decl: d, Blocks: []Block{fixedBlock(1, t0, t1)}})
		c.DB = []RefTable{{Table: "ref_t", Column: "c", Vals: [][]byte{W2}}}
		return c
	}
	for _, agg := range []string{"or", "", "and"} {
		res = append(res, refCase("p_ref_in_"+agg, agg, true, nil))
		res = append(res, refCase("p_ref_bd_"+agg, agg, false, nil))
	}
	res = append(res, refCase("p_ref_in_args", "or", true, []string{hx(A)})) // reference filter that also has literal arguments
	{                                                                        // a pure reference filter on log_addr itself next to the argument filter
		c := refCase("p_ref_self", "or", true, nil)
		c.Decl.Inputs[1].Flt = Flt{}
		c.Decl.Block = append(c.Decl.Block, BD{Name: "log_addr", Column: "log_addr_ref",
			Flt: Flt{Op: "contains", RefIG: "ig_ref_t", RefTable: "ref_t", RefCol: "c"}})
		c.Decl.TableCols = append(c.Decl.TableCols, "log_addr_ref")
		c.DB = []RefTable{{Table: "ref_t", Column: "c", Vals: [][]byte{B}}}
		res = append(res, c)
	}
	// byte-string arguments that begin with zero bytes (the zero address, leading-zero
	// addresses, a bytes32 topic with leading zeros), in several spellings
	{
		Z := make([]byte, 20)
		Z1 := append([]byte{0}, rep(0xd1, 19)...)
		Z19 := append(make([]byte, 19), 0xd7)
		E1 := append([]byte{0xee}, rep(0xd1, 19)...) // embeds Z1's remainder
		lz := func(name, op, agg string, arg string, topicArg string) *GCase {
			d := Decl{Name: name, Event: "Z", Agg: agg, Inputs: []Input{
				{Name: "h", Indexed: true, Type: "bytes32", Column: "h"}, {Name: "w", Type: "address", Column: "w", Flt: Flt{Op: op, Args: []string{arg}}}},
				Block: []BD{{Name: "log_addr", Column: "log_addr"}, {Name: "log_idx", Column: "log_idx"}}}
			if topicArg != "" {
				d.Inputs[0].Flt = Flt{Op: op, Args: []string{topicArg}}
			}
			sh := d.SigHash()
			H0 := append(make([]byte, 2), rep(0x77, 30)...)
			H1 := append([]byte{0x12, 0x34}, rep(0x77, 30)...)
			var logs []Log
			for i, w := range [][]byte{Z, Z1, Z19, E1, rep(0xaa, 20)} {
				h := H0
				if i%2 == 1 {
					h = H1
				}
				logs = append(logs, BuildLog(d, sh, []Val{{Bytes: h}, {Bytes: w}}, w, uint64(i)))
			}
			return finish(&GCase{Kind: "corpus-leading-zero-arg", Decl: d, Blocks: []Block{fixedBlock(1, fixedTx(0, logs, nil))}})
		}
		for _, op := range []string{"eq", "ne", "contains", "!contains"} {
			res = append(res, lz("z_all_"+op, op, "", hx(Z), ""))
			res = append(res, lz("z_1_"+op, op, "", "0X"+strings.ToUpper(hex.EncodeToString(Z1)), ""))
			res = append(res, lz("z_19_"+op, op, "and", "0x"+hex.EncodeToString(Z19)[1:], "0x"+strings.Repeat("00", 2)+strings.Repeat("77", 30)))
			res = append(res, lz("z_noprefix_"+op, op, "or", hex.EncodeToString(Z1), ""))
		}
		{ // log_addr eq <zero address> as the only filter: the address is pushed down
			c := lz("z_push", "eq", "", hx(Z), "")
			c.Decl.Inputs[1].Flt = Flt{}
			c.Decl.Block[0].Flt = Flt{Op: "eq", Args: []string{hx(Z), hx(Z1)}}
			c.Path = "pushdown"
			res = append(res, c)
		}
	}
	// several rows per log with alternating verdicts: the accumulator starts afresh for every row
	batch := func(name, ty, agg string, f Flt, g Flt, elems ...Val) *GCase {
		d := Decl{Name: name, Event: "Batch", Agg: agg, Inputs: []Input{{Name: "vals", Type: ty, Column: "v", Flt: f}},
			Block: []BD{{Name: "abi_idx", Column: "abi_idx"}, {Name: "log_idx", Column: "log_idx", Flt: g}}}
		sh := d.SigHash()
		rev := make([]Val, len(elems))
		for i := range elems {
			rev[len(elems)-1-i] = elems[i]
		}
		logs := []Log{
			BuildLog(d, sh, []Val{{IsArr: true, Elems: elems}}, A, 0),
			BuildLog(d, sh, []Val{{IsArr: true, Elems: rev[1:]}}, B, 1),
			BuildLog(d, sh, []Val{{IsArr: true, Elems: rev}}, A, 2),
		}
		return finish(&GCase{Kind: "corpus-rows-per-log", Decl: d, Blocks: []Block{fixedBlock(1, fixedTx(0, logs, nil))}})
	}
	u := uintVal
	for _, agg := range []string{"", "or", "and"} {
		res = append(res, batch("b_gt_"+agg, "uint256[]", agg, Flt{Op: "gt", Args: []string{"5"}}, Flt{}, u("10"), u("1"), u("10"), u("5"), u("6")))
		res = append(res, batch("b_lt2_"+agg, "uint256[]", agg, Flt{Op: "lt", Args: []string{"5"}}, Flt{Op: "eq", Args: []string{"1"}}, u("1"), u("9"), u("4"), u("5")))
		res = append(res, batch("b_str_"+agg, "string[]", agg, Flt{Op: "eq", Args: []string{"yes", "also"}}, Flt{Op: "ne", Args: []string{"0"}},
			Val{Str: "yes"}, Val{Str: "also"}, Val{Str: "yes"}, Val{Str: "no"}))
		res = append(res, batch("b_addr_"+agg, "address[]", agg, Flt{Op: "contains", Args: []string{hx(A)}}, Flt{},
			Val{Bytes: A}, Val{Bytes: B}, Val{Bytes: A}, Val{Bytes: B}, Val{Bytes: A}, Val{Bytes: B}))
	}
	// reference filters on BLOCK fields in every indexing mode (built through ValidateFix below)
	{
		refBD := func(name, mode, field, op, agg string, extra bool) *GCase {
			P, Q := rep(0xc5, 20), rep(0xc6, 20)
			d := Decl{Name: name, Event: "RB", Agg: agg, Block: []BD{{Name: field, Column: "refd",
				Flt: Flt{Op: op, RefIG: "ig_ref_t", RefTable: "ref_t", RefCol: "c"}}, {Name: "tx_nonce", Column: "tx_nonce"}}}
			if extra {
				d.Block[1].Flt = Flt{Op: "gt", Args: []string{"5"}}
			}
			var txs []Tx
			for i, a := range [][]byte{P, Q, P, Q} {
				t := fixedTx(uint64(i), nil, nil)
				t.To, t.From, t.Nonce = a, a, uint64(4+i)
				switch mode {
				case "trace":
					t.Traces = []Trace{{Idx: 0, CallType: "call", From: Q, To: a, Value: "1"}, {Idx: 1, CallType: "call", From: a, To: P, Value: "2"}}
				case "log":
					d.Inputs = []Input{{Name: "a", Indexed: true, Type: "uint256", Column: "a"}}
					t.Logs = []Log{BuildLog(d, d.SigHash(), []Val{uintVal("9")}, a, uint64(2*i))}
				}
				txs = append(txs, t)
			}
			c := finish(&GCase{Kind: "corpus-ref-block-field", Decl: d, Blocks: []Block{fixedBlock(1, txs...)}})
			c.DB = []RefTable{{Table: "ref_t", Column: "c", Vals: [][]byte{P}}}
			return c
		}
		for _, op := range []string{"contains", "!contains"} {
			on := map[string]string{"contains": "c", "!contains": "n"}[op]
			for _, agg := range []string{"or", "and"} {
				res = append(res, refBD("rb_tx_"+on+agg, "tx", "tx_to", op, agg, agg == "and"))
				res = append(res, refBD("rb_tr_"+on+agg, "trace", "trace_action_to", op, agg, agg == "or"))
				res = append(res, refBD("rb_lg_"+on+agg, "log", "log_addr", op, agg, false))
				res = append(res, refBD("rb_sg_"+on+agg, "log", "tx_signer", op, agg, true))
			}
		}
	}
	for _, c := range res {
		if (c.Kind == "corpus-pushdown-ref" || c.Kind == "corpus-ref-block-field") && Validatable(c) {
			v := *c
			v.Decl.Block = append([]BD{}, c.Decl.Block...)
			v.Decl.TableCols = append([]string{}, c.Decl.TableCols...)
			v.Decl.Name += "_v"
			WithRequired(&v.Decl)
			v.Validated = true
			v.Kind += "+validated"
			res = append(res, &v)
		}
	}
	for _, c := range res {
		if c.Path == "direct" {
			continue
		}
		d := *c
		d.Path = "direct"
		d.Kind = "corpus-filter"
		res = append(res, &d)
	}
	return res
}
