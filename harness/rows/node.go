package rows

import (
	"context"
	"encoding/hex"
	"encoding/json"
	"fmt"
	"io"
	"math/big"
	"net/http"
	"net/http/httptest"
	"sort"
	"strconv"
	"strings"
	"sync"

	"github.com/indexsupply/shovel/eth"
	"github.com/indexsupply/shovel/jrpc2"
	"github.com/indexsupply/shovel/wctx"
	"verif/harness/lib"
)

// A small JSON-RPC node for the full path of C11 (JSON text -> jrpc2.Client ->
// Insert): it serves one chain, answers single and batch requests, and
// applies the address/topic parameters of eth_getLogs.  Private to this
// package (harness/simnode belongs to another builder and was not available).

type node struct {
	mu     sync.Mutex
	blocks []Block
	reqs   []string
}

func hx0(b []byte) string { return "0x" + hex.EncodeToString(b) }
func hxN(n uint64) string { return "0x" + strconv.FormatUint(n, 16) }
func hxBig(s string) string {
	return "0x" + dec(s).Text(16)
}
func hxOpt(b []byte) any {
	if b == nil {
		return nil
	}
	return hx0(b)
}

func (n *node) find(num uint64) *Block {
	for i := range n.blocks {
		if n.blocks[i].Num == num {
			return &n.blocks[i]
		}
	}
	return nil
}

func parseNum(v any) (uint64, bool) {
	s, ok := v.(string)
	if !ok {
		return 0, false
	}
	x, err := strconv.ParseUint(strings.TrimPrefix(s, "0x"), 16, 64)
	return x, err == nil
}

func logJSON(b *Block, t *Tx, l *Log) map[string]any {
	topics := make([]string, len(l.Topics))
	for i := range l.Topics {
		topics[i] = hx0(l.Topics[i])
	}
	return map[string]any{
		"logIndex": hxN(l.Idx), "address": hx0(l.Addr), "topics": topics, "data": hx0(l.Data),
		"blockHash": hx0(b.Hash), "blockNumber": hxN(b.Num), "transactionHash": hx0(t.Hash),
		"transactionIndex": hxN(t.Idx), "removed": false,
	}
}

func (n *node) call(method string, params []any) (any, *map[string]any) {
	rpcErr := func(msg string) (any, *map[string]any) {
		return nil, &map[string]any{"code": -32000, "message": msg}
	}
	switch method {
	case "eth_getBlockByNumber":
		num, ok := parseNum(params[0])
		if !ok {
			return rpcErr("bad block number")
		}
		b := n.find(num)
		if b == nil {
			return nil, nil
		}
		res := map[string]any{"number": hxN(b.Num), "hash": hx0(b.Hash), "parentHash": hx0(b.Parent),
			"timestamp": hxN(b.Time), "logsBloom": "0x00"}
		if full, _ := params[1].(bool); full {
			txs := []any{}
			for i := range b.Txs {
				t := &b.Txs[i]
				txs = append(txs, map[string]any{
					"hash": hx0(t.Hash), "transactionIndex": hxN(t.Idx), "type": hxN(t.Type), "nonce": hxN(t.Nonce),
					"gasPrice": hxBig(t.GasPrice), "gas": "0x5208", "from": hx0(t.From), "to": hxOpt(t.To),
					"value": hxBig(t.Value), "input": hx0(t.Input), "maxPriorityFeePerGas": hxBig(t.MaxPrio),
					"maxFeePerGas": hxBig(t.MaxFee), "chainID": "0x1", "v": "0x1", "r": "0x1", "s": "0x1",
				})
			}
			res["transactions"] = txs
		}
		return res, nil
	case "eth_getBlockReceipts":
		num, _ := parseNum(params[0])
		b := n.find(num)
		if b == nil {
			return nil, nil
		}
		rs := []any{}
		for i := range b.Txs {
			t := &b.Txs[i]
			logs := []any{}
			for j := range t.Logs {
				logs = append(logs, logJSON(b, t, &t.Logs[j]))
			}
			rs = append(rs, map[string]any{
				"blockHash": hx0(b.Hash), "blockNumber": hxN(b.Num), "transactionHash": hx0(t.Hash),
				"transactionIndex": hxN(t.Idx), "type": hxN(t.Type), "from": hx0(t.From), "to": hxOpt(t.To),
				"status": hxN(t.Status), "gasUsed": hxN(t.GasUsed), "effectiveGasPrice": hxBig(t.EffGasPrice),
				"logs": logs, "contractAddress": hxOpt(t.Contract),
			})
		}
		return rs, nil
	case "eth_getLogs":
		f, _ := params[0].(map[string]any)
		from, _ := parseNum(f["fromBlock"])
		to, _ := parseNum(f["toBlock"])
		var addrs []string
		if as, ok := f["address"].([]any); ok {
			for _, a := range as {
				addrs = append(addrs, fmt.Sprint(a))
			}
		}
		var topics [][]string
		if ts, ok := f["topics"].([]any); ok {
			for _, alt := range ts {
				var xs []string
				if l, ok := alt.([]any); ok {
					for _, x := range l {
						xs = append(xs, fmt.Sprint(x))
					}
				}
				topics = append(topics, xs)
			}
		}
		res := []any{}
		for i := range n.blocks {
			b := &n.blocks[i]
			if b.Num < from || b.Num > to {
				continue
			}
			for j := range b.Txs {
				for k := range b.Txs[j].Logs {
					if NodePass(addrs, topics, &b.Txs[j].Logs[k]) {
						res = append(res, logJSON(b, &b.Txs[j], &b.Txs[j].Logs[k]))
					}
				}
			}
		}
		return res, nil
	case "trace_block":
		num, _ := parseNum(params[0])
		b := n.find(num)
		if b == nil {
			return nil, nil
		}
		res := []any{}
		for i := range b.Txs {
			t := &b.Txs[i]
			for _, a := range t.Traces {
				res = append(res, map[string]any{
					"blockHash": hx0(b.Hash), "blockNumber": b.Num, "transactionHash": hx0(t.Hash),
					"transactionPosition": t.Idx,
					"action":              map[string]any{"from": hx0(a.From), "callType": a.CallType, "to": hxOpt(a.To), "value": hxBig(a.Value)},
				})
			}
		}
		return res, nil
	}
	return rpcErr("method not found: " + method)
}

func (n *node) ServeHTTP(w http.ResponseWriter, r *http.Request) {
	body, _ := io.ReadAll(r.Body)
	type req struct {
		ID     any    `json:"id"`
		Method string `json:"method"`
		Params []any  `json:"params"`
	}
	answer := func(q req) map[string]any {
		n.mu.Lock()
		n.reqs = append(n.reqs, q.Method)
		n.mu.Unlock()
		res, e := n.call(q.Method, q.Params)
		m := map[string]any{"jsonrpc": "2.0", "id": q.ID}
		if e != nil {
			m["error"] = *e
		} else {
			m["result"] = res
		}
		return m
	}
	w.Header().Set("content-type", "application/json")
	trim := strings.TrimSpace(string(body))
	if strings.HasPrefix(trim, "[") {
		var qs []req
		if err := json.Unmarshal(body, &qs); err != nil {
			http.Error(w, err.Error(), 400)
			return
		}
		out := make([]any, len(qs))
		for i, q := range qs {
			out[i] = answer(q)
		}
		json.NewEncoder(w).Encode(out)
		return
	}
	var q req
	if err := json.Unmarshal(body, &q); err != nil {
		http.Error(w, err.Error(), 400)
		return
	}
	json.NewEncoder(w).Encode(answer(q))
}

// ---- eth.Block values back to generator records (what Insert really saw)

func bcopy(b eth.Bytes) []byte {
	if b == nil {
		return nil
	}
	return append([]byte{}, b...)
}

func fromEth(blocks []eth.Block, orig []Block) []Block {
	type lk struct{ num, idx uint64 }
	origLogs := map[lk]*Log{}
	for bi := range orig {
		for ti := range orig[bi].Txs {
			for li := range orig[bi].Txs[ti].Logs {
				l := &orig[bi].Txs[ti].Logs[li]
				origLogs[lk{orig[bi].Num, l.Idx}] = l
			}
		}
	}
	res := make([]Block, len(blocks))
	for i := range blocks {
		b := &blocks[i]
		res[i] = Block{Hash: bcopy(b.Header.Hash), Parent: bcopy(b.Header.Parent), Num: uint64(b.Header.Number), Time: uint64(b.Header.Time)}
		for j := range b.Txs {
			t := &b.Txs[j]
			nt := Tx{Hash: bcopy(t.PrecompHash), Idx: uint64(t.Idx), From: bcopy(t.From), To: bcopy(t.To),
				Value: t.Value.Dec(), Input: bcopy(t.Data), Type: uint64(t.Type), Status: uint64(t.Status),
				GasUsed: uint64(t.GasUsed), GasPrice: t.GasPrice.Dec(), EffGasPrice: t.EffectiveGasPrice.Dec(),
				Contract: bcopy(t.ContractAddress), MaxPrio: t.MaxPriorityFeePerGas.Dec(), MaxFee: t.MaxFeePerGas.Dec(),
				Nonce: uint64(t.Nonce)}
			for k := range t.Logs {
				l := &t.Logs[k]
				nl := Log{Idx: uint64(l.Idx), Addr: bcopy(l.Address), Data: bcopy(l.Data)}
				for _, tp := range l.Topics {
					nl.Topics = append(nl.Topics, bcopy(tp))
				}
				if o, ok := origLogs[lk{res[i].Num, nl.Idx}]; ok {
					nl.Match, nl.Vals, nl.BadABI, nl.Decoy = o.Match, o.Vals, o.BadABI, o.Decoy
				}
				nt.Logs = append(nt.Logs, nl)
			}
			for _, a := range t.TraceActions {
				nt.Traces = append(nt.Traces, Trace{Idx: a.Idx, CallType: a.CallType, From: bcopy(a.From), To: bcopy(a.To), Value: a.Value.Dec()})
			}
			res[i].Txs = append(res[i].Txs, nt)
		}
	}
	return res
}

// normalise a generated chain to what JSON can carry: empty byte strings are nil
func jsonNormalise(blocks []Block) {
	nz := func(b []byte) []byte {
		if len(b) == 0 {
			return nil
		}
		return b
	}
	for bi := range blocks {
		for ti := range blocks[bi].Txs {
			t := &blocks[bi].Txs[ti]
			t.Input = nz(t.Input)
			for li := range t.Logs {
				t.Logs[li].Data = nz(t.Logs[li].Data)
			}
		}
	}
}

var jsonAvoid = map[string]bool{
	// C14's candidate defects (fields no fetch is planned for); not this property's subject
	"tx_gas_price": true, "tx_effective_gas_price": true,
}
var receiptOnly = map[string]bool{"tx_status": true, "tx_gas_used": true, "tx_contract_address": true}

// JSONCases: n cases through  node (JSON text) -> jrpc2.Client.Get with the
// integration's own glf filter -> Insert.  The declaration gets the required
// fields exactly as config.ValidateFix adds them.
func JSONCases(r *lib.RNG, n int) ([]lib.Case, map[string]any, error) {
	nd := &node{}
	srv := httptest.NewServer(nd)
	defer srv.Close()
	var res []lib.Case
	methods := map[string]int{}
	for i := 0; i < n; i++ {
		c := GenCase(r, GenOpts{}, 100000+i)
		c.Path = "json"
		c.Abi = true
		c.Validated = true
		c.Decl.Agg = strings.ToLower(c.Decl.Agg) // the configuration accepts "", "and", "or" only
		c.Kind = "json-" + c.Kind
		d := &c.Decl
		mode := d.Mode()
		var keep []BD
		for _, b := range d.Block {
			if jsonAvoid[b.Name] || (mode == "trace" && receiptOnly[b.Name]) {
				continue
			}
			keep = append(keep, b)
		}
		if mode == "trace" {
			// trace_action_idx alone plans no trace fetch (C14's subject): keep a planned trace field
			planned := false
			for _, b := range keep {
				switch b.Name {
				case "trace_action_call_type", "trace_action_from", "trace_action_to", "trace_action_value":
					planned = true
				}
			}
			if !planned {
				keep = append(keep, BD{Name: "trace_action_from", Column: "trace_action_from"})
				d.TableCols = append(d.TableCols, "trace_action_from")
			}
		}
		d.Block = keep
		// required fields, as ValidateFix adds them
		WithRequired(d)
		if mode == "trace" { // trace_block must return something for every block
			for bi := range c.Blocks {
				t := &c.Blocks[bi].Txs[0]
				if len(t.Traces) == 0 {
					t.Traces = []Trace{{Idx: 0, CallType: "call", From: genAddr(r), To: genAddr(r), Value: genU256(r)}}
				}
			}
		}
		for bi := range c.Blocks { // positions as the client numbers them
			for ti := range c.Blocks[bi].Txs {
				for ai := range c.Blocks[bi].Txs[ti].Traces {
					c.Blocks[bi].Txs[ti].Traces[ai].Idx = uint64(ai)
				}
			}
		}
		markNoBadABI(c)
		jsonNormalise(c.Blocks)

		nd.mu.Lock()
		nd.blocks = c.Blocks
		nd.reqs = nil
		nd.mu.Unlock()

		obs, seen := runJSON(c, srv.URL+"/nocache")
		nd.mu.Lock()
		for _, m := range nd.reqs {
			methods[m]++
		}
		nd.mu.Unlock()
		ex := Expected(c, c.Blocks)
		ok, msg := Judge(ex, obs, false)
		if !ok {
			msg = "through JSON-RPC -> jrpc2.Client -> Insert: " + msg
		}
		res = append(res, lib.Case{
			Coq: CInsert(c, seen, c.Decl.SigHash(), obs), Kind: c.Kind, Nontrivial: nontrivial(c, ex, obs), OracleOK: ok, OracleMsg: msg,
			Desc: desc{Case: c, Site: "json->client->insert", Obs: &obs, Want: wantOf(ex), Shape: Shape(c)}, Size: c.Size(),
		})
	}
	return res, map[string]any{"json_path_rpc_methods": methods}, nil
}

func markNoBadABI(c *GCase) {
	if c.Kind == "json-log-bad-abi" {
		c.Kind = "json-log"
	}
	for bi := range c.Blocks {
		for ti := range c.Blocks[bi].Txs {
			for li := range c.Blocks[bi].Txs[ti].Logs {
				l := &c.Blocks[bi].Txs[ti].Logs[li]
				if l.BadABI {
					// regenerate well-formed data from the chosen values
					nl := BuildLog(c.Decl, c.Decl.SigHash(), l.Vals, l.Addr, l.Idx)
					*l = nl
				}
			}
		}
	}
}

func runJSON(c *GCase, url string) (obs Obs, seen []Block) {
	return runWithClient(jrpc2.New(url), c, url)
}

// runWithClient: Filter() -> cl.Get -> Insert for one integration; cl may be a
// caching client shared with other integrations.  Insert receives a copy of the
// returned blocks whose transactions and logs are in index order (the client
// assembles them in map / arrival order, and cached blocks are shared).
func runWithClient(cl *jrpc2.Client, c *GCase, url string) (obs Obs, seen []Block) {
	defer func() {
		if r := recover(); r != nil {
			obs = Obs{Outcome: "panic", Msg: fmt.Sprint(r)}
		}
	}()
	ig, err := c.newIG()
	if err != nil {
		return Obs{Outcome: "err", Msg: err.Error()}, nil
	}
	gf := ig.Filter()
	ctx := wctx.WithChainID(wctx.WithSrcName(context.Background(), c.Src), c.Chain)
	start := c.Blocks[0].Num
	got, err := cl.Get(ctx, url, &gf, start, uint64(len(c.Blocks)))
	if err != nil {
		return Obs{Outcome: "err", Msg: "client.Get: " + err.Error()}, nil
	}
	blocks := make([]eth.Block, len(got))
	for i := range got {
		blocks[i].Header = got[i].Header
		blocks[i].Txs = make(eth.Txs, len(got[i].Txs))
		for j := range got[i].Txs {
			copyTx(&blocks[i].Txs[j], &got[i].Txs[j])
		}
		txs := blocks[i].Txs
		sort.SliceStable(txs, func(a, b int) bool { return txs[a].Idx < txs[b].Idx })
	}
	seen = fromEth(blocks, c.Blocks)
	fc := &FakeConn{DB: c.DB}
	var mu sync.Mutex
	if _, err := ig.Insert(ctx, &mu, fc, blocks); err != nil {
		return Obs{Outcome: "err", Msg: err.Error()}, seen
	}
	obs = Obs{Outcome: "ok", Cols: fc.Cols, Queries: fc.Queries}
	for _, r := range fc.Rows {
		row := make([]Cell, len(r))
		for i := range r {
			row[i] = Canon(r[i])
		}
		obs.Rows = append(obs.Rows, row)
	}
	return obs, seen
}

// copyTx copies the exported fields (the struct holds a mutex)
func copyTx(dst, src *eth.Tx) {
	dst.Receipt = src.Receipt
	dst.Receipt.Logs = append(eth.Logs(nil), src.Receipt.Logs...)
	sort.SliceStable(dst.Receipt.Logs, func(a, b int) bool { return dst.Receipt.Logs[a].Idx < dst.Receipt.Logs[b].Idx })
	dst.Idx, dst.Type, dst.ChainID, dst.Nonce, dst.GasPrice, dst.GasLimit = src.Idx, src.Type, src.ChainID, src.Nonce, src.GasPrice, src.GasLimit
	dst.From, dst.To, dst.Value, dst.Data = src.From, src.To, src.Value, src.Data
	dst.V, dst.R, dst.S = src.V, src.R, src.S
	dst.TraceActions = append([]eth.TraceAction(nil), src.TraceActions...)
	dst.MaxPriorityFeePerGas, dst.MaxFeePerGas = src.MaxPriorityFeePerGas, src.MaxFeePerGas
	dst.PrecompHash = src.PrecompHash
}

var _ = big.NewInt
