package rows

import (
	"encoding/hex"
	"fmt"
	"strings"

	"verif/harness/lib"
)

const Header = `From Shovel Require Import Base.Outcome Model.Filter Model.Rows Model.RowsCase.
From Coq Require Import String List NArith ZArith. Import ListNotations. Open Scope N_scope.`

// byte strings are written as hex string literals decoded by Model/RowsCase.hx
// (an order of magnitude faster for coqc to read than lists of numerals)
func cB(b []byte) string {
	if len(b) == 0 {
		return "[]"
	}
	return "(hx \"" + hex.EncodeToString(b) + "\")"
}

func cS(s string) string {
	if s == "" {
		return "[]"
	}
	for i := 0; i < len(s); i++ {
		if s[i] < 0x20 || s[i] > 0x7e || s[i] == '"' {
			return cB([]byte(s))
		}
	}
	return "(s2b \"" + s + "\")"
}

func cOB(b []byte) string {
	if b == nil {
		return "None"
	}
	return "(Some " + cB(b) + ")"
}

func cStrs(xs []string) string {
	ys := make([]string, len(xs))
	for i, x := range xs {
		ys[i] = cS(x)
	}
	return lib.CList(ys)
}

func cFlt(f Flt) string {
	if f.Op == "" && len(f.Args) == 0 && f.RefIG == "" && f.RefTable == "" && f.RefCol == "" {
		return "noF"
	}
	return fmt.Sprintf("(mkF %s %s %s %s %s)", cS(f.Op), cStrs(f.Args), cS(f.RefIG), cS(f.RefTable), cS(f.RefCol))
}

func CDecl(d Decl, sighash []byte) string {
	var ins, bl []string
	for _, in := range d.Inputs {
		ins = append(ins, fmt.Sprintf("mkI %s %s %s %s", lib.CBool(in.Indexed), cS(in.Type), cS(in.Column), cFlt(in.Flt)))
	}
	for _, b := range d.Block {
		bl = append(bl, fmt.Sprintf("mkB %s %s %s", cS(b.Name), cS(b.Column), cFlt(b.Flt)))
	}
	return fmt.Sprintf("(mkD %s %s %s %s %s %s)", cS(d.Name), lib.CList(ins), lib.CList(bl),
		cStrs(d.TableCols), cS(d.Agg), cB(sighash))
}

func cScan(d Decl, l *Log) string {
	if !l.Match {
		// never consulted by the model: the gate rejects the log first; a
		// distinctive value would show up as a mismatch if it were
		return "Panic"
	}
	if l.BadABI {
		return "Err"
	}
	var types []abiType
	var vals []Val
	for i, in := range d.Inputs {
		if in.Selected() && !in.Indexed {
			types = append(types, parseType(in.Type))
			vals = append(vals, l.Vals[i])
		}
	}
	rows := scanRows(types, vals)
	var rs []string
	for _, r := range rows {
		var cs []string
		for _, c := range r {
			if c.Nil {
				cs = append(cs, "None")
			} else {
				cs = append(cs, "(Some "+cB(c.B)+")")
			}
		}
		rs = append(rs, lib.CList(cs))
	}
	return "(Ok " + lib.CList(rs) + ")"
}

func cTopics(ts [][]byte) string {
	xs := make([]string, len(ts))
	for i, t := range ts {
		xs[i] = cB(t)
	}
	return lib.CList(xs)
}

func CBlocks(d Decl, blocks []Block, fullData bool) string {
	var bs []string
	for bi := range blocks {
		b := &blocks[bi]
		var ts []string
		for ti := range b.Txs {
			t := &b.Txs[ti]
			var ls, as []string
			for li := range t.Logs {
				l := &t.Logs[li]
				// the model reads only whether the data is empty (its decoding is
				// l_scan): a non-empty data field is written as its first byte
				data := l.Data
				if len(data) > 1 && !fullData {
					data = data[:1]
				}
				ls = append(ls, fmt.Sprintf("mkL %d %s %s %s %s", l.Idx, cOB(l.Addr), cTopics(l.Topics), cB(data), cScan(d, l)))
			}
			for _, a := range t.Traces {
				as = append(as, fmt.Sprintf("mkTa %d %s %s %s %s", a.Idx, cS(a.CallType), cOB(a.From), cOB(a.To), a.Value))
			}
			ts = append(ts, fmt.Sprintf("mkT %s %d %s %s %s %s %d %d %d %s %s %s %s %s %d %s %s",
				cOB(t.Hash), t.Idx, cOB(t.From), cOB(t.To), t.Value, cOB(t.Input), t.Type, t.Status, t.GasUsed,
				t.GasPrice, t.EffGasPrice, cOB(t.Contract), t.MaxPrio, t.MaxFee, t.Nonce, lib.CList(ls), lib.CList(as)))
		}
		bs = append(bs, fmt.Sprintf("mkBk %s %d %d %s", cOB(b.Hash), b.Num, b.Time, lib.CList(ts)))
	}
	return lib.CList(bs)
}

func cDB(db []RefTable) string {
	var xs []string
	for _, t := range db {
		vs := make([]string, len(t.Vals))
		for i, v := range t.Vals {
			vs[i] = cB(v)
		}
		xs = append(xs, fmt.Sprintf("(%s, %s, %s)", cS(t.Table), cS(t.Column), lib.CList(vs)))
	}
	return lib.CList(xs)
}

func cCell(c Cell) string {
	switch c.K {
	case "int":
		if strings.HasPrefix(c.I, "-") {
			return "CInt (" + c.I + ")%Z"
		}
		return "CInt " + c.I + "%Z"
	case "bytes":
		return "CBytes " + cB(c.B)
	case "text":
		return "CText " + cB(c.B)
	case "bool":
		return "CBool " + lib.CBool(c.T)
	case "null":
		return "CNull"
	}
	// a value of a type the canonicaliser does not know: never equal to a model cell
	return "CText (hx \"00ff00ff00\")"
}

func cObs(o Obs) string {
	switch o.Outcome {
	case "err":
		return "Err"
	case "panic":
		return "Panic"
	}
	var rs []string
	for _, r := range o.Rows {
		cs := make([]string, len(r))
		for i, c := range r {
			cs[i] = cCell(c)
		}
		rs = append(rs, lib.CList(cs))
	}
	return fmt.Sprintf("(Ok (%s, %s))", cStrs(o.Cols), lib.CList(rs))
}

// CInsert prints one Insert case.  With c.Abi the logs carry their full data and
// the model decodes it itself (CInsertAbi).
func CInsert(c *GCase, blocks []Block, sighash []byte, obs Obs) string {
	ctor := "CInsert"
	if c.Abi {
		ctor = "CInsertAbi"
	}
	return fmt.Sprintf("%s %s (mkC %s %d) %s %s %s", ctor, CDecl(c.Decl, sighash), cS(c.Src), c.Chain,
		cDB(c.DB), CBlocks(c.Decl, blocks, c.Abi), cObs(obs))
}

func CPush(d Decl, sighash []byte, addrs []string, topics [][]string) string {
	ts := make([]string, len(topics))
	for i, t := range topics {
		ts[i] = cStrs(t)
	}
	return fmt.Sprintf("CPush %s %s %s", CDecl(d, sighash), cStrs(addrs), lib.CList(ts))
}
