package rows

import "verif/harness/lib"

// DistNotes records the measured input distribution of a run.
func DistNotes(out *lib.Out) {
	shapes := map[string]int{}
	outcomes := map[string]int{}
	var rows, cands, withFilter, pushAddr, inputs, indexed, selected, bds, logs, matching int
	for _, k := range out.Cases {
		d, ok := k.Desc.(desc)
		if !ok || d.Case == nil {
			continue
		}
		shapes[d.Shape]++
		if d.Obs != nil {
			outcomes[d.Site+":"+d.Obs.Outcome]++
			rows += len(d.Obs.Rows)
		}
		if m, ok := d.Pushed.(map[string]any); ok && d.Site == "filter()" {
			if a, ok := m["addresses"].([]string); ok && len(a) > 0 {
				pushAddr++
			}
		}
		if d.Site == "filter()" {
			continue
		}
		act := false
		for _, in := range d.Case.Decl.Inputs {
			inputs++
			if in.Indexed {
				indexed++
			}
			if in.Selected() {
				selected++
			}
			act = act || (in.Selected() && in.Flt.Active())
		}
		for _, b := range d.Case.Decl.Block {
			bds++
			act = act || b.Flt.Active()
		}
		if act {
			withFilter++
		}
		for _, b := range d.Case.Blocks {
			for _, t := range b.Txs {
				for _, l := range t.Logs {
					logs++
					if l.Match {
						matching++
					}
				}
			}
		}
		if w, ok := d.Want.(map[string]any); ok {
			if r, ok := w["rows"].([]string); ok {
				cands += len(r)
			}
		}
	}
	out.Notes["declaration_shapes"] = shapes
	out.Notes["outcomes"] = outcomes
	out.Notes["rows_emitted_by_implementation"] = rows
	out.Notes["rows_selected_by_oracle"] = cands
	out.Notes["cases_with_an_active_filter"] = withFilter
	out.Notes["filter()_cases_pushing_addresses"] = pushAddr
	out.Notes["inputs_total/indexed/selected"] = []int{inputs, indexed, selected}
	out.Notes["block_data_entries"] = bds
	out.Notes["logs_total/of_the_event"] = []int{logs, matching}
}
