package rows

import (
	"context"
	"fmt"
	"sync"

	"github.com/indexsupply/shovel/eth"
	"github.com/indexsupply/shovel/shovel"
	"github.com/indexsupply/shovel/shovel/config"
	"github.com/indexsupply/shovel/wctx"
	"verif/harness/lib"
)

// Two destinations of ONE integration (as two sources give: shovel.NewDestination
// is called once per task) index different chains.  Destination A's Insert is
// parked inside its filter_ref lookup (QueryRow on the fake connection); inside
// that call destination B's Insert runs to completion (sequential re-entrancy,
// no goroutines).  Every cell of A's and of B's rows must still be the value the
// generator chose for THAT chain: the destinations share no decode state.

func destInsert(dst shovel.Destination, c *GCase, fc *FakeConn) (obs Obs) {
	defer func() {
		if r := recover(); r != nil {
			obs = Obs{Outcome: "panic", Msg: fmt.Sprint(r)}
		}
	}()
	ctx := wctx.WithChainID(wctx.WithSrcName(context.Background(), c.Src), c.Chain)
	var mu sync.Mutex
	if _, err := dst.Insert(ctx, &mu, fc, EthBlocks(c.Blocks)); err != nil {
		return Obs{Outcome: "err", Msg: err.Error(), Queries: fc.Queries}
	}
	obs = Obs{Outcome: "ok", Cols: fc.Cols, Queries: fc.Queries}
	for _, r := range fc.Rows {
		row := make([]Cell, len(r))
		for i := range r {
			row[i] = Canon(r[i])
		}
		obs.Rows = append(obs.Rows, row)
	}
	return obs
}

func ReentrantCases(r *lib.RNG, n int) ([]lib.Case, error) {
	var res []lib.Case
	second := []string{"bytes", "string", "uint256", "int64", "address", "bytes32[]", "uint128[]", "string[]", "bool"}
	for i := 0; i < n; i++ {
		ty := second[i%len(second)]
		d := Decl{Name: fmt.Sprintf("re%d", i), Event: "Re", Inputs: []Input{
			{Name: "k", Indexed: true, Type: "uint64", Column: "k"},
			{Name: "a", Type: "address", Column: "a", Flt: Flt{Op: "contains", RefIG: "ig_ref_t", RefTable: "ref_t", RefCol: "c"}},
			{Name: "b", Type: ty, Column: "b"},
			{Name: "z", Type: "int24", Column: "z"},
		}, Block: []BD{{Name: "log_idx", Column: "log_idx"}, {Name: "tx_hash", Column: "tx_hash"}}}
		for _, in := range d.Inputs {
			d.TableCols = append(d.TableCols, in.Column)
		}
		d.TableCols = append(d.TableCols, "log_idx", "tx_hash")
		WithRequired(&d)
		mk := func(src string) (*GCase, shovel.Destination, error) {
			c := &GCase{Kind: "reentrant-destinations", Decl: d, Src: src, Chain: genU64(r), Path: "direct", Abi: true,
				Blocks: GenChain(r, d, "log"), Comment: "two destinations of one integration; B's Insert runs inside A's filter_ref lookup"}
			for bi := range c.Blocks { // every log is one of the event's, with a non-empty array
				for ti := range c.Blocks[bi].Txs {
					logs := c.Blocks[bi].Txs[ti].Logs
					for li := range logs {
						if !logs[li].Match {
							vals := []Val{}
							for _, in := range d.Inputs {
								vals = append(vals, genVal(r, parseType(in.Type), false))
							}
							logs[li] = BuildLog(d, d.SigHash(), vals, logs[li].Addr, logs[li].Idx)
						}
					}
				}
			}
			// the referenced table holds every address of this chain: all rows are accepted
			t := RefTable{Table: "ref_t", Column: "c"}
			for _, v := range columnValues(c, 1, "") {
				t.Vals = append(t.Vals, v.B)
			}
			c.DB = []RefTable{t}
			ci := config.Integration{Name: d.Name, Enabled: true, Table: d.DigTable(), Block: d.DigBlock(), Event: d.DigEvent(), FilterAGG: d.Agg}
			dst, err := shovel.NewDestination(ci)
			return c, dst, err
		}
		cA, dA, err := mk("source-a")
		if err != nil {
			return nil, err
		}
		cB, dB, err := mk("source-b")
		if err != nil {
			return nil, err
		}
		var obsB Obs
		ranB := false
		fcA := &FakeConn{DB: cA.DB}
		fcA.OnQuery = func() {
			ranB = true
			obsB = destInsert(dB, cB, &FakeConn{DB: cB.DB})
		}
		obsA := destInsert(dA, cA, fcA)
		if !ranB { // A had no log: run B on its own
			obsB = destInsert(dB, cB, &FakeConn{DB: cB.DB})
		}
		for _, x := range []struct {
			c   *GCase
			obs Obs
			who string
		}{{cA, obsA, "A (parked in its lookup while B ran)"}, {cB, obsB, "B (ran inside A's lookup)"}} {
			ex := Expected(x.c, x.c.Blocks)
			ok, msg := Judge(ex, x.obs, false)
			if !ok {
				msg = "two destinations of one integration, destination " + x.who + ": " + msg
			}
			o := x.obs
			res = append(res, lib.Case{
				Coq: CInsert(x.c, x.c.Blocks, d.SigHash(), o), Kind: "reentrant-destinations", Nontrivial: nontrivial(x.c, ex, o), OracleOK: ok, OracleMsg: msg,
				Desc: desc{Case: x.c, Site: "two-destinations", Obs: &o, Want: wantOf(ex), Shape: Shape(x.c)}, Size: x.c.Size() + 50,
			})
		}
	}
	return res, nil
}

var _ = eth.Keccak
