package rows

import (
	"fmt"
	"net/http/httptest"
	"strings"

	"github.com/indexsupply/shovel/jrpc2"
	"verif/harness/lib"
)

// The "shared client" stream of the JSON path: several integrations with
// different fetch plans (header-level, full-block, receipts) and different
// address restrictions / events read the SAME block range through ONE caching
// jrpc2.Client, in every order; every integration is judged on its own, exactly
// as if it had the client to itself (C11: every cell is the generator's value;
// C12: the emitted rows are the reference predicate over ALL logs of the chain).

type sharedTmpl struct {
	tag    string
	event  string
	fields []string // block data besides the required fields
	addr   []byte   // log_addr eq <addr> as the only filter (pushed down), or nil
}

type sharedLog struct {
	event string
	addr  []byte
	vals  []Val
	idx   uint64
}

var sharedInputs = []Input{
	{Name: "a", Indexed: true, Type: "uint256", Column: "a"},
	{Name: "v", Type: "int128", Column: "v"},
	{Name: "w", Type: "address", Column: "w"},
}

func sharedDecl(t sharedTmpl, n int) Decl {
	d := Decl{Name: fmt.Sprintf("sh%d_%s", n, t.tag), Event: t.event, Inputs: append([]Input{}, sharedInputs...)}
	for _, f := range t.fields {
		d.Block = append(d.Block, BD{Name: f, Column: f})
	}
	if t.addr != nil {
		d.Block = append(d.Block, BD{Name: "log_addr", Column: "log_addr", Flt: Flt{Op: "eq", Args: []string{hx(t.addr)}}})
	}
	for _, in := range d.Inputs {
		d.TableCols = append(d.TableCols, in.Column)
	}
	for _, b := range d.Block {
		d.TableCols = append(d.TableCols, b.Column)
	}
	WithRequired(&d)
	return d
}

var (
	shA = rep(0xa1, 20)
	shB = rep(0xb2, 20)
)

// templates: H header-level plan, F full-block plan, R receipts plan, L logs only
func sharedTemplates(filters bool) map[string]sharedTmpl {
	m := map[string]sharedTmpl{
		"H":  {tag: "H", event: "EvOne", fields: []string{"block_time"}},
		"F":  {tag: "F", event: "EvOne", fields: []string{"tx_value", "tx_nonce", "tx_input", "tx_signer", "tx_to", "tx_hash"}},
		"F2": {tag: "F2", event: "EvTwo", fields: []string{"tx_value", "tx_signer", "block_time"}},
		"H2": {tag: "H2", event: "EvTwo", fields: []string{"block_time", "block_hash"}},
		"R":  {tag: "R", event: "EvOne", fields: []string{"tx_status", "tx_gas_used", "tx_contract_address"}},
		"L":  {tag: "L", event: "EvTwo"},
	}
	if filters {
		m["Ha"] = sharedTmpl{tag: "Ha", event: "EvOne", fields: []string{"block_time"}, addr: shA}
		m["Hb"] = sharedTmpl{tag: "Hb", event: "EvOne", fields: []string{"block_time"}, addr: shB}
		m["H2b"] = sharedTmpl{tag: "H2b", event: "EvTwo", fields: []string{"block_time"}, addr: shB}
		m["Fa"] = sharedTmpl{tag: "Fa", event: "EvOne", fields: []string{"tx_value", "tx_signer"}, addr: shA}
		m["Fb"] = sharedTmpl{tag: "Fb", event: "EvOne", fields: []string{"tx_value", "tx_nonce"}, addr: shB}
	}
	return m
}

var sharedSeqs11 = []string{
	"H F", "F H", "H R", "R H", "F R", "R F", "H F2", "F2 H", "H2 F", "F H2", "L H F", "H L F",
	"H F R", "H R F", "F H R", "F R H", "R H F", "R F H", "H H2 F F2", "F2 F H2 H",
}
var sharedSeqs12 = []string{
	"Ha Hb", "Hb Ha", "Fa Fb", "Fb Fa", "Ha Fb", "Fb Ha", "Hb Fa", "Fa Hb", "Ha H2b", "H2b Ha",
	"Ha Hb H", "Hb Ha H", "H Ha Hb", "H Hb Ha", "Ha H Hb", "Hb H Ha", "Fa F Fb", "Fb F Fa", "Ha Hb Fa Fb", "Fb Fa Hb Ha",
}

// one chain for all integrations: 2 blocks x 2 transactions; every transaction
// holds a log of each event from each contract, in both index orders
func sharedChain(r *lib.RNG, events []string) ([]Block, map[[2]uint64]sharedLog) {
	base := GenChain(r, Decl{Event: "None"}, "tx") // blocks and transactions with all their fields
	for len(base) < 2 {
		more := GenChain(r, Decl{Event: "None"}, "tx")
		base = append(base, more...)
	}
	base = base[:2]
	logs := map[[2]uint64]sharedLog{}
	num := base[0].Num
	parent := base[0].Parent
	for bi := range base {
		b := &base[bi]
		b.Num, b.Parent = num, parent
		num, parent = num+1, b.Hash
		idx := uint64(r.Intn(3))
		for ti := range b.Txs {
			var slots []sharedLog
			for _, ev := range events {
				for _, a := range [][]byte{shA, shB} {
					if r.Chance(4, 5) {
						slots = append(slots, sharedLog{event: ev, addr: a})
					}
				}
			}
			if (bi+ti)%2 == 1 { // the other index order
				for i, j := 0, len(slots)-1; i < j; i, j = i+1, j-1 {
					slots[i], slots[j] = slots[j], slots[i]
				}
			} else if r.Bool() {
				shuffle(r, slots)
			}
			for _, sl := range slots {
				sl.idx = idx
				sl.vals = []Val{{Int: genInt(r, false, 256).String()}, {Int: genInt(r, true, 128).String()}, {Bytes: genAddr(r)}}
				logs[[2]uint64{b.Num, idx}] = sl
				b.Txs[ti].Logs = append(b.Txs[ti].Logs, Log{Idx: idx})
				idx += uint64(1 + r.Intn(2))
			}
		}
	}
	return base, logs
}

// the chain as integration d sees it: its own event's logs carry their values
func sharedView(d Decl, evDecl map[string]Decl, chain []Block, logs map[[2]uint64]sharedLog) []Block {
	out := make([]Block, len(chain))
	for bi, b := range chain {
		nb := b
		nb.Txs = make([]Tx, len(b.Txs))
		for ti, t := range b.Txs {
			nt := t
			nt.Logs = make([]Log, len(t.Logs))
			for li, l := range t.Logs {
				sl := logs[[2]uint64{b.Num, l.Idx}]
				ed := evDecl[sl.event]
				nl := BuildLog(ed, ed.SigHash(), sl.vals, sl.addr, sl.idx)
				if sl.event != d.Event {
					nl.Match, nl.Vals, nl.Decoy = false, nil, "other-event"
				}
				nt.Logs[li] = nl
			}
			nb.Txs[ti] = nt
		}
		out[bi] = nb
	}
	return out
}

// SharedCases runs the fixed sequences of the property's driver plus nRandom random ones.
func SharedCases(r *lib.RNG, nRandom int, filters bool) ([]lib.Case, map[string]any, error) {
	tm := sharedTemplates(filters)
	seqs := sharedSeqs11
	if filters {
		seqs = sharedSeqs12
	}
	seqs = append([]string{}, seqs...)
	var tags []string
	for k := range tm {
		tags = append(tags, k)
	}
	sortStrings(tags)
	for i := 0; i < nRandom; i++ {
		n := r.Range(2, 3)
		var s []string
		for j := 0; j < n; j++ {
			s = append(s, lib.Pick(r, tags))
		}
		seqs = append(seqs, strings.Join(s, " "))
	}
	nd := &node{}
	srv := httptest.NewServer(nd)
	defer srv.Close()
	var res []lib.Case
	methods := map[string]int{}
	for si, seq := range seqs {
		names := strings.Fields(seq)
		evDecl := map[string]Decl{}
		var decls []Decl
		var events []string
		for i, nme := range names {
			d := sharedDecl(tm[nme], si*10+i)
			decls = append(decls, d)
			if _, ok := evDecl[d.Event]; !ok {
				evDecl[d.Event] = d
				events = append(events, d.Event)
			}
		}
		if len(events) == 1 { // logs of a second event are on the chain as well
			other := "EvTwo"
			if events[0] == "EvTwo" {
				other = "EvOne"
			}
			od := sharedDecl(sharedTmpl{tag: "x", event: other}, 0)
			evDecl[other] = od
			events = append(events, other)
		}
		chain, logs := sharedChain(r, events)
		jsonNormalise(chain)
		served := sharedView(decls[0], evDecl, chain, logs)
		nd.mu.Lock()
		nd.blocks = served
		nd.reqs = nil
		nd.mu.Unlock()
		cl := jrpc2.New(srv.URL) // ONE caching client for the whole sequence
		for i, d := range decls {
			c := &GCase{Kind: "shared-client", Decl: d, Src: "main", Chain: 1, Path: "json-shared", Validated: true,
				Abi: !filters, Blocks: sharedView(d, evDecl, chain, logs),
				Comment: fmt.Sprintf("sequence %q on one caching client, position %d", seq, i)}
			obs, seen := runWithClient(cl, c, srv.URL)
			var ok bool
			var msg string
			var want Expect
			whole := Expected(c, c.Blocks)
			if filters {
				want = Expected(c, seen)
				ok, msg = Judge(want, obs, false)
				if lost, judged := LostByRestriction(whole, want); ok && judged && len(lost) > 0 {
					ok, msg = false, fmt.Sprintf("%d accepted row(s) lost, e.g. %s", len(lost), lost[0])
				}
			} else {
				want = whole
				ok, msg = Judge(want, obs, false)
			}
			if !ok {
				msg = fmt.Sprintf("integrations %q sharing one caching client, integration #%d (%s): %s", seq, i, d.Name, msg)
			}
			res = append(res, lib.Case{
				Coq: CInsert(c, seen, d.SigHash(), obs), Kind: "shared-client", Nontrivial: nontrivial(c, want, obs), OracleOK: ok, OracleMsg: msg,
				Desc: desc{Case: c, Site: "json->shared-client->insert", Obs: &obs, Want: wantOf(want), WantWhole: acceptedOf(whole), Shape: Shape(c)}, Size: c.Size() + 100,
			})
		}
		nd.mu.Lock()
		for _, m := range nd.reqs {
			methods[m]++
		}
		nd.mu.Unlock()
	}
	return res, map[string]any{"shared_client_sequences": len(seqs), "shared_client_rpc_methods": methods}, nil
}

func sortStrings(xs []string) {
	for i := 1; i < len(xs); i++ {
		for j := i; j > 0 && xs[j] < xs[j-1]; j-- {
			xs[j], xs[j-1] = xs[j-1], xs[j]
		}
	}
}
