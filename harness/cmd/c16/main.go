// c16: correspondence driver of property C16 (generated schema fits the
// data: required columns, shared-table union, unique key).
package main

import (
	"encoding/json"
	"fmt"
	"io"
	"log/slog"
	"os"
	"strings"

	cfg "verif/harness/config"
	"verif/harness/lib"
)

const header = `From Shovel Require Import Base.Outcome Model.Config Model.Sql Model.Schema Corr.RunC16.
From Coq Require Import List NArith String. Import ListNotations. Open Scope N_scope.`

type desc struct {
	Seed     uint64   `json:"seed"`
	Index    int      `json:"index"`
	Features []string `json:"features"`
	FeatStr  string   `json:"features_str"`
	Failure  string   `json:"failure,omitempty"`
	Config   string   `json:"config,omitempty"`
	Detail   string   `json:"detail,omitempty"`
}

func has(fs []string, f string) bool {
	for _, x := range fs {
		if x == f {
			return true
		}
	}
	return false
}

func build(seed uint64, index int) lib.Case {
	r := lib.NewRNG(seed*1000003 + uint64(index))
	cs := cfg.GenCase16(r)
	d := desc{Seed: seed, Index: index, Features: cs.Features, FeatStr: strings.Join(cs.Features, ",")}
	coq, o := cfg.Run16Case(cs)
	c := lib.Case{OracleOK: true, Size: len(cs.Doc)}
	fail := func(class, msg string) {
		if c.OracleOK {
			c.OracleOK = false
			c.OracleMsg = msg
			d.Failure = class
			d.Config = cs.Doc
		}
	}
	kind := "rejected"
	switch {
	case !o.Decoded:
		fail("decode", "generated configuration does not decode: "+o.Err)
	case !o.Accepted:
		if !has(cs.Features, "dangling-reference") {
			fail("rejected", "well-formed configuration rejected: "+o.Err)
		}
		c.Nontrivial = true
	case has(cs.Features, "dangling-reference"):
		fail("dangling-accepted", "configuration with a reference to a column that does not exist was accepted")
		kind = "accepted"
	case o.PrintedMiss != "":
		kind = "accepted"
		fail("printed-schema-misses-column", o.PrintedMiss)
	case o.MigErr != "":
		kind = "migrate-error"
		fail("migration-failed", "migration failed: "+o.MigErr)
	default:
		kind = "migrated"
		userKey := has(cs.Features, "user-unique")
		for _, run := range o.Runs {
			ig := o.Conf.Integrations[run.Ig]
			t := o.Fake.Tables[ig.Table.Name]
			for _, w := range run.Written {
				if w == "" {
					fail("written-column-empty", fmt.Sprintf("integration %s writes a column with an EMPTY name (a field without table column was accepted)", ig.Name))
				}
				found := false
				if t != nil {
					for _, col := range t.Cols {
						if col.Name == w {
							found = true
						}
					}
				}
				if !found {
					fail("written-column-missing", fmt.Sprintf("integration %s writes column %q which table %q does not have after migration", ig.Name, w, ig.Table.Name))
				}
			}
			if userKey {
				continue
			}
			if !strings.HasPrefix(run.R1, "(CopyOk") {
				class := "first-insert-failed"
				if run.R1 == "CopyDup" {
					class = "first-insert-collides"
				}
				fail(class, fmt.Sprintf("integration %s: first insert of well-formed blocks failed: %s", ig.Name, run.E1))
			} else if run.N1 > 0 {
				c.Nontrivial = true
				if run.R2 != "CopyDup" {
					fail("reinsert-accepted", fmt.Sprintf("integration %s: re-insert of the same blocks (%d rows) did not hit the unique index: %s %s", ig.Name, run.N1, run.R2, run.E2))
				}
			}
		}
	}
	c.Kind = kind
	for _, f := range cs.Features {
		c.Kind += "+" + f
	}
	if len(c.Kind) > 60 {
		c.Kind = c.Kind[:60]
	}
	if !o.Decoded {
		c.Desc = d
		return c
	}
	mig := "None"
	var runs []string
	if o.Accepted && o.MigErr == "" {
		mig = "(Some " + o.Catalog + ")"
		for _, run := range o.Runs {
			runs = append(runs, fmt.Sprintf("(%d%%nat, %s, %s, %s, %s)", run.Ig, run.Abs, cfg.CStrs(run.Written), run.R1, run.R2))
		}
	}
	acc := "false"
	if o.Accepted {
		acc = "true"
	}
	var printed []string
	for _, st := range o.Printed {
		printed = append(printed, cfg.HashStr(st))
	}
	c.Coq = "CRun " + cfg.CClasses(cs.Doc) + " " + cfg.CPre(cs.Pre) + " " + coq + " " + acc + " [" + strings.Join(printed, "; ") + "] " + mig + " [" + strings.Join(runs, "; ") + "]"
	if !c.OracleOK {
		d.Detail = fmt.Sprintf("%+v", o.Runs)
		if len(d.Detail) > 1500 {
			d.Detail = d.Detail[:1500]
		}
	}
	c.Desc = d
	return c
}

type hugeT struct {
	n   int
	typ string
}

func hugeCase(seed uint64, h hugeT, notes map[string]any) lib.Case {
	o := cfg.RunHuge(h.n, h.typ)
	d := desc{Seed: seed, Index: -h.n, Features: []string{"huge-array", "abi-type:" + h.typ}, FeatStr: "huge-array", Detail: fmt.Sprintf("uint256[] of %d elements, abi_idx column type %q", h.n, h.typ)}
	cs := lib.Case{Coq: "CNote", Kind: "huge-array", Nontrivial: true, OracleOK: true, Size: 10}
	if len(o.Problems) > 0 {
		cs.OracleOK = false
		cs.OracleMsg = fmt.Sprintf("one log with a uint256[] of %d elements (abi_idx column type %q): %s", h.n, h.typ, strings.Join(o.Problems, "; "))
		d.Failure = "huge-array"
	}
	if notes != nil {
		notes[fmt.Sprintf("%d/%s", h.n, h.typ)] = map[string]any{"rows": o.Rows, "first": o.R1, "second": o.R2, "out_of_range": o.OutOfRange}
	}
	cs.Desc = d
	return cs
}

func run(c lib.Cfg) error {
	slog.SetDefault(slog.New(slog.NewTextHandler(io.Discard, nil)))
	out := lib.NewOut("C16", c.Out, header, "run", 60)
	out.Rule = "the configuration was rejected by validation, or it was migrated and at least one integration inserted at least one row on the first insert"
	if c.Replay != "" {
		raw, err := os.ReadFile(c.Replay)
		if err != nil {
			return err
		}
		var rep struct {
			FailingInput *struct {
				Desc desc `json:"desc"`
			} `json:"failing_input"`
		}
		if err := json.Unmarshal(raw, &rep); err != nil {
			return err
		}
		if rep.FailingInput != nil && rep.FailingInput.Desc.Index < 0 {
			for _, f := range rep.FailingInput.Desc.Features {
				if strings.HasPrefix(f, "abi-type:") {
					cs := hugeCase(rep.FailingInput.Desc.Seed, hugeT{-rep.FailingInput.Desc.Index, strings.TrimPrefix(f, "abi-type:")}, nil)
					out.Add(cs)
					fmt.Printf("replayed huge array n=%d: oracle_ok=%v %s\n", -rep.FailingInput.Desc.Index, cs.OracleOK, cs.OracleMsg)
				}
			}
			return out.Flush()
		}
		if rep.FailingInput != nil {
			cs := build(rep.FailingInput.Desc.Seed, rep.FailingInput.Desc.Index)
			out.Add(cs)
			fmt.Printf("replayed seed=%d index=%d: oracle_ok=%v %s\n", rep.FailingInput.Desc.Seed, rep.FailingInput.Desc.Index, cs.OracleOK, cs.OracleMsg)
		}
		return out.Flush()
	}
	n := 900
	if c.Thorough() {
		n = 20000
	}
	feats := map[string]int{}
	for i := 0; i < n; i++ {
		cs := build(c.Seed, i)
		for _, f := range cs.Desc.(desc).Features {
			feats[f]++
		}
		if cs.Coq == "" {
			out.Count(cs.Kind)
			continue
		}
		out.Add(cs)
	}
	// one log with a huge selected array: direct oracle only (the rows are not pushed through coqc)
	huge := []hugeT{{32768, "int"}, {65537, "int"}, {65537, ""}}
	if c.Thorough() {
		huge = []hugeT{{32767, ""}, {32767, "int"}, {32768, ""}, {32768, "int"}, {65536, "int"}, {65537, "int"}, {65537, ""}, {70000, "int"}, {70000, "numeric"}}
	}
	hugeNotes := map[string]any{}
	for _, h := range huge {
		out.Add(hugeCase(c.Seed, h, hugeNotes))
	}
	out.Notes["huge_array"] = hugeNotes
	out.Notes["features"] = feats
	out.Notes["generator"] = "1-3 integrations (log/tx/trace shapes, indexed and non-indexed inputs, optional selected uint256[] array), own or shared tables (same declaration or different shape), shuffled columns, user-supplied identity columns (plain, column only, remapped), notification columns, user unique/index, dangling references, mixed-case names, pre-existing narrower tables with or without the unique index; 1-3 blocks with 1-3 transactions, 0-3 logs and 0-2 trace actions each"
	return out.Flush()
}

func main() { lib.Main(run) }
