package main

import (
	"context"
	"fmt"
	"sort"
	"strings"
	"sync"
	"sync/atomic"

	"github.com/indexsupply/shovel/eth"
	"github.com/indexsupply/shovel/jrpc2"
	"verif/harness/cachesim"
	"verif/harness/lib"
)

// get-reorg / reorg-conc: the node has TWO versions of the chain (a reorg:
// equal below a fork height, other blocks -- other hashes, other contents --
// from there on) and the script says which version answers the
// blocks/headers batch and which one the receipts / logs / trace requests of a
// Get.  When the two differ on a block of the range, the attach reply names
// another hash than the cached header: the Get must fail, and it must leave
// the headers of the shared cached segment exactly as the getter validated
// them.  Every version keeps at least one transaction with a log and a trace
// action in each block from the fork on, so that a mixed assembly cannot go
// unnoticed by the implementation's own checks.

func init() {
	streams = append(streams,
		stream{"get-reorg", false, 60, 1200, genGetReorg},
		stream{"reorg-conc", false, 12, 200, genReorgConc},
	)
}

type reorgOp struct {
	getOp
	VerB int // version answering the blocks / headers batch
	VerX int // version answering receipts / logs / traces
}

// two versions: equal below fork; from fork on, B has other hashes and other
// transactions; every block has >= 1 tx, every tx >= 1 log and >= 1 trace
func genVersions(r *lib.RNG) (a, b cachesim.Chain, fork int) {
	n := r.Range(5, 9)
	fork = r.Range(1, n-2)
	mk := func(i int, ver int) cachesim.Block {
		blk := cachesim.Block{Hash: uint64(100 + i + 1000*ver), Time: uint64(1000 + 12*i + ver)}
		idx, logIdx := uint64(0), uint64(0)
		for t := r.Range(1, 2); t > 0; t-- {
			tx := cachesim.Tx{Idx: idx, Hash: uint64(10000 + 100*i + int(idx) + 5000*ver)}
			for l := r.Range(1, 2); l > 0; l-- {
				tx.Logs = append(tx.Logs, cachesim.Log{Idx: logIdx, Addr: uint64(r.Range(1, 2)), Body: uint64(50000 + 1000*i + 2*int(logIdx) + 20000*ver)})
				logIdx++
			}
			tx.Traces = []uint64{uint64(200000 + 10000*i + 100*int(idx) + 50000*ver)}
			blk.Txs = append(blk.Txs, tx)
			idx += uint64(r.Range(1, 2))
		}
		return blk
	}
	for i := 0; i < n; i++ {
		blk := mk(i, 0)
		a = append(a, blk)
		if i < fork {
			b = append(b, blk)
		} else {
			b = append(b, mk(i, 1))
		}
	}
	return
}

func (o reorgOp) touchesFork(fork int) bool { return o.Start+o.Limit > uint64(fork) }

func genGetReorg(seed uint64) lib.Case {
	r := lib.NewRNG(seed)
	va, vb, fork := genVersions(r)
	chains := []cachesim.Chain{va, vb}
	maxreads := r.Range(3, 6)
	srv := cachesim.NewServer(va)
	srv.Alt = vb
	defer srv.Close()
	cc := jrpc2.New(srv.URL()).WithMaxReads(maxreads)
	ctx := context.Background()

	// script: [a Get whose attach requests see the other version] ->
	// headers-only Get of the same range by another caller -> retry of the
	// same plan with the node on either version; plus free ops
	var ops []reorgOp
	for len(ops) < r.Range(6, 14) {
		l := uint64(r.Range(1, 3))
		s := uint64(r.Range(max(0, fork-2), len(va)-int(l)))
		base := lib.Pick(r, []string{"h", "b"})
		plan := getOp{Base: base, Extra: lib.Pick(r, []string{"l", "r", "", "l", "r"}), Start: s, Limit: l, FailT: -1}
		plan.Traces = plan.Extra == "" || r.Chance(1, 3)
		if plan.Extra == "l" {
			plan.Addrs = lib.Pick(r, [][]uint64{nil, {1}, {2}})
		}
		v := r.Intn(2)
		if r.Chance(2, 3) {
			ops = append(ops, reorgOp{plan, v, 1 - v})                                                 // reorg between the two exchanges
			ops = append(ops, reorgOp{getOp{Base: base, Start: s, Limit: l, FailT: -1}, 1 - v, 1 - v}) // (a) headers only, another caller
			w := r.Intn(2)
			ops = append(ops, reorgOp{plan, w, w}) // (b) the retry
		} else {
			w := r.Intn(2)
			ops = append(ops, reorgOp{plan, w, lib.Pick(r, []int{w, w, 1 - w})})
		}
	}

	type rk struct {
		Base         string
		Start, Limit uint64
	}
	cachedVer := map[rk]int{}
	var fails []string
	var ccs []string
	mismatches, hitsAfterFail := 0, 0
	lastFailed := map[rk]bool{}
	for i, op := range ops {
		srv.SetVersions(op.VerB, op.VerX)
		b0 := srv.Count(cachesim.ClsBase)
		var bs []eth.Block
		var err error
		p, msg := lib.Catch(func() { bs, err = cc.Get(ctx, srv.URL(), op.filter(), op.Start, op.Limit) })
		if p {
			fails = append(fails, fmt.Sprintf("op %d: panic %s", i, msg))
			continue
		}
		nb := srv.Count(cachesim.ClsBase) - b0
		k := rk{op.Base, op.Start, op.Limit}
		if nb > 0 {
			cachedVer[k] = op.VerB
		}
		baseVer := cachedVer[k]
		attaches := op.Extra != "" || op.Traces
		mixed := attaches && baseVer != op.VerX && op.touchesFork(fork)
		call := fmt.Sprintf("(%s, %s, %s, %s, (%d, %d), ", coqKind(op.Base), coqExtra(op.Extra), b2c(op.Traces), coqNs(op.Addrs), op.Start, op.Limit)
		if err != nil {
			ccs = append(ccs, call+"None)")
			if !mixed {
				fails = append(fails, fmt.Sprintf("op %d: error %v although every request was answered from version %d", i, err, op.VerX))
			} else {
				mismatches++
			}
			lastFailed[k] = true
			continue
		}
		if nb == 0 && lastFailed[k] {
			hitsAfterFail++
		}
		lastFailed[k] = false
		dump := cachesim.DumpBlocks(bs, false)
		ccs = append(ccs, call+"Some "+cachesim.CoqBlocks(dump)+")")
		if mixed {
			fails = append(fails, fmt.Sprintf("op %d: success although the blocks are of version %d and the attached data of version %d", i, baseVer, op.VerX))
		}
		// the result is the uncached assembly of ONE version: the one the cached headers were validated from
		got := cachesim.ViewT(dump, op.Extra, op.Traces, op.Addrs)
		want := cachesim.TruthT(chains[baseVer], op.Base, op.Extra, op.Traces, op.Addrs, op.Start, op.Limit)
		if !cachesim.EqualDump(got, want) {
			other := cachesim.TruthT(chains[1-baseVer], op.Base, op.Extra, op.Traces, op.Addrs, op.Start, op.Limit)
			what := "is the assembly of NEITHER version"
			if cachesim.EqualDump(got, other) {
				what = fmt.Sprintf("is version %d although the segment was validated from version %d", 1-baseVer, baseVer)
			}
			fails = append(fails, fmt.Sprintf("op %d (base requests %d): result (num, hash, time, txs, parent) %v %s; version %d is %v", i, nb, got, what, baseVer, want))
		}
		if ps := cachesim.Problems(dump); len(ps) > 0 {
			fails = append(fails, fmt.Sprintf("op %d: %s", i, strings.Join(ps, ", ")))
		}
	}
	c := lib.Case{
		Coq: fmt.Sprintf("CReorg %s %s [%s]", va.Coq(), vb.Coq(), strings.Join(ccs, ";\n    ")),
		Desc: desc{Kind: "get-reorg", Seed: seed, Info: map[string]any{"maxreads": maxreads, "fork": fork,
			"version0": va.Describe(), "version1": vb.Describe(), "ops": ops}},
		Kind:       "get-reorg",
		Nontrivial: mismatches > 0 && hitsAfterFail > 0,
		OracleOK:   len(fails) == 0,
		Size:       len(ops),
	}
	if mismatches > 0 {
		stat("get-reorg:hash-mismatch")
	}
	if hitsAfterFail > 0 {
		stat("get-reorg:cache-hit-after-failed-get")
	}
	if len(fails) > 0 {
		c.OracleMsg = strings.Join(fails, "; ")
	}
	return c
}

// the same with real goroutines while the node changes versions between
// requests: which version a request saw is not known, but every successful
// Get must still be the assembly of ONE version
func genReorgConc(seed uint64) lib.Case {
	r := lib.NewRNG(seed)
	va, vb, fork := genVersions(r)
	chains := []cachesim.Chain{va, vb}
	maxreads := r.Range(2, 5)
	G := r.Range(2, 4)
	per := r.Range(3, 6)
	srv := cachesim.NewServer(va)
	srv.Alt = vb
	defer srv.Close()
	cc := jrpc2.New(srv.URL()).WithMaxReads(maxreads)
	ctx := context.Background()
	plans := make([][]getOp, G)
	for g := range plans {
		for i := 0; i < per; i++ {
			l := uint64(r.Range(1, 3))
			s := uint64(r.Range(max(0, fork-1), len(va)-int(l)))
			op := getOp{Base: lib.Pick(r, []string{"h", "b", "h"}), Extra: lib.Pick(r, []string{"l", "r", ""}), Start: s, Limit: l, FailT: -1}
			op.Traces = op.Extra == "" && r.Bool() || r.Chance(1, 4)
			plans[g] = append(plans[g], op)
		}
	}
	flips := make([][2]int, 64)
	for i := range flips {
		flips[i] = [2]int{r.Intn(2), r.Intn(2)}
	}
	var stop int32
	var fw sync.WaitGroup
	fw.Add(1)
	go func() { // the node moves between the versions while the callers run
		defer fw.Done()
		for i := 0; atomic.LoadInt32(&stop) == 0; i++ {
			f := flips[i%len(flips)]
			srv.SetVersions(f[0], f[1])
			for j := 0; j < 200 && atomic.LoadInt32(&stop) == 0; j++ {
				_ = j
			}
		}
	}()
	type res struct {
		op  getOp
		err bool
		bs  []eth.Block
		at  []cachesim.DBlock
	}
	results := make([][]res, G)
	var wg sync.WaitGroup
	for g := 0; g < G; g++ {
		wg.Add(1)
		go func(g int) {
			defer wg.Done()
			for _, op := range plans[g] {
				var rr res
				rr.op = op
				p, _ := lib.Catch(func() {
					bs, err := cc.Get(ctx, srv.URL(), op.filter(), op.Start, op.Limit)
					rr.err = err != nil
					if err == nil {
						rr.bs = bs
						rr.at = cachesim.DumpBlocks(bs, true)
					}
				})
				if p {
					rr.err = true
					rr.at = []cachesim.DBlock{{Num: cachesim.BadID}}
				}
				results[g] = append(results[g], rr)
			}
		}(g)
	}
	wg.Wait()
	atomic.StoreInt32(&stop, 1)
	fw.Wait()

	var fails, ccs []string
	oks := 0
	for g := range results {
		for i, rr := range results[g] {
			op := rr.op
			call := fmt.Sprintf("(%s, %s, %s, %s, (%d, %d), ", coqKind(op.Base), coqExtra(op.Extra), b2c(op.Traces), coqNs(op.Addrs), op.Start, op.Limit)
			if rr.err {
				if len(rr.at) > 0 {
					fails = append(fails, fmt.Sprintf("g%d op %d: panic", g, i))
				}
				ccs = append(ccs, call+"None)")
				continue
			}
			oks++
			later := cachesim.DumpBlocks(rr.bs, false)
			ccs = append(ccs, call+"Some "+cachesim.CoqBlocks(later)+")")
			for when, d := range map[string][]cachesim.DBlock{"at return": rr.at, "at the end": later} {
				v := cachesim.ViewT(d, op.Extra, op.Traces, op.Addrs)
				t0 := cachesim.TruthT(chains[0], op.Base, op.Extra, op.Traces, op.Addrs, op.Start, op.Limit)
				t1 := cachesim.TruthT(chains[1], op.Base, op.Extra, op.Traces, op.Addrs, op.Start, op.Limit)
				if !cachesim.EqualDump(v, t0) && !cachesim.EqualDump(v, t1) {
					fails = append(fails, fmt.Sprintf("g%d op %d %s: %v is the assembly of neither version (%v | %v)", g, i, when, v, t0, t1))
				}
			}
		}
	}
	sort.Strings(fails)
	c := lib.Case{
		Coq: fmt.Sprintf("CReorg %s %s [%s]", va.Coq(), vb.Coq(), strings.Join(ccs, ";\n    ")),
		Desc: desc{Kind: "reorg-conc", Seed: seed, Info: map[string]any{"maxreads": maxreads, "goroutines": G, "fork": fork,
			"version0": va.Describe(), "version1": vb.Describe(), "plans": plans}},
		Kind:       "reorg-conc",
		Nontrivial: oks > 0,
		OracleOK:   len(fails) == 0,
		Size:       G * per,
	}
	if len(fails) > 0 {
		c.OracleMsg = strings.Join(fails, "; ")
	}
	return c
}
