// c08w: the worker of the C08 driver.  It is built TWICE by cmd/c08:
// with -tags verif (all streams, including those that need the verification
// hook jrpc2/verif_export_cache.go) and without the tag (only the streams
// that drive exported API: they still build and run when an edit of the
// implementation breaks the hook file).  It writes its cases as JSON.
package main

import (
	"encoding/json"
	"flag"
	"fmt"
	"io"
	"log/slog"
	"os"

	"verif/harness/lib"
)

type desc struct {
	Kind string `json:"kind"`
	Seed uint64 `json:"seed"` // seed of this case's own generator
	Info any    `json:"info,omitempty"`
}

type stream struct {
	kind  string
	hook  bool // needs the verification hook
	quick int
	thor  int
	gen   func(seed uint64) lib.Case
}

// filled by the init functions of the stream files
var streams []stream

// the order of the streams (and so the seeds they get) does not depend on
// which files are compiled in
var order = []string{"cache-seq", "head-seq", "attach", "get-seq", "latest-seq", "poller", "ws",
	"cache-conc", "get-conc", "stress-rl", "stress-tr", "get-reorg", "reorg-conc", "get-park", "cache-park"}

func init() {
	streams = append(streams,
		stream{"attach", false, 150, 3000, genAttach},
		stream{"get-seq", false, 140, 2500, genGetSeq},
		stream{"get-conc", false, 30, 400, genGetConc},
		stream{"stress-rl", false, 1, 4, genStressRL},
		stream{"stress-tr", false, 1, 3, genStressTR},
	)
}

type wcase struct {
	Coq  string   `json:"coq"`
	Case lib.Case `json:"case"`
}

type wout struct {
	Cases []wcase        `json:"cases"`
	Stats map[string]int `json:"stats"`
}

func main() {
	var (
		tier   = flag.String("tier", "quick", "")
		seed   = flag.Uint64("seed", 1, "")
		out    = flag.String("o", "", "output file")
		which  = flag.String("streams", "all", "all | hook | nohook")
		rkind  = flag.String("replay-kind", "", "")
		rseed  = flag.Uint64("replay-seed", 0, "")
		hasAll = flag.Bool("list", false, "print the kinds this binary has")
	)
	flag.Parse()
	slog.SetDefault(slog.New(slog.NewTextHandler(io.Discard, nil)))
	byKind := map[string]stream{}
	for _, s := range streams {
		byKind[s.kind] = s
	}
	if *hasAll {
		for _, k := range order {
			if _, ok := byKind[k]; ok {
				fmt.Println(k)
			}
		}
		return
	}
	var res wout
	add := func(c lib.Case) { res.Cases = append(res.Cases, wcase{c.Coq, c}) }
	if *rkind != "" {
		if s, ok := byKind[*rkind]; ok {
			add(s.gen(*rseed))
		}
	} else {
		root := lib.NewRNG(*seed)
		for _, k := range order {
			sub := root.Fork() // one sub-generator per kind, present or not
			s, ok := byKind[k]
			if !ok || (*which == "hook" && !s.hook) || (*which == "nohook" && s.hook) {
				continue
			}
			n := s.quick
			if *tier == "thorough" {
				n = s.thor
			}
			for i := 0; i < n; i++ {
				add(s.gen(sub.U64()))
			}
		}
	}
	res.Stats = stats
	b, _ := json.Marshal(res)
	if err := os.WriteFile(*out, b, 0o644); err != nil {
		fmt.Fprintln(os.Stderr, err)
		os.Exit(3)
	}
}

// global distribution counters (branch classes reached)
var stats = map[string]int{}

func stat(k string) { stats[k]++ }

func b2c(b bool) string { return lib.CBool(b) }
