package main

import (
	"context"
	"fmt"
	"strings"
	"sync"
	"sync/atomic"
	"time"

	"github.com/indexsupply/shovel/jrpc2"
	"github.com/indexsupply/shovel/shovel/glf"
	"verif/harness/cachesim"
	"verif/harness/lib"
)

// stress-rl: a receipts plan and a logs plan of two callers meet on ONE cached
// block that has one transaction with very many logs.  While the logs caller
// attaches (Logs.Add scans the transaction's logs for every log it adds: a
// window that grows quadratically with the number of logs) the receipts
// caller replaces the log slice of the same transaction.  If receipts() does
// not take the block lock the de-duplication scan runs against one slice and
// the append goes to the other: the same log index twice.
//
// This stream only SEARCHES for a failing schedule (it proves nothing when it
// finds none); the delays are calibrated from the two calls run alone.
func stressOnce(chain cachesim.Chain, base string, delay time.Duration) (problems []string, tl, tr time.Duration) {
	srv := cachesim.NewServer(chain)
	defer srv.Close()
	c := jrpc2.New(srv.URL()).WithMaxReads(20)
	fl := &glf.Filter{UseHeaders: base == "h", UseBlocks: base == "b", UseLogs: true}
	fr := &glf.Filter{UseHeaders: base == "h", UseBlocks: base == "b", UseReceipts: true}
	ctx := context.Background()
	var wg sync.WaitGroup
	wg.Add(2)
	go func() {
		defer wg.Done()
		t0 := time.Now()
		lib.Catch(func() { c.Get(ctx, srv.URL(), fl, 0, 1) })
		tl = time.Since(t0)
	}()
	go func() {
		defer wg.Done()
		if delay < 0 {
			return
		}
		time.Sleep(delay)
		t0 := time.Now()
		lib.Catch(func() { c.Get(ctx, srv.URL(), fr, 0, 1) })
		tr = time.Since(t0)
	}()
	wg.Wait()
	bs, err := c.Get(ctx, srv.URL(), &glf.Filter{UseHeaders: base == "h", UseBlocks: base == "b"}, 0, 1)
	if err != nil {
		return []string{"final read failed: " + err.Error()}, tl, tr
	}
	d := cachesim.DumpBlocks(bs, false)
	problems = cachesim.Problems(d)
	if len(d) == 1 && len(d[0].Txs) == 1 && len(problems) == 0 && len(d[0].Txs[0].Logs) != len(chain[0].Txs[0].Logs) {
		problems = append(problems, fmt.Sprintf("%d logs instead of %d", len(d[0].Txs[0].Logs), len(chain[0].Txs[0].Logs)))
	}
	return problems, tl, tr
}

func genStressRL(seed uint64) lib.Case {
	r := lib.NewRNG(seed)
	nlogs := 9000
	base := lib.Pick(r, []string{"h", "b"})
	b := cachesim.Block{Hash: 11, Time: 5}
	tx := cachesim.Tx{Idx: 0, Hash: 21}
	for i := 0; i < nlogs; i++ {
		tx.Logs = append(tx.Logs, cachesim.Log{Idx: uint64(i), Addr: 1, Body: uint64(1000 + 2*i)})
	}
	b.Txs = []cachesim.Tx{tx}
	chain := cachesim.Chain{b}

	// calibration: each call alone (receipts alone = the other goroutine idle)
	_, tl, _ := stressOnce(chain, base, -1)
	srvR := time.Duration(0)
	{
		srv := cachesim.NewServer(chain)
		c := jrpc2.New(srv.URL()).WithMaxReads(20)
		t0 := time.Now()
		lib.Catch(func() {
			c.Get(context.Background(), srv.URL(), &glf.Filter{UseHeaders: base == "h", UseBlocks: base == "b", UseReceipts: true}, 0, 1)
		})
		srvR = time.Since(t0)
		srv.Close()
	}
	var fails []string
	var tried []string
	for _, f := range []float64{0.7, 0.5, 0.85, 0.6, 0.95, 0.4} {
		delay := time.Duration(f*float64(tl)) - srvR
		if delay < 0 {
			delay = 0
		}
		p, l, rr := stressOnce(chain, base, delay)
		tried = append(tried, fmt.Sprintf("delay=%v logs-call=%v receipts-call=%v", delay.Round(time.Millisecond), l.Round(time.Millisecond), rr.Round(time.Millisecond)))
		if len(p) > 0 {
			if len(p) > 3 {
				p = p[:3]
			}
			fails = append(fails, fmt.Sprintf("receipts plan racing a logs plan on one cached block (%d logs in one tx, base %q): %s", nlogs, base, strings.Join(p, ", ")))
			break
		}
	}
	c := lib.Case{
		Coq: "CConcGet [] []",
		Desc: desc{Kind: "stress-rl", Seed: seed, Info: map[string]any{"nlogs": nlogs, "base": base,
			"site": "jrpc2.receipts/logs on a shared cached block"}},
		Kind:       "stress-rl",
		Nontrivial: true,
		OracleOK:   len(fails) == 0,
		Size:       1000, // prefer any other failing case as the reported one
	}
	stat("stress-rl:trials:" + fmt.Sprint(len(tried)))
	if len(fails) > 0 {
		c.OracleMsg = strings.Join(fails, "; ")
	}
	return c
}

// stress-tr: a caller holds the blocks of a trace plan (one transaction with
// very many trace actions) and reads them, as dig does, while a second caller
// with a trace plan re-attaches the traces of the same cached block.  If
// traces() publishes the new slice before it is filled (`tx.TraceActions =
// make(n)` followed by assignments in place) the first caller sees trace
// actions that are not the transaction's (zero values).  Like stress-rl this
// stream only searches for a failing schedule.
func stressTraceOnce(chain cachesim.Chain, n int) (seen int, err error) {
	srv := cachesim.NewServer(chain)
	defer srv.Close()
	c := jrpc2.New(srv.URL()).WithMaxReads(20)
	f := &glf.Filter{UseHeaders: true, UseTraces: true}
	ctx := context.Background()
	bs, err := c.Get(ctx, srv.URL(), f, 0, 1)
	if err != nil {
		return 0, err
	}
	var stop int32
	var wg sync.WaitGroup
	wg.Add(1)
	go func() { // the first caller consumes its result
		defer wg.Done()
		for atomic.LoadInt32(&stop) == 0 {
			tas := bs[0].Txs[0].TraceActions
			if len(tas) != n {
				seen++
				continue
			}
			for i := len(tas) - 1; i >= 0; i -= 997 {
				if len(tas[i].From) == 0 || tas[i].CallType == "" {
					seen++
					break
				}
			}
		}
	}()
	_, err = c.Get(ctx, srv.URL(), f, 0, 1)
	atomic.StoreInt32(&stop, 1)
	wg.Wait()
	return seen, err
}

func genStressTR(seed uint64) lib.Case {
	n := 30000
	tx := cachesim.Tx{Idx: 0, Hash: 21}
	for i := 0; i < n; i++ {
		tx.Traces = append(tx.Traces, uint64(100+2*i))
	}
	chain := cachesim.Chain{cachesim.Block{Hash: 11, Time: 5, Txs: []cachesim.Tx{tx}}}
	var fails []string
	trials := 0
	for trials < 4 && len(fails) == 0 {
		trials++
		seen, err := stressTraceOnce(chain, n)
		if err != nil {
			fails = append(fails, "trace plan failed: "+err.Error())
		} else if seen > 0 {
			fails = append(fails, fmt.Sprintf("a caller reading the blocks of its trace plan saw incomplete trace actions (zero values) %d times while a second trace plan attached to the same cached block (%d trace actions in one tx)", seen, n))
		}
	}
	c := lib.Case{
		Coq: "CConcGet [] []",
		Desc: desc{Kind: "stress-tr", Seed: seed, Info: map[string]any{"ntraces": n,
			"site": "jrpc2.traces on a shared cached block, reader without the block lock"}},
		Kind:       "stress-tr",
		Nontrivial: true,
		OracleOK:   len(fails) == 0,
		Size:       1001,
	}
	stat("stress-tr:trials:" + fmt.Sprint(trials))
	if len(fails) > 0 {
		c.OracleMsg = strings.Join(fails, "; ")
	}
	return c
}
