//go:build verif

package main

func init() {
	streams = append(streams,
		stream{"cache-seq", true, 400, 6000, genCacheSeq},
		stream{"head-seq", true, 250, 5000, genHeadSeq},
		stream{"latest-seq", true, 100, 2000, genLatestSeq},
		stream{"poller", true, 12, 150, genPoller},
		stream{"ws", true, 10, 120, genWS},
		stream{"cache-conc", true, 40, 600, genCacheConc},
	)
}
