package main

import (
	"fmt"
	"strings"

	"github.com/indexsupply/shovel/eth"
	"verif/harness/cachesim"
	"verif/harness/lib"
)

type attachOp struct {
	Receipt bool
	Trace   bool
	BH, Tx  uint64
	TH      uint64
	Logs    []cachesim.DLog
	Traces  []uint64
}

func ethLog(l cachesim.DLog) *eth.Log {
	return &eth.Log{
		Idx:     eth.Uint64(l.Idx),
		Address: cachesim.Addr20(l.Addr),
		Topics:  []eth.Bytes{cachesim.Hash32(l.Body + 1)},
		Data:    cachesim.Hash32(l.Body),
	}
}

// what logs() does for one (block, tx) group while it holds the block lock
func applyGroup(b *eth.Block, op attachOp) {
	b.Lock()
	b.Header.Hash.Write(cachesim.Hash32(op.BH))
	tx := b.Tx(op.Tx)
	tx.PrecompHash.Write(cachesim.Hash32(op.TH))
	for i := range op.Logs {
		tx.Logs.Add(ethLog(op.Logs[i]))
	}
	b.Unlock()
}

// what receipts() does for one receipt
func applyReceipt(b *eth.Block, op attachOp) {
	b.Lock()
	b.Header.Hash.Write(cachesim.Hash32(op.BH))
	tx := b.Tx(op.Tx)
	tx.PrecompHash.Write(cachesim.Hash32(op.TH))
	tx.Status.Write(1)
	logs := make([]eth.Log, len(op.Logs))
	for i := range op.Logs {
		logs[i] = *ethLog(op.Logs[i])
	}
	tx.Logs = logs
	b.Unlock()
}

// what traces() does for the traces of one transaction of a trace_block reply
func applyTraces(b *eth.Block, op attachOp) {
	b.Lock()
	b.Header.Hash.Write(cachesim.Hash32(op.BH))
	tx := b.Tx(op.Tx)
	tx.PrecompHash.Write(cachesim.Hash32(op.TH))
	tas := make([]eth.TraceAction, len(op.Traces))
	for i, body := range op.Traces {
		tas[i] = eth.TraceAction{Idx: uint64(i), From: cachesim.Addr20(body), To: cachesim.Addr20(body + 1), CallType: "call"}
		tas[i].Value.SetUint64(body)
	}
	tx.TraceActions = tas
	b.Unlock()
}

func coqAop(op attachOp) string {
	if op.Trace {
		return fmt.Sprintf("ATraces %d %d %d %s", op.BH, op.Tx, op.TH, cachesim.CoqNs(op.Traces))
	}
	if op.Receipt {
		return fmt.Sprintf("AReceipt %d %d %d 1 %s", op.BH, op.Tx, op.TH, cachesim.CoqLogs(op.Logs))
	}
	return fmt.Sprintf("AGroup %d %d %d %s", op.BH, op.Tx, op.TH, cachesim.CoqLogs(op.Logs))
}

func genAttach(seed uint64) lib.Case {
	r := lib.NewRNG(seed)
	hostile := r.Chance(1, 5) // same index with different contents, receipts that are not complete
	ntx := r.Range(1, 4)
	// universe: tx i owns log indices 10i .. 10i+5
	logOf := func(tx, j uint64) cachesim.DLog {
		l := cachesim.DLog{Idx: 10*tx + j, Addr: 1 + (tx+j)%3, Body: 5000 + 100*tx + 2*j}
		if hostile && r.Chance(1, 4) {
			l.Body += 40
		}
		return l
	}
	b := &eth.Block{}
	b.Header.Number = 77
	b.Header.Time = 5
	var init cachesim.DBlock
	withTxs := r.Bool()
	if withTxs {
		b.Header.Hash.Write(cachesim.Hash32(900))
		for i := 0; i < ntx; i++ {
			if r.Chance(3, 4) {
				b.Txs = append(b.Txs, eth.Tx{Idx: eth.Uint64(i), PrecompHash: cachesim.Hash32(uint64(300 + i))})
			}
		}
	}
	init = cachesim.DumpBlockRaw(b)

	nops := r.Range(2, 14)
	ops := make([]attachOp, nops)
	attached := map[uint64]map[uint64]int{} // tx -> log idx -> times attached
	receiptSeen := map[uint64]bool{}
	lastTraces := map[uint64][]uint64{}
	traced := map[uint64]bool{}
	repeated := false
	for i := range ops {
		tx := uint64(r.Intn(ntx))
		op := attachOp{BH: 900, Tx: tx, TH: 300 + tx}
		if r.Chance(1, 6) {
			op.Trace = true
			for a := r.Range(0, 3); a > 0; a-- {
				op.Traces = append(op.Traces, 7000+100*tx+uint64(2*a))
			}
			if hostile && r.Chance(1, 2) {
				op.Traces = append(op.Traces, uint64(9000+r.Intn(50)))
			}
			lastTraces[tx] = op.Traces
			traced[tx] = true
		} else if r.Chance(1, 5) {
			op.Receipt = true
			n := 6
			if hostile {
				n = r.Range(0, 6)
			}
			for j := 0; j < n; j++ {
				op.Logs = append(op.Logs, logOf(tx, uint64(j)))
			}
			receiptSeen[tx] = true
		} else {
			for j := 0; j < 6; j++ {
				if r.Chance(1, 3) {
					op.Logs = append(op.Logs, logOf(tx, uint64(j)))
				}
			}
			if len(op.Logs) == 0 {
				op.Logs = append(op.Logs, logOf(tx, uint64(r.Intn(6))))
			}
			if r.Chance(1, 6) { // the same log twice in one response
				op.Logs = append(op.Logs, op.Logs[0])
			}
		}
		for _, l := range op.Logs {
			if attached[tx] == nil {
				attached[tx] = map[uint64]int{}
			}
			attached[tx][l.Idx]++
			if attached[tx][l.Idx] > 1 {
				repeated = true
			}
		}
		ops[i] = op
	}

	for _, op := range ops {
		switch {
		case op.Trace:
			applyTraces(b, op)
		case op.Receipt:
			applyReceipt(b, op)
		default:
			applyGroup(b, op)
		}
	}
	// final state in the order the implementation holds it (this stream is
	// sequential: creation order is determined)
	final := cachesim.DumpBlockRaw(b)

	// direct oracle
	var fails []string
	fails = append(fails, cachesim.Problems([]cachesim.DBlock{final})...)
	// trace actions: replaced, the last attachment wins (also on the hostile stream)
	for _, t := range final.Txs {
		if traced[t.Idx] && fmt.Sprint(t.Traces) != fmt.Sprint(lastTraces[t.Idx]) && !(len(t.Traces) == 0 && len(lastTraces[t.Idx]) == 0) {
			fails = append(fails, fmt.Sprintf("tx %d: trace actions %v, last attached %v", t.Idx, t.Traces, lastTraces[t.Idx]))
		}
		if !traced[t.Idx] && len(t.Traces) > 0 {
			fails = append(fails, fmt.Sprintf("tx %d: trace actions %v never attached", t.Idx, t.Traces))
		}
	}
	if !hostile {
		for _, t := range final.Txs {
			for idx := range attached[t.Idx] {
				found := false
				for _, l := range t.Logs {
					if l.Idx == idx {
						found = true
						if l != logOf(t.Idx, idx-10*t.Idx) {
							fails = append(fails, fmt.Sprintf("tx %d log %d altered", t.Idx, idx))
						}
					}
				}
				if !found {
					fails = append(fails, fmt.Sprintf("tx %d: attached log %d lost", t.Idx, idx))
				}
			}
			for _, l := range t.Logs {
				if attached[t.Idx][l.Idx] == 0 {
					fails = append(fails, fmt.Sprintf("tx %d: log %d was never attached", t.Idx, l.Idx))
				}
			}
		}
		for tx := range attached {
			found := false
			for _, t := range final.Txs {
				if t.Idx == tx {
					found = true
				}
			}
			if !found {
				fails = append(fails, fmt.Sprintf("tx %d missing", tx))
			}
		}
	}

	cops := make([]string, len(ops))
	for i, op := range ops {
		cops[i] = coqAop(op)
	}
	kind := "attach"
	if hostile {
		kind = "attach-hostile"
	}
	c := lib.Case{
		Coq:        fmt.Sprintf("CAttach (%s) [%s] (%s)", init.Coq(), strings.Join(cops, "; "), final.Coq()),
		Desc:       desc{Kind: "attach", Seed: seed, Info: map[string]any{"hostile": hostile, "ops": ops}},
		Kind:       kind,
		Nontrivial: repeated,
		OracleOK:   len(fails) == 0,
		Size:       len(ops),
	}
	if len(fails) > 0 {
		c.OracleMsg = strings.Join(fails, "; ")
	}
	return c
}
