package main

import (
	"context"
	"fmt"
	"regexp"
	"runtime"
	"strings"
	"sync"
	"time"

	"github.com/indexsupply/shovel/eth"
	"github.com/indexsupply/shovel/jrpc2"
	"github.com/indexsupply/shovel/shovel/glf"
	"verif/harness/cachesim"
	"verif/harness/lib"
)

// get-park: a deterministic concurrent scenario on the implementation.
// Reader A's blocks/headers batch is PARKED inside the scripted node: A sits
// in the cache's getter, holding its segment's lock, one read counted.  Then
// W more readers of the same (start, limit) are started and the driver waits
// until each of them is blocked on a mutex inside Client.Get (goroutine wait
// state, read from runtime.Stack -- no sleep decides anything; a timeout only
// ends the wait, after which the scenario is still valid, just less sharp).
// Then A is released.
//
// maxreads = 1: the download of A may serve A alone.  On the code as it is,
// a later reader's LOOKUP waits in pruneMaxRead for the segment lock, sees
// nreads = 1 >= maxreads once A is done, drops the segment and fetches anew,
// whatever the timing: the source sees at least 2 base requests.  If the
// prune pass skips a segment whose download is in flight, all readers are
// served by A's download: 1 base request.
//
// maxreads = 2 (two waiters) is run as well, but asserted only against the
// model's concurrent bound maxreads + B - 1 (two waiters can legitimately both
// be past LOOKUP before either READs: cache_reads_bounded is tight), so it
// cannot discriminate; see design.d/C08.md.

func init() {
	streams = append(streams, stream{"get-park", false, 16, 48, genGetPark})
}

var gidRe = regexp.MustCompile(`^goroutine (\d+) \[`)

func curGID() string {
	buf := make([]byte, 64)
	n := runtime.Stack(buf, false)
	if m := gidRe.FindSubmatch(buf[:n]); m != nil {
		return string(m[1])
	}
	return ""
}

// blockedOnMutex: goroutine gid is waiting for a sync.Mutex inside jrpc2.
// The dump of all goroutines must be complete (late in a thorough run the
// process holds thousands of parked poller goroutines): the buffer grows until
// the dump fits.
var stackBuf = make([]byte, 1<<20)

func blockedOnMutex(gid string) bool {
	var n int
	for {
		n = runtime.Stack(stackBuf, true)
		if n < len(stackBuf) {
			break
		}
		stackBuf = make([]byte, 2*len(stackBuf))
	}
	dump := string(stackBuf[:n])
	i := strings.Index(dump, "goroutine "+gid+" [")
	if i < 0 {
		return false
	}
	g := dump[i:]
	if j := strings.Index(g, "\n\n"); j >= 0 {
		g = g[:j]
	}
	head := g
	if j := strings.Index(g, "\n"); j >= 0 {
		head = g[:j]
	}
	waiting := strings.Contains(head, "sync.Mutex.Lock") || strings.Contains(head, "semacquire")
	return waiting && strings.Contains(g, "jrpc2.(*cache)")
}

// waitBlocked polls (a millisecond apart) until the goroutine is seen blocked;
// false after the limit -- the caller proceeds, the outcome check stays valid
func waitBlocked(gid string, limit time.Duration) bool {
	t0 := time.Now()
	for !blockedOnMutex(gid) {
		if time.Since(t0) > limit {
			return false
		}
		time.Sleep(time.Millisecond)
	}
	return true
}

func genGetPark(seed uint64) lib.Case {
	r := lib.NewRNG(seed)
	chain := genChain(r, r.Range(4, 7))
	maxreads := 1
	waiters := r.Range(1, 3)
	if r.Chance(1, 4) {
		maxreads, waiters = 2, 2
	}
	base := lib.Pick(r, []string{"h", "b"})
	limit := uint64(r.Range(1, 3))
	start := uint64(r.Intn(len(chain) - int(limit) + 1))
	f := &glf.Filter{UseHeaders: base == "h", UseBlocks: base == "b"}
	srv := cachesim.NewServer(chain)
	defer srv.Close()
	cc := jrpc2.New(srv.URL()).WithMaxReads(maxreads)
	ctx := context.Background()

	type res struct {
		bs  []eth.Block
		err error
	}
	results := make([]res, waiters+1)
	var wg sync.WaitGroup
	srv.ParkBase(1)
	wg.Add(1)
	go func() { // reader A
		defer wg.Done()
		bs, err := cc.Get(ctx, srv.URL(), f, start, limit)
		results[0] = res{bs, err}
	}()
	var fails []string
	synced := true
	select {
	case <-srv.Parked: // A is inside the getter
	case <-time.After(15 * time.Second):
		fails = append(fails, "reader A never reached the source")
		synced = false
	}
	gids := make([]chan string, waiters)
	for w := 0; w < waiters; w++ {
		gids[w] = make(chan string, 1)
		wg.Add(1)
		go func(w int) {
			defer wg.Done()
			gids[w] <- curGID()
			bs, err := cc.Get(ctx, srv.URL(), f, start, limit)
			results[w+1] = res{bs, err}
		}(w)
	}
	for w := 0; w < waiters && synced; w++ {
		if !waitBlocked(<-gids[w], 2*time.Second) {
			synced = false // proceed: the outcome check below is valid anyway
		}
	}
	nbaseBefore := srv.Count(cachesim.ClsBase)
	srv.ParkRelease <- struct{}{}
	wg.Wait()
	nbase := srv.Count(cachesim.ClsBase)

	truth := cachesim.Truth(chain, base, "", nil, start, limit)
	var ccs []string
	for i, rr := range results {
		call := fmt.Sprintf("(%s, XNone, false, [], (%d, %d), ", coqKind(base), start, limit)
		if rr.err != nil {
			fails = append(fails, fmt.Sprintf("reader %d: %v", i, rr.err))
			ccs = append(ccs, call+"None)")
			continue
		}
		d := cachesim.DumpBlocks(rr.bs, false)
		ccs = append(ccs, call+"Some "+cachesim.CoqBlocks(d)+")")
		if v := cachesim.View(d, "", nil); !cachesim.EqualDump(v, truth) {
			fails = append(fails, fmt.Sprintf("reader %d: %v differs from the chain %v", i, v, truth))
		}
	}
	if nbaseBefore != 0 {
		fails = append(fails, fmt.Sprintf("%d base requests answered while reader A's was parked", nbaseBefore))
	}
	readers := waiters + 1
	switch {
	case maxreads == 1 && nbase < 2:
		fails = append(fails, fmt.Sprintf("maxreads 1, %d readers of (%d,%d) while the first download was in flight: the source saw %d base request(s); one download served more than maxreads reads", readers, start, limit, nbase))
	case nbase*(maxreads+readers-1) < readers: // the model's concurrent bound
		fails = append(fails, fmt.Sprintf("maxreads %d, %d readers: %d base requests", maxreads, readers, nbase))
	}
	c := lib.Case{
		Coq: fmt.Sprintf("CConcGet %s [%s]", chain.Coq(), strings.Join(ccs, ";\n    ")),
		Desc: desc{Kind: "get-park", Seed: seed, Info: map[string]any{"maxreads": maxreads, "readers": readers,
			"base": base, "start": start, "limit": limit, "base_requests": nbase,
			"waiters_seen_blocked": synced, "chain": chain.Describe()}},
		Kind:       "get-park",
		Nontrivial: synced,
		OracleOK:   len(fails) == 0,
		Size:       readers,
	}
	if synced {
		stat("get-park:waiters-seen-blocked")
	}
	if len(fails) > 0 {
		c.OracleMsg = strings.Join(fails, "; ")
	}
	return c
}
