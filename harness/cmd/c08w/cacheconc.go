//go:build verif

package main

import (
	"errors"
	"fmt"
	"runtime"
	"sort"
	"strings"
	"sync"
	"sync/atomic"
	"time"

	"github.com/indexsupply/shovel/eth"
	"github.com/indexsupply/shovel/jrpc2"
	"verif/harness/cachesim"
	"verif/harness/lib"
)

// ---- real goroutines on one segment cache ----

type concRet struct {
	Key    ckey
	OK     bool
	ID     uint64
	Failed bool // this call's own fetch failed
}

func genCacheConc(seed uint64) lib.Case {
	r := lib.NewRNG(seed)
	maxreads := r.Range(1, 5)
	G := r.Range(2, 6)
	per := r.Range(3, 12)
	nkeys := r.Range(1, 7)
	pool := append([]ckey(nil), keyPool[:nkeys]...)
	failMod := uint64(lib.Pick(r, []int{3, 5, 1000}))
	yield := r.Intn(3)
	plans := make([][]ckey, G)
	for g := range plans {
		for i := 0; i < per; i++ {
			plans[g] = append(plans[g], lib.Pick(r, pool))
		}
	}

	vc := jrpc2.VerifNewCache(maxreads)
	var (
		nextID  uint64
		mu      sync.Mutex
		fetches []struct {
			Key ckey
			ID  uint64
			OK  bool
		}
		rets = make([][]concRet, G)
		wg   sync.WaitGroup
	)
	for g := 0; g < G; g++ {
		wg.Add(1)
		go func(g int) {
			defer wg.Done()
			for _, k := range plans[g] {
				failed := false
				getter := func(s, l uint64) ([]eth.Block, error) {
					id := atomic.AddUint64(&nextID, 1)
					ok := id%failMod != 0
					switch yield {
					case 1:
						runtime.Gosched()
					case 2:
						time.Sleep(20 * time.Microsecond)
					}
					mu.Lock()
					fetches = append(fetches, struct {
						Key ckey
						ID  uint64
						OK  bool
					}{ckey{s, l}, id, ok})
					mu.Unlock()
					if !ok {
						failed = true
						return mkBlocks(s, l, id), errors.New("scripted")
					}
					return mkBlocks(s, l, id), nil
				}
				bs, err := vc.Get(false, k.Start, k.Limit, getter)
				cr := concRet{Key: k, OK: err == nil, Failed: failed}
				if err == nil && len(bs) > 0 {
					cr.ID = uint64(bs[0].Header.Time)
					for j := range bs {
						if uint64(bs[j].Header.Time) != cr.ID || bs[j].Num() != k.Start+uint64(j) {
							cr.ID = cachesim.BadID
						}
					}
				}
				rets[g] = append(rets[g], cr)
			}
		}(g)
	}
	wg.Wait()
	final := vc.Segments()

	// oracle
	var fails []string
	okFetch := map[uint64]ckey{}
	for _, f := range fetches {
		if f.OK {
			okFetch[f.ID] = f.Key
		}
	}
	served := map[uint64]int{}
	servedTo := map[uint64]map[int]bool{}
	shared := false
	for g := range rets {
		for i, cr := range rets[g] {
			switch {
			case !cr.OK:
				if !cr.Failed {
					fails = append(fails, fmt.Sprintf("g%d op %d: error although its fetch did not fail", g, i))
				}
			default:
				if cr.Failed {
					fails = append(fails, fmt.Sprintf("g%d op %d: failed fetch served", g, i))
				}
				if k, ok := okFetch[cr.ID]; !ok || k != cr.Key {
					fails = append(fails, fmt.Sprintf("g%d op %d: served id %d is not a successful fetch of %v", g, i, cr.ID, cr.Key))
				}
				served[cr.ID]++
				if servedTo[cr.ID] == nil {
					servedTo[cr.ID] = map[int]bool{}
				}
				servedTo[cr.ID][g] = true
				if len(servedTo[cr.ID]) > 1 {
					shared = true
				}
			}
		}
	}
	ids := make([]uint64, 0, len(served))
	for id := range served {
		ids = append(ids, id)
	}
	sort.Slice(ids, func(i, j int) bool { return ids[i] < ids[j] })
	for _, id := range ids {
		if served[id] > maxreads+G-1 {
			fails = append(fails, fmt.Sprintf("fetch %d served %d reads; maxreads %d, %d goroutines", id, served[id], maxreads, G))
		}
	}
	if len(final) > 5 {
		fails = append(fails, fmt.Sprintf("%d segments at the end", len(final)))
	}

	var fs, rs []string
	for _, f := range fetches {
		fs = append(fs, fmt.Sprintf("(%s, %d, %s)", coqKey(f.Key), f.ID, b2c(f.OK)))
	}
	for g := range rets {
		for _, cr := range rets[g] {
			rs = append(rs, fmt.Sprintf("(%s, %s)", coqKey(cr.Key), coqOptN(cr.OK, cr.ID)))
		}
	}
	c := lib.Case{
		Coq: fmt.Sprintf("CConcCache %d %d [%s] [%s]", maxreads, G, strings.Join(fs, "; "), strings.Join(rs, "; ")),
		Desc: desc{Kind: "cache-conc", Seed: seed, Info: map[string]any{"maxreads": maxreads, "goroutines": G,
			"plans": plans, "fail_every": failMod}},
		Kind:       "cache-conc",
		Nontrivial: shared,
		OracleOK:   len(fails) == 0,
		Size:       G * per,
	}
	if len(fails) > 0 {
		c.OracleMsg = strings.Join(fails, "; ")
	}
	return c
}
