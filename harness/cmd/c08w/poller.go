//go:build verif

package main

import (
	"bytes"
	"context"
	"fmt"
	"strings"
	"time"

	"github.com/indexsupply/shovel/jrpc2"
	"verif/harness/cachesim"
	"verif/harness/lib"
)

// Client.Latest with the real httpPoll goroutine.  The server holds every
// poll request at a gate; the script releases them one at a time with an
// announcement or a failure.  Synchronisation never depends on elapsed time:
// an announcement has been applied once the poller's NEXT request is at the
// gate; a failure has been recorded once the head cache reports an error.
// (The waits have a generous upper limit only so that a broken
// implementation produces a report instead of a hang.)
var pollWait = 15 * time.Second

// after the first wait that ran into the limit the implementation is broken
// in a way this stream has already reported: do not spend the limit again
func timedOut() { pollWait = 300 * time.Millisecond }

func waitArrived(srv *cachesim.Server) bool {
	select {
	case <-srv.Arrived:
		return true
	case <-time.After(pollWait):
		timedOut()
		return false
	}
}

func release(srv *cachesim.Server, a cachesim.PollAnswer) bool {
	select {
	case srv.Release <- a:
		return true
	case <-time.After(pollWait):
		timedOut()
		return false
	}
}

func genPoller(seed uint64) lib.Case {
	r := lib.NewRNG(seed)
	maxreads := r.Range(1, 4)
	nops := r.Range(8, 24)
	srv := cachesim.NewServer(nil)
	srv.Arrived = make(chan struct{}, 64)
	srv.Release = make(chan cachesim.PollAnswer)
	c := jrpc2.New(srv.URL()).WithMaxReads(maxreads).WithPollDuration(time.Millisecond)
	ctx := context.Background()
	or := &headOracle{maxreads: maxreads}

	// protocol tracking, used ONLY to know what to wait for
	alive, onceFired, errPending := false, false, false

	var cops []string
	var ops []latestOp
	head := uint64(r.Range(2, 6))
	hits, misses, anns := 0, 0, 0
	for i := 0; i < nops; i++ {
		if r.Chance(1, 3) {
			head += uint64(r.Range(0, 2))
		}
		before := jrpc2.VerifClientHeadState(c)
		x := r.Intn(20)
		var op latestOp
		ret, asked, started := "None", false, false
		switch {
		case alive && x < 6:
			num := head
			if r.Chance(1, 4) && head > 2 {
				num = head - uint64(r.Range(1, 2))
			}
			op = latestOp{Op: "update", N: num, Hash: cachesim.Hash32(1000 + 10*num + uint64(r.Intn(2)))}
			if !release(srv, cachesim.PollAnswer{Head: cachesim.Head{Num: op.N, Hash: op.Hash}}) || !waitArrived(srv) {
				or.fails = append(or.fails, fmt.Sprintf("op %d: the poller stopped polling after an announcement", i))
				alive = false
			}
			or.announce(op.N, op.Hash)
			or.afterError = false
			anns++
		case alive && x < 8:
			op = latestOp{Op: "error"}
			if !release(srv, cachesim.PollAnswer{Fail: true}) {
				or.fails = append(or.fails, fmt.Sprintf("op %d: no poll request waiting", i))
			}
			t0 := time.Now()
			for !jrpc2.VerifClientHeadState(c).HasErr {
				if time.Since(t0) > pollWait {
					timedOut()
					or.fails = append(or.fails, fmt.Sprintf("op %d: poller failure never reached the head cache", i))
					break
				}
				time.Sleep(50 * time.Microsecond)
			}
			alive, errPending = false, true
			or.reset()
			or.afterError = true
		default:
			f := uint64(0)
			if !r.Chance(1, 8) {
				f = uint64(r.Range(1, int(head)+1))
			}
			src := head
			if r.Chance(1, 5) && head > 2 {
				src = head - 1
			}
			op = latestOp{Op: "latest", N: f, SrcOK: !r.Chance(1, 6), SrcN: src,
				SrcH: cachesim.Hash32(1000 + 10*src + uint64(r.Intn(2)))}
			if op.SrcOK {
				srv.SetHead(&cachesim.Head{Num: op.SrcN, Hash: op.SrcH})
			} else {
				srv.SetHead(nil)
			}
			expectStart := !onceFired
			n0 := srv.Count(cachesim.ClsLatest)
			n, h, err := c.Latest(ctx, srv.URL(), op.N)
			asked = srv.Count(cachesim.ClsLatest) > n0
			onceFired = true
			if errPending {
				errPending, onceFired = false, false
			}
			if expectStart {
				started = waitArrived(srv)
				alive = started
				if !started {
					or.fails = append(or.fails, fmt.Sprintf("op %d: no poller running after Latest", i))
				}
			}
			if err == nil {
				ret = "(Some " + coqPair(n, h) + ")"
			}
			if asked {
				or.afterError = false
				or.lastHit = nil
				or.reset()
				if op.SrcOK {
					or.announce(op.SrcN, op.SrcH)
					anns++
					if err != nil || n != op.SrcN || !bytes.Equal(h, op.SrcH) {
						or.fails = append(or.fails, fmt.Sprintf("op %d: source said (%d,%x), Latest returned (%d,%x,%v)", i, op.SrcN, op.SrcH, n, h, err))
					}
				} else if err == nil {
					or.fails = append(or.fails, fmt.Sprintf("op %d: failed request served as (%d,%x)", i, n, h))
				}
				if anns > 0 {
					misses++
				}
			} else if err != nil {
				or.fails = append(or.fails, fmt.Sprintf("op %d: error without asking the source", i))
			} else {
				hits++
				or.get(i, op.N, n, h, true)
			}
		}
		st := jrpc2.VerifClientHeadState(c)
		if st.Num != before.Num {
			or.reset()
		}
		ops = append(ops, op)
		cops = append(cops, fmt.Sprintf("(%s, mkLobs %s %s (%s), %s)", coqLop(op), ret, b2c(asked), coqHdump(st), b2c(started)))
		if pollWait < time.Second {
			break // synchronisation with the poller was lost: the rest of the script is meaningless
		}
	}
	// let every poller go (a closed gate answers with a failure)
	close(srv.Release)
	srv.Close()
	if srv.MaxWaiting > 1 {
		or.fails = append(or.fails, fmt.Sprintf("%d pollers were running at the same time", srv.MaxWaiting))
	}

	cs := lib.Case{
		Coq:        fmt.Sprintf("CPoller %d [%s]", maxreads, strings.Join(cops, ";\n    ")),
		Desc:       desc{Kind: "poller", Seed: seed, Info: map[string]any{"maxreads": maxreads, "ops": ops}},
		Kind:       "poller",
		Nontrivial: hits > 0 && misses > 0,
		OracleOK:   len(or.fails) == 0,
		Size:       len(ops),
	}
	if len(or.fails) > 0 {
		cs.OracleMsg = strings.Join(or.fails, "; ")
	}
	return cs
}
