//go:build verif

package main

import (
	"bytes"
	"context"
	"fmt"
	"strings"
	"time"

	"github.com/indexsupply/shovel/jrpc2"
	"verif/harness/cachesim"
	"verif/harness/lib"
)

// ws: Client.Latest with the real wsListen goroutine.  The script pushes
// announcements over the websocket; a burst ends with a SENTINEL announcement
// (a number above everything else) and the driver waits until the head cache
// shows the sentinel: the listener applies messages in order, so everything
// before it has been applied.  Intermediate states of a burst are not
// observed (None in the case); the state after the sentinel and every Latest
// call are compared with the model.
func genWS(seed uint64) lib.Case {
	r := lib.NewRNG(seed)
	maxreads := r.Range(1, 4)
	srv := cachesim.NewServer(nil)
	defer srv.Close()
	ws := cachesim.NewWSServer()
	defer ws.Close()
	c := jrpc2.New(srv.URL()).WithMaxReads(maxreads).WithPollDuration(time.Hour).WithWSURL(ws.URL())
	ctx := context.Background()
	or := &headOracle{maxreads: maxreads}
	var cops []string
	var ops []latestOp
	hits, misses, anns := 0, 0, 0
	lost := false

	emit := func(op latestOp, obs string) {
		ops = append(ops, op)
		cops = append(cops, fmt.Sprintf("(%s, %s)", coqLop(op), obs))
	}
	waitSub := func(what string) bool {
		select {
		case m := <-ws.Subscribed:
			if m != "eth_subscribe" {
				or.fails = append(or.fails, what+": first websocket request is "+m)
			}
			return true
		case <-time.After(pollWait):
			timedOut()
			or.fails = append(or.fails, what+": no websocket subscription")
			return false
		}
	}
	send := func(m cachesim.WSMsg) bool {
		select {
		case ws.Send <- m:
			return true
		case <-time.After(pollWait):
			timedOut()
			or.fails = append(or.fails, "no websocket listener takes the message")
			return false
		}
	}
	latest := func(i int, head uint64) {
		f := uint64(0)
		if !r.Chance(1, 8) {
			f = uint64(r.Range(1, int(head)+1))
		}
		op := latestOp{Op: "latest", N: f, SrcOK: !r.Chance(1, 6), SrcN: head,
			SrcH: cachesim.Hash32(1000 + 10*head + uint64(r.Intn(2)))}
		if op.SrcOK {
			srv.SetHead(&cachesim.Head{Num: op.SrcN, Hash: op.SrcH})
		} else {
			srv.SetHead(nil)
		}
		before := jrpc2.VerifClientHeadState(c)
		n0 := srv.Count(cachesim.ClsLatest)
		n, h, err := c.Latest(ctx, srv.URL(), op.N)
		asked := srv.Count(cachesim.ClsLatest) > n0
		ret := "None"
		if err == nil {
			ret = "(Some " + coqPair(n, h) + ")"
		}
		if asked {
			or.afterError = false
			or.lastHit = nil
			or.reset()
			if op.SrcOK {
				or.announce(op.SrcN, op.SrcH)
				anns++
				if err != nil || n != op.SrcN || !bytes.Equal(h, op.SrcH) {
					or.fails = append(or.fails, fmt.Sprintf("op %d: source said (%d,%x), Latest returned (%d,%x,%v)", i, op.SrcN, op.SrcH, n, h, err))
				}
			} else if err == nil {
				or.fails = append(or.fails, fmt.Sprintf("op %d: failed request served as (%d,%x)", i, n, h))
			}
			if anns > 0 {
				misses++
			}
		} else if err != nil {
			or.fails = append(or.fails, fmt.Sprintf("op %d: error without asking the source", i))
		} else {
			hits++
			or.get(i, op.N, n, h, true)
		}
		st := jrpc2.VerifClientHeadState(c)
		if st.Num != before.Num {
			or.reset()
		}
		emit(op, fmt.Sprintf("Some (mkLobs %s %s (%s))", ret, b2c(asked), coqHdump(st)))
	}

	head := uint64(r.Range(2, 6))
	sentinel := uint64(100)
	latest(0, head) // starts the listener
	if !waitSub("first Latest") {
		lost = true
	}
	rounds := r.Range(2, 5)
	for round := 0; round < rounds && !lost; round++ {
		// a burst of announcements in any order, with repeats and regressions
		for k := r.Range(0, 4); k > 0 && !lost; k-- {
			if r.Chance(1, 2) {
				head += uint64(r.Range(0, 2))
			}
			num := head
			if r.Chance(1, 3) && head > 2 {
				num = head - uint64(r.Range(1, 2))
			}
			op := latestOp{Op: "update", N: num, Hash: cachesim.Hash32(1000 + 10*num + uint64(r.Intn(2)))}
			if !send(cachesim.WSMsg{Head: cachesim.Head{Num: op.N, Hash: op.Hash}}) {
				lost = true
				break
			}
			or.announce(op.N, op.Hash)
			anns++
			emit(op, "None")
		}
		if lost {
			break
		}
		if head > sentinel {
			sentinel = head
		}
		sentinel += uint64(r.Range(1, 3))
		head = sentinel
		sop := latestOp{Op: "update", N: sentinel, Hash: cachesim.Hash32(1000 + 10*sentinel)}
		if !send(cachesim.WSMsg{Head: cachesim.Head{Num: sop.N, Hash: sop.Hash}}) {
			lost = true
			break
		}
		or.announce(sop.N, sop.Hash)
		or.reset()
		or.afterError = false
		anns++
		t0 := time.Now()
		for jrpc2.VerifClientHeadState(c).Num != sentinel {
			if time.Since(t0) > pollWait {
				timedOut()
				or.fails = append(or.fails, fmt.Sprintf("announcement %d never reached the head cache", sentinel))
				lost = true
				break
			}
			time.Sleep(50 * time.Microsecond)
		}
		emit(sop, fmt.Sprintf("Some (mkLobs None false (%s))", coqHdump(jrpc2.VerifClientHeadState(c))))
		for k := r.Range(1, 5); k > 0; k-- {
			latest(len(ops), head)
		}
		if r.Chance(1, 3) && !lost {
			// the connection breaks: the listener reports the failure and ends
			if !send(cachesim.WSMsg{Close: true}) {
				lost = true
				break
			}
			t0 := time.Now()
			for !jrpc2.VerifClientHeadState(c).HasErr {
				if time.Since(t0) > pollWait {
					timedOut()
					or.fails = append(or.fails, "listener failure never reached the head cache")
					lost = true
					break
				}
				time.Sleep(50 * time.Microsecond)
			}
			or.reset()
			or.afterError = true
			emit(latestOp{Op: "error"}, fmt.Sprintf("Some (mkLobs None false (%s))", coqHdump(jrpc2.VerifClientHeadState(c))))
			latest(len(ops), head) // consumes the error, asks the source
			latest(len(ops), head) // starts a new listener
			if !lost && !waitSub("Latest after a listener failure") {
				lost = true
			}
		}
	}

	cs := lib.Case{
		Coq:        fmt.Sprintf("CWs %d [%s]", maxreads, strings.Join(cops, ";\n    ")),
		Desc:       desc{Kind: "ws", Seed: seed, Info: map[string]any{"maxreads": maxreads, "ops": ops}},
		Kind:       "ws",
		Nontrivial: hits > 0 && misses > 0,
		OracleOK:   len(or.fails) == 0,
		Size:       len(ops),
	}
	if len(or.fails) > 0 {
		cs.OracleMsg = strings.Join(or.fails, "; ")
	}
	return cs
}
