package main

import (
	"context"
	"fmt"
	"sort"
	"strings"
	"sync"

	"github.com/indexsupply/shovel/eth"
	"github.com/indexsupply/shovel/jrpc2"
	"verif/harness/cachesim"
	"verif/harness/lib"
)

// ---- real goroutines on one caching client ----

type concCall struct {
	Op   getOp
	Err  bool
	Snap []cachesim.DBlock // the caller's blocks, read right after Get returned
	bs   []eth.Block
}

func genGetConc(seed uint64) lib.Case {
	r := lib.NewRNG(seed)
	chain := genChain(r, r.Range(5, 9))
	maxreads := r.Range(1, 4)
	G := r.Range(2, 5)
	per := r.Range(2, 6)
	all := genGetOps(r, len(chain), G*per, false)
	if r.Chance(2, 3) { // logs plans only, different filters
		for i := range all {
			if all[i].Extra == "r" {
				all[i].Extra = "l"
				all[i].Addrs = lib.Pick(r, addrSets)
			}
		}
	}
	srv := cachesim.NewServer(chain)
	defer srv.Close()
	if r.Chance(2, 3) { // some base fetches fail: transport, RPC error, or a reply that validate rejects
		srv.SetFaults(false, false, r.Intn(cachesim.NFaults))
		for i := 0; i < 2; i++ {
			o := lib.Pick(r, all)
			srv.FailKey(o.Start, o.Limit, r.Range(1, 2))
		}
	}
	cc := jrpc2.New(srv.URL()).WithMaxReads(maxreads)
	ctx := context.Background()
	calls := make([][]concCall, G)
	var wg sync.WaitGroup
	for g := 0; g < G; g++ {
		wg.Add(1)
		go func(g int) {
			defer wg.Done()
			for _, op := range all[g*per : (g+1)*per] {
				call := concCall{Op: op}
				p, msg := lib.Catch(func() {
					bs, err := cc.Get(ctx, srv.URL(), op.filter(), op.Start, op.Limit)
					call.Err = err != nil
					if err == nil {
						call.bs = bs
						call.Snap = cachesim.DumpBlocks(bs, true)
					}
				})
				if p {
					call.Err = true
					call.Snap = []cachesim.DBlock{{Num: cachesim.BadID, Hash: cachesim.BadID, Txs: []cachesim.DTx{{Idx: uint64(len(msg))}}}}
				}
				calls[g] = append(calls[g], call)
			}
		}(g)
	}
	wg.Wait()

	var fails []string
	var ccs []string
	okCalls := map[reuseKey]int{}
	plans := map[reuseKey]map[string]bool{}
	mixed := false
	for g := range calls {
		for i, call := range calls[g] {
			op := call.Op
			if call.Err {
				if len(call.Snap) > 0 {
					fails = append(fails, fmt.Sprintf("g%d op %d: panic", g, i))
				}
				ccs = append(ccs, fmt.Sprintf("(%s, %s, %s, %s, (%d, %d), None)", coqKind(op.Base), coqExtra(op.Extra), b2c(op.Traces), coqNs(op.Addrs), op.Start, op.Limit))
				continue
			}
			rk := reuseKey{op.Base, op.Start, op.Limit}
			okCalls[rk]++
			if plans[rk] == nil {
				plans[rk] = map[string]bool{}
			}
			plans[rk][op.Extra+fmt.Sprint(op.Addrs, op.Traces)] = true
			if len(plans[rk]) > 1 && op.Base != "" {
				mixed = true
			}
			truth := cachesim.TruthT(chain, op.Base, op.Extra, op.Traces, op.Addrs, op.Start, op.Limit)
			later := cachesim.DumpBlocks(call.bs, false) // everybody has finished
			for when, d := range map[string][]cachesim.DBlock{"at return": call.Snap, "at the end": later} {
				if v := cachesim.ViewT(d, op.Extra, op.Traces, op.Addrs); !cachesim.EqualDump(v, truth) {
					fails = append(fails, fmt.Sprintf("g%d op %d %s: view %v differs from the chain %v", g, i, when, v, truth))
				}
				for _, b := range d {
					if b.Hash >= cachesim.BadHashDelta || b.Num >= op.Start+op.Limit || b.Num < op.Start {
						fails = append(fails, fmt.Sprintf("g%d op %d %s: block (num %d, hash %d) of a reply that validate rejected was served", g, i, when, b.Num, b.Hash))
					}
				}
				if p := cachesim.Problems(d); len(p) > 0 {
					fails = append(fails, fmt.Sprintf("g%d op %d %s: %s", g, i, when, strings.Join(p, ", ")))
				}
			}
			ccs = append(ccs, fmt.Sprintf("(%s, %s, %s, %s, (%d, %d), Some %s)", coqKind(op.Base), coqExtra(op.Extra), b2c(op.Traces), coqNs(op.Addrs),
				op.Start, op.Limit, cachesim.CoqBlocks(later)))
		}
	}
	sort.Strings(fails)
	// request counts: one fetch cannot have served more than maxreads + G - 1 calls
	nbase := srv.Count(cachesim.ClsBase)
	if nbase < needBase(okCalls, maxreads, G) {
		fails = append(fails, fmt.Sprintf("%d base requests for %v, maxreads %d, %d goroutines", nbase, okCalls, maxreads, G))
	}

	c := lib.Case{
		Coq: fmt.Sprintf("CConcGet %s [%s]", chain.Coq(), strings.Join(ccs, ";\n    ")),
		Desc: desc{Kind: "get-conc", Seed: seed, Info: map[string]any{"maxreads": maxreads, "goroutines": G,
			"chain": chain.Describe(), "ops": all}},
		Kind:       "get-conc",
		Nontrivial: mixed,
		OracleOK:   len(fails) == 0,
		Size:       len(all),
	}
	if len(fails) > 0 {
		c.OracleMsg = strings.Join(fails, "; ")
	}
	return c
}

func needBase(okCalls map[reuseKey]int, maxreads, G int) int {
	need := 0
	for rk, n := range okCalls {
		if rk.Base == "" {
			continue
		}
		need += (n + maxreads + G - 2) / (maxreads + G - 1)
	}
	return need
}
