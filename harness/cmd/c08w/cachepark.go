//go:build verif

package main

import (
	"fmt"
	"strings"
	"sync"
	"time"

	"github.com/indexsupply/shovel/eth"
	"github.com/indexsupply/shovel/jrpc2"
	"verif/harness/lib"
)

// cache-park: get-park at the level of the exported cache.get: reader A's
// scripted getter is parked (channel) -- A holds its segment's lock with one
// read counted -- W more readers of the same key are started and seen blocked
// on a mutex inside cache.get, then A is released.  The data of every return
// value carries the id of the getter call it came from, so "the parked
// download served at most maxreads reads" is checked on the data itself.
func init() {
	streams = append(streams, stream{"cache-park", true, 16, 48, genCachePark})
}

func genCachePark(seed uint64) lib.Case {
	r := lib.NewRNG(seed)
	maxreads := 1
	waiters := r.Range(1, 3)
	if r.Chance(1, 4) {
		maxreads, waiters = 2, 2
	}
	k := lib.Pick(r, keyPool)
	vc := jrpc2.VerifNewCache(maxreads)
	var (
		mu      sync.Mutex
		nextID  uint64
		fetches []struct {
			ID uint64
		}
		parked  = make(chan struct{}, 1)
		release = make(chan struct{})
	)
	getter := func(s, l uint64) ([]eth.Block, error) {
		mu.Lock()
		nextID++
		id := nextID
		fetches = append(fetches, struct{ ID uint64 }{id})
		mu.Unlock()
		if id == 1 { // the first download stays in flight until released
			parked <- struct{}{}
			<-release
		}
		return mkBlocks(s, l, id), nil
	}
	ids := make([]uint64, waiters+1)
	errs := make([]error, waiters+1)
	var wg sync.WaitGroup
	call := func(i int) {
		bs, err := vc.Get(false, k.Start, k.Limit, getter)
		errs[i] = err
		if err == nil && len(bs) > 0 {
			ids[i] = uint64(bs[0].Header.Time)
		}
	}
	wg.Add(1)
	go func() { defer wg.Done(); call(0) }()
	var fails []string
	synced := true
	select {
	case <-parked:
	case <-time.After(15 * time.Second):
		fails = append(fails, "reader A never called the getter")
		synced = false
	}
	gids := make([]chan string, waiters)
	for w := 0; w < waiters; w++ {
		gids[w] = make(chan string, 1)
		wg.Add(1)
		go func(w int) {
			defer wg.Done()
			gids[w] <- curGID()
			call(w + 1)
		}(w)
	}
	for w := 0; w < waiters && synced; w++ {
		if !waitBlocked(<-gids[w], 2*time.Second) {
			synced = false
		}
	}
	mu.Lock()
	early := len(fetches)
	mu.Unlock()
	close(release)
	wg.Wait()

	if early != 1 {
		fails = append(fails, fmt.Sprintf("%d getter calls while the first was parked", early))
	}
	served := map[uint64]int{}
	var rs []string
	for i := range ids {
		if errs[i] != nil {
			fails = append(fails, fmt.Sprintf("reader %d: %v", i, errs[i]))
			rs = append(rs, fmt.Sprintf("(%s, None)", coqKey(k)))
			continue
		}
		served[ids[i]]++
		rs = append(rs, fmt.Sprintf("(%s, Some %d)", coqKey(k), ids[i]))
	}
	readers := waiters + 1
	if maxreads == 1 && served[1] > 1 {
		fails = append(fails, fmt.Sprintf("maxreads 1, %d readers of %v while the first download was in flight: that download served %d reads (getter called %d time(s))", readers, k, served[1], len(fetches)))
	}
	for id, n := range served {
		if n > maxreads+waiters-1+0 && maxreads > 1 {
			fails = append(fails, fmt.Sprintf("fetch %d served %d reads, maxreads %d, %d readers", id, n, maxreads, readers))
		}
	}
	var fs []string
	for _, f := range fetches {
		fs = append(fs, fmt.Sprintf("(%s, %d, true)", coqKey(k), f.ID))
	}
	// model side: the concurrent bound maxreads + B - 1 with B = number of
	// waiters (with ONE waiter nobody can overlap: exactly maxreads; with more,
	// two waiters may legitimately share a LATER download)
	G := waiters
	c := lib.Case{
		Coq: fmt.Sprintf("CConcCache %d %d [%s] [%s]", maxreads, G, strings.Join(fs, "; "), strings.Join(rs, "; ")),
		Desc: desc{Kind: "cache-park", Seed: seed, Info: map[string]any{"maxreads": maxreads, "readers": readers,
			"key": k, "getter_calls": len(fetches), "waiters_seen_blocked": synced}},
		Kind:       "cache-park",
		Nontrivial: synced,
		OracleOK:   len(fails) == 0,
		Size:       readers,
	}
	if len(fails) > 0 {
		c.OracleMsg = strings.Join(fails, "; ")
	}
	return c
}
