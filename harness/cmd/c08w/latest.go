//go:build verif

package main

import (
	"bytes"
	"context"
	"errors"
	"fmt"
	"strings"
	"time"

	"github.com/indexsupply/shovel/jrpc2"
	"verif/harness/cachesim"
	"verif/harness/lib"
)

type latestOp struct {
	Op    string // "update" | "error" | "latest"
	N     uint64 // announced number / floor
	Hash  []byte `json:"hash,omitempty"`
	SrcOK bool   // latest: the source answers a direct request
	SrcN  uint64
	SrcH  []byte `json:"src_hash,omitempty"`
}

func genLatestOps(r *lib.RNG, n int) (int, []latestOp) {
	maxreads := r.Range(1, 4)
	if r.Chance(1, 12) {
		maxreads = 0
	}
	ops := make([]latestOp, n)
	head := uint64(r.Range(2, 6)) // what the chain's head is "now"
	for i := range ops {
		if r.Chance(1, 3) {
			head += uint64(r.Range(0, 2))
		}
		switch x := r.Intn(20); {
		case x < 5:
			num := head
			if r.Chance(1, 4) && head > 2 {
				num = head - uint64(r.Range(1, 2)) // a lagging announcement
			}
			ops[i] = latestOp{Op: "update", N: num, Hash: cachesim.Hash32(1000 + 10*num + uint64(r.Intn(2)))}
		case x < 7:
			ops[i] = latestOp{Op: "error"}
		default:
			f := uint64(0)
			if !r.Chance(1, 8) {
				f = uint64(r.Range(1, int(head)+1))
			}
			src := head
			if r.Chance(1, 5) && head > 2 {
				src = head - 1 // a lagging node behind the load balancer
			}
			ops[i] = latestOp{Op: "latest", N: f, SrcOK: !r.Chance(1, 6), SrcN: src,
				SrcH: cachesim.Hash32(1000 + 10*src + uint64(r.Intn(2)))}
		}
	}
	return maxreads, ops
}

func coqLop(op latestOp) string {
	switch op.Op {
	case "update":
		return fmt.Sprintf("LUpdate %d %s", op.N, lib.CBytes(op.Hash))
	case "error":
		return "LError"
	}
	return fmt.Sprintf("LLatest %d %s", op.N, lib.COpt(op.SrcOK, coqPair(op.SrcN, op.SrcH)))
}

func genLatestSeq(seed uint64) lib.Case {
	r := lib.NewRNG(seed)
	maxreads, ops := genLatestOps(r, r.Range(8, 40))
	srv := cachesim.NewServer(nil)
	defer srv.Close()
	c := jrpc2.New(srv.URL()).WithMaxReads(maxreads).WithPollDuration(time.Hour)
	or := &headOracle{maxreads: maxreads}
	var cops []string
	hits, misses, anns := 0, 0, 0
	ctx := context.Background()
	for i, op := range ops {
		before := jrpc2.VerifClientHeadState(c)
		ret, asked := "None", false
		switch op.Op {
		case "update":
			jrpc2.VerifClientHeadUpdate(c, op.N, op.Hash)
			or.announce(op.N, op.Hash)
			or.afterError = false
			anns++
		case "error":
			jrpc2.VerifClientHeadError(c, errors.New("scripted"))
			or.reset()
			or.afterError = true
		default:
			if op.SrcOK {
				srv.SetHead(&cachesim.Head{Num: op.SrcN, Hash: op.SrcH})
			} else {
				srv.SetHead(nil)
			}
			n0 := srv.Count(cachesim.ClsLatest)
			n, h, err := c.Latest(ctx, srv.URL(), op.N)
			asked = srv.Count(cachesim.ClsLatest) > n0
			if srv.Count(cachesim.ClsLatest)-n0 > 1 {
				or.fails = append(or.fails, fmt.Sprintf("op %d: more than one direct request", i))
			}
			if err == nil {
				ret = "(Some " + coqPair(n, h) + ")"
			}
			if asked {
				or.afterError = false
				or.lastHit = nil
				or.reset()
				if op.SrcOK {
					or.announce(op.SrcN, op.SrcH)
					anns++
					if err != nil || n != op.SrcN || !bytes.Equal(h, op.SrcH) {
						or.fails = append(or.fails, fmt.Sprintf("op %d: source said (%d,%x), Latest returned (%d,%x,%v)", i, op.SrcN, op.SrcH, n, h, err))
					}
				} else if err == nil {
					or.fails = append(or.fails, fmt.Sprintf("op %d: failed request served as (%d,%x)", i, n, h))
				}
				if anns > 0 {
					misses++
				}
			} else {
				if err != nil {
					or.fails = append(or.fails, fmt.Sprintf("op %d: error without asking the source", i))
				} else {
					hits++
					or.get(i, op.N, n, h, true)
				}
			}
		}
		st := jrpc2.VerifClientHeadState(c)
		if st.Num != before.Num {
			or.reset()
		}
		cops = append(cops, fmt.Sprintf("(%s, mkLobs %s %s (%s))", coqLop(op), ret, b2c(asked), coqHdump(st)))
	}
	cs := lib.Case{
		Coq:        fmt.Sprintf("CLatest %d [%s]", maxreads, strings.Join(cops, ";\n    ")),
		Desc:       desc{Kind: "latest-seq", Seed: seed, Info: map[string]any{"maxreads": maxreads, "ops": ops}},
		Kind:       "latest-seq",
		Nontrivial: hits > 0 && misses > 0,
		OracleOK:   len(or.fails) == 0,
		Size:       len(ops),
	}
	if len(or.fails) > 0 {
		cs.OracleMsg = strings.Join(or.fails, "; ")
	}
	return cs
}
