package main

import (
	"context"
	"fmt"
	"strings"

	"github.com/indexsupply/shovel/eth"
	"github.com/indexsupply/shovel/jrpc2"
	"github.com/indexsupply/shovel/shovel/glf"
	"verif/harness/cachesim"
	"verif/harness/lib"
)

type getOp struct {
	Base   string   // "" | "h" | "b"
	Extra  string   // "" | "l" | "r"
	Traces bool     // trace_block for every block, after the receipts / logs
	FailT  int      // >= 0: the trace_block request for the FailT-th block of the range fails
	Addrs  []uint64 // address filter of a logs plan
	Start  uint64
	Limit  uint64
	FailB  bool
	FailX  bool
	Fault  int
}

func (o getOp) filter() *glf.Filter {
	var as []string
	for _, a := range o.Addrs {
		as = append(as, cachesim.AddrHex(a))
	}
	f := glf.New(nil, as, nil)
	f.UseHeaders = o.Base == "h"
	f.UseBlocks = o.Base == "b"
	f.UseLogs = o.Extra == "l"
	f.UseReceipts = o.Extra == "r"
	f.UseTraces = o.Traces
	return f
}

func genChain(r *lib.RNG, n int) cachesim.Chain {
	c := make(cachesim.Chain, n)
	for i := range c {
		c[i] = cachesim.Block{Hash: uint64(100 + i), Time: uint64(1000 + 12*i)}
		ntx := r.Range(0, 3)
		if ntx == 0 && r.Chance(2, 3) {
			ntx = 1 // a block without transactions makes every trace plan over it fail
		}
		idx := uint64(0)
		logIdx := uint64(0)
		for t := 0; t < ntx; t++ {
			idx += uint64(r.Range(0, 2))
			tx := cachesim.Tx{Idx: idx, Hash: uint64(10000 + 100*i + t)}
			for l := r.Range(0, 3); l > 0; l-- {
				tx.Logs = append(tx.Logs, cachesim.Log{Idx: logIdx, Addr: uint64(r.Range(1, 3)), Body: uint64(50000 + 1000*i + 2*int(logIdx))})
				logIdx += uint64(r.Range(1, 2))
			}
			if !r.Chance(1, 6) { // most transactions have trace actions
				for a := r.Range(1, 3); a > 0; a-- {
					tx.Traces = append(tx.Traces, uint64(200000+10000*i+100*t+2*a))
				}
			}
			c[i].Txs = append(c[i].Txs, tx)
			idx++
		}
	}
	return c
}

var addrSets = [][]uint64{nil, {1}, {2}, {3}, {1, 3}, {2, 3}, {9}}

func genGetOps(r *lib.RNG, chainLen, n int, faults bool) []getOp {
	// a small pool of ranges so that calls meet on the same segments
	type rng struct{ s, l uint64 }
	var pool []rng
	for i := 0; i < r.Range(2, 7); i++ {
		l := uint64(r.Range(1, 4))
		s := uint64(r.Intn(chainLen - int(l) + 1))
		pool = append(pool, rng{s, l})
	}
	// distinct starts (see genGetSeq: the eviction choice must be determined)
	seen := map[uint64]bool{}
	uniq := pool[:0]
	for _, k := range pool {
		if !seen[k.s] {
			seen[k.s] = true
			uniq = append(uniq, k)
		}
	}
	pool = uniq
	bases := []string{"h", "b", "h", "b", ""}
	if r.Chance(1, 3) {
		bases = []string{lib.Pick(r, []string{"h", "b"})} // everybody on one cache
	}
	ops := make([]getOp, n)
	for i := range ops {
		k := lib.Pick(r, pool)
		ops[i] = getOp{Base: lib.Pick(r, bases), Extra: lib.Pick(r, []string{"l", "l", "l", "r", ""}),
			Start: k.s, Limit: k.l, Fault: r.Intn(cachesim.NFaults), Traces: r.Chance(1, 3), FailT: -1}
		if ops[i].Extra == "l" {
			ops[i].Addrs = lib.Pick(r, addrSets)
		}
		if faults {
			ops[i].FailB = r.Chance(1, 6)
			ops[i].FailX = r.Chance(1, 7)
			if ops[i].Traces && r.Chance(1, 5) {
				ops[i].FailT = r.Intn(int(ops[i].Limit))
			}
			if ops[i].FailB && ops[i].Base != "" && r.Chance(1, 2) {
				// a reply that decodes but is rejected by validate
				ops[i].Fault = cachesim.FaultBadLink + r.Intn(2)
			}
			// a failed base fetch is retried on the same range (same cache)
			if i > 0 && ops[i-1].FailB && ops[i-1].Base != "" && r.Chance(3, 4) {
				ops[i].Base, ops[i].Start, ops[i].Limit = ops[i-1].Base, ops[i-1].Start, ops[i-1].Limit
				ops[i].FailB = r.Chance(1, 5)
			}
		}
	}
	return ops
}

func coqKind(b string) string {
	switch b {
	case "h":
		return "(Some KHeaders)"
	case "b":
		return "(Some KBlocks)"
	}
	return "None"
}

func coqExtra(x string) string {
	switch x {
	case "l":
		return "XLogs"
	case "r":
		return "XReceipts"
	}
	return "XNone"
}

func coqNs(xs []uint64) string {
	s := make([]string, len(xs))
	for i, x := range xs {
		s[i] = lib.CN(x)
	}
	return "[" + strings.Join(s, "; ") + "]"
}

type reuseKey struct {
	Base         string
	Start, Limit uint64
}

func genGetSeq(seed uint64) lib.Case {
	r := lib.NewRNG(seed)
	chain := genChain(r, r.Range(6, 12))
	maxreads := r.Range(1, 4)
	ops := genGetOps(r, len(chain), r.Range(4, 16), true)

	srv := cachesim.NewServer(chain)
	defer srv.Close()
	ref := cachesim.NewServer(chain) // the uncached client talks to its own, fault-free server
	defer ref.Close()
	cc := jrpc2.New(srv.URL()).WithMaxReads(maxreads)
	nc := jrpc2.New(ref.URL() + "/nocache")
	ctx := context.Background()

	var (
		cops       []string
		fails      []string
		sinceFetch = map[reuseKey]int{} // successful reads served per base fetch
		seenPlan   = map[reuseKey]string{}
		mixed      bool
	)
	for i, op := range ops {
		srv.SetFaults(op.FailB, op.FailX, op.Fault)
		if op.FailT >= 0 {
			srv.FailTrace(op.Start+uint64(op.FailT), 1)
		}
		b0, x0, t0 := srv.Count(cachesim.ClsBase), srv.Count(cachesim.ClsExtra), srv.Count(cachesim.ClsTrace)
		var bs []eth.Block
		var err error
		panicked, pmsg := lib.Catch(func() { bs, err = cc.Get(ctx, srv.URL(), op.filter(), op.Start, op.Limit) })
		nb, nx, nt := srv.Count(cachesim.ClsBase)-b0, srv.Count(cachesim.ClsExtra)-x0, srv.Count(cachesim.ClsTrace)-t0
		srv.SetFaults(false, false, 0)
		traceFailed, traceEmpty := false, false
		if op.FailT >= 0 {
			traceFailed = nt > op.FailT // the failing request was reached
			srv.FailTrace(op.Start+uint64(op.FailT), 0)
		}
		// traces() treats an empty trace_block reply as an error
		for j := 0; j < nt && j < int(op.Limit); j++ {
			has := false
			for _, t := range chain[op.Start+uint64(j)].Txs {
				if len(t.Traces) > 0 {
					has = true
				}
			}
			if !has {
				traceEmpty = true // the code treats an empty reply as an error; C08 does not care
			}
		}
		if panicked {
			fails = append(fails, fmt.Sprintf("op %d: panic %s", i, pmsg))
			err = fmt.Errorf("panic")
		}
		// the surviving key set after pruneSegments is not observed here (no
		// hook): ranges of one case have distinct starts, which leaves the
		// prune no choice; the runner computes it (Corr/RunC08.v, auto_kept)
		kept := "[]"
		res := "None"
		var dump []cachesim.DBlock
		if err == nil {
			dump = cachesim.DumpBlocks(bs, false)
			res = "(Some " + cachesim.CoqBlocks(dump) + ")"
		}
		failt := "None"
		if op.FailT >= 0 {
			failt = fmt.Sprintf("(Some %d%%nat)", op.FailT)
		}
		cops = append(cops, fmt.Sprintf("(mkGop %s %s %s %s (%d, %d) %s %s %s %s, mkGobs %s %d %d %d)",
			coqKind(op.Base), coqExtra(op.Extra), b2c(op.Traces), coqNs(op.Addrs), op.Start, op.Limit, kept,
			b2c(op.FailB), b2c(op.FailX), failt, res, nb, nx, nt))

		// ---- direct oracle ----
		rk := reuseKey{op.Base, op.Start, op.Limit}
		plan := op.Extra + fmt.Sprint(op.Addrs, op.Traces)
		if p, ok := seenPlan[rk]; ok && p != plan && op.Base != "" {
			mixed = true
		}
		seenPlan[rk] = plan
		if nb > 1 || nx > 1 || (op.Base == "" && nb != 0) {
			fails = append(fails, fmt.Sprintf("op %d: %d base and %d extra requests", i, nb, nx))
		}
		if op.Base != "" && nb == 1 && !op.FailB {
			sinceFetch[rk] = 0 // a new successful base fetch
		}
		if err != nil {
			if !((op.FailB && nb > 0) || (op.FailX && nx > 0) || traceFailed || traceEmpty) {
				fails = append(fails, fmt.Sprintf("op %d: error %v although no request failed", i, err))
			}
			continue
		}
		if (op.FailB && nb > 0) || (op.FailX && nx > 0) || traceFailed {
			fails = append(fails, fmt.Sprintf("op %d: success although a request failed", i))
		}
		if op.Traces && nt != int(op.Limit) {
			fails = append(fails, fmt.Sprintf("op %d: %d trace requests for %d blocks", i, nt, op.Limit))
		}
		if op.Extra != "" && nx != 1 {
			fails = append(fails, fmt.Sprintf("op %d: the caller's own %s request was not sent", i, op.Extra))
		}
		if op.Base != "" {
			sinceFetch[rk]++
			if sinceFetch[rk] > maxreads {
				fails = append(fails, fmt.Sprintf("op %d: %d reads of %v served by one fetch, maxreads %d", i, sinceFetch[rk], rk, maxreads))
			}
		}
		// the uncached client, same call
		ubs, uerr := nc.Get(ctx, ref.URL()+"/nocache", op.filter(), op.Start, op.Limit)
		if uerr != nil {
			fails = append(fails, fmt.Sprintf("op %d: uncached client failed: %v", i, uerr))
			continue
		}
		udump := cachesim.DumpBlocks(ubs, false)
		got := cachesim.ViewT(dump, op.Extra, op.Traces, op.Addrs)
		want := cachesim.ViewT(udump, op.Extra, op.Traces, op.Addrs)
		truth := cachesim.TruthT(chain, op.Base, op.Extra, op.Traces, op.Addrs, op.Start, op.Limit)
		if !cachesim.EqualDump(got, want) {
			fails = append(fails, fmt.Sprintf("op %d: cached view %v differs from uncached view %v", i, got, want))
		}
		if !cachesim.EqualDump(got, truth) {
			fails = append(fails, fmt.Sprintf("op %d: cached view %v differs from the chain %v", i, got, truth))
		}
		for _, b := range dump {
			if b.Hash >= cachesim.BadHashDelta || b.Num >= op.Start+op.Limit || b.Num < op.Start {
				fails = append(fails, fmt.Sprintf("op %d: block (num %d, hash %d) of a reply that validate rejected was served", i, b.Num, b.Hash))
			}
		}
		if p := cachesim.Problems(dump); len(p) > 0 {
			fails = append(fails, fmt.Sprintf("op %d: %s", i, strings.Join(p, ", ")))
		}
		if op.Base == "b" {
			// block plans also carry every transaction of the block
			for j, b := range dump {
				if len(b.Txs) != len(chain[op.Start+uint64(j)].Txs) {
					fails = append(fails, fmt.Sprintf("op %d: block %d has %d transactions", i, b.Num, len(b.Txs)))
				}
			}
		}
	}

	c := lib.Case{
		Coq: fmt.Sprintf("CGetAuto %d %s [%s]", maxreads, chain.Coq(), strings.Join(cops, ";\n    ")),
		Desc: desc{Kind: "get-seq", Seed: seed, Info: map[string]any{"maxreads": maxreads,
			"chain": chain.Describe(), "ops": ops}},
		Kind:       "get-seq",
		Nontrivial: mixed,
		OracleOK:   len(fails) == 0,
		Size:       len(ops),
	}
	for _, op := range ops {
		if op.FailB && op.Fault >= cachesim.FaultBadLink && op.Base != "" {
			stat("get-seq:rejected-reply")
			break
		}
	}
	if len(fails) > 0 {
		c.OracleMsg = strings.Join(fails, "; ")
	}
	return c
}
