//go:build verif

package main

import (
	"bytes"
	"errors"
	"fmt"
	"strings"

	"github.com/indexsupply/shovel/jrpc2"
	"verif/harness/cachesim"
	"verif/harness/lib"
)

type headOp struct {
	Op   string // "update" | "error" | "get"
	N    uint64
	Hash []byte `json:"hash,omitempty"`
}

func coqPair(n uint64, h []byte) string { return fmt.Sprintf("(%d, %s)", n, lib.CBytes(h)) }

func coqHdump(s jrpc2.VerifHeadState) string {
	return fmt.Sprintf("mkHdump %d %s %d %s", s.Num, lib.CBytes(s.Hash), s.Nreads, b2c(s.HasErr))
}

// a hash for an announcement of number n; variant distinguishes two blocks at
// the same height; the malformed stream uses other lengths
func annHash(r *lib.RNG, n uint64, malformed bool) []byte {
	h := cachesim.Hash32(1000 + 10*n + uint64(r.Intn(2)))
	if malformed && r.Chance(1, 3) {
		switch r.Intn(3) {
		case 0:
			return h[:r.Intn(32)]
		case 1:
			return append(h, byte(r.Intn(256)), 7)
		default:
			return nil
		}
	}
	return h
}

func genHeadOps(r *lib.RNG) (int, bool, []headOp) {
	maxreads := r.Range(1, 5)
	if r.Chance(1, 12) {
		maxreads = 0
	}
	malformed := r.Chance(1, 6)
	n := r.Range(8, 45)
	ops := make([]headOp, n)
	cur := uint64(r.Range(1, 6))
	for i := range ops {
		switch x := r.Intn(20); {
		case x < 7: // announcement: advance, repeat or regress
			switch r.Intn(4) {
			case 0, 1:
				cur += uint64(r.Range(1, 2))
			case 2:
			default:
				if cur > 2 {
					cur -= uint64(r.Range(1, 2))
				}
			}
			num := cur
			if r.Chance(1, 15) {
				num = 0
			}
			ops[i] = headOp{Op: "update", N: num, Hash: annHash(r, num, malformed)}
		case x < 9:
			ops[i] = headOp{Op: "error"}
		default:
			f := uint64(0)
			if !r.Chance(1, 8) {
				f = uint64(r.Range(1, int(cur)+2))
			}
			ops[i] = headOp{Op: "get", N: f}
		}
	}
	return maxreads, malformed, ops
}

// headOracle checks, independently of the model, what C08 says about the head
// cache on a history of announcements / failures / reads.
type headOracle struct {
	maxreads   int
	announced  [][2]string // (number, hash) pairs seen from the source
	hitsSince  int         // hits since the cache was last told something new
	afterError bool        // the previous event was a poller failure
	lastHit    *[2]any     // (num, hash) of the previous hit if no miss since
	fails      []string
}

func pkey(n uint64, h []byte) [2]string { return [2]string{fmt.Sprint(n), string(h)} }

func (o *headOracle) announce(n uint64, h []byte) { o.announced = append(o.announced, pkey(n, h)) }

func (o *headOracle) reset() { o.hitsSince = 0 }

func (o *headOracle) get(i int, floor uint64, n uint64, h []byte, hit bool) {
	if o.afterError && hit {
		o.fails = append(o.fails, fmt.Sprintf("op %d: hit right after a poller error", i))
	}
	o.afterError = false
	if !hit {
		o.lastHit = nil
		return
	}
	if floor == 0 || n < floor {
		o.fails = append(o.fails, fmt.Sprintf("op %d: hit with floor %d and cached number %d", i, floor, n))
	}
	found := false
	for _, p := range o.announced {
		// get() always hands out 32 bytes: a shorter announced hash comes back padded
		ph := []byte(p[1])
		if len(ph) < 32 {
			ph = append(append([]byte(nil), ph...), make([]byte, 32-len(ph))...)
		}
		if p[0] == fmt.Sprint(n) && bytes.Equal(ph[:32], h) {
			found = true
		}
	}
	if !found {
		o.fails = append(o.fails, fmt.Sprintf("op %d: hit (%d, %x) was never announced", i, n, h))
	}
	o.hitsSince++
	if o.hitsSince > o.maxreads {
		o.fails = append(o.fails, fmt.Sprintf("op %d: %d hits without hearing from the source, maxreads %d", i, o.hitsSince, o.maxreads))
	}
	if o.lastHit != nil {
		pn, ph := o.lastHit[0].(uint64), o.lastHit[1].([]byte)
		if n < pn || (n == pn && !bytes.Equal(ph, h)) {
			o.fails = append(o.fails, fmt.Sprintf("op %d: hit (%d,%x) after hit (%d,%x)", i, n, h, pn, ph))
		}
	}
	o.lastHit = &[2]any{n, append([]byte(nil), h...)}
}

func genHeadSeq(seed uint64) lib.Case {
	r := lib.NewRNG(seed)
	maxreads, malformed, ops := genHeadOps(r)
	nh := jrpc2.VerifNewNumHash(maxreads)
	or := &headOracle{maxreads: maxreads}
	var cops []string
	hits, misses, anns := 0, 0, 0
	for i, op := range ops {
		before := nh.State()
		switch op.Op {
		case "update":
			nh.Update(op.N, op.Hash)
			st := nh.State()
			or.announce(op.N, op.Hash)
			if st.Num != before.Num {
				or.reset()
			} else if !bytes.Equal(st.Hash, before.Hash) {
				or.fails = append(or.fails, fmt.Sprintf("op %d: hash replaced under the same number %d", i, st.Num))
			}
			or.afterError = false
			anns++
			cops = append(cops, fmt.Sprintf("(HUpdate %d %s, None, %s)", op.N, lib.CBytes(op.Hash), coqHdump(st)))
		case "error":
			nh.Error(errors.New("scripted"))
			or.reset()
			or.afterError = true
			cops = append(cops, fmt.Sprintf("(HError, None, %s)", coqHdump(nh.State())))
		default:
			n, h, ok := nh.Get(op.N)
			or.get(i, op.N, n, h, ok)
			if ok {
				hits++
			} else if anns > 0 {
				misses++
			}
			cops = append(cops, fmt.Sprintf("(HGet %d, %s, %s)", op.N, lib.COpt(ok, coqPair(n, h)), coqHdump(nh.State())))
		}
	}
	kind := "head-seq"
	if malformed {
		kind = "head-seq-malformed"
	}
	c := lib.Case{
		Coq:        fmt.Sprintf("CHead %d [%s]", maxreads, strings.Join(cops, ";\n    ")),
		Desc:       desc{Kind: "head-seq", Seed: seed, Info: map[string]any{"maxreads": maxreads, "ops": ops}},
		Kind:       kind,
		Nontrivial: hits > 0 && misses > 0,
		OracleOK:   len(or.fails) == 0,
		Size:       len(ops),
	}
	if len(or.fails) > 0 {
		c.OracleMsg = strings.Join(or.fails, "; ")
	}
	return c
}
