//go:build verif

package main

import (
	"errors"
	"fmt"
	"strings"

	"github.com/indexsupply/shovel/eth"
	"github.com/indexsupply/shovel/jrpc2"
	"verif/harness/lib"
)

type ckey struct{ Start, Limit uint64 }

var keyPool = []ckey{{10, 1}, {10, 2}, {20, 1}, {20, 3}, {30, 1}, {40, 2}, {50, 1}, {60, 1}, {60, 2}, {70, 1}, {5, 4}, {90, 2}}

type cacheOp struct {
	Key     ckey
	NoCache bool
	Fail    bool
	NilOnEr bool // the failing getter returns nil blocks (else junk blocks) with the error
}

func mkBlocks(start, limit, id uint64) []eth.Block {
	bs := make([]eth.Block, limit)
	for i := range bs {
		bs[i].Header.Number = eth.Uint64(start + uint64(i))
		bs[i].Header.Time = eth.Uint64(id)
	}
	return bs
}

func coqKey(k ckey) string { return fmt.Sprintf("(%d, %d)", k.Start, k.Limit) }

func coqOptN(ok bool, v uint64) string { return lib.COpt(ok, lib.CN(v)) }

func coqSegs(d []jrpc2.VerifSegment) string {
	xs := make([]string, len(d))
	for i, s := range d {
		xs[i] = fmt.Sprintf("((%d, %d), %d, %s)", s.Start, s.Limit, s.Nreads, b2c(s.Done))
	}
	return "[" + strings.Join(xs, "; ") + "]"
}

func genCacheOps(r *lib.RNG) (int, []cacheOp) {
	maxreads := r.Range(1, 5)
	if r.Chance(1, 12) {
		maxreads = 0
	}
	nkeys := r.Range(1, len(keyPool))
	if r.Chance(1, 2) {
		nkeys = r.Range(5, 9) // around the size limit
	}
	perm := append([]ckey(nil), keyPool...)
	for i := len(perm) - 1; i > 0; i-- {
		j := r.Intn(i + 1)
		perm[i], perm[j] = perm[j], perm[i]
	}
	pool := perm[:nkeys]
	n := r.Range(6, 40)
	ops := make([]cacheOp, n)
	failDen := lib.Pick(r, []int{4, 8, 1000})
	for i := range ops {
		k := lib.Pick(r, pool)
		if i > 0 && r.Chance(1, 2) {
			k = ops[i-1-r.Intn(min(i, 2))].Key
		}
		ops[i] = cacheOp{Key: k, NoCache: r.Chance(1, 25), Fail: r.Chance(1, failDen), NilOnEr: r.Bool()}
	}
	return maxreads, ops
}

// segment cache: oracle state shared by the sequential and concurrent streams
type fetchRec struct {
	Key ckey
	OK  bool
}

func genCacheSeq(seed uint64) lib.Case {
	r := lib.NewRNG(seed)
	maxreads, ops := genCacheOps(r)
	vc := jrpc2.VerifNewCache(maxreads)

	var (
		cops      []string
		fails     []string
		fetches   = map[uint64]fetchRec{} // id -> fetch
		served    = map[uint64]int{}      // id -> reads served with that data
		prev      []jrpc2.VerifSegment
		hits      int
		refetch   int
		seenFetch = map[ckey]bool{}
	)
	bound := maxreads
	if bound < 1 {
		bound = 1
	}
	for i, op := range ops {
		id := uint64(i + 1)
		called := false
		getter := func(s, l uint64) ([]eth.Block, error) {
			called = true
			if s != op.Key.Start || l != op.Key.Limit {
				fails = append(fails, fmt.Sprintf("op %d: getter called with (%d,%d)", i, s, l))
			}
			if op.Fail {
				if op.NilOnEr {
					return nil, errors.New("scripted")
				}
				return mkBlocks(s, l, id), errors.New("scripted")
			}
			return mkBlocks(s, l, id), nil
		}
		bs, err := vc.Get(op.NoCache, op.Key.Start, op.Key.Limit, getter)
		dump := vc.Segments()

		// observation
		retOK, retID := false, uint64(0)
		if err == nil {
			retOK = true
			if uint64(len(bs)) != op.Key.Limit {
				fails = append(fails, fmt.Sprintf("op %d: %d blocks for limit %d", i, len(bs), op.Key.Limit))
			}
			for j := range bs {
				if j == 0 {
					retID = uint64(bs[j].Header.Time)
				}
				if uint64(bs[j].Header.Time) != retID || bs[j].Num() != op.Key.Start+uint64(j) {
					fails = append(fails, fmt.Sprintf("op %d: block %d is not block %d of one fetch", i, j, op.Key.Start+uint64(j)))
				}
			}
		}
		outcome := fmt.Sprintf("(FOk %d)", id)
		if op.Fail {
			// error WITH the rejected data (id), or with nil data
			outcome = fmt.Sprintf("(FErr %s)", coqOptN(!op.NilOnEr, id))
		}
		cops = append(cops, fmt.Sprintf("mkCop %s %s %s %s %s %s", coqKey(op.Key), b2c(op.NoCache),
			outcome, coqOptN(retOK, retID), b2c(called), coqSegs(dump)))

		// direct oracle
		if called {
			fetches[id] = fetchRec{op.Key, !op.Fail}
			if seenFetch[op.Key] {
				refetch++
			}
			seenFetch[op.Key] = true
		}
		switch {
		case err != nil:
			if !called || !op.Fail {
				fails = append(fails, fmt.Sprintf("op %d: error although no fetch failed", i))
			}
		case called:
			if op.Fail {
				fails = append(fails, fmt.Sprintf("op %d: failed fetch served as data", i))
			} else if retID != id {
				fails = append(fails, fmt.Sprintf("op %d: fetched id %d, returned id %d", i, id, retID))
			}
		default:
			hits++
			f, ok := fetches[retID]
			switch {
			case ok && !f.OK:
				fails = append(fails, fmt.Sprintf("op %d: served the data that fetch %d returned TOGETHER WITH AN ERROR (key %v)", i, retID, f.Key))
			case !ok || f.Key != op.Key:
				fails = append(fails, fmt.Sprintf("op %d: served id %d which is not a successful fetch of %v", i, retID, op.Key))
			}
		}
		if err == nil && !op.NoCache {
			served[retID]++
			if served[retID] > bound {
				fails = append(fails, fmt.Sprintf("op %d: fetch %d served %d reads, maxreads %d", i, retID, served[retID], maxreads))
			}
		}
		if op.NoCache {
			if !called {
				fails = append(fails, fmt.Sprintf("op %d: nocache call did not ask the source", i))
			}
			if fmt.Sprint(dump) != fmt.Sprint(prev) {
				fails = append(fails, fmt.Sprintf("op %d: nocache call changed the cache", i))
			}
		} else {
			fails = append(fails, segOracle(i, maxreads, op.Key, prev, dump)...)
		}
		prev = dump
	}

	c := lib.Case{
		Coq:        fmt.Sprintf("CCache %d [%s]", maxreads, strings.Join(cops, ";\n    ")),
		Desc:       desc{Kind: "cache-seq", Seed: seed, Info: map[string]any{"maxreads": maxreads, "ops": ops}},
		Kind:       "cache-seq",
		Nontrivial: hits > 0 && refetch > 0,
		OracleOK:   len(fails) == 0,
		Size:       len(ops),
	}
	if hits > 0 {
		stat("cache-seq:has-hit")
	}
	if refetch > 0 {
		stat("cache-seq:has-refetch")
	}
	if len(fails) > 0 {
		c.OracleMsg = strings.Join(fails, "; ")
	}
	return c
}

// segOracle: what must hold for the segment map after a cached get of key k,
// given the map before: at most 5 entries; no other entry with maxreads reads
// or more survives a lookup; an entry that disappeared although it had reads
// left was not above (by start) any entry that stayed.
func segOracle(i, maxreads int, k ckey, before, after []jrpc2.VerifSegment) []string {
	var fails []string
	if len(after) > 5 {
		fails = append(fails, fmt.Sprintf("op %d: %d segments after a lookup", i, len(after)))
	}
	inAfter := map[ckey]bool{}
	minStart := ^uint64(0)
	for _, s := range after {
		sk := ckey{s.Start, s.Limit}
		inAfter[sk] = true
		if s.Start < minStart {
			minStart = s.Start
		}
		if sk != k && s.Nreads >= maxreads {
			fails = append(fails, fmt.Sprintf("op %d: segment %v kept with %d reads, maxreads %d", i, sk, s.Nreads, maxreads))
		}
	}
	cands := map[ckey]bool{k: true}
	for _, s := range before {
		if s.Nreads < maxreads {
			cands[ckey{s.Start, s.Limit}] = true
		}
	}
	for sk := range inAfter {
		if !cands[sk] {
			fails = append(fails, fmt.Sprintf("op %d: segment %v appeared from nowhere", i, sk))
		}
	}
	if len(cands) <= 5 {
		for sk := range cands {
			if !inAfter[sk] {
				fails = append(fails, fmt.Sprintf("op %d: segment %v dropped although only %d were live", i, sk, len(cands)))
			}
		}
	} else {
		if len(after) != 5 {
			fails = append(fails, fmt.Sprintf("op %d: %d live segments pruned to %d", i, len(cands), len(after)))
		}
		for sk := range cands {
			if !inAfter[sk] && sk.Start > minStart {
				fails = append(fails, fmt.Sprintf("op %d: segment %v dropped while a lower start %d was kept", i, sk, minStart))
			}
		}
	}
	return fails
}
