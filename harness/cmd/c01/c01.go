// Driver of property C01: every block in range is indexed exactly once.
// Growth-only chain histories; the REAL shovel.Task (built by loadTasks,
// real dig integration, COPY into the fake Postgres) is run over all batch x
// concurrency pairs, start points, interleaved growth and transient faults.
package main

import (
	"fmt"

	"verif/harness/lib"
	ts "verif/harness/tasksim"
)

type params struct {
	name                   string
	shape                  string
	addrFlt                bool
	batch, conc            int
	start, stop            uint64
	head                   int
	faults                 int
	seed                   uint64
	growEvery, growBy, lag int
	real                   bool // real jrpc2.Client + HTTP simnode
	sibling                bool // shapes log / appr: a second integration with the twin event on the same source
}

func scenario(p params, r *lib.RNG) *ts.Scenario {
	sc := &ts.Scenario{Name: p.name, Seed: p.seed, Head: p.head, Real: p.real,
		Gen: ts.GenOpts{MaxTxs: 3, MaxLogs: 4, Traces: p.shape == "trace", AlwaysTrace: p.real && p.shape == "trace", Tags: p.shape == "tags", Decoys: true, EmptyProb: 20,
			TopicTwins: p.shape == "logr" || p.shape == "appr" || p.sibling},
		Srcs: []ts.SrcSpec{{Name: "main", ChainID: 1, Batch: p.batch, Conc: p.conc, URL: "http://main.invalid"}},
		IGs: []ts.IGSpec{{Name: "ig1", Shape: p.shape, Table: "t1", AddrFlt: p.addrFlt, Hdr: p.shape == "appr" && (p.sibling || p.seed%2 == 0),
			Sources: []ts.SrcRef{{Name: "main", Start: p.start, Stop: p.stop}}}}}
	finish := func() {}
	if p.sibling {
		// a second integration on the same source (and, in real-client mode, the same
		// jrpc2.Client) whose event has the topic count and data size of the first one's:
		// Transfer next to Approval, both with header plans (shared cached segments)
		twin := map[string]string{"log": "appr", "appr": "log"}[p.shape]
		if p.seed%3 == 0 {
			twin = "tx" // another PLAN (blocks instead of headers + logs) on the same client
		}
		sc.IGs = append(sc.IGs, ts.IGSpec{Name: "ig2", Shape: twin, Table: "t2", AddrFlt: p.addrFlt, Hdr: true,
			Sources: []ts.SrcRef{{Name: "main", Start: p.start, Stop: p.stop}}})
		finish = func() {
			// the sibling takes one step next to every step of the first task, before or after it
			var acts []ts.Act
			for i, a := range sc.Acts {
				if a.Do != "step" {
					acts = append(acts, a)
					continue
				}
				if (i+int(p.seed))%3 == 0 {
					acts = append(acts, ts.Act{Do: "step", Tid: 2}, a)
				} else {
					acts = append(acts, a, ts.Act{Do: "step", Tid: 2})
				}
			}
			sc.Acts = acts
		}
	}
	head := p.head
	relcalls := []string{"latest#0", "hash#0", "get@0#0", "get@1#0", "get@2#0", "latest#1"}
	kinds := []string{"error", "drop", "drop-after"}
	step := func() {
		if p.faults > 0 && r.Intn(2) == 0 {
			p.faults--
			switch {
			case r.Bool():
				sc.Acts = append(sc.Acts, ts.Act{Do: "fault", Tid: 1, At: r.Intn(9), Kind: lib.Pick(r, kinds)})
			case p.real && r.Bool():
				// a lagging backend behind a load balancer: the head query saw the full chain,
				// the data requests reach a node that is 1-3 blocks behind
				sc.Acts = append(sc.Acts, ts.Act{Do: "xlag", K: r.Range(1, 3), Len: r.Range(1, 3)})
			case p.real:
				sc.Acts = append(sc.Acts, ts.Act{Do: "xfail", K: r.Intn(5)})
			default:
				sc.Acts = append(sc.Acts, ts.Act{Do: "rpcfail", Tid: 1, Call: lib.Pick(r, relcalls)})
			}
		}
		sc.Acts = append(sc.Acts, ts.Act{Do: "step", Tid: 1})
	}
	if p.lag > 0 {
		sc.Acts = append(sc.Acts, ts.Act{Do: "lag", K: p.lag})
	}
	for g := 0; g < p.growEvery; g++ { // growEvery = number of growth events
		for k := r.Intn(4); k > 0; k-- {
			step()
		}
		sc.Acts = append(sc.Acts, ts.Act{Do: "grow", K: p.growBy})
		head += p.growBy
	}
	for p.faults > 0 {
		step()
	}
	// the faults stop: enough fault-free steps to reach the head
	sc.Acts = append(sc.Acts, ts.Act{Do: "clear"}, ts.Act{Do: "lag", K: 0})
	sc.Acts = append(sc.Acts, ts.Steps(1, (head+1+p.batch-1)/p.batch+3)...)
	finish()
	return sc
}

func run(cfg lib.Cfg) error {
	out := lib.NewOut("C01", cfg.Out, ts.Header(1), "run", 12)
	out.Rule = "non-trivial = at least two converged steps, at least one row indexed and at least one decoy log in the chain"
	judge := func(sc *ts.Scenario, kind string) {
		ts.Judge(out, sc, kind, func(r *ts.Run) []string {
			// (the per-row statement of "nothing else is present" first: it names the log a stray row came from)
			return append(append(r.ForeignLogOracle(), r.InvOracle()...), r.GrowthOracle(true)...)
		}, func(r *ts.Run) bool {
			return r.CountOutcomes()["OConverged"] >= 2 && r.RowsIndexed() >= 1 && r.SawDecoy()
		})
	}
	if cfg.Replay != "" {
		sc, kind, err := ts.ReplayScenario(cfg.Replay)
		if err != nil {
			return err
		}
		judge(sc, kind)
		return out.Flush()
	}
	r := lib.NewRNG(cfg.Seed)
	// corpus: the batch < concurrency witnesses (defect #1, repaired by fixes/C01-load-partition-size.diff)
	for _, bc := range [][2]int{{1, 4}, {2, 3}, {3, 8}, {1, 2}} {
		p := params{name: fmt.Sprintf("corpus-batch%d-conc%d", bc[0], bc[1]), shape: "log", batch: bc[0], conc: bc[1], start: 1, head: 5, seed: 11}
		judge(scenario(p, r.Fork()), "corpus-batch-lt-conc")
	}
	// corpus: a backend that is behind the one that answered the head query
	// (logs-only plan: the toBlock header request is the only protection)
	for _, lag := range []int{2, 6} {
		p := params{name: fmt.Sprintf("corpus-lagging-backend-%d", lag), shape: "lognh", batch: 4, conc: 1, start: 1, head: 8, seed: 12, real: true}
		sc := scenario(p, r.Fork())
		sc.Acts = append([]ts.Act{{Do: "xlag", K: 2, Len: lag}}, sc.Acts...)
		judge(sc, "corpus-lagging-backend")
	}
	// corpus: trace indexing through the real client.  The block segment a load fetched stays
	// in the client's cache (maxreads = number of integrations): a step retried after a
	// transient database failure, or a second integration on the same source, reads the SAME
	// cached blocks again and trace_block is attached to them a second time.
	for v := 0; v < 4; v++ {
		second := []string{"tx", "trace", "tx", "trace"}[v]
		sc := &ts.Scenario{Name: fmt.Sprintf("corpus-trace-cached-segment-%d", v), Seed: uint64(13 + v), Head: 6, Real: true,
			Gen:  ts.GenOpts{MaxTxs: 2, MaxLogs: 2, Traces: true, AlwaysTrace: true, Decoys: true},
			Srcs: []ts.SrcSpec{{Name: "main", ChainID: 1, Batch: 3, Conc: 1, URL: "http://main.invalid"}},
			IGs: []ts.IGSpec{
				{Name: "ig1", Shape: "trace", Table: "t1", Sources: []ts.SrcRef{{Name: "main", Start: 1}}},
				{Name: "ig2", Shape: second, Table: "t2", Sources: []ts.SrcRef{{Name: "main", Start: 1}}},
			}}
		if v < 2 {
			// the load succeeds, then COPY / the cursor insert / the commit fails; the retry reads the cached segment
			sc.Acts = append(sc.Acts, ts.Act{Do: "fault", Tid: 1, At: []int{4, 6}[v], Kind: "error"}, ts.Act{Do: "step", Tid: 1}, ts.Act{Do: "step", Tid: 1})
		}
		for k := 0; k < 5; k++ {
			sc.Acts = append(sc.Acts, ts.Act{Do: "step", Tid: 1}, ts.Act{Do: "step", Tid: 2})
		}
		judge(sc, "corpus-trace-cached-segment")
	}
	// corpus: two integrations with DIFFERENT events on one source and one real client, both
	// with header plans (shared cached blocks); transactions emit both events; task B's load
	// lands between task A's load and A's insert (statement-level schedule).  Each table must
	// be its declared projection: what B attaches to a shared block must not replace A's logs.
	for v := 0; v < 3; v++ {
		sc := &ts.Scenario{Name: fmt.Sprintf("corpus-two-events-one-transaction-%d", v), Seed: uint64(21 + v), Head: 9, Real: true,
			Gen:  ts.GenOpts{MaxTxs: 2, MaxLogs: 4, Created: true, Decoys: true},
			Srcs: []ts.SrcSpec{{Name: "main", ChainID: 1, Batch: 3, Conc: 1, URL: "http://main.invalid"}},
			IGs: []ts.IGSpec{
				{Name: "ig1", Shape: "log", Table: "t1", Sources: []ts.SrcRef{{Name: "main", Start: 1}}},
				{Name: "ig2", Shape: "created", Table: "t2", Hdr: true, Sources: []ts.SrcRef{{Name: "main", Start: 1}}},
			}}
		for k := 0; k < 4; k++ {
			a, b := 1, 2
			if (k+v)%2 == 1 {
				a, b = 2, 1
			}
			// a has loaded and committed its first transaction; b runs a whole step; a inserts
			sc.Acts = append(sc.Acts, ts.Act{Do: "advuntil", Tid: a, Call: "Commit"}, ts.Act{Do: "step", Tid: b}, ts.Act{Do: "drain"})
		}
		sc.Acts = append(sc.Acts, ts.Act{Do: "step", Tid: 1}, ts.Act{Do: "step", Tid: 2}, ts.Act{Do: "step", Tid: 1}, ts.Act{Do: "step", Tid: 2})
		judge(sc, "corpus-two-events-one-transaction")
	}
	// corpus: two integrations whose events have the SAME topic count and data size (Transfer,
	// Approval) on one source and one real client, both with header plans: the tasks run in
	// lock-step, so whoever reads a cached header segment second gets blocks that already
	// carry the sibling's logs; a step that failed after its load is retried after the sibling
	// has passed.  Every table must hold the rows of ITS event only.
	for v := 0; v < 4; v++ {
		sc := &ts.Scenario{Name: fmt.Sprintf("corpus-same-shaped-events-one-client-%d", v), Seed: uint64(31 + v), Head: 8, Real: true,
			Gen:  ts.GenOpts{MaxTxs: 2, MaxLogs: 4, Decoys: true, TopicTwins: true},
			Srcs: []ts.SrcSpec{{Name: "main", ChainID: 1, Batch: 2 + v%2, Conc: 1, URL: "http://main.invalid"}},
			IGs: []ts.IGSpec{
				{Name: "ig1", Shape: "log", Table: "t1", AddrFlt: v == 3, Sources: []ts.SrcRef{{Name: "main", Start: 1}}},
				{Name: "ig2", Shape: "appr", Table: "t2", Hdr: true, AddrFlt: v == 3, Sources: []ts.SrcRef{{Name: "main", Start: 1}}},
			}}
		a, b := 1, 2
		if v == 1 {
			a, b = 2, 1
		}
		if v == 2 {
			// a's COPY fails after its load; b reads the segment; a's retry
			sc.Acts = append(sc.Acts, ts.Act{Do: "fault", Tid: a, At: 4, Kind: "error"}, ts.Act{Do: "step", Tid: a}, ts.Act{Do: "step", Tid: b})
		}
		for k := 0; k < 6; k++ {
			sc.Acts = append(sc.Acts, ts.Act{Do: "step", Tid: a}, ts.Act{Do: "step", Tid: b})
		}
		judge(sc, "corpus-same-shaped-events-one-client")
	}
	// corpus: two integrations with DIFFERENT plans on one source and one real client: headers +
	// logs (log / created) next to blocks (tx) or blocks + traces (trace), same batches, stepping
	// in both orders and alternating.  The client keeps header segments and block segments in
	// separate caches: whoever asks second for a range must get what ITS plan needs (a
	// blocks-plan task served header-only blocks writes nothing while its position advances).
	for v, c := range []struct {
		first, second string
		order         int // 0: first task steps first, 1: second first, 2: alternating
	}{
		{"log", "tx", 0}, {"log", "tx", 1}, {"log", "tx", 2}, {"created", "tx", 0}, {"log", "trace", 0}, {"log", "trace", 2},
	} {
		sc := &ts.Scenario{Name: fmt.Sprintf("corpus-mixed-plans-one-client-%d-%s-%s", v, c.first, c.second), Seed: uint64(61 + v), Head: 9, Real: true,
			Gen:  ts.GenOpts{MaxTxs: 2, MaxLogs: 3, Created: c.first == "created", Traces: c.second == "trace", AlwaysTrace: c.second == "trace", Decoys: true, EmptyProb: 0},
			Srcs: []ts.SrcSpec{{Name: "main", ChainID: 1, Batch: 3, Conc: 1 + v%2, URL: "http://main.invalid"}},
			IGs: []ts.IGSpec{
				{Name: "ig1", Shape: c.first, Table: "t1", Hdr: true, Sources: []ts.SrcRef{{Name: "main", Start: 1}}},
				{Name: "ig2", Shape: c.second, Table: "t2", Sources: []ts.SrcRef{{Name: "main", Start: 1}}},
			}}
		for k := 0; k < 5; k++ {
			a, b := 1, 2
			if c.order == 1 || (c.order == 2 && k%2 == 1) {
				a, b = 2, 1
			}
			sc.Acts = append(sc.Acts, ts.Act{Do: "step", Tid: a}, ts.Act{Do: "step", Tid: b})
		}
		judge(sc, "corpus-mixed-plans-one-client")
	}
	// corpus: a log integration that declares a receipt field (tx_status): its plan is
	// eth_getBlockReceipts, which hands dig EVERY log of every transaction - Approval logs
	// (same topic count and data size as Transfer), three-topic logs with no data or with
	// four bytes of data, ERC-721 style transfers.  Scripted source, real client, address filter.
	for v := 0; v < 4; v++ {
		p := params{name: fmt.Sprintf("corpus-receipts-plan-log-%d", v), shape: "logr", addrFlt: v == 1, batch: 2 + v, conc: 1 + v%2, start: 1, head: 9, seed: uint64(41 + v), real: v >= 2}
		judge(scenario(p, r.Fork()), "corpus-receipts-plan-log")
	}
	// corpus: TWO active filters - a positive log_addr filter and a filter on event input "to" -
	// under the DEFAULT aggregation (filter_agg omitted = OR; the declaration is stored in
	// shovel.integrations as the dashboard stores it: ValidateFix, which rewrites an omitted
	// filter_agg to "or", only runs on the file), and under explicit "or" / "and" from the
	// file.  Transfers emitted by OTHER contracts to an accepted recipient belong to the
	// table under OR: the address list must not be pushed down to eth_getLogs then.
	// Logs-only and header plans, scripted source and real client.
	for v, c := range []struct {
		shape string
		agg   string
		db    bool
		real  bool
	}{
		{"lognh", "", true, true},
		{"log", "", true, true},
		{"lognh", "", true, false},
		{"log", "or", false, true},
		{"lognh", "and", false, true},
		{"log", "and", true, false},
	} {
		sc := &ts.Scenario{Name: fmt.Sprintf("corpus-two-filters-%d-%s-agg-%s", v, c.shape, map[string]string{"": "omitted", "or": "or", "and": "and"}[c.agg]), Seed: uint64(51 + v), Head: 9, Real: c.real,
			Gen:  ts.GenOpts{MaxTxs: 3, MaxLogs: 5, Decoys: true, EmptyProb: 0, OtherEvery: 2},
			Srcs: []ts.SrcSpec{{Name: "main", ChainID: 1, Batch: 2 + v%3, Conc: 1 + v%2, URL: "http://main.invalid"}},
			IGs: []ts.IGSpec{{Name: "ig1", Shape: c.shape, Table: "t1", AddrFlt: true, OrTo: true, Agg: c.agg,
				Sources: []ts.SrcRef{{Name: "main", Start: 1}}}}}
		if c.db {
			sc.DBRows = []ts.DBRow{{Name: "ig1", Copies: 1, OmitAgg: c.agg == ""}}
		}
		sc.Acts = append(sc.Acts, ts.Steps(1, 3)...)
		sc.Acts = append(sc.Acts, ts.Act{Do: "grow", K: 3})
		sc.Acts = append(sc.Acts, ts.Steps(1, 6)...)
		judge(sc, "corpus-two-filters")
	}
	// corpus: an event with a selected string[] argument whose elements are sometimes empty
	// (the decode buffer of the integration is reused from log to log: an empty element after
	// a non-empty one in the same row slot must come out empty)
	for v := 0; v < 3; v++ {
		p := params{name: fmt.Sprintf("corpus-string-array-%d", v), shape: "tags", batch: 2 + 2*v, conc: 1 + v%2, start: 1, head: 10, seed: uint64(17 + v), real: v == 2}
		judge(scenario(p, r.Fork()), "corpus-string-array")
	}
	shapes := []string{"log", "lognh", "tx", "trace", "tags", "logr", "appr"}
	// every batch x conc pair on one fixed chain (thorough: all 96; quick: a seeded third)
	for b := 1; b <= 12; b++ {
		for c := 1; c <= 8; c++ {
			if !cfg.Thorough() && r.Intn(4) != 0 {
				continue
			}
			p := params{name: fmt.Sprintf("grid-b%d-c%d", b, c), shape: shapes[(b+c)%len(shapes)], batch: b, conc: c, start: 1, head: 14, seed: 5}
			judge(scenario(p, r.Fork()), "grid-batch-conc")
		}
	}
	n := 40
	if cfg.Thorough() {
		n = 1500
	}
	for i := 0; i < n; i++ {
		head := r.Range(1, 16)
		if cfg.Thorough() {
			head = r.Range(1, 60)
		}
		p := params{name: fmt.Sprintf("rand-%d", i), shape: lib.Pick(r, shapes), addrFlt: r.Intn(3) == 0, batch: r.Range(1, 12), conc: r.Range(1, 8),
			head: head, seed: r.U64() % 1_000_000, faults: r.Intn(4), growEvery: r.Intn(4), growBy: r.Range(1, 5), lag: r.Intn(3) * r.Intn(2)}
		switch r.Intn(5) {
		case 0:
			p.start = 0
		case 1:
			p.start = 1
		case 2:
			p.start = uint64(head/2 + 1)
		case 3:
			p.start = uint64(head)
		case 4:
			p.start = uint64(head + 1)
		}
		if r.Intn(5) == 0 {
			p.stop = p.start + uint64(r.Intn(6))
		}
		kind := "random-growth"
		if p.faults > 0 {
			kind = "random-growth-faults"
		}
		judge(scenario(p, r.Fork()), kind)
	}
	// the same through the real jrpc2.Client (head / header / block caches) and the HTTP node
	nr := 14
	if cfg.Thorough() {
		nr = 300
	}
	for i := 0; i < nr; i++ {
		head := r.Range(2, 14)
		p := params{name: fmt.Sprintf("real-%d", i), shape: lib.Pick(r, []string{"log", "lognh", "tx", "trace", "logr", "appr", "log"}), addrFlt: r.Intn(3) == 0,
			batch: r.Range(1, 8), conc: r.Range(1, 4), head: head, seed: r.U64() % 1_000_000, faults: r.Intn(3),
			growEvery: r.Intn(3), growBy: r.Range(1, 4), real: true}
		p.start = uint64(lib.Pick(r, []int{0, 1, head/2 + 1, head}))
		if p.faults > 0 {
			// "the k-th HTTP exchange of the step" is only well defined when the
			// partitions of a load are not fetched concurrently
			p.conc = 1
		}
		kind := "real-client-growth"
		if (p.shape == "log" || p.shape == "appr") && r.Bool() {
			p.sibling = true
			kind = "real-client-growth-same-shaped-events"
		}
		judge(scenario(p, r.Fork()), kind)
	}
	out.Notes["tiers"] = "quick: corpus + ~24 batch x conc pairs + 40 random histories; thorough: all 96 pairs + 1500 histories"
	return out.Flush()
}
