// c08: correspondence driver of property C08 (source-side caches are
// transparent: same data, bounded reuse, no cached errors, announced heads).
//
// This program only orchestrates.  The streams live in cmd/c08w, which is
// built here twice: with -tags verif (streams that need the verification hook
// jrpc2/verif_export_cache.go) and without the tag (end-to-end streams on
// exported API only).  An edit of the implementation that breaks the hook
// file (say, renames a field the hook reads) therefore still meets the
// end-to-end streams and their oracles; the broken hook itself is reported as
// a case that cannot correspond (CBroken).
//
// Streams (every random choice derives from lib.NewRNG(seed); each case has
// its own forked generator so that a case can be replayed alone):
//
//	cache-seq    sequential cache.get with a scripted getter            hook   model-diff + oracle
//	head-seq     NumHash update/error/get sequences                     hook   model-diff + oracle
//	latest-seq   Client.Latest, poller simulated through the hooks      hook   model-diff + oracle
//	poller       Client.Latest with the real httpPoll (gated server)    hook   model-diff + oracle
//	ws           Client.Latest with the real wsListen (scripted socket) hook   model-diff + oracle
//	cache-conc   real goroutines on one cache                           hook   oracle (+ model-side re-check)
//	attach       Block.Tx / Logs.Add / receipt / trace attachment       -      model-diff + oracle
//	get-seq      Client.Get, caching client vs nocache client vs chain  -      model-diff + oracle
//	get-conc     real goroutines on one caching client                  -      oracle (+ model-side re-check)
//	stress-rl    receipts plan racing a logs plan on one cached block   -      oracle
//	stress-tr    reader of a trace plan while another trace plan attaches -    oracle
package main

import (
	"crypto/sha1"
	"encoding/hex"
	"encoding/json"
	"fmt"
	"os"
	"os/exec"
	"path/filepath"
	"strings"

	"verif/harness/lib"
)

const header = `From Shovel Require Import Base.Outcome Model.Cache Model.HeadCache Model.LogAttach Model.CGet Corr.RunC08.
From Coq Require Import List NArith. Import ListNotations. Open Scope N_scope.`

type desc struct {
	Kind string `json:"kind"`
	Seed uint64 `json:"seed"`
	Info any    `json:"info,omitempty"`
}

type wcase struct {
	Coq  string   `json:"coq"`
	Case lib.Case `json:"case"`
}

type wout struct {
	Cases []wcase        `json:"cases"`
	Stats map[string]int `json:"stats"`
}

func main() { lib.Main(run) }

func harnessDir() string {
	exe, err := os.Executable()
	if err == nil {
		if d := filepath.Dir(filepath.Dir(exe)); fileExists(filepath.Join(d, "go.mod")) {
			return d
		}
	}
	return "/verif/harness"
}

func fileExists(p string) bool { _, err := os.Stat(p); return err == nil }

// the same alternate go.mod bin/check uses for a scratch copy of the repository
func modfileArgs(harness string) []string {
	repo := os.Getenv("VERIF_REPO")
	if repo == "" {
		return nil
	}
	if rp, err := filepath.EvalSymlinks(repo); err == nil && rp == "/repo" {
		return nil
	}
	h := sha1.Sum([]byte(repo))
	alt := filepath.Join(filepath.Dir(harness), "work", "alt_"+hex.EncodeToString(h[:])[:10]+".mod")
	if fileExists(alt) {
		return []string{"-modfile=" + alt}
	}
	return nil
}

func build(harness, out string, tags bool) (string, error) {
	args := append([]string{"build"}, modfileArgs(harness)...)
	if tags {
		args = append(args, "-tags", "verif")
	}
	args = append(args, "-o", out, "./cmd/c08w")
	cmd := exec.Command("go", args...)
	cmd.Dir = harness
	cmd.Env = append(os.Environ(), "GOFLAGS=-mod=mod", "GOPROXY=off", "GOSUMDB=off", "GOTOOLCHAIN=local")
	b, err := cmd.CombinedOutput()
	return string(b), err
}

func runWorker(bin string, cfg lib.Cfg, which string, rep *desc) (wout, error) {
	var res wout
	outf := bin + ".json"
	defer os.Remove(outf)
	args := []string{"-tier", cfg.Tier, "-seed", fmt.Sprint(cfg.Seed), "-o", outf, "-streams", which}
	if rep != nil {
		args = append(args, "-replay-kind", rep.Kind, "-replay-seed", fmt.Sprint(rep.Seed))
	}
	cmd := exec.Command(bin, args...)
	cmd.Stderr = os.Stderr
	if err := cmd.Run(); err != nil {
		return res, fmt.Errorf("%s: %w", filepath.Base(bin), err)
	}
	b, err := os.ReadFile(outf)
	if err != nil {
		return res, err
	}
	return res, json.Unmarshal(b, &res)
}

func run(cfg lib.Cfg) error {
	out := lib.NewOut("C08", cfg.Out, header, "run", 100)
	out.Rule = "cache-seq: at least one hit and one re-fetch (expiry, eviction or failed fetch); " +
		"head-seq/latest-seq/poller/ws: at least one hit and one miss after the first announcement; " +
		"attach: an index attached more than once; get-seq/get-conc: two calls with different filter or plan on one cached range; " +
		"cache-conc: a segment served more than one goroutine"
	harness := harnessDir()
	work := filepath.Join(filepath.Dir(harness), "work")
	os.MkdirAll(work, 0o755)
	binHook := filepath.Join(work, fmt.Sprintf("c08w-hook-%d", os.Getpid()))
	binE2E := filepath.Join(work, fmt.Sprintf("c08w-e2e-%d", os.Getpid()))
	defer os.Remove(binHook)
	defer os.Remove(binE2E)

	var rep *desc
	if cfg.Replay != "" {
		d, err := readReplay(cfg.Replay)
		if err != nil {
			return err
		}
		rep = &d
		out.Notes["replay"] = d
	}

	// the worker without the hook must build: it uses exported API only
	if msg, err := build(harness, binE2E, false); err != nil {
		return fmt.Errorf("building cmd/c08w without the hook: %v\n%s", err, msg)
	}
	hookMsg, hookErr := build(harness, binHook, true)

	var parts []wout
	if hookErr == nil {
		w, err := runWorker(binHook, cfg, "all", rep)
		if err != nil {
			return err
		}
		parts = append(parts, w)
	} else {
		w, err := runWorker(binE2E, cfg, "nohook", rep)
		if err != nil {
			return err
		}
		parts = append(parts, w)
		msg := strings.TrimSpace(hookMsg)
		if len(msg) > 600 {
			msg = msg[:600]
		}
		out.Notes["hook_build_failed"] = msg
		out.Add(lib.Case{
			Coq: "CBroken",
			Desc: desc{Kind: "hook-build", Info: map[string]any{
				"what":  "jrpc2/verif_export_cache.go no longer builds against the implementation: the streams that need it (cache-seq, head-seq, latest-seq, poller, ws, cache-conc) did not run",
				"error": msg}},
			Kind: "hook-build", OracleOK: true, Size: 1 << 20,
		})
	}
	for _, p := range parts {
		for _, c := range p.Cases {
			cc := c.Case
			cc.Coq = c.Coq
			out.Add(cc)
		}
		for k, v := range p.Stats {
			out.Dist["stat:"+k] += v
		}
	}
	return out.Flush()
}

func readReplay(path string) (desc, error) {
	var rep struct {
		FailingInput *struct {
			Desc desc `json:"desc"`
		} `json:"failing_input"`
		Desc *desc `json:"desc"`
	}
	b, err := os.ReadFile(path)
	if err != nil {
		return desc{}, err
	}
	if err := json.Unmarshal(b, &rep); err != nil {
		return desc{}, err
	}
	switch {
	case rep.FailingInput != nil:
		return rep.FailingInput.Desc, nil
	case rep.Desc != nil:
		return *rep.Desc, nil
	}
	return desc{}, fmt.Errorf("replay file %s names no case", path)
}
