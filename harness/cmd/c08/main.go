// c08: correspondence driver of property C08 (source-side caches are
// transparent: same data, bounded reuse, no cached errors, announced heads).
//
// Streams (every random choice derives from lib.NewRNG(seed); each case has
// its own forked generator so that a case can be replayed alone):
//
//	cache-seq    sequential cache.get with a scripted getter            model-diff + oracle
//	head-seq     NumHash update/error/get sequences                     model-diff + oracle
//	attach       Block.Tx / Logs.Add / receipt overwrite on one block   model-diff + oracle
//	get-seq      Client.Get, caching client vs nocache client vs chain  model-diff + oracle
//	latest-seq   Client.Latest, poller simulated through the hooks      model-diff + oracle
//	poller       Client.Latest with the real httpPoll (gated server)    model-diff + oracle
//	ws           Client.Latest with the real wsListen (scripted socket) model-diff + oracle
//	cache-conc   real goroutines on one cache                           oracle (+ model-side re-check)
//	get-conc     real goroutines on one caching client                  oracle (+ model-side re-check)
//	stress-rl    receipts plan racing a logs plan on one cached block   oracle
//	stress-tr    reader of a trace plan while another trace plan attaches  oracle
package main

import (
	"encoding/json"
	"fmt"
	"io"
	"log/slog"
	"os"

	"verif/harness/lib"
)

const header = `From Shovel Require Import Base.Outcome Model.Cache Model.HeadCache Model.LogAttach Model.CGet Corr.RunC08.
From Coq Require Import List NArith. Import ListNotations. Open Scope N_scope.`

type desc struct {
	Kind string `json:"kind"`
	Seed uint64 `json:"seed"` // seed of this case's own generator
	Info any    `json:"info,omitempty"`
}

type stream struct {
	kind  string
	quick int
	thor  int
	gen   func(seed uint64) lib.Case
}

func main() { lib.Main(run) }

func run(cfg lib.Cfg) error {
	slog.SetDefault(slog.New(slog.NewTextHandler(io.Discard, nil)))
	out := lib.NewOut("C08", cfg.Out, header, "run", 100)
	out.Rule = "cache-seq: at least one hit and one re-fetch (expiry, eviction or failed fetch); " +
		"head-seq/latest-seq/poller/ws: at least one hit and one miss after the first announcement; " +
		"attach: an index attached more than once; get-seq/get-conc: two calls with different filter or plan on one cached range; " +
		"cache-conc: a segment served more than one goroutine"
	streams := []stream{
		{"cache-seq", 400, 6000, genCacheSeq},
		{"head-seq", 250, 5000, genHeadSeq},
		{"attach", 150, 3000, genAttach},
		{"get-seq", 140, 2500, genGetSeq},
		{"latest-seq", 100, 2000, genLatestSeq},
		{"poller", 12, 150, genPoller},
		{"ws", 10, 120, genWS},
		{"cache-conc", 40, 600, genCacheConc},
		{"get-conc", 30, 400, genGetConc},
		{"stress-rl", 1, 4, genStressRL},
		{"stress-tr", 1, 3, genStressTR},
	}

	if cfg.Replay != "" {
		d, err := readReplay(cfg.Replay)
		if err != nil {
			return err
		}
		for _, s := range streams {
			if s.kind == d.Kind {
				out.Add(s.gen(d.Seed))
			}
		}
		out.Notes["replay"] = d
		return out.Flush()
	}

	root := lib.NewRNG(cfg.Seed)
	for _, s := range streams {
		n := s.quick
		if cfg.Thorough() {
			n = s.thor
		}
		sub := root.Fork()
		for i := 0; i < n; i++ {
			out.Add(s.gen(sub.U64()))
		}
	}
	out.Notes["streams"] = "see harness/cmd/c08/main.go"
	for k, v := range stats {
		out.Dist["stat:"+k] = v
	}
	return out.Flush()
}

// global distribution counters (branch classes reached)
var stats = map[string]int{}

func stat(k string) { stats[k]++ }

func readReplay(path string) (desc, error) {
	var rep struct {
		FailingInput *struct {
			Desc desc `json:"desc"`
		} `json:"failing_input"`
		Desc *desc `json:"desc"`
	}
	b, err := os.ReadFile(path)
	if err != nil {
		return desc{}, err
	}
	if err := json.Unmarshal(b, &rep); err != nil {
		return desc{}, err
	}
	switch {
	case rep.FailingInput != nil:
		return rep.FailingInput.Desc, nil
	case rep.Desc != nil:
		return *rep.Desc, nil
	}
	return desc{}, fmt.Errorf("replay file %s names no case", path)
}

func b2c(b bool) string { return lib.CBool(b) }
