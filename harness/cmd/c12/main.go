// c12: correspondence driver of property C12 (filters keep exactly the rows
// they select; server-side pre-filtering loses none).
package main

import (
	"strings"

	"verif/harness/lib"
	"verif/harness/rows"
)

func main() { lib.Main(run) }

const header = rows.Header + "\nFrom Shovel Require Import Corr.RunC12."

func run(cfg lib.Cfg) error {
	out := lib.NewOut("C12", cfg.Out, header, "run", 40)
	out.Rule = rows.Rule
	if cfg.Replay != "" {
		c, err := rows.LoadReplay(cfg.Replay)
		if err != nil {
			return err
		}
		for _, k := range rows.RunCase(c) {
			out.Add(k)
		}
		return out.Flush()
	}
	for _, c := range rows.Corpus12() {
		for _, k := range rows.RunCase(c) {
			out.Add(k)
		}
	}
	// lib.NewRNG(seed) streams of neighbouring seeds are shifts of one another (they
	// re-synchronise after a few cases); Fork() starts from a hashed state instead
	r := lib.NewRNG(cfg.Seed).Fork()
	n := 255
	if cfg.Thorough() {
		n = 4000
	}
	opts := rows.GenOpts{Filters: true, LogAddrP: 55, OddP: 8, RefMixP: 14, RowMixP: 16}
	for i := 0; i < n; i++ {
		c := rows.GenCase(r, opts, i)
		if c.Decl.Mode() == "log" && r.Chance(1, 2) {
			c.Path = "pushdown"
		}
		if strings.Contains(c.Kind, "-refmix") {
			c.Path = "pushdown"
		}
		if rows.Validatable(c) && !strings.Contains(c.Kind, "-odd") && r.Chance(1, 3) {
			// built the way the program builds it: through config.ValidateFix
			rows.WithRequired(&c.Decl)
			c.Decl.Agg = strings.ToLower(c.Decl.Agg) // the configuration accepts "", "and", "or" only
			c.Validated = true
			c.Kind += "+validated"
		}
		for _, k := range rows.RunCase(c) {
			out.Add(k)
		}
	}
	sh, snotes, err := rows.SharedCases(r.Fork(), 4, true)
	if err != nil {
		return err
	}
	for _, k := range sh {
		out.Add(k)
	}
	for k, v := range snotes {
		out.Notes[k] = v
	}
	rows.DistNotes(out)
	// quick: one shard per core of the 16; thorough: 60 cases per shard
	out.PerShard = 60
	if !cfg.Thorough() {
		out.PerShard = (len(out.Cases) + 15) / 16
		if out.PerShard < 20 {
			out.PerShard = 20
		}
	}
	return out.Flush()
}
