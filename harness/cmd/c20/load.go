package main

import (
	"context"
	"encoding/json"
	"fmt"
	"sort"
	"strings"
	"time"

	"github.com/indexsupply/shovel/shovel"
	"github.com/indexsupply/shovel/shovel/config"
	"github.com/indexsupply/shovel/wpg"
	"github.com/jackc/pgx/v5/pgxpool"
	"verif/harness/fakepg"
	"verif/harness/lib"
)

// ---------------------------------------------------------------- part (i): loadTasks

type srcSpec struct {
	Name    string `json:"name"`
	Chain   uint64 `json:"chain"`
	PollNS  int64  `json:"poll_ns"`
	Conc    int    `json:"conc"`
	Batch   int    `json:"batch"`
	FromDB  bool   `json:"from_db"`
	URL     string `json:"url"`
	rowsSeq int
}

type refSpec struct {
	Name  string `json:"name"`
	Start uint64 `json:"start"`
	Stop  uint64 `json:"stop"`
}

type igSpec struct {
	Name    string    `json:"name"`
	Enabled bool      `json:"enabled"`
	Refs    []refSpec `json:"refs"`
}

type loadSpec struct {
	FileSrcs []srcSpec `json:"file_srcs"`
	DBSrcs   []srcSpec `json:"db_srcs"`
	FileIgs  []igSpec  `json:"file_igs"`
	DBIgs    []igSpec  `json:"db_igs"`
}

type taskObs struct {
	Src, Ig, URL       string
	Chain, Start, Stop uint64
	PollNS             int64
	Batch, Conc        int
}

// a complete, valid integration declaration (dig.New accepts it); name,
// enabled and sources are filled in
const igTemplate = `{
 "name": %s, "enabled": %v, "sources": %s,
 "table": {"name": %s, "columns": [{"name": "log_addr", "type": "bytea"}, {"name": "f", "type": "bytea"}]},
 "block": [{"name": "log_addr", "column": "log_addr"}],
 "event": {"name": "Transfer", "type": "event", "anonymous": false,
           "inputs": [{"indexed": true, "name": "f", "type": "address", "column": "f"}]}
}`

func igJSON(ig igSpec) string {
	type ref struct {
		Name  string `json:"name"`
		Start uint64 `json:"start"`
		Stop  uint64 `json:"stop"`
	}
	refs := []ref{}
	for _, r := range ig.Refs {
		refs = append(refs, ref{r.Name, r.Start, r.Stop})
	}
	rj, _ := json.Marshal(refs)
	nj, _ := json.Marshal(ig.Name)
	tj, _ := json.Marshal("t_" + ig.Name)
	return fmt.Sprintf(igTemplate, nj, ig.Enabled, rj, tj)
}

func igConfig(ig igSpec) (config.Integration, error) {
	var c config.Integration
	err := json.Unmarshal([]byte(igJSON(ig)), &c)
	return c, err
}

func rootOf(ls loadSpec) (config.Root, error) {
	var root config.Root
	for _, s := range ls.FileSrcs {
		root.Sources = append(root.Sources, config.Source{Name: s.Name, ChainID: s.Chain, URLs: []string{s.URL},
			PollDuration: time.Duration(s.PollNS), Concurrency: s.Conc, BatchSize: s.Batch})
	}
	for _, ig := range ls.FileIgs {
		c, err := igConfig(ig)
		if err != nil {
			return root, err
		}
		root.Integrations = append(root.Integrations, c)
	}
	return root, nil
}

type loadEnv struct {
	srv  *fakepg.Server
	pool *pgxpool.Pool
}

func newLoadEnv() (*loadEnv, error) {
	srv, err := fakepg.Start()
	if err != nil {
		return nil, err
	}
	if _, err := srv.Exec(shovel.Schema); err != nil {
		srv.Close()
		return nil, fmt.Errorf("schema: %w", err)
	}
	pool, err := wpg.NewPool(context.Background(), srv.URL())
	if err != nil {
		srv.Close()
		return nil, err
	}
	return &loadEnv{srv, pool}, nil
}

func (e *loadEnv) close() { e.pool.Close(); e.srv.Close() }

func storeDB(srv *fakepg.Server, ls loadSpec) error {
	if _, err := srv.Exec(`delete from shovel.sources`); err != nil {
		return err
	}
	if _, err := srv.Exec(`delete from shovel.integrations`); err != nil {
		return err
	}
	for _, s := range ls.DBSrcs {
		if _, err := srv.Exec(`insert into shovel.sources(chain_id, name, url) values ($1,$2,$3)`, s.Chain, s.Name, s.URL); err != nil {
			return fmt.Errorf("insert source: %w", err)
		}
	}
	for _, ig := range ls.DBIgs {
		if _, err := srv.Exec(`insert into shovel.integrations(name, conf) values ($1,$2)`, ig.Name, igJSON(ig)); err != nil {
			return fmt.Errorf("insert integration: %w", err)
		}
	}
	return nil
}

// runLoad gives the configuration to the real loadTasks
func runLoad(e *loadEnv, ls loadSpec) (kind string, tasks []taskObs, msg string, err error) {
	if err := storeDB(e.srv, ls); err != nil {
		return "", nil, "", err
	}
	root, err := rootOf(ls)
	if err != nil {
		return "", nil, "", err
	}
	var res []shovel.VerifTask
	var lerr error
	panicked, pmsg := lib.Catch(func() { res, lerr = shovel.VerifLoadTasks(context.Background(), e.pool, root) })
	switch {
	case panicked:
		return "panic", nil, pmsg, nil
	case lerr != nil:
		return "err", nil, lerr.Error(), nil
	}
	for _, t := range res {
		tasks = append(tasks, taskObs{t.SrcName, t.IGName, t.URL, t.ChainID, t.Start, t.Stop, int64(t.PollDuration), t.BatchSize, t.Concurrency})
	}
	sort.Slice(tasks, func(i, j int) bool {
		a, b := tasks[i], tasks[j]
		if a.Ig != b.Ig {
			return a.Ig < b.Ig
		}
		if a.Src != b.Src {
			return a.Src < b.Src
		}
		return a.Start < b.Start
	})
	return "ok", tasks, "", nil
}

// the direct oracle: the property text, written with Go maps (independent of
// the Coq model): merged configuration with the file winning, disabled
// skipped, unknown/duplicate reference = error, the source's settings (NewTask
// defaults 1) and the reference's range
func expectLoad(ls loadSpec) (kind string, tasks []taskObs) {
	srcs := map[string]srcSpec{}
	for _, s := range ls.DBSrcs {
		srcs[s.Name] = s
	}
	for _, s := range ls.FileSrcs {
		srcs[s.Name] = s
	}
	igs := map[string]igSpec{}
	for _, ig := range ls.DBIgs {
		igs[ig.Name] = ig
	}
	for _, ig := range ls.FileIgs {
		igs[ig.Name] = ig
	}
	names := []string{}
	for n := range igs {
		names = append(names, n)
	}
	sort.Strings(names)
	for _, n := range names {
		ig := igs[n]
		if !ig.Enabled {
			continue
		}
		seen := map[string]bool{}
		for _, r := range ig.Refs {
			s, ok := srcs[r.Name]
			if !ok || seen[r.Name] {
				return "err", nil
			}
			seen[r.Name] = true
			b, c := s.Batch, s.Conc
			if b <= 0 {
				b = 1
			}
			if c <= 0 {
				c = 1
			}
			tasks = append(tasks, taskObs{s.Name, ig.Name, s.URL, s.Chain, r.Start, r.Stop, s.PollNS, b, c})
		}
	}
	sort.Slice(tasks, func(i, j int) bool {
		a, b := tasks[i], tasks[j]
		if a.Ig != b.Ig {
			return a.Ig < b.Ig
		}
		if a.Src != b.Src {
			return a.Src < b.Src
		}
		return a.Start < b.Start
	})
	return "ok", tasks
}

func coqSrc(s srcSpec) string {
	return fmt.Sprintf("(mks %s %s %d %d %d %d)", lib.CStr(s.Name), lib.CStr(s.URL), s.Chain, s.PollNS, s.Conc, s.Batch)
}
func coqIg(ig igSpec) string {
	var rs []string
	for _, r := range ig.Refs {
		rs = append(rs, fmt.Sprintf("(mkr %s %d %d)", lib.CStr(r.Name), r.Start, r.Stop))
	}
	return fmt.Sprintf("(mki %s %s %s)", lib.CStr(ig.Name), lib.CBool(ig.Enabled), lib.CList(rs))
}
func coqList[T any](xs []T, f func(T) string) string {
	var ss []string
	for _, x := range xs {
		ss = append(ss, f(x))
	}
	return lib.CList(ss)
}
func coqTask(t taskObs) string {
	return fmt.Sprintf("(mkt %s %s %s %d %d %d %d %d %d)", lib.CStr(t.Src), lib.CStr(t.Ig), lib.CStr(t.URL), t.Chain, t.Start, t.Stop, t.PollNS, t.Batch, t.Conc)
}

func loadCase(e *loadEnv, ls loadSpec, kind string) (lib.Case, error) {
	okind, tasks, msg, err := runLoad(e, ls)
	if err != nil {
		return lib.Case{}, err
	}
	res := lib.CErr
	switch okind {
	case "ok":
		res = lib.COk(coqList(tasks, coqTask))
	case "panic":
		res = lib.CPanic
	}
	coq := fmt.Sprintf("CLoad %s %s %s %s %s", coqList(ls.FileSrcs, coqSrc), coqList(ls.DBSrcs, coqSrc),
		coqList(ls.FileIgs, coqIg), coqList(ls.DBIgs, coqIg), res)
	ek, et := expectLoad(ls)
	oracle := ""
	switch {
	case okind == "panic":
		oracle = "loadTasks panicked: " + msg
	case ek == "err" && okind == "ok":
		oracle = "an unknown or repeated source reference did not fail the load (a task is silently missing or a pair has two runners)"
	case ek == "ok" && okind == "err":
		oracle = "a valid configuration failed to load: " + msg
	case ek == "ok" && wrongClient(ls, tasks) != "":
		oracle = wrongClient(ls, tasks)
	case ek == "ok" && fmt.Sprint(et) != fmt.Sprint(tasks):
		oracle = fmt.Sprintf("task list differs from the configured one: got %v want %v", tasks, et)
	}
	nontrivial := len(ls.FileIgs)+len(ls.DBIgs) >= 2 || (len(ls.FileIgs)+len(ls.DBIgs) >= 1 && len(ls.FileSrcs)+len(ls.DBSrcs) >= 2)
	if len(oracle) > 600 {
		oracle = oracle[:600]
	}
	return lib.Case{Coq: coq, Desc: map[string]any{"load": ls, "impl": okind, "impl_msg": msg, "impl_tasks": tasks},
		Kind: kind, Nontrivial: nontrivial, OracleOK: oracle == "", OracleMsg: oracle,
		Size: len(ls.FileIgs) + len(ls.DBIgs) + len(ls.FileSrcs) + len(ls.DBSrcs)}, nil
}

var srcPool = []string{"a", "b", "c", "d"}
var igPool = []string{"i1", "i2", "i3", "i4", "i5"}

func genLoad(r *lib.RNG, malformed bool) (ls loadSpec) {
	// half of the mixes: several sources on ONE chain (two providers for one network, a file
	// source plus a dashboard-added one): chain ids from a pool of two
	shared := r.Chance(1, 2)
	defer func() {
		if !shared {
			return
		}
		for i := range ls.FileSrcs {
			ls.FileSrcs[i].Chain = uint64(1 + (i+len(ls.DBSrcs))%2)
		}
		for i := range ls.DBSrcs {
			ls.DBSrcs[i].Chain = uint64(1 + i%2)
		}
	}()
	for i, n := range srcPool {
		if r.Chance(3, 5) {
			ls.FileSrcs = append(ls.FileSrcs, srcSpec{Name: n, Chain: uint64(100 + i), PollNS: int64(r.Intn(4)) * 1000000,
				Conc: r.Intn(4), Batch: r.Intn(5), URL: "http://file-" + n})
		}
		if r.Chance(2, 5) {
			ls.DBSrcs = append(ls.DBSrcs, srcSpec{Name: n, Chain: uint64(200 + i), FromDB: true, URL: "http://db-" + n})
		}
	}
	if malformed && r.Chance(1, 3) && len(ls.FileSrcs) > 0 {
		// the same name twice in the file: the later entry wins
		d := ls.FileSrcs[r.Intn(len(ls.FileSrcs))]
		d.Chain += 50
		d.Batch = 7
		ls.FileSrcs = append(ls.FileSrcs, d)
	}
	defined := map[string]bool{}
	for _, s := range ls.FileSrcs {
		defined[s.Name] = true
	}
	for _, s := range ls.DBSrcs {
		defined[s.Name] = true
	}
	var known []string
	for _, n := range srcPool {
		if defined[n] {
			known = append(known, n)
		}
	}
	mkIg := func(name string) igSpec {
		ig := igSpec{Name: name, Enabled: r.Chance(3, 4)}
		avail := append([]string{}, known...)
		n := r.Intn(4)
		for k := 0; k < n && len(avail) > 0; k++ {
			j := r.Intn(len(avail))
			ig.Refs = append(ig.Refs, refSpec{Name: avail[j], Start: uint64(r.Intn(3) * r.Intn(1000)), Stop: uint64(r.Intn(2) * r.Intn(5000))})
			avail = append(avail[:j], avail[j+1:]...)
		}
		if malformed {
			switch r.Intn(4) {
			case 0: // reference to a source nobody defines
				ig.Refs = append(ig.Refs, refSpec{Name: "zz"})
			case 1: // the same source twice, different ranges
				if len(ig.Refs) > 0 {
					d := ig.Refs[r.Intn(len(ig.Refs))]
					d.Start += 1000
					ig.Refs = append(ig.Refs, d)
				}
			case 2: // reference to a source defined only with another spelling
				ig.Refs = append(ig.Refs, refSpec{Name: strings.ToUpper(lib.Pick(r, srcPool))})
			}
		}
		return ig
	}
	for _, n := range igPool {
		if r.Chance(2, 5) {
			ls.FileIgs = append(ls.FileIgs, mkIg(n))
		}
		if r.Chance(2, 5) {
			ls.DBIgs = append(ls.DBIgs, mkIg(n))
		}
	}
	if shared && len(known) >= 2 {
		// one enabled integration that references EVERY defined source: if the clients were
		// built per chain instead of per source, at least one of its tasks holds the wrong one
		all := igSpec{Name: "iall", Enabled: true}
		for _, n := range known {
			all.Refs = append(all.Refs, refSpec{Name: n, Start: uint64(r.Intn(50))})
		}
		if r.Chance(1, 2) {
			ls.FileIgs = append(ls.FileIgs, all)
		} else {
			ls.DBIgs = append(ls.DBIgs, all)
		}
	}
	if malformed && r.Chance(1, 3) && len(ls.DBIgs) > 0 {
		// two database rows with one name: the later row wins
		ls.DBIgs = append(ls.DBIgs, mkIg(ls.DBIgs[r.Intn(len(ls.DBIgs))].Name))
	}
	if malformed && r.Chance(1, 3) && len(ls.FileIgs) > 0 {
		ls.FileIgs = append(ls.FileIgs, mkIg(ls.FileIgs[r.Intn(len(ls.FileIgs))].Name))
	}
	return ls
}

// hand-written corner cases that always run first
func loadCorpus() []loadSpec {
	fa := srcSpec{Name: "a", Chain: 100, PollNS: 2000000, Conc: 2, Batch: 8, URL: "http://file-a"}
	da := srcSpec{Name: "a", Chain: 200, FromDB: true, URL: "http://db-a"}
	db := srcSpec{Name: "b", Chain: 201, FromDB: true, URL: "http://db-b"}
	ra, rb := refSpec{Name: "a", Start: 10, Stop: 20}, refSpec{Name: "b", Start: 0, Stop: 0}
	return []loadSpec{
		{},
		{FileSrcs: []srcSpec{fa}, FileIgs: []igSpec{{Name: "i1", Enabled: true, Refs: []refSpec{ra}}}},
		// name clash of sources and of integrations: the file wins both times
		{FileSrcs: []srcSpec{fa}, DBSrcs: []srcSpec{da, db},
			FileIgs: []igSpec{{Name: "i1", Enabled: true, Refs: []refSpec{ra, rb}}},
			DBIgs:   []igSpec{{Name: "i1", Enabled: true, Refs: []refSpec{rb}}, {Name: "i2", Enabled: true, Refs: []refSpec{ra}}}},
		// the file disables what the database enables
		{DBSrcs: []srcSpec{da}, FileIgs: []igSpec{{Name: "i1", Enabled: false, Refs: []refSpec{ra}}},
			DBIgs: []igSpec{{Name: "i1", Enabled: true, Refs: []refSpec{ra}}}},
		// unknown source: error; the same in a disabled integration: no error
		{FileSrcs: []srcSpec{fa}, FileIgs: []igSpec{{Name: "i1", Enabled: true, Refs: []refSpec{ra, {Name: "zz"}}}}},
		{FileSrcs: []srcSpec{fa}, FileIgs: []igSpec{{Name: "i1", Enabled: true, Refs: []refSpec{ra}}, {Name: "i2", Enabled: false, Refs: []refSpec{{Name: "zz"}}}}},
		// one source referenced twice by one integration (witness of legacy_one_runner_per_pair_refuted)
		{FileSrcs: []srcSpec{fa}, FileIgs: []igSpec{{Name: "i1", Enabled: true, Refs: []refSpec{{Name: "a"}, {Name: "a", Start: 100}}}}},
		// an enabled integration without sources: no task, no error
		{FileSrcs: []srcSpec{fa}, FileIgs: []igSpec{{Name: "i1", Enabled: true}}},
		// several sources on one chain id, every one referenced: each task must hold the client
		// built for ITS source (URL), file+file, file+database, database+database; control: distinct ids
		{FileSrcs: []srcSpec{{Name: "a", Chain: 1, PollNS: 1000000, URL: "http://file-a"}, {Name: "b", Chain: 1, PollNS: 2000000, URL: "http://file-b"}, {Name: "c", Chain: 1, PollNS: 3000000, URL: "http://file-c"}},
			FileIgs: []igSpec{{Name: "i1", Enabled: true, Refs: []refSpec{{Name: "a"}, {Name: "b"}, {Name: "c"}}}}},
		{FileSrcs: []srcSpec{{Name: "a", Chain: 1, PollNS: 1000000, URL: "http://file-a"}}, DBSrcs: []srcSpec{{Name: "b", Chain: 1, FromDB: true, URL: "http://db-b"}},
			FileIgs: []igSpec{{Name: "i1", Enabled: true, Refs: []refSpec{{Name: "a"}, {Name: "b"}}}}, DBIgs: []igSpec{{Name: "i2", Enabled: true, Refs: []refSpec{{Name: "b"}, {Name: "a"}}}}},
		{DBSrcs: []srcSpec{{Name: "a", Chain: 5, FromDB: true, URL: "http://db-a"}, {Name: "b", Chain: 5, FromDB: true, URL: "http://db-b"}},
			DBIgs: []igSpec{{Name: "i1", Enabled: true, Refs: []refSpec{{Name: "a"}}}, {Name: "i2", Enabled: true, Refs: []refSpec{{Name: "b"}}}}},
		{FileSrcs: []srcSpec{{Name: "a", Chain: 1, URL: "http://file-a"}, {Name: "b", Chain: 2, URL: "http://file-b"}},
			FileIgs: []igSpec{{Name: "i1", Enabled: true, Refs: []refSpec{{Name: "a"}, {Name: "b"}}}}},
		// database only
		{DBSrcs: []srcSpec{da, db}, DBIgs: []igSpec{{Name: "i1", Enabled: true, Refs: []refSpec{ra, rb}}, {Name: "i2", Enabled: true, Refs: []refSpec{rb}}}},
	}
}

// wrongClient: every loaded task must hold the client that was built for ITS
// source -- the URL its client hands out is the URL of the source definition
// its src_name resolves to (file entry over database row), whatever other
// sources share that chain id.
func wrongClient(ls loadSpec, tasks []taskObs) string {
	srcs := map[string]srcSpec{}
	for _, s := range ls.DBSrcs {
		srcs[s.Name] = s
	}
	for _, s := range ls.FileSrcs {
		srcs[s.Name] = s
	}
	for _, t := range tasks {
		if s, ok := srcs[t.Src]; ok && t.URL != s.URL {
			other := ""
			for _, o := range srcs {
				if o.URL == t.URL {
					other = fmt.Sprintf(" (the client of source %q, chain id %d)", o.Name, o.Chain)
				}
			}
			return fmt.Sprintf("task (%s, %s) records under source %q (chain id %d, url %s) but talks to %s%s",
				t.Src, t.Ig, s.Name, s.Chain, s.URL, t.URL, other)
		}
	}
	return ""
}
