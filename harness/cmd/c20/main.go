// c20: correspondence driver of property C20 (the manager runs exactly the
// configured tasks, one runner each, across restarts).
//
// Part (i): random file/database configuration mixes through the real
// loadTasks (hook shovel.VerifLoadTasks) against fakepg.
// Part (ii): scenarios on a real shovel.Manager with real goroutines; each
// scenario runs in a CHILD PROCESS (this binary re-executed with
// VERIF_C20_CHILD=1, scenario on stdin, observation on stdout) because a
// panic in any goroutine kills the process: that is the `crash` observation.
package main

import (
	"os"

	"verif/harness/lib"
)

func main() {
	if os.Getenv("VERIF_C20_CHILD") == "1" {
		childMain()
		return
	}
	lib.Main(runC20)
}
