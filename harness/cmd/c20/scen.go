package main

import (
	"bytes"
	"context"
	"encoding/json"
	"fmt"
	"io"
	"log/slog"
	"os"
	"os/exec"
	"regexp"
	"sort"
	"strings"
	"sync"
	"time"

	"github.com/indexsupply/shovel/shovel"
	"github.com/indexsupply/shovel/wpg"
	"verif/harness/fakepg"
	"verif/harness/lib"
	"verif/harness/simnode"
)

// ---------------------------------------------------------------- part (ii): scenarios

type scenOp struct {
	Op   string `json:"op"`             // store | start | hold_tasks | hold_load | restart | release
	Good bool   `json:"good,omitempty"` // store: the stored configuration loads (one more integration) / does not (unknown source)
}

type scenario struct {
	Ops []scenOp `json:"ops"`
}

type scenObs struct {
	// pairs of the stored configuration that performed no Converge step of the running generation (see checkRunning)
	RunViolations []string `json:"run_violations,omitempty"`
	// direct oracles evaluated at the moment a Restart call returns (see checkReturn)
	ReturnViolations []string `json:"return_violations,omitempty"`
	Crashed          bool     `json:"crashed"`
	CrashMsg         string   `json:"crash_msg,omitempty"`
	Restarts         []int    `json:"restarts"` // per Restart call: 0 nil, 1 error, 2 never returned
	Loads            int      `json:"loads"`    // executions of loadTasks (its first statement)
	Overlap          bool     `json:"overlap"`  // a load / NewTask statement arrived while a task of the previous generation was held inside a step
	FinalPairs       []string `json:"final_pairs"`
	WantPairs        []string `json:"want_pairs"`
	FinalBad         bool     `json:"final_bad"` // the configuration stored last does not load: no pairs to compare
	StoreN           []int    `json:"store_n"`   // per store op: number of tasks the stored configuration yields, -1 = it does not load
	Notes            []string `json:"notes,omitempty"`
	Incomplete       bool     `json:"incomplete,omitempty"` // the child died before reporting (parent fills this in)
}

const (
	stmtLoad = "select conf from shovel.integrations"
	stmtTask = "from shovel.task_updates"
)

var appNameRe = regexp.MustCompile(`set application_name = 'shovel-task-([a-z0-9]+)-([a-z0-9]+)-`)

type child struct {
	srv  *fakepg.Server
	node *simnode.Node
	mgr  *shovel.Manager
	head uint64

	mu          sync.Mutex
	holdTasks   bool
	holdLoad    bool
	blockedTask int
	blockedLoad int
	release     chan struct{}
	epoch       int // number of releases so far
	started     bool

	nGood   int  // database integrations stored so far that load
	bad     bool // the stored configuration contains the integration that does not load
	curN    int  // tasks of the generation that is running while nothing is pending
	obs     scenObs
	pending []chan int
	holdSeq int // log length when the hold on tasks was confirmed
}

func (c *child) gate(i fakepg.StmtInfo) {
	c.mu.Lock()
	var wait chan struct{}
	switch {
	case c.holdTasks && strings.Contains(i.SQL, stmtTask) && strings.Contains(i.SQL, "ig_name = $2") && i.Kind == "select":
		c.blockedTask++
		wait = c.release
	case c.holdLoad && strings.Contains(i.SQL, stmtLoad):
		c.blockedLoad++
		wait = c.release
	}
	c.mu.Unlock()
	if wait != nil {
		<-wait
	}
}

func (c *child) waitFor(what string, cond func() bool, d time.Duration) bool {
	deadline := time.Now().Add(d)
	for time.Now().Before(deadline) {
		c.mu.Lock()
		ok := cond()
		c.mu.Unlock()
		if ok {
			return true
		}
		time.Sleep(time.Millisecond)
	}
	c.obs.Notes = append(c.obs.Notes, "timeout waiting for "+what)
	return false
}

func (c *child) nTasksStored() int {
	if c.bad {
		return -1
	}
	return 1 + c.nGood
}

func (c *child) store(good bool) error {
	if good {
		if _, err := c.srv.Exec(`delete from shovel.integrations where name = $1`, "bad"); err != nil {
			return err
		}
		c.bad = false
		c.nGood++
		ig := igSpec{Name: fmt.Sprintf("dbig%d", c.nGood), Enabled: true, Refs: []refSpec{{Name: "fsrc", Start: c.head + 1}}}
		_, err := c.srv.Exec(`insert into shovel.integrations(name, conf) values ($1,$2)`, ig.Name, igJSON(ig))
		return err
	}
	if c.bad {
		return nil
	}
	c.bad = true
	ig := igSpec{Name: "bad", Enabled: true, Refs: []refSpec{{Name: "nosuch"}}}
	_, err := c.srv.Exec(`insert into shovel.integrations(name, conf) values ($1,$2)`, ig.Name, igJSON(ig))
	return err
}

type restartCall struct {
	idx       int
	seq       int // length of the statement log when Restart was called
	heldTasks int // tasks of the running generation held inside a step at that moment
	epoch     int // releases so far
	nGood     int // loading database integrations stored before the call
}

// checkReturn is the direct oracle of "after a restart completes every task
// of the previous generation has stopped ... and newly stored integrations are
// picked up", evaluated in the goroutine that called Restart at the moment the
// call returns:
// (a) the tasks that were held inside a step when Restart was called must have
//
//	been let go (a release happened) -- they cannot have stopped otherwise;
//
// (b) a nil return needs a loadTasks whose first statement executed after the
//
//	call, that read every integration stored before the call and no
//	integration that cannot be loaded (so a Restart called on a stored
//	configuration with an unknown source reference returns the error).
func (c *child) checkReturn(call restartCall, err error) {
	var v []string
	c.mu.Lock()
	if call.heldTasks > 0 && c.epoch == call.epoch {
		v = append(v, fmt.Sprintf("Restart call #%d returned while %d task(s) of the previous generation are still inside a step", call.idx, call.heldTasks))
	}
	c.mu.Unlock()
	if err == nil {
		good := false
		nLoads := 0
		for _, e := range c.srv.Log()[call.seq:] {
			if !strings.Contains(e.SQL, stmtLoad) || e.Outcome != "ok" {
				continue
			}
			nLoads++
			var rows strings.Builder
			for _, r := range e.Rows {
				for _, x := range r {
					rows.WriteString(fakepg.FormatValue(x))
					rows.WriteString("\n")
				}
			}
			txt := strings.ReplaceAll(rows.String(), "\\", "")
			ok := !strings.Contains(txt, `"nosuch"`)
			for k := 1; k <= call.nGood && ok; k++ {
				ok = strings.Contains(txt, fmt.Sprintf(`"dbig%d"`, k))
			}
			if ok {
				good = true
			}
		}
		switch {
		case nLoads == 0:
			v = append(v, fmt.Sprintf("Restart call #%d returned nil but no loadTasks ran after it was called: what was stored before the call is not picked up", call.idx))
		case !good:
			v = append(v, fmt.Sprintf("Restart call #%d returned nil although every loadTasks since the call read a configuration that cannot be loaded or lacks an integration stored before the call", call.idx))
		}
	}
	if len(v) > 0 {
		c.mu.Lock()
		c.obs.ReturnViolations = append(c.obs.ReturnViolations, v...)
		c.mu.Unlock()
	}
}

const longWait = 20 * time.Second

// collect waits for every pending Restart; one that does not return is "2"
func (c *child) collect() {
	for _, ch := range c.pending {
		select {
		case r := <-ch:
			c.obs.Restarts = append(c.obs.Restarts, r)
		case <-time.After(6 * time.Second):
			c.obs.Restarts = append(c.obs.Restarts, 2)
		}
	}
	hung := false
	for _, r := range c.obs.Restarts {
		if r == 2 {
			hung = true
		}
	}
	c.pending = nil
	if n := c.nTasksStored(); n >= 0 {
		c.curN = n
	} else {
		c.curN = 0
	}
	if !hung {
		c.checkRunning("after the Restart calls returned")
	}
}

// checkRunning is the direct oracle of "the set of running tasks is exactly
// one per enabled integration and referenced source": when no Restart is
// pending, nothing is held and the stored configuration loads, EVERY configured
// (source, integration) pair must perform a Converge step of the generation
// that is running now -- its position query (the first statement of every
// Converge) must arrive at the database after this moment.  Event driven; the
// timeout only bounds the failing case.
func (c *child) checkRunning(when string) {
	c.mu.Lock()
	skip := !c.started || c.bad || c.holdTasks || c.holdLoad || c.obs.Crashed
	c.mu.Unlock()
	if skip {
		return
	}
	want := map[string]bool{"fsrc/fig": true}
	for k := 1; k <= c.nGood; k++ {
		want[fmt.Sprintf("fsrc/dbig%d", k)] = true
	}
	since := c.srv.LogLen()
	seen := map[string]bool{}
	deadline := time.Now().Add(8 * time.Second)
	for len(seen) < len(want) && time.Now().Before(deadline) {
		log := c.srv.Log()
		for _, e := range log[since:] {
			if e.Kind == "select" && strings.Contains(e.SQL, stmtTask) && strings.Contains(e.SQL, "ig_name = $2") && len(e.Params) >= 2 {
				a, ok1 := e.Params[0].(string)
				b, ok2 := e.Params[1].(string)
				if ok1 && ok2 && want[a+"/"+b] {
					seen[a+"/"+b] = true
				}
			}
		}
		since = len(log)
		if len(seen) < len(want) {
			time.Sleep(2 * time.Millisecond)
		}
	}
	for _, p := range sortedKeys(want) {
		if !seen[p] {
			c.obs.RunViolations = append(c.obs.RunViolations,
				fmt.Sprintf("%s: the configured pair %s performs no Converge step (its runner is not running)", when, p))
		}
	}
}

func (c *child) anyHold() bool {
	c.mu.Lock()
	defer c.mu.Unlock()
	return (c.holdTasks && c.blockedTask > 0) || (c.holdLoad && c.blockedLoad > 0)
}

func (c *child) run(sc scenario) {
	ctx := context.Background()
	crashed := func(r any) {
		c.obs.Crashed = true
		c.obs.CrashMsg = fmt.Sprint(r)
	}
	for _, op := range sc.Ops {
		if c.obs.Crashed {
			break
		}
		switch op.Op {
		case "store":
			if err := c.store(op.Good); err != nil {
				c.obs.Notes = append(c.obs.Notes, "store: "+err.Error())
			}
			c.obs.StoreN = append(c.obs.StoreN, c.nTasksStored())
		case "start":
			pool, err := wpg.NewPool(ctx, c.srv.URL())
			if err != nil {
				c.obs.Notes = append(c.obs.Notes, "pool: "+err.Error())
				return
			}
			root, err := rootOf(loadSpec{
				FileSrcs: []srcSpec{{Name: "fsrc", Chain: 1, PollNS: int64(2 * time.Millisecond), URL: c.node.URL()}},
				FileIgs:  []igSpec{{Name: "fig", Enabled: true, Refs: []refSpec{{Name: "fsrc", Start: c.head + 1}}}},
			})
			if err != nil {
				c.obs.Notes = append(c.obs.Notes, "root: "+err.Error())
				return
			}
			c.mgr = shovel.NewManager(ctx, pool, root)
			ec := make(chan error)
			done := make(chan struct{})
			go c.mgr.Run(ec)
			go func() { <-ec; close(done) }()
			c.started = true
			c.mu.Lock()
			hl := c.holdLoad
			c.mu.Unlock()
			if hl {
				c.waitFor("the first Run to reach loadTasks", func() bool { return c.blockedLoad >= 1 }, longWait)
			} else {
				select {
				case <-done:
				case <-time.After(longWait):
					c.obs.Notes = append(c.obs.Notes, "first Run did not signal")
				}
				if n := c.nTasksStored(); n >= 0 {
					c.curN = n
				}
				c.checkRunning("after the first Run signalled")
			}
		case "hold_tasks":
			c.mu.Lock()
			c.holdTasks = true
			c.mu.Unlock()
			if c.started && c.curN > 0 && len(c.pending) == 0 {
				n := c.curN
				c.waitFor("every task to be inside a step", func() bool { return c.blockedTask >= n }, longWait)
				// one runner per pair: exactly n goroutines are inside a step, not more
				time.Sleep(30 * time.Millisecond)
				c.mu.Lock()
				if c.blockedTask > n {
					c.obs.Overlap = true
					c.obs.Notes = append(c.obs.Notes, fmt.Sprintf("%d runners are inside a step for %d configured tasks", c.blockedTask, n))
				}
				c.mu.Unlock()
			}
			c.holdSeq = c.srv.LogLen()
		case "hold_load":
			c.mu.Lock()
			c.holdLoad = true
			c.mu.Unlock()
		case "restart":
			if !c.started {
				continue
			}
			ch := make(chan int, 1)
			idx := len(c.obs.Restarts) + len(c.pending)
			c.pending = append(c.pending, ch)
			// what is true when Restart is called
			c.mu.Lock()
			call := restartCall{idx: idx, seq: c.srv.LogLen(), heldTasks: 0, epoch: c.epoch, nGood: c.nGood}
			if c.holdTasks {
				call.heldTasks = c.blockedTask
			}
			c.mu.Unlock()
			go func() {
				defer func() {
					if r := recover(); r != nil {
						c.mu.Lock()
						crashed(r)
						c.mu.Unlock()
						ch <- 2
					}
				}()
				err := c.mgr.Restart()
				c.checkReturn(call, err)
				if err != nil {
					ch <- 1
				} else {
					ch <- 0
				}
			}()
			if c.anyHold() {
				// it cannot complete before the release; give it time to execute its close
				time.Sleep(15 * time.Millisecond)
				c.mu.Lock()
				cr := c.obs.Crashed
				c.mu.Unlock()
				if cr {
					return
				}
			} else {
				c.collect()
			}
		case "release":
			c.mu.Lock()
			heldTasks := c.holdTasks && c.blockedTask > 0
			c.mu.Unlock()
			if heldTasks && len(c.pending) > 0 {
				// exclusivity: while a task of the running generation is inside a step nobody may load
				time.Sleep(80 * time.Millisecond)
				for _, e := range c.srv.Log()[c.holdSeq:] {
					if strings.Contains(e.SQL, stmtLoad) || strings.Contains(e.SQL, "set application_name = 'shovel-task-") {
						c.obs.Overlap = true
						c.obs.Notes = append(c.obs.Notes, "during the hold: "+e.SQL)
					}
				}
			}
			c.mu.Lock()
			c.holdTasks, c.holdLoad = false, false
			c.blockedTask, c.blockedLoad = 0, 0
			c.epoch++
			close(c.release)
			c.release = make(chan struct{})
			c.mu.Unlock()
			c.collect()
		}
	}
	c.mu.Lock()
	cr := c.obs.Crashed
	c.mu.Unlock()
	if !cr {
		// whatever is still held or pending is let go
		c.mu.Lock()
		c.holdTasks, c.holdLoad = false, false
		c.epoch++
		close(c.release)
		c.release = make(chan struct{})
		c.mu.Unlock()
		c.collect()
	}
	// the log: number of loads; the pairs of the last generation
	log := c.srv.Log()
	last := -1
	for i, e := range log {
		if strings.Contains(e.SQL, stmtLoad) && e.Outcome == "ok" {
			c.obs.Loads++
			last = i
		}
	}
	pairs := map[string]bool{}
	if last >= 0 {
		for _, e := range log[last:] {
			if m := appNameRe.FindStringSubmatch(e.SQL); m != nil {
				pairs[m[1]+"/"+m[2]] = true
			}
		}
	}
	c.obs.FinalPairs = sortedKeys(pairs)
	want := map[string]bool{}
	if c.started && !c.bad {
		want["fsrc/fig"] = true
		for k := 1; k <= c.nGood; k++ {
			want[fmt.Sprintf("fsrc/dbig%d", k)] = true
		}
	}
	c.obs.WantPairs = sortedKeys(want)
	c.obs.FinalBad = c.bad
}

func sortedKeys(m map[string]bool) []string {
	ks := []string{}
	for k := range m {
		ks = append(ks, k)
	}
	sort.Strings(ks)
	return ks
}

func childMain() {
	slog.SetDefault(slog.New(slog.NewTextHandler(io.Discard, nil)))
	var sc scenario
	if err := json.NewDecoder(os.Stdin).Decode(&sc); err != nil {
		fmt.Fprintln(os.Stderr, "child: bad scenario:", err)
		os.Exit(4)
	}
	srv, err := fakepg.Start()
	if err != nil {
		fmt.Fprintln(os.Stderr, "child: fakepg:", err)
		os.Exit(4)
	}
	if _, err := srv.Exec(shovel.Schema); err != nil {
		fmt.Fprintln(os.Stderr, "child: schema:", err)
		os.Exit(4)
	}
	chain := simnode.NewChain(simnode.Gen{Start: 1, N: 8, HashLen: 32}, nil)
	node := simnode.New(chain)
	c := &child{srv: srv, node: node, head: chain.Head(), release: make(chan struct{})}
	c.obs.Restarts = []int{}
	c.obs.StoreN = []int{}
	srv.SetGate(c.gate)
	c.run(sc)
	out, _ := json.Marshal(c.obs)
	os.Stdout.Write(out)
	os.Stdout.Write([]byte("\n"))
	os.Exit(0)
}

// ---------------------------------------------------------------- parent side

func runChild(sc scenario) scenObs {
	in, _ := json.Marshal(sc)
	cmd := exec.Command(os.Args[0])
	cmd.Env = append(os.Environ(), "VERIF_C20_CHILD=1")
	cmd.Stdin = bytes.NewReader(in)
	var stdout, stderr bytes.Buffer
	cmd.Stdout, cmd.Stderr = &stdout, &stderr
	done := make(chan error, 1)
	if err := cmd.Start(); err != nil {
		return scenObs{Incomplete: true, Notes: []string{"cannot start child: " + err.Error()}}
	}
	go func() { done <- cmd.Wait() }()
	var werr error
	select {
	case werr = <-done:
	case <-time.After(120 * time.Second):
		cmd.Process.Kill()
		<-done
		return scenObs{Incomplete: true, Notes: []string{"child timed out"}}
	}
	var obs scenObs
	if werr == nil && json.Unmarshal(bytes.TrimSpace(stdout.Bytes()), &obs) == nil {
		return obs
	}
	// the process died: a panic in some goroutine
	msg := stderr.String()
	if i := strings.Index(msg, "panic:"); i >= 0 {
		msg = msg[i:]
	}
	if len(msg) > 300 {
		msg = msg[:300]
	}
	return scenObs{Crashed: strings.Contains(stderr.String(), "panic:"), CrashMsg: msg, Incomplete: true,
		Restarts: []int{}, Notes: []string{fmt.Sprintf("child exit: %v", werr)}}
}

func coqOps(sc scenario, storeN []int) string {
	// NewManager's file configuration alone yields one task
	ops := []string{"OStore (Some 1%nat)"}
	si := 0
	for _, o := range sc.Ops {
		switch o.Op {
		case "store":
			n := -1
			if si < len(storeN) {
				n = storeN[si]
			} else if o.Good {
				n = 0
			}
			si++
			if n >= 0 {
				ops = append(ops, fmt.Sprintf("OStore (Some %d%%nat)", n))
			} else {
				ops = append(ops, "OStore None")
			}
		case "start":
			ops = append(ops, "OStart")
		case "hold_tasks":
			ops = append(ops, "OHoldTasks")
		case "hold_load":
			ops = append(ops, "OHoldLoad")
		case "restart":
			ops = append(ops, "ORestart")
		case "release":
			ops = append(ops, "ORelease")
		}
	}
	ops = append(ops, "ORelease") // the driver always lets go at the end
	return lib.CList(ops)
}

// storeCounts: what each store op makes loadTasks yield (the child reports the
// same numbers; this is used when the child died before reporting)
func storeCounts(sc scenario) []int {
	var res []int
	good, bad := 0, false
	for _, o := range sc.Ops {
		if o.Op != "store" {
			continue
		}
		if o.Good {
			bad = false
			good++
		} else {
			bad = true
		}
		if bad {
			res = append(res, -1)
		} else {
			res = append(res, 1+good)
		}
	}
	return res
}

func scenCase(sc scenario, obs scenObs, kind string) lib.Case {
	storeN := obs.StoreN
	if obs.Incomplete || len(storeN) == 0 {
		storeN = storeCounts(sc)
	}
	nRestart := 0
	started := false
	for _, o := range sc.Ops {
		if o.Op == "start" {
			started = true
		}
		if o.Op == "restart" && started {
			nRestart++
		}
	}
	rs := make([]string, len(obs.Restarts))
	for i, r := range obs.Restarts {
		rs[i] = lib.CNat(r)
	}
	coq := fmt.Sprintf("CScen %s %s %s %s %s", coqOps(sc, storeN), lib.CBool(obs.Crashed), lib.CList(rs), lib.CNat(obs.Loads), lib.CBool(obs.Overlap))
	var msgs []string
	if obs.Crashed {
		msgs = append(msgs, "the manager panicked: "+obs.CrashMsg)
	}
	for i, r := range obs.Restarts {
		if r == 2 && !obs.Crashed {
			msgs = append(msgs, fmt.Sprintf("Restart call #%d never returned", i))
		}
	}
	for _, rv := range obs.RunViolations {
		msgs = append(msgs, rv)
	}
	for _, rv := range obs.ReturnViolations {
		msgs = append(msgs, rv)
	}
	if obs.Overlap {
		msgs = append(msgs, "two runners for one pair / a new generation loaded while a task of the previous one was inside a step: "+strings.Join(obs.Notes, "; "))
	}
	if !obs.Crashed && !obs.Incomplete && !obs.FinalBad && fmt.Sprint(obs.FinalPairs) != fmt.Sprint(obs.WantPairs) {
		hung := false
		for _, r := range obs.Restarts {
			if r == 2 {
				hung = true
			}
		}
		if !hung {
			msgs = append(msgs, fmt.Sprintf("after the last Restart returned the running pairs are %v, the stored configuration says %v", obs.FinalPairs, obs.WantPairs))
		}
	}
	if obs.Incomplete && !obs.Crashed {
		msgs = append(msgs, "scenario process failed: "+strings.Join(obs.Notes, "; "))
	}
	msg := strings.Join(msgs, " | ")
	if len(msg) > 900 {
		msg = msg[:900]
	}
	return lib.Case{Coq: coq, Desc: map[string]any{"scenario": sc, "observed": obs},
		Kind: kind, Nontrivial: nRestart >= 1, OracleOK: msg == "", OracleMsg: msg, Size: 100 + len(sc.Ops)}
}

func ops(names ...string) scenario {
	var sc scenario
	for _, n := range names {
		switch n {
		case "good":
			sc.Ops = append(sc.Ops, scenOp{Op: "store", Good: true})
		case "bad":
			sc.Ops = append(sc.Ops, scenOp{Op: "store", Good: false})
		default:
			sc.Ops = append(sc.Ops, scenOp{Op: n})
		}
	}
	return sc
}

// the witnesses of the _refuted theorems and the Examples of Properties/C20.v first
func scenCorpus() []scenario {
	return []scenario{
		ops("start", "hold_tasks", "restart", "restart", "release"), // sched_two_restarts
		ops("start", "bad", "restart", "good", "restart"),           // sched_restart_after_failed_restart
		ops("hold_load", "start", "restart", "release"),             // sched_restart_during_first_load
		ops("start", "restart"),                                     // the plain case
		ops("start", "good", "restart", "good", "restart"),          // newly stored integrations are picked up
		ops("start", "hold_tasks", "good", "restart", "restart", "restart", "release"),
		ops("start", "bad", "restart", "restart", "good", "restart"),
		ops("hold_load", "start", "restart", "restart", "release", "good", "restart"),
		ops("bad", "start", "good", "restart"), // the first load fails
		ops("start", "hold_tasks", "bad", "restart", "good", "restart", "release"),
	}
}

func genScenario(r *lib.RNG) scenario {
	var sc scenario
	add := func(op string, good bool) { sc.Ops = append(sc.Ops, scenOp{Op: op, Good: good}) }
	bad := false
	curN := 1
	maybeStore := func() {
		switch r.Intn(4) {
		case 0:
			add("store", true)
			bad = false
		case 1:
			if r.Chance(1, 2) {
				add("store", false)
				bad = true
			}
		}
	}
	if r.Chance(1, 8) {
		add("store", false)
		bad = true
	}
	if r.Chance(1, 4) {
		add("hold_load", false)
		add("start", false)
		for k := r.Range(1, 3); k > 0; k-- {
			maybeStore()
			add("restart", false)
		}
		add("release", false)
	} else {
		add("start", false)
	}
	if bad {
		curN = 0
	}
	for rounds := r.Range(1, 3); rounds > 0; rounds-- {
		if curN > 0 && r.Chance(1, 2) {
			add("hold_tasks", false)
			for k := r.Range(1, 3); k > 0; k-- {
				maybeStore()
				add("restart", false)
			}
			add("release", false)
		} else {
			for k := r.Range(1, 2); k > 0; k-- {
				maybeStore()
				add("restart", false)
			}
		}
		if bad {
			curN = 0
		} else {
			curN = 1
		}
	}
	return sc
}

// validScenario: the shape the generator produces (and the only one in which
// the driver's waiting rules are deterministic): one start, hold_load only
// directly before it, hold_tasks only while a generation with tasks runs and
// nothing is held or pending, every hold released.
func validScenario(sc scenario) bool {
	started, bad, inHold, curN := false, false, false, 0
	pendingHoldLoad := false
	for i, o := range sc.Ops {
		switch o.Op {
		case "store":
			// what is stored must be loaded by somebody: the first Run, or a Restart called right after
			if started && (i+1 >= len(sc.Ops) || sc.Ops[i+1].Op != "restart") {
				return false
			}
			bad = !o.Good
		case "hold_load":
			if started || pendingHoldLoad || inHold {
				return false
			}
			pendingHoldLoad = true
		case "start":
			if started {
				return false
			}
			started = true
			if pendingHoldLoad {
				inHold = true
				pendingHoldLoad = false
			} else if !bad {
				curN = 1
			}
		case "hold_tasks":
			if !started || inHold || curN == 0 {
				return false
			}
			inHold = true
		case "restart":
			if !started {
				return false
			}
			if !inHold {
				curN = 0
				if !bad {
					curN = 1
				}
			}
		case "release":
			if !inHold {
				return false
			}
			inHold = false
			curN = 0
			if !bad {
				curN = 1
			}
		default:
			return false
		}
	}
	return started && !inHold && !pendingHoldLoad
}

// shrinkScenario drops operations one at a time while the scenario stays of
// the generated shape and the direct oracle still complains.
func shrinkScenario(sc scenario) (scenario, scenObs, bool) {
	var best scenObs
	found := false
	for changed := true; changed; {
		changed = false
		for i := 0; i < len(sc.Ops); i++ {
			cand := scenario{Ops: append(append([]scenOp{}, sc.Ops[:i]...), sc.Ops[i+1:]...)}
			if !validScenario(cand) {
				continue
			}
			obs := runChild(cand)
			if c := scenCase(cand, obs, "shrunk"); !c.OracleOK {
				sc, best, found, changed = cand, obs, true, true
				break
			}
		}
	}
	return sc, best, found
}
