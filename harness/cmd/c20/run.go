package main

import (
	"encoding/json"
	"fmt"
	"io"
	"log/slog"
	"os"
	"sync"

	"verif/harness/lib"
)

const c20Header = `From Shovel Require Import Base.Outcome Model.Manager Corr.RunC20.
From Coq Require Import List NArith. Import ListNotations. Open Scope N_scope.`

func runC20(cfg lib.Cfg) error {
	slog.SetDefault(slog.New(slog.NewTextHandler(io.Discard, nil)))
	out := lib.NewOut("C20", cfg.Out, c20Header, "run", 60)
	out.Rule = "CLoad: one file/database configuration mix through the real loadTasks (fakepg), non-trivial = at least two integrations, or one integration and two source definitions; " +
		"CScen: one scenario on a real Manager in a child process, non-trivial = at least one Restart call; distinct by hash of the case"

	if cfg.Replay != "" {
		if done, err := replay(cfg, out); done {
			return err
		}
	}

	rng := lib.NewRNG(cfg.Seed)
	nLoad, nMal, nScen := 500, 300, 90
	if cfg.Thorough() {
		nLoad, nMal, nScen = 3000, 1500, 400
	}

	// ---- part (i)
	env, err := newLoadEnv()
	if err != nil {
		return err
	}
	defer env.close()
	for _, ls := range loadCorpus() {
		c, err := loadCase(env, ls, "load-corpus")
		if err != nil {
			return err
		}
		out.Add(c)
	}
	for i := 0; i < nLoad; i++ {
		c, err := loadCase(env, genLoad(rng, false), "load-valid-mix")
		if err != nil {
			return err
		}
		out.Add(c)
	}
	for i := 0; i < nMal; i++ {
		c, err := loadCase(env, genLoad(rng, true), "load-malformed-mix")
		if err != nil {
			return err
		}
		out.Add(c)
	}
	for _, c := range out.Cases {
		d := c.Desc.(map[string]any)
		out.Count("load-result:" + d["impl"].(string))
	}

	// ---- part (ii)
	type job struct {
		sc   scenario
		kind string
	}
	var jobs []job
	for _, sc := range scenCorpus() {
		jobs = append(jobs, job{sc, "scenario-corpus"})
	}
	for i := 0; i < nScen; i++ {
		jobs = append(jobs, job{genScenario(rng), "scenario-random"})
	}
	results := make([]scenObs, len(jobs))
	sem := make(chan struct{}, 6)
	var wg sync.WaitGroup
	for i := range jobs {
		wg.Add(1)
		go func(i int) {
			defer wg.Done()
			sem <- struct{}{}
			defer func() { <-sem }()
			results[i] = runChild(jobs[i].sc)
		}(i)
	}
	wg.Wait()
	restarts := 0
	shrunk := 0
	for i, j := range jobs {
		c := scenCase(j.sc, results[i], j.kind)
		out.Add(c)
		if !c.OracleOK && shrunk < 3 {
			// a concrete, smaller schedule for the replay
			if small, obs, ok := shrinkScenario(j.sc); ok {
				sc := scenCase(small, obs, "scenario-shrunk")
				sc.Size = len(small.Ops)
				out.Add(sc)
			}
			shrunk++
		}
		for _, r := range results[i].Restarts {
			restarts++
			out.Count(fmt.Sprintf("restart-result:%d", r))
		}
		if results[i].Crashed {
			out.Count("scenario:crashed")
		}
	}
	out.Notes["restart_calls"] = restarts
	out.Notes["scenarios"] = len(jobs)
	out.Notes["load_cases"] = len(loadCorpus()) + nLoad + nMal
	return out.Flush()
}

// replay re-runs the failing input of a replay file (a load configuration or a scenario)
func replay(cfg lib.Cfg, out *lib.Out) (bool, error) {
	b, err := os.ReadFile(cfg.Replay)
	if err != nil {
		return false, nil
	}
	var rep struct {
		FailingInput *struct {
			Desc struct {
				Load     *loadSpec `json:"load"`
				Scenario *scenario `json:"scenario"`
			} `json:"desc"`
		} `json:"failing_input"`
		Broken []struct {
			Detail string `json:"detail"`
		} `json:"broken"`
	}
	if json.Unmarshal(b, &rep) != nil {
		return false, nil
	}
	var ls *loadSpec
	var sc *scenario
	if rep.FailingInput != nil {
		ls, sc = rep.FailingInput.Desc.Load, rep.FailingInput.Desc.Scenario
	}
	if ls == nil && sc == nil {
		for _, br := range rep.Broken {
			var c struct {
				Desc struct {
					Load     *loadSpec `json:"load"`
					Scenario *scenario `json:"scenario"`
				} `json:"desc"`
			}
			if json.Unmarshal([]byte(br.Detail), &c) == nil && (c.Desc.Load != nil || c.Desc.Scenario != nil) {
				ls, sc = c.Desc.Load, c.Desc.Scenario
				break
			}
		}
	}
	switch {
	case ls != nil:
		env, err := newLoadEnv()
		if err != nil {
			return true, err
		}
		defer env.close()
		c, err := loadCase(env, *ls, "replay")
		if err != nil {
			return true, err
		}
		out.Add(c)
	case sc != nil:
		out.Add(scenCase(*sc, runChild(*sc), "replay"))
	default:
		return false, nil
	}
	out.Notes["replay"] = cfg.Replay
	return true, out.Flush()
}
