// Driver of property C02: rows and recorded position commit atomically.
// For a set of base histories (growth-only and reorg) the fault-free trace of
// every step is recorded first; then the history is re-run once per
// (step, operation, fault kind): every SQL statement incl. begin/commit/COPY
// gets an error reply, a connection drop before, a connection drop after
// execution, process death before and after; every node call gets an error
// and process death.  After the fault the history continues fault-free.
// Oracles: TaskInv on the committed database after EVERY statement, a failed
// step leaves the previous state of its pair or an earlier position, and the
// final table and position equal those of the fault-free run.
package main

import (
	"fmt"
	"sort"

	"verif/harness/lib"
	ts "verif/harness/tasksim"
)

var dbKinds = []string{"error", "drop", "drop-after", "crash", "crash-after"}

func base(name, shape string, batch, conc, head int, seed uint64, acts []ts.Act) *ts.Scenario {
	return &ts.Scenario{Name: name, Seed: seed, Head: head, SnapEvery: true,
		Gen:  ts.GenOpts{MaxTxs: 2, MaxLogs: 3, Traces: shape == "trace", Decoys: true, EmptyProb: 10},
		Srcs: []ts.SrcSpec{{Name: "main", ChainID: 1, Batch: batch, Conc: conc, URL: "http://main.invalid"}},
		IGs:  []ts.IGSpec{{Name: "ig1", Shape: shape, Table: "t1", Sources: []ts.SrcRef{{Name: "main", Start: 1}}}},
		Acts: acts}
}

func cat(xs ...[]ts.Act) []ts.Act {
	var out []ts.Act
	for _, x := range xs {
		out = append(out, x...)
	}
	return out
}

// finalOf summarises the last committed state: newest position and rows of every pair.
func finalOf(r *ts.Run) string {
	var last *ts.DbView
	for _, e := range r.W.Rec.Events {
		if e.Kind == "snap" {
			last = e.Db
		}
	}
	if last == nil {
		return "none"
	}
	newest := map[[2]int]ts.CurID{}
	for _, c := range last.Curs {
		k := [2]int{c.Src, c.IG}
		if o, ok := newest[k]; !ok || c.Num > o.Num {
			newest[k] = c
		}
	}
	var parts []string
	for _, c := range newest {
		parts = append(parts, c.Coq())
	}
	for _, rw := range last.Rows {
		parts = append(parts, fmt.Sprintf("Row t%d s%d i%d b%d %s %s", rw.Tbl, rw.Src, rw.IG, rw.BNum, r.W.Names.KeyStr(rw.Key), r.W.Names.ValStr(rw.Val)))
	}
	sort.Strings(parts)
	return fmt.Sprint(parts)
}

// stepsOracle: a step that did not converge leaves the state of its pair as
// it was or at a strictly earlier position (unless a lost commit reply makes
// the outcome ambiguous).
func stepsOracle(r *ts.Run) []string {
	var bad []string
	w := r.W
	cur := &w.Init
	type st struct {
		at        *ts.DbView
		ambiguous bool
		unwound   bool
	}
	open := map[int]*st{}
	pos := func(d *ts.DbView, t *ts.TaskH) (uint64, bool, string) {
		src, ig := w.Names.SrcID(t.Info.SrcName), w.Names.IGID(t.Info.IGName)
		var n uint64
		has := false
		var sig []string
		for _, c := range d.Curs {
			if c.Src == src && c.IG == ig {
				sig = append(sig, c.Coq())
				if !has || c.Num > n {
					n, has = c.Num, true
				}
			}
		}
		for _, rw := range d.Rows {
			if rw.Src == src && rw.IG == ig {
				sig = append(sig, rw.Coq())
			}
		}
		sort.Strings(sig)
		return n, has, fmt.Sprint(sig)
	}
	for i, e := range w.Rec.Events {
		switch e.Kind {
		case "snap":
			cur = e.Db
		case "start":
			open[e.Tid] = &st{at: cur}
		case "op":
			if s := open[e.Tid]; s != nil && e.Op.Name == "Commit" && e.Op.Fail == "KDropAfter" {
				s.ambiguous = true
			}
			if s := open[e.Tid]; s != nil && e.Op.Name == "DelCursors" && e.Op.Fail == "" {
				s.unwound = true
			}
		case "crash":
			open = map[int]*st{}
		case "end":
			s := open[e.Tid]
			delete(open, e.Tid)
			if s == nil {
				continue
			}
			t := w.Task(e.Tid)
			n0, has0, sig0 := pos(s.at, t)
			n1, has1, sig1 := pos(cur, t)
			switch {
			case e.Out == "OConverged":
				if !has1 || (has0 && n1 <= n0 && !s.unwound) {
					bad = append(bad, fmt.Sprintf("event %d: converged step did not advance the position (%d -> %d)", i, n0, n1))
				}
			case s.ambiguous || sig0 == sig1:
			case has0 && (!has1 || n1 < n0):
				// committed unwind: earlier position (its consistency is the invariant oracle's business)
			default:
				bad = append(bad, fmt.Sprintf("event %d: step ended %s but changed the committed state of its pair (position %v/%d -> %v/%d)", i, e.Out, has0, n0, has1, n1))
			}
		}
	}
	return bad
}

func run(cfg lib.Cfg) error {
	out := lib.NewOut("C02", cfg.Out, ts.Header(2), "run", 24)
	out.Rule = "non-trivial = a fault (or process death) was delivered to an operation of a step and a later step converged"
	judge := func(sc *ts.Scenario, kind, wantFinal string) {
		ts.Judge(out, sc, kind, func(r *ts.Run) []string {
			msgs := append(r.InvOracle(), stepsOracle(r)...)
			if wantFinal != "" {
				if got := finalOf(r); got != wantFinal {
					msgs = append(msgs, "after retrying, the final table/position differ from the fault-free run: got "+got+" want "+wantFinal)
				}
			}
			return msgs
		}, func(r *ts.Run) bool {
			faulted := false
			for _, e := range r.W.Rec.Events {
				if e.Kind == "crash" || (e.Kind == "op" && e.Op.Fail != "" && e.Op.Fail != "KUnique") {
					faulted = true
				}
				if e.Kind == "op" && e.Op.Name == "RGet" {
					for _, sg := range e.Op.Segs {
						if sg.Fail != "" {
							faulted = true
						}
					}
				}
			}
			return faulted && r.CountOutcomes()["OConverged"] >= 1
		})
	}
	if cfg.Replay != "" {
		sc, kind, err := ts.ReplayScenario(cfg.Replay)
		if err != nil {
			return err
		}
		judge(sc, kind, "")
		return out.Flush()
	}
	r := lib.NewRNG(cfg.Seed)
	bases := []*ts.Scenario{
		base("growth-log-b2c2", "log", 2, 2, 5, 21, ts.Steps(1, 4)),
		base("reorg-log-b2c1", "log", 2, 1, 4, 22, cat(ts.Steps(1, 2), []ts.Act{{Do: "reorg", Fork: 3, Len: 3}}, ts.Steps(1, 3))),
		base("reorg-tx-b3c2", "tx", 3, 2, 6, 23, cat(ts.Steps(1, 2), []ts.Act{{Do: "reorg", Fork: 2, Len: 6}}, ts.Steps(1, 4))),
		// the position written with batch 4 is unwound after a restart with batch 2
		base("rebatch-log-b4c2-to-b2c1", "log", 4, 2, 5, 28, cat(ts.Steps(1, 1), []ts.Act{{Do: "reconfig", K: 2, Len: 1}, {Do: "reorg", Fork: 3, Len: 4}}, ts.Steps(1, 2))),
	}
	{
		// no configured start: the first (and only) recorded position is orphaned by a reorg
		b := base("fresh-start-tx-b4c1", "tx", 4, 1, 5, 30, cat(ts.Steps(1, 1), []ts.Act{{Do: "reorg", Fork: 5, Len: 4}}, ts.Steps(1, 2)))
		b.IGs[0].Sources[0].Start = 0
		b.Gen.EmptyProb = 0
		bases = append(bases, b)
	}
	{
		// trace indexing through the real jrpc2.Client (second integration => maxreads 2): a step
		// that fails after its load is retried against the SAME cached block segment
		b := base("real-trace-b3c1", "trace", 3, 1, 3, 29, ts.Steps(1, 2))
		b.Real = true
		b.Gen.AlwaysTrace = true
		b.IGs = append(b.IGs, ts.IGSpec{Name: "ig2", Shape: "tx", Table: "t2", Sources: []ts.SrcRef{{Name: "main", Start: 1}}})
		bases = append(bases, b)
	}
	if cfg.Thorough() {
		bases = append(bases,
			base("growth-trace-b3c3", "trace", 3, 3, 7, 24, cat(ts.Steps(1, 2), []ts.Act{{Do: "grow", K: 2}}, ts.Steps(1, 3))),
			base("reorg-log-b4c2-deep", "log", 4, 2, 8, 25, cat(ts.Steps(1, 2), []ts.Act{{Do: "reorg", Fork: 2, Len: 8}}, ts.Steps(1, 4))),
			base("reorg-twice-b2c2", "log", 2, 2, 6, 26, cat(ts.Steps(1, 3), []ts.Act{{Do: "reorg", Fork: 5, Len: 2}}, ts.Steps(1, 1), []ts.Act{{Do: "reorg", Fork: 4, Len: 5}}, ts.Steps(1, 4))),
			base("growth-lognh-b5c2", "lognh", 5, 2, 9, 27, ts.Steps(1, 3)),
		)
	}
	// corpus: the SECOND transaction of a step (COPY, position insert) fails again and again:
	// one more failing step than the pool has connections, alternately at the COPY and at the
	// position insert (rows already copied), then the faults stop.  Every failed step must
	// have ended its transaction and returned its connection (tasksim: oracle on every
	// returned Converge; a step that blocks for ever is cut off by the watchdog); the retries
	// must not meet uncommitted rows of an abandoned transaction.
	{
		var acts []ts.Act
		for i := 0; i <= ts.PoolMaxConns; i++ {
			acts = append(acts, ts.Act{Do: "fault", Tid: 1, At: 4 + i%2, Kind: "error"}, ts.Act{Do: "step", Tid: 1})
		}
		acts = append(acts, ts.Act{Do: "clear"})
		acts = append(acts, ts.Steps(1, 5)...)
		sc := base("corpus-second-transaction-fails-repeatedly", "log", 2, 1, 6, 35, acts)
		ref := *sc
		ref.Acts = ts.Steps(1, 5)
		want := ""
		if refRun, err := ref.Exec(); err == nil {
			want = finalOf(refRun)
			refRun.Close()
		}
		judge(sc, "corpus-second-transaction-fails-repeatedly", want)
	}
	exhaustive := cfg.Thorough()
	for _, b := range bases {
		// fault-free reference run (with the retry tail, so that both runs end at quiescence)
		ref := *b
		ref.Acts = cat(b.Acts, []ts.Act{{Do: "clear"}}, ts.Steps(1, 4))
		refRun, err := ref.Exec()
		if err != nil {
			refRun.Close()
			return fmt.Errorf("base %s: %w", b.Name, err)
		}
		want := finalOf(refRun)
		type point struct {
			stepAct int // index into b.Acts of the step
			dbOps   int
			names   []string // names of the database operations, in order
			calls   []ts.Call
		}
		var points []point
		si := 0
		for ai, a := range b.Acts {
			if a.Do != "step" {
				continue
			}
			st := refRun.Steps[si]
			var names []string
			for _, e := range refRun.W.Rec.Events[st.First:st.Last] {
				if e.Kind == "op" && e.Op.Name != "RLatest" && e.Op.Name != "RHash" && e.Op.Name != "RGet" {
					names = append(names, e.Op.Name)
				}
			}
			points = append(points, point{ai, ts.DBOps(refRun.W.Rec.Events[st.First:st.Last]), names, st.Calls})
			si++
		}
		refRun.Close()
		judge(&ref, "fault-free-base", want)
		for pi, pt := range points {
			derive := func(kind string, inject ts.Act) {
				sc := *b
				sc.Name = fmt.Sprintf("%s/step%d/%s", b.Name, pi, kind)
				sc.Acts = cat(b.Acts[:pt.stepAct], []ts.Act{inject}, b.Acts[pt.stepAct:], []ts.Act{{Do: "clear"}}, ts.Steps(1, 4))
				judge(&sc, "single-fault-"+inject.Do+"-"+inject.Kind, want)
			}
			for i := 0; i < pt.dbOps; i++ {
				for _, k := range dbKinds {
					// inside a transaction "executed, then the connection is lost" leaves the
					// same state as "lost before execution" (the write set is discarded); the
					// quick tier runs the -after kinds only on Commit, where they differ
					if !cfg.Thorough() && (k == "drop-after" || k == "crash-after") && i < len(pt.names) && pt.names[i] != "Commit" {
						continue
					}
					derive(fmt.Sprintf("db%d-%s", i, k), ts.Act{Do: "fault", Tid: 1, At: i, Kind: k})
				}
			}
			for _, c := range pt.calls {
				if !b.Real { // the real client cannot be told to fail a call; its HTTP failures are C01's xfail runs
					derive("rpcfail-"+c.Key(), ts.Act{Do: "rpcfail", Tid: 1, Call: c.Key()})
				}
				derive("rpccrash-"+c.Key(), ts.Act{Do: "rpccrash", Tid: 1, Call: c.Key()})
			}
		}
	}
	// random multi-fault sequences on random growth / reorg histories
	n := 16
	if cfg.Thorough() {
		n = 1200
	}
	shapes := []string{"log", "tx", "trace", "lognh"}
	relcalls := []string{"latest#0", "hash#0", "get@0#0", "get@1#0", "get@2#0", "latest#1", "get@0#1"}
	for i := 0; i < n; i++ {
		batch, conc, head := r.Range(1, 6), r.Range(1, 4), r.Range(3, 10)
		shape := lib.Pick(r, shapes)
		var acts []ts.Act
		h := head
		for k := r.Range(4, 10); k > 0; k-- {
			switch r.Intn(8) {
			case 0:
				g := r.Range(1, 3)
				acts = append(acts, ts.Act{Do: "grow", K: g})
				h += g
			case 1:
				if shape != "lognh" {
					f := uint64(r.Range(1, h))
					l := r.Range(1, 4) + (h - int(f))
					acts = append(acts, ts.Act{Do: "reorg", Fork: f, Len: l})
					h = int(f) - 1 + l
				}
			case 2:
				if r.Bool() {
					acts = append(acts, ts.Act{Do: "restart"})
				} else {
					batch = r.Range(1, 6)
					acts = append(acts, ts.Act{Do: "reconfig", K: batch, Len: r.Range(1, 4)})
				}
			}
			switch r.Intn(3) {
			case 0:
				acts = append(acts, ts.Act{Do: "fault", Tid: 1, At: r.Intn(11), Kind: lib.Pick(r, dbKinds)})
			case 1:
				a := ts.Act{Do: "rpcfail", Tid: 1, Call: lib.Pick(r, relcalls)}
				if r.Intn(4) == 0 {
					a.Do = "rpccrash"
				}
				acts = append(acts, a)
			}
			acts = append(acts, ts.Act{Do: "step", Tid: 1})
		}
		// the chain outgrows everything recorded, the faults stop
		acts = append(acts, ts.Act{Do: "clear"}, ts.Act{Do: "grow", K: 2})
		h += 2
		acts = append(acts, ts.Steps(1, (h+batch)/batch+6)...)
		sc := base(fmt.Sprintf("multi-%d", i), shape, batch, conc, head, r.U64()%1_000_000, acts)
		// reference: same history without the faults
		ref := *sc
		ref.Acts = nil
		for _, a := range sc.Acts {
			switch a.Do {
			case "fault", "rpcfail", "rpccrash", "restart":
			default: // a reconfiguration stays in the reference history
				ref.Acts = append(ref.Acts, a)
			}
		}
		refRun, err := ref.Exec()
		want := ""
		if err == nil {
			want = finalOf(refRun)
		}
		refRun.Close()
		judge(sc, "random-multi-fault", want)
	}
	out.Notes["exhaustive"] = exhaustive
	out.Notes["enumeration"] = "per base history: every step x every SQL statement x {error, drop, crash} (+ {drop-after, crash-after} on every Commit; in the thorough tier on every statement) and every node call x {error, crash}"
	return out.Flush()
}
