// c11: correspondence driver of property C11 (each column receives the value
// of the field it names, with the documented typing).
package main

import (
	"fmt"

	"verif/harness/lib"
	"verif/harness/rows"
)

func main() { lib.Main(run) }

const header = rows.Header + "\nFrom Shovel Require Import Corr.RunC11."

func run(cfg lib.Cfg) error {
	out := lib.NewOut("C11", cfg.Out, header, "run", 40)
	out.Rule = rows.Rule
	if cfg.Replay != "" {
		c, err := rows.LoadReplay(cfg.Replay)
		if err != nil {
			return err
		}
		for _, k := range rows.RunCase(c) {
			out.Add(k)
		}
		return out.Flush()
	}
	for _, c := range rows.Corpus11() {
		c.Abi = true
		for _, k := range rows.RunCase(c) {
			out.Add(k)
		}
	}
	// lib.NewRNG(seed) streams of neighbouring seeds are shifts of one another (they
	// re-synchronise after a few cases); Fork() starts from a hashed state instead
	r := lib.NewRNG(cfg.Seed).Fork()
	n := 250
	if cfg.Thorough() {
		n = 4000
	}
	opts := rows.GenOpts{}
	for i := 0; i < n; i++ {
		c := rows.GenCase(r, opts, i)
		c.Abi = true
		for _, k := range rows.RunCase(c) {
			out.Add(k)
		}
	}
	// selected array + a per-element filter on it + abi_idx: the element index survives rejections
	nf := 30
	if cfg.Thorough() {
		nf = 500
	}
	fopts := rows.GenOpts{Filters: true, RowMixP: 100, ForceMode: "log"}
	for i := 0; i < nf; i++ {
		c := rows.GenCase(r, fopts, 50000+i)
		rows.EnsureAbiIdx(c)
		c.Abi = true
		for _, k := range rows.RunCase(c) {
			out.Add(k)
		}
	}
	nj := 30
	if cfg.Thorough() {
		nj = 400
	}
	js, notes, err := rows.JSONCases(r.Fork(), nj)
	if err != nil {
		return fmt.Errorf("json path: %w", err)
	}
	for _, k := range js {
		out.Add(k)
	}
	for k, v := range notes {
		out.Notes[k] = v
	}
	re, err := rows.ReentrantCases(r.Fork(), 9)
	if err != nil {
		return fmt.Errorf("two destinations: %w", err)
	}
	for _, k := range re {
		out.Add(k)
	}
	sh, snotes, err := rows.SharedCases(r.Fork(), 4, false)
	if err != nil {
		return fmt.Errorf("shared client: %w", err)
	}
	for _, k := range sh {
		out.Add(k)
	}
	for k, v := range snotes {
		out.Notes[k] = v
	}
	rows.DistNotes(out)
	// quick: one shard per core of the 16; thorough: 60 cases per shard
	out.PerShard = 60
	if !cfg.Thorough() {
		out.PerShard = (len(out.Cases) + 15) / 16
		if out.PerShard < 20 {
			out.PerShard = 20
		}
	}
	return out.Flush()
}
