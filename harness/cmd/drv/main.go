// drv: correspondence drivers.  drv <property> -tier quick|thorough -seed N -out DIR [-replay FILE]
package main

import (
	"flag"
	"fmt"
	"os"
	"sort"
)

type Cfg struct {
	Tier   string
	Seed   uint64
	Out    string
	Replay string
}

func (c Cfg) Thorough() bool { return c.Tier == "thorough" }

var drivers = map[string]func(Cfg) error{}

func main() {
	if len(os.Args) < 2 {
		names := []string{}
		for k := range drivers {
			names = append(names, k)
		}
		sort.Strings(names)
		fmt.Fprintln(os.Stderr, "usage: drv <property> [flags]; drivers:", names)
		os.Exit(2)
	}
	prop := os.Args[1]
	fs := flag.NewFlagSet("drv", flag.ExitOnError)
	var cfg Cfg
	fs.StringVar(&cfg.Tier, "tier", "quick", "quick|thorough")
	fs.Uint64Var(&cfg.Seed, "seed", 1, "seed")
	fs.StringVar(&cfg.Out, "out", ".", "output directory")
	fs.StringVar(&cfg.Replay, "replay", "", "replay file")
	fs.Parse(os.Args[2:])
	d, ok := drivers[prop]
	if !ok {
		fmt.Fprintln(os.Stderr, "unknown driver", prop)
		os.Exit(2)
	}
	if err := d(cfg); err != nil {
		fmt.Fprintln(os.Stderr, "driver error:", err)
		os.Exit(3)
	}
}
