// c09: correspondence driver of property C09 (ABI event data decoded exactly).
package main

import "verif/harness/lib"

func main() { lib.Main(runC09) }
