package main

import (
	"bytes"
	"context"
	"encoding/json"
	"fmt"
	"os"
	"strconv"
	"strings"
	"sync"

	"github.com/indexsupply/shovel/dig"
	"github.com/indexsupply/shovel/eth"
	"github.com/indexsupply/shovel/wpg"
	"verif/harness/abi"
	"verif/harness/lib"
)

const c09Header = `From Shovel Require Import Base.Outcome Model.AbiType Model.AbiScan Model.AbiEnc Model.AbiParse Model.AbiSig Corr.AbiCase Corr.RunC09.
From Coq Require Import List NArith ZArith. Import ListNotations. Open Scope N_scope.`

// corpus of declarations every run starts with (JSON-level shapes the property names)
func corpus() [][]*abi.Ty {
	u := func(dims ...int) *abi.Ty { return &abi.Ty{EKind: "uint", Bits: 256, Dims: dims, Sel: true} }
	e := func(kind string, bits int, sel bool, dims ...int) *abi.Ty {
		return &abi.Ty{EKind: kind, Bits: bits, Dims: dims, Sel: sel}
	}
	tup := func(dims []int, cs ...*abi.Ty) *abi.Ty { return &abi.Ty{EKind: "tuple", Comps: cs, Dims: dims} }
	res := [][]*abi.Ty{
		{u(12)}, {u(10)}, {u(21)}, {u(100)}, {u(1)}, {u(11)}, {u(2, 0)}, {u(0, 3)}, {u(0, 0)}, {u(10, 12)},
		{e("bytes", 0, true, 0)}, {e("bytes", 0, true, 3)}, {e("bytes", 0, true, 10)}, {e("string", 0, true, 0)},
		{e("string", 0, true, 2)}, {e("bytesN", 32, true, 0)}, {e("bytesN", 1, true, 12)}, {e("bytes", 0, true)},
		{e("bytesN", 4, true)}, {e("string", 0, true)},
		{tup([]int{0}, u(), e("bytes", 0, true))},
		{tup(nil, u(), tup([]int{0}, e("address", 0, true), e("string", 0, false)), u(0))},
		{e("uint", 8, false), tup([]int{2}, e("bool", 0, true), e("bytes", 0, false, 0)), e("string", 0, true, 0, 0)},
		{tup([]int{0, 2}, u(), e("int", 64, false, 3))},
		{e("address", 0, true), e("bytes", 0, false), u(0), e("bytes", 0, true)},
	}
	for _, ins := range res {
		nm, col := 0, 0
		var name func(t *abi.Ty)
		name = func(t *abi.Ty) {
			t.Name = fmt.Sprintf("a%d", nm)
			nm++
			if t.Sel {
				t.Col = fmt.Sprintf("c%d", col)
				col++
			}
			for _, c := range t.Comps {
				name(c)
			}
		}
		for _, t := range ins {
			name(t)
		}
	}
	return res
}

type scanDesc struct {
	Op     string   `json:"op"`
	JSON   string   `json:"json"`
	Type   string   `json:"type"`
	Inputs []string `json:"inputs"`
}

func declCase(out *lib.Out, d *abi.Decl, kind string) {
	obsC := lib.CPanic
	ok, msg := true, ""
	if d.Panic == "" {
		obsC = lib.COk(abi.CoqType(d.GoType))
		ok, msg = abi.SameTree(d.Root, d.GoType)
		if ok && d.GoCols != d.NCols {
			ok, msg = false, fmt.Sprintf("%d selected leaves, decoder has %d columns", d.NCols, d.GoCols)
		}
	} else {
		ok, msg = false, "Event.ABIType panicked: "+d.Panic
	}
	if !ok {
		msg = "type parser: " + msg + " for " + d.JSON
	}
	nontriv := false
	for _, t := range d.Ins {
		if len(t.Dims) > 0 || t.IsTuple() || t.EKind == "bytes" || t.EKind == "string" || t.EKind == "bytesN" {
			nontriv = true
		}
	}
	out.Add(lib.Case{
		Coq:  fmt.Sprintf("CDecl %s %s %s %s %s", abi.CB([]byte(d.Name)), abi.CoqTys(d.Ins), abi.CoqEvent(d.Event), obsC, lib.CNat(d.GoCols)),
		Desc: scanDesc{Op: "decl", JSON: d.JSON, Type: abi.TypeString(d.GoType)}, Kind: kind, Nontrivial: nontriv,
		OracleOK: ok, OracleMsg: msg, Size: len(d.JSON)})
}

// scanCase runs the given inputs through ONE decoder instance.  vals may be nil
// (replay): then there is no value oracle.
func scanCase(out *lib.Out, d *abi.Decl, vals []*abi.Val, datas [][]byte, garbage [][]byte, kind string) {
	res := dig.VerifNewResult(d.Event)
	indom := d.Root != nil && d.Root.InDomain()
	ok, msg := true, ""
	runs := make([]string, 0, len(datas))
	var sxRuns []string
	desc := scanDesc{Op: "scan", JSON: d.JSON, Type: abi.TypeString(d.GoType)}
	size := 0
	for i, data := range datas {
		in := abi.FreshInput(data)
		obs := abi.RunScan(res, in)
		desc.Inputs = append(desc.Inputs, abi.Hex(data))
		size += len(data)
		fail := func(m string) {
			if ok {
				ok, msg = false, fmt.Sprintf("%s (type %s, value #%d, %d bytes)", m, abi.TypeString(d.GoType), i, len(data))
			}
		}
		switch obs.Kind {
		case "panic":
			fail("Scan panicked on a well-formed encoding: " + obs.PanicMsg)
		case "err":
			fail("Scan rejected a well-formed encoding")
		default:
			if !obs.CellsInside() {
				fail("decoded cell is not a sub-range of the input")
			}
			if vals != nil && indom {
				if eq, m := abi.RowsEqual(obs, abi.ExpectedRows(d.Root, vals[i], d.NCols)); !eq {
					fail("decoded cells differ from the encoded values: " + m)
				}
			}
		}
		if vals != nil {
			runs = append(runs, fmt.Sprintf("(%s, %s, %d, %s)", abi.CoqVal(d.Root, vals[i]), abi.CB(garbage[i]), abi.HashBytes(data), obs.Coq()))
			if extractor != nil {
				sxRuns = append(sxRuns, fmt.Sprintf("(%s %s %d %s)", abi.SxVal(d.Root, vals[i]), abi.SxBytes(garbage[i]), abi.HashBytes(data), obs.Sx()))
			}
		}
		if obs.Kind == "panic" {
			res = dig.VerifNewResult(d.Event)
			break
		}
	}
	if vals == nil {
		return
	}
	if ok && indom && d.NCols > 0 {
		if m := insertSample(d, vals, datas); m != "" {
			ok, msg = false, m+" (type "+abi.TypeString(d.GoType)+")"
		}
	}
	nontriv := d.NCols > 0 && (d.Root.Depth() > 0 || d.Root.Dynamic())
	c := lib.Case{
		Coq:  fmt.Sprintf("CScan %s %s %s", abi.CoqEvent(d.Event), lib.CBool(indom), lib.CList(runs)),
		Desc: desc, Kind: kind, Nontrivial: nontriv, OracleOK: ok, OracleMsg: msg, Size: size}
	// extra-volume cases go to the extracted evaluator only, unless the direct oracle failed
	if !extraOnly || !ok {
		out.Add(c)
	}
	if extractor != nil {
		ind := "0"
		if indom {
			ind = "1"
		}
		extractor.Add(c, fmt.Sprintf("(scan %s %s (%s))", abi.SxEvent(d.Event), ind, strings.Join(sxRuns, " ")), len(sxRuns))
	}
}

// thorough tier: the second (extracted) evaluator; extraOnly marks the extra
// volume that is not written to the vm_compute shards
var (
	extractor *abi.Extractor
	extraOnly bool
)

var maxData = 1200

// insertSample pushes the same data as logs of the declared event through
// Integration.Insert (recording wpg.Conn) and compares the number of rows, and
// the cells of byte-string typed columns, with the values that were encoded.
func insertSample(d *abi.Decl, vals []*abi.Val, datas [][]byte) string {
	ig, err := dig.New("ig", d.Event, nil, wpg.Table{Name: "t"}, dig.Notification{}, "")
	if err != nil {
		return "dig.New: " + err.Error()
	}
	nidx := dig.VerifNumIndexed(d.Event)
	var logs eth.Logs
	var want [][][]byte
	for i, data := range datas {
		topics := []eth.Bytes{append([]byte(nil), dig.VerifSigHash(ig)...)}
		for k := 0; k < nidx; k++ {
			topics = append(topics, make([]byte, 32))
		}
		logs = append(logs, eth.Log{Idx: eth.Uint64(i), Address: make([]byte, 20), Topics: topics, Data: abi.FreshInput(data)})
		want = append(want, abi.ExpectedRows(d.Root, vals[i], d.NCols)...)
	}
	blocks := make([]eth.Block, 1)
	blocks[0].Txs = make(eth.Txs, 1)
	blocks[0].Txs[0].Logs = logs
	conn := &abi.RecConn{}
	var ierr error
	if p, pm := lib.Catch(func() { _, ierr = ig.Insert(context.Background(), &sync.Mutex{}, conn, blocks) }); p {
		return "Integration.Insert panicked: " + pm
	}
	if ierr != nil {
		return "Integration.Insert failed: " + ierr.Error()
	}
	if len(conn.Rows) != len(want) {
		return fmt.Sprintf("Integration.Insert copied %d rows, %d expected", len(conn.Rows), len(want))
	}
	// declared kind of each column, in column order
	var kinds []string
	var walk func(t *abi.Ty)
	walk = func(t *abi.Ty) {
		for _, c := range t.Comps {
			walk(c)
		}
		if t.Sel {
			kinds = append(kinds, t.EKind)
		}
	}
	for _, t := range d.Ins {
		if !t.Indexed {
			walk(t)
		}
	}
	for i := range want {
		if len(conn.Rows[i]) != len(want[i]) {
			return fmt.Sprintf("Integration.Insert row %d has %d cells, %d expected", i, len(conn.Rows[i]), len(want[i]))
		}
		for j := range want[i] {
			if j >= len(kinds) || (kinds[j] != "bytes" && kinds[j] != "bytesN" && kinds[j] != "string" && kinds[j] != "function") {
				continue // integer / address / bool typing is C11's subject
			}
			var got []byte
			switch v := conn.Rows[i][j].(type) {
			case []byte:
				got = v
			case string:
				got = []byte(v)
			default:
				continue
			}
			if !bytes.Equal(got, want[i][j]) {
				return fmt.Sprintf("Integration.Insert row %d column %d holds %x, encoded %x", i, j, got, want[i][j])
			}
		}
	}
	return ""
}

func genScan(g *abi.Gen, out *lib.Out, d *abi.Decl, nvals int, kind string) {
	var vals []*abi.Val
	var datas, garbage [][]byte
	for i := 0; i < nvals; i++ {
		var v *abi.Val
		var data []byte
		for try := 0; ; try++ {
			v = g.Value(d.Root, 4)
			data = abi.Encode(d.Root, v)
			if len(data) <= maxData || try > 30 {
				break
			}
		}
		if len(data) > 3*maxData {
			continue
		}
		var gb []byte
		if g.R.Chance(1, 3) { // trailing garbage after the encoding
			gb = g.R.Bytes(g.R.Range(1, 70))
			data = append(data, gb...)
		}
		vals = append(vals, v)
		datas = append(datas, data)
		garbage = append(garbage, gb)
	}
	if len(vals) == 0 {
		return
	}
	scanCase(out, d, vals, datas, garbage, kind)
}

// fixedSameSignature: decoders built in ONE process, in both orders, for
// declarations with the same event name and the same input types (the same
// signature) but different column selections or different indexed flags
// (ERC-721 Transfer with tokenId indexed, then ERC-20 Transfer).  Each must
// decode with ITS OWN selection: type tree, Scan through one Result, and the
// same logs through dig.New + Integration.Insert.
func fixedSameSignature(out *lib.Out, r *lib.RNG) error {
	e := func(kind string, bits int, sel, indexed bool, dims ...int) *abi.Ty {
		return &abi.Ty{EKind: kind, Bits: bits, Sel: sel, Indexed: indexed, Dims: dims}
	}
	tup := func(dims []int, cs ...*abi.Ty) *abi.Ty { return &abi.Ty{EKind: "tuple", Comps: cs, Dims: dims} }
	groups := [][][]*abi.Ty{
		{ // Transfer(address,address,uint256): ERC-721 (tokenId indexed), ERC-20 (value in data), selections
			{e("address", 0, false, true), e("address", 0, false, true), e("uint", 256, false, true)},
			{e("address", 0, false, true), e("address", 0, false, true), e("uint", 256, true, false)},
			{e("address", 0, true, false), e("address", 0, true, false), e("uint", 256, true, false)},
			{e("address", 0, false, true), e("address", 0, true, false), e("uint", 256, false, false)},
		},
		{ // (uint256, bytes, uint256[]): every selection of a scalar, a dynamic member and an array
			{e("uint", 256, true, false), e("bytes", 0, false, false), e("uint", 256, false, false, 0)},
			{e("uint", 256, false, false), e("bytes", 0, true, false), e("uint", 256, true, false, 0)},
			{e("uint", 256, true, false), e("bytes", 0, true, false), e("uint", 256, true, false, 0)},
			{e("uint", 256, false, false), e("bytes", 0, false, false), e("uint", 256, true, false, 0)},
		},
		{ // tuple[] with different selected components
			{tup([]int{0}, e("address", 0, true, false), e("string", 0, false, false)), e("bool", 0, false, false)},
			{tup([]int{0}, e("address", 0, false, false), e("string", 0, true, false)), e("bool", 0, true, false)},
		},
	}
	run := func(evName string, ins []*abi.Ty) error {
		nm, col := 0, 0
		var w func(t *abi.Ty)
		w = func(t *abi.Ty) {
			t.Name = fmt.Sprintf("a%d", nm)
			nm++
			t.Col = ""
			if t.Sel {
				t.Col = fmt.Sprintf("c%d", col)
				col++
			}
			for _, c := range t.Comps {
				w(c)
			}
		}
		for _, t := range ins {
			w(t)
		}
		d, err := abi.NewDecl(evName, ins)
		if err != nil {
			return err
		}
		declCase(out, d, "decl-same-signature")
		if d.Panic == "" && d.NCols > 0 {
			genScan(&abi.Gen{R: r.Fork(), MaxDepth: 2}, out, d, 3, "scan-same-signature")
		}
		return nil
	}
	for gi, grp := range groups {
		for i := range grp {
			if err := run(fmt.Sprintf("Same%d", gi), grp[i]); err != nil {
				return err
			}
		}
		for i := len(grp) - 1; i >= 0; i-- {
			if err := run(fmt.Sprintf("Rev%d", gi), grp[i]); err != nil {
				return err
			}
		}
	}
	return nil
}

func runC09(cfg lib.Cfg) error {
	per := 36
	if cfg.Thorough() {
		per = 40
	}
	out := lib.NewOut("C09", cfg.Out, c09Header, "run", per)
	out.Rule = "decl: the declaration has an array suffix, a tuple or a bytes/bytesN/string leaf; scan: at least one selected leaf and at least one array or dynamic member, decoded by a reused Result"
	if cfg.Replay != "" {
		return replayC09(cfg, out)
	}
	r := lib.NewRNG(cfg.Seed)
	nDecl, nScan, nExtra := 250, 260, 0
	if cfg.Thorough() {
		nDecl, nScan, maxData, nExtra = 4000, 4000, 2500, 30000
		if v, err := strconv.Atoi(os.Getenv("VERIF_ABI_EXTRA")); err == nil { // experiments: volume of the extra stream
			nExtra = v
		}
		var err error
		if extractor, err = abi.NewExtractor("c09", 8, 400); err != nil {
			return fmt.Errorf("extracted evaluator: %w", err)
		}
	}
	if err := fixedSameSignature(out, r.Fork()); err != nil {
		return err
	}
	for i, ins := range corpus() {
		d, err := abi.NewDecl(fmt.Sprintf("Corpus%d", i), ins)
		if err != nil {
			return err
		}
		declCase(out, d, "decl-corpus")
		if d.Panic == "" && d.NCols > 0 {
			g := &abi.Gen{R: r.Fork(), MaxDepth: 3}
			genScan(g, out, d, 4, "scan-corpus")
		}
	}
	for i := 0; i < nDecl; i++ {
		g := &abi.Gen{R: r.Fork(), MaxDepth: 3, AllowOut: i%8 == 7}
		d, err := abi.NewDecl(fmt.Sprintf("E%d", i), g.Inputs(false))
		if err != nil {
			return err
		}
		declCase(out, d, "decl-random")
	}
	depthHist := map[int]int{}
	for i := 0; i < nScan; i++ {
		g := &abi.Gen{R: r.Fork(), MaxDepth: 3, AllowOut: i%10 == 9}
		d, err := abi.NewDecl(fmt.Sprintf("S%d", i), g.Inputs(true))
		if err != nil {
			return err
		}
		if d.Panic != "" {
			declCase(out, d, "decl-random")
			continue
		}
		kind := "scan-random"
		if !d.Root.InDomain() {
			kind = "scan-outside-row-rule-domain"
		}
		depthHist[d.Root.Depth()]++
		genScan(g, out, d, g.R.Range(2, 5), kind)
	}
	// thorough: extra volume through the extracted evaluator only (the direct
	// oracles still run on every case; a failing case is added to the shards)
	extraOnly = true
	if nExtra > 0 {
		maxData = 1200 // the extracted model recomputes len(input) at every slice: cost grows with |input|^2
	}
	for i := 0; i < nExtra; i++ {
		g := &abi.Gen{R: r.Fork(), MaxDepth: 3, AllowOut: i%10 == 9}
		d, err := abi.NewDecl(fmt.Sprintf("X%d", i), g.Inputs(true))
		if err != nil {
			return err
		}
		if d.Panic != "" {
			declCase(out, d, "decl-random")
			continue
		}
		genScan(g, out, d, g.R.Range(2, 5), "scan-extracted-only")
	}
	extraOnly = false
	if extractor != nil {
		if err := extractor.Finish(out); err != nil {
			return fmt.Errorf("extracted evaluator: %w", err)
		}
	}
	for k, v := range depthHist {
		out.Dist[fmt.Sprintf("scan-array-depth-%d", k)] = v
	}
	out.Notes["streams"] = "corpus of declarations named by the property (T[k] with k in 1,10,11,12,21,100; bytes[], bytes[k], string[], bytesN[], tuple[], nested) + random declarations (tuple depth <= 3, up to 3 array suffixes) + random values incl. empty arrays/strings, trailing garbage on 1/3 of the inputs; one Result reused for all values of a declaration"
	return out.Flush()
}

func replayC09(cfg lib.Cfg, out *lib.Out) error {
	raw, err := os.ReadFile(cfg.Replay)
	if err != nil {
		return err
	}
	var rep struct {
		FailingInput struct {
			Desc scanDesc `json:"desc"`
		} `json:"failing_input"`
	}
	if err := json.Unmarshal(raw, &rep); err != nil {
		return err
	}
	ds := rep.FailingInput.Desc
	d, err := abi.DeclFromJSON(ds.JSON)
	if err != nil {
		return err
	}
	fmt.Printf("replay %s: type %s panic=%q\n", ds.Op, abi.TypeString(d.GoType), d.Panic)
	ok := true
	if ds.Op == "scan" && d.Panic == "" {
		res := dig.VerifNewResult(d.Event)
		for i, h := range ds.Inputs {
			obs := abi.RunScan(res, abi.FreshInput(abi.UnHex(h)))
			fmt.Printf("  input #%d (%d bytes): %s rows=%d %s\n", i, len(h)/2, obs.Kind, len(obs.Rows), obs.PanicMsg)
			for _, r := range obs.Rows {
				for j, c := range r {
					if c.Present {
						fmt.Printf("    col %d: off %d len %d %x\n", j, c.Off, c.Len, c.B)
					}
				}
			}
			if obs.Kind != "ok" {
				ok = false
			}
		}
	}
	out.Notes["replay"] = cfg.Replay
	out.Add(lib.Case{Coq: "CScan (mkevent [] []) true []", Desc: ds, Kind: "replay", OracleOK: ok, OracleMsg: "replayed input still fails"})
	return out.Flush()
}
