// c19: correspondence driver of property C19 (dashboard authentication).
package main

import "verif/harness/lib"

func main() { lib.Main(runC19) }
