// Driver of property C06: start, stop and resume.  Grid over start (unset,
// 1, h-3, h, h+1, h+2, h+10), stop (unset, below start, = start, between, h,
// h+5), batch (1, 2, 3, 7) and a prior recorded position (none, inside the
// range, at stop, beyond stop), with process restarts and head growth between
// steps.  Oracle: every row and position inside [start, stop]; completion
// reported iff the stop block is recorded (or the range is empty) and nothing
// is written by such a step; a task with a position resumes at position + 1
// whatever start says, one without begins at start, or at the head seen at
// first contact when no start is configured; no step panics.  The same for an
// integration with dependencies, and for two integrations (one bounded, one
// open) sharing the real jrpc2.Client of one source.
package main

import (
	"fmt"

	"verif/harness/lib"
	ts "verif/harness/tasksim"
)

const h = 8 // initial head

func run(cfg lib.Cfg) error {
	out := lib.NewOut("C06", cfg.Out, ts.Header(6), "run", 16)
	out.Rule = "non-trivial = the task recorded a position at least once and at least one step ended done, nothing-new or ahead after that"
	judge := func(sc *ts.Scenario, kind string) {
		ts.Judge(out, sc, kind, func(r *ts.Run) []string {
			return append(append(r.RangeOracle(), r.InvOracle()...), r.DepOracle()...)
		}, func(r *ts.Run) bool {
			c := r.CountOutcomes()
			return c["OConverged"] >= 1 && c["ODone"]+c["ONothingNew"]+c["OAhead"] >= 1
		})
	}
	if cfg.Replay != "" {
		sc, kind, err := ts.ReplayScenario(cfg.Replay)
		if err != nil {
			return err
		}
		judge(sc, kind)
		return out.Flush()
	}
	r := lib.NewRNG(cfg.Seed)
	starts := []uint64{0, 1, h - 3, h, h + 1, h + 2, h + 10}
	stopKinds := []string{"none", "below-start", "at-start", "between", "at-head", "beyond-head"}
	batches := []int{1, 2, 3, 7}
	priors := []string{"none", "inside", "at-stop", "beyond-stop"}
	shapes := []string{"log", "lognh", "tx"}
	total, kept := 0, 0
	for _, start := range starts {
		for _, sk := range stopKinds {
			for _, batch := range batches {
				for _, prior := range priors {
					eff := start // first block of the range
					if start == 0 {
						eff = h
					}
					var stop uint64
					switch sk {
					case "none":
						stop = 0
					case "below-start":
						if eff < 2 {
							continue
						}
						stop = eff - 1
					case "at-start":
						stop = eff
					case "between":
						if eff+2 >= h {
							continue
						}
						stop = eff + 2
					case "at-head":
						stop = h
					case "beyond-head":
						stop = h + 5
					}
					var pre []ts.PreCur
					switch prior {
					case "inside":
						hi := stop
						if hi == 0 || hi > h {
							hi = h
						}
						if eff >= hi {
							continue
						}
						pre = []ts.PreCur{{Tid: 1, Num: eff + (hi-eff)/2}}
					case "at-stop":
						if stop == 0 {
							continue
						}
						pre = []ts.PreCur{{Tid: 1, Num: stop}}
					case "beyond-stop":
						if stop == 0 {
							continue
						}
						pre = []ts.PreCur{{Tid: 1, Num: stop + 2}}
					}
					total++
					if !cfg.Thorough() && r.Intn(3) != 0 {
						continue
					}
					kept++
					shape := shapes[total%len(shapes)]
					sc := &ts.Scenario{Name: fmt.Sprintf("start%d-stop%d(%s)-batch%d-prior-%s", start, stop, sk, batch, prior),
						Seed: uint64(100 + total%7), Head: h, Preload: pre,
						Gen:  ts.GenOpts{MaxTxs: 2, MaxLogs: 3, Decoys: true, EmptyProb: 10},
						Srcs: []ts.SrcSpec{{Name: "main", ChainID: 1, Batch: batch, Conc: 1 + total%2, URL: "http://main.invalid"}},
						IGs: []ts.IGSpec{{Name: "ig1", Shape: shape, Table: "t1",
							Sources: []ts.SrcRef{{Name: "main", Start: start, Stop: stop}}}}}
					sc.Acts = append(sc.Acts, ts.Steps(1, 3)...)
					sc.Acts = append(sc.Acts, ts.Act{Do: "restart"})
					sc.Acts = append(sc.Acts, ts.Steps(1, 2)...)
					sc.Acts = append(sc.Acts, ts.Act{Do: "grow", K: 3})
					sc.Acts = append(sc.Acts, ts.Steps(1, 3)...)
					sc.Acts = append(sc.Acts, ts.Act{Do: "restart"}, ts.Act{Do: "grow", K: 4})
					sc.Acts = append(sc.Acts, ts.Steps(1, 16/batch+4)...)
					judge(sc, "grid-prior-"+prior)
				}
			}
		}
	}
	// the same range questions for an integration WITH dependencies: its target is the
	// smaller of the source head and the dependency position, and still never beyond stop.
	// Grid: stop x batch x where the referenced integration stands (below stop, at stop,
	// between stop and head, at the head).
	depTotal := 0
	for _, stop := range []uint64{5, 8} {
		for _, batch := range []int{2, 3, 7} {
			for _, ref := range []string{"below-stop", "at-stop", "beyond-stop", "at-head"} {
				depTotal++
				if !cfg.Thorough() && ref != "beyond-stop" && (depTotal+int(cfg.Seed))%2 != 0 {
					continue
				}
				var rpos int
				switch ref {
				case "below-stop":
					rpos = int(stop) - 2
				case "at-stop":
					rpos = int(stop)
				case "beyond-stop":
					rpos = int(stop) + 2
				case "at-head":
					rpos = 12
				}
				sc := &ts.Scenario{Name: fmt.Sprintf("dep-stop%d-batch%d-reference-%s", stop, batch, ref), Seed: uint64(200 + depTotal), Head: 12,
					Gen:  ts.GenOpts{MaxTxs: 2, MaxLogs: 3, Created: true, Decoys: true, EmptyProb: 10},
					Srcs: []ts.SrcSpec{{Name: "main", ChainID: 1, Batch: batch, Conc: 1 + depTotal%2, URL: "http://main.invalid"}},
					IGs: []ts.IGSpec{
						{Name: "a-dep", Shape: "dep", Table: "d1", Ref: "r-one", RefLo: 1, Hdr: depTotal%3 == 0, Sources: []ts.SrcRef{{Name: "main", Start: 1, Stop: stop}}},
						{Name: "r-one", Shape: "created", Table: "r1", Sources: []ts.SrcRef{{Name: "main", Start: 1, Stop: uint64(rpos)}}},
					}}
				// the referenced integration runs to its own stop = the wanted position
				sc.Acts = append(sc.Acts, ts.Steps(2, rpos/batch+2)...)
				sc.Acts = append(sc.Acts, ts.Steps(1, int(stop)/batch+3)...)
				sc.Acts = append(sc.Acts, ts.Act{Do: "restart"})
				sc.Acts = append(sc.Acts, ts.Steps(1, 3)...)
				sc.Acts = append(sc.Acts, ts.Act{Do: "grow", K: 3})
				sc.Acts = append(sc.Acts, ts.Steps(1, 3)...)
				judge(sc, "dep-grid-reference-"+ref)
			}
		}
	}
	// how the configuration SPELLS start / stop / chain_id: the values travel as JSON text ->
	// json.Unmarshal into config.Root (wos.EnvUint64) -> ValidateFix -> loadTasks / WithRange;
	// the same for a declaration stored in shovel.integrations.  Bare numbers, quoted decimals,
	// zero-padded quoted decimals (also "08" / "09", which are not even octal numerals) and
	// "$NAME" references to the environment all denote the DECIMAL value.  Load-time oracle:
	// the task's range is the configured decimal value; then the usual range oracle.
	for v, c := range []struct {
		start, stop         uint64
		startText, stopText string
		env                 map[string]string
		chainText           string
		db                  bool
	}{
		{10, 14, ``, ``, nil, ``, false},           // control: bare numbers
		{10, 14, `"10"`, `"14"`, nil, ``, false},   // quoted decimals
		{10, 14, `"010"`, `"014"`, nil, ``, false}, // zero-padded: octal would be 8 and 12
		{10, 17, `"0010"`, `"00017"`, nil, `"010"`, false},
		{8, 9, `"08"`, `"09"`, nil, ``, false}, // not octal numerals at all
		{10, 12, `"$C06_START"`, `"$C06_STOP"`, map[string]string{"C06_START": "010", "C06_STOP": "012"}, ``, false},
		{11, 0, `"$C06_START"`, ``, map[string]string{"C06_START": "0011"}, `"$C06_CHAIN"`, false},
		{10, 14, `"010"`, `"014"`, nil, ``, true}, // stored in shovel.integrations
		{12, 15, `"12"`, `"$C06_STOP"`, map[string]string{"C06_STOP": "015"}, ``, true},
	} {
		sc := &ts.Scenario{Name: fmt.Sprintf("spelling-%d-start-%s-stop-%s", v, c.startText, c.stopText), Seed: uint64(400 + v), Head: 18, Env: c.env,
			Gen:  ts.GenOpts{MaxTxs: 2, MaxLogs: 3, Decoys: true, EmptyProb: 0},
			Srcs: []ts.SrcSpec{{Name: "main", ChainID: 10, ChainIDText: c.chainText, Batch: 3, Conc: 1, URL: "http://main.invalid"}},
			IGs: []ts.IGSpec{{Name: "ig1", Shape: []string{"log", "tx"}[v%2], Table: "t1",
				Sources: []ts.SrcRef{{Name: "main", Start: c.start, Stop: c.stop, StartText: c.startText, StopText: c.stopText}}}}}
		if c.chainText == `"$C06_CHAIN"` {
			sc.Env["C06_CHAIN"] = "010"
		}
		if c.db {
			sc.DBRows = []ts.DBRow{{Name: "ig1", Copies: 1, Spelled: true}}
		}
		sc.Acts = append(sc.Acts, ts.Steps(1, 2)...)
		sc.Acts = append(sc.Acts, ts.Act{Do: "restart"})
		sc.Acts = append(sc.Acts, ts.Steps(1, 4)...)
		judge(sc, "spelling-of-start-stop")
	}
	// SEVERAL integrations stored in shovel.integrations (as the dashboard stores them), each
	// with its own start / stop on the same source, loaded through loadTasks in both row
	// orders, alone and next to an integration from the file.  Load-time oracle: every task's
	// range is the one of ITS OWN stored declaration; then the range oracle on what they write.
	for v, c := range []struct {
		order  []string
		shape2 string
		file   bool
	}{
		{[]string{"ig1", "ig2"}, "log", false},
		{[]string{"ig2", "ig1"}, "log", false},
		{[]string{"ig1", "ig2", "ig3"}, "tx", false},
		{[]string{"ig3", "ig1", "ig2"}, "tx", false},
		{[]string{"ig2", "ig1"}, "tx", true}, // ig3 stays in the file
	} {
		sc := &ts.Scenario{Name: fmt.Sprintf("stored-integrations-%d-rows-%v", v, c.order), Seed: uint64(500 + v), Head: 12,
			Gen:  ts.GenOpts{MaxTxs: 2, MaxLogs: 3, Decoys: true, EmptyProb: 0},
			Srcs: []ts.SrcSpec{{Name: "main", ChainID: 1, Batch: 3, Conc: 1, URL: "http://main.invalid"}},
			IGs: []ts.IGSpec{
				{Name: "ig1", Shape: "log", Table: "t1", Sources: []ts.SrcRef{{Name: "main", Start: 2, Stop: 5}}},
				{Name: "ig2", Shape: c.shape2, Table: "t2", Sources: []ts.SrcRef{{Name: "main", Start: 4, Stop: 9}}},
				{Name: "ig3", Shape: "log", Table: "t3", AddrFlt: true, Sources: []ts.SrcRef{{Name: "main", Start: 7}}},
			}}
		for _, n := range c.order {
			sc.DBRows = append(sc.DBRows, ts.DBRow{Name: n, Copies: 1})
		}
		for k := 0; k < 3; k++ {
			sc.Acts = append(sc.Acts, ts.Act{Do: "stepall"})
		}
		sc.Acts = append(sc.Acts, ts.Act{Do: "restart"})
		for k := 0; k < 3; k++ {
			sc.Acts = append(sc.Acts, ts.Act{Do: "stepall"})
		}
		judge(sc, "stored-integrations-own-range")
	}
	// two integrations on ONE source through the real jrpc2.Client (one client per source,
	// shared segment caches, maxreads 2), same plan kind, both at the same position; "bounded"
	// has a stop inside the next batch, "open" has none and asks for the longer batch from the
	// same first block.  Whatever the order of their steps, bounded may only write up to its
	// stop: the stop exists only in the limit handed to Source.Get.  Partitions too (conc 2:
	// the last partition of the clipped batch is shorter than the open task's).
	shared := 0
	for _, shape := range []string{"log", "tx"} {
		for _, c := range []struct {
			batch, conc int
			stop, prior uint64 // prior: position both tasks have recorded before (0 = none, start 1)
			openFirst   bool
		}{
			{5, 1, 2, 0, true},
			{5, 1, 4, 0, true},
			{6, 2, 5, 0, true}, // partitions (1,3)(4,3) and (1,3)(4,2)
			{5, 1, 8, 5, true}, // both resume at 6
			{4, 2, 7, 4, true}, // (5,2)(7,2) and (5,2)(7,1)
			{5, 1, 3, 0, false},
		} {
			shared++
			sc := &ts.Scenario{Name: fmt.Sprintf("shared-client-%s-batch%dc%d-stop%d-prior%d-openfirst-%v", shape, c.batch, c.conc, c.stop, c.prior, c.openFirst),
				Seed: uint64(300 + shared), Head: 12, Real: true,
				Gen:  ts.GenOpts{MaxTxs: 2, MaxLogs: 3, Decoys: true, EmptyProb: 10},
				Srcs: []ts.SrcSpec{{Name: "main", ChainID: 1, Batch: c.batch, Conc: c.conc, URL: "http://main.invalid"}},
				IGs: []ts.IGSpec{
					{Name: "bounded", Shape: shape, Table: "t1", Sources: []ts.SrcRef{{Name: "main", Start: 1, Stop: c.stop}}},
					{Name: "open", Shape: shape, Table: "t2", Sources: []ts.SrcRef{{Name: "main", Start: 1}}},
				}}
			if c.prior > 0 {
				sc.Preload = []ts.PreCur{{Tid: 1, Num: c.prior}, {Tid: 2, Num: c.prior}}
			}
			a, b := 2, 1 // open, bounded
			if !c.openFirst {
				a, b = 1, 2
			}
			for k := 0; k < 3; k++ {
				sc.Acts = append(sc.Acts, ts.Act{Do: "step", Tid: a}, ts.Act{Do: "step", Tid: b})
			}
			sc.Acts = append(sc.Acts, ts.Act{Do: "restart"}, ts.Act{Do: "grow", K: 3})
			for k := 0; k < 3; k++ {
				sc.Acts = append(sc.Acts, ts.Act{Do: "step", Tid: a}, ts.Act{Do: "step", Tid: b})
			}
			judge(sc, "shared-real-client-stop-inside-batch")
		}
	}
	out.Notes["dep-grid"] = fmt.Sprintf("%d (stop, batch, reference position) combinations with a dependent integration, in the quick tier: every reference-beyond-stop cell and half of the others per seed", depTotal)
	out.Notes["grid"] = fmt.Sprintf("%d admissible (start, stop, batch, prior) combinations, %d run in this tier", total, kept)
	out.Notes["exhaustive"] = cfg.Thorough()
	return out.Flush()
}
