// Driver of property C06: start, stop and resume.  Grid over start (unset,
// 1, h-3, h, h+1, h+2, h+10), stop (unset, below start, = start, between, h,
// h+5), batch (1, 2, 3, 7) and a prior recorded position (none, inside the
// range, at stop, beyond stop), with process restarts and head growth between
// steps.  Oracle: every row and position inside [start, stop]; completion
// reported iff the stop block is recorded (or the range is empty) and nothing
// is written by such a step; a task with a position resumes at position + 1
// whatever start says, one without begins at start, or at the head seen at
// first contact when no start is configured; no step panics.
package main

import (
	"fmt"

	"verif/harness/lib"
	ts "verif/harness/tasksim"
)

const h = 8 // initial head

func run(cfg lib.Cfg) error {
	out := lib.NewOut("C06", cfg.Out, ts.Header(6), "run", 16)
	out.Rule = "non-trivial = the task recorded a position at least once and at least one step ended done, nothing-new or ahead after that"
	judge := func(sc *ts.Scenario, kind string) {
		ts.Judge(out, sc, kind, func(r *ts.Run) []string {
			return append(r.RangeOracle(), r.InvOracle()...)
		}, func(r *ts.Run) bool {
			c := r.CountOutcomes()
			return c["OConverged"] >= 1 && c["ODone"]+c["ONothingNew"]+c["OAhead"] >= 1
		})
	}
	if cfg.Replay != "" {
		sc, kind, err := ts.ReplayScenario(cfg.Replay)
		if err != nil {
			return err
		}
		judge(sc, kind)
		return out.Flush()
	}
	r := lib.NewRNG(cfg.Seed)
	starts := []uint64{0, 1, h - 3, h, h + 1, h + 2, h + 10}
	stopKinds := []string{"none", "below-start", "at-start", "between", "at-head", "beyond-head"}
	batches := []int{1, 2, 3, 7}
	priors := []string{"none", "inside", "at-stop", "beyond-stop"}
	shapes := []string{"log", "lognh", "tx"}
	total, kept := 0, 0
	for _, start := range starts {
		for _, sk := range stopKinds {
			for _, batch := range batches {
				for _, prior := range priors {
					eff := start // first block of the range
					if start == 0 {
						eff = h
					}
					var stop uint64
					switch sk {
					case "none":
						stop = 0
					case "below-start":
						if eff < 2 {
							continue
						}
						stop = eff - 1
					case "at-start":
						stop = eff
					case "between":
						if eff+2 >= h {
							continue
						}
						stop = eff + 2
					case "at-head":
						stop = h
					case "beyond-head":
						stop = h + 5
					}
					var pre []ts.PreCur
					switch prior {
					case "inside":
						hi := stop
						if hi == 0 || hi > h {
							hi = h
						}
						if eff >= hi {
							continue
						}
						pre = []ts.PreCur{{Tid: 1, Num: eff + (hi-eff)/2}}
					case "at-stop":
						if stop == 0 {
							continue
						}
						pre = []ts.PreCur{{Tid: 1, Num: stop}}
					case "beyond-stop":
						if stop == 0 {
							continue
						}
						pre = []ts.PreCur{{Tid: 1, Num: stop + 2}}
					}
					total++
					if !cfg.Thorough() && r.Intn(3) != 0 {
						continue
					}
					kept++
					shape := shapes[total%len(shapes)]
					sc := &ts.Scenario{Name: fmt.Sprintf("start%d-stop%d(%s)-batch%d-prior-%s", start, stop, sk, batch, prior),
						Seed: uint64(100 + total%7), Head: h, Preload: pre,
						Gen:  ts.GenOpts{MaxTxs: 2, MaxLogs: 3, Decoys: true, EmptyProb: 10},
						Srcs: []ts.SrcSpec{{Name: "main", ChainID: 1, Batch: batch, Conc: 1 + total%2, URL: "http://main.invalid"}},
						IGs: []ts.IGSpec{{Name: "ig1", Shape: shape, Table: "t1",
							Sources: []ts.SrcRef{{Name: "main", Start: start, Stop: stop}}}}}
					sc.Acts = append(sc.Acts, ts.Steps(1, 3)...)
					sc.Acts = append(sc.Acts, ts.Act{Do: "restart"})
					sc.Acts = append(sc.Acts, ts.Steps(1, 2)...)
					sc.Acts = append(sc.Acts, ts.Act{Do: "grow", K: 3})
					sc.Acts = append(sc.Acts, ts.Steps(1, 3)...)
					sc.Acts = append(sc.Acts, ts.Act{Do: "restart"}, ts.Act{Do: "grow", K: 4})
					sc.Acts = append(sc.Acts, ts.Steps(1, 16/batch+4)...)
					judge(sc, "grid-prior-"+prior)
				}
			}
		}
	}
	out.Notes["grid"] = fmt.Sprintf("%d admissible (start, stop, batch, prior) combinations, %d run in this tier", total, kept)
	out.Notes["exhaustive"] = cfg.Thorough()
	return out.Flush()
}
