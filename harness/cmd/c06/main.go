package main

import "verif/harness/lib"

func main() { lib.Main(run) }
