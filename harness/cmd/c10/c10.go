package main

import (
	"bufio"
	"bytes"
	"encoding/json"
	"fmt"
	"math/big"
	"os"
	"os/exec"
	"path/filepath"
	"strconv"
	"strings"

	"verif/harness/abi"
	"verif/harness/lib"
)

const c10Header = `From Shovel Require Import Base.Outcome Model.AbiType Model.AbiScan Model.AbiEnc Model.AbiParse Model.AbiSig Corr.AbiCase Corr.RunC10.
From Coq Require Import List NArith ZArith. Import ListNotations. Open Scope N_scope.`

type plan struct {
	d    *abi.Decl
	base []byte
	muts []abi.Mut
	kind string
}

type malDesc struct {
	Op    string   `json:"op"`
	JSON  string   `json:"json"`
	Type  string   `json:"type"`
	Base  string   `json:"base"`
	Muts  []string `json:"mutations"`
	Input string   `json:"input,omitempty"` // the first failing input, hex
}

func mkTy(kind string, bits int, sel bool, dims ...int) *abi.Ty {
	return &abi.Ty{EKind: kind, Bits: bits, Dims: dims, Sel: sel}
}

func nameAll(ins []*abi.Ty) {
	nm, col := 0, 0
	var name func(t *abi.Ty)
	name = func(t *abi.Ty) {
		t.Name = fmt.Sprintf("a%d", nm)
		nm++
		if t.Sel {
			t.Col = fmt.Sprintf("c%d", col)
			col++
		}
		for _, c := range t.Comps {
			name(c)
		}
	}
	for _, t := range ins {
		name(t)
	}
}

// mutations of one valid encoding: truncations (every length when the encoding
// is small, else every 32-byte boundary and +-1), every word replaced by every
// boundary value of the property (relative to the whole data), every
// offset/length/count word replaced by the boundary values relative to the
// sub-slice the decoder interprets it against, random inputs
func mutations(r *lib.RNG, base []byte, slots []abi.Slot, nRandom int, allTrunc int) []abi.Mut {
	ms := []abi.Mut{{Kind: "id"}}
	seen := map[int]bool{}
	if len(base) <= allTrunc {
		for n := 0; n < len(base); n++ {
			seen[n] = true
			ms = append(ms, abi.Mut{Kind: "trunc", N: n})
		}
	}
	for b := 0; b <= len(base); b += 32 {
		for _, n := range []int{b - 1, b, b + 1} {
			if n >= 0 && n < len(base) && !seen[n] {
				seen[n] = true
				ms = append(ms, abi.Mut{Kind: "trunc", N: n})
			}
		}
	}
	for i := 0; i+32 <= len(base); i += 32 {
		for k := 0; k < abi.NBoundary; k++ {
			ms = append(ms, abi.Mut{Kind: "word", I: i / 32, K: k})
		}
	}
	for _, sl := range slots {
		for _, v := range abi.SlotValues(sl, len(base)) {
			ms = append(ms, abi.Mut{Kind: "wordv", I: sl.Word, V: v})
		}
		for _, v := range abi.WrapValues(sl, len(base)) {
			ms = append(ms, abi.Mut{Kind: "wordw", I: sl.Word, V: v})
		}
	}
	for i := 0; i < nRandom; i++ {
		var raw []byte
		switch r.Intn(3) {
		case 0: // random bytes
			raw = r.Bytes(r.Intn(200))
		case 1: // word soup: small numbers and multiples of 32, so that offsets land inside
			n := r.Range(1, 12)
			for j := 0; j < n; j++ {
				switch r.Intn(4) {
				case 0:
					raw = append(raw, abi.Word(uint64(32*r.Intn(n+1)))...)
				case 1:
					raw = append(raw, abi.Word(uint64(r.Intn(6)))...)
				case 2:
					raw = append(raw, abi.Word(uint64(r.Intn(32*n+40)))...)
				default:
					raw = append(raw, r.Bytes(32)...)
				}
			}
		default: // the base with a few random byte flips in the low bytes of words
			raw = append([]byte(nil), base...)
			for j := 0; j < 3 && len(raw) >= 32; j++ {
				w := r.Intn(len(raw) / 32)
				raw[32*w+31-r.Intn(2)] = byte(r.Intn(256))
			}
		}
		ms = append(ms, abi.Mut{Kind: "raw", Raw: raw})
	}
	// the whole sequence once more at the end exercises reuse after errors
	ms = append(ms, abi.Mut{Kind: "id"})
	return ms
}

// padStatic inserts unselected static composites (T[k], static tuples) in front
// of members of the declaration and of its tuples: the decoder skips them
// without reading and still advances by their size.
func padStatic(r *lib.RNG, ins []*abi.Ty) []*abi.Ty {
	n := 0
	pad := func() *abi.Ty {
		n++
		var t *abi.Ty
		switch r.Intn(3) {
		case 0:
			t = mkTy("uint", 256, false, r.Range(2, 4))
		case 1:
			t = &abi.Ty{EKind: "tuple", Comps: []*abi.Ty{mkTy("uint", 256, false), mkTy("address", 0, false)}}
			t.Comps[0].Name, t.Comps[1].Name = fmt.Sprintf("q%da", n), fmt.Sprintf("q%db", n)
		default:
			t = mkTy("bytesN", 32, false, 2, 2)
		}
		t.Name = fmt.Sprintf("p%d", n)
		return t
	}
	var walk func(list []*abi.Ty, top bool) []*abi.Ty
	walk = func(list []*abi.Ty, top bool) []*abi.Ty {
		var out []*abi.Ty
		for _, t := range list {
			if t.IsTuple() {
				t.Comps = walk(t.Comps, false)
			}
			if (!top || !t.Indexed) && r.Chance(1, 2) {
				out = append(out, pad())
			}
			out = append(out, t)
		}
		return out
	}
	return walk(ins, true)
}

func corpusC10() [][]*abi.Ty {
	tup := func(dims []int, cs ...*abi.Ty) *abi.Ty { return &abi.Ty{EKind: "tuple", Comps: cs, Dims: dims} }
	res := [][]*abi.Ty{
		{mkTy("bytes", 0, true)},
		{mkTy("uint", 256, true, 0)},
		{mkTy("string", 0, true, 0)},
		{mkTy("uint", 256, true, 0, 0)},
		{mkTy("uint", 256, false), mkTy("bytes", 0, false), mkTy("uint", 8, true, 2)},
		{tup([]int{0}, mkTy("address", 0, true), mkTy("bytes", 0, true))},
		{tup(nil, mkTy("uint", 256, true, 3), mkTy("string", 0, true)), mkTy("bytes", 0, true, 2)},
		{mkTy("uint", 256, true, 2, 0)},
		{mkTy("bytes", 0, true, 0)},
		{tup([]int{0}, mkTy("string", 0, true), mkTy("uint", 256, true))},
		{mkTy("uint", 256, false), mkTy("string", 0, true, 0)},
		{mkTy("string", 0, true, 0, 2)},
		// an UNSELECTED static composite (skipped without looking at the input) before
		// another static member: the caller's own length guard is the only one
		{mkTy("uint", 256, false, 4), mkTy("uint", 256, true)},
		{tup([]int{0}, mkTy("uint", 256, true), mkTy("uint", 256, false, 2))},
		{mkTy("uint", 256, false, 2, 2), mkTy("address", 0, true)},
		{tup(nil, mkTy("uint", 256, false), mkTy("uint", 256, false)), mkTy("bool", 0, true)},
		{mkTy("uint", 256, true), mkTy("uint", 256, false, 3), mkTy("uint", 256, true)},
		{mkTy("address", 0, true), tup(nil, mkTy("uint", 256, false), mkTy("bytesN", 32, false)), mkTy("bool", 0, true)},
		{tup([]int{2}, mkTy("uint", 256, false, 2), mkTy("uint", 8, true))},
	}
	for _, ins := range res {
		nameAll(ins)
	}
	return res
}

func runChild(jobFile string, startDecl, startRun int) (lines []string, killed string) {
	cmd := exec.Command(os.Args[0])
	cmd.Env = append(os.Environ(), "VERIF_C10_CHILD="+jobFile,
		"VERIF_C10_START_DECL="+strconv.Itoa(startDecl), "VERIF_C10_START_RUN="+strconv.Itoa(startRun),
		"GOMEMLIMIT=1GiB")
	var outb bytes.Buffer
	cmd.Stdout = &outb
	cmd.Stderr = os.Stderr
	err := cmd.Run()
	sc := bufio.NewScanner(&outb)
	sc.Buffer(make([]byte, 1<<20), 64<<20)
	for sc.Scan() {
		l := sc.Text()
		if strings.HasPrefix(l, "@@KILLED") {
			killed = strings.TrimPrefix(l, "@@KILLED ")
			continue
		}
		if l != "" {
			lines = append(lines, l)
		}
	}
	if err != nil && killed == "" {
		killed = "child died: " + err.Error()
	}
	return lines, killed
}

func runC10(cfg lib.Cfg) error {
	per := 2
	if cfg.Thorough() {
		per = 3
	}
	out := lib.NewOut("C10", cfg.Out, c10Header, "run", per)
	out.Rule = "a run sequence is non-trivial when the declaration has a selected leaf and at least one array or dynamic member and the sequence contains truncations and boundary-value words; every sequence is scanned by one reused Result"
	r := lib.NewRNG(cfg.Seed)
	nDecl, maxWords, nRandom, allTrunc := 12, 10, 10, 512
	if cfg.Thorough() {
		nDecl, maxWords, nRandom, allTrunc = 220, 32, 40, 512
	}
	if cfg.Replay != "" {
		return replayC10(cfg, out)
	}
	var plans []plan
	add := func(d *abi.Decl, g *abi.Gen, kind string, limit int) {
		var base []byte
		var val *abi.Val
		for try := 0; try < 60; try++ {
			v := g.Value(d.Root, 3)
			base = abi.Encode(d.Root, v)
			if len(base) <= 32*limit {
				val = v
				break
			}
			base = nil
		}
		if base == nil {
			return
		}
		plans = append(plans, plan{d: d, base: base, muts: mutations(g.R, base, abi.Layout(d.Root, val), nRandom, allTrunc), kind: kind})
	}
	// the offset window of an element of a dynamically sized array: string[] {"a","b"}
	// (256 bytes) truncated to every length, head slot 1 rewritten to 190..226
	{
		ins := []*abi.Ty{mkTy("string", 0, true, 0)}
		nameAll(ins)
		d, err := abi.NewDecl("W0", ins)
		if err != nil {
			return err
		}
		v := &abi.Val{Elems: []*abi.Val{{Elems: []*abi.Val{{B: []byte("a")}, {B: []byte("b")}}}}}
		base := abi.Encode(d.Root, v)
		ms := mutations(r.Fork(), base, abi.Layout(d.Root, v), 0, 512)
		for x := 186; x <= 230; x++ {
			ms = append(ms, abi.Mut{Kind: "wordv", I: 3, V: uint64(x)}, abi.Mut{Kind: "wordv", I: 2, V: uint64(x)})
		}
		plans = append(plans, plan{d: d, base: base, muts: ms, kind: "corpus-offset-window"})
	}
	for i, ins := range corpusC10() {
		d, err := abi.NewDecl(fmt.Sprintf("M%d", i), ins)
		if err != nil {
			return err
		}
		add(d, &abi.Gen{R: r.Fork(), MaxDepth: 2, MinArr: 2}, "corpus", 16)
	}
	nCorpus := len(plans)
	for i := 0; len(plans) < nDecl+nCorpus && i < 50*nDecl; i++ {
		g := &abi.Gen{R: r.Fork(), MaxDepth: 2, AllowOut: i%5 == 4}
		ins := g.Inputs(true)
		padded := i%2 == 0
		if padded {
			ins = padStatic(g.R, ins)
		}
		d, err := abi.NewDecl(fmt.Sprintf("R%d", i), ins)
		if err != nil {
			return err
		}
		if d.Panic != "" || (!padded && d.Root.Depth() == 0 && !d.Root.Dynamic() && i%4 != 0) {
			continue
		}
		add(d, g, "random", maxWords)
	}
	totalRuns, shardRuns, maxHeap := 0, 0, uint64(0)
	kinds := map[string]int{}
	var extractor *abi.Extractor
	// process runs the plans on the implementation (child process), applies the
	// direct oracles and emits the cases; extraOnly: the extra volume of the
	// thorough tier, evaluated by the extracted model only (a case whose direct
	// oracle fails is still added to the shards)
	process := func(plans []plan, extraOnly bool) error {
		// job file for the child (inside the output directory, never under /tmp)
		job := make([]jobDecl, len(plans))
		for i, p := range plans {
			job[i] = jobDecl{JSON: p.d.JSON, Base: p.base, Muts: p.muts}
		}
		jobFile := filepath.Join(cfg.Out, "job_C10.json")
		raw, _ := json.Marshal(job)
		if err := os.MkdirAll(cfg.Out, 0o755); err != nil {
			return err
		}
		if err := os.WriteFile(jobFile, raw, 0o644); err != nil {
			return err
		}
		defer os.Remove(jobFile)

		results := make([][]*jobRes, len(plans))
		for i := range results {
			results[i] = make([]*jobRes, len(plans[i].muts))
		}
		killedAt := map[[2]int]string{}
		sd, sr := 0, 0
		for guard := 0; guard < 200; guard++ {
			lines, killed := runChild(jobFile, sd, sr)
			lastD, lastR, done := -1, -1, false
			for _, l := range lines {
				if strings.HasPrefix(l, "@@CALL ") {
					fmt.Sscanf(l, "@@CALL %d %d", &lastD, &lastR)
					continue
				}
				var jr jobRes
				if err := json.Unmarshal([]byte(l), &jr); err != nil {
					return fmt.Errorf("child output: %v: %.100s", err, l)
				}
				if jr.Done {
					done = true
					continue
				}
				x := jr
				results[jr.Decl][jr.Run] = &x
			}
			if done {
				break
			}
			if lastD < 0 {
				return fmt.Errorf("child failed before the first call: %s", killed)
			}
			killedAt[[2]int{lastD, lastR}] = killed
			sd, sr = lastD, lastR+1
			if sr >= len(plans[sd].muts) {
				sd, sr = sd+1, 0
			}
			if sd >= len(plans) {
				break
			}
		}

		for pi, p := range plans {
			// segments: a panic or a kill ends the use of that decoder instance
			start := 0
			for start < len(p.muts) {
				ok, msg, failInput := true, "", ""
				var runs, sxRuns []string
				var descs []string
				end := start
				clenBound := big.NewInt(1)
				capBound := big.NewInt(8)
				for ; end < len(p.muts); end++ {
					m := p.muts[end]
					in := m.Apply(p.base)
					jr := results[pi][end]
					fail := func(s string) {
						if ok {
							ok, msg, failInput = false, fmt.Sprintf("%s: type %s, valid encoding of %d bytes %s", s, abi.TypeString(p.d.GoType), len(p.base), m.String()), abi.Hex(in)
						}
					}
					totalRuns++
					if !extraOnly {
						shardRuns++
					}
					kinds[m.Kind]++
					descs = append(descs, m.String())
					if jr == nil {
						why := killedAt[[2]int{pi, end}]
						fail("decoding did not finish (" + why + ")")
						runs = append(runs, fmt.Sprintf("(%s, %d, (SO 2 [] 0%%nat 0%%nat))", m.Coq(), abi.HashBytes(in)))
						sxRuns = append(sxRuns, fmt.Sprintf("(%s %d (so 2 () 0 0))", m.Sx(), abi.HashBytes(in)))
						end++
						break
					}
					obs := jr.Obs
					cost := abi.Cost(p.d.Root, len(in))
					bound := new(big.Int).Set(cost)
					if obs.Kind == "ok" && bound.Sign() == 0 {
						bound = big.NewInt(1)
					}
					if clenBound.Cmp(new(big.Int).Add(bound, big.NewInt(1))) < 0 {
						clenBound = new(big.Int).Add(bound, big.NewInt(1))
					}
					if jr.Heap > maxHeap {
						maxHeap = jr.Heap
					}
					if jr.SpareDiff != "" {
						fail("the outcome depends on bytes BEHIND the supplied data (slice with spare capacity): " + jr.SpareDiff)
					}
					switch obs.Kind {
					case "panic":
						fail("Scan panicked (" + obs.PanicMsg + ")")
					default:
						if !obs.CellsInside() {
							fail("decoded cell is not a sub-range of the input")
						}
						if big.NewInt(int64(obs.N)).Cmp(bound) > 0 {
							fail(fmt.Sprintf("%d rows for %d bytes of input exceed the bound %s", obs.N, len(in), bound))
						}
						if cb := new(big.Int).Add(new(big.Int).Lsh(new(big.Int).Add(bound, big.NewInt(1)), 1), big.NewInt(8)); capBound.Cmp(cb) < 0 {
							capBound = cb
						}
						if obs.CCap >= 0 && big.NewInt(int64(obs.CCap)).Cmp(capBound) > 0 {
							fail(fmt.Sprintf("capacity of the row collection grew to %d for %d bytes of input (bound %s): allocation follows a claimed count", obs.CCap, len(in), capBound))
						}
						if big.NewInt(int64(obs.CLen)).Cmp(clenBound) > 0 {
							fail(fmt.Sprintf("row collection grew to %d, bound %s", obs.CLen, clenBound))
						}
						// bytes allocated by the call: rows * (row header + cells) twice (collection + Bytes copy)
						hb := new(big.Int).Mul(bound, big.NewInt(int64(2*(24+24*(p.d.NCols+1))+64)))
						hb.Add(hb, big.NewInt(1<<16))
						if new(big.Int).SetUint64(jr.Heap).Cmp(hb) > 0 {
							fail(fmt.Sprintf("call allocated %d bytes for %d bytes of input (bound %s)", jr.Heap, len(in), hb))
						}
					}
					runs = append(runs, fmt.Sprintf("(%s, %d, %s)", m.Coq(), abi.HashBytes(in), obs.Coq()))
					if extractor != nil {
						sxRuns = append(sxRuns, fmt.Sprintf("(%s %d %s)", m.Sx(), abi.HashBytes(in), obs.Sx()))
					}
					if obs.Kind == "panic" {
						end++
						break
					}
				}
				nontriv := p.d.NCols > 0 && (p.d.Root.Depth() > 0 || p.d.Root.Dynamic()) && end-start > 20
				c := lib.Case{
					Coq: fmt.Sprintf("CMal %s %s %s", abi.CoqEvent(p.d.Event), abi.CB(p.base), lib.CList(runs)),
					Desc: malDesc{Op: "malformed", JSON: p.d.JSON, Type: abi.TypeString(p.d.GoType), Base: abi.Hex(p.base),
						Muts: descs, Input: failInput},
					Kind: "malformed-" + p.kind, Nontrivial: nontriv, OracleOK: ok, OracleMsg: msg, Size: len(p.base) + len(failInput)}
				if !extraOnly || !ok {
					out.Add(c)
				}
				if extractor != nil {
					extractor.Add(c, fmt.Sprintf("(mal %s %s (%s))", abi.SxEvent(p.d.Event), abi.SxBytes(p.base), strings.Join(sxRuns, " ")), len(sxRuns))
				}
				start = end
			}
		}
		return nil
	}
	nExtra := 0
	if cfg.Thorough() {
		nExtra = 300
		if v, err := strconv.Atoi(os.Getenv("VERIF_ABI_EXTRA")); err == nil { // experiments: volume of the extra stream
			nExtra = v
		}
		var err error
		if extractor, err = abi.NewExtractor("c10", 8, 12); err != nil {
			return fmt.Errorf("extracted evaluator: %w", err)
		}
	}
	if err := process(plans, false); err != nil {
		return err
	}
	if err := sharedDecoderCases(out, r.Fork()); err != nil {
		return err
	}
	if err := insertStream(out, r.Fork(), cfg.Thorough()); err != nil {
		return err
	}
	// thorough: extra declarations, evaluated by the extracted model only
	for done := 0; done < nExtra; {
		plans = nil
		for i := 0; len(plans) < 40 && i < 4000; i++ {
			g := &abi.Gen{R: r.Fork(), MaxDepth: 2, AllowOut: i%5 == 4}
			d, err := abi.NewDecl(fmt.Sprintf("X%d_%d", done, i), g.Inputs(true))
			if err != nil {
				return err
			}
			if d.Panic != "" || (d.Root.Depth() == 0 && !d.Root.Dynamic() && i%4 != 0) {
				continue
			}
			add(d, g, "extracted-only", 16)
		}
		if len(plans) == 0 {
			break
		}
		done += len(plans)
		if err := process(plans, true); err != nil {
			return err
		}
	}
	if extractor != nil {
		if err := extractor.Finish(out); err != nil {
			return fmt.Errorf("extracted evaluator: %w", err)
		}
	}
	for k, v := range kinds {
		out.Dist["input-"+k] = v
	}
	out.Notes["scans"] = totalRuns
	out.Notes["scans_in_vm_compute_shards"] = shardRuns
	out.Notes["max_bytes_allocated_by_one_call"] = maxHeap
	out.Notes["streams"] = "per declaration one valid encoding, then: every truncation length (encodings <= 512 bytes; else each 32-byte boundary and +-1); every offset/length/count word replaced by the boundary values relative to the sub-slice the decoder reads it against (layout known from the harness encoder); every 32-byte word replaced by each of 0,1,31,32,len-31,len,len+1,2^31,2^32,2^63-32,2^63-1,2^63,2^64-32,2^64-1,2^255 (exhaustive per encoding); random bytes, word soups and low-byte flips; all through one reused Result in a child process (2 s watchdog per call, 768 MiB heap limit)"
	return out.Flush()
}

func replayC10(cfg lib.Cfg, out *lib.Out) error {
	raw, err := os.ReadFile(cfg.Replay)
	if err != nil {
		return err
	}
	var rep struct {
		FailingInput struct {
			Desc malDesc `json:"desc"`
		} `json:"failing_input"`
	}
	if err := json.Unmarshal(raw, &rep); err != nil {
		return err
	}
	ds := rep.FailingInput.Desc
	if ds.Op == "shared-decoder" { // the scenario does not depend on the particular values: run it again
		if err := sharedDecoderCases(out, lib.NewRNG(cfg.Seed)); err != nil {
			return err
		}
		out.Notes["replay"] = cfg.Replay
		return out.Flush()
	}
	if ds.Op == "insert" {
		ok, msg := replayInsert(ds.JSON, abi.UnHex(ds.Input))
		fmt.Println("replay:", msg)
		out.Notes["replay"] = cfg.Replay
		out.Add(lib.Case{Coq: "CMal (mkevent [] []) [] []", Desc: ds, Kind: "replay", OracleOK: ok, OracleMsg: "replayed input still fails: " + msg})
		return out.Flush()
	}
	job := []jobDecl{{JSON: ds.JSON, Base: abi.UnHex(ds.Input), Muts: []abi.Mut{{Kind: "id"}}}}
	jobFile := filepath.Join(cfg.Out, "job_C10.json")
	rawj, _ := json.Marshal(job)
	os.MkdirAll(cfg.Out, 0o755)
	if err := os.WriteFile(jobFile, rawj, 0o644); err != nil {
		return err
	}
	defer os.Remove(jobFile)
	lines, killed := runChild(jobFile, 0, 0)
	ok := killed == ""
	for _, l := range lines {
		fmt.Println("replay:", l)
		if strings.Contains(l, `"Kind":"panic"`) {
			ok = false
		}
	}
	if killed != "" {
		fmt.Println("replay: child", killed)
	}
	out.Add(lib.Case{Coq: "CMal (mkevent [] []) [] []", Desc: ds, Kind: "replay", OracleOK: ok, OracleMsg: "replayed input still fails"})
	return out.Flush()
}
