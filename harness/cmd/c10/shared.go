package main

import (
	"bytes"
	"context"
	"errors"
	"fmt"
	"sync"
	"unsafe"

	"github.com/indexsupply/shovel/dig"
	"github.com/indexsupply/shovel/eth"
	"github.com/indexsupply/shovel/shovel"
	"github.com/indexsupply/shovel/shovel/config"
	"github.com/indexsupply/shovel/wpg"
	"github.com/jackc/pgx/v5"
	"github.com/jackc/pgx/v5/pgconn"
	"verif/harness/abi"
	"verif/harness/lib"
)

// Decoder instances are per destination: two destinations of ONE integration
// (as two sources give) must not share a decode buffer.  Destination A's
// Insert is parked inside the filter_ref query (QueryRow on the fake
// connection) between Scan and the remaining column reads; inside that call
// destination B's Insert decodes another log to completion.  Sequential
// re-entrancy: no goroutines, no sleeps.  Oracle: every byte-string value A
// hands to CopyFrom is BY ADDRESS a sub-range of A's own log data and equals
// the value that was encoded.

type boolRow struct{ v bool }

func (r boolRow) Scan(dest ...any) error {
	if len(dest) == 1 {
		if p, ok := dest[0].(*bool); ok {
			*p = r.v
			return nil
		}
	}
	return errors.New("unexpected Scan destination")
}

type reentrantConn struct {
	rows    [][]any
	onQuery func() // run once, inside the first QueryRow
	queries int
}

func (c *reentrantConn) CopyFrom(_ context.Context, _ pgx.Identifier, _ []string, src pgx.CopyFromSource) (int64, error) {
	var n int64
	for src.Next() {
		v, err := src.Values()
		if err != nil {
			return n, err
		}
		c.rows = append(c.rows, v)
		n++
	}
	return n, src.Err()
}
func (c *reentrantConn) Exec(context.Context, string, ...any) (pgconn.CommandTag, error) {
	return pgconn.CommandTag{}, nil
}
func (c *reentrantConn) QueryRow(context.Context, string, ...any) pgx.Row {
	c.queries++
	if c.onQuery != nil {
		f := c.onQuery
		c.onQuery = nil
		f()
	}
	return boolRow{true}
}
func (c *reentrantConn) Query(context.Context, string, ...any) (pgx.Rows, error) {
	return nil, errors.New("unexpected Query")
}

type sharedVariant struct {
	second string // type of the second (data) input
	kind   string
}

func inside(outer, inner []byte) bool {
	if len(inner) == 0 {
		return true
	}
	if len(outer) == 0 {
		return false
	}
	o := uintptr(unsafe.Pointer(&outer[0]))
	p := uintptr(unsafe.Pointer(&inner[0]))
	return p >= o && p+uintptr(len(inner)) <= o+uintptr(len(outer))
}

func sharedDecoderCases(out *lib.Out, r *lib.RNG) error {
	variants := []sharedVariant{{"bytes", "bytes"}, {"string", "string"}, {"bytes32[]", "bytesN"}}
	for vi, sv := range variants {
		for _, sameName := range []bool{true, false} {
			js := fmt.Sprintf(`{"name":"E","type":"event","anonymous":false,"inputs":[`+
				`{"name":"a","type":"address","column":"a","filter_op":"contains","filter_ref":{"integration":"other","table":"t2","column":"c"}},`+
				`{"name":"b","type":%q,"column":"b"}]}`, sv.second)
			ev, err := abi.ParseEvent(js)
			if err != nil {
				return err
			}
			// the harness's own view of the same declaration (for encoding and the expected rows)
			b := &abi.Ty{EKind: sv.kind, Bits: 32, Sel: true, Name: "b", Col: "b"}
			if sv.second == "bytes32[]" {
				b.Dims = []int{0}
			}
			ins := []*abi.Ty{{EKind: "address", Sel: true, Name: "a", Col: "a"}, b}
			root, ncols := abi.Tree(ins)
			g := &abi.Gen{R: r.Fork(), MaxDepth: 1, MinArr: 2}
			mk := func(name string) (shovel.Destination, error) {
				c := config.Integration{Name: name, Enabled: true, Event: ev,
					Table: wpg.Table{Name: "t", Columns: []wpg.Column{{Name: "a", Type: "bytea"}, {Name: "b", Type: "bytea"}}}}
				c.AddRequiredFields()
				return shovel.NewDestination(c)
			}
			nameB := "shared"
			if !sameName {
				nameB = "other-name"
			}
			destA, err := mk("shared")
			if err != nil {
				return err
			}
			destB, err := mk(nameB)
			if err != nil {
				return err
			}
			sig := abi.Keccak256([]byte("E(address," + sv.second + ")"))
			mkBlocks := func(data []byte) ([]eth.Block, []byte) {
				in := abi.FreshInput(data)
				blocks := make([]eth.Block, 1)
				blocks[0].Txs = make(eth.Txs, 1)
				blocks[0].Txs[0].Logs = eth.Logs{{Address: make([]byte, 20), Topics: []eth.Bytes{append([]byte(nil), sig...)}, Data: in}}
				return blocks, in
			}
			valA, valB := g.Value(root, 3), g.Value(root, 3)
			dataA, dataB := abi.Encode(root, valA), abi.Encode(root, valB)
			blocksA, inA := mkBlocks(dataA)
			blocksB, _ := mkBlocks(dataB)
			connA, connB := &reentrantConn{}, &reentrantConn{}
			var errB error
			connA.onQuery = func() {
				_, errB = destB.Insert(context.Background(), &sync.Mutex{}, connB, blocksB)
			}
			var errA error
			p, pmsg := lib.Catch(func() { _, errA = destA.Insert(context.Background(), &sync.Mutex{}, connA, blocksA) })
			ok, msg := true, ""
			fail := func(m string) {
				if ok {
					ok, msg = false, fmt.Sprintf("%s (event E(address,%s), second destination built for integration name %q, B's Insert ran inside A's filter_ref query)", m, sv.second, nameB)
				}
			}
			want := abi.ExpectedRows(root, valA, ncols)
			switch {
			case p:
				fail("Insert panicked: " + pmsg)
			case errA != nil || errB != nil:
				fail(fmt.Sprintf("Insert failed: A=%v B=%v", errA, errB))
			case connA.queries == 0:
				fail("the filter_ref query was never issued: the scenario did not run")
			case len(connA.rows) != len(want):
				fail(fmt.Sprintf("destination A copied %d rows, its log encodes %d", len(connA.rows), len(want)))
			default:
				for i, row := range connA.rows {
					for _, v := range row {
						if bs, isBytes := v.([]byte); isBytes && len(bs) > 0 && !inside(inA, bs) {
							fail(fmt.Sprintf("row %d of destination A holds a value (%x) that is not a sub-range of A's own log data: the decode buffer is shared with another destination", i, bs))
						}
					}
					// the selected columns are the first two (a: last 20 bytes of the word, b)
					if len(row) >= 2 {
						if a, isB := row[0].([]byte); isB && len(want[i][0]) == 32 && !bytes.Equal(a, want[i][0][12:]) {
							fail(fmt.Sprintf("row %d of destination A: address %x, encoded %x", i, a, want[i][0][12:]))
						}
						if bv, isB := row[1].([]byte); isB && !bytes.Equal(bv, want[i][1]) {
							fail(fmt.Sprintf("row %d of destination A holds %x, its log encodes %x", i, bv, want[i][1]))
						}
						if sv2, isS := row[1].(string); isS && sv2 != string(want[i][1]) { // a string is a copy: content only
							fail(fmt.Sprintf("row %d of destination A holds %x, its log encodes %x", i, sv2, want[i][1]))
						}
					}
				}
			}
			// the case carries A's data as a plain scan so that the model evaluates it too
			res := dig.VerifNewResult(ev)
			obs := abi.RunScan(res, abi.FreshInput(dataA))
			kind := "two-destinations-same-integration"
			if !sameName {
				kind = "two-destinations-different-integrations"
			}
			out.Add(lib.Case{
				Coq: fmt.Sprintf("CMal %s %s %s", abi.CoqEvent(ev), abi.CB(dataA),
					lib.CList([]string{fmt.Sprintf("(MId, %d, %s)", abi.HashBytes(dataA), obs.Coq())})),
				Desc: malDesc{Op: "shared-decoder", JSON: js, Type: fmt.Sprintf("variant %d", vi), Base: abi.Hex(dataA),
					Muts: []string{"destination B decodes " + abi.Hex(dataB) + " inside A's filter_ref query"}, Input: abi.Hex(dataA)},
				Kind: kind, Nontrivial: true, OracleOK: ok, OracleMsg: msg, Size: len(dataA)})
		}
	}
	return nil
}
