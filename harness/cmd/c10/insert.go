package main

import (
	"bytes"
	"context"
	"database/sql/driver"
	"fmt"
	"math/big"
	"sync"

	"github.com/indexsupply/shovel/dig"
	"github.com/indexsupply/shovel/eth"
	"github.com/indexsupply/shovel/shovel/config"
	"github.com/indexsupply/shovel/wpg"
	"verif/harness/abi"
	"verif/harness/lib"
)

// Insert-level stream: the decoded cells also have to survive the typing of
// Integration.Insert (dbtype).  Result.Scan hands out ONE placeholder row when
// no array element was decoded, so a selected array with count 0 reaches the
// typing with an empty cell.  For every element kind: selected arrays with
// count 0, 1, 2; two selected arrays of different lengths; T[][] with empty
// inner / outer arrays; tuple[] with count 0; and on each of those encodings
// every truncation and every word replaced by 0, 31, 32, len-31, len, 2^63,
// 2^64-32.  Oracle: Insert never panics; it fails iff the decoder rejects the
// data; it copies as many rows as the decoder returns; on the unmutated
// encoding every cell is what the typed value says (an empty cell renders as
// the zero / empty value of its type).  The Coq case carries the scans of the
// encoding and of the word replacements for the model comparison.

type elemKind struct {
	kind string
	bits int
}

var insertKinds = []elemKind{{"uint", 256}, {"uint", 8}, {"int", 256}, {"int", 64}, {"address", 0}, {"bool", 0},
	{"bytesN", 32}, {"bytesN", 4}, {"bytes", 0}, {"string", 0}}

func leafVal(r *lib.RNG, k elemKind) *abi.Val {
	switch k.kind {
	case "bytes", "string":
		return &abi.Val{B: r.Bytes(lib.Pick(r, []int{0, 1, 31, 32, 33}))}
	case "bool":
		return &abi.Val{B: abi.Word(uint64(r.Intn(2)))}
	case "address":
		return &abi.Val{B: append(make([]byte, 12), r.Bytes(20)...)}
	case "int":
		if r.Chance(1, 2) { // negative, sign-extended
			w := bytes.Repeat([]byte{0xff}, 32)
			copy(w[32-k.bits/8+1:], r.Bytes(k.bits/8-1))
			return &abi.Val{B: w}
		}
	case "bytesN":
		w := make([]byte, 32)
		copy(w, r.Bytes(k.bits))
		return &abi.Val{B: w}
	}
	w := make([]byte, 32)
	n := k.bits / 8
	if n == 0 || n > 31 {
		n = 31
	}
	copy(w[32-n+1:], r.Bytes(n-1))
	return &abi.Val{B: w}
}

func arr(vs ...*abi.Val) *abi.Val { return &abi.Val{Elems: vs} }

// rendering of one cell by the typing, given the raw bytes the value encodes (nil = empty cell)
func cellMatches(k elemKind, want []byte, got any) (bool, string) {
	switch k.kind {
	case "uint", "int":
		v, ok := got.(driver.Valuer)
		if !ok {
			return false, fmt.Sprintf("integer column holds %T", got)
		}
		s, err := v.Value()
		if err != nil {
			return false, err.Error()
		}
		n := new(big.Int).SetBytes(want)
		if k.kind == "int" && len(want) == 32 && want[0]&0x80 != 0 {
			n.Sub(n, new(big.Int).Lsh(big.NewInt(1), 256))
		}
		if fmt.Sprint(s) != n.String() {
			return false, fmt.Sprintf("integer column holds %v, value is %s", s, n)
		}
	case "bool":
		b, ok := got.(bool)
		if !ok || b != (len(want) == 32 && want[31] == 1) {
			return false, fmt.Sprintf("bool column holds %v for %x", got, want)
		}
	case "address":
		b, ok := got.([]byte)
		exp := want
		if len(want) == 32 {
			exp = want[12:]
		}
		if !ok || !bytes.Equal(b, exp) {
			return false, fmt.Sprintf("address column holds %x, value is %x", got, exp)
		}
	case "string":
		s, ok := got.(string)
		if !ok || s != string(want) {
			return false, fmt.Sprintf("string column holds %q, value is %q", got, want)
		}
	default:
		b, ok := got.([]byte)
		if !ok || !bytes.Equal(b, want) {
			return false, fmt.Sprintf("bytes column holds %x, value is %x", got, want)
		}
	}
	return true, ""
}

func insertStream(out *lib.Out, r *lib.RNG, all bool) error {
	sweepVals := func(n int) []uint64 {
		vs := []uint64{0, 31, 32, uint64(n), 1 << 63, 1<<64 - 32}
		if n >= 31 {
			vs = append(vs, uint64(n-31))
		}
		return vs
	}
	scans, inserts := 0, 0
	for ki, k := range insertKinds {
		mk := func(dims ...int) *abi.Ty { return &abi.Ty{EKind: k.kind, Bits: k.bits, Sel: true, Dims: dims} }
		type shape struct {
			ins   []*abi.Ty
			kinds []elemKind // kind of every column
			vals  func() []*abi.Val
		}
		lv := func() *abi.Val { return leafVal(r, k) }
		u := elemKind{"uint", 256}
		shapes := []shape{
			{[]*abi.Ty{{EKind: "uint", Bits: 256, Sel: true}, mk(0)}, []elemKind{u, k}, func() []*abi.Val {
				return []*abi.Val{arr(leafVal(r, u), arr()), arr(leafVal(r, u), arr(lv())), arr(leafVal(r, u), arr(lv(), lv()))}
			}},
			{[]*abi.Ty{mk(0), mk(0)}, []elemKind{k, k}, func() []*abi.Val {
				return []*abi.Val{arr(arr(), arr(lv(), lv())), arr(arr(lv(), lv()), arr()), arr(arr(lv()), arr(lv(), lv())), arr(arr(), arr())}
			}},
			{[]*abi.Ty{mk(0, 0)}, []elemKind{k}, func() []*abi.Val {
				return []*abi.Val{arr(arr()), arr(arr(arr(), arr())), arr(arr(arr(lv()), arr())), arr(arr(arr(), arr(lv(), lv())))}
			}},
			{[]*abi.Ty{{EKind: "tuple", Dims: []int{0}, Comps: []*abi.Ty{mk(), {EKind: "uint", Bits: 256, Sel: true}}}}, []elemKind{k, u}, func() []*abi.Val {
				return []*abi.Val{arr(arr()), arr(arr(arr(lv(), leafVal(r, u)), arr(lv(), leafVal(r, u))))}
			}},
		}
		for si, sh := range shapes {
			nameAll(sh.ins)
			d, err := abi.NewDecl(fmt.Sprintf("I%s%d_%d", k.kind, k.bits, si), sh.ins)
			if err != nil {
				return err
			}
			if d.Panic != "" {
				return fmt.Errorf("insert stream: ABIType panicked on %s", d.JSON)
			}
			c := config.Integration{Name: "ig", Enabled: true, Event: d.Event, Table: wpg.Table{Name: "t"}}
			for _, in := range d.Event.Selected() {
				c.Table.Columns = append(c.Table.Columns, wpg.Column{Name: in.Column, Type: "bytea"})
			}
			c.AddRequiredFields()
			ig, err := dig.New(c.Name, c.Event, c.Block, c.Table, c.Notification, c.FilterAGG)
			if err != nil {
				return err
			}
			sig := append([]byte(nil), dig.VerifSigHash(ig)...)
			runInsert := func(data []byte) (rows [][]any, err error, panicked bool, pmsg string) {
				blocks := make([]eth.Block, 1)
				blocks[0].Txs = make(eth.Txs, 1)
				blocks[0].Txs[0].Logs = eth.Logs{{Address: make([]byte, 20), Topics: []eth.Bytes{sig}, Data: abi.FreshInput(data)}}
				conn := &abi.RecConn{}
				panicked, pmsg = lib.Catch(func() { _, err = ig.Insert(context.Background(), &sync.Mutex{}, conn, blocks) })
				inserts++
				return conn.Rows, err, panicked, pmsg
			}
			for vi, v := range sh.vals() {
				base := abi.Encode(d.Root, v)
				ref := dig.VerifNewResult(d.Event) // reference decoder of this case: what Scan alone returns (compared with the model)
				ok, msg, failInput := true, "", ""
				fail := func(m string, in []byte, what string) {
					if ok {
						ok, msg, failInput = false, fmt.Sprintf("%s: %s, value #%d, encoding of %d bytes %s", m, abi.CanonSig(d.Name, d.Ins), vi, len(base), what), abi.Hex(in)
					}
				}
				var muts []abi.Mut
				muts = append(muts, abi.Mut{Kind: "id"})
				for w := 0; w+32 <= len(base); w += 32 {
					for _, x := range sweepVals(len(base)) {
						muts = append(muts, abi.Mut{Kind: "wordv", I: w / 32, V: x})
					}
				}
				nModel := len(muts) // the model sees the encoding and the word replacements
				for n := 0; n < len(base); n++ {
					muts = append(muts, abi.Mut{Kind: "trunc", N: n})
				}
				var runs []string
				var descs []string
				for mi, m := range muts {
					in := m.Apply(base)
					obs := abi.RunScan(ref, abi.FreshInput(in))
					scans++
					rows, ierr, p, pmsg := runInsert(in)
					switch {
					case p:
						fail("Integration.Insert panicked ("+pmsg+")", in, m.String())
					case obs.Kind == "panic":
						fail("Scan panicked ("+obs.PanicMsg+")", in, m.String())
					case len(in) > 0 && (obs.Kind == "err") != (ierr != nil):
						fail(fmt.Sprintf("Insert error %v but Scan %s", ierr, obs.Kind), in, m.String())
					case obs.Kind == "ok" && ierr == nil && len(in) > 0 && len(rows) != len(obs.Rows):
						fail(fmt.Sprintf("Insert copied %d rows, the decoder returned %d", len(rows), len(obs.Rows)), in, m.String())
					}
					if mi == 0 && ok { // the unmutated encoding: every cell is what the typed value says
						want := abi.ExpectedRows(d.Root, v, d.NCols)
						if len(rows) != len(want) {
							fail(fmt.Sprintf("Insert copied %d rows, the value has %d", len(rows), len(want)), in, m.String())
						}
						for i := 0; ok && i < len(want); i++ {
							for j := 0; j < d.NCols && j < len(rows[i]); j++ {
								if eq, why := cellMatches(sh.kinds[j], want[i][j], rows[i][j]); !eq {
									fail(fmt.Sprintf("row %d column %d: %s", i, j, why), in, m.String())
								}
							}
						}
					}
					if mi < nModel {
						runs = append(runs, fmt.Sprintf("(%s, %d, %s)", m.Coq(), abi.HashBytes(in), obs.Coq()))
						descs = append(descs, m.String())
					}
					if obs.Kind == "panic" {
						ref = dig.VerifNewResult(d.Event)
						if mi < nModel {
							break
						}
					}
				}
				// every failing case is reported; of the passing ones a quarter carries the
				// scans to the model (volume of the quick tier), in the thorough tier all
				if ok && !all && (ki+si+vi)%4 != 0 {
					continue
				}
				out.Add(lib.Case{
					Coq: fmt.Sprintf("CMal %s %s %s", abi.CoqEvent(d.Event), abi.CB(base), lib.CList(runs)),
					Desc: malDesc{Op: "insert", JSON: d.JSON, Type: abi.TypeString(d.GoType), Base: abi.Hex(base),
						Muts: descs, Input: failInput},
					Kind: "insert-empty-arrays", Nontrivial: true, OracleOK: ok, OracleMsg: msg, Size: len(base) + len(failInput)})
			}
		}
	}
	out.Notes["insert_stream"] = fmt.Sprintf("%d Integration.Insert calls (%d reference scans) on selected arrays with count 0/1/2, two arrays of different lengths, T[][] with empty inner/outer, tuple[] with count 0, for uint256,uint8,int256,int64,address,bool,bytes32,bytes4,bytes,string; every truncation and every word replaced by 0,31,32,len-31,len,2^63,2^64-32", inserts, scans)
	return nil
}

// replayInsert pushes one log through Integration.Insert of the declaration.
func replayInsert(js string, data []byte) (bool, string) {
	d, err := abi.DeclFromJSON(js)
	if err != nil {
		return false, err.Error()
	}
	c := config.Integration{Name: "ig", Enabled: true, Event: d.Event, Table: wpg.Table{Name: "t"}}
	for _, in := range d.Event.Selected() {
		c.Table.Columns = append(c.Table.Columns, wpg.Column{Name: in.Column, Type: "bytea"})
	}
	c.AddRequiredFields()
	ig, err := dig.New(c.Name, c.Event, c.Block, c.Table, c.Notification, c.FilterAGG)
	if err != nil {
		return false, err.Error()
	}
	blocks := make([]eth.Block, 1)
	blocks[0].Txs = make(eth.Txs, 1)
	blocks[0].Txs[0].Logs = eth.Logs{{Address: make([]byte, 20), Topics: []eth.Bytes{dig.VerifSigHash(ig)}, Data: abi.FreshInput(data)}}
	conn := &abi.RecConn{}
	var ierr error
	if p, pmsg := lib.Catch(func() { _, ierr = ig.Insert(context.Background(), &sync.Mutex{}, conn, blocks) }); p {
		return false, "Integration.Insert panicked: " + pmsg
	}
	return true, fmt.Sprintf("Integration.Insert returned err=%v, %d rows", ierr, len(conn.Rows))
}
