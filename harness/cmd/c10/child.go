package main

import (
	"bufio"
	"encoding/json"
	"fmt"
	"os"
	"runtime"
	"strconv"
	"sync/atomic"
	"time"

	"github.com/indexsupply/shovel/dig"
	"verif/harness/abi"
)

// A job is a list of declarations, each with a base encoding and mutations to
// be scanned by ONE decoder instance.
type jobDecl struct {
	JSON string    `json:"json"`
	Base []byte    `json:"base"`
	Muts []abi.Mut `json:"muts"`
}

type jobRes struct {
	Decl int         `json:"decl"`
	Run  int         `json:"run"`
	Obs  abi.ScanObs `json:"obs"`
	Heap uint64      `json:"heap"` // bytes allocated by this call
	// truncations only: how the outcome differs when the same bytes are handed
	// over as a re-slice of a longer buffer (spare capacity) instead of an exact copy
	SpareDiff string `json:"spare_diff,omitempty"`
	Done      bool   `json:"done,omitempty"`
}

const (
	callLimit = 2 * time.Second
	heapLimit = 768 << 20
)

func childMain(jobFile string) {
	raw, err := os.ReadFile(jobFile)
	if err != nil {
		fmt.Fprintln(os.Stderr, err)
		os.Exit(3)
	}
	var decls []jobDecl
	if err := json.Unmarshal(raw, &decls); err != nil {
		fmt.Fprintln(os.Stderr, err)
		os.Exit(3)
	}
	startDecl, _ := strconv.Atoi(os.Getenv("VERIF_C10_START_DECL"))
	startRun, _ := strconv.Atoi(os.Getenv("VERIF_C10_START_RUN"))
	w := bufio.NewWriter(os.Stdout)
	enc := json.NewEncoder(w)
	var callStart atomic.Int64 // unix nanos of the running call, 0 = none
	go func() {
		var ms runtime.MemStats
		for {
			time.Sleep(5 * time.Millisecond)
			if t := callStart.Load(); t != 0 && time.Since(time.Unix(0, t)) > callLimit {
				os.Stdout.WriteString("\n@@KILLED timeout\n")
				os.Exit(8)
			}
			runtime.ReadMemStats(&ms)
			if ms.HeapAlloc > heapLimit {
				os.Stdout.WriteString("\n@@KILLED memory\n")
				os.Exit(7)
			}
		}
	}()
	for di := startDecl; di < len(decls); di++ {
		d := decls[di]
		ev, err := abi.ParseEvent(d.JSON)
		if err != nil {
			fmt.Fprintln(os.Stderr, err)
			os.Exit(3)
		}
		res := dig.VerifNewResult(ev)
		spare := dig.VerifNewResult(ev) // decoder fed with re-slices of longer buffers
		r0 := 0
		if di == startDecl {
			r0 = startRun
		}
		for ri := r0; ri < len(d.Muts); ri++ {
			in := abi.FreshInput(d.Muts[ri].Apply(d.Base))
			var m0, m1 runtime.MemStats
			runtime.ReadMemStats(&m0)
			// announce the call first: if it never returns the parent knows which one
			fmt.Fprintf(w, "@@CALL %d %d\n", di, ri)
			w.Flush()
			callStart.Store(time.Now().UnixNano())
			obs := abi.RunScan(res, in)
			callStart.Store(0)
			runtime.ReadMemStats(&m1)
			for i := range obs.Rows { // the parent does not need the bytes
				for j := range obs.Rows[i] {
					obs.Rows[i][j].B = nil
				}
			}
			diff := ""
			if m := d.Muts[ri]; m.Kind == "trunc" && obs.Kind != "panic" {
				// the same prefix with spare capacity: the tail holds the rest of the
				// original data, then 0xff bytes
				for variant := 0; variant < 2 && diff == ""; variant++ {
					full := make([]byte, len(d.Base)+64)
					copy(full, d.Base)
					for i := len(d.Base); i < len(full); i++ {
						full[i] = 0xff
					}
					if variant == 1 {
						for i := m.N; i < len(full); i++ {
							full[i] = 0xff
						}
					}
					o2 := abi.RunScan(spare, full[:m.N])
					if o2.Kind == "panic" {
						spare = dig.VerifNewResult(ev)
					}
					diff = obsDiff(obs, o2)
				}
			}
			enc.Encode(jobRes{Decl: di, Run: ri, Obs: obs, Heap: m1.TotalAlloc - m0.TotalAlloc, SpareDiff: diff})
			if obs.Kind == "panic" {
				res = dig.VerifNewResult(ev)
			}
		}
	}
	enc.Encode(jobRes{Done: true})
	w.Flush()
}

// obsDiff: how two observations of the same bytes differ (outcome, rows, cells).
func obsDiff(a, b abi.ScanObs) string {
	if a.Kind != b.Kind {
		return fmt.Sprintf("exact-capacity input: %s, re-slice of a longer buffer: %s %s", a.Kind, b.Kind, b.PanicMsg)
	}
	if a.Kind != "ok" {
		return ""
	}
	if len(a.Rows) != len(b.Rows) {
		return fmt.Sprintf("%d rows vs %d rows", len(a.Rows), len(b.Rows))
	}
	for i := range a.Rows {
		for j := range a.Rows[i] {
			x, y := a.Rows[i][j], b.Rows[i][j]
			if x.Present != y.Present || x.Off != y.Off || x.Len != y.Len {
				return fmt.Sprintf("row %d column %d: cell (%d,%d) vs (%d,%d)", i, j, x.Off, x.Len, y.Off, y.Len)
			}
		}
	}
	return ""
}
