package main

import (
	"bufio"
	"encoding/json"
	"fmt"
	"os"
	"runtime"
	"strconv"
	"sync/atomic"
	"time"

	"github.com/indexsupply/shovel/dig"
	"verif/harness/abi"
)

// A job is a list of declarations, each with a base encoding and mutations to
// be scanned by ONE decoder instance.
type jobDecl struct {
	JSON string    `json:"json"`
	Base []byte    `json:"base"`
	Muts []abi.Mut `json:"muts"`
}

type jobRes struct {
	Decl int         `json:"decl"`
	Run  int         `json:"run"`
	Obs  abi.ScanObs `json:"obs"`
	Heap uint64      `json:"heap"` // bytes allocated by this call
	Done bool        `json:"done,omitempty"`
}

const (
	callLimit = 2 * time.Second
	heapLimit = 768 << 20
)

func childMain(jobFile string) {
	raw, err := os.ReadFile(jobFile)
	if err != nil {
		fmt.Fprintln(os.Stderr, err)
		os.Exit(3)
	}
	var decls []jobDecl
	if err := json.Unmarshal(raw, &decls); err != nil {
		fmt.Fprintln(os.Stderr, err)
		os.Exit(3)
	}
	startDecl, _ := strconv.Atoi(os.Getenv("VERIF_C10_START_DECL"))
	startRun, _ := strconv.Atoi(os.Getenv("VERIF_C10_START_RUN"))
	w := bufio.NewWriter(os.Stdout)
	enc := json.NewEncoder(w)
	var callStart atomic.Int64 // unix nanos of the running call, 0 = none
	go func() {
		var ms runtime.MemStats
		for {
			time.Sleep(5 * time.Millisecond)
			if t := callStart.Load(); t != 0 && time.Since(time.Unix(0, t)) > callLimit {
				os.Stdout.WriteString("\n@@KILLED timeout\n")
				os.Exit(8)
			}
			runtime.ReadMemStats(&ms)
			if ms.HeapAlloc > heapLimit {
				os.Stdout.WriteString("\n@@KILLED memory\n")
				os.Exit(7)
			}
		}
	}()
	for di := startDecl; di < len(decls); di++ {
		d := decls[di]
		ev, err := abi.ParseEvent(d.JSON)
		if err != nil {
			fmt.Fprintln(os.Stderr, err)
			os.Exit(3)
		}
		res := dig.VerifNewResult(ev)
		r0 := 0
		if di == startDecl {
			r0 = startRun
		}
		for ri := r0; ri < len(d.Muts); ri++ {
			in := abi.FreshInput(d.Muts[ri].Apply(d.Base))
			var m0, m1 runtime.MemStats
			runtime.ReadMemStats(&m0)
			// announce the call first: if it never returns the parent knows which one
			fmt.Fprintf(w, "@@CALL %d %d\n", di, ri)
			w.Flush()
			callStart.Store(time.Now().UnixNano())
			obs := abi.RunScan(res, in)
			callStart.Store(0)
			runtime.ReadMemStats(&m1)
			for i := range obs.Rows { // the parent does not need the bytes
				for j := range obs.Rows[i] {
					obs.Rows[i][j].B = nil
				}
			}
			enc.Encode(jobRes{Decl: di, Run: ri, Obs: obs, Heap: m1.TotalAlloc - m0.TotalAlloc})
			if obs.Kind == "panic" {
				res = dig.VerifNewResult(ev)
			}
		}
	}
	enc.Encode(jobRes{Done: true})
	w.Flush()
}
