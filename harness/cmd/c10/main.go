// c10: correspondence driver of property C10 (decoding arbitrary bytes is safe).
// The implementation calls run in a child process of this binary, guarded by a
// per-call watchdog and a heap limit, so that a runaway allocation or loop ends
// the child, not the driver.
package main

import (
	"os"

	"verif/harness/lib"
)

func main() {
	if job := os.Getenv("VERIF_C10_CHILD"); job != "" {
		childMain(job)
		return
	}
	lib.Main(runC10)
}
