package main

import (
	"context"
	"encoding/json"
	"fmt"
	"io"
	"log/slog"
	"os"
	"sort"
	"strings"
	"time"

	"github.com/indexsupply/shovel/eth"
	"github.com/indexsupply/shovel/jrpc2"
	"github.com/indexsupply/shovel/shovel/glf"
	"verif/harness/lib"
	"verif/harness/simnode"
)

const c07Header = `From Shovel Require Import Base.Outcome Model.Client Corr.RunC07.
From Coq Require Import List NArith. Import ListNotations. Open Scope N_scope.`

const bigStart = uint64(18000000)

// ---- the scripted nodes: two chain shapes (blocks without transactions for
// the empty-receipts case; every block with traces for the trace plans), each
// from block 0 and from a large number
type nodes struct {
	n map[string]*simnode.Node
}

func shapeA(bn uint64) (int, func(int) int, func(int) int) {
	return int(bn % 3), func(ti int) int { return (int(bn) + ti) % 3 }, func(ti int) int { return 1 + ti%2 }
}
func shapeT(bn uint64) (int, func(int) int, func(int) int) {
	// transaction 0 carries no log (a plain transfer): its receipt must still be attached
	return 1 + int(bn%2), func(ti int) int { return ti + int(bn%3)/2 }, func(ti int) int { return 1 + (int(bn)+ti)%2 }
}

func newNodes() *nodes {
	ns := &nodes{n: map[string]*simnode.Node{}}
	for _, sh := range []string{"A", "T"} {
		for _, base := range []uint64{0, bigStart} {
			g := simnode.Gen{Start: base, N: 9, HashLen: 4, AddrLen: 4, DataLen: 3, NTopics: 2, Salt: uint64(len(ns.n))}
			if sh == "A" {
				g.Shape = shapeA
			} else {
				g.Shape = shapeT
			}
			ns.n[fmt.Sprintf("%s%d", sh, base)] = simnode.New(simnode.NewChain(g, nil))
		}
	}
	// addresses that occur in the chains, for the filtered sample
	filterAddrs = nil
	for _, k := range []string{"A0", fmt.Sprintf("A%d", bigStart)} {
		n := 0
		for _, b := range ns.n[k].Chain(0).Blocks {
			for _, t := range b.Txs {
				for _, l := range t.Logs {
					if n < 2 {
						filterAddrs = append(filterAddrs, simnode.Hex(l.Address))
						n++
					}
				}
			}
		}
	}
	return ns
}
func (ns *nodes) close() {
	for _, n := range ns.n {
		n.Close()
	}
}
func (ns *nodes) pick(p planFlags, start uint64) (string, *simnode.Node) {
	sh := "A"
	if p.Traces {
		sh = "T"
	}
	base := uint64(0)
	if start >= bigStart {
		base = bigStart
	}
	k := fmt.Sprintf("%s%d", sh, base)
	return k, ns.n[k]
}

// ---- one case
type caseDesc struct {
	Op       string               `json:"op"`
	Plan     string               `json:"plan"`
	Start    uint64               `json:"start"`
	Limit    uint64               `json:"limit"`
	Node     string               `json:"node"`
	Cached   bool                 `json:"cached,omitempty"`
	Filtered bool                 `json:"filtered,omitempty"`
	Corrupt  []simnode.Corruption `json:"corrupt,omitempty"`
	Applied  int                  `json:"applied"`
	Impl     string               `json:"impl"`
	ImplErr  string               `json:"impl_err,omitempty"`
	Demand   string               `json:"property_demands,omitempty"`
	Site     string               `json:"site,omitempty"`
	// a step of a retry sequence on ONE caching client: the same Get with the reply corrupt, still corrupt, healed
	Retry     []string `json:"retry,omitempty"`
	RetryStep int      `json:"retry_step,omitempty"`
	// a call of a request sequence on ONE caching client (overlapping ranges, honest node or one corrupted reply)
	ReqSeq  []reqStep `json:"req_seq,omitempty"`
	ReqStep int       `json:"req_step,omitempty"`
}

type reqStep struct {
	Start   uint64               `json:"start"`
	Limit   uint64               `json:"limit"`
	Corrupt []simnode.Corruption `json:"corrupt,omitempty"`
}

// the client shared by the steps of a retry sequence (nil: a fresh client per Get)
var sharedClient *jrpc2.Client

func parsePlan(s string) planFlags {
	if s == "none" {
		return planFlags{}
	}
	return planFlags{Headers: strings.Contains(s, "h"), Blocks: strings.Contains(s, "b"), Receipts: strings.Contains(s, "r"),
		Logs: strings.Contains(s, "l"), Traces: strings.Contains(s, "t")}
}

type exch struct {
	kind  string // blocks headers receipts logs traces
	batch bool
	reqs  []simnode.Request
	idx   int // traces: block offset
}

func (e exch) key() string {
	x := simnode.Exchange{Batch: e.batch, Reqs: e.reqs}
	return x.Key()
}

// the exchanges Client.Get makes for a plan
func planExchanges(p planFlags, start, limit uint64, addrs []string, topics [][]string) []exch {
	var res []exch
	blk := func(full bool) exch {
		e := exch{kind: "headers", batch: true}
		if full {
			e.kind = "blocks"
		}
		for i := uint64(0); i < limit; i++ {
			e.reqs = append(e.reqs, simnode.Req("eth_getBlockByNumber", eth.EncodeUint64(start+i), full))
		}
		return e
	}
	switch {
	case p.Blocks:
		res = append(res, blk(true))
	case p.Headers:
		res = append(res, blk(false))
	}
	switch {
	case p.Receipts:
		e := exch{kind: "receipts", batch: true}
		for i := uint64(0); i < limit; i++ {
			e.reqs = append(e.reqs, simnode.Req("eth_getBlockReceipts", eth.EncodeUint64(start+i)))
		}
		res = append(res, e)
	case p.Logs:
		var a, t any
		if addrs != nil {
			l := []any{}
			for _, s := range addrs {
				l = append(l, s)
			}
			a = l
		}
		if topics != nil {
			l := []any{}
			for _, ts := range topics {
				m := []any{}
				for _, s := range ts {
					m = append(m, s)
				}
				l = append(l, m)
			}
			t = l
		}
		to := eth.EncodeUint64(start + limit - 1)
		res = append(res, exch{kind: "logs", batch: true, reqs: []simnode.Request{
			simnode.Req("eth_getBlockByNumber", to, false),
			simnode.Req("eth_getLogs", map[string]any{"fromBlock": eth.EncodeUint64(start), "toBlock": to, "address": a, "topics": t}),
		}})
	}
	if p.Traces {
		for i := uint64(0); i < limit; i++ {
			res = append(res, exch{kind: "traces", idx: int(i), reqs: []simnode.Request{simnode.Req("trace_block", eth.EncodeUint64(start+i))}})
		}
	}
	return res
}

type runResult struct {
	desc    caseDesc
	world   *aWorld
	sents   []simnode.Sent // one per plan exchange (wire or probe)
	impl    []aBlock
	outcome string // ok err panic
}

var filterAddrs []string // set in run: an address filter for the "filtered" sample

func runGet(ns *nodes, p planFlags, start, limit uint64, cs []simnode.Corruption, cached, filtered bool) runResult {
	name, node := ns.pick(p, start)
	node.Reset()
	node.KeepSent(true)
	applied := 0
	hook := func(x *simnode.Exchange) {
		for _, c := range cs {
			if c.Matches(x) && c.Apply(x) {
				applied++
			}
		}
	}
	node.Post(hook)
	url := node.URL() + "/nocache"
	if cached {
		url = node.URL() + "/cached"
	}
	var addrs []string
	var topics [][]string
	f := &glf.Filter{}
	if filtered {
		addrs = filterAddrs
		f = glf.New(nil, addrs, nil)
	}
	f.UseHeaders, f.UseBlocks, f.UseReceipts, f.UseLogs, f.UseTraces = p.Headers, p.Blocks, p.Receipts, p.Logs, p.Traces
	c := jrpc2.New(url)
	if sharedClient != nil {
		c = sharedClient
	}
	var blocks []eth.Block
	var err error
	panicked, pmsg := lib.Catch(func() { blocks, err = c.Get(context.Background(), url, f, start, limit) })
	wire := node.Sent()
	appliedOnWire := applied
	r := runResult{world: &aWorld{}}
	for _, e := range planExchanges(p, start, limit, addrs, topics) {
		var s *simnode.Sent
		k := e.key()
		for i := range wire {
			if wire[i].Key == k {
				s = &wire[i]
				break
			}
		}
		if s == nil {
			ps := node.Probe(e.batch, e.reqs...)
			s = &ps
		}
		r.sents = append(r.sents, *s)
		switch e.kind {
		case "blocks":
			r.world.Blocks = abstractSent(*s, func(v any) *[]aBelem { return absBelems(v, true) })
		case "headers":
			r.world.Headers = abstractSent(*s, func(v any) *[]aBelem { return absBelems(v, false) })
		case "receipts":
			r.world.Receipts = abstractSent(*s, absRelems)
		case "logs":
			r.world.Logs = abstractSent(*s, absLbatch)
		case "traces":
			r.world.Traces = append(r.world.Traces, abstractSent(*s, absTelem))
		}
	}
	node.Post(nil)
	_ = appliedOnWire
	r.desc = caseDesc{Op: "Get", Plan: p.String(), Start: start, Limit: limit, Node: name, Cached: cached, Filtered: filtered,
		Corrupt: cs, Applied: applied}
	switch {
	case panicked:
		r.outcome, r.desc.ImplErr = "panic", trim(pmsg)
	case err != nil:
		r.outcome, r.desc.ImplErr = "err", trim(err.Error())
	default:
		r.outcome = "ok"
		r.impl = dumpBlocks(blocks)
	}
	r.desc.Impl = r.outcome
	return r
}

func trim(s string) string {
	if i := strings.Index(s, "http://127.0.0.1"); i >= 0 { // the port differs from run to run
		j := i
		for j < len(s) && s[j] != '"' && s[j] != ' ' {
			j++
		}
		s = s[:i] + "http://node" + s[j:]
	}
	if len(s) > 160 {
		s = s[:160]
	}
	return s
}

func (r runResult) coq(p planFlags) string {
	res := lib.CErr
	switch r.outcome {
	case "ok":
		res = lib.COk(cBlocks(r.impl))
	case "panic":
		res = lib.CPanic
	}
	return fmt.Sprintf("CGet (P %s %s %s %s %s) %d %d %s %s", lib.CBool(p.Headers), lib.CBool(p.Blocks), lib.CBool(p.Receipts),
		lib.CBool(p.Logs), lib.CBool(p.Traces), r.desc.Start, r.desc.Limit, r.world.coq(), res)
}

// site names the client function whose reply a (single) corruption hit; used by known_findings matches
func site(cs []simnode.Corruption, sents []simnode.Sent) string {
	var s []string
	for _, c := range cs {
		for _, x := range sents {
			if c.Matches(x.X) {
				s = append(s, x.Kind+":"+c.Kind)
				break
			}
		}
	}
	return strings.Join(s, "+")
}

// the direct property oracle on one run
func judge(r *runResult, p planFlags) (ok bool, msg string) {
	want, why := ideal(p, r.desc.Start, r.desc.Limit, r.world)
	r.desc.Demand = "data"
	if want == nil {
		r.desc.Demand = "error: " + why
	}
	switch {
	case r.outcome == "panic":
		return false, "Client.Get panicked: " + r.desc.ImplErr
	case want == nil && r.outcome == "ok":
		return false, "accepted although the property demands an error: " + why
	case want != nil && r.outcome == "ok":
		if same, diff := blocksEq(r.impl, want); !same {
			return false, "returned data differs from what the responses name: " + diff
		}
	case want != nil && r.outcome == "err" && r.desc.Applied == 0:
		return false, "honest responses rejected: " + r.desc.ImplErr
	}
	return true, ""
}

func addGet(out *lib.Out, ns *nodes, p planFlags, start, limit uint64, cs []simnode.Corruption, cached, filtered bool, kind string) runResult {
	r := runGet(ns, p, start, limit, cs, cached, filtered)
	r.desc.Site = site(cs, r.sents)
	ok, msg := judge(&r, p)
	nitems := 0
	for _, b := range r.impl {
		for _, t := range b.Txs {
			nitems += 1 + len(t.Logs) + len(t.Traces)
		}
	}
	out.Add(lib.Case{Coq: r.coq(p), Desc: r.desc, Kind: kind, Nontrivial: r.desc.Applied > 0 || nitems > 0,
		OracleOK: ok, OracleMsg: msg, Size: int(limit)*100 + len(cs)*10 + len(p.String())})
	out.Count("plan-" + p.String())
	out.Count("impl-" + r.outcome)
	if strings.HasPrefix(r.desc.Demand, "error") {
		out.Count("property-demands-error")
	} else {
		out.Count("property-demands-data")
	}
	return r
}

// addRetry: the same Get three times on ONE caching client: reply corrupt, still corrupt, healed.  A reply that
// was rejected must never be served by a later call; once the node is healed the call returns the honest data.
var retrySeq = []string{"corrupt", "still-corrupt", "healed"}

func addRetry(out *lib.Out, ns *nodes, p planFlags, start, limit uint64, c simnode.Corruption) {
	_, node := ns.pick(p, start)
	sharedClient = jrpc2.New(node.URL() + "/cached")
	defer func() { sharedClient = nil }()
	for i, st := range retrySeq {
		var cs []simnode.Corruption
		if st != "healed" {
			cs = []simnode.Corruption{c}
		}
		n0 := len(out.Cases)
		r := addGet(out, ns, p, start, limit, cs, true, false, "retry-"+st)
		// describe the step so that the whole sequence can be re-run
		d := out.Cases[n0].Desc.(caseDesc)
		d.Retry, d.RetryStep = retrySeq, i
		d.Corrupt = []simnode.Corruption{c}
		out.Cases[n0].Desc = d
		if !out.Cases[n0].OracleOK {
			out.Cases[n0].OracleMsg += fmt.Sprintf(" -- call %d (%s) of the same Get on one caching client after a rejected reply", i+1, st)
		}
		if i == 0 && (r.outcome != "err" || !(strings.HasPrefix(r.desc.ImplErr, "getting blocks:") || strings.HasPrefix(r.desc.ImplErr, "getting headers:"))) {
			// the block / header reply itself was not rejected (accepted, or a later request failed:
			// the accepted segment is legitimately cached): nothing to retry
			return
		}
	}
}

// addReqSeq: several Gets of one plan over overlapping ranges on ONE caching client.  Every call is an ordinary
// case: exactly the requested numbers, linked, every block complete w.r.t. the node's chain, or an error; a
// corrupted reply in the middle must not poison a later honest call.
func addReqSeq(out *lib.Out, ns *nodes, p planFlags, seq []reqStep, kind string) {
	_, node := ns.pick(p, seq[0].Start)
	sharedClient = jrpc2.New(node.URL() + "/cached")
	defer func() { sharedClient = nil }()
	for i, st := range seq {
		n0 := len(out.Cases)
		addGet(out, ns, p, st.Start, st.Limit, st.Corrupt, true, false, kind)
		d := out.Cases[n0].Desc.(caseDesc)
		d.ReqSeq, d.ReqStep = seq, i
		out.Cases[n0].Desc = d
		if !out.Cases[n0].OracleOK {
			var calls []string
			for _, x := range seq[:i+1] {
				c := ""
				if len(x.Corrupt) > 0 {
					c = " corrupted:" + x.Corrupt[0].Kind
				}
				calls = append(calls, fmt.Sprintf("Get(%d,%d)%s", x.Start, x.Limit, c))
			}
			out.Cases[n0].OracleMsg += " -- call " + fmt.Sprint(i+1) + " of a sequence on one caching client: " + strings.Join(calls, " ; ")
		}
	}
}

// the fixed request sequences, relative to s
func reqSequences(s uint64) [][]reqStep {
	r := func(xs ...uint64) []reqStep {
		var l []reqStep
		for i := 0; i+1 < len(xs); i += 2 {
			l = append(l, reqStep{Start: s + xs[i], Limit: xs[i+1]})
		}
		return l
	}
	return [][]reqStep{
		r(0, 3, 0, 2),             // same start, smaller limit
		r(0, 2, 0, 3),             // same start, larger limit
		r(0, 4, 0, 1, 0, 2),       //
		r(0, 3, 1, 2),             // same end
		r(1, 2, 0, 3),             //
		r(0, 4, 1, 2),             // nested
		r(1, 2, 0, 4),             //
		r(0, 2, 2, 2),             // adjacent
		r(2, 2, 0, 2),             //
		r(0, 2, 0, 2, 0, 2),       // repeated
		r(0, 3, 0, 3, 0, 1, 0, 3), //
		r(0, 1, 0, 2, 0, 3, 0, 4), // growing
	}
}

// ---- Hash / Latest
func addHead(out *lib.Out, ns *nodes, op string, n uint64, cs []simnode.Corruption) {
	node := ns.n["A0"]
	node.Reset()
	node.KeepSent(true)
	applied := 0
	node.Post(func(x *simnode.Exchange) {
		for _, c := range cs {
			if c.Matches(x) && c.Apply(x) {
				applied++
			}
		}
	})
	url := node.URL() + "/nocache"
	c := jrpc2.New(url).WithPollDuration(time.Hour)
	var num uint64
	var hash []byte
	var err error
	panicked, pmsg := lib.Catch(func() {
		if op == "Hash" {
			hash, err = c.Hash(context.Background(), url, n)
		} else {
			num, hash, err = c.Latest(context.Background(), url, 0)
		}
	})
	wire := node.Sent()
	node.Post(nil)
	var h *aHead
	if len(wire) > 0 {
		h = abstractSent(wire[0], absHead)
	}
	d := caseDesc{Op: op, Start: n, Node: "A0", Corrupt: cs, Applied: applied}
	outcome, res := "ok", ""
	switch {
	case panicked:
		outcome, res, d.ImplErr = "panic", lib.CPanic, trim(pmsg)
	case err != nil:
		outcome, res, d.ImplErr = "err", lib.CErr, trim(err.Error())
	case op == "Hash":
		res = lib.COk(lib.CBytes(hash))
	default:
		res = lib.COk(fmt.Sprintf("(%d, %s)", num, lib.CBytes(hash)))
	}
	d.Impl = outcome
	// oracle: a reply without a usable result must be an error, never a panic; an honest reply gives the node's value
	ok, msg := true, ""
	usable := h != nil && !h.Err && !h.Nil
	switch {
	case outcome == "panic":
		ok, msg = false, op+" panicked: "+d.ImplErr
	case !usable && outcome == "ok":
		ok, msg = false, op+" returned a value although the reply has no usable result"
	case usable && outcome == "ok" && (string(hash) != string(h.Hash) || (op == "Latest" && num != h.Num)):
		ok, msg = false, op+" returned a value the reply does not contain"
	case usable && outcome == "err" && applied == 0:
		ok, msg = false, "honest reply rejected"
	}
	d.Site = op + ":" + site(cs, wire)
	ctor := "CLatest"
	if op == "Hash" {
		ctor = "CHash"
	}
	out.Add(lib.Case{Coq: fmt.Sprintf("%s %s %s", ctor, cHead(h), res), Desc: d, Kind: "head-" + op, Nontrivial: applied > 0,
		OracleOK: ok, OracleMsg: msg, Size: 1 + len(cs)})
	out.Count("impl-" + outcome)
}

// ---- selection of corruptions
func byKind(cs []simnode.Corruption) map[string][]simnode.Corruption {
	m := map[string][]simnode.Corruption{}
	for _, c := range cs {
		m[c.Kind] = append(m[c.Kind], c)
	}
	return m
}

var allPlans = []string{"none", "h", "b", "l", "r", "t", "hl", "bl", "hr", "br", "ht", "bt", "hb", "brl", "rlt", "lt"}

func runC07(cfg Cfg) error {
	slog.SetDefault(slog.New(slog.NewTextHandler(io.Discard, nil)))
	if cfg.Replay != "" {
		return replay(cfg)
	}
	rng := lib.NewRNG(cfg.Seed)
	out := lib.NewOut("C07", cfg.Out, c07Header, "run", 100)
	out.Rule = "real jrpc2.Client.Get (nocache URL; a cached sample) against the scripted node for every plan and range: honest replies, every single corruption of the listed classes (thorough: every position; quick: every class per exchange, positions rotated by the seed), random double corruptions; for every rejected corruption of the block/header reply (plans h b hl br) the same Get twice more on the same caching client (still corrupt, healed); request sequences of 2-5 Gets over overlapping ranges (same start smaller/larger limit, same end, nested, adjacent, repeated, growing; one corrupted reply in the middle; random) on one caching client for the plans h b hr hl ht br bl bt; Hash/Latest on null/error/transport replies. Compared with the Coq model: ok/err/panic and the canonical dump; oracle: the property's demand computed from the bytes sent. non-trivial = a corruption was applied or the result carries attached items"
	ns := newNodes()
	defer ns.close()

	type rg struct{ start, limit uint64 }
	var ranges []rg
	if cfg.Thorough() {
		for l := uint64(1); l <= 6; l++ {
			ranges = append(ranges, rg{0, l}, rg{bigStart + 1, l})
		}
		ranges = append(ranges, rg{2, 3}, rg{bigStart, 2})
	} else {
		ranges = []rg{{0, 1}, {0, 3}, {bigStart + 1, 2}, {1, 4}}
	}
	nsingle, ndouble, nretry := 0, 0, 0
	for pi, ps := range allPlans {
		p := parsePlan(ps)
		for ri, r := range ranges {
			honest := addGet(out, ns, p, r.start, r.limit, nil, false, false, "honest")
			if (pi+ri)%4 == 0 {
				addGet(out, ns, p, r.start, r.limit, nil, true, false, "honest-cached")
			}
			if p.Logs && ri%2 == 1 {
				addGet(out, ns, p, r.start, r.limit, nil, false, true, "honest-filtered")
			}
			// every single corruption that fits the honest exchanges
			var all []simnode.Corruption
			for _, s := range honest.sents {
				cs := simnode.Enumerate(s.X, r.start, r.limit)
				if cfg.Thorough() {
					all = append(all, cs...)
					continue
				}
				// quick: per exchange one representative of every class, rotated by seed;
				// the extra plans (first-match combinations) get the structural classes only
				m := byKind(cs)
				kinds := make([]string, 0, len(m))
				for k := range m {
					kinds = append(kinds, k)
				}
				sort.Strings(kinds)
				for _, k := range kinds {
					if pi >= 12 && (ri != 1 || !strings.HasPrefix(k, "item") && k != "renumber") {
						continue
					}
					if ri >= 2 && (k == "status" || k == "truncate" || k == "abort" || k == "not-json" || k == "wrong-shape" || k == "null-body") {
						continue
					}
					l := m[k]
					all = append(all, l[(int(cfg.Seed)+pi+ri)%len(l)])
					if len(l) > 3 && (k == "renumber" || k == "item-move" || k == "items-move" || k == "dup-over" || k == "swap") {
						all = append(all, l[(int(cfg.Seed)+pi+ri+len(l)/2)%len(l)])
					}
				}
			}
			for i, c := range all {
				cached := !cfg.Thorough() && i%17 == 5 || cfg.Thorough() && i%29 == 5
				addGet(out, ns, p, r.start, r.limit, []simnode.Corruption{c}, cached, false, "single-"+c.Kind)
				nsingle++
			}
			// retries on one caching client after a rejected block / header reply
			if (ps == "h" || ps == "b" || ps == "hl" || ps == "br") && (ri == 1 || cfg.Thorough() && ri == 2) && len(honest.sents) > 0 {
				for _, c := range all {
					if c.Target == honest.sents[0].Key {
						addRetry(out, ns, p, r.start, r.limit, c)
						nretry++
					}
				}
			}
			// random double corruptions
			nd := 2
			if cfg.Thorough() {
				nd = 12
			}
			if len(all) > 1 {
				for i := 0; i < nd; i++ {
					a, b := lib.Pick(rng, all), lib.Pick(rng, all)
					addGet(out, ns, p, r.start, r.limit, []simnode.Corruption{a, b}, false, false, "double")
					ndouble++
				}
			}
		}
	}
	// request sequences over overlapping ranges on one caching client, honest node; then with one corrupted reply
	// in the middle; a few random ones
	nreq := 0
	for pi, ps := range []string{"h", "b", "hr", "hl", "ht", "br", "bl", "bt"} {
		p := parsePlan(ps)
		s := uint64(1)
		if pi%2 == 1 {
			s = bigStart + 1
		}
		for _, seq := range reqSequences(s) {
			addReqSeq(out, ns, p, seq, "request-sequence")
			nreq++
		}
		// a rejected block/header reply, then a rejected attachment reply, between honest calls
		fk, ak, apos := "headers", "", 0
		if p.Blocks {
			fk = "blocks"
		}
		switch {
		case p.Receipts:
			ak = "receipts"
		case p.Logs:
			ak, apos = "logs", 1
		case p.Traces:
			ak = "traces"
		}
		bad := []simnode.Corruption{{OnKind: fk, Kind: "renumber", Pos: 0, Arg: int64(s + 6)}}
		addReqSeq(out, ns, p, []reqStep{{Start: s, Limit: 3}, {Start: s, Limit: 2, Corrupt: bad}, {Start: s, Limit: 2}, {Start: s, Limit: 3}, {Start: s + 1, Limit: 2}}, "request-sequence-corrupted")
		nreq++
		if ak != "" {
			bad2 := []simnode.Corruption{{OnKind: ak, Kind: "null-result", Pos: apos}}
			addReqSeq(out, ns, p, []reqStep{{Start: s, Limit: 2}, {Start: s, Limit: 3, Corrupt: bad2}, {Start: s, Limit: 3}, {Start: s, Limit: 2}}, "request-sequence-corrupted")
			nreq++
		}
		for k := 0; k < 2; k++ {
			var seq []reqStep
			for j := rng.Range(2, 4); j > 0; j-- {
				seq = append(seq, reqStep{Start: s + uint64(rng.Intn(4)), Limit: uint64(rng.Range(1, 4))})
			}
			addReqSeq(out, ns, p, seq, "request-sequence-random")
			nreq++
		}
	}
	out.Notes["request_sequences"] = nreq
	// limit 0
	for _, ps := range []string{"none", "b", "h", "r"} {
		addGet(out, ns, parsePlan(ps), 5, 0, nil, false, false, "limit-zero")
	}
	// Hash / Latest
	for _, op := range []string{"Hash", "Latest"} {
		addHead(out, ns, op, 3, nil)
		addHead(out, ns, op, 100, nil) // a block the node does not have: null result
		for _, c := range []simnode.Corruption{
			{Kind: "null-result"}, {Kind: "no-result"}, {Kind: "error", Arg: -32000}, {Kind: "error", Arg: 0}, {Kind: "error", Arg: -1}, {Kind: "error", Arg: -2147483648},
			{Kind: "error-pos", Arg: 1}, {Kind: "error-pos", Arg: 3}, {Kind: "error-pos", Arg: 429}, {Kind: "error-pos", Arg: 32000},
			{Kind: "error-pos", Arg: 2147483647}, {Kind: "error-data", Arg: 3}, {Kind: "error-data", Arg: -32000},
			{Kind: "error-only", Arg: 3}, {Kind: "error-only", Arg: 0}, {Kind: "status", Arg: 500}, {Kind: "status", Arg: 429},
			{Kind: "truncate", Arg: 2}, {Kind: "not-json"}, {Kind: "null-body"}, {Kind: "wrong-shape"}, {Kind: "abort"},
			{Kind: "break-hash"}, {Kind: "renumber", Arg: 77},
		} {
			addHead(out, ns, op, 3, []simnode.Corruption{c})
		}
	}
	out.Notes["single_corruptions"] = nsingle
	out.Notes["double_corruptions"] = ndouble
	out.Notes["retry_sequences"] = nretry
	out.Notes["plans"] = allPlans
	out.Notes["ranges"] = fmt.Sprint(ranges)
	out.Notes["exhaustive"] = cfg.Thorough()
	return out.Flush()
}

// replay re-runs the failing input of a replay file written by bin/check
func replay(cfg Cfg) error {
	raw, err := os.ReadFile(cfg.Replay)
	if err != nil {
		return err
	}
	var rep struct {
		FailingInput struct {
			Desc caseDesc `json:"desc"`
		} `json:"failing_input"`
	}
	if err := json.Unmarshal(raw, &rep); err != nil {
		return err
	}
	d := rep.FailingInput.Desc
	out := lib.NewOut("C07", cfg.Out, c07Header, "run", 100)
	out.Rule = "replay of one case"
	ns := newNodes()
	defer ns.close()
	switch d.Op {
	case "Get":
		if len(d.ReqSeq) > 0 {
			addReqSeq(out, ns, parsePlan(d.Plan), d.ReqSeq, "replay-request-sequence")
		} else if len(d.Retry) > 0 && len(d.Corrupt) > 0 {
			addRetry(out, ns, parsePlan(d.Plan), d.Start, d.Limit, d.Corrupt[0])
		} else {
			addGet(out, ns, parsePlan(d.Plan), d.Start, d.Limit, d.Corrupt, d.Cached, d.Filtered, "replay")
		}
	case "Hash", "Latest":
		addHead(out, ns, d.Op, d.Start, d.Corrupt)
	default:
		return fmt.Errorf("replay file has no failing input")
	}
	return out.Flush()
}
