// c07: correspondence driver of property C07 (source responses are validated).
package main

import "verif/harness/lib"

type Cfg = lib.Cfg

func main() { lib.Main(runC07) }
