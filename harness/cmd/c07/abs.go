package main

// Abstract (decoded) view of the node's replies, as the Coq model sees them
// (Model/Client.v), read from the bytes the scripted node actually sent, and
// the canonical dump of what the implementation returned.

import (
	"bytes"
	"encoding/json"
	"fmt"
	"math/big"
	"sort"
	"strings"

	"github.com/holiman/uint256"
	"github.com/indexsupply/shovel/eth"
	"verif/harness/lib"
	"verif/harness/simnode"
)

// ---- payloads: list of field values; numbers as themselves, byte strings as
// the number spelled by 0x01 ++ bytes (so length and leading zeros count);
// a payload whose every field is zero/empty is [].
type payload []*big.Int

type pb struct {
	parts []*big.Int
	nz    bool
}

func (p *pb) num(n uint64) *pb {
	p.parts = append(p.parts, new(big.Int).SetUint64(n))
	p.nz = p.nz || n != 0
	return p
}
func (p *pb) big(n *big.Int) *pb {
	p.parts = append(p.parts, new(big.Int).Set(n))
	p.nz = p.nz || n.Sign() != 0
	return p
}
func (p *pb) bytes(b []byte) *pb {
	v := new(big.Int).SetBytes(append([]byte{1}, b...))
	p.parts = append(p.parts, v)
	p.nz = p.nz || len(b) != 0
	return p
}
func (p *pb) done() payload {
	if !p.nz {
		return nil
	}
	return p.parts
}

func (p payload) coq() string {
	xs := make([]string, len(p))
	for i := range p {
		xs[i] = p[i].String()
	}
	return "[" + strings.Join(xs, ";") + "]"
}
func (p payload) eq(q payload) bool {
	if len(p) != len(q) {
		return false
	}
	for i := range p {
		if p[i].Cmp(q[i]) != 0 {
			return false
		}
	}
	return true
}

type aLog struct {
	Idx uint64
	Pl  payload
}
type aTrace struct {
	Idx uint64
	Pl  payload
}
type aTx struct {
	Idx    uint64
	Hash   []byte
	Tft    payload
	Body   payload
	Rcpt   payload
	Logs   []aLog
	Traces []aTrace
}
type aBlock struct {
	Num    uint64
	Hash   []byte
	Parent []byte
	Hpl    payload
	Txs    []aTx
}

func cLogs(ls []aLog) string {
	xs := make([]string, len(ls))
	for i, l := range ls {
		xs[i] = fmt.Sprintf("L %d %s", l.Idx, l.Pl.coq())
	}
	return "[" + strings.Join(xs, ";") + "]"
}
func cTraces(ls []aTrace) string {
	xs := make([]string, len(ls))
	for i, l := range ls {
		xs[i] = fmt.Sprintf("A %d %s", l.Idx, l.Pl.coq())
	}
	return "[" + strings.Join(xs, ";") + "]"
}
func (t aTx) coq() string {
	return fmt.Sprintf("T %d %s %s %s %s %s %s", t.Idx, lib.CBytes(t.Hash), t.Tft.coq(), t.Body.coq(), t.Rcpt.coq(),
		cLogs(t.Logs), cTraces(t.Traces))
}
func (b aBlock) coq() string {
	xs := make([]string, len(b.Txs))
	for i, t := range b.Txs {
		xs[i] = t.coq()
	}
	return fmt.Sprintf("B %d %s %s %s [%s]", b.Num, lib.CBytes(b.Hash), lib.CBytes(b.Parent), b.Hpl.coq(), strings.Join(xs, ";"))
}
func cBlocks(bs []aBlock) string {
	xs := make([]string, len(bs))
	for i := range bs {
		xs[i] = bs[i].coq()
	}
	return "[" + strings.Join(xs, "; ") + "]"
}

func logsEq(a, b []aLog) bool {
	if len(a) != len(b) {
		return false
	}
	for i := range a {
		if a[i].Idx != b[i].Idx || !a[i].Pl.eq(b[i].Pl) {
			return false
		}
	}
	return true
}
func tracesEq(a, b []aTrace) bool {
	if len(a) != len(b) {
		return false
	}
	for i := range a {
		if a[i].Idx != b[i].Idx || !a[i].Pl.eq(b[i].Pl) {
			return false
		}
	}
	return true
}
func txEq(a, b aTx) bool {
	return a.Idx == b.Idx && bytes.Equal(a.Hash, b.Hash) && a.Tft.eq(b.Tft) && a.Body.eq(b.Body) && a.Rcpt.eq(b.Rcpt) &&
		logsEq(a.Logs, b.Logs) && tracesEq(a.Traces, b.Traces)
}
func blocksEq(a, b []aBlock) (bool, string) {
	if len(a) != len(b) {
		return false, fmt.Sprintf("%d blocks, expected %d", len(a), len(b))
	}
	for i := range a {
		x, y := a[i], b[i]
		if x.Num != y.Num || !bytes.Equal(x.Hash, y.Hash) || !bytes.Equal(x.Parent, y.Parent) || !x.Hpl.eq(y.Hpl) {
			return false, fmt.Sprintf("block %d: header fields differ (num %d/%d hash %x/%x)", i, x.Num, y.Num, x.Hash, y.Hash)
		}
		if len(x.Txs) != len(y.Txs) {
			return false, fmt.Sprintf("block %d: %d transactions, expected %d", x.Num, len(x.Txs), len(y.Txs))
		}
		for j := range x.Txs {
			if !txEq(x.Txs[j], y.Txs[j]) {
				a, b := x.Txs[j], y.Txs[j]
				what := ""
				switch {
				case a.Idx != b.Idx:
					what = "index"
				case !bytes.Equal(a.Hash, b.Hash):
					what = fmt.Sprintf("hash %x/%x", a.Hash, b.Hash)
				case !a.Tft.eq(b.Tft):
					what = "type/from/to " + a.Tft.coq() + "/" + b.Tft.coq()
				case !a.Body.eq(b.Body):
					what = "block-only fields " + a.Body.coq() + "/" + b.Body.coq()
				case !a.Rcpt.eq(b.Rcpt):
					what = "receipt fields " + a.Rcpt.coq() + "/" + b.Rcpt.coq()
				case !logsEq(a.Logs, b.Logs):
					what = fmt.Sprintf("logs (%d/%d)", len(a.Logs), len(b.Logs))
				default:
					what = fmt.Sprintf("traces (%d/%d)", len(a.Traces), len(b.Traces))
				}
				return false, fmt.Sprintf("block %d tx #%d (idx %d/%d): %s", x.Num, j, a.Idx, b.Idx, what)
			}
		}
	}
	return true, ""
}

func sortTxs(txs []aTx) {
	sort.SliceStable(txs, func(i, j int) bool { return txs[i].Idx < txs[j].Idx })
}

// ---- canonical dump of the implementation's result
func u256(x *uint256.Int) *big.Int { return x.ToBig() }

func dumpBlocks(bs []eth.Block) []aBlock {
	res := make([]aBlock, len(bs))
	for i := range bs {
		b := &bs[i]
		ab := aBlock{Num: b.Num(), Hash: append([]byte{}, b.Header.Hash...), Parent: append([]byte{}, b.Header.Parent...),
			Hpl: (&pb{}).num(uint64(b.Header.Time)).bytes(b.Header.LogsBloom).done()}
		for j := range b.Txs {
			t := &b.Txs[j]
			at := aTx{Idx: uint64(t.Idx), Hash: append([]byte{}, t.PrecompHash...)}
			at.Tft = (&pb{}).num(uint64(t.Type)).bytes(t.From).bytes(t.To).done()
			at.Body = (&pb{}).num(uint64(t.Nonce)).big(u256(&t.GasPrice)).num(uint64(t.GasLimit)).big(u256(&t.Value)).
				bytes(t.Data).big(u256(&t.V)).big(u256(&t.R)).big(u256(&t.S)).big(u256(&t.ChainID)).
				big(u256(&t.MaxPriorityFeePerGas)).big(u256(&t.MaxFeePerGas)).done()
			at.Rcpt = (&pb{}).num(uint64(t.Status)).num(uint64(t.GasUsed)).big(u256(&t.EffectiveGasPrice)).bytes(t.ContractAddress).done()
			for k := range t.Logs {
				at.Logs = append(at.Logs, aLog{Idx: uint64(t.Logs[k].Idx), Pl: logPayload(t.Logs[k].Address, t.Logs[k].Data, bb(t.Logs[k].Topics))})
			}
			for k := range t.TraceActions {
				ta := &t.TraceActions[k]
				at.Traces = append(at.Traces, aTrace{Idx: ta.Idx, Pl: tracePayload(ta.From, ta.CallType, ta.To, u256(&ta.Value))})
			}
			ab.Txs = append(ab.Txs, at)
		}
		sortTxs(ab.Txs)
		res[i] = ab
	}
	return res
}

func bb(ts []eth.Bytes) [][]byte {
	r := make([][]byte, len(ts))
	for i := range ts {
		r[i] = ts[i]
	}
	return r
}

func logPayload(addr, data []byte, topics [][]byte) payload {
	p := (&pb{}).bytes(addr).bytes(data).num(uint64(len(topics)))
	for _, t := range topics {
		p.bytes(t)
	}
	return p.done()
}
func tracePayload(from []byte, callType string, to []byte, value *big.Int) payload {
	return (&pb{}).bytes(from).bytes([]byte(callType)).bytes(to).big(value).done()
}

// ---- decoded view of the replies (what the client's JSON decoder makes of them)
type aBelem struct {
	Err bool
	Res *aBlock // nil: "result":null
}
type aRcpt struct {
	Bnum   uint64
	Bhash  []byte
	Txidx  uint64
	Txhash []byte
	Tft    payload
	Pl     payload
	Logs   []aLog
}
type aRelem struct {
	Err bool
	Res []aRcpt
	Nil bool // result null / absent
}
type aLogr struct {
	Bnum   uint64
	Bhash  []byte
	Txidx  uint64
	Txhash []byte
	Log    aLog
}
type aLbatch struct {
	Len      int
	Herr     bool
	Hpresent bool
	Hhash    []byte // hash of the header that comes with the logs
	Lerr     bool
	LogsNil  bool
	Logs     []*aLogr // nil entry: null log
}
type aTracer struct {
	Bnum   uint64
	Bhash  []byte
	Txidx  uint64
	Txhash []byte
	Pl     payload
}
type aTelem struct {
	Err bool
	Nil bool
	Res []aTracer
}
type aHead struct {
	Err  bool
	Nil  bool
	Num  uint64
	Hash []byte
}

// a reply is nil (transport failure: status, truncated or undecodable body) or a value
type aWorld struct {
	Blocks   *[]aBelem
	Headers  *[]aBelem
	Receipts *[]aRelem
	Logs     *aLbatch
	Traces   []*aTelem
}

type garbled struct{ what string }

func bad(format string, a ...any) { panic(garbled{fmt.Sprintf(format, a...)}) }

func parseJSON(body []byte) (v any, ok bool) {
	dec := json.NewDecoder(bytes.NewReader(body))
	dec.UseNumber()
	if err := dec.Decode(&v); err != nil {
		return nil, false
	}
	return v, true
}

// value decoders mirroring eth.Uint64 / eth.Bytes / eth.Byte / uint256.Int / uint64
func qty(o map[string]any, k string) uint64 {
	v, has := o[k]
	if !has || v == nil {
		return 0
	}
	s, ok := v.(string)
	if !ok {
		bad("%s: not a string", k)
	}
	// eth.decode: every character a hex digit; an error as soon as the value no longer fits 64 bits (leading
	// zeros are fine, any number of them)
	if !strings.HasPrefix(s, "0x") {
		bad("%s: bad quantity %q", k, s)
	}
	var n uint64
	for _, c := range s[2:] {
		var d uint64
		switch {
		case c >= '0' && c <= '9':
			d = uint64(c - '0')
		case c >= 'a' && c <= 'f':
			d = uint64(c-'a') + 10
		case c >= 'A' && c <= 'F':
			d = uint64(c-'A') + 10
		default:
			bad("%s: bad quantity %q", k, s)
		}
		if n>>60 != 0 {
			bad("%s: quantity %q above 64 bits", k, s)
		}
		n = n<<4 | d
	}
	return n
}
func data(o map[string]any, k string) []byte {
	v, has := o[k]
	if !has || v == nil {
		return nil
	}
	s, ok := v.(string)
	if !ok || !strings.HasPrefix(s, "0x") || len(s)%2 != 0 {
		bad("%s: bad data %v", k, v)
	}
	for _, c := range s[2:] {
		if !strings.ContainsRune("0123456789abcdefABCDEF", c) {
			bad("%s: bad data %q", k, s)
		}
	}
	return simnode.ParseHex(s)
}
func jsonNum(o map[string]any, k string) uint64 {
	v, has := o[k]
	if !has || v == nil {
		return 0
	}
	n, ok := simnode.NumOf(v)
	if _, isStr := v.(string); !ok || isStr {
		bad("%s: not a JSON number", k)
	}
	return n
}
func text(o map[string]any, k string) string {
	s, _ := o[k].(string)
	return s
}

func errMember(o map[string]any) bool {
	e, ok := o["error"].(map[string]any)
	if !ok {
		if o["error"] != nil {
			bad("error member is not an object")
		}
		return false
	}
	c, has := e["code"]
	if !has || c == nil {
		return false
	}
	n, ok := c.(json.Number)
	if !ok {
		bad("error code is not a number")
	}
	return n.String() != "0"
}

func absLog(o map[string]any) aLog {
	var topics [][]byte
	if ts, ok := o["topics"].([]any); ok {
		for i := range ts {
			topics = append(topics, data(map[string]any{"t": ts[i]}, "t"))
		}
	}
	return aLog{Idx: qty(o, "logIndex"), Pl: logPayload(data(o, "address"), data(o, "data"), topics)}
}

func absBlock(o map[string]any, full bool) *aBlock {
	b := &aBlock{Num: qty(o, "number"), Hash: data(o, "hash"), Parent: data(o, "parentHash"),
		Hpl: (&pb{}).num(qty(o, "timestamp")).bytes(data(o, "logsBloom")).done()}
	if txs, ok := o["transactions"].([]any); ok && full {
		for _, e := range txs {
			t, ok := e.(map[string]any)
			if !ok {
				if e == nil {
					b.Txs = append(b.Txs, aTx{})
					continue
				}
				bad("transaction is not an object")
			}
			at := aTx{Idx: qty(t, "transactionIndex"), Hash: data(t, "hash")}
			at.Tft = (&pb{}).num(qty(t, "type") & 0xff).bytes(data(t, "from")).bytes(data(t, "to")).done()
			at.Body = (&pb{}).num(qty(t, "nonce")).num(qty(t, "gasPrice")).num(qty(t, "gas")).num(qty(t, "value")).
				bytes(data(t, "input")).num(qty(t, "v")).num(qty(t, "r")).num(qty(t, "s")).num(qty(t, chainIDKey)).
				num(qty(t, "maxPriorityFeePerGas")).num(qty(t, "maxFeePerGas")).done()
			b.Txs = append(b.Txs, at)
		}
	}
	return b
}

// the JSON member the client's decoder accepts for Tx.ChainID: the tag is
// "chainID" and goccy/go-json matches it case-sensitively, so the "chainId"
// member that nodes send is ignored (observed; Tx.ChainID is not a selectable field)
const chainIDKey = "chainID"

func absBelems(v any, full bool) *[]aBelem {
	res := []aBelem{}
	if v == nil {
		return &res
	}
	arr, ok := v.([]any)
	if !ok {
		return nil
	}
	for _, e := range arr {
		o, ok := e.(map[string]any)
		if !ok {
			if e == nil {
				res = append(res, aBelem{Res: &aBlock{}})
				continue
			}
			return nil
		}
		el := aBelem{Err: errMember(o)}
		r, has := o["result"]
		switch {
		case !has:
			el.Res = &aBlock{}
		case r == nil:
			el.Res = nil
		default:
			ro, ok := r.(map[string]any)
			if !ok {
				return nil
			}
			el.Res = absBlock(ro, full)
		}
		res = append(res, el)
	}
	return &res
}

func absRelems(v any) *[]aRelem {
	res := []aRelem{}
	if v == nil {
		return &res
	}
	arr, ok := v.([]any)
	if !ok {
		return nil
	}
	for _, e := range arr {
		o, ok := e.(map[string]any)
		if !ok {
			if e == nil {
				res = append(res, aRelem{Nil: true})
				continue
			}
			return nil
		}
		el := aRelem{Err: errMember(o)}
		r := o["result"]
		if r == nil {
			el.Nil = true
		} else {
			items, ok := r.([]any)
			if !ok {
				return nil
			}
			el.Res = []aRcpt{}
			for _, it := range items {
				ro, ok := it.(map[string]any)
				if !ok {
					if it == nil {
						el.Res = append(el.Res, aRcpt{})
						continue
					}
					return nil
				}
				rc := aRcpt{Bnum: qty(ro, "blockNumber"), Bhash: data(ro, "blockHash"), Txidx: qty(ro, "transactionIndex"),
					Txhash: data(ro, "transactionHash")}
				rc.Tft = (&pb{}).num(qty(ro, "type") & 0xff).bytes(data(ro, "from")).bytes(data(ro, "to")).done()
				rc.Pl = (&pb{}).num(qty(ro, "status") & 0xff).num(qty(ro, "gasUsed")).num(qty(ro, "effectiveGasPrice")).
					bytes(data(ro, "contractAddress")).done()
				if ls, ok := ro["logs"].([]any); ok {
					for _, l := range ls {
						lo, ok := l.(map[string]any)
						if !ok {
							if l == nil {
								rc.Logs = append(rc.Logs, aLog{})
								continue
							}
							return nil
						}
						rc.Logs = append(rc.Logs, absLog(lo))
					}
				}
				el.Res = append(el.Res, rc)
			}
		}
		res = append(res, el)
	}
	return &res
}

func absLbatch(v any) *aLbatch {
	lb := &aLbatch{LogsNil: true}
	if v == nil {
		return lb
	}
	arr, ok := v.([]any)
	if !ok {
		return nil
	}
	lb.Len = len(arr)
	if len(arr) >= 1 && arr[0] != nil {
		o, ok := arr[0].(map[string]any)
		if !ok {
			return nil
		}
		lb.Herr = errMember(o)
		if r := o["result"]; r != nil {
			ro, ok := r.(map[string]any)
			if !ok {
				return nil
			}
			lb.Hhash = absBlock(ro, false).Hash // also: value-level decoding errors
			lb.Hpresent = true
		}
	}
	if len(arr) >= 2 && arr[1] != nil {
		o, ok := arr[1].(map[string]any)
		if !ok {
			return nil
		}
		lb.Lerr = errMember(o)
		if r := o["result"]; r != nil {
			items, ok := r.([]any)
			if !ok {
				return nil
			}
			lb.LogsNil = false
			lb.Logs = []*aLogr{}
			for _, it := range items {
				lo, ok := it.(map[string]any)
				if !ok {
					if it == nil {
						lb.Logs = append(lb.Logs, nil)
						continue
					}
					return nil
				}
				lb.Logs = append(lb.Logs, &aLogr{Bnum: qty(lo, "blockNumber"), Bhash: data(lo, "blockHash"),
					Txidx: qty(lo, "transactionIndex"), Txhash: data(lo, "transactionHash"), Log: absLog(lo)})
			}
		}
	}
	return lb
}

func absTelem(v any) *aTelem {
	if v == nil {
		return &aTelem{Nil: true}
	}
	o, ok := v.(map[string]any)
	if !ok {
		return nil
	}
	el := &aTelem{Err: errMember(o)}
	r := o["result"]
	if r == nil {
		el.Nil = true
		return el
	}
	items, ok := r.([]any)
	if !ok {
		return nil
	}
	el.Res = []aTracer{}
	for _, it := range items {
		to, ok := it.(map[string]any)
		if !ok {
			if it == nil {
				el.Res = append(el.Res, aTracer{})
				continue
			}
			return nil
		}
		tr := aTracer{Bnum: jsonNum(to, "blockNumber"), Bhash: data(to, "blockHash"), Txidx: jsonNum(to, "transactionPosition"),
			Txhash: data(to, "transactionHash")}
		if a, ok := to["action"].(map[string]any); ok {
			tr.Pl = tracePayload(data(a, "from"), text(a, "callType"), data(a, "to"), new(big.Int).SetUint64(qty(a, "value")))
		}
		el.Res = append(el.Res, tr)
	}
	return el
}

func absHead(v any) *aHead {
	if v == nil {
		return &aHead{Nil: true}
	}
	o, ok := v.(map[string]any)
	if !ok {
		return nil
	}
	h := &aHead{Err: errMember(o)}
	r := o["result"]
	if r == nil {
		h.Nil = true
		return h
	}
	ro, ok := r.(map[string]any)
	if !ok {
		return nil
	}
	b := absBlock(ro, false)
	h.Num, h.Hash = b.Num, b.Hash
	return h
}

// abstractSent turns what went over the wire into the decoded view; nil = the
// client cannot obtain a decoded reply (transport failure).
func abstractSent[T any](s simnode.Sent, f func(v any) *T) (res *T) {
	if s.X.Abort || s.Status/100 != 2 {
		return nil
	}
	v, ok := parseJSON(s.Body)
	if !ok {
		return nil
	}
	defer func() {
		if r := recover(); r != nil {
			if _, isG := r.(garbled); isG {
				res = nil
				return
			}
			panic(r)
		}
	}()
	return f(v)
}

// ---- Coq printers of the decoded view
func cReply(present bool, body string) string {
	if !present {
		return "RFail"
	}
	return "(RBody " + body + ")"
}

func cBelems(es *[]aBelem) string {
	if es == nil {
		return "RFail"
	}
	xs := make([]string, len(*es))
	for i, e := range *es {
		if e.Res == nil {
			xs[i] = fmt.Sprintf("BE %s None", lib.CBool(e.Err))
		} else {
			xs[i] = fmt.Sprintf("BE %s (Some (%s))", lib.CBool(e.Err), e.Res.coq())
		}
	}
	return "(RBody [" + strings.Join(xs, "; ") + "])"
}

func cRelems(es *[]aRelem) string {
	if es == nil {
		return "RFail"
	}
	xs := make([]string, len(*es))
	for i, e := range *es {
		if e.Nil {
			xs[i] = fmt.Sprintf("RE %s None", lib.CBool(e.Err))
			continue
		}
		rs := make([]string, len(e.Res))
		for j, r := range e.Res {
			rs[j] = fmt.Sprintf("RC %d %s %d %s %s %s %s", r.Bnum, lib.CBytes(r.Bhash), r.Txidx, lib.CBytes(r.Txhash), r.Tft.coq(), r.Pl.coq(), cLogs(r.Logs))
		}
		xs[i] = fmt.Sprintf("RE %s (Some [%s])", lib.CBool(e.Err), strings.Join(rs, "; "))
	}
	return "(RBody [" + strings.Join(xs, "; ") + "])"
}

func cLbatch(lb *aLbatch) string {
	if lb == nil {
		return "RFail"
	}
	logs := "None"
	if !lb.LogsNil {
		xs := make([]string, len(lb.Logs))
		for i, l := range lb.Logs {
			if l == nil {
				xs[i] = "None"
			} else {
				xs[i] = fmt.Sprintf("Some (LR %d %s %d %s (L %d %s))", l.Bnum, lib.CBytes(l.Bhash), l.Txidx, lib.CBytes(l.Txhash), l.Log.Idx, l.Log.Pl.coq())
			}
		}
		logs = "(Some [" + strings.Join(xs, "; ") + "])"
	}
	return fmt.Sprintf("(RBody (LB %s %s %s %s %s))", lib.CNat(lb.Len), lib.CBool(lb.Herr), lib.COpt(lb.Hpresent, lib.CBytes(lb.Hhash)), lib.CBool(lb.Lerr), logs)
}

func cTelem(e *aTelem) string {
	if e == nil {
		return "RFail"
	}
	if e.Nil {
		return fmt.Sprintf("(RBody (TE %s None))", lib.CBool(e.Err))
	}
	xs := make([]string, len(e.Res))
	for i, t := range e.Res {
		xs[i] = fmt.Sprintf("TR %d %s %d %s %s", t.Bnum, lib.CBytes(t.Bhash), t.Txidx, lib.CBytes(t.Txhash), t.Pl.coq())
	}
	return fmt.Sprintf("(RBody (TE %s (Some [%s])))", lib.CBool(e.Err), strings.Join(xs, "; "))
}

func cHead(h *aHead) string {
	if h == nil {
		return "RFail"
	}
	if h.Nil {
		return fmt.Sprintf("(RBody (HR %s None))", lib.CBool(h.Err))
	}
	return fmt.Sprintf("(RBody (HR %s (Some (%d, %s))))", lib.CBool(h.Err), h.Num, lib.CBytes(h.Hash))
}

func (w *aWorld) coq() string {
	ts := make([]string, len(w.Traces))
	for i := range w.Traces {
		ts[i] = cTelem(w.Traces[i])
	}
	return fmt.Sprintf("(W %s %s %s %s [%s])", cBelems(w.Blocks), cBelems(w.Headers), cRelems(w.Receipts), cLbatch(w.Logs), strings.Join(ts, "; "))
}
