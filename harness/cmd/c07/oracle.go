package main

// Direct property oracle of C07, independent of the Coq model: from the
// decoded view of what the node sent, decide whether the property DEMANDS a
// failure (an error member, a missing/null result, a wrong block number, a
// broken parent link, an item naming another block or another block hash, a
// transport failure) and otherwise compute, block by block and transaction by
// transaction, what must be attached where.

import (
	"bytes"
	"fmt"
)

type planFlags struct {
	Headers, Blocks, Receipts, Logs, Traces bool
}

func (p planFlags) String() string {
	s := ""
	for _, x := range []struct {
		on bool
		c  string
	}{{p.Headers, "h"}, {p.Blocks, "b"}, {p.Receipts, "r"}, {p.Logs, "l"}, {p.Traces, "t"}} {
		if x.on {
			s += x.c
		}
	}
	if s == "" {
		return "none"
	}
	return s
}

type mustFail struct{ why string }

func fail(format string, a ...any) { panic(mustFail{fmt.Sprintf(format, a...)}) }

// ideal returns (nil, reason) when the property demands an error.
func ideal(p planFlags, start, limit uint64, w *aWorld) (res []aBlock, why string) {
	defer func() {
		if r := recover(); r != nil {
			if m, ok := r.(mustFail); ok {
				res, why = nil, m.why
				return
			}
			panic(r)
		}
	}()
	blocks := make([]aBlock, limit)
	fetched := false
	var es *[]aBelem
	switch {
	case p.Blocks:
		es, fetched = w.Blocks, true
	case p.Headers:
		es, fetched = w.Headers, true
	}
	if fetched {
		if es == nil {
			fail("no decodable reply to the block request (status, body, or a quantity that is not a 64-bit number)")
		}
		for i, e := range *es {
			if e.Err {
				fail("error member in block response %d", i)
			}
		}
		if limit == 0 {
			fail("no blocks")
		}
		if uint64(len(*es)) < limit {
			fail("block batch has %d elements, %d requested", len(*es), limit)
		}
		for i := uint64(0); i < limit; i++ {
			e := (*es)[i]
			if e.Res == nil || len(e.Res.Hash) == 0 {
				fail("missing/null result for block %d", start+i)
			}
			if e.Res.Num != start+i {
				fail("block %d delivered in place of %d", e.Res.Num, start+i)
			}
			if i > 0 && !bytes.Equal(e.Res.Parent, (*es)[i-1].Res.Hash) {
				fail("parent link broken at block %d", start+i)
			}
			blocks[i] = copyBlock(*e.Res)
		}
	} else {
		for i := range blocks {
			blocks[i] = aBlock{Num: start + uint64(i)}
		}
	}
	// the hash an item names must be the one already known for its block
	name := func(b *aBlock, h []byte, what string) {
		if len(b.Hash) > 0 && !bytes.Equal(b.Hash, h) {
			fail("%s names hash %x, block %d has %x", what, h, b.Num, b.Hash)
		}
		b.Hash = append([]byte{}, h...)
	}
	txOf := func(b *aBlock, idx uint64) *aTx {
		for i := range b.Txs {
			if b.Txs[i].Idx == idx {
				return &b.Txs[i]
			}
		}
		b.Txs = append(b.Txs, aTx{Idx: idx})
		return &b.Txs[len(b.Txs)-1]
	}
	switch {
	case p.Receipts:
		if w.Receipts == nil {
			fail("no decodable reply to the receipts request (status, body, or a quantity that is not a 64-bit number)")
		}
		for i, e := range *w.Receipts {
			if e.Err {
				fail("error member in receipts response %d", i)
			}
		}
		if uint64(len(*w.Receipts)) < limit {
			fail("receipts batch has %d elements, %d requested", len(*w.Receipts), limit)
		}
		for i := uint64(0); i < limit; i++ {
			e := (*w.Receipts)[i]
			if e.Nil {
				fail("null receipts result for block %d", start+i)
			}
			b := &blocks[i]
			for _, r := range e.Res {
				if r.Bnum != start+i {
					fail("receipt of block %d in the response for block %d", r.Bnum, start+i)
				}
				name(b, r.Bhash, "receipt")
			}
			for _, r := range e.Res { // a later receipt for the same transaction replaces the earlier
				t := txOf(b, r.Txidx)
				t.Hash, t.Tft, t.Rcpt, t.Logs = r.Txhash, r.Tft, r.Pl, append([]aLog{}, r.Logs...)
			}
		}
	case p.Logs:
		lb := w.Logs
		switch {
		case lb == nil:
			fail("no decodable reply to the logs request (status, body, or a quantity that is not a 64-bit number)")
		case lb.Len < 2:
			fail("logs batch has %d elements", lb.Len)
		case lb.Herr || lb.Lerr:
			fail("error member in the logs batch")
		case !lb.Hpresent:
			fail("null header for the last block")
		case lb.LogsNil:
			fail("null eth_getLogs result")
		}
		// the header that comes with the logs is the header already fetched for the last block
		if limit > 0 && len(blocks[limit-1].Hash) > 0 && !bytes.Equal(blocks[limit-1].Hash, lb.Hhash) {
			fail("eth_getLogs came with header %x for block %d, the fetched header is %x", lb.Hhash, start+limit-1, blocks[limit-1].Hash)
		}
		for _, l := range lb.Logs {
			if l == nil {
				fail("null log")
			}
			if l.Bnum < start || l.Bnum >= start+limit {
				fail("log of block %d outside [%d,%d)", l.Bnum, start, start+limit)
			}
		}
		for _, l := range lb.Logs {
			b := &blocks[l.Bnum-start]
			name(b, l.Bhash, "log")
		}
		type k struct{ b, t uint64 }
		first := map[k]bool{}
		for _, l := range lb.Logs {
			b := &blocks[l.Bnum-start]
			t := txOf(b, l.Txidx)
			if !first[k{l.Bnum, l.Txidx}] {
				first[k{l.Bnum, l.Txidx}] = true
				t.Hash = l.Txhash
			}
			dup := false
			for _, x := range t.Logs { // one log per log index
				if x.Idx == l.Log.Idx {
					dup = true
				}
			}
			if !dup {
				t.Logs = append(t.Logs, l.Log)
			}
		}
	}
	if p.Traces {
		for i := uint64(0); i < limit; i++ {
			if int(i) >= len(w.Traces) || w.Traces[i] == nil {
				fail("transport failure of trace_block %d", start+i)
			}
			e := w.Traces[i]
			switch {
			case e.Err:
				fail("error member in trace_block %d", start+i)
			case e.Nil:
				fail("null trace_block result for block %d", start+i)
			case len(e.Res) == 0:
				fail("empty trace_block result for block %d (the client requires at least one trace)", start+i)
			}
			b := &blocks[i]
			for _, t := range e.Res {
				if t.Bnum != start+i {
					fail("trace of block %d in the response for block %d", t.Bnum, start+i)
				}
				name(b, t.Bhash, "trace")
			}
			seen := map[uint64]bool{}
			for _, t := range e.Res {
				if seen[t.Txidx] {
					continue
				}
				seen[t.Txidx] = true
				tx := txOf(b, t.Txidx)
				tx.Hash = t.Txhash
				tx.Traces = nil
				for _, u := range e.Res {
					if u.Txidx == t.Txidx {
						tx.Traces = append(tx.Traces, aTrace{Idx: uint64(len(tx.Traces)), Pl: u.Pl})
					}
				}
			}
		}
	}
	for i := range blocks {
		sortTxs(blocks[i].Txs)
	}
	return blocks, ""
}

func copyBlock(b aBlock) aBlock {
	c := b
	c.Txs = make([]aTx, len(b.Txs))
	for i := range b.Txs {
		c.Txs[i] = b.Txs[i]
		c.Txs[i].Logs = append([]aLog{}, b.Txs[i].Logs...)
		c.Txs[i].Traces = append([]aTrace{}, b.Txs[i].Traces...)
	}
	return c
}
