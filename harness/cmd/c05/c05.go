// Driver of property C05: an integration with filter references never runs
// ahead of what it references.  Dependency graphs are produced by
// config.ValidateFix from filter_ref declarations (on event inputs and on a
// block field); 1-3 referenced integrations, 1-3 dependents (several dependents
// whose references differ, in any file order); all relative
// speeds: referenced integrations stalled, far ahead, not started at all;
// whole steps and statement-level interleavings.  Oracles: at every position
// a dependent records, every referenced integration had a committed position
// >= it when the step read the dependency position; a dependent whose
// reference has no position does nothing; at quiescence the dependent's rows
// are exactly the rows whose reference lookups succeed on the final
// referenced tables.
package main

import (
	"fmt"
	"sort"

	"verif/harness/lib"
	ts "verif/harness/tasksim"
)

type graph struct {
	igs    []ts.IGSpec
	deps   []int // task ids (1-based, tasks sorted by integration name) of dependents
	refs   []int // task ids of referenced integrations
	token  bool
	nTasks int
}

// mkGraph: task ids follow the (integration name, source name) order.
func mkGraph(r *lib.RNG, twoRefs, twoDeps, blockField, twoSrc bool, rstart, dstart uint64) graph {
	g := graph{}
	srcs := []string{"main"}
	if twoSrc {
		srcs = []string{"alt", "main"}
	}
	add := func(ig ts.IGSpec, start uint64, dep bool) {
		for _, s := range srcs {
			ig.Sources = append(ig.Sources, ts.SrcRef{Name: s, Start: start})
			g.nTasks++
			if dep {
				g.deps = append(g.deps, g.nTasks)
			} else {
				g.refs = append(g.refs, g.nTasks)
			}
		}
		g.igs = append(g.igs, ig)
	}
	d := ts.IGSpec{Name: "a-dep", Shape: "dep", Table: "d1", Ref: "r-one", RefLo: rstart, Hdr: r.Bool()}
	if twoRefs {
		d.Ref2 = "r-two"
	}
	add(d, dstart, true)
	if twoDeps {
		d2 := ts.IGSpec{Name: "b-dep", Shape: "dep", Table: "d2", Ref: "r-one", RefLo: rstart}
		if blockField {
			d2.Shape = "depbd"
			g.token = true
		}
		add(d2, dstart, true)
	}
	share := twoRefs && r.Intn(3) == 0 // both references write one table (and the referenced column)
	hdr := r.Bool()
	t2 := "r2"
	if share {
		t2 = "r1"
	}
	add(ts.IGSpec{Name: "r-one", Shape: "created", Table: "r1", Hdr: hdr}, rstart, false)
	if twoRefs {
		add(ts.IGSpec{Name: "r-two", Shape: "created", Table: t2, Hdr: share && hdr}, rstart, false)
		if share && rstart <= 1 && r.Bool() {
			// the second reference on the block field log_addr instead of input "to"
			g.igs[0].Ref2, g.igs[0].RefBD = "", "r-two"
			g.token = true
		}
	}
	return g
}

// taskIDs: task ids follow the integration name order (one source per integration here).
func taskIDs(igs []ts.IGSpec) map[string]int {
	var names []string
	for _, ig := range igs {
		names = append(names, ig.Name)
	}
	sort.Strings(names)
	ids := map[string]int{}
	for i, n := range names {
		ids[n] = i + 1
	}
	return ids
}

// finishGraph fills deps / refs / nTasks / token from the integrations (single source).
func finishGraph(igs []ts.IGSpec) graph {
	g := graph{igs: igs, nTasks: len(igs)}
	ids := taskIDs(igs)
	for _, ig := range igs {
		if len(ig.DeclaredRefs()) > 0 {
			g.deps = append(g.deps, ids[ig.Name])
		} else {
			g.refs = append(g.refs, ids[ig.Name])
		}
		if ig.Shape == "depbd" || ig.RefBD != "" {
			g.token = true
		}
	}
	sort.Ints(g.deps)
	sort.Ints(g.refs)
	return g
}

// mkGraphMulti: 2-3 referenced integrations and 2-3 dependents whose references DIFFER
// (consecutive dependents never share their first reference); references on input "from",
// on input "to" and on block field log_addr; one dependent may have two different
// references; the integrations appear in the configuration file in a random order
// (dependents before and after what they reference), the names give another (task id) order.
func mkGraphMulti(r *lib.RNG, rstart, dstart uint64) graph {
	src := func(start uint64) []ts.SrcRef { return []ts.SrcRef{{Name: "main", Start: start}} }
	refNames := []string{"r-one", "r-two", "r-three"}[:r.Range(2, 3)]
	depNames := []string{"a-dep", "b-dep", "s-dep"}[:r.Range(2, 3)]
	var igs []ts.IGSpec
	for i, n := range refNames {
		igs = append(igs, ts.IGSpec{Name: n, Shape: "created", Table: fmt.Sprintf("r%d", i+1), Hdr: r.Bool(), Sources: src(rstart)})
	}
	off := r.Intn(len(refNames))
	for i, n := range depNames {
		first := refNames[(off+i)%len(refNames)]
		other := refNames[(off+i+1+r.Intn(len(refNames)-1))%len(refNames)] // never equal to first
		d := ts.IGSpec{Name: n, Shape: "dep", Table: fmt.Sprintf("d%d", i+1), Ref: first, RefLo: rstart, Hdr: r.Bool(), Sources: src(dstart)}
		switch k := r.Intn(6); {
		case k == 0 && rstart <= 1:
			d.Shape = "depbd" // the only reference sits on the block field
		case k == 1:
			d.Ref2 = other
		case k == 2 && rstart <= 1:
			d.RefBD = other
		}
		igs = append(igs, d)
	}
	for i := len(igs) - 1; i > 0; i-- { // file order
		j := r.Intn(i + 1)
		igs[i], igs[j] = igs[j], igs[i]
	}
	return finishGraph(igs)
}

// orphanSeed: a chain seed for which the replacement fork has a transfer whose sender was
// created on that fork (found by search; any such seed shows the limit)
const orphanSeed = 2

// run0: configuration anomalies (a wrong Dependencies set is never the known lookup limit)
func run0(r *ts.Run) []string { return r.W.ConfigAnomalies }

func run(cfg lib.Cfg) error {
	// one case per file in the quick tier: the evaluation time of a shard is that of its largest case
	shard := 1
	if cfg.Thorough() {
		shard = 3
	}
	out := lib.NewOut("C05", cfg.Out, ts.Header(5), "run", shard)
	out.Rule = "non-trivial = a dependent recorded at least two positions, made at least one successful and one unsuccessful reference lookup, and at least once had to wait for a referenced integration"
	reorgMode := false // reorg histories: the table is compared with the final chain at quiescence only
	judge := func(sc *ts.Scenario, kind string, quiescent bool, neverStarted []int) {
		reorg := reorgMode
		ts.Judge(out, sc, kind, func(r *ts.Run) []string {
			dep := append(r.DepOracle(), r.GetLimitOracle()...)
			msgs := append(append([]string{}, dep...), r.InvOracle()...)
			switch {
			case !reorg:
				msgs = append(msgs, r.GrowthOracle(quiescent)...)
			case quiescent:
				msgs = append(msgs, r.ReorgOracle(r.Forks)...)
			}
			if wins := r.DepWindows(); len(msgs) > 0 && len(dep) == 0 && len(run0(r)) == 0 && len(wins) > 0 {
				// known limit of the mechanism (known_findings/C05.json): the dependency position
				// compares block NUMBERS; a reference that has not unwound yet (or unwinds between
				// the dependency read and the lookups) offers rows of orphaned blocks
				msgs = append([]string{"reference lookups ran against a referenced table that did not describe the chain being indexed (" + wins[0] + ")"}, msgs...)
			}
			return msgs
		}, func(r *ts.Run) bool {
			pos, hit, miss, waited := 0, false, false, false
			for _, e := range r.W.Rec.Events {
				if e.Kind != "op" || e.Op.Fail != "" {
					continue
				}
				t := r.W.Task(e.Tid)
				if t == nil || len(t.Info.Deps) == 0 {
					continue
				}
				switch e.Op.Name {
				case "InsCursor":
					pos++
				case "QRef":
					if e.Op.Bool {
						hit = true
					} else {
						miss = true
					}
				case "QLatestDep":
					if !e.Op.Some || int(e.Op.RCount) < len(t.Info.Deps) {
						waited = true
					}
				}
			}
			return pos >= 2 && hit && miss && waited
		})
	}
	if cfg.Replay != "" {
		sc, kind, err := ts.ReplayScenario(cfg.Replay)
		if err != nil {
			return err
		}
		judge(sc, kind, false, nil)
		return out.Flush()
	}
	r := lib.NewRNG(cfg.Seed)
	mk := func(name string, g graph, head int, batch, conc int, seed uint64) *ts.Scenario {
		sc := &ts.Scenario{Name: name, Seed: seed, Head: head,
			Gen:  ts.GenOpts{MaxTxs: 3, MaxLogs: 4, Created: true, Decoys: true, EmptyProb: 10, MakeToken: g.token},
			Srcs: []ts.SrcSpec{{Name: "main", ChainID: 1, Batch: batch, Conc: conc, URL: "http://main.invalid"}},
			IGs:  g.igs}
		if len(g.igs[0].Sources) == 2 {
			sc.Srcs = append(sc.Srcs, ts.SrcSpec{Name: "alt", ChainID: 10, Batch: batch, Conc: conc, URL: "http://alt.invalid"})
		}
		return sc
	}
	// corpus: two referenced integrations, one of which never starts (defect #4,
	// repaired by fixes/C05-dependency-all-started.diff)
	{
		g := mkGraph(lib.NewRNG(3), true, false, false, false, 1, 1)
		g.igs[0].Ref2, g.igs[0].RefBD, g.token = "r-two", "", false // two inputs, separate tables
		g.igs[2].Table, g.igs[2].Hdr = "r2", false
		sc := mk("corpus-unstarted-reference", g, 8, 2, 1, 51)
		for i := 0; i < 3; i++ {
			sc.Acts = append(sc.Acts, ts.Act{Do: "step", Tid: g.refs[0]})
		}
		for i := 0; i < 3; i++ {
			sc.Acts = append(sc.Acts, ts.Act{Do: "step", Tid: g.deps[0]})
		}
		judge(sc, "corpus-reference-not-started", false, nil)
		// two sources: the reference is far ahead on "main" but has not started on "alt";
		// the dependent on "alt" must wait (the dependency query is keyed by source)
		g = mkGraph(lib.NewRNG(3), false, false, false, true, 1, 1)
		sc = mk("corpus-reference-ahead-on-other-source", g, 8, 2, 1, 52)
		for i := 0; i < 4; i++ {
			sc.Acts = append(sc.Acts, ts.Act{Do: "step", Tid: 4}) // r-one@main
		}
		for i := 0; i < 3; i++ {
			sc.Acts = append(sc.Acts, ts.Act{Do: "step", Tid: 1}, ts.Act{Do: "step", Tid: 2}) // a-dep@alt, a-dep@main
		}
		judge(sc, "corpus-two-sources", false, nil)
		// two DIFFERENT referenced integrations that write the SAME table and column; the
		// second one never starts: the dependent must wait for both.  References on two
		// inputs, and on an input plus the block field log_addr.
		for v, bd := range []bool{false, true} {
			g := graph{token: bd, nTasks: 3, deps: []int{1}, refs: []int{2, 3}}
			d := ts.IGSpec{Name: "a-dep", Shape: "dep", Table: "d1", Ref: "r-one", RefLo: 1, Sources: []ts.SrcRef{{Name: "main", Start: 1}}}
			if bd {
				d.RefBD = "r-two"
			} else {
				d.Ref2 = "r-two"
			}
			g.igs = []ts.IGSpec{d,
				{Name: "r-one", Shape: "created", Table: "refs", Sources: []ts.SrcRef{{Name: "main", Start: 1}}},
				{Name: "r-two", Shape: "created", Table: "refs", Sources: []ts.SrcRef{{Name: "main", Start: 1}}}}
			sc := mk(fmt.Sprintf("corpus-references-share-table-%d", v), g, 8, 2, 1, uint64(57+v))
			for i := 0; i < 3; i++ {
				sc.Acts = append(sc.Acts, ts.Act{Do: "step", Tid: 2})
			}
			for i := 0; i < 3; i++ {
				sc.Acts = append(sc.Acts, ts.Act{Do: "step", Tid: 1})
			}
			// then the second reference starts and everybody reaches the head
			for i := 0; i < 12; i++ {
				sc.Acts = append(sc.Acts, ts.Act{Do: "step", Tid: 3}, ts.Act{Do: "step", Tid: 2}, ts.Act{Do: "step", Tid: 1})
			}
			judge(sc, "corpus-references-share-table", true, nil)
		}
		// SEVERAL dependents whose references DIFFER (each integration's Dependencies must be
		// its own: nothing computed while validating one integration may leak into another).
		// "behind" is the integration the first dependent of the file really references,
		// "ahead" the one only the OTHER dependent references; ahead runs to the head first,
		// behind records one batch (even variants) or nothing at all (odd variants): the first
		// dependent must stop at behind's position / do nothing.  Variants: input reference
		// then block-field reference with referents before their dependents (0, 1); dependents
		// before their referents (2, 3); the first dependent with two different references (4, 5);
		// the second one with two (6, 7); two input references (8, 9).
		src := func(start uint64) []ts.SrcRef { return []ts.SrcRef{{Name: "main", Start: start}} }
		created := func(name, tbl string) ts.IGSpec {
			return ts.IGSpec{Name: name, Shape: "created", Table: tbl, Sources: src(1)}
		}
		dep := func(name, shape, tbl, ref string) ts.IGSpec {
			return ts.IGSpec{Name: name, Shape: shape, Table: tbl, Ref: ref, RefLo: 1, Hdr: true, Sources: src(1)}
		}
		for v := 0; v < 10; v++ {
			var igs []ts.IGSpec
			behind, ahead := []string{"a-ref"}, []string{"c-ref"}
			switch v / 2 {
			case 0:
				igs = []ts.IGSpec{created("a-ref", "ra"), dep("b-dep", "dep", "db", "a-ref"), created("c-ref", "rc"), dep("d-dep", "depbd", "dd", "c-ref")}
			case 1:
				igs = []ts.IGSpec{dep("b-dep", "depbd", "db", "a-ref"), dep("d-dep", "dep", "dd", "c-ref"), created("c-ref", "rc"), created("a-ref", "ra")}
			case 2:
				b := dep("b-dep", "dep", "db", "a-ref")
				b.Ref2 = "a2-ref"
				igs = []ts.IGSpec{created("a-ref", "ra"), created("a2-ref", "ra2"), b, created("c-ref", "rc"), dep("d-dep", "depbd", "dd", "c-ref")}
				ahead = []string{"c-ref", "a2-ref"}
			case 3:
				d := dep("d-dep", "dep", "dd", "c-ref")
				d.RefBD = "c2-ref"
				igs = []ts.IGSpec{created("a-ref", "ra"), dep("b-dep", "dep", "db", "a-ref"), created("c-ref", "rc"), created("c2-ref", "rc2"), d}
				ahead = []string{"c-ref", "c2-ref"}
			case 4:
				igs = []ts.IGSpec{created("c-ref", "rc"), dep("b-dep", "dep", "db", "a-ref"), dep("d-dep", "dep", "dd", "c-ref"), created("a-ref", "ra")}
			}
			g := finishGraph(igs)
			ids := taskIDs(igs)
			sc := mk(fmt.Sprintf("corpus-dependents-reference-different-integrations-%d", v), g, 8, 2, 1, uint64(70+v))
			for i := 0; i < 3; i++ {
				for _, a := range ahead {
					sc.Acts = append(sc.Acts, ts.Act{Do: "step", Tid: ids[a]})
				}
			}
			if v%2 == 0 {
				sc.Acts = append(sc.Acts, ts.Act{Do: "step", Tid: ids[behind[0]]})
			}
			for i := 0; i < 2; i++ {
				sc.Acts = append(sc.Acts, ts.Act{Do: "step", Tid: ids["b-dep"]}, ts.Act{Do: "step", Tid: ids["d-dep"]})
			}
			// then everybody reaches the head, dependents first in every round
			for i := 0; i < 6; i++ {
				for _, t := range g.deps {
					sc.Acts = append(sc.Acts, ts.Act{Do: "step", Tid: t})
				}
				for _, t := range g.refs {
					sc.Acts = append(sc.Acts, ts.Act{Do: "step", Tid: t})
				}
			}
			judge(sc, "corpus-dependents-reference-different-integrations", true, nil)
		}
		// a DEPENDENT with a configured stop, the head beyond the stop, the referenced integration
		// started but still below the stop: the stop clamp may only LOWER the bound that the
		// dependency position gives.  r-one records one batch, the dependent takes three steps
		// (it must stay at r-one's position), then everybody runs on: the dependent ends at
		// its stop and reports completion.  Variants: stop a multiple of the batch size or not,
		// batch larger than the whole range, reference on the block field, two references of
		// which one is beyond the stop, the reference exactly at the stop.
		for v, c := range []struct {
			shape        string
			batch        int
			stop         uint64
			refSteps     int
			second, r2At int // second reference (0 none, 1 input "to", 2 block field) and its steps
		}{
			{"dep", 2, 6, 1, 0, 0},
			{"dep", 2, 5, 1, 0, 0},
			{"dep", 7, 6, 1, 0, 0}, // r-one has a stop of its own at 3 (below)
			{"depbd", 3, 8, 1, 0, 0},
			{"dep", 2, 6, 1, 1, 5}, // r-two is at the head, r-one at 2
			{"dep", 2, 6, 3, 0, 0}, // r-one exactly at the stop: the dependent may go there, not beyond
		} {
			d := dep("a-dep", c.shape, "d1", "r-one")
			d.Sources[0].Stop = c.stop
			igs := []ts.IGSpec{d, created("r-one", "r1")}
			if v == 2 {
				igs[1].Sources[0].Stop = 3
			}
			if c.second > 0 {
				igs[0].Ref2 = "r-two"
				igs = append(igs, created("r-two", "r2"))
			}
			g := finishGraph(igs)
			sc := mk(fmt.Sprintf("corpus-dependent-with-stop-%d", v), g, 10, c.batch, 1, uint64(82+v))
			for i := 0; i < c.r2At; i++ {
				sc.Acts = append(sc.Acts, ts.Act{Do: "step", Tid: 3})
			}
			for i := 0; i < c.refSteps; i++ {
				sc.Acts = append(sc.Acts, ts.Act{Do: "step", Tid: 2})
			}
			sc.Acts = append(sc.Acts, ts.Steps(1, 3)...)
			quiet := v != 2
			if quiet {
				for i := 0; i < 7; i++ {
					for t := 1; t <= g.nTasks; t++ {
						sc.Acts = append(sc.Acts, ts.Act{Do: "step", Tid: t})
					}
				}
			}
			judge(sc, "corpus-dependent-with-stop", quiet, nil)
		}
		// through the REAL jrpc2.Client of the source (one client, shared segment caches,
		// maxreads = number of integrations), every integration with a header plan: a dependent
		// with two references of different progress - the slower one started later, so its
		// positions are not multiples of the batch size - next to an unrelated integration that
		// has just fetched the FULL batch beginning at the dependent's next block.  The
		// dependent's load is limited by the slower reference (delta < batch size) and must get
		// exactly that many blocks.  Concurrency 2: the last partition is the shorter one.
		for v, c := range []struct {
			batch, conc int
			r2start     uint64
			uFirst      bool
		}{
			{4, 1, 3, true},  // r-two at 6: the dependent loads (5,2) after somebody loaded (5,4)
			{4, 1, 3, false}, // the dependent first: nothing cached yet for its request
			{4, 2, 4, true},  // r-two at 7: partitions (5,2)(7,1) after (5,2)(7,2)
			{3, 1, 2, true},  // batch 3: r-two at 4, the dependent loads (4,1) after (4,3)
		} {
			d := dep("a-dep", "dep", "d1", "r-one")
			d.Ref2 = "r-two"
			r1, r2 := created("r-one", "r1"), created("r-two", "r2")
			r1.Hdr, r2.Hdr = true, true
			r2.Sources[0].Start = c.r2start
			u := ts.IGSpec{Name: "u-open", Shape: "log", Table: "u1", Sources: src(1)}
			g := finishGraph([]ts.IGSpec{d, r1, r2, u})
			sc := mk(fmt.Sprintf("corpus-real-client-dependent-short-load-%d", v), g, 12, c.batch, c.conc, uint64(90+v))
			sc.Real = true
			// tasks: 1 a-dep, 2 r-one, 3 r-two, 4 u-open.  r-one two batches, r-two one, then
			// u-open and the dependent batch by batch
			sc.Acts = append(sc.Acts, ts.Act{Do: "step", Tid: 2}, ts.Act{Do: "step", Tid: 2}, ts.Act{Do: "step", Tid: 3})
			a, b := 4, 1
			if !c.uFirst {
				a, b = 1, 4
			}
			for i := 0; i < 2; i++ {
				sc.Acts = append(sc.Acts, ts.Act{Do: "step", Tid: a}, ts.Act{Do: "step", Tid: b})
			}
			for i := 0; i < 12/c.batch+4; i++ {
				sc.Acts = append(sc.Acts, ts.Act{Do: "step", Tid: 4}, ts.Act{Do: "step", Tid: 1}, ts.Act{Do: "step", Tid: 3}, ts.Act{Do: "step", Tid: 2})
			}
			judge(sc, "corpus-real-client-dependent-short-load", true, nil)
		}
		// the reference sits on a COMPONENT of a tuple input: Order((address maker, uint256 amt) o)
		// with filter_ref {integration, column} on component maker (the documented form, without
		// a table) or with a user-supplied table as well.  dig builds its columns from
		// Event.Selected(), which descends into components, and evaluates their filters: the
		// dependent must wait for r-one exactly like one whose reference sits on a top-level
		// input.  r-one ahead / behind / not started when the dependent takes its first steps.
		for v, c := range []struct {
			refSteps int
			table    string
		}{
			{3, ""},   // ahead
			{1, ""},   // behind: the dependent must stop at r-one's position
			{0, ""},   // not started: the dependent does nothing
			{1, "r1"}, // behind, the user also wrote the table name
			{0, "r1"},
		} {
			d := ts.IGSpec{Name: "a-dep", Shape: "deptup", Table: "d1", Ref: "r-one", RefTable: c.table, RefLo: 1, Hdr: v%2 == 0, Sources: src(1)}
			g := finishGraph([]ts.IGSpec{d, created("r-one", "r1")})
			sc := mk(fmt.Sprintf("corpus-reference-on-tuple-component-%d", v), g, 8, 2, 1, uint64(95+v))
			sc.Gen.Orders = true
			sc.Acts = append(sc.Acts, ts.Steps(2, c.refSteps)...)
			sc.Acts = append(sc.Acts, ts.Steps(1, 3)...)
			for i := 0; i < 6; i++ {
				sc.Acts = append(sc.Acts, ts.Act{Do: "step", Tid: 1}, ts.Act{Do: "step", Tid: 2})
			}
			judge(sc, "corpus-reference-on-tuple-component", true, nil)
		}
		// references with the NEGATED operator "!contains" (accept what is NOT in the referenced
		// table): dig does the lookup for every operator ending in "contains", so the dependent
		// has to wait for the referenced integration just the same - a lookup that runs before
		// the reference has recorded the block answers "not there" and ACCEPTS the row.  On an
		// input, on the block field, on a tuple component, with a second positive reference;
		// the reference behind (even) or not started (odd) when the dependent takes its steps.
		for v := 0; v < 8; v++ {
			shape := []string{"dep", "depbd", "deptup", "dep"}[v/2]
			d := ts.IGSpec{Name: "a-dep", Shape: shape, Table: "d1", Ref: "r-one", RefNeg: true, RefLo: 1, Hdr: v%4 < 2, Sources: src(1)}
			g := finishGraph([]ts.IGSpec{d, created("r-one", "r1")})
			sc := mk(fmt.Sprintf("corpus-negated-reference-%d-%s", v, shape), g, 8, 2, 1, uint64(130+v))
			sc.Gen.Orders = shape == "deptup"
			if v%2 == 0 {
				sc.Acts = append(sc.Acts, ts.Act{Do: "step", Tid: 2})
			}
			sc.Acts = append(sc.Acts, ts.Steps(1, 3)...)
			for i := 0; i < 6; i++ {
				sc.Acts = append(sc.Acts, ts.Act{Do: "step", Tid: 1}, ts.Act{Do: "step", Tid: 2})
			}
			judge(sc, "corpus-negated-reference", true, nil)
		}
		// the smallest history of this kind: a-ref never runs, c-ref records two batches,
		// each dependent takes one step: b-dep must do nothing, d-dep may follow c-ref
		{
			igs := []ts.IGSpec{created("a-ref", "ra"), dep("b-dep", "dep", "db", "a-ref"), created("c-ref", "rc"), dep("d-dep", "depbd", "dd", "c-ref")}
			sc := mk("corpus-dependents-reference-different-integrations-smallest", finishGraph(igs), 4, 2, 1, 80)
			sc.Acts = []ts.Act{{Do: "step", Tid: 3}, {Do: "step", Tid: 3}, {Do: "step", Tid: 2}, {Do: "step", Tid: 4}}
			judge(sc, "corpus-dependents-reference-different-integrations", false, nil)
		}
	}
	// reorg histories with statement-level interleaving: a dependent detects a reorg in its
	// step and unwinds; the referenced integration commits ITS unwind before the dependent's
	// next loop iteration reads the dependency position again (read committed: visible)
	reorgMode = true
	for i, c := range []struct{ batch, rsteps, dsteps, fork, newLen int }{
		{2, 6, 5, 10, 5}, // R at 12, D at 10, blocks >= 10 replaced; R's unwind commits at 8
		{2, 6, 6, 9, 7},  // both at 12; fork 9
		{3, 4, 3, 8, 8},  // R at 12, D at 9; fork 8
		{1, 7, 6, 6, 6},  // batch 1: R at 7, D at 6; fork 6
	} {
		g := graph{}
		g.igs = []ts.IGSpec{
			{Name: "a-dep", Shape: "dep", Table: "d1", Ref: "r-one", RefLo: 1, Hdr: true, Sources: []ts.SrcRef{{Name: "main", Start: 1}}},
			{Name: "r-one", Shape: "created", Table: "r1", Hdr: true, Sources: []ts.SrcRef{{Name: "main", Start: 1}}},
		}
		sc := mk(fmt.Sprintf("corpus-reference-unwinds-between-retries-%d", i), g, 12, c.batch, 1, uint64(53+i))
		sc.Gen.ForkIsolated = true
		for k := 0; k < c.rsteps; k++ {
			sc.Acts = append(sc.Acts, ts.Act{Do: "step", Tid: 2})
		}
		for k := 0; k < c.dsteps; k++ {
			sc.Acts = append(sc.Acts, ts.Act{Do: "step", Tid: 1})
		}
		sc.Acts = append(sc.Acts,
			ts.Act{Do: "reorg", Fork: uint64(c.fork), Len: c.newLen},
			ts.Act{Do: "advuntil", Tid: 1, Call: "DelRows"}, // D has unwound once; its next QLatest is held at the gate
			ts.Act{Do: "advuntil", Tid: 2, Call: "Commit"},  // R's unwind is committed
			ts.Act{Do: "drain"})
		for k := 0; k < 12/c.batch+6; k++ {
			sc.Acts = append(sc.Acts, ts.Act{Do: "step", Tid: 2}, ts.Act{Do: "step", Tid: 1})
		}
		judge(sc, "corpus-reference-unwinds-between-retries", true, nil)
	}
	// a referenced integration LOSES its only recorded position: the reorg reaches its single
	// batch, its unwind commits (first transaction) and its re-insert fails, or the dependent
	// runs exactly between its two commits.  The dependent (the SAME task value before and
	// after: no restart in between) has seen every reference with a position before and must
	// nevertheless do nothing while one of them has none, although the other is far ahead.
	for v := 0; v < 3; v++ {
		g := graph{}
		g.igs = []ts.IGSpec{
			{Name: "a-dep", Shape: "dep", Table: "d1", Ref: "r-one", Ref2: "r-two", RefLo: 1, Hdr: true, Sources: []ts.SrcRef{{Name: "main", Start: 1}}},
			{Name: "r-one", Shape: "created", Table: "r1", Hdr: true, Sources: []ts.SrcRef{{Name: "main", Start: 1}}},
			{Name: "r-two", Shape: "created", Table: "r2", Hdr: true, Sources: []ts.SrcRef{{Name: "main", Start: 5}}},
		}
		sc := mk(fmt.Sprintf("corpus-reference-loses-its-position-%d", v), g, 8, 4, 1, uint64(58+v))
		sc.Gen.ForkIsolated = true
		// r-two (start 5) records ONE position (8 = blocks 5..8); r-one records 4, 8 and, after growth, 12
		sc.Acts = append(sc.Acts, ts.Act{Do: "step", Tid: 3}, ts.Act{Do: "step", Tid: 2}, ts.Act{Do: "step", Tid: 2},
			ts.Act{Do: "grow", K: 4}, ts.Act{Do: "step", Tid: 2})
		// the dependent sees both references with a position (bound 8) and reaches 8
		sc.Acts = append(sc.Acts, ts.Act{Do: "step", Tid: 1}, ts.Act{Do: "step", Tid: 1}, ts.Act{Do: "step", Tid: 1})
		// blocks >= 7 are replaced: r-two's only position is orphaned, r-one keeps position 4
		sc.Acts = append(sc.Acts, ts.Act{Do: "reorg", Fork: 7, Len: 8})
		switch v {
		case 0: // r-two unwinds (commit), its COPY fails: it stays without any position
			sc.Acts = append(sc.Acts, ts.Act{Do: "fault", Tid: 3, At: 8, Kind: "error"}, ts.Act{Do: "step", Tid: 3})
		case 1: // the same with the connection lost at the cursor insert
			sc.Acts = append(sc.Acts, ts.Act{Do: "fault", Tid: 3, At: 9, Kind: "drop"}, ts.Act{Do: "step", Tid: 3})
		case 2: // the dependent's Converge runs between r-two's two commits
			sc.Acts = append(sc.Acts, ts.Act{Do: "advuntil", Tid: 3, Call: "Commit"})
		}
		sc.Acts = append(sc.Acts, ts.Act{Do: "step", Tid: 2}, ts.Act{Do: "step", Tid: 2}) // r-one follows the reorg and is ahead again (12)
		if v == 2 {
			sc.Acts = append(sc.Acts, ts.Act{Do: "advuntil", Tid: 1, Call: "Rollback"}, ts.Act{Do: "advuntil", Tid: 1, Call: "Rollback"}, ts.Act{Do: "drain"})
		} else {
			sc.Acts = append(sc.Acts, ts.Act{Do: "step", Tid: 1}, ts.Act{Do: "step", Tid: 1})
		}
		// everybody recovers and reaches the head
		for k := 0; k < 8; k++ {
			sc.Acts = append(sc.Acts, ts.Act{Do: "step", Tid: 3}, ts.Act{Do: "step", Tid: 2}, ts.Act{Do: "step", Tid: 1})
		}
		judge(sc, "corpus-reference-loses-its-position", true, nil)
	}

	// corpus for the KNOWN limit (known_findings/C05.json, C05-reference-on-orphaned-chain): the
	// reference sits at position 8 of the chain that a reorg (fork 5) orphans and is not stepped
	// again; the dependent, still on the common prefix, indexes the replacement blocks 5..8:
	// its dependency bound 8 is satisfied by NUMBER, its lookups see the rows of the orphaned
	// blocks, and senders created on the replacement fork are missed.
	{
		g := graph{}
		g.igs = []ts.IGSpec{
			{Name: "a-dep", Shape: "dep", Table: "d1", Ref: "r-one", RefLo: 1, Hdr: true, Sources: []ts.SrcRef{{Name: "main", Start: 1}}},
			{Name: "r-one", Shape: "created", Table: "r1", Hdr: true, Sources: []ts.SrcRef{{Name: "main", Start: 1}}},
		}
		sc := mk("corpus-reference-on-orphaned-chain", g, 8, 1, 1, orphanSeed)
		for k := 0; k < 8; k++ {
			sc.Acts = append(sc.Acts, ts.Act{Do: "step", Tid: 2})
		}
		for k := 0; k < 4; k++ {
			sc.Acts = append(sc.Acts, ts.Act{Do: "step", Tid: 1})
		}
		sc.Acts = append(sc.Acts, ts.Act{Do: "reorg", Fork: 5, Len: 6})
		for k := 0; k < 4; k++ {
			sc.Acts = append(sc.Acts, ts.Act{Do: "step", Tid: 1})
		}
		for k := 0; k < 10; k++ {
			sc.Acts = append(sc.Acts, ts.Act{Do: "step", Tid: 2}, ts.Act{Do: "step", Tid: 1})
		}
		judge(sc, "corpus-reference-on-orphaned-chain", true, nil)
	}
	nre := 6
	if cfg.Thorough() {
		nre = 200
	}
	for i := 0; i < nre; i++ {
		twoRefs := r.Intn(3) == 0
		g := graph{}
		d := ts.IGSpec{Name: "a-dep", Shape: "dep", Table: "d1", Ref: "r-one", RefLo: 1, Hdr: true, Sources: []ts.SrcRef{{Name: "main", Start: uint64(r.Range(1, 3))}}}
		if twoRefs {
			d.Ref2 = "r-two"
		}
		g.igs = append(g.igs, d, ts.IGSpec{Name: "r-one", Shape: "created", Table: "r1", Hdr: true, Sources: []ts.SrcRef{{Name: "main", Start: 1}}})
		if twoRefs {
			g.igs = append(g.igs, ts.IGSpec{Name: "r-two", Shape: "created", Table: "r2", Hdr: true, Sources: []ts.SrcRef{{Name: "main", Start: 1}}})
		}
		nt := len(g.igs)
		batch := r.Range(1, 3)
		head := r.Range(6, 10)
		sc := mk(fmt.Sprintf("deps-reorg-%d", i), g, head, batch, r.Range(1, 2), r.U64()%1_000_000)
		sc.Gen.ForkIsolated = true
		h, top := head, head
		for k := 0; k < 2+r.Intn(2); k++ {
			// everybody makes progress, references first more often than not
			for j := r.Range(4, 10); j > 0; j-- {
				t := 2 + r.Intn(nt-1)
				if r.Intn(3) == 0 {
					t = 1
				}
				sc.Acts = append(sc.Acts, ts.Act{Do: "step", Tid: t})
			}
			f := r.Range(max(1, h-2*batch-1), h)
			nl := max(1, h-f+1+r.Range(0, 3))
			sc.Acts = append(sc.Acts, ts.Act{Do: "reorg", Fork: uint64(f), Len: nl})
			h = f - 1 + nl
			top = max(top, h)
			// the unwinds of dependent and references interleave statement by statement
			for j := r.Range(10, 40); j > 0; j-- {
				switch r.Intn(6) {
				case 0:
					sc.Acts = append(sc.Acts, ts.Act{Do: "advuntil", Tid: 1, Call: "DelRows"})
				case 1:
					sc.Acts = append(sc.Acts, ts.Act{Do: "advuntil", Tid: 2 + r.Intn(nt-1), Call: "Commit"})
				default:
					sc.Acts = append(sc.Acts, ts.Act{Do: "adv", Tid: 1 + r.Intn(nt)})
				}
			}
			sc.Acts = append(sc.Acts, ts.Act{Do: "drain"})
		}
		gr := max(2, top-h+2)
		sc.Acts = append(sc.Acts, ts.Act{Do: "grow", K: gr})
		h += gr
		for k := 0; k < 2*((h+batch-1)/batch+3); k++ {
			for t := nt; t >= 1; t-- {
				sc.Acts = append(sc.Acts, ts.Act{Do: "step", Tid: t})
			}
		}
		judge(sc, "reorg-interleaved", true, nil)
	}
	reorgMode = false
	n := 22
	if cfg.Thorough() {
		n = 500
	}
	for i := 0; i < n; i++ {
		twoRefs, twoDeps := r.Intn(2) == 0, r.Intn(3) == 0
		blockField := twoDeps && r.Bool()
		rstart := uint64(1)
		if !blockField && r.Intn(3) == 0 {
			rstart = uint64(r.Range(1, 4))
		}
		dstart := uint64(r.Range(1, 4))
		twoSrc := r.Intn(4) == 0
		if twoSrc {
			twoDeps, blockField = false, false
		}
		g := mkGraph(r, twoRefs, twoDeps, blockField, twoSrc, rstart, dstart)
		multi := i%3 == 1 // a third of the graphs: several dependents with DIFFERENT references
		if multi {
			g = mkGraphMulti(r, rstart, dstart)
			twoRefs, twoSrc = true, false
		}
		head := r.Range(5, 12)
		if multi {
			head = r.Range(5, 9) // 4-6 tasks: keep the histories short
		}
		if i%4 == 2 {
			// some dependents use the negated operator
			for k := range g.igs {
				if len(g.igs[k].DeclaredRefs()) > 0 && (k%2 == 0 || r.Bool()) {
					g.igs[k].RefNeg = true
				}
			}
		}
		if r.Intn(3) == 0 {
			// bounded backfills: dependents (each with probability 1/2) get a stop below, at or beyond the head
			for k := range g.igs {
				if len(g.igs[k].DeclaredRefs()) > 0 && r.Bool() {
					stop := uint64(r.Range(int(dstart), head+2))
					for j := range g.igs[k].Sources {
						g.igs[k].Sources[j].Stop = stop
					}
				}
			}
		}
		sc := mk(fmt.Sprintf("deps-%d", i), g, head, r.Range(1, 4), r.Range(1, 3), r.U64()%1_000_000)
		mode := r.Intn(4)
		kind := "whole-steps"
		realClient := i%7 == 5 && !twoSrc
		if realClient {
			// the tasks share the real jrpc2.Client of the source; every integration gets a
			// header plan, so all of them read the same cached header segments
			sc.Real = true
			for k := range sc.IGs {
				sc.IGs[k].Hdr = true
			}
			if sc.Srcs[0].Batch == 1 {
				sc.Srcs[0].Batch = 3 // a dependency-limited load shorter than the batch needs batch > 1
			}
			if mode == 0 {
				// whole steps only: through the real client the order of a step's reference
				// lookups varies from run to run (the recorder sorts an uninterrupted run of
				// them); a statement-level schedule would cut that run at arbitrary places
				mode = 1
			}
		}
		// speed profile: weights per task
		w := make([]int, g.nTasks+1)
		for t := 1; t <= g.nTasks; t++ {
			w[t] = 1 + r.Intn(4)
		}
		stalled := 0
		if r.Intn(2) == 0 { // one referenced integration is stalled / not started for the first phase
			stalled = lib.Pick(r, g.refs)
			kind = "reference-stalled"
		}
		never := r.Intn(6) == 0 && (twoRefs || twoSrc)
		if never {
			stalled = g.refs[len(g.refs)-1-r.Intn(len(g.refs)-1)]
			kind = "reference-never-started"
		}
		if twoSrc {
			kind += "-two-sources"
		}
		if multi {
			kind += "-different-references"
		}
		if realClient {
			kind += "-real-client"
		}
		pick := func(phase int) int {
			tot := 0
			for t := 1; t <= g.nTasks; t++ {
				if t == stalled && (phase == 0 || never) {
					continue
				}
				tot += w[t]
			}
			x := r.Intn(tot)
			for t := 1; t <= g.nTasks; t++ {
				if t == stalled && (phase == 0 || never) {
					continue
				}
				if x < w[t] {
					return t
				}
				x -= w[t]
			}
			return 1
		}
		if mode == 0 {
			kind += "-interleaved"
		}
		for phase := 0; phase < 2; phase++ {
			for k := r.Range(8, 20); k > 0; k-- {
				if r.Intn(12) == 0 {
					g := r.Range(1, 3)
					sc.Acts = append(sc.Acts, ts.Act{Do: "grow", K: g})
					if twoSrc {
						sc.Acts = append(sc.Acts, ts.Act{Do: "grow", Src: "alt", K: g})
					}
					head += g
				}
				if mode == 0 {
					for j := r.Range(1, 9); j > 0; j-- {
						sc.Acts = append(sc.Acts, ts.Act{Do: "adv", Tid: pick(phase)})
					}
				} else {
					sc.Acts = append(sc.Acts, ts.Act{Do: "step", Tid: pick(phase)})
				}
			}
		}
		sc.Acts = append(sc.Acts, ts.Act{Do: "drain"})
		if !never {
			// everyone runs to quiescence: referenced first is NOT enforced, round robin
			// a dependent reads the dependency position before its reference moves in the same round
			// (the references reach the head after ceil(head/batch) rounds, a dependent one round
			// later; two more rounds of margin.  Twice as many were run before round f: most of
			// a case's text was made of nothing-new steps and their snapshots)
			for k := 0; k < (head+sc.Srcs[0].Batch-1)/sc.Srcs[0].Batch+3; k++ {
				for t := 1; t <= g.nTasks; t++ {
					sc.Acts = append(sc.Acts, ts.Act{Do: "step", Tid: t})
				}
			}
		}
		judge(sc, kind, !never, nil)
	}
	return out.Flush()
}
