// c18: driver of property C18 (data-race freedom of the indexing pipeline).
//
// Static half: translates the source again in-process (harness/c18skel, the
// same code as cmd/c18-translate) and writes, for the Coq side, the shape of
// every region and the access pairs its own copy of the lockset checker
// rejects; coqc recomputes both from Gen/Skeleton.v with the proved checker.
//
// Dynamic half (supporting role: the search for a concrete schedule): builds
// harness/cmd/c18/workload with `go build -race` against the same repository,
// runs the concurrent workloads as child processes and turns every report of
// the Go race detector into a failing case whose description is enough to run
// it again.  A clean detector run is never presented as evidence of absence.
package main

import (
	"crypto/sha1"
	"encoding/json"
	"fmt"
	"os"
	"os/exec"
	"path/filepath"
	"regexp"
	"sort"
	"strconv"
	"strings"
	"sync"

	"verif/harness/c18skel"
	"verif/harness/lib"
)

const header = `From Shovel Require Import Base.Outcome Model.Lockset Corr.RunC18.
From Coq Require Import List NArith String. Import ListNotations. Open Scope string_scope. Open Scope N_scope.`

func main() { lib.Main(run) }

func repoPath() string {
	if r := os.Getenv("VERIF_REPO"); r != "" {
		return r
	}
	return "/repo"
}

func coqStr(s string) string { return `"` + strings.ReplaceAll(s, `"`, `""`) + `"%string` }

func coqStrs(xs []string) string {
	q := make([]string, len(xs))
	for i, x := range xs {
		q[i] = coqStr(x)
	}
	return "[" + strings.Join(q, "; ") + "]"
}

func site(a c18skel.Access) string { return fmt.Sprintf("%s %s %s", a.Kind, a.Cls, a.Pos) }

func countStmts(ss []c18skel.Stmt) (accs, syncs int) {
	for _, s := range ss {
		switch s.Kind {
		case c18skel.SAcc:
			accs++
		case c18skel.SSync:
			a, y := countStmts(s.Body)
			accs, syncs = accs+a, syncs+y+1
		case c18skel.SStar:
			a, y := countStmts(s.Body)
			accs, syncs = accs+a, syncs+y
		}
	}
	return
}

type pairDesc struct {
	Region string `json:"region"`
	Class  string `json:"class"`
	A      string `json:"a"`
	AFn    string `json:"a_fn"`
	ALocks int    `json:"a_locks"`
	B      string `json:"b"`
	BFn    string `json:"b_fn"`
	BLocks int    `json:"b_locks"`
}

func describe(region string, p c18skel.Pair) pairDesc {
	fn := func(a c18skel.Access) string { return strings.Join(a.Path, " > ") }
	return pairDesc{Region: region, Class: p.X.A.Cls, A: site(p.X.A), AFn: fn(p.X.A), ALocks: len(p.X.L),
		B: site(p.Y.A), BFn: fn(p.Y.A), BLocks: len(p.Y.L)}
}

func run(cfg lib.Cfg) error {
	out := lib.NewOut("C18", cfg.Out, header, "run", 6)
	out.Rule = "static cases: every region of the regenerated skeleton (shape; pairs rejected with and without the known exemption) — non-trivial when the region has two roles or a replicated one; dynamic cases: one per distinct race-detector report, always non-trivial"
	repo := repoPath()

	// the race workloads are built and run while the source is translated
	type dynResult struct {
		reports []report
		notes   map[string]any
		err     error
	}
	dync := make(chan dynResult, 1)
	go func() {
		r, n, e := dynamic(cfg, repo)
		dync <- dynResult{r, n, e}
	}()

	// ---------------------------------------------------------------- static half
	sk, terr := c18skel.Translate(repo)
	var badPos [][2]string // positions of statically rejected pairs (no exemption)
	nExempt, nUnknown := 0, 0
	var unknown []pairDesc
	var exemptExamples []pairDesc
	if terr != nil {
		out.Notes["translator"] = terr.Error()
	} else {
		for k, v := range sk.Stats() {
			out.Notes["skeleton "+k] = v
		}
		for gi, g := range sk.Regions {
			var roles []string
			conc := len(g.Roles) > 1
			for _, r := range g.Roles {
				a, y := countStmts(r.Body)
				roles = append(roles, fmt.Sprintf("(%s, %v, %d, %d)", coqStr(r.Name), r.Repl, a, y))
				conc = conc || r.Repl
			}
			out.Add(lib.Case{
				Coq:  fmt.Sprintf("CShape %d%%nat %s [%s]", gi, coqStr(g.Name), strings.Join(roles, "; ")),
				Desc: map[string]any{"region": g.Name, "roles": len(g.Roles)}, Kind: "static shape", Nontrivial: conc, OracleOK: true, Size: 1,
			})
			all := c18skel.BadPairs(c18skel.NoExempt, g)
			rest := c18skel.BadPairs(c18skel.KnownExempt, g)
			for _, mode := range []struct {
				exempt bool
				ps     []c18skel.Pair
			}{{false, all}, {true, rest}} {
				var ps []string
				for _, p := range mode.ps {
					ps = append(ps, fmt.Sprintf("(%s, %s)", coqStr(site(p.X.A)), coqStr(site(p.Y.A))))
				}
				out.Add(lib.Case{
					Coq:  fmt.Sprintf("CBad %d%%nat %v [%s]", gi, mode.exempt, strings.Join(ps, "; ")),
					Desc: map[string]any{"region": g.Name, "exemption": mode.exempt, "rejected_pairs": len(mode.ps)},
					Kind: "static pairs", Nontrivial: conc, OracleOK: true, Size: 1,
				})
			}
			for _, p := range all {
				badPos = append(badPos, [2]string{p.X.A.Pos, p.Y.A.Pos})
			}
			nExempt += len(all) - len(rest)
			nUnknown += len(rest)
			for _, p := range rest {
				if len(unknown) < 40 {
					unknown = append(unknown, describe(g.Name, p))
				}
			}
			if len(exemptExamples) < 6 {
				restSet := map[string]bool{}
				for _, p := range rest {
					restSet[site(p.X.A)+"|"+site(p.Y.A)] = true
				}
				for _, p := range all {
					if !restSet[site(p.X.A)+"|"+site(p.Y.A)] && len(exemptExamples) < 6 {
						exemptExamples = append(exemptExamples, describe(g.Name, p))
					}
				}
			}
		}
		out.Notes["static pairs rejected, covered by the known exemption"] = nExempt
		out.Notes["static pairs rejected, NOT exempt (pipeline_ok fails)"] = nUnknown
		if nUnknown > 0 {
			out.Notes["unprotected pairs"] = unknown
		}
		var open []string
		for _, s := range sk.Sites {
			if !s.Visited {
				open = append(open, s.Pos+" "+s.What+" — "+s.Scope)
			}
		}
		out.Notes["synchronisation sites of the anchored files"] = len(sk.Sites)
		out.Notes["of which out of scope (declared)"] = open
	}

	// ---------------------------------------------------------------- dynamic half
	dr := <-dync
	reports, dnotes, derr := dr.reports, dr.notes, dr.err
	for k, v := range dnotes {
		out.Notes[k] = v
	}
	if derr != nil {
		return fmt.Errorf("race workloads: %w", derr)
	}
	confirmedKnown := 0
	for _, r := range reports {
		fa, fb := r.A.positions(), r.B.positions()
		verdict := explain(badPos, fa, fb)
		form := r.form()
		if form == "consumer-vs-attach" {
			confirmedKnown++
		}
		msg := fmt.Sprintf("DATA RACE (%s): %s %s  ||  %s %s", form, r.A.Op, r.A.top(), r.B.Op, r.B.top())
		if verdict == 0 && terr == nil {
			msg += " — no statically rejected pair at these sites (data reached through a publication that is itself unsynchronised, or a gap of the translator)"
		}
		out.Add(lib.Case{
			Coq: fmt.Sprintf("CDyn %s %s %d", coqStrs(fa), coqStrs(fb), verdict),
			Desc: map[string]any{"kind": "race-detector", "form": form, "scenario": r.Scenario, "seed": r.Seed, "rounds": r.Rounds,
				"a": r.A, "b": r.B, "static": []string{"none", "one side", "both sides"}[verdict],
				"replay": fmt.Sprintf("go build -race -tags verif ./cmd/c18/workload && GORACE=halt_on_error=0 ./workload -scenario %s -seed %d -rounds %d", r.Scenario, r.Seed, r.Rounds)},
			Kind: "race report: " + form, Nontrivial: true, OracleOK: false, OracleMsg: msg, Size: 10 + len(r.A.Frames) + len(r.B.Frames),
		})
	}
	// the known design-level finding as the static analysis sees it
	if nExempt > 0 {
		out.Add(lib.Case{
			Coq: "CDyn [] [] 0",
			Desc: map[string]any{"kind": "static", "form": "consumer-vs-attach", "pairs": nExempt, "examples": exemptExamples,
				"confirmed_by_race_detector_this_run": confirmedKnown},
			Kind: "static finding", Nontrivial: true, OracleOK: false, Size: 5,
			OracleMsg: fmt.Sprintf("%d access pairs: block data read by consumers of Client.Get outside the block lock vs. attached under it (%d detector reports of that form in this run)", nExempt, confirmedKnown),
		})
	}
	out.Notes["race reports (distinct)"] = len(reports)
	return out.Flush()
}

// explain mirrors Corr/RunC18.v [explain].
func explain(bad [][2]string, fa, fb []string) int {
	in := func(s string, l []string) bool {
		for _, x := range l {
			if x == s {
				return true
			}
		}
		return false
	}
	for _, p := range bad {
		if (in(p[0], fa) && in(p[1], fb)) || (in(p[0], fb) && in(p[1], fa)) {
			return 2
		}
	}
	for _, p := range bad {
		if in(p[0], fa) || in(p[1], fa) || in(p[0], fb) || in(p[1], fb) {
			return 1
		}
	}
	return 0
}

// ---------------------------------------------------------------- race reports

type frame struct {
	Fn  string `json:"fn"`
	Pos string `json:"pos"`
}

type side struct {
	Op     string  `json:"op"`
	Frames []frame `json:"frames"` // frames inside the repository, innermost first
}

func (s side) positions() []string {
	var out []string
	for _, f := range s.Frames {
		out = append(out, f.Pos)
	}
	return out
}

func (s side) top() string {
	if len(s.Frames) == 0 {
		return "(no frame inside the repository)"
	}
	return s.Frames[0].Fn + "@" + s.Frames[0].Pos
}

func (s side) has(fns []string) bool {
	for _, f := range s.Frames {
		for _, g := range fns {
			if f.Fn == g {
				return true
			}
		}
	}
	return false
}

type report struct {
	Scenario string
	Seed     uint64
	Rounds   int
	A, B     side
}

// form: "consumer-vs-attach" when one stack runs through a function that
// attaches data to cached blocks and the other through none (the recorded
// design-level finding); "other" for everything else.
func (r report) form() string {
	a, b := r.A.has(c18skel.AttachFns), r.B.has(c18skel.AttachFns)
	if a == b || len(r.A.Frames) == 0 || len(r.B.Frames) == 0 {
		return "other"
	}
	cons := r.A
	if a {
		cons = r.B
	}
	// consumers read; the one thing they write is the tx hash memo in eth.Tx.Hash
	if strings.Contains(cons.Op, "read") || cons.has([]string{"eth.(*Tx).Hash"}) {
		return "consumer-vs-attach"
	}
	return "other"
}

func (r report) key() string {
	return r.A.Op + strings.Join(r.A.positions(), ",") + "|" + r.B.Op + strings.Join(r.B.positions(), ",")
}

var (
	reHead  = regexp.MustCompile(`^(Previous )?(\w+(?: \w+)?) at 0x[0-9a-f]+ by (?:goroutine \d+|main goroutine):`)
	reFrame = regexp.MustCompile(`^\s+(\S+):(\d+) \+0x`)
)

func parseReports(txt, repo string) []report {
	var out []report
	for _, blk := range strings.Split(txt, "WARNING: DATA RACE")[1:] {
		lines := strings.Split(blk, "\n")
		var sides []side
		var cur *side
		fn := ""
		for _, ln := range lines {
			if strings.HasPrefix(ln, "Goroutine ") || strings.HasPrefix(ln, "==========") {
				break
			}
			if m := reHead.FindStringSubmatch(ln); m != nil {
				sides = append(sides, side{Op: strings.ToLower(m[2])})
				cur = &sides[len(sides)-1]
				continue
			}
			if cur == nil {
				continue
			}
			if m := reFrame.FindStringSubmatch(ln); m != nil {
				if rel, err := filepath.Rel(repo, m[1]); err == nil && !strings.HasPrefix(rel, "..") && !strings.Contains(rel, "verif_export") {
					cur.Frames = append(cur.Frames, frame{Fn: fn, Pos: rel + ":" + m[2]})
				}
				continue
			}
			t := strings.TrimSpace(ln)
			if strings.HasSuffix(t, "()") {
				fn = strings.ReplaceAll(strings.TrimSuffix(t, "()"), c18skel.Module+"/", "")
			}
		}
		if len(sides) >= 2 {
			out = append(out, report{A: sides[0], B: sides[1]})
		}
	}
	return out
}

type scenario struct {
	name   string
	rounds int
	seeds  int
}

func dynamic(cfg lib.Cfg, repo string) ([]report, map[string]any, error) {
	notes := map[string]any{}
	exe, err := os.Executable()
	if err != nil {
		return nil, notes, err
	}
	harness := filepath.Dir(filepath.Dir(exe))
	work := filepath.Join(filepath.Dir(harness), "work")
	if err := os.MkdirAll(work, 0o755); err != nil {
		return nil, notes, err
	}
	sum := sha1.Sum([]byte(repo))
	tag := fmt.Sprintf("%x", sum[:5])
	bin := filepath.Join(work, "c18-workload-"+tag)
	args := []string{"build", "-race", "-tags", "verif"}
	if real, _ := filepath.EvalSymlinks(repo); real != "/repo" {
		alt := filepath.Join(work, "alt_"+tag+".mod")
		if _, err := os.Stat(alt); err != nil {
			// not started by bin/check: write the alternate go.mod ourselves
			src, err := os.ReadFile(filepath.Join(harness, "go.mod"))
			if err != nil {
				return nil, notes, err
			}
			os.WriteFile(alt, []byte(strings.ReplaceAll(string(src), "=> /repo", "=> "+real)), 0o644)
			if sumf, err := os.ReadFile(filepath.Join(harness, "go.sum")); err == nil {
				os.WriteFile(strings.TrimSuffix(alt, ".mod")+".sum", sumf, 0o644)
			}
		}
		args = append(args, "-modfile="+alt)
	}
	args = append(args, "-o", bin, "./cmd/c18/workload")
	cmd := exec.Command("go", args...)
	cmd.Dir = harness
	cmd.Env = append(os.Environ(), "GOFLAGS=-mod=mod", "GOPROXY=off", "GOSUMDB=off", "GOTOOLCHAIN=local", "CGO_ENABLED=1")
	if b, err := cmd.CombinedOutput(); err != nil {
		return nil, notes, fmt.Errorf("go build -race of the workloads failed: %v\n%s", err, b)
	}
	defer os.Remove(bin)

	scs := []scenario{{"load", 6, 1}, {"insert", 4, 1}, {"numhash", 4, 1}, {"cache", 4, 1}, {"latest", 3, 1}, {"get", 5, 1}, {"pipeline", 5, 2}}
	if cfg.Thorough() {
		scs = []scenario{{"load", 30, 3}, {"insert", 20, 3}, {"numhash", 20, 3}, {"cache", 20, 3}, {"latest", 10, 4}, {"get", 20, 6}, {"pipeline", 12, 10}}
	}
	if cfg.Replay != "" {
		var rep struct {
			FailingInput struct {
				Desc struct {
					Scenario string `json:"scenario"`
					Seed     uint64 `json:"seed"`
					Rounds   int    `json:"rounds"`
				} `json:"desc"`
			} `json:"failing_input"`
		}
		if b, err := os.ReadFile(cfg.Replay); err == nil && json.Unmarshal(b, &rep) == nil && rep.FailingInput.Desc.Scenario != "" {
			d := rep.FailingInput.Desc
			scs = []scenario{{d.Scenario, d.Rounds, 1}}
			notes["replay"] = fmt.Sprintf("%s seed=%d rounds=%d", d.Scenario, d.Seed, d.Rounds)
			rs, n, err := runScenario(bin, work, tag, repo, d.Scenario, d.Seed, d.Rounds)
			notes["workload "+d.Scenario] = n
			return dedupe(rs), notes, err
		}
	}
	rng := lib.NewRNG(cfg.Seed)
	type job struct {
		name   string
		seed   uint64
		rounds int
		rs     []report
		note   any
		err    error
	}
	var jobs []*job
	for _, sc := range scs {
		for k := 0; k < sc.seeds; k++ {
			jobs = append(jobs, &job{name: sc.name, seed: rng.U64() % 1000000, rounds: sc.rounds})
		}
	}
	// three child processes at a time (each is itself concurrent)
	sem := make(chan struct{}, 3)
	var wg sync.WaitGroup
	for _, j := range jobs {
		wg.Add(1)
		go func(j *job) {
			defer wg.Done()
			sem <- struct{}{}
			j.rs, j.note, j.err = runScenario(bin, work, tag, repo, j.name, j.seed, j.rounds)
			<-sem
		}(j)
	}
	wg.Wait()
	var all []report
	for _, j := range jobs {
		if j.err != nil {
			return nil, notes, j.err
		}
		notes[fmt.Sprintf("workload %s seed=%d", j.name, j.seed)] = j.note
		all = append(all, j.rs...)
	}
	return dedupe(all), notes, nil
}

func dedupe(rs []report) []report {
	seen := map[string]bool{}
	var out []report
	for _, r := range rs {
		k := r.key()
		if !seen[k] {
			seen[k] = true
			out = append(out, r)
		}
	}
	sort.SliceStable(out, func(i, j int) bool { return out[i].key() < out[j].key() })
	return out
}

func runScenario(bin, work, tag, repo, name string, seed uint64, rounds int) ([]report, any, error) {
	logp := filepath.Join(work, fmt.Sprintf("c18-race-%s-%s-%d", tag, name, seed))
	old, _ := filepath.Glob(logp + ".*")
	for _, f := range old {
		os.Remove(f)
	}
	cmd := exec.Command(bin, "-scenario", name, "-seed", strconv.FormatUint(seed, 10), "-rounds", strconv.Itoa(rounds))
	cmd.Env = append(os.Environ(), "GORACE=halt_on_error=0 exitcode=0 log_path="+logp)
	outb, err := cmd.Output()
	if err != nil {
		stderr := ""
		if ee, ok := err.(*exec.ExitError); ok {
			stderr = string(ee.Stderr)
		}
		return nil, nil, fmt.Errorf("workload %s seed %d: %v %s", name, seed, err, stderr)
	}
	var summary any
	json.Unmarshal(outb, &summary)
	var rs []report
	files, _ := filepath.Glob(logp + ".*")
	for _, f := range files {
		b, _ := os.ReadFile(f)
		for _, r := range parseReports(string(b), repo) {
			r.Scenario, r.Seed, r.Rounds = name, seed, rounds
			rs = append(rs, r)
		}
		os.Remove(f)
	}
	return rs, map[string]any{"summary": summary, "reports": len(rs)}, nil
}
