package main

// A small scripted JSON-RPC node (net/http/httptest) for the race workloads
// of property C18.  It answers the five calls jrpc2.Client issues, single and
// batched, from a deterministic chain whose head can grow and whose top
// blocks can be replaced (reorg) while requests are in flight.

import (
	"crypto/sha256"
	"encoding/binary"
	"encoding/json"
	"fmt"
	"io"
	"net/http"
	"net/http/httptest"
	"strconv"
	"strings"
	"sync"
	"time"

	"github.com/indexsupply/shovel/eth"
)

const (
	txsPerBlock = 3
	logsPerTx   = 2
)

var transferSig = eth.Keccak([]byte("Transfer(address,address,uint256)"))

type node struct {
	mu       sync.Mutex
	head     uint64
	ver      map[uint64]uint64 // height -> chain version of the block served there
	nreq     uint64
	failPoll map[uint64]bool // request ordinals of header-only "latest" calls that fail
	npoll    uint64
	srv      *httptest.Server
	faults   map[uint64]fault // first block number of a header/block batch -> scripted failure
	gateCh   chan struct{}    // when set: every request but a head poll waits for it
	gateAt   uint64           // closed when npoll reaches this
}

// gate makes the node hold back every request that is not a head poll until
// k more head polls have been served (event driven: the caller's step stays
// open over k poll periods without sleeping).
func (n *node) gate(k uint64) {
	n.mu.Lock()
	n.gateCh, n.gateAt = make(chan struct{}), n.npoll+k
	n.mu.Unlock()
}

// awaitPolls returns when k more head polls have been served (or the poller
// has evidently stopped).
func (n *node) awaitPolls(k uint64) {
	n.gate(k)
	n.mu.Lock()
	ch := n.gateCh
	n.mu.Unlock()
	if ch == nil {
		return
	}
	select {
	case <-ch:
	case <-time.After(2 * time.Second):
	}
}

// fault: the next `left` header/block batches starting at a given block fail:
// kind 1 HTTP 500, kind 2 an error member in the first item, kind 3 a broken
// parent link in the second block (validate rejects the segment).
type fault struct{ kind, left int }

func (n *node) failFetch(start uint64, kind, times int) {
	n.mu.Lock()
	if n.faults == nil {
		n.faults = map[uint64]fault{}
	}
	n.faults[start] = fault{kind, times}
	n.mu.Unlock()
}

// batchFault (n.mu held): the scripted failure of this request, if it is a
// batch of eth_getBlockByNumber calls by number.
func (n *node) batchFault(reqs []rpcReq, batch bool) int {
	if !batch || len(reqs) == 0 || len(n.faults) == 0 {
		return 0
	}
	for _, q := range reqs {
		if q.Method != "eth_getBlockByNumber" || len(q.Params) != 2 {
			return 0
		}
	}
	start, latest := parseNum(reqs[0].Params[0])
	f, ok := n.faults[start]
	if latest || !ok || f.left <= 0 {
		return 0
	}
	f.left--
	n.faults[start] = f
	if f.kind == 3 && len(reqs) < 2 {
		return 2
	}
	return f.kind
}

func isPoll(q rpcReq) bool {
	if q.Method != "eth_getBlockByNumber" || len(q.Params) != 2 {
		return false
	}
	_, latest := parseNum(q.Params[0])
	var full bool
	json.Unmarshal(q.Params[1], &full)
	return latest && !full
}

func newNode(head uint64) *node {
	n := &node{head: head, ver: map[uint64]uint64{}, failPoll: map[uint64]bool{}}
	n.srv = httptest.NewServer(http.HandlerFunc(n.serve))
	return n
}

func (n *node) url() string { return n.srv.URL }
func (n *node) close()      { n.srv.Close() }

func (n *node) grow(k uint64) {
	n.mu.Lock()
	n.head += k
	n.mu.Unlock()
}

// reorg replaces the top `depth` blocks by blocks of a new chain version.
func (n *node) reorg(depth uint64) {
	n.mu.Lock()
	for i := uint64(0); i < depth && i < n.head; i++ {
		n.ver[n.head-i]++
	}
	n.mu.Unlock()
}

func (n *node) hashOf(num uint64) []byte {
	var b [16]byte
	binary.BigEndian.PutUint64(b[:8], num)
	binary.BigEndian.PutUint64(b[8:], n.ver[num])
	h := sha256.Sum256(b[:])
	return h[:]
}

func hx(b []byte) string { return fmt.Sprintf("0x%x", b) }
func hn(n uint64) string { return "0x" + strconv.FormatUint(n, 16) }
func addr(seed uint64) []byte {
	h := sha256.Sum256([]byte(fmt.Sprint("addr", seed)))
	return h[:20]
}
func txHash(bh []byte, i uint64) []byte {
	h := sha256.Sum256(append(append([]byte{}, bh...), byte(i)))
	return h[:]
}

type rpcReq struct {
	ID     any               `json:"id"`
	Method string            `json:"method"`
	Params []json.RawMessage `json:"params"`
}

func (n *node) serve(w http.ResponseWriter, r *http.Request) {
	body, _ := io.ReadAll(r.Body)
	var reqs []rpcReq
	batch := true
	if err := json.Unmarshal(body, &reqs); err != nil {
		var one rpcReq
		if err := json.Unmarshal(body, &one); err != nil {
			http.Error(w, "bad request", 400)
			return
		}
		reqs, batch = []rpcReq{one}, false
	}
	n.mu.Lock()
	ch := n.gateCh
	n.mu.Unlock()
	if ch != nil && !(len(reqs) == 1 && isPoll(reqs[0])) {
		select {
		case <-ch:
		case <-time.After(5 * time.Second): // the poller died: do not hang the workload
		}
	}
	n.mu.Lock()
	n.nreq++
	var out []map[string]any
	fk := n.batchFault(reqs, batch)
	fail := fk == 1
	for i, q := range reqs {
		res, bad := n.answer(q)
		fail = fail || bad
		item := map[string]any{"jsonrpc": "2.0", "id": q.ID, "result": res}
		switch {
		case fk == 2 && i == 0:
			item = map[string]any{"jsonrpc": "2.0", "id": q.ID, "error": map[string]any{"code": -32000, "message": "scripted failure"}}
		case fk == 3 && i == 1:
			if h, ok := res.(map[string]any); ok {
				h["parentHash"] = hx(make([]byte, 32))
			}
		}
		out = append(out, item)
	}
	n.mu.Unlock()
	if fail {
		http.Error(w, "scripted failure", 500)
		return
	}
	w.Header().Set("content-type", "application/json")
	if batch {
		json.NewEncoder(w).Encode(out)
		return
	}
	json.NewEncoder(w).Encode(out[0])
}

func parseNum(raw json.RawMessage) (uint64, bool) {
	var s string
	json.Unmarshal(raw, &s)
	if s == "latest" {
		return 0, true
	}
	v, _ := strconv.ParseUint(strings.TrimPrefix(s, "0x"), 16, 64)
	return v, false
}

func (n *node) header(num uint64) map[string]any {
	parent := make([]byte, 32)
	if num > 0 {
		parent = n.hashOf(num - 1)
	}
	return map[string]any{
		"number":     hn(num),
		"hash":       hx(n.hashOf(num)),
		"parentHash": hx(parent),
		"logsBloom":  "0x00",
		"timestamp":  hn(1700000000 + num),
	}
}

func (n *node) txs(num uint64) []map[string]any {
	var res []map[string]any
	bh := n.hashOf(num)
	for i := uint64(0); i < txsPerBlock; i++ {
		tx := map[string]any{
			"transactionIndex": hn(i),
			"type":             "0x2",
			"nonce":            hn(num*10 + i),
			"from":             hx(addr(i)),
			"to":               hx(addr(i + 100)),
			"value":            hn(num + i),
			"input":            hx([]byte{1, 2, 3, byte(i)}),
			"gas":              hn(21000),
			"gasPrice":         hn(7),
		}
		// on odd blocks the node leaves the transaction hash out, so that
		// eth.Tx.Hash has to compute and memoise it (under tx.cacheMut)
		if num%2 == 0 {
			tx["hash"] = hx(txHash(bh, i))
		}
		res = append(res, tx)
	}
	return res
}

func (n *node) logs(num, tx uint64) []map[string]any {
	var res []map[string]any
	for l := uint64(0); l < logsPerTx; l++ {
		val := make([]byte, 32)
		binary.BigEndian.PutUint64(val[24:], num*100+tx*10+l)
		pad := func(a []byte) string { return hx(append(make([]byte, 12), a...)) }
		res = append(res, map[string]any{
			"logIndex": hn(tx*logsPerTx + l),
			"address":  hx(addr(7)),
			"topics":   []string{hx(transferSig), pad(addr(tx)), pad(addr(l))},
			"data":     hx(val),
		})
	}
	return res
}

// answer must be called with n.mu held.
func (n *node) answer(q rpcReq) (res any, fail bool) {
	switch q.Method {
	case "eth_getBlockByNumber":
		num, latest := parseNum(q.Params[0])
		var full bool
		json.Unmarshal(q.Params[1], &full)
		if latest {
			num = n.head
			if !full {
				n.npoll++
				if n.gateCh != nil && n.npoll >= n.gateAt {
					close(n.gateCh)
					n.gateCh = nil
				}
				if n.failPoll[n.npoll] {
					return nil, true
				}
			}
		}
		if num > n.head {
			return nil, false
		}
		h := n.header(num)
		if full {
			h["transactions"] = n.txs(num)
		}
		return h, false
	case "eth_getBlockReceipts":
		num, _ := parseNum(q.Params[0])
		if num > n.head {
			return nil, false
		}
		bh := n.hashOf(num)
		var rs []map[string]any
		for i := uint64(0); i < txsPerBlock; i++ {
			rs = append(rs, map[string]any{
				"blockHash":         hx(bh),
				"blockNumber":       hn(num),
				"transactionHash":   hx(txHash(bh, i)),
				"transactionIndex":  hn(i),
				"type":              "0x2",
				"from":              hx(addr(i)),
				"to":                hx(addr(i + 100)),
				"status":            "0x1",
				"gasUsed":           hn(21000 + i),
				"effectiveGasPrice": hn(9),
				"contractAddress":   hx(addr(i + 200)),
				"logs":              n.logs(num, i),
			})
		}
		return rs, false
	case "eth_getLogs":
		var f struct {
			From string `json:"fromBlock"`
			To   string `json:"toBlock"`
		}
		json.Unmarshal(q.Params[0], &f)
		from, _ := strconv.ParseUint(strings.TrimPrefix(f.From, "0x"), 16, 64)
		to, _ := strconv.ParseUint(strings.TrimPrefix(f.To, "0x"), 16, 64)
		ls := []map[string]any{}
		for num := from; num <= to && num <= n.head; num++ {
			bh := n.hashOf(num)
			for i := uint64(0); i < txsPerBlock; i++ {
				for _, l := range n.logs(num, i) {
					l["blockHash"] = hx(bh)
					l["blockNumber"] = hn(num)
					l["transactionHash"] = hx(txHash(bh, i))
					l["transactionIndex"] = hn(i)
					ls = append(ls, l)
				}
			}
		}
		return ls, false
	case "trace_block":
		num, _ := parseNum(q.Params[0])
		if num > n.head {
			return nil, false
		}
		bh := n.hashOf(num)
		var ts []map[string]any
		for i := uint64(0); i < txsPerBlock; i++ {
			for k := uint64(0); k < 2; k++ {
				ts = append(ts, map[string]any{
					"blockHash":           hx(bh),
					"blockNumber":         num,
					"transactionHash":     hx(txHash(bh, i)),
					"transactionPosition": i,
					"action": map[string]any{
						"from":     hx(addr(i)),
						"callType": "call",
						"to":       hx(addr(i + k)),
						"value":    hn(k),
					},
				})
			}
		}
		return ts, false
	}
	return nil, false
}
