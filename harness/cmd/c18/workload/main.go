// c18 workload: concurrent executions of shovel's indexing pipeline, built by
// the C18 driver with `go build -race` and run as a child process.  The Go
// race detector's reports (GORACE log_path) are the observations; this
// program only produces schedules.  It plays a supporting role: a report is a
// concrete witness of a violation, silence proves nothing.
//
//	workload -scenario load|insert|pipeline|get|cache|numhash|latest -seed N -rounds K
package main

import (
	"context"
	"encoding/json"
	"errors"
	"flag"
	"fmt"
	"io"
	"log/slog"
	"os"
	"sync"
	"sync/atomic"
	"time"

	"github.com/indexsupply/shovel/dig"
	"github.com/indexsupply/shovel/eth"
	"github.com/indexsupply/shovel/jrpc2"
	"github.com/indexsupply/shovel/shovel"
	"github.com/indexsupply/shovel/shovel/config"
	"github.com/indexsupply/shovel/shovel/glf"
	"github.com/indexsupply/shovel/wctx"
	"github.com/indexsupply/shovel/wpg"

	"github.com/jackc/pgx/v5"
	"github.com/jackc/pgx/v5/pgconn"
)

// splitmix64 (same generator as harness/lib; copied so that the race-built
// child has no dependency on the driver's packages)
type rng struct{ s uint64 }

func newRNG(seed uint64) *rng { return &rng{s: seed*0x9E3779B97F4A7C15 + 0x1234567} }
func (r *rng) u64() uint64 {
	r.s += 0x9E3779B97F4A7C15
	z := r.s
	z = (z ^ (z >> 30)) * 0xBF58476D1CE4E5B9
	z = (z ^ (z >> 27)) * 0x94D049BB133111EB
	return z ^ (z >> 31)
}
func (r *rng) rng(a, b int) int { return a + int(r.u64()%uint64(b-a+1)) }

// ---------------------------------------------------------------- fakes

// fakeConn stands for a pgx transaction: like the real one it is NOT safe for
// concurrent use; the plain counter makes unsynchronised use visible to the
// race detector.
type fakeConn struct{ ops int }

func (c *fakeConn) CopyFrom(ctx context.Context, t pgx.Identifier, cols []string, src pgx.CopyFromSource) (int64, error) {
	c.ops++
	var n int64
	for src.Next() {
		if _, err := src.Values(); err != nil {
			return n, err
		}
		n++
	}
	return n, src.Err()
}
func (c *fakeConn) Exec(context.Context, string, ...any) (pgconn.CommandTag, error) {
	c.ops++
	return pgconn.CommandTag{}, nil
}
func (c *fakeConn) QueryRow(context.Context, string, ...any) pgx.Row { c.ops++; return fakeRow{} }
func (c *fakeConn) Query(context.Context, string, ...any) (pgx.Rows, error) {
	c.ops++
	return nil, errors.New("fakeConn: no rows")
}

type fakeRow struct{}

func (fakeRow) Scan(...any) error { return pgx.ErrNoRows }

var _ wpg.Conn = (*fakeConn)(nil)

// scriptedSource is a shovel.Source that fabricates fresh blocks (no client,
// no cache): isolates Task.load / Task.insert themselves.
type scriptedSource struct{}

func (scriptedSource) Get(ctx context.Context, url string, f *glf.Filter, start, limit uint64) ([]eth.Block, error) {
	var res []eth.Block
	for i := uint64(0); i < limit; i++ {
		b := eth.Block{Header: eth.Header{Number: eth.Uint64(start + i), Hash: []byte{byte(start + i)}}}
		b.Txs = append(b.Txs, eth.Tx{Idx: 0, PrecompHash: []byte{1}})
		res = append(res, b)
	}
	return res, nil
}
func (scriptedSource) Latest(context.Context, string, uint64) (uint64, []byte, error) {
	return 1 << 30, nil, nil
}
func (scriptedSource) Hash(context.Context, string, uint64) ([]byte, error) { return nil, nil }
func (scriptedSource) NextURL() *jrpc2.URL                                  { return jrpc2.MustURL("http://scripted") }

// fakeDest is a Go-level destination: it walks everything Insert would read
// and then uses the shared connection under the mutex it was given.
type fakeDest struct{}

func (fakeDest) Insert(ctx context.Context, mu *sync.Mutex, pg wpg.Conn, blocks []eth.Block) (int64, error) {
	var n int64
	for i := range blocks {
		n += int64(len(blocks[i].Txs)) + int64(blocks[i].Num()&1)
	}
	mu.Lock()
	defer mu.Unlock()
	_, err := pg.Exec(ctx, "insert")
	return n, err
}
func (fakeDest) Delete(context.Context, wpg.Conn, uint64) error { return nil }
func (fakeDest) Filter() glf.Filter                             { return *glf.New([]string{"block_num"}, nil, nil) }

// ---------------------------------------------------------------- integrations (data plans)

func transferEvent(selected bool) dig.Event {
	col := func(c string) string {
		if selected {
			return c
		}
		return ""
	}
	return dig.Event{Name: "Transfer", Type: "event", Inputs: []dig.Input{
		{Indexed: true, Name: "from", Type: "address", Column: col("f")},
		{Indexed: true, Name: "to", Type: "address", Column: col("t")},
		{Name: "value", Type: "uint256", Column: col("v")},
	}}
}

type plan struct {
	name     string
	selected bool
	bd       []string
}

var plans = []plan{
	{"hdr+logs", true, []string{"block_time", "block_hash", "block_num", "tx_hash", "log_idx", "log_addr"}},
	{"hdr+receipts", false, []string{"block_time", "block_hash", "tx_hash", "tx_idx", "tx_status", "tx_gas_used"}},
	{"hdr+traces", false, []string{"block_time", "block_hash", "tx_hash", "trace_action_from", "trace_action_to", "trace_action_idx"}},
	{"blocks+logs", true, []string{"tx_input", "tx_value", "block_hash", "tx_hash", "log_idx"}},
	{"blocks+receipts", false, []string{"tx_input", "tx_nonce", "block_hash", "tx_hash", "tx_status"}},
	{"blocks+traces", false, []string{"tx_input", "block_num", "tx_hash", "trace_action_value", "trace_action_call_type"}},
	{"logs-only", true, []string{"block_num", "tx_hash", "log_idx"}},
	{"blocks-only", false, []string{"tx_input", "tx_hash", "block_hash", "tx_idx"}},
}

func (p plan) integration() config.Integration {
	ig := config.Integration{Name: p.name, Enabled: true, Event: transferEvent(p.selected)}
	ig.Table.Name = "t_" + p.name
	if p.selected {
		for _, c := range []string{"f", "t", "v"} {
			ig.Table.Columns = append(ig.Table.Columns, wpg.Column{Name: c, Type: "bytea"})
		}
	}
	for _, n := range p.bd {
		ig.Block = append(ig.Block, dig.BlockData{Name: n, Column: n})
		ig.Table.Columns = append(ig.Table.Columns, wpg.Column{Name: n, Type: "bytea"})
	}
	return ig
}

// ---------------------------------------------------------------- scenarios

type result struct {
	Scenario string         `json:"scenario"`
	Seed     uint64         `json:"seed"`
	Rounds   int            `json:"rounds"`
	Counts   map[string]int `json:"counts"`
}

type counters struct {
	mu sync.Mutex
	m  map[string]int
}

func (c *counters) add(k string, n int) {
	c.mu.Lock()
	c.m[k] += n
	c.mu.Unlock()
}

// one task with concurrency 2..8 over a scripted source: the partition
// goroutines of Task.load and the insert goroutines of Task.insert
func scenarioLoad(r *rng, rounds int, cn *counters, alsoInsert bool) {
	for round := 0; round < rounds; round++ {
		if !alsoInsert {
			filteredLoad(r, cn)
		}
		conc := r.rng(2, 8)
		batch := conc * r.rng(1, 4)
		t, err := shovel.VerifRaceNewTask(
			shovel.WithSource(scriptedSource{}),
			shovel.WithConcurrency(conc, batch),
			shovel.WithIntegrationFactory(func(config.Integration) (shovel.Destination, error) { return fakeDest{}, nil }),
		)
		must(err)
		blocks, err := t.VerifRaceLoad(context.Background(), "http://scripted", nil, 1, uint64(batch))
		must(err)
		cn.add(fmt.Sprintf("load conc=%d", conc), 1)
		cn.add("blocks loaded", len(blocks))
		if alsoInsert {
			nr, err := t.VerifRaceInsert(context.Background(), &fakeConn{}, blocks)
			must(err)
			cn.add("rows inserted", int(nr))
			// Task.insert starts one goroutine per batchSize blocks, each with
			// its own destination: with batch size 1 and `conc` blocks all
			// `conc` insert goroutines run (Converge itself never hands insert
			// more than one batch)
			// (real destinations here: dig.Integration.Insert shares the one
			// connection of the step under the mutex Task.insert hands it)
			tw, err := shovel.VerifRaceNewTask(
				shovel.WithSource(scriptedSource{}),
				shovel.WithConcurrency(conc, 1),
				shovel.WithIntegration(plans[len(plans)-1].integration()),
			)
			must(err)
			nr, err = tw.VerifRaceInsert(context.Background(), &fakeConn{}, blocks[:conc])
			must(err)
			cn.add(fmt.Sprintf("insert goroutines=%d", conc), 1)
			cn.add("rows inserted", int(nr))
		}
	}
}

// several goroutines calling Client.Get on ONE client with overlapping ranges
// and different data plans
func scenarioGet(r *rng, rounds int, cn *counters) {
	nd := newNode(400)
	defer nd.close()
	for round := 0; round < rounds; round++ {
		c := jrpc2.New(nd.url()).WithMaxReads(r.rng(2, 6))
		var wg sync.WaitGroup
		start, limit := uint64(r.rng(1, 300)), uint64(r.rng(1, 4))
		// a fraction of the header/block fetches fails (HTTP 500, error member,
		// broken parent link) while other goroutines are inside the same caches
		for off := uint64(0); off < 3; off++ {
			if r.rng(0, 2) > 0 {
				nd.failFetch(start+off, r.rng(1, 3), r.rng(1, 3))
			}
		}
		for g := 0; g < r.rng(3, 8); g++ {
			p := plans[r.rng(0, len(plans)-1)]
			ig, err := shovel.NewDestination(p.integration())
			must(err)
			f := ig.Filter()
			off := uint64(0)
			if r.rng(0, 2) == 0 {
				off = uint64(r.rng(0, 2))
			}
			wg.Add(1)
			go func() {
				defer wg.Done()
				for k := 0; k < 5; k++ {
					// the result is not touched here: every access to block
					// data in a report must come from the repository's own code
					_, err := c.Get(context.Background(), nd.url(), &f, start+off, limit)
					if err != nil {
						cn.add("get error", 1)
						continue
					}
					cn.add("get "+p.name, 1)
				}
			}()
		}
		wg.Wait()
	}
}

// several tasks (each its own goroutine, Task, destination, connection) on
// ONE source client: NextURL / Latest / load / insert, the PG-free core of
// Converge, with head growth, reorgs and poller failures in flight
func scenarioPipeline(r *rng, rounds int, cn *counters) {
	for round := 0; round < rounds; round++ {
		stepWithCounter(cn)
		filteredLoad(r, cn)
		nd := newNode(50)
		c := jrpc2.New(nd.url(), nd.url()+"/b").WithMaxReads(r.rng(2, 5)).WithPollDuration(time.Millisecond)
		ntasks := r.rng(2, 5)
		conc, batch := 1, r.rng(1, 4)
		if r.rng(0, 1) == 1 {
			conc = r.rng(2, 4)
			batch = conc * r.rng(1, 2)
		}
		for _, k := range []uint64{3, 9, 15} {
			nd.failPoll[k+uint64(r.rng(0, 2))] = true
		}
		for k := 0; k < 4; k++ { // some segment fetches fail once or twice; the tasks retry
			nd.failFetch(uint64(21+r.rng(0, 12)), r.rng(1, 3), r.rng(1, 2))
		}
		var stop atomic.Bool
		go func() { // chain activity while the tasks run
			for i := 0; !stop.Load(); i++ {
				time.Sleep(300 * time.Microsecond)
				nd.grow(1)
				if i%7 == 3 {
					nd.reorg(uint64(1 + i%2))
				}
			}
		}()
		var wg sync.WaitGroup
		for ti := 0; ti < ntasks; ti++ {
			p := plans[r.rng(0, len(plans)-1)]
			switch {
			case ti < 2 && round%2 == 0: // two tasks with different plans share header segments
				p = plans[ti]
			case ti < 2: // two tasks with the same blocks-only plan share full blocks (tx hash memo)
				p = plans[len(plans)-1]
			}
			t, err := shovel.VerifRaceNewTask(
				shovel.WithSource(c),
				shovel.WithConcurrency(conc, batch),
				shovel.WithIntegration(p.integration()),
			)
			must(err)
			wg.Add(1)
			go func() {
				defer wg.Done()
				runTask(t, c, uint64(batch), cn, p.name)
			}()
		}
		wg.Wait()
		stop.Store(true)
		nd.close()
	}
}

// the Postgres-free core of Task.Converge, repeated like Manager.runTask does
func runTask(t *shovel.Task, c *jrpc2.Client, batch uint64, cn *counters, plan string) {
	ctx := context.Background()
	local := uint64(20)
	var localHash []byte
	for step := 0; step < 12; step++ {
		url := c.NextURL().String()
		if localHash == nil {
			h, err := c.Hash(ctx, url, local)
			if err != nil {
				cn.add("hash error", 1)
				continue
			}
			localHash = h
		}
		head, headHash, err := c.Latest(ctx, url, local)
		if err != nil {
			cn.add("latest error", 1)
			continue
		}
		fold(headHash)
		if head <= local {
			continue
		}
		delta := min(head-local, batch)
		blocks, err := t.VerifRaceLoad(ctx, url, localHash, local+1, delta)
		if errors.Is(err, shovel.ErrReorg) {
			cn.add("reorg", 1)
			local, localHash = local-1, nil
			continue
		}
		if err != nil {
			cn.add("load error", 1)
			continue
		}
		nr, err := t.VerifRaceInsert(ctx, &fakeConn{}, blocks)
		if err != nil {
			cn.add("insert error", 1)
			continue
		}
		fold(headHash) // Converge hands the head hash to Task.update only now
		// (Converge reads the last block's number and hash here; the harness
		// leaves block data to the repository's code and asks the node again)
		local, localHash = local+delta, nil
		cn.add("converged "+plan, 1)
		cn.add("rows", int(nr))
	}
}

// the FIRST load of a fresh task whose integration filters log_addr on five
// addresses given in descending order, on a logs-only plan (no header fetch
// precedes eth_getLogs), concurrency 3..5, a batch of two blocks per
// partition: every partition goroutine builds its eth_getLogs request from
// the task's one glf.Filter (Task.load hands &t.filter to all of them).
func filteredLoad(r *rng, cn *counters) {
	nd := newNode(60)
	defer nd.close()
	c := jrpc2.New(nd.url()).WithPollDuration(time.Hour)
	ig := plan{"logs-only+addr", true, []string{"block_num", "tx_hash", "log_idx"}}.integration()
	var addrs []string
	for i := 5; i >= 1; i-- {
		addrs = append(addrs, fmt.Sprintf("0x%040x", i*0x1111))
	}
	ig.Block = append(ig.Block, dig.BlockData{Name: "log_addr", Column: "log_addr", Filter: dig.Filter{Op: "contains", Arg: addrs}})
	ig.Table.Columns = append(ig.Table.Columns, wpg.Column{Name: "log_addr", Type: "bytea"})
	conc := r.rng(3, 5)
	t, err := shovel.VerifRaceNewTask(
		shovel.WithSource(c),
		shovel.WithConcurrency(conc, 2*conc),
		shovel.WithIntegration(ig),
	)
	must(err)
	h, err := c.Hash(context.Background(), nd.url(), 20)
	must(err)
	if _, err := t.VerifRaceLoad(context.Background(), nd.url(), h, 21, uint64(2*conc)); err != nil {
		cn.add("filtered load error", 1)
		return
	}
	cn.add(fmt.Sprintf("filtered first load conc=%d", conc), 1)
}

// one step the way Task.Converge runs it: a context carrying the step's own
// RPC counter, Latest as the first call on a fresh client (it starts the head
// poller), the step kept open over two poll periods (the node holds the next
// answer back until two polls were served), then the plain read of the
// counter for the nrpc log attribute.  Every goroutine that adds to the counter
// must have been waited for by then.
func stepWithCounter(cn *counters) {
	nd := newNode(50)
	defer nd.close()
	c := jrpc2.New(nd.url()).WithPollDuration(time.Millisecond)
	nrpc := uint64(0)
	ctx := wctx.WithCounter(context.Background(), &nrpc)
	if _, _, err := c.Latest(ctx, nd.url(), 0); err != nil {
		cn.add("step: latest error", 1)
		return
	}
	nd.gate(2)
	if _, err := c.Hash(ctx, nd.url(), 5); err != nil {
		cn.add("step: hash error", 1)
		return
	}
	if wctx.Counter(ctx) >= 2 {
		cn.add("step with counter", 1)
	}
	// The step is over; the client and its poller live on (as they do in
	// shovel, where the next step starts).  Wait, without doing any I/O of
	// our own, until the poller has completed two more polls.
	nd.awaitPolls(2)
}

// the segment cache on its own: several goroutines on overlapping and distinct
// keys, a getter that fails for a fraction of the calls
func scenarioCache(r *rng, rounds int, cn *counters) {
	for round := 0; round < rounds; round++ {
		vc := jrpc2.VerifNewCache(r.rng(2, 6))
		base := uint64(r.rng(1, 1000))
		var calls atomic.Uint64
		getter := func(start, limit uint64) ([]eth.Block, error) {
			if calls.Add(1)%3 == 0 {
				return nil, errors.New("scripted fetch failure")
			}
			res := make([]eth.Block, limit)
			for i := range res {
				res[i].Header.Number = eth.Uint64(start + uint64(i))
			}
			return res, nil
		}
		var wg sync.WaitGroup
		for g := 0; g < r.rng(3, 8); g++ {
			g := g
			wg.Add(1)
			go func() {
				defer wg.Done()
				for k := 0; k < 30; k++ {
					start := base + uint64((g+k)%5)
					if _, err := vc.Get(false, start, uint64(1+k%2), getter); err != nil {
						cn.add("cache get error", 1)
					} else {
						cn.add("cache get ok", 1)
					}
				}
			}()
		}
		wg.Wait()
	}
}

// the head cache from several goroutines
func scenarioNumHash(r *rng, rounds int, cn *counters) {
	for round := 0; round < rounds; round++ {
		nh := jrpc2.VerifRaceNumHash(r.rng(3, 8))
		var ctr atomic.Uint64
		var wg sync.WaitGroup
		for g := 0; g < r.rng(3, 8); g++ {
			kind := g % 3
			wg.Add(1)
			go func() {
				defer wg.Done()
				for k := uint64(1); k < 40; k++ {
					switch kind {
					case 0: // strictly increasing numbers: every call overwrites the cached hash in place
						n := ctr.Add(1)
						hh := make([]byte, 32)
						hh[0], hh[31] = byte(n), byte(n>>8)
						nh.VerifRaceUpdate(n, hh)
					case 1:
						if _, h, ok := nh.VerifRaceGet(context.Background(), k/2); ok {
							cn.add("head cache hit", 1)
							fold(h)
							time.Sleep(20 * time.Microsecond)
							fold(h)
						}
					default:
						if k%13 == 0 {
							nh.VerifRaceError(errors.New("scripted"))
						}
					}
				}
			}()
		}
		wg.Wait()
	}
}

// Client.Latest from several goroutines while the background poller fails
// and is restarted
func scenarioLatest(r *rng, rounds int, cn *counters) {
	for round := 0; round < rounds; round++ {
		stepWithCounter(cn)
		nd := newNode(100)
		for k := uint64(1); k < 60; k += uint64(r.rng(2, 4)) {
			nd.failPoll[k] = true
		}
		c := jrpc2.New(nd.url()).WithMaxReads(3).WithPollDuration(200 * time.Microsecond)
		var stop atomic.Bool
		go func() { // the head keeps growing: the poller keeps updating the head cache
			for !stop.Load() {
				time.Sleep(150 * time.Microsecond)
				nd.grow(1)
			}
		}()
		var wg sync.WaitGroup
		for g := 0; g < r.rng(3, 6); g++ {
			wg.Add(1)
			go func() {
				defer wg.Done()
				for k := 0; k < 25; k++ {
					_, h, err := c.Latest(context.Background(), nd.url(), uint64(90+k/5))
					if err != nil {
						cn.add("latest error", 1)
					} else {
						cn.add("latest ok", 1)
						fold(h)
						time.Sleep(50 * time.Microsecond)
						fold(h)
					}
					_ = c.NextURL()
					time.Sleep(100 * time.Microsecond)
				}
			}()
		}
		wg.Wait()
		stop.Store(true)
		nd.close()
	}
}

// sink folds the bytes a caller of Latest / NumHash.get was handed into a
// checksum: the caller of Client.Latest (Task.Converge) keeps the head hash and
// reads it later, after every lock inside the client has been released.
var sink atomic.Uint64

func fold(h []byte) {
	var x uint64
	for _, b := range h {
		x = x*131 + uint64(b)
	}
	sink.Add(x)
}

func must(err error) {
	if err != nil {
		fmt.Fprintln(os.Stderr, "workload setup error:", err)
		os.Exit(4)
	}
}

func main() {
	var (
		scenario = flag.String("scenario", "load", "load|insert|pipeline|get|cache|numhash|latest")
		seed     = flag.Uint64("seed", 1, "seed of every random choice")
		rounds   = flag.Int("rounds", 5, "rounds")
	)
	flag.Parse()
	slog.SetDefault(slog.New(slog.NewTextHandler(io.Discard, &slog.HandlerOptions{Level: slog.LevelDebug})))
	r := newRNG(*seed)
	cn := &counters{m: map[string]int{}}
	switch *scenario {
	case "load":
		scenarioLoad(r, *rounds, cn, false)
	case "insert":
		scenarioLoad(r, *rounds, cn, true)
	case "pipeline":
		scenarioPipeline(r, *rounds, cn)
	case "get":
		scenarioGet(r, *rounds, cn)
	case "cache":
		scenarioCache(r, *rounds, cn)
	case "numhash":
		scenarioNumHash(r, *rounds, cn)
	case "latest":
		scenarioLatest(r, *rounds, cn)
	default:
		must(fmt.Errorf("unknown scenario %q", *scenario))
	}
	json.NewEncoder(os.Stdout).Encode(result{Scenario: *scenario, Seed: *seed, Rounds: *rounds, Counts: cn.m})
}
