// c15: correspondence driver of property C15 (no configuration string reaches
// SQL text unless it passed the identifier check).
package main

import (
	"encoding/hex"
	"encoding/json"
	"fmt"
	"io"
	"log/slog"
	"os"
	"sort"
	"strconv"
	"strings"
	"unicode"

	"github.com/indexsupply/shovel/dig"
	shconfig "github.com/indexsupply/shovel/shovel/config"
	"github.com/indexsupply/shovel/wstrings"
	cfg "verif/harness/config"
	"verif/harness/lib"
)

const header = `From Shovel Require Import Base.Outcome Model.Config Model.Sql Corr.RunC15.
From Coq Require Import List NArith String. Import ListNotations. Open Scope N_scope.`

// must list the same code points as Corr/RunC15.v: metachars
var metachars = []rune{0, 9, 10, 11, 12, 13, 32, 33, 34, 35, 36, 37, 38, 39, 40, 41, 42, 43, 44, 46, 47, 58, 59, 60, 61, 62, 63, 64,
	91, 92, 93, 94, 96, 123, 124, 125, 126, 127, 133, 160, 8216, 8217, 8220, 8221, 8232, 8233, 65307, 65287, 65282}

// safeStrings: inputs of the Safe-level comparison.  <valid prefix with
// non-ASCII letters/digits> + <forbidden character> + <tail>, the mirror
// shapes, forbidden non-ASCII runes, invalid UTF-8.
func safeStrings(thorough bool) []string {
	prefixes := []string{"", "t", "t\u00e9", "\u00df", "\u044f\u044f", "\u4e2d", "a\u0663", "\u00e9_-9"}
	tails := []string{"", "x", "\u00e9", "(a int); drop table x; --"}
	var forb []string
	for c := 0; c < 128; c++ {
		ch := byte(c)
		if !(ch >= 'a' && ch <= 'z' || ch >= 'A' && ch <= 'Z' || ch >= '0' && ch <= '9' || ch == '_' || ch == '-') {
			forb = append(forb, string(rune(c)))
		}
	}
	forb = append(forb, "\u00a0", "\u2028", "\uff1b", "\u2167", "\u2019", "\U0001F600", "\u0085",
		"\xff", "\xc3", "\xe4\xb8", "\xf0\x9f\x98", "\xc0\xaf", "\xed\xa0\x80")
	var out []string
	seen := map[string]bool{}
	add := func(s string) {
		if !seen[s] {
			seen[s] = true
			out = append(out, s)
		}
	}
	for _, p := range prefixes {
		add(p) // valid
		for ti, t := range tails {
			if !thorough && ti >= 1 && p != "t\u00e9" {
				continue
			}
			add(p + t)
			for _, f := range forb {
				add(p + f + t)
				add(f + p + t) // mirror: the forbidden character first
			}
		}
	}
	return out
}

// the rule of wstrings.Safe written independently: every rune (invalid bytes
// decode to U+FFFD) is a letter, a digit, '_' or '-'
func safeRef(s string) bool {
	for _, r := range s {
		if !(unicode.IsLetter(r) || unicode.IsDigit(r) || r == '_' || r == '-') {
			return false
		}
	}
	return true
}

func safeCase(s string) lib.Case {
	got := wstrings.Safe(s) == nil
	d := desc{Stream: "safe", Marker: -1, Hex: hex.EncodeToString([]byte(s)), Text: strings.ToValidUTF8(s, "\ufffd")}
	c := lib.Case{Desc: d, Kind: "safe/rejected", OracleOK: true, Nontrivial: true, Size: 100000 + len(s)} // configurations that reach SQL are the preferred replay
	if got {
		c.Kind = "safe/accepted"
	}
	if got != safeRef(s) {
		c.OracleOK = false
		c.OracleMsg = fmt.Sprintf("wstrings.Safe(%q) accepted=%v but the string %s consist of letters, digits, '_' and '-' only", s, got, map[bool]string{true: "does", false: "does NOT"}[safeRef(s)])
	}
	acc := "false"
	if got {
		acc = "true"
	}
	c.Coq = "CSafe " + cfg.CClasses(s) + " " + cfg.CRunes(s) + " " + acc
	return c
}

type desc struct {
	Hex    string `json:"hex,omitempty"` // safe stream: the input string, hex-encoded
	Stream string `json:"stream"`        // class | seed | file-pos | file-rename | dash-pos | dash-rename
	Seed   string `json:"seed,omitempty"`
	Path   string `json:"path,omitempty"` // string position (pos streams) or identifier (rename streams)
	Marker int    `json:"marker"`         // index into cfg.Markers, -1 = none
	Ig     int    `json:"ig"`             // dashboard: which integration of the seed
	Text   string `json:"marker_text,omitempty"`
	Site   string `json:"site,omitempty"`  // oracle: the SQL text that contains the marker
	Class  string `json:"class,omitempty"` // rejected | not-spliced | spliced-safe | spliced-UNSAFE | decode-error
}

func classCase() lib.Case {
	var rows []string
	ok := true
	msg := ""
	add := func(r rune) {
		rows = append(rows, fmt.Sprintf("(%d, %v, %v)", r, unicode.IsLetter(r), unicode.IsDigit(r)))
	}
	for r := rune(0); r < 128; r++ {
		add(r)
	}
	for _, r := range metachars {
		if r >= 128 {
			add(r)
		}
		if unicode.IsLetter(r) || unicode.IsDigit(r) {
			ok, msg = false, fmt.Sprintf("code point %d assumed to be neither letter nor digit is one for Go's unicode package", r)
		}
	}
	return lib.Case{Coq: "CClass [" + strings.Join(rows, "; ") + "]", Desc: desc{Stream: "class", Marker: -1},
		Kind: "class", Nontrivial: true, OracleOK: ok, OracleMsg: msg, Size: 1}
}

// the polynomial hash (mod 2^64) of Corr/RunC15.v: hash_str
func hashStr(s string) string {
	h := uint64(1469598103934665603)
	for _, r := range s {
		h = h*33 + uint64(r) + 1
	}
	return strconv.FormatUint(h, 10)
}

func coqTexts(xs []string) string {
	var q []string
	for _, x := range xs {
		q = append(q, hashStr(x))
	}
	return "[" + strings.Join(q, "; ") + "]"
}

// oracle: a hostile marker (or the chain marker) inside any SQL text
func findIn(texts []string, needle string) (string, bool) {
	for _, t := range texts {
		if strings.Contains(t, needle) {
			return t, true
		}
	}
	return "", false
}

func finish(d desc, coqHead string, o cfg.Obs, marker *cfg.Marker, extra ...string) lib.Case {
	c := lib.Case{Desc: d, Kind: d.Stream, OracleOK: true, Size: len(d.Path) + len(d.Text) + 10*len(o.Static)}
	if !o.Decoded {
		d.Class = "decode-error"
		c.Desc = d
		c.Kind = d.Stream + "/decode-error"
		return c // no model case: the configuration never existed
	}
	texts := append(append(append([]string{}, o.Static...), o.Dynamic...), extra...)
	spliced := false
	if marker != nil {
		if (d.Stream == "file-pos" || d.Stream == "dash-pos") && strings.Contains(d.Path, "/index/") {
			// an index entry may keep one trailing direction keyword
			m := *marker
			m.Hostile = cfg.IdxHostile(m.S)
			marker = &m
		}
		t, found := findIn(texts, marker.S)
		if !found {
			// the wire-level fake logs statements with white space normalised
			t, found = findIn(texts, strings.Join(strings.Fields(marker.S), " "))
		}
		if found {
			spliced = true
			if marker.Hostile {
				c.OracleOK = false
				d.Site = t
				c.OracleMsg = fmt.Sprintf("configuration string %q at %s was spliced into SQL text unchecked: %q", marker.S, d.Path, t)
			}
		}
	}
	if t, found := findIn(texts, cfg.ChainMarker); found {
		c.OracleOK = false
		d.Site = t
		c.OracleMsg = fmt.Sprintf("chain data reached SQL text: %q", t)
	}
	if o.Panic != "" {
		c.OracleOK = false
		c.OracleMsg = "panic: " + o.Panic
	}
	switch {
	case !o.Accepted:
		d.Class = "rejected"
	case spliced && marker != nil && marker.Hostile:
		d.Class = "spliced-UNSAFE"
	case spliced:
		d.Class = "spliced-safe"
	default:
		d.Class = "not-spliced"
	}
	c.Desc = d
	c.Kind = d.Stream + "/" + d.Class
	// the rule is evaluated on the texts of the Go-level Conn (file path: the wire log of a
	// load that fails half-way depends on map order and must not decide the count)
	nt := !o.Accepted
	if marker != nil {
		det := append(append([]string{}, o.Static...), o.Dynamic...)
		if strings.HasPrefix(d.Stream, "dash") || d.Stream == "src" {
			det = append(det, extra...)
		}
		if _, found := findIn(det, marker.S); found {
			nt = true
		}
	}
	c.Nontrivial = nt
	acc := "false"
	if o.Accepted {
		acc = "true"
	}
	c.Coq = coqHead + " " + acc + " " + coqTexts(o.Static) + " " + coqTexts(o.Dynamic)
	return c
}

func fileCase(d desc, doc string, marker *cfg.Marker) lib.Case {
	coq, conf, o := cfg.RunFile(doc)
	var w cfg.WireObs
	if o.Accepted {
		// the same configuration against a real pool: Migrate, loadTasks/NewTask, one Converge per task
		w = cfg.RunFileWire(conf)
	}
	c := finish(d, "CFile "+cfg.CClasses(doc)+" "+coq, o, marker, w.AllSQL...)
	if c.Coq != "" {
		var cur []string
		for _, s := range w.Cursor {
			cur = append(cur, strings.TrimSpace(strings.TrimSuffix(strings.Join(strings.Fields(s), " "), ";")))
		}
		apps := w.AppNames
		if !cfg.Loadable(conf.Sources, conf.Integrations) {
			// loadTasks fails half-way: which tasks were built before depends on map order;
			// the statements are searched for the markers but not handed to the model
			apps = nil
		}
		// task order follows a Go map: hand the multisets over in sorted order
		apps = append([]string{}, apps...)
		sort.Strings(apps)
		sort.Strings(cur)
		deps := "[]"
		if o.Accepted {
			deps = cfg.CDeps(conf.Integrations)
		}
		wire := "true"
		if w.Exits {
			wire = "false" // the process would exit in loadTasks (unparsable source URL): nothing to compare on the wire
		}
		c.Coq += " " + coqTexts(apps) + " " + coqTexts(cur) + " " + deps + " " + wire
	}
	if w.Err != "" {
		c.OracleOK = false
		c.OracleMsg = "file path on the wire: " + w.Err
	}
	depParam(&c, d, marker, o.Accepted && !w.Exits && cfg.Loadable(conf.Sources, conf.Integrations), w.Params)
	if o.Accepted && c.OracleOK {
		if msg := refsResolved(conf); msg != "" {
			c.OracleOK = false
			c.OracleMsg = msg
			dd := c.Desc.(desc)
			dd.Class = "unresolved-filter-ref"
			c.Desc = dd
		}
	}
	return c
}

// refsResolved: after ValidateFix every filter_ref of the configuration — on inputs, on their
// components at any depth, on block fields — is resolved: it names a configured integration,
// its table is THAT integration's table (a user-supplied table is refused or overwritten), the
// column is declared for that table, and the referencing integration depends on it.  A filter
// without integration has neither table nor column.  Returns "" when all are.
func refsResolved(conf shconfig.Root) string {
	byName := map[string]shconfig.Integration{}
	for _, ig := range conf.Integrations {
		byName[ig.Name] = ig
	}
	for _, ig := range conf.Integrations {
		chk := func(where string, r dig.Ref) string {
			if r.Integration == "" {
				if r.Table != "" || r.Column != "" {
					return fmt.Sprintf("%s of integration %s: filter_ref without integration kept table %q column %q", where, ig.Name, r.Table, r.Column)
				}
				return ""
			}
			t, ok := byName[r.Integration]
			switch {
			case !ok:
				return fmt.Sprintf("%s of integration %s: filter_ref to unknown integration %q accepted", where, ig.Name, r.Integration)
			case r.Table != t.Table.Name:
				return fmt.Sprintf("%s of integration %s: filter_ref to integration %q escaped validation: table %q instead of %q", where, ig.Name, r.Integration, r.Table, t.Table.Name)
			}
			dep := false
			for _, dname := range ig.Dependencies {
				dep = dep || dname == r.Integration
			}
			if !dep {
				return fmt.Sprintf("%s of integration %s: filter_ref to integration %q but no dependency on it (Dependencies %v)", where, ig.Name, r.Integration, ig.Dependencies)
			}
			return ""
		}
		var walk func(prefix string, ins []dig.Input) string
		walk = func(prefix string, ins []dig.Input) string {
			for _, in := range ins {
				if m := chk(prefix+in.Name, in.Filter.Ref); m != "" {
					return m
				}
				if m := walk(prefix+in.Name+".", in.Components); m != "" {
					return m
				}
			}
			return ""
		}
		if m := walk("input ", ig.Event.Inputs); m != "" {
			return m
		}
		for _, b := range ig.Block {
			if m := chk("block field "+b.Name, b.Filter.Ref); m != "" {
				return m
			}
		}
	}
	return ""
}

// depParam: a marker planted in a "dependencies" list must ARRIVE at the database — as a
// statement parameter (latestDependency binds the list), never as text (the text oracle).
func depParam(c *lib.Case, d desc, marker *cfg.Marker, ran bool, params []string) {
	if marker == nil || !ran || !c.OracleOK || !strings.Contains(d.Path, "/dependencies/") {
		return
	}
	for _, p := range params {
		if p == marker.S {
			return
		}
	}
	c.OracleOK = false
	c.OracleMsg = fmt.Sprintf("the dependency name %q did not arrive at the database as a statement parameter", marker.S)
}

func seedSources(seed string) []shconfig.Source {
	var r shconfig.Root
	json.Unmarshal([]byte(cfg.Seeds[seed]), &r)
	return r.Sources
}

var dashEnv *cfg.DashEnv

func dashCase(d desc, doc string, marker *cfg.Marker) lib.Case {
	igDoc, err := cfg.Sub(doc, fmt.Sprintf("integrations/%d", d.Ig))
	if err != nil {
		return lib.Case{Desc: d, Kind: d.Stream + "/decode-error", OracleOK: true}
	}
	srcs := seedSources(d.Seed)
	var names []string
	for _, s := range srcs {
		names = append(names, s.Name)
	}
	coq, o := dashEnv.Run(igDoc, srcs)
	// statements that went through the pool (insert, loads, set application_name, cursor reads)
	// are searched for the markers as well; `set application_name` is compared with the model
	c := finish(d, "CDash "+cfg.CClasses(igDoc)+" "+cfg.CStrs(names)+" "+coq, o.Obs, marker, o.AllSQL...)
	if c.Coq != "" {
		deps := "[]"
		if o.Stored {
			deps = cfg.CDeps(o.Loaded)
		}
		c.Coq += " " + coqTexts(o.AppNames) + " " + deps
	}
	if o.Hung {
		c.OracleOK = false
		c.OracleMsg = "Manager.Run did not return: a task of the stored integration never ended"
	}
	depParam(&c, d, marker, o.Stored, o.Params)
	return c
}

// srcCase: web.SaveSource with the marker as source name while an integration
// of the seed that refers to a source of that name is stored.
func srcCase(d desc, marker *cfg.Marker) lib.Case {
	name := ""
	if marker != nil {
		name = marker.S
	}
	igDoc, err := cfg.Sub(cfg.Seeds[d.Seed], fmt.Sprintf("integrations/%d", d.Ig))
	if err == nil {
		igDoc, err = cfg.ReplaceAt(igDoc, "sources/0/name", name)
	}
	if err != nil {
		return lib.Case{Desc: d, Kind: "src/decode-error", OracleOK: true}
	}
	coq, o := dashEnv.RunSource(name, igDoc)
	c := finish(d, "CSrc "+cfg.CClasses(igDoc, name)+" "+cfg.CRunes(name)+" "+coq, o.Obs, marker, o.AllSQL...)
	if c.Coq != "" {
		apps := append([]string{}, o.AppNames...)
		sort.Strings(apps)
		store := append([]string{}, o.Store...)
		sort.Strings(store)
		quiet := "false"
		if o.Quiet {
			quiet = "true"
		}
		c.Coq += " " + coqTexts(apps) + " " + coqTexts(store) + " " + quiet
	}
	if marker != nil && marker.Hostile && !o.Quiet && c.OracleOK {
		c.OracleOK = false
		c.OracleMsg = fmt.Sprintf("SaveSource with the name %q (outside the alphabet) did not stop at the check: %d statement(s) reached the database, first: %q", name, len(o.AllSQL), o.AllSQL[0])
		c.Size += 50000 // a failure that shows the SQL text the name reached is the preferred replay
	}
	if o.Hung {
		c.OracleOK = false
		c.OracleMsg = "Manager.Run did not return after SaveSource"
	}
	if o.Err != "" && c.OracleOK {
		c.OracleOK = false
		c.OracleMsg = "SaveSource path: " + o.Err
	}
	return c
}

func numIgs(seed string) int {
	var r shconfig.Root
	json.Unmarshal([]byte(cfg.Seeds[seed]), &r)
	return len(r.Integrations)
}

// one case from its description (generation and replay share this)
func build(d desc) (lib.Case, error) {
	if d.Stream == "class" {
		return classCase(), nil
	}
	if d.Stream == "safe" {
		b, err := hex.DecodeString(d.Hex)
		if err != nil {
			return lib.Case{}, err
		}
		return safeCase(string(b)), nil
	}
	seed, ok := cfg.Seeds[d.Seed]
	if !ok {
		return lib.Case{}, fmt.Errorf("unknown seed %q", d.Seed)
	}
	var marker *cfg.Marker
	doc := seed
	if d.Marker >= 0 {
		if d.Marker >= len(cfg.Markers) {
			return lib.Case{}, fmt.Errorf("unknown marker %d", d.Marker)
		}
		marker = &cfg.Markers[d.Marker]
		d.Text = marker.S
		var err error
		switch d.Stream {
		case "file-pos", "dash-pos":
			doc, err = cfg.ReplaceAt(seed, d.Path, marker.S)
		case "file-rename", "dash-rename":
			doc, err = cfg.ReplaceAll(seed, d.Path, marker.S)
		}
		if err != nil {
			return lib.Case{}, err
		}
	}
	switch d.Stream {
	case "seed", "file-pos", "file-rename":
		return fileCase(d, doc, marker), nil
	case "dash-seed", "dash-pos", "dash-rename":
		return dashCase(d, doc, marker), nil
	case "src":
		return srcCase(d, marker), nil
	}
	return lib.Case{}, fmt.Errorf("unknown stream %q", d.Stream)
}

// identifiers worth renaming consistently: every string that occurs at a
// name-like key
func identifiers(seed string) []string {
	pos, _ := cfg.Positions(cfg.Seeds[seed])
	seen := map[string]bool{}
	var out []string
	for _, p := range pos {
		k := p.Path[strings.LastIndex(p.Path, "/")+1:]
		switch k {
		case "name", "column", "integration", "table":
		default:
			if !strings.Contains(p.Path, "/unique/") && !strings.Contains(p.Path, "/index/") && !strings.Contains(p.Path, "/columns/") {
				continue
			}
		}
		v := strings.TrimSuffix(strings.TrimSuffix(p.Value, " asc"), " desc")
		if strings.Contains(p.Path, "/event/") && k == "name" {
			continue // event and input names are not identifiers of the database
		}
		if !seen[v] && v != "" {
			seen[v] = true
			out = append(out, v)
		}
	}
	return out
}

// thoroughSubset: positions that no statement names (urls, filter operators and arguments,
// event and input names and ABI types) get the basic markers and a third of the others in the
// thorough tier.
func thoroughSubset(ms []int) []int {
	var out []int
	for _, m := range ms {
		if m < 8 || m%3 == 0 {
			out = append(out, m)
		}
	}
	return out
}

// identifierLike: the position is a name, column, table, integration reference,
// column type, unique/index/notification entry — something a statement may
// name.  The others (urls, filter operators and arguments, event and input
// names and ABI types) get one marker per position in the quick tier.
func identifierLike(path string) bool {
	k := path[strings.LastIndex(path, "/")+1:]
	switch {
	case strings.Contains(path, "/filter_arg/"), k == "url", k == "pg_url", k == "filter_op", strings.Contains(path, "/urls/"):
		return false
	case strings.Contains(path, "/event/") && (k == "name" || k == "type"):
		return false
	}
	return true
}

func run(c lib.Cfg) error {
	slog.SetDefault(slog.New(slog.NewTextHandler(io.Discard, nil)))
	out := lib.NewOut("C15", c.Out, header, "run", 300)
	out.Rule = "the configuration decoded and was either rejected by validation or the planted marker occurs in at least one SQL text"
	if c.Replay != "" {
		env, err := cfg.NewDashEnv()
		if err != nil {
			return err
		}
		dashEnv = env
		defer env.Close()
		raw, err := os.ReadFile(c.Replay)
		if err != nil {
			return err
		}
		var rep struct {
			FailingInput *struct {
				Desc desc `json:"desc"`
			} `json:"failing_input"`
		}
		if err := json.Unmarshal(raw, &rep); err != nil {
			return err
		}
		out.Add(classCase())
		if rep.FailingInput != nil {
			cs, err := build(rep.FailingInput.Desc)
			if err != nil {
				return err
			}
			if cs.Coq != "" {
				out.Add(cs)
			}
			fmt.Printf("replayed %+v: oracle_ok=%v %s\n", rep.FailingInput.Desc, cs.OracleOK, cs.OracleMsg)
		}
		return out.Flush()
	}
	env, err := cfg.NewDashEnv()
	if err != nil {
		return fmt.Errorf("starting the fake Postgres for the dashboard path: %w", err)
	}
	dashEnv = env
	defer env.Close()
	rng := lib.NewRNG(c.Seed)
	var descs []desc
	descs = append(descs, desc{Stream: "class", Marker: -1})
	// how many markers per position: all in the thorough tier; in the quick tier
	// the six basic ones on every position plus two of the others chosen by the seed
	var k int
	idxPos := false // the position is a table.index entry: every marker, also in the quick tier
	// the hostile slot alternates between the four basic hostile markers and the hostile markers
	// with a non-ASCII prefix (the last marker of the list is the accepted one of that family)
	hostile := func() int {
		k++
		if k%2 == 0 {
			n := len(cfg.Markers) - 1 - cfg.FirstUniMarker
			return cfg.FirstUniMarker + (k/2)%n
		}
		return (k / 2) % 4
	}
	accepted := func() int {
		safe := []int{4, 5, 7, 17, len(cfg.Markers) - 1}
		return safe[k%len(safe)]
	}
	pick := func() []int {
		if !c.Thorough() && idxPos {
			// quick tier, index entry: the three usual markers and every index-entry marker
			ms := []int{hostile(), accepted(), rng.Intn(cfg.FirstIdxMarker)}
			for i := cfg.FirstIdxMarker; i < cfg.FirstUniMarker; i++ {
				ms = append(ms, i)
			}
			return ms
		}
		if c.Thorough() {
			var ms []int
			for i, m := range cfg.Markers {
				// ` desc` and `desc` also occur in constant statements (`order by num desc`):
				// they are planted at index positions only, where the verdict is about acceptance
				if idxPos || strings.Contains(m.S, "zq") {
					ms = append(ms, i)
				}
			}
			return ms
		}
		// one hostile marker, one accepted marker, one of the first markers chosen by the seed
		return []int{hostile(), accepted(), rng.Intn(cfg.FirstIdxMarker)}
	}
	// consistent renames: two markers in the quick tier (one hostile, one accepted)
	pickRename := func() []int {
		ms := pick()
		if !c.Thorough() && len(ms) > 2 {
			ms = ms[:2]
		}
		return ms
	}
	npos := 0
	for _, seed := range cfg.SeedOrder {
		descs = append(descs, desc{Stream: "seed", Seed: seed, Marker: -1})
		pos, err := cfg.Positions(cfg.Seeds[seed])
		if err != nil {
			return err
		}
		npos += len(pos)
		for _, p := range pos {
			idxPos = strings.Contains(p.Path, "/index/")
			ms := pick()
			if !c.Thorough() && !idxPos && !identifierLike(p.Path) {
				ms = ms[:1] // quick tier: one (hostile) marker on positions that no statement names
			}
			if c.Thorough() && !idxPos && !identifierLike(p.Path) {
				ms = thoroughSubset(ms)
			}
			for _, m := range ms {
				descs = append(descs, desc{Stream: "file-pos", Seed: seed, Path: p.Path, Marker: m})
			}
			idxPos = false
		}
		for _, id := range identifiers(seed) {
			for _, m := range pickRename() {
				descs = append(descs, desc{Stream: "file-rename", Seed: seed, Path: id, Marker: m})
			}
		}
		for ig := 0; ig < numIgs(seed); ig++ {
			descs = append(descs, desc{Stream: "dash-seed", Seed: seed, Marker: -1, Ig: ig})
			pre := fmt.Sprintf("integrations/%d/", ig)
			for _, p := range pos {
				if !strings.HasPrefix(p.Path, pre) {
					continue
				}
				idxPos = strings.Contains(p.Path, "/index/")
				ms := pick()
				if !c.Thorough() && !idxPos {
					ms = ms[:2] // quick tier: one hostile and one accepted marker per dashboard position
					if !identifierLike(p.Path) {
						ms = ms[:1]
					}
				}
				if c.Thorough() && !idxPos && !identifierLike(p.Path) {
					ms = thoroughSubset(ms)
				}
				for _, m := range ms {
					descs = append(descs, desc{Stream: "dash-pos", Seed: seed, Path: p.Path, Marker: m, Ig: ig})
				}
				idxPos = false
			}
			for _, id := range identifiers(seed) {
				for q, m := range pickRename() {
					if c.Thorough() && (q+ig)%2 == 1 {
						continue // thorough tier: the dashboard renames take every second marker, alternating by integration
					}
					descs = append(descs, desc{Stream: "dash-rename", Seed: seed, Path: id, Marker: m, Ig: ig})
				}
			}
		}
	}
	// wstrings.Safe itself against the per-rune model
	for _, str := range safeStrings(c.Thorough()) {
		descs = append(descs, desc{Stream: "safe", Marker: -1, Hex: hex.EncodeToString([]byte(str))})
	}
	// web.SaveSource: every distinctive marker (and the empty name) as source name
	for _, sd := range []struct {
		seed string
		ig   int
	}{{"erc20", 0}, {"txtrace", 0}} {
		descs = append(descs, desc{Stream: "src", Seed: sd.seed, Ig: sd.ig, Marker: -1, Path: "save-source/name"})
		for m := range cfg.Markers {
			if strings.Contains(cfg.Markers[m].S, "zq") {
				descs = append(descs, desc{Stream: "src", Seed: sd.seed, Ig: sd.ig, Marker: m, Path: "save-source/name"})
			}
		}
	}
	for _, d := range descs {
		cs, err := build(d)
		if err != nil {
			return fmt.Errorf("%+v: %w", d, err)
		}
		if cs.Coq == "" {
			out.Count(cs.Kind)
			continue
		}
		out.Add(cs)
	}
	out.Notes["string_positions"] = npos
	out.Notes["seeds"] = cfg.SeedOrder
	out.Notes["markers"] = len(cfg.Markers)
	out.Notes["file_path_wire"] = "every accepted file configuration is also run against harness/fakepg through a pgxpool: shovel.Schema, config.Migrate, loadTasks/NewTask, one Task.Converge per task on a scripted source; every statement on the wire is searched for the markers, `set application_name` is compared with the model, statements on shovel.task_updates must be the constants of shovel/task.go"
	out.Notes["dashboard_path"] = "the real web.Handler.SaveIntegration against harness/fakepg through a pgxpool: CheckUserInput, insert, Manager.Restart, loadTasks, NewTask (`set application_name` observed on the wire), config.Integrations; Delete/Accept/COPY/notify of the loaded integration through the Go-level fake wpg.Conn"
	return out.Flush()
}

func main() { lib.Main(run) }
