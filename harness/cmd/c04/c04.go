// Driver of property C04: tasks are isolated.  2-4 tasks built by loadTasks
// (names come from the task context exactly as in production): shared or
// separate destination tables, one or two sources, same or different events
// and address filters.  Their steps are interleaved at STATEMENT granularity
// through the fake database's gate, with reorgs (unwind deletions) and
// process restarts in between.  The committed database is recorded after
// every statement.  Oracle: a statement of task t never changes the cursors
// or rows (values and row identities) of any other (source, integration)
// pair; every copied row and inserted cursor is stamped with t's own names.
package main

import (
	"fmt"
	"strings"

	"verif/harness/lib"
	ts "verif/harness/tasksim"
)

func run(cfg lib.Cfg) error {
	out := lib.NewOut("C04", cfg.Out, ts.Header(4), "run", 6)
	out.Rule = "non-trivial = at least two tasks converged at least once each and some step of one task overlapped an open step of another"
	judge := func(sc *ts.Scenario, kind string) {
		ts.Judge(out, sc, kind, func(r *ts.Run) []string {
			msgs := append(append(r.IsolationOracle(), r.InvOracle()...), r.GetLimitOracle()...)
			if strings.HasPrefix(kind, "corpus-same-event") {
				// growth-only family: every row sits on a log its OWN declaration accepts
				msgs = append(r.ForeignLogOracle(), msgs...)
			}
			return msgs
		}, func(r *ts.Run) bool {
			conv := map[int]bool{}
			for _, s := range r.Steps {
				if s.Outcome == "OConverged" {
					conv[s.Tid] = true
				}
			}
			open := map[int]bool{}
			overlap := false
			for _, e := range r.W.Rec.Events {
				switch e.Kind {
				case "start":
					if len(open) > 0 {
						overlap = true
					}
					open[e.Tid] = true
				case "end":
					delete(open, e.Tid)
				case "crash":
					open = map[int]bool{}
				}
			}
			return len(conv) >= 2 && overlap
		})
	}
	if cfg.Replay != "" {
		sc, kind, err := ts.ReplayScenario(cfg.Replay)
		if err != nil {
			return err
		}
		judge(sc, kind)
		return out.Flush()
	}
	r := lib.NewRNG(cfg.Seed)
	// corpus: two integrations with DIFFERENT log filters on one real jrpc2.Client, both with
	// a cached header plan, reading the same segments; transactions emit logs for both in
	// both index orders (Transfer and Created logs are mixed inside a transaction); each
	// load order.  What one task attaches to the shared cached blocks must not make a log
	// of the other disappear: each pair's rows = the rows it produces alone.
	for v := 0; v < 4; v++ {
		sc := &ts.Scenario{Name: fmt.Sprintf("corpus-shared-client-filters-%d", v), Seed: uint64(81 + v), Head: 8, SnapEvery: true, Real: true,
			Gen:  ts.GenOpts{MaxTxs: 2, MaxLogs: 4, Created: true, Decoys: true, EmptyProb: 0},
			Srcs: []ts.SrcSpec{{Name: "main", ChainID: 1, Batch: 3, Conc: 1 + v%2, URL: "http://main.invalid"}},
			IGs: []ts.IGSpec{
				{Name: "ig1", Shape: "log", Table: "t1", AddrFlt: v >= 2, Sources: []ts.SrcRef{{Name: "main", Start: 1}}},
				{Name: "ig2", Shape: "created", Table: "t2", Hdr: true, Sources: []ts.SrcRef{{Name: "main", Start: 1}}},
			}}
		order := [][2]int{{2, 1}, {1, 2}}[v%2]
		for k := 0; k < 5; k++ {
			if k == 2 {
				order = [2]int{order[1], order[0]} // the other load order for the later segments
			}
			if v >= 2 {
				// statement-level: the second task loads while the first one's step is still open
				sc.Acts = append(sc.Acts, ts.Act{Do: "advuntil", Tid: order[0], Call: "Commit"}, ts.Act{Do: "advuntil", Tid: order[1], Call: "Commit"}, ts.Act{Do: "drain"})
			} else {
				sc.Acts = append(sc.Acts, ts.Act{Do: "step", Tid: order[0]}, ts.Act{Do: "step", Tid: order[1]})
			}
		}
		sc.Acts = append(sc.Acts, ts.Act{Do: "drain"})
		judge(sc, "corpus-shared-client-filters")
	}
	// corpus: ONE integration listed on TWO sources (two tasks, one table, one declaration) with
	// a non-indexed event input and a reference lookup on an earlier input.  The chains of
	// the two sources carry different values at the same positions.  One task's insert is
	// held at its first reference lookup (between decoding a log and reading the decoded
	// values) while the other task's whole step runs; then the roles are swapped.
	for v := 0; v < 3; v++ {
		sc := &ts.Scenario{Name: fmt.Sprintf("corpus-one-integration-two-sources-%d", v), Seed: uint64(85 + v), Head: 9, SnapEvery: true,
			Gen: ts.GenOpts{MaxTxs: 2, MaxLogs: 4, Created: true, EmptyProb: 0},
			Srcs: []ts.SrcSpec{{Name: "alt", ChainID: 10, Batch: 3, Conc: 1, URL: "http://alt.invalid"},
				{Name: "main", ChainID: 1, Batch: 3, Conc: 1, URL: "http://main.invalid"}},
			IGs: []ts.IGSpec{
				{Name: "a-dep", Shape: "dep", Table: "d1", Ref: "r-one", RefLo: 1, Sources: []ts.SrcRef{{Name: "alt", Start: 1}, {Name: "main", Start: 1}}},
				{Name: "r-one", Shape: "created", Table: "r1", Sources: []ts.SrcRef{{Name: "alt", Start: 1}, {Name: "main", Start: 1}}},
			}}
		// tasks: 1 = a-dep@alt, 2 = a-dep@main, 3 = r-one@alt, 4 = r-one@main; the references run ahead
		for k := 0; k < 3; k++ {
			sc.Acts = append(sc.Acts, ts.Act{Do: "step", Tid: 3}, ts.Act{Do: "step", Tid: 4})
		}
		for k := 0; k < 3; k++ {
			a, b := 1, 2
			if (k+v)%2 == 1 {
				a, b = 2, 1
			}
			sc.Acts = append(sc.Acts, ts.Act{Do: "advuntil", Tid: a, Call: "QRef"}, ts.Act{Do: "step", Tid: b}, ts.Act{Do: "drain"})
		}
		sc.Acts = append(sc.Acts, ts.Act{Do: "step", Tid: 1}, ts.Act{Do: "step", Tid: 2})
		judge(sc, "corpus-one-integration-two-sources")
	}
	// corpus: an integration saved TWICE under one name in shovel.integrations (no unique
	// index; a dashboard save repeated), identical rows or rows with different filters, next
	// to an integration from the file.  loadTasks must build one task per (source,
	// integration) pair; the loaded tasks are stepped round-robin and each position may only
	// advance by the task's own consecutive loads.
	for v := 0; v < 2; v++ {
		sc := &ts.Scenario{Name: fmt.Sprintf("corpus-integration-saved-twice-%d", v), Seed: uint64(88 + v), Head: 8, SnapEvery: true,
			Gen:  ts.GenOpts{MaxTxs: 2, MaxLogs: 3, Decoys: true, EmptyProb: 10},
			Srcs: []ts.SrcSpec{{Name: "main", ChainID: 1, Batch: 2, Conc: 1, URL: "http://main.invalid"}},
			IGs: []ts.IGSpec{
				{Name: "ig1", Shape: "log", Table: "t1", Sources: []ts.SrcRef{{Name: "main", Start: 1}}},
				{Name: "ig2", Shape: "tx", Table: "t2", Sources: []ts.SrcRef{{Name: "main", Start: 1}}},
			},
			DBRows: []ts.DBRow{{Name: "ig1", Copies: 2, FirstDiffers: v == 1}}}
		for k := 0; k < 6; k++ {
			sc.Acts = append(sc.Acts, ts.Act{Do: "stepall"})
			if k == 2 {
				sc.Acts = append(sc.Acts, ts.Act{Do: "restart"})
			}
		}
		judge(sc, "corpus-integration-saved-twice")
	}
	// corpus: two integrations on ONE source with the SAME event signature and DIFFERENT positive
	// log_addr filters (token vs the other contract), through one real caching client, header
	// plans (block_time) or block plans (tx_value): both read the same cached segments, so the
	// second reader finds the sibling's logs attached to the shared blocks.  Each table holds
	// exactly the rows its OWN declaration accepts (the address is checked per log, whatever
	// was pushed into eth_getLogs).  Both step orders, alternating, statement-level overlap,
	// concurrency 1-2, separate tables and one shared table.
	for v, c := range []struct {
		blockPlan, shared bool
		order             int // 0: ig1 first, 1: ig2 first, 2: alternating, 3: statement-level overlap
	}{
		{false, false, 0}, {false, false, 1}, {true, false, 0}, {true, false, 1},
		{false, true, 2}, {true, true, 2}, {false, false, 3}, {true, false, 3},
	} {
		t2 := "t2"
		if c.shared {
			t2 = "t1"
		}
		sc := &ts.Scenario{Name: fmt.Sprintf("corpus-same-event-different-addresses-%d", v), Seed: uint64(120 + v), Head: 9, SnapEvery: true, Real: true,
			Gen:  ts.GenOpts{MaxTxs: 2, MaxLogs: 4, Decoys: true, EmptyProb: 0, OtherEvery: 2},
			Srcs: []ts.SrcSpec{{Name: "main", ChainID: 1, Batch: 3, Conc: 1 + v%2, URL: "http://main.invalid"}},
			IGs: []ts.IGSpec{
				{Name: "ig1", Shape: "log", Table: "t1", AddrFlt: true, TxVal: c.blockPlan, Sources: []ts.SrcRef{{Name: "main", Start: 1}}},
				{Name: "ig2", Shape: "log", Table: t2, AddrFlt: true, AddrOther: true, TxVal: c.blockPlan, Sources: []ts.SrcRef{{Name: "main", Start: 1}}},
			}}
		for k := 0; k < 4; k++ {
			a, b := 1, 2
			if c.order == 1 || (c.order >= 2 && k%2 == 1) {
				a, b = 2, 1
			}
			if c.order == 3 {
				sc.Acts = append(sc.Acts, ts.Act{Do: "advuntil", Tid: a, Call: "Commit"}, ts.Act{Do: "advuntil", Tid: b, Call: "Commit"}, ts.Act{Do: "drain"})
			} else {
				sc.Acts = append(sc.Acts, ts.Act{Do: "step", Tid: a}, ts.Act{Do: "step", Tid: b})
			}
		}
		sc.Acts = append(sc.Acts, ts.Act{Do: "drain"})
		judge(sc, "corpus-same-event-different-addresses")
	}
	// corpus: two integrations on one source through ONE real caching client, same plan kind,
	// different address filters, both at the same position; A asks for the full batch, B's
	// range ends inside that batch (stop), so B's request has the same start and a SHORTER
	// limit.  B must get exactly its blocks with ITS logs: blocks of A's longer cached segment
	// carry only A's logs - B would record their number without its rows.  A first / B first,
	// header plan and block plan, concurrency 1-2, fresh start and a recorded position.
	for v, c := range []struct {
		batch, conc int
		stop        uint64
		blockPlan   bool
		aFirst      bool
	}{
		{5, 1, 3, false, true}, {5, 1, 3, true, true}, {6, 2, 5, false, true}, {6, 2, 5, true, true},
		{5, 1, 2, false, false}, {4, 1, 3, true, true},
	} {
		sc := &ts.Scenario{Name: fmt.Sprintf("corpus-shorter-limit-same-start-%d", v), Seed: uint64(140 + v), Head: 10, SnapEvery: true, Real: true,
			Gen:  ts.GenOpts{MaxTxs: 2, MaxLogs: 4, Decoys: true, EmptyProb: 0, OtherEvery: 2},
			Srcs: []ts.SrcSpec{{Name: "main", ChainID: 1, Batch: c.batch, Conc: c.conc, URL: "http://main.invalid"}},
			IGs: []ts.IGSpec{
				{Name: "a-open", Shape: "log", Table: "t1", AddrFlt: true, TxVal: c.blockPlan, Sources: []ts.SrcRef{{Name: "main", Start: 1}}},
				{Name: "b-bounded", Shape: "log", Table: "t2", AddrFlt: true, AddrOther: true, TxVal: c.blockPlan, Sources: []ts.SrcRef{{Name: "main", Start: 1, Stop: c.stop}}},
			}}
		a, b := 1, 2
		if !c.aFirst {
			a, b = 2, 1
		}
		for k := 0; k < 3; k++ {
			sc.Acts = append(sc.Acts, ts.Act{Do: "step", Tid: a}, ts.Act{Do: "step", Tid: b})
		}
		judge(sc, "corpus-shorter-limit-same-start")
	}
	// corpus: a configuration whose table.columns ALREADY lists stamp columns (ig_name,
	// src_name, ...) without block entries for them - written from the schema of an existing
	// table.  Through the real ValidateFix every row must still be stamped with the pair that
	// produced it: two integrations share a table (or not), both index, a reorg makes each
	// unwind; no row may be left that belongs to nobody.
	for v, c := range []struct {
		shape  string
		shared bool
		pre    []string
	}{
		{"log", true, []string{"ig_name", "src_name"}},
		{"log", true, []string{"src_name"}},
		{"tx", false, []string{"ig_name", "src_name", "block_num", "tx_idx"}},
		{"log", true, []string{"ig_name", "block_num", "log_idx"}},
	} {
		t2 := "t2"
		if c.shared {
			t2 = "t1"
		}
		sc := &ts.Scenario{Name: fmt.Sprintf("corpus-stamp-columns-predeclared-%d", v), Seed: uint64(90 + v), Head: 8, SnapEvery: true,
			Gen:  ts.GenOpts{MaxTxs: 2, MaxLogs: 3, Decoys: true, EmptyProb: 0},
			Srcs: []ts.SrcSpec{{Name: "main", ChainID: 1, Batch: 2, Conc: 1, URL: "http://main.invalid"}},
			IGs: []ts.IGSpec{
				{Name: "ig1", Shape: c.shape, Table: "t1", AddrFlt: c.shape == "log", PreCols: c.pre, Sources: []ts.SrcRef{{Name: "main", Start: 1}}},
				{Name: "ig2", Shape: c.shape, Table: t2, Sources: []ts.SrcRef{{Name: "main", Start: 1}}},
			}}
		for k := 0; k < 4; k++ {
			sc.Acts = append(sc.Acts, ts.Act{Do: "step", Tid: 1}, ts.Act{Do: "step", Tid: 2})
		}
		sc.Acts = append(sc.Acts, ts.Act{Do: "reorg", Fork: 6, Len: 4})
		// ig1 unwinds and re-indexes while ig2's step is open, then the other way round
		sc.Acts = append(sc.Acts, ts.Act{Do: "advuntil", Tid: 2, Call: "Commit"}, ts.Act{Do: "step", Tid: 1}, ts.Act{Do: "drain"})
		for k := 0; k < 4; k++ {
			sc.Acts = append(sc.Acts, ts.Act{Do: "step", Tid: 1}, ts.Act{Do: "step", Tid: 2})
		}
		judge(sc, "corpus-stamp-columns-predeclared")
	}
	n := 30
	if cfg.Thorough() {
		n = 1500
	}
	shapes := []string{"log", "tx", "trace", "lognh", "log"}
	for i := 0; i < n; i++ {
		twoSrc := r.Intn(3) == 0
		srcs := []ts.SrcSpec{{Name: "main", ChainID: 1, Batch: r.Range(1, 4), Conc: r.Range(1, 3), URL: "http://main.invalid"}}
		if twoSrc {
			srcs = append(srcs, ts.SrcSpec{Name: "alt", ChainID: 10, Batch: r.Range(1, 4), Conc: r.Range(1, 3), URL: "http://alt.invalid"})
		}
		nig := r.Range(2, 3)
		if twoSrc {
			nig = 2
		}
		shared := r.Intn(2) == 0
		kind := "separate-tables"
		var igs []ts.IGSpec
		for k := 0; k < nig; k++ {
			ig := ts.IGSpec{Name: fmt.Sprintf("ig%d", k+1), Shape: lib.Pick(r, shapes), Table: fmt.Sprintf("t%d", k+1)}
			if shared {
				// same shape, one table; different address filters
				ig.Shape, ig.Table, ig.AddrFlt = "log", "shared", k%2 == 0
				kind = "shared-table"
			}
			if r.Intn(6) == 0 {
				// the user's table.columns already lists some of the stamp columns
				ig.PreCols = [][]string{{"ig_name", "src_name"}, {"src_name"}, {"ig_name"}, {"ig_name", "src_name", "block_num"}}[r.Intn(4)]
			}
			ig.Sources = []ts.SrcRef{{Name: "main", Start: uint64(r.Range(1, 2))}}
			if twoSrc && (k == 0 || r.Bool()) {
				ig.Sources = append(ig.Sources, ts.SrcRef{Name: "alt", Start: 1})
			}
			igs = append(igs, ig)
		}
		if twoSrc {
			kind += "-two-sources"
		}
		ntasks := 0
		for _, ig := range igs {
			ntasks += len(ig.Sources)
		}
		if ntasks > 4 {
			continue
		}
		sc := &ts.Scenario{Name: fmt.Sprintf("iso-%d", i), Seed: r.U64() % 1_000_000, Head: r.Range(4, 8), SnapEvery: true,
			Gen: ts.GenOpts{MaxTxs: 2, MaxLogs: 3, Traces: true, Decoys: true, EmptyProb: 10}, Srcs: srcs, IGs: igs}
		if r.Intn(4) == 0 {
			// the tasks of a source share ONE real jrpc2.Client: cached header/block
			// segments are the same objects for all of them and logs fetched for
			// different filters are merged into the same cached blocks
			sc.Real = true
			sc.Gen.Created = true
			kind += "-shared-client"
			if !shared {
				// another event from the same transactions: logs of two filters interleave inside a transaction
				sc.IGs[len(sc.IGs)-1].Shape, sc.IGs[len(sc.IGs)-1].Hdr = "created", true
			}
			for k := range sc.IGs {
				if sc.IGs[k].Shape == "trace" {
					sc.IGs[k].Shape = "tx"
				}
			}
		}
		head := map[string]int{"main": sc.Head, "alt": sc.Head}
		for k := r.Range(60, 140); k > 0; k-- {
			switch x := r.Intn(40); {
			case x == 0:
				src := "main"
				if twoSrc && r.Bool() {
					src = "alt"
				}
				f := r.Range(1, head[src])
				l := max(1, head[src]-f+1+r.Range(-1, 2))
				sc.Acts = append(sc.Acts, ts.Act{Do: "reorg", Src: src, Fork: uint64(f), Len: l})
				head[src] = f - 1 + l
			case x == 1:
				src := "main"
				if twoSrc && r.Bool() {
					src = "alt"
				}
				g := r.Range(1, 3)
				sc.Acts = append(sc.Acts, ts.Act{Do: "grow", Src: src, K: g})
				head[src] += g
			case x == 2:
				sc.Acts = append(sc.Acts, ts.Act{Do: "drain"}, ts.Act{Do: "restart"})
			default:
				sc.Acts = append(sc.Acts, ts.Act{Do: "adv", Tid: 1 + r.Intn(ntasks)})
			}
		}
		sc.Acts = append(sc.Acts, ts.Act{Do: "drain"})
		judge(sc, kind)
	}
	return out.Flush()
}
