// c14-translate regenerates, from the repository given by -repo,
//
//	coq/Gen/GlfTables.v  the five []string tables of shovel/glf/filter.go and the
//	                     sequence of `if any(needs, X) { f.UseY = true; needs = difference(needs, Z) }`
//	                     blocks of glf.New, in source order
//	coq/Gen/GetFields.v  the case labels of dig.logWithCtx.get with the item each
//	                     one reads (ctx / header / tx / receipt / log / trace) and the
//	                     accessor expression
//
// It refuses (exit 2, "shape changed") when the source no longer has the
// syntactic shape it understands.  go/ast only; no type checking, no network.
package main

import (
	"flag"
	"fmt"
	"go/ast"
	"go/parser"
	"go/printer"
	"go/token"
	"os"
	"path/filepath"
	"sort"
	"strconv"
	"strings"
)

func die(format string, a ...any) {
	fmt.Fprintf(os.Stderr, "c14-translate: shape changed: "+format+"\n", a...)
	os.Exit(2)
}

func parse(fset *token.FileSet, path string) *ast.File {
	f, err := parser.ParseFile(fset, path, nil, 0)
	if err != nil {
		die("cannot parse %s: %v", path, err)
	}
	return f
}

func coqStr(s string) string { return `"` + strings.ReplaceAll(s, `"`, `""`) + `"` }

func coqStrList(xs []string) string {
	q := make([]string, len(xs))
	for i, x := range xs {
		q[i] = coqStr(x)
	}
	return "[" + strings.Join(q, "; ") + "]"
}

var tableCtor = map[string]string{"header": "THeader", "block": "TBlock", "receipt": "TReceipt", "log": "TLog", "trace": "TTrace"}
var flagCtor = map[string]string{"UseHeaders": "FHeaders", "UseBlocks": "FBlocks", "UseReceipts": "FReceipts", "UseLogs": "FLogs", "UseTraces": "FTraces"}

func exprString(fset *token.FileSet, e ast.Expr) string {
	var sb strings.Builder
	printer.Fprint(&sb, fset, e)
	return sb.String()
}

// ---- shovel/glf/filter.go
func glf(repo string) string {
	fset := token.NewFileSet()
	f := parse(fset, filepath.Join(repo, "shovel/glf/filter.go"))
	tables := map[string][]string{}
	var newFn *ast.FuncDecl
	for _, d := range f.Decls {
		switch d := d.(type) {
		case *ast.GenDecl:
			if d.Tok != token.VAR {
				continue
			}
			for _, sp := range d.Specs {
				vs := sp.(*ast.ValueSpec)
				for i, n := range vs.Names {
					if _, want := tableCtor[n.Name]; !want || i >= len(vs.Values) {
						continue
					}
					cl, ok := vs.Values[i].(*ast.CompositeLit)
					if !ok {
						die("table %s is not a composite literal", n.Name)
					}
					var names []string
					for _, el := range cl.Elts {
						bl, ok := el.(*ast.BasicLit)
						if !ok || bl.Kind != token.STRING {
							die("table %s has a non-literal element", n.Name)
						}
						s, _ := strconv.Unquote(bl.Value)
						names = append(names, s)
					}
					tables[n.Name] = names
				}
			}
		case *ast.FuncDecl:
			if d.Name.Name == "New" && d.Recv == nil {
				newFn = d
			}
		}
	}
	for t := range tableCtor {
		if _, ok := tables[t]; !ok {
			die("table %s not found in glf/filter.go", t)
		}
	}
	if newFn == nil {
		die("glf.New not found")
	}
	// the if-blocks of New
	tname := func(e ast.Expr) string {
		id, ok := e.(*ast.Ident)
		if !ok || tableCtor[id.Name] == "" {
			die("glf.New: %s is not one of the five tables", exprString(fset, e))
		}
		return tableCtor[id.Name]
	}
	var steps []string
	for _, st := range newFn.Body.List {
		ifs, ok := st.(*ast.IfStmt)
		if !ok {
			continue
		}
		call, ok := ifs.Cond.(*ast.CallExpr)
		if !ok || exprString(fset, call.Fun) != "any" || len(call.Args) != 2 || exprString(fset, call.Args[0]) != "needs" || ifs.Else != nil || ifs.Init != nil {
			die("glf.New: condition %s is not any(needs, X)", exprString(fset, ifs.Cond))
		}
		var base string
		var minus []string
		switch x := call.Args[1].(type) {
		case *ast.Ident:
			base = tname(x)
		case *ast.CallExpr:
			if exprString(fset, x.Fun) != "difference" || len(x.Args) < 1 {
				die("glf.New: %s is not difference(table, tables...)", exprString(fset, x))
			}
			base = tname(x.Args[0])
			for _, a := range x.Args[1:] {
				minus = append(minus, tname(a))
			}
		default:
			die("glf.New: unexpected test set %s", exprString(fset, call.Args[1]))
		}
		var flg, remove string
		for _, b := range ifs.Body.List {
			as, ok := b.(*ast.AssignStmt)
			if !ok || len(as.Lhs) != 1 || len(as.Rhs) != 1 {
				die("glf.New: unexpected statement in if-block: %s", exprString(fset, ifs.Cond))
			}
			lhs := exprString(fset, as.Lhs[0])
			switch {
			case strings.HasPrefix(lhs, "f.Use"):
				if exprString(fset, as.Rhs[0]) != "true" || flagCtor[strings.TrimPrefix(lhs, "f.")] == "" {
					die("glf.New: unexpected flag assignment %s", lhs)
				}
				flg = flagCtor[strings.TrimPrefix(lhs, "f.")]
			case lhs == "needs":
				c, ok := as.Rhs[0].(*ast.CallExpr)
				if !ok || exprString(fset, c.Fun) != "difference" || len(c.Args) != 2 || exprString(fset, c.Args[0]) != "needs" {
					die("glf.New: unexpected update of needs: %s", exprString(fset, as.Rhs[0]))
				}
				remove = tname(c.Args[1])
			default:
				die("glf.New: unexpected assignment to %s", lhs)
			}
		}
		if flg == "" || remove == "" {
			die("glf.New: if-block without flag or without needs update")
		}
		steps = append(steps, fmt.Sprintf("mkStep %s [%s] %s %s", base, strings.Join(minus, "; "), flg, remove))
	}
	if len(steps) == 0 {
		die("glf.New: no if-blocks found")
	}
	// the helpers must still be the ones the model transcribes
	for _, fn := range []string{"any", "difference"} {
		found := false
		for _, d := range f.Decls {
			if fd, ok := d.(*ast.FuncDecl); ok && fd.Name.Name == fn {
				found = true
			}
		}
		if !found {
			die("glf.%s not found", fn)
		}
	}
	var sb strings.Builder
	sb.WriteString("(* GENERATED by harness/cmd/c14-translate from shovel/glf/filter.go - do not edit *)\n")
	sb.WriteString("From Coq Require Import List String.\nFrom Shovel Require Import Model.Plan.\nImport ListNotations.\nOpen Scope string_scope.\n\n")
	sb.WriteString("Definition glf_tables : tables := {|\n")
	for i, t := range []string{"header", "block", "receipt", "log", "trace"} {
		sep := ";"
		if i == 4 {
			sep = ""
		}
		fmt.Fprintf(&sb, "  t_%s := %s%s\n", t, coqStrList(tables[t]), sep)
	}
	sb.WriteString("|}.\n\n")
	sb.WriteString("(* the if-blocks of glf.New in source order: any(needs, difference(base, minus...)) => flag; needs -= remove *)\n")
	sb.WriteString("Definition glf_steps : list step := [\n  " + strings.Join(steps, ";\n  ") + "\n].\n")
	return sb.String()
}

// ---- eth/types.go: fields of Receipt (promoted into Tx)
func receiptFields(repo string) map[string]bool {
	fset := token.NewFileSet()
	f := parse(fset, filepath.Join(repo, "eth/types.go"))
	res := map[string]bool{}
	ok := false
	ast.Inspect(f, func(n ast.Node) bool {
		ts, is := n.(*ast.TypeSpec)
		if !is || ts.Name.Name != "Receipt" {
			return true
		}
		st, is := ts.Type.(*ast.StructType)
		if !is {
			return true
		}
		ok = true
		for _, fl := range st.Fields.List {
			for _, nm := range fl.Names {
				res[nm.Name] = true
			}
		}
		return false
	})
	if !ok {
		die("eth.Receipt struct not found")
	}
	return res
}

// ---- dig/dig.go: logWithCtx.get
func getFields(repo string) string {
	rf := receiptFields(repo)
	fset := token.NewFileSet()
	f := parse(fset, filepath.Join(repo, "dig/dig.go"))
	var sw *ast.SwitchStmt
	for _, d := range f.Decls {
		fd, ok := d.(*ast.FuncDecl)
		if !ok || fd.Name.Name != "get" || fd.Recv == nil || !strings.Contains(exprString(fset, fd.Recv.List[0].Type), "logWithCtx") {
			continue
		}
		for _, st := range fd.Body.List {
			if s, ok := st.(*ast.SwitchStmt); ok && exprString(fset, s.Tag) == "name" {
				sw = s
			}
		}
	}
	if sw == nil {
		die("logWithCtx.get: switch name {...} not found")
	}
	type entry struct{ name, class, acc string }
	var entries []entry
	for _, c := range sw.Body.List {
		cc := c.(*ast.CaseClause)
		if cc.List == nil {
			continue // default
		}
		// the value returned on the normal path: the last return statement of the clause
		var ret ast.Expr
		for _, st := range cc.Body {
			if r, ok := st.(*ast.ReturnStmt); ok && len(r.Results) == 1 {
				ret = r.Results[0]
			}
		}
		if ret == nil {
			die("logWithCtx.get: case %s has no return", exprString(fset, cc.List[0]))
		}
		acc := exprString(fset, ret)
		// `d` returned after `d, err := lwc.t.Signer()`
		if id, ok := ret.(*ast.Ident); ok {
			for _, st := range cc.Body {
				if as, ok := st.(*ast.AssignStmt); ok && len(as.Lhs) >= 1 && exprString(fset, as.Lhs[0]) == id.Name && len(as.Rhs) == 1 {
					acc = exprString(fset, as.Rhs[0])
				}
			}
		}
		acc = strings.TrimPrefix(acc, "&")
		acc = strings.TrimSuffix(acc, ".Bytes()")
		var class string
		switch {
		case strings.HasPrefix(acc, "wctx."):
			class = "ICtx"
		case strings.HasPrefix(acc, "lwc.b."):
			class = "IHeader"
		case strings.HasPrefix(acc, "lwc.l."):
			class = "ILog"
		case strings.HasPrefix(acc, "lwc.ta."):
			class = "ITrace"
		case strings.HasPrefix(acc, "lwc.t."):
			class = "ITx"
			parts := strings.Split(strings.TrimPrefix(acc, "lwc.t."), ".")
			if parts[0] == "Receipt" || rf[strings.TrimSuffix(parts[0], "()")] {
				class = "IReceipt"
			}
		default:
			die("logWithCtx.get: cannot classify %q", acc)
		}
		acc = strings.TrimPrefix(acc, "lwc.")
		for _, l := range cc.List {
			bl, ok := l.(*ast.BasicLit)
			if !ok || bl.Kind != token.STRING {
				die("logWithCtx.get: non-literal case label")
			}
			s, _ := strconv.Unquote(bl.Value)
			entries = append(entries, entry{s, class, acc})
		}
	}
	if len(entries) < 10 {
		die("logWithCtx.get: only %d labels found", len(entries))
	}
	var sb strings.Builder
	sb.WriteString("(* GENERATED by harness/cmd/c14-translate from dig/dig.go (logWithCtx.get) and eth/types.go - do not edit *)\n")
	sb.WriteString("From Coq Require Import List String.\nFrom Shovel Require Import Model.Plan.\nImport ListNotations.\nOpen Scope string_scope.\n\n")
	sb.WriteString("(* case label, item the value is read from, accessor *)\n")
	sb.WriteString("Definition get_fields : list field := [\n")
	for i, e := range entries {
		sep := ";"
		if i == len(entries)-1 {
			sep = ""
		}
		fmt.Fprintf(&sb, "  mkField %s %s %s%s\n", coqStr(e.name), e.class, coqStr(e.acc), sep)
	}
	sb.WriteString("].\n")
	return sb.String()
}

func main() {
	repo := flag.String("repo", "/repo", "repository root")
	out := flag.String("out", ".", "output directory (coq/Gen)")
	flag.Parse()
	files := map[string]string{"GlfTables.v": glf(*repo), "GetFields.v": getFields(*repo)}
	names := make([]string, 0, len(files))
	for n := range files {
		names = append(names, n)
	}
	sort.Strings(names)
	for _, n := range names {
		p := filepath.Join(*out, n)
		old, err := os.ReadFile(p)
		if err == nil && string(old) == files[n] {
			continue // unchanged: keep the timestamp, no rebuild
		}
		if err := os.WriteFile(p, []byte(files[n]), 0o644); err != nil {
			fmt.Fprintln(os.Stderr, "c14-translate:", err)
			os.Exit(1)
		}
	}
}
