package main

// The typed part of the translator: GetFields.v, FetchFills.v, GetDispatch.v.
//
// What it reads (this is the trusted abstraction, see trusted/C14.txt):
//
//   - eth/types.go: the json struct tags of Block, Header, Tx, Log, TraceAction; the
//     bodies of (Block).Tx (the composite literal of the transaction it creates) and
//     (*Logs).Add (which fields it copies); the last return statement of the accessor
//     methods that logWithCtx.get calls (Hash, Num, Signer, ...).
//   - jrpc2/client.go: the response types (the member tagged "result" of blockResp,
//     headerResp, receiptResp, logResp, traceBlockResp and the json tags of their
//     result types); in receipts(), logs(), traces() and the package functions they
//     hand a block to (setHash): every assignment `x.F = e`, `x.F[i] = e`, every
//     `x.F.Write(e)` and `x.Logs.Add(e)` whose root x is a *eth.Block / *eth.Tx (state)
//     or a local eth.Log / eth.TraceAction (item); in Get: the tag-less switch
//     statements and the `if filter.UseX` statements of its body.
//   - dig/dig.go: the case clauses of logWithCtx.get.
//   - the member names an Ethereum node sends (tables `schema` below, from the JSON-RPC
//     specification): a struct field is filled by decoding only if its tag is one of
//     them, spelled as the tag or as the lower-cased tag (what goccy/go-json accepts, observed).
//
// A write counts only when every response field its right-hand side reads is itself
// decoded (tag in the schema).

import (
	"flag"
	"fmt"
	"go/ast"
	"go/token"
	"go/types"
	"os"
	"path/filepath"
	"reflect"
	"sort"
	"strings"

	"golang.org/x/tools/go/packages"
)

var schema = map[string][]string{
	// eth_getBlockByNumber result
	"Header": {"number", "hash", "parentHash", "nonce", "sha3Uncles", "logsBloom", "transactionsRoot", "stateRoot", "receiptsRoot",
		"miner", "difficulty", "totalDifficulty", "extraData", "size", "gasLimit", "gasUsed", "timestamp", "transactions", "uncles",
		"baseFeePerGas", "mixHash", "withdrawals", "withdrawalsRoot"},
	// transaction object
	"Tx": {"blockHash", "blockNumber", "from", "gas", "gasPrice", "maxFeePerGas", "maxPriorityFeePerGas", "hash", "input", "nonce",
		"to", "transactionIndex", "value", "type", "accessList", "chainId", "v", "r", "s", "yParity"},
	// log object
	"Log": {"removed", "logIndex", "transactionIndex", "transactionHash", "blockHash", "blockNumber", "address", "data", "topics"},
	// receipt object
	"receiptResult": {"transactionHash", "transactionIndex", "blockHash", "blockNumber", "from", "to", "cumulativeGasUsed",
		"effectiveGasPrice", "gasUsed", "contractAddress", "logs", "logsBloom", "type", "status", "root"},
	// trace_block entry and its action
	"traceBlockResult": {"action", "blockHash", "blockNumber", "result", "subtraces", "traceAddress", "transactionHash",
		"transactionPosition", "type", "error"},
	"TraceAction": {"from", "to", "callType", "gas", "input", "value", "init", "author", "rewardType", "address", "balance", "refundAddress"},
}

func init() {
	schema["Block"] = schema["Header"]
	schema["logResult"] = schema["Log"]
}

type prog struct {
	fset *token.FileSet
	pkg  map[string]*packages.Package // eth, jrpc2, dig
}

func load(repo string) *prog {
	cfg := &packages.Config{
		Mode: packages.NeedName | packages.NeedFiles | packages.NeedSyntax | packages.NeedTypes | packages.NeedTypesInfo |
			packages.NeedDeps | packages.NeedImports,
		Dir: repo,
	}
	pkgs, err := packages.Load(cfg, "./eth", "./jrpc2", "./dig")
	if err != nil {
		die("cannot load packages: %v", err)
	}
	p := &prog{pkg: map[string]*packages.Package{}}
	for _, pk := range pkgs {
		if len(pk.Errors) > 0 {
			die("package %s does not type-check: %v", pk.PkgPath, pk.Errors[0])
		}
		p.fset = pk.Fset
		p.pkg[pk.Name] = pk
	}
	for _, n := range []string{"eth", "jrpc2", "dig"} {
		if p.pkg[n] == nil {
			die("package %s not found", n)
		}
	}
	return p
}

func (p *prog) str(e ast.Node) string { return exprString(p.fset, e.(ast.Expr)) }

// ---- types
func deref(t types.Type) types.Type {
	for {
		pt, ok := t.Underlying().(*types.Pointer)
		if !ok {
			return t
		}
		t = pt.Elem()
	}
}

func namedName(t types.Type) string {
	if n, ok := deref(t).(*types.Named); ok {
		return n.Obj().Name()
	}
	return ""
}

func structOf(t types.Type) *types.Struct {
	s, _ := deref(t).Underlying().(*types.Struct)
	return s
}

// element type of slices / arrays / maps (values), else the type itself
func elem(t types.Type) types.Type {
	switch u := deref(t).Underlying().(type) {
	case *types.Slice:
		return u.Elem()
	case *types.Array:
		return u.Elem()
	case *types.Map:
		return u.Elem()
	}
	return t
}

// fieldID: "Declaring.Field" of a field selection
func fieldID(info *types.Info, sel *ast.SelectorExpr) (string, bool) {
	s := info.Selections[sel]
	if s == nil || s.Kind() != types.FieldVal {
		return "", false
	}
	t := s.Recv()
	idx := s.Index()
	for i, ix := range idx {
		st := structOf(t)
		if st == nil {
			return "", false
		}
		f := st.Field(ix)
		if i == len(idx)-1 {
			owner := namedName(t)
			if owner == "" {
				return "", false
			}
			return owner + "." + f.Name(), true
		}
		t = f.Type()
	}
	return "", false
}

// root identifier of x.a.b[i].c ...
func rootIdent(e ast.Expr) *ast.Ident {
	for {
		switch x := e.(type) {
		case *ast.SelectorExpr:
			e = x.X
		case *ast.IndexExpr:
			e = x.X
		case *ast.ParenExpr:
			e = x.X
		case *ast.StarExpr:
			e = x.X
		case *ast.UnaryExpr:
			e = x.X
		case *ast.CallExpr:
			e = x.Fun
		case *ast.Ident:
			return x
		default:
			return nil
		}
	}
}

func (p *prog) funcDecl(pkg *packages.Package, recv, name string) *ast.FuncDecl {
	for _, f := range pkg.Syntax {
		for _, d := range f.Decls {
			fd, ok := d.(*ast.FuncDecl)
			if !ok || fd.Name.Name != name {
				continue
			}
			r := ""
			if fd.Recv != nil && len(fd.Recv.List) == 1 {
				r = namedName(pkg.TypesInfo.TypeOf(fd.Recv.List[0].Type))
			}
			if r == recv {
				return fd
			}
		}
	}
	return nil
}

// ---- decoding: the fields of struct type t (and of the eth structs nested in it) that a reply fills
func (p *prog) tagFilled(t types.Type, into map[string]bool) {
	name := namedName(t)
	st := structOf(t)
	if st == nil || name == "" {
		return
	}
	sch, known := schema[name]
	for i := 0; i < st.NumFields(); i++ {
		f := st.Field(i)
		tag := reflect.StructTag(st.Tag(i)).Get("json")
		tag = strings.Split(tag, ",")[0]
		if f.Embedded() && tag == "" {
			if structOf(f.Type()) != nil {
				p.tagFilled(f.Type(), into)
			}
			continue
		}
		if tag == "" || tag == "-" {
			continue
		}
		if !known {
			die("no member table for struct %s (field %s tagged %q)", name, f.Name(), tag)
		}
		sent := false
		// goccy/go-json accepts a member when its name is the tag or the lower-cased tag (observed:
		// tag "Status" takes "status"; tags "gasprice" / "chainID" do not take "gasPrice" / "chainId")
		for _, m := range sch {
			if m == tag || m == strings.ToLower(tag) {
				sent = true
			}
		}
		if !sent {
			continue // a tag no node sends (e.g. chainID for chainId): never filled
		}
		into[name+"."+f.Name()] = true
		if et := elem(f.Type()); structOf(et) != nil && namedName(et) != "" && namedName(et) != "Int" {
			if _, ok := schema[namedName(et)]; ok {
				p.tagFilled(et, into)
			}
		}
	}
}

// the type of the member tagged "result" of a response struct
func (p *prog) resultType(resp string) types.Type {
	obj := p.pkg["jrpc2"].Types.Scope().Lookup(resp)
	if obj == nil {
		die("jrpc2.%s not found", resp)
	}
	st := structOf(obj.Type())
	if st == nil {
		die("jrpc2.%s is not a struct", resp)
	}
	for i := 0; i < st.NumFields(); i++ {
		if strings.Split(reflect.StructTag(st.Tag(i)).Get("json"), ",")[0] == "result" {
			return st.Field(i).Type()
		}
	}
	die("jrpc2.%s has no member tagged result", resp)
	return nil
}

// ---- the attach functions
type walker struct {
	p        *prog
	decoded  map[string]bool // fields filled by decoding (response types and eth items)
	fills    map[string]bool
	itemW    map[string]map[string]bool // local item type -> fields written
	attached map[string]string          // item type -> "copy" | "add"
	seen     map[*ast.FuncDecl]bool
}

var stateTypes = map[string]bool{"Block": true, "Tx": true}
var itemTypes = map[string]bool{"Log": true, "TraceAction": true}

// every response field read by e is decoded
func (w *walker) sourcesDecoded(info *types.Info, e ast.Expr) bool {
	ok := true
	ast.Inspect(e, func(n ast.Node) bool {
		sel, is := n.(*ast.SelectorExpr)
		if !is {
			return true
		}
		id, isField := fieldID(info, sel)
		if !isField {
			return true
		}
		owner := strings.Split(id, ".")[0]
		if _, resp := schema[owner]; resp && !stateTypes[owner] && !w.decoded[id] {
			// reading an un-decoded member of a response / item type
			if r := rootIdent(sel); r != nil && !stateTypes[namedName(info.TypeOf(r))] {
				ok = false
			}
		}
		return true
	})
	return ok
}

func (w *walker) target(info *types.Info, lhs ast.Expr, rhs ast.Expr) {
	for {
		ix, ok := lhs.(*ast.IndexExpr)
		if !ok {
			break
		}
		lhs = ix.X
	}
	sel, ok := lhs.(*ast.SelectorExpr)
	if !ok {
		return
	}
	id, ok := fieldID(info, sel)
	if !ok {
		return
	}
	root := rootIdent(sel)
	if root == nil {
		return
	}
	rt := namedName(info.TypeOf(root))
	switch {
	case stateTypes[rt]:
		if rhs != nil && !w.sourcesDecoded(info, rhs) {
			return
		}
		w.fills[id] = true
		// a slice of items stored on the state
		if s := info.Selections[sel]; s != nil {
			if it := namedName(elem(s.Type())); itemTypes[it] && w.attached[it] == "" {
				w.attached[it] = "copy"
			}
		}
	case itemTypes[rt]:
		if rhs != nil && !w.sourcesDecoded(info, rhs) {
			return
		}
		if w.itemW[rt] == nil {
			w.itemW[rt] = map[string]bool{}
		}
		w.itemW[rt][id] = true
	}
}

func (w *walker) walk(pkg *packages.Package, fd *ast.FuncDecl) {
	if fd == nil || fd.Body == nil || w.seen[fd] {
		return
	}
	w.seen[fd] = true
	info := pkg.TypesInfo
	ast.Inspect(fd.Body, func(n ast.Node) bool {
		switch x := n.(type) {
		case *ast.AssignStmt:
			for i, l := range x.Lhs {
				var r ast.Expr
				if len(x.Rhs) == len(x.Lhs) {
					r = x.Rhs[i]
				}
				w.target(info, l, r)
			}
		case *ast.CallExpr:
			switch fun := x.Fun.(type) {
			case *ast.SelectorExpr:
				s := info.Selections[fun]
				if s != nil && s.Kind() == types.MethodVal {
					recvRoot := rootIdent(fun.X)
					rt := ""
					if recvRoot != nil {
						rt = namedName(info.TypeOf(recvRoot))
					}
					switch {
					case fun.Sel.Name == "Write" && len(x.Args) == 1:
						w.target(info, fun.X, x.Args[0])
					case fun.Sel.Name == "Add" && namedName(s.Recv()) == "Logs" && len(x.Args) == 1 && stateTypes[rt]:
						w.target(info, fun.X, x.Args[0])
						w.attached["Log"] = "add"
					case fun.Sel.Name == "Tx" && namedName(s.Recv()) == "Block":
						// the transaction Block.Tx creates when it is absent
						eth := w.p.pkg["eth"]
						m := w.p.funcDecl(eth, "Block", "Tx")
						if m == nil {
							die("eth.Block.Tx not found")
						}
						ast.Inspect(m.Body, func(n ast.Node) bool {
							cl, ok := n.(*ast.CompositeLit)
							if !ok || namedName(eth.TypesInfo.TypeOf(cl)) != "Tx" {
								return true
							}
							for _, el := range cl.Elts {
								kv, ok := el.(*ast.KeyValueExpr)
								if !ok {
									die("eth.Block.Tx: positional composite literal")
								}
								w.fills["Tx."+kv.Key.(*ast.Ident).Name] = true
							}
							return true
						})
					case stateTypes[rt] && recvRoot != nil && fun.X == ast.Expr(recvRoot):
						switch fun.Sel.Name {
						case "Lock", "Unlock", "Num", "Hash":
						default:
							die("%s: unknown method %s called on a %s", fd.Name.Name, fun.Sel.Name, rt)
						}
					}
				}
			case *ast.Ident:
				// a package function that is handed a block or a transaction (setHash)
				obj, isFunc := info.Uses[fun].(*types.Func)
				if isFunc && obj.Pkg() == pkg.Types {
					for _, a := range x.Args {
						if stateTypes[namedName(info.TypeOf(a))] {
							callee := w.p.funcDecl(pkg, "", fun.Name)
							if callee == nil {
								die("%s: body of %s not found", fd.Name.Name, fun.Name)
							}
							w.walk(pkg, callee)
						}
					}
				} else if isFunc {
					for _, a := range x.Args {
						if stateTypes[namedName(info.TypeOf(a))] {
							die("%s: a %s is handed to %s", fd.Name.Name, namedName(info.TypeOf(a)), fun.Name)
						}
					}
				}
			}
		}
		return true
	})
}

func (p *prog) attachFills(fn string, respTypes ...string) []string {
	w := &walker{p: p, decoded: map[string]bool{}, fills: map[string]bool{}, itemW: map[string]map[string]bool{},
		attached: map[string]string{}, seen: map[*ast.FuncDecl]bool{}}
	for _, r := range respTypes {
		p.tagFilled(elem(p.resultType(r)), w.decoded)
	}
	jr := p.pkg["jrpc2"]
	fd := p.funcDecl(jr, "Client", fn)
	if fd == nil {
		die("jrpc2.Client.%s not found", fn)
	}
	w.walk(jr, fd)
	// the items stored on the state
	for it, how := range w.attached {
		dec := map[string]bool{}
		p.tagFilled(p.pkg["eth"].Types.Scope().Lookup(it).Type(), dec)
		switch how {
		case "copy":
			for f := range dec {
				if strings.HasPrefix(f, it+".") {
					w.fills[f] = true
				}
			}
			for f := range w.itemW[it] {
				w.fills[f] = true
			}
		case "add": // the fields (*Logs).Add copies, as far as they were decoded
			eth := p.pkg["eth"]
			add := p.funcDecl(eth, "Logs", "Add")
			if add == nil {
				die("eth.Logs.Add not found")
			}
			aw := &walker{p: p, decoded: dec, fills: map[string]bool{}, itemW: map[string]map[string]bool{},
				attached: map[string]string{}, seen: map[*ast.FuncDecl]bool{}}
			aw.walk(eth, add)
			for f := range aw.itemW[it] {
				if dec[f] {
					w.fills[f] = true
				}
			}
		}
	}
	if len(w.fills) == 0 {
		die("jrpc2.Client.%s: no write to a block or a transaction found", fn)
	}
	return sorted(w.fills)
}

func sorted(m map[string]bool) []string {
	var l []string
	for k := range m {
		l = append(l, k)
	}
	sort.Strings(l)
	return l
}

// ---- Client.Get
type dcase struct {
	guard []string // nil = default
	dflt  bool
	fetch []string
}

var fetchOf = map[string]string{"blocks": "GBlocks", "headers": "GHeaders", "receipts": "GReceipts", "logs": "GLogs", "traces": "GTraces"}

func (p *prog) getDispatch() (groups [][]dcase, numbers []string) {
	jr := p.pkg["jrpc2"]
	info := jr.TypesInfo
	fd := p.funcDecl(jr, "Client", "Get")
	if fd == nil {
		die("jrpc2.Client.Get not found")
	}
	covered := map[ast.Node]bool{}
	fetchCalls := func(n ast.Node) []string {
		var res []string
		ast.Inspect(n, func(m ast.Node) bool {
			sel, ok := m.(*ast.SelectorExpr)
			if !ok {
				return true
			}
			s := info.Selections[sel]
			if s != nil && s.Kind() == types.MethodVal && namedName(s.Recv()) == "Client" && fetchOf[sel.Sel.Name] != "" {
				res = append(res, fetchOf[sel.Sel.Name])
				covered[sel] = true
			}
			return true
		})
		return res
	}
	flagOf := func(e ast.Expr) string {
		sel, ok := e.(*ast.SelectorExpr)
		if !ok || !strings.HasPrefix(sel.Sel.Name, "Use") || flagCtor[sel.Sel.Name] == "" || namedName(info.TypeOf(sel.X)) != "Filter" {
			die("Client.Get: guard %s is not filter.Use<X>", p.str(e))
		}
		return flagCtor[sel.Sel.Name]
	}
	// headerLit: the keys of the eth.Header literal(s) under n; calls of package-level functions of jrpc2
	// are followed (inlined) as long as the callee makes no request itself
	var headerLit func(n ast.Node, depth int) bool
	headerLit = func(n ast.Node, depth int) bool {
		found := false
		ast.Inspect(n, func(m ast.Node) bool {
			switch y := m.(type) {
			case *ast.CompositeLit:
				if namedName(info.TypeOf(y)) != "Header" {
					return true
				}
				for _, el := range y.Elts {
					kv, ok := el.(*ast.KeyValueExpr)
					if !ok {
						die("Client.Get: positional eth.Header literal")
					}
					numbers = append(numbers, "Header."+kv.Key.(*ast.Ident).Name)
				}
				found = true
			case *ast.CallExpr:
				id, ok := y.Fun.(*ast.Ident)
				if !ok {
					return true
				}
				obj, isFunc := info.Uses[id].(*types.Func)
				if !isFunc || obj.Pkg() != jr.Types || depth > 2 {
					return true
				}
				callee := p.funcDecl(jr, "", id.Name)
				if callee == nil || callee.Body == nil {
					return true
				}
				if len(fetchCalls(callee.Body)) > 0 {
					die("Client.Get: helper %s makes a request", id.Name)
				}
				if headerLit(callee.Body, depth+1) {
					found = true
				}
			}
			return true
		})
		return found
	}
	for _, st := range fd.Body.List {
		switch x := st.(type) {
		case *ast.SwitchStmt:
			if x.Tag != nil || x.Init != nil {
				die("Client.Get: switch with a tag")
			}
			var g []dcase
			for _, c := range x.Body.List {
				cc := c.(*ast.CaseClause)
				dc := dcase{dflt: cc.List == nil}
				for _, e := range cc.List {
					dc.guard = append(dc.guard, flagOf(e))
				}
				for _, b := range cc.Body {
					dc.fetch = append(dc.fetch, fetchCalls(b)...)
				}
				if len(dc.fetch) == 0 {
					// bare numbers: a composite literal of eth.Header, in the clause or in the
					// same-package helper function(s) the clause calls
					for _, b := range cc.Body {
						if headerLit(b, 0) {
							dc.fetch = []string{"GNumbers"}
						}
					}
				}
				g = append(g, dc)
			}
			groups = append(groups, g)
		case *ast.IfStmt:
			if len(fetchCalls(x)) == 0 {
				continue // no request anywhere in this if / else chain
			}
			// `if c1 {A} else if c2 {B} [else {C}]` with plan-flag conditions = a tag-less switch with these cases
			var g []dcase
			for cur := x; ; {
				if cur.Init != nil {
					die("Client.Get: if with an init statement around a request")
				}
				g = append(g, dcase{guard: []string{flagOf(cur.Cond)}, fetch: fetchCalls(cur.Body)})
				if cur.Else == nil {
					break
				}
				if next, ok := cur.Else.(*ast.IfStmt); ok {
					cur = next
					continue
				}
				eb := cur.Else.(*ast.BlockStmt)
				dc := dcase{dflt: true, fetch: fetchCalls(eb)}
				if len(dc.fetch) == 0 && headerLit(eb, 0) {
					dc.fetch = []string{"GNumbers"}
				}
				g = append(g, dc)
				break
			}
			groups = append(groups, g)
		}
	}
	// no request outside the recognised statements
	ast.Inspect(fd.Body, func(n ast.Node) bool {
		sel, ok := n.(*ast.SelectorExpr)
		if !ok {
			return true
		}
		s := info.Selections[sel]
		if s != nil && s.Kind() == types.MethodVal && namedName(s.Recv()) == "Client" && fetchOf[sel.Sel.Name] != "" && !covered[sel] {
			die("Client.Get: request %s outside a top-level switch / if", sel.Sel.Name)
		}
		return true
	})
	if len(groups) == 0 {
		die("Client.Get: no switch found")
	}
	return groups, numbers
}

// ---- logWithCtx.get
func (p *prog) resolve(pkg *packages.Package, e ast.Expr, clause []ast.Stmt) (id string, ctx bool) {
	info := pkg.TypesInfo
	switch x := e.(type) {
	case *ast.ParenExpr:
		return p.resolve(pkg, x.X, clause)
	case *ast.UnaryExpr:
		if x.Op == token.AND {
			return p.resolve(pkg, x.X, clause)
		}
	case *ast.Ident:
		for _, st := range clause {
			if as, ok := st.(*ast.AssignStmt); ok && len(as.Rhs) == 1 && len(as.Lhs) >= 1 {
				if l, ok := as.Lhs[0].(*ast.Ident); ok && l.Name == x.Name {
					return p.resolve(pkg, as.Rhs[0], nil)
				}
			}
		}
	case *ast.SelectorExpr:
		if id, ok := fieldID(info, x); ok {
			return id, false
		}
	case *ast.CallExpr:
		if tv, ok := info.Types[x.Fun]; ok && tv.IsType() && len(x.Args) == 1 {
			return p.resolve(pkg, x.Args[0], clause) // conversion
		}
		fun, ok := x.Fun.(*ast.SelectorExpr)
		if !ok {
			break
		}
		if id, ok := fun.X.(*ast.Ident); ok {
			if pn, ok := info.Uses[id].(*types.PkgName); ok && pn.Imported().Name() == "wctx" {
				return "", true
			}
		}
		s := info.Selections[fun]
		if s == nil || s.Kind() != types.MethodVal {
			break
		}
		m := s.Obj().(*types.Func)
		recv := namedName(s.Recv())
		if m.Name() == "Bytes" && recv == "Bytes" {
			return p.resolve(pkg, fun.X, clause)
		}
		mp := p.pkg[m.Pkg().Name()]
		if mp == nil {
			break
		}
		md := p.funcDecl(mp, recv, m.Name())
		if md == nil {
			die("body of %s.%s not found", recv, m.Name())
		}
		var last *ast.ReturnStmt
		ast.Inspect(md.Body, func(n ast.Node) bool {
			if r, ok := n.(*ast.ReturnStmt); ok && len(r.Results) >= 1 {
				last = r
			}
			return true
		})
		if last == nil {
			break
		}
		return p.resolve(mp, last.Results[0], nil)
	}
	die("logWithCtx.get: cannot resolve %s to a struct field", p.str(e))
	return "", false
}

var classOfOwner = map[string]string{"Header": "IHeader", "Block": "IHeader", "Tx": "ITx", "Receipt": "IReceipt", "Log": "ILog", "TraceAction": "ITrace"}

func (p *prog) getFields() string {
	dig := p.pkg["dig"]
	fd := p.funcDecl(dig, "logWithCtx", "get")
	if fd == nil {
		die("dig.logWithCtx.get not found")
	}
	var sw *ast.SwitchStmt
	for _, st := range fd.Body.List {
		if s, ok := st.(*ast.SwitchStmt); ok && s.Tag != nil && p.str(s.Tag) == "name" {
			sw = s
		}
	}
	if sw == nil {
		die("logWithCtx.get: switch name {...} not found")
	}
	var lines []string
	for _, c := range sw.Body.List {
		cc := c.(*ast.CaseClause)
		if cc.List == nil {
			continue
		}
		var ret ast.Expr
		for _, st := range cc.Body {
			if r, ok := st.(*ast.ReturnStmt); ok && len(r.Results) == 1 {
				ret = r.Results[0]
			}
		}
		if ret == nil {
			die("logWithCtx.get: case %s has no return", p.str(cc.List[0]))
		}
		id, isCtx := p.resolve(dig, ret, cc.Body)
		class := "ICtx"
		if !isCtx {
			class = classOfOwner[strings.Split(id, ".")[0]]
			if class == "" {
				die("logWithCtx.get: %s is a field of an unknown struct", id)
			}
		} else {
			id = strings.TrimPrefix(p.str(ret), "lwc.")
		}
		for _, l := range cc.List {
			bl, ok := l.(*ast.BasicLit)
			if !ok || bl.Kind != token.STRING {
				die("logWithCtx.get: non-literal case label")
			}
			lines = append(lines, fmt.Sprintf("  mkField %s %s %s", bl.Value, class, coqStr(id)))
		}
	}
	if len(lines) < 10 {
		die("logWithCtx.get: only %d labels found", len(lines))
	}
	return "(* GENERATED by harness/cmd/c14-translate from dig/dig.go (logWithCtx.get) and eth/types.go - do not edit *)\n" +
		"From Coq Require Import List String.\nFrom Shovel Require Import Model.Plan.\nImport ListNotations.\nOpen Scope string_scope.\n\n" +
		"(* case label, item the value is read from, struct field returned (Declaring.Field) *)\n" +
		"Definition get_fields : list field := [\n" + strings.Join(lines, ";\n") + "\n].\n"
}

func (p *prog) fetchFillsAndDispatch() (string, string) {
	groups, numbers := p.getDispatch()
	hdr, blk := map[string]bool{}, map[string]bool{}
	p.tagFilled(elem(p.resultType("headerResp")), hdr)
	p.tagFilled(elem(p.resultType("blockResp")), blk)
	fills := [][2]any{
		{"GNumbers", numbers},
		{"GHeaders", sorted(hdr)},
		{"GBlocks", sorted(blk)},
		{"GReceipts", p.attachFills("receipts", "receiptResp")},
		{"GLogs", p.attachFills("logs", "logResp", "headerResp")},
		{"GTraces", p.attachFills("traces", "traceBlockResp")},
	}
	var sb strings.Builder
	sb.WriteString("(* GENERATED by harness/cmd/c14-translate from eth/types.go (json tags) and jrpc2/client.go (writes of receipts, logs, traces) - do not edit *)\n")
	sb.WriteString("From Coq Require Import List String.\nFrom Shovel Require Import Model.Plan.\nImport ListNotations.\nOpen Scope string_scope.\n\n")
	sb.WriteString("(* request, struct fields (Declaring.Field) of the returned blocks it fills *)\n")
	sb.WriteString("Definition fetch_fills : list (fetch * list string) := [\n")
	for i, f := range fills {
		sep := ";"
		if i == len(fills)-1 {
			sep = ""
		}
		fmt.Fprintf(&sb, "  (%s, %s)%s\n", f[0], coqStrList(f[1].([]string)), sep)
	}
	sb.WriteString("].\n")

	var db strings.Builder
	db.WriteString("(* GENERATED by harness/cmd/c14-translate from jrpc2/client.go (Client.Get) - do not edit *)\n")
	db.WriteString("From Coq Require Import List String.\nFrom Shovel Require Import Model.Plan.\nImport ListNotations.\n\n")
	db.WriteString("(* the switch / if statements of Client.Get in source order; per statement its cases in order: guard (None = default), requests *)\n")
	db.WriteString("Definition get_dispatch : list (list dcase) := [\n")
	for i, g := range groups {
		var cs []string
		for _, c := range g {
			guard := "None"
			if !c.dflt {
				guard = "(Some [" + strings.Join(c.guard, "; ") + "])"
			}
			cs = append(cs, fmt.Sprintf("mkDcase %s [%s]", guard, strings.Join(c.fetch, "; ")))
		}
		sep := ";"
		if i == len(groups)-1 {
			sep = ""
		}
		db.WriteString("  [" + strings.Join(cs, "; ") + "]" + sep + "\n")
	}
	db.WriteString("].\n")
	return sb.String(), db.String()
}

func main() {
	repo := flag.String("repo", "/repo", "repository root")
	out := flag.String("out", ".", "output directory (coq/Gen)")
	flag.Parse()
	p := load(*repo)
	ff, gd := p.fetchFillsAndDispatch()
	files := map[string]string{"GlfTables.v": glf(*repo), "GetFields.v": p.getFields(), "FetchFills.v": ff, "GetDispatch.v": gd}
	names := make([]string, 0, len(files))
	for n := range files {
		names = append(names, n)
	}
	sort.Strings(names)
	for _, n := range names {
		path := filepath.Join(*out, n)
		old, err := os.ReadFile(path)
		if err == nil && string(old) == files[n] {
			continue // unchanged: keep the timestamp, no rebuild
		}
		if err := os.WriteFile(path, []byte(files[n]), 0o644); err != nil {
			fmt.Fprintln(os.Stderr, "c14-translate:", err)
			os.Exit(1)
		}
	}
}
