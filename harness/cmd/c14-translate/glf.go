// c14-translate regenerates, from the repository given by -repo,
//
//	coq/Gen/GlfTables.v   the five []string tables of shovel/glf/filter.go and the
//	                      sequence of `if any(needs, X) { f.UseY = true; needs = difference(needs, Z) }`
//	                      blocks of glf.New, in source order                      (glf.go, go/ast)
//	coq/Gen/GetFields.v   the case labels of dig.logWithCtx.get with the struct field
//	                      (Declaring.Field) each one returns and its item class    (typed.go)
//	coq/Gen/FetchFills.v  for each request of jrpc2.Client (numbers, headers, blocks,
//	                      receipts, logs, traces) the struct fields it fills       (typed.go)
//	coq/Gen/GetDispatch.v the switch / if statements of Client.Get as data         (typed.go)
//
// It refuses (exit 2, "shape changed") when the source no longer has the shape
// it understands.  typed.go type-checks eth, jrpc2 and dig with go/packages
// (offline: module cache only).
package main

import (
	"fmt"
	"go/ast"
	"go/parser"
	"go/printer"
	"go/token"
	"os"
	"path/filepath"
	"strconv"
	"strings"
)

func die(format string, a ...any) {
	fmt.Fprintf(os.Stderr, "c14-translate: shape changed: "+format+"\n", a...)
	os.Exit(2)
}

func parse(fset *token.FileSet, path string) *ast.File {
	f, err := parser.ParseFile(fset, path, nil, 0)
	if err != nil {
		die("cannot parse %s: %v", path, err)
	}
	return f
}

func coqStr(s string) string { return `"` + strings.ReplaceAll(s, `"`, `""`) + `"` }

func coqStrList(xs []string) string {
	q := make([]string, len(xs))
	for i, x := range xs {
		q[i] = coqStr(x)
	}
	return "[" + strings.Join(q, "; ") + "]"
}

var tableCtor = map[string]string{"header": "THeader", "block": "TBlock", "receipt": "TReceipt", "log": "TLog", "trace": "TTrace"}
var flagCtor = map[string]string{"UseHeaders": "FHeaders", "UseBlocks": "FBlocks", "UseReceipts": "FReceipts", "UseLogs": "FLogs", "UseTraces": "FTraces"}

func exprString(fset *token.FileSet, e ast.Expr) string {
	var sb strings.Builder
	printer.Fprint(&sb, fset, e)
	return sb.String()
}

// ---- shovel/glf/filter.go
func glf(repo string) string {
	fset := token.NewFileSet()
	f := parse(fset, filepath.Join(repo, "shovel/glf/filter.go"))
	tables := map[string][]string{}
	var newFn *ast.FuncDecl
	for _, d := range f.Decls {
		switch d := d.(type) {
		case *ast.GenDecl:
			if d.Tok != token.VAR {
				continue
			}
			for _, sp := range d.Specs {
				vs := sp.(*ast.ValueSpec)
				for i, n := range vs.Names {
					if _, want := tableCtor[n.Name]; !want || i >= len(vs.Values) {
						continue
					}
					cl, ok := vs.Values[i].(*ast.CompositeLit)
					if !ok {
						die("table %s is not a composite literal", n.Name)
					}
					var names []string
					for _, el := range cl.Elts {
						bl, ok := el.(*ast.BasicLit)
						if !ok || bl.Kind != token.STRING {
							die("table %s has a non-literal element", n.Name)
						}
						s, _ := strconv.Unquote(bl.Value)
						names = append(names, s)
					}
					tables[n.Name] = names
				}
			}
		case *ast.FuncDecl:
			if d.Name.Name == "New" && d.Recv == nil {
				newFn = d
			}
		}
	}
	for t := range tableCtor {
		if _, ok := tables[t]; !ok {
			die("table %s not found in glf/filter.go", t)
		}
	}
	if newFn == nil {
		die("glf.New not found")
	}
	// the if-blocks of New
	tname := func(e ast.Expr) string {
		id, ok := e.(*ast.Ident)
		if !ok || tableCtor[id.Name] == "" {
			die("glf.New: %s is not one of the five tables", exprString(fset, e))
		}
		return tableCtor[id.Name]
	}
	var steps []string
	for _, st := range newFn.Body.List {
		ifs, ok := st.(*ast.IfStmt)
		if !ok {
			continue
		}
		call, ok := ifs.Cond.(*ast.CallExpr)
		if !ok || exprString(fset, call.Fun) != "any" || len(call.Args) != 2 || exprString(fset, call.Args[0]) != "needs" || ifs.Else != nil || ifs.Init != nil {
			die("glf.New: condition %s is not any(needs, X)", exprString(fset, ifs.Cond))
		}
		var base string
		var minus []string
		switch x := call.Args[1].(type) {
		case *ast.Ident:
			base = tname(x)
		case *ast.CallExpr:
			if exprString(fset, x.Fun) != "difference" || len(x.Args) < 1 {
				die("glf.New: %s is not difference(table, tables...)", exprString(fset, x))
			}
			base = tname(x.Args[0])
			for _, a := range x.Args[1:] {
				minus = append(minus, tname(a))
			}
		default:
			die("glf.New: unexpected test set %s", exprString(fset, call.Args[1]))
		}
		var flg, remove string
		for _, b := range ifs.Body.List {
			as, ok := b.(*ast.AssignStmt)
			if !ok || len(as.Lhs) != 1 || len(as.Rhs) != 1 {
				die("glf.New: unexpected statement in if-block: %s", exprString(fset, ifs.Cond))
			}
			lhs := exprString(fset, as.Lhs[0])
			switch {
			case strings.HasPrefix(lhs, "f.Use"):
				if exprString(fset, as.Rhs[0]) != "true" || flagCtor[strings.TrimPrefix(lhs, "f.")] == "" {
					die("glf.New: unexpected flag assignment %s", lhs)
				}
				flg = flagCtor[strings.TrimPrefix(lhs, "f.")]
			case lhs == "needs":
				c, ok := as.Rhs[0].(*ast.CallExpr)
				if !ok || exprString(fset, c.Fun) != "difference" || len(c.Args) != 2 || exprString(fset, c.Args[0]) != "needs" {
					die("glf.New: unexpected update of needs: %s", exprString(fset, as.Rhs[0]))
				}
				remove = tname(c.Args[1])
			default:
				die("glf.New: unexpected assignment to %s", lhs)
			}
		}
		if flg == "" || remove == "" {
			die("glf.New: if-block without flag or without needs update")
		}
		steps = append(steps, fmt.Sprintf("mkStep %s [%s] %s %s", base, strings.Join(minus, "; "), flg, remove))
	}
	if len(steps) == 0 {
		die("glf.New: no if-blocks found")
	}
	// the helpers must still be the ones the model transcribes
	for _, fn := range []string{"any", "difference"} {
		found := false
		for _, d := range f.Decls {
			if fd, ok := d.(*ast.FuncDecl); ok && fd.Name.Name == fn {
				found = true
			}
		}
		if !found {
			die("glf.%s not found", fn)
		}
	}
	var sb strings.Builder
	sb.WriteString("(* GENERATED by harness/cmd/c14-translate from shovel/glf/filter.go - do not edit *)\n")
	sb.WriteString("From Coq Require Import List String.\nFrom Shovel Require Import Model.Plan.\nImport ListNotations.\nOpen Scope string_scope.\n\n")
	sb.WriteString("Definition glf_tables : tables := {|\n")
	for i, t := range []string{"header", "block", "receipt", "log", "trace"} {
		sep := ";"
		if i == 4 {
			sep = ""
		}
		fmt.Fprintf(&sb, "  t_%s := %s%s\n", t, coqStrList(tables[t]), sep)
	}
	sb.WriteString("|}.\n\n")
	sb.WriteString("(* the if-blocks of glf.New in source order: any(needs, difference(base, minus...)) => flag; needs -= remove *)\n")
	sb.WriteString("Definition glf_steps : list step := [\n  " + strings.Join(steps, ";\n  ") + "\n].\n")
	return sb.String()
}
