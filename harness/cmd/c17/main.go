// c17: correspondence driver of property C17.
package main

import "verif/harness/lib"

type Cfg = lib.Cfg

func main() { lib.Main(runC17) }
