package main

import (
	"bytes"
	"encoding/hex"
	"fmt"
	"math/big"
	"strings"

	"github.com/indexsupply/shovel/bint"
	"github.com/indexsupply/shovel/eth"
	"verif/harness/lib"
)


const c17Header = `From Shovel Require Import Base.Outcome Model.Hex Model.Bint Corr.RunC17.
From Coq Require Import List NArith. Import ListNotations. Open Scope N_scope.`

var c17Alphabet = []byte{'"', '0', 'x', 'X', '9', 'a', 'F', 'g', '\\', 'n', 'u', 'l'}

const c17P = 1000000007

func u64Obs(tok []byte) (kind string, v uint64) {
	var u eth.Uint64
	var err error
	p, _ := lib.Catch(func() { err = u.UnmarshalJSON(append([]byte(nil), tok...)) })
	switch {
	case p:
		return "panic", 0
	case err != nil:
		return "err", 0
	}
	return "ok", uint64(u)
}

func byteObs(tok []byte) (kind string, v uint64) {
	var u eth.Byte
	var err error
	p, _ := lib.Catch(func() { err = u.UnmarshalJSON(append([]byte(nil), tok...)) })
	switch {
	case p:
		return "panic", 0
	case err != nil:
		return "err", 0
	}
	return "ok", uint64(u)
}

func outcomeN(kind string, v uint64) string {
	switch kind {
	case "ok":
		return lib.COk(lib.CN(v))
	case "err":
		return lib.CErr
	}
	return lib.CPanic
}

func isHex(c byte) bool {
	return (c >= '0' && c <= '9') || (c >= 'a' && c <= 'f') || (c >= 'A' && c <= 'F')
}

// independent oracle for a well-framed token "0x<digits>"
func u64Oracle(digits string, kind string, v uint64) (bool, string) {
	if kind == "panic" {
		return false, "panic"
	}
	allhex := true
	for i := 0; i < len(digits); i++ {
		if !isHex(digits[i]) {
			allhex = false
		}
	}
	if !allhex {
		if kind != "err" {
			return false, "non-hex character accepted"
		}
		return true, ""
	}
	n := new(big.Int)
	if len(digits) > 0 {
		n.SetString(digits, 16)
	}
	if n.BitLen() > 64 {
		if kind == "ok" {
			return false, "value above 64 bits accepted"
		}
		return true, ""
	}
	if kind != "ok" || v != n.Uint64() {
		return false, fmt.Sprintf("valid quantity %s decoded as %s/%d", digits, kind, v)
	}
	return true, ""
}

func hashBytes(b []byte) uint64 {
	h := uint64(7)
	for _, x := range b {
		h = (h*257 + uint64(x) + 1) % c17P
	}
	return h
}

// digest over every token of length 0..maxlen over the alphabet (same order as Corr/RunC17.digest)
func c17Digest(alphabet []byte, maxlen int) (d []uint64, panics []string, ofails []string) {
	var ix, uok, uerr, usum, bok, berr, bsum, yok, yerr, ysum uint64
	var rec func(n int, pre []byte)
	leaf := func(tok []byte) {
		ix++
		w := ix % c17P
		k, v := u64Obs(tok)
		// direct oracle on every well-framed 0x-prefixed token "0x<digits>"
		if n := len(tok); n >= 4 && tok[0] == '"' && tok[1] == '0' && tok[2] == 'x' && tok[n-1] == '"' && len(ofails) < 20 {
			if ok, msg := u64Oracle(string(tok[3:n-1]), k, v); !ok {
				ofails = append(ofails, fmt.Sprintf("Uint64 %s: %s", tok, msg))
			}
		}
		switch k {
		case "ok":
			uok++
			usum = (usum + (v%c17P+1)*w) % c17P
		case "err":
			uerr++
		default:
			panics = append(panics, "Uint64:"+string(tok))
		}
		k, v = byteObs(tok)
		switch k {
		case "ok":
			bok++
			bsum = (bsum + (v%c17P+1)*w) % c17P
		case "err":
			berr++
		default:
			panics = append(panics, "Byte:"+string(tok))
		}
		var hb eth.Bytes
		var err error
		p, _ := lib.Catch(func() { err = hb.UnmarshalJSON(append([]byte(nil), tok...)) })
		switch {
		case p:
			panics = append(panics, "Bytes:"+string(tok))
		case err != nil:
			yerr++
		default:
			yok++
			ysum = (ysum + hashBytes(hb)*w) % c17P
		}
	}
	rec = func(n int, pre []byte) {
		if n == 0 {
			leaf(pre)
			return
		}
		for _, c := range alphabet {
			rec(n-1, append(pre[:len(pre):len(pre)], c))
		}
	}
	for l := 0; l <= maxlen; l++ {
		rec(l, nil)
	}
	return []uint64{ix, uok, uerr, usum, bok, berr, bsum, yok, yerr, ysum}, panics, ofails
}

func randDigits(r *lib.RNG, n int) string {
	const hx = "0123456789abcdefABCDEF"
	var s strings.Builder
	for i := 0; i < n; i++ {
		s.WriteByte(hx[r.Intn(len(hx))])
	}
	return s.String()
}

func spellU64(r *lib.RNG, v uint64) string {
	s := fmt.Sprintf("%x", v)
	if r.Chance(1, 3) {
		s = strings.Repeat("0", r.Intn(12)) + s
	}
	b := []byte(s)
	for i := range b {
		if b[i] >= 'a' && b[i] <= 'f' && r.Bool() {
			b[i] = b[i] - 'a' + 'A'
		}
	}
	return string(b)
}

func runC17(cfg Cfg) error {
	r := lib.NewRNG(cfg.Seed)
	out := lib.NewOut("C17", cfg.Out, c17Header, "run", 500)
	out.Rule = "exhaustive tokens (digest) + random spellings of uint64 values incl. leading zeros/mixed case, overflow and non-hex tails, byte-string decode/write sequences into one destination, DecodeHex/EncodeHex, bint pads 0..40; non-trivial = token reaches the digit loop (len>=5) or sequence has >=2 ops or pad>=1; distinct by hash of the case"
	nU, nSeq, nHex, nBint := 400, 200, 150, 300
	maxlen := 5
	if cfg.Thorough() {
		nU, nSeq, nHex, nBint = 6000, 2500, 1500, 3000
		maxlen = 6
	}

	// (1) exhaustive token digests: the property's alphabet up to maxlen, and (added
	// as the LAST case, so that it lands in another shard) a smaller alphabet of
	// frame and digit characters one symbol longer, which reaches tokens such as
	// "0x0x" / "0x0x9" (a second prefix inside the digits)
	digestCase := func(alphabet []byte, maxlen int) lib.Case {
		d, panics, ofails := c17Digest(alphabet, maxlen)
		ds := make([]string, len(d))
		for i := range d {
			ds[i] = lib.CN(d[i])
		}
		msg := ""
		if len(panics) > 0 {
			msg = fmt.Sprintf("%d panics on exhaustive tokens, first: %.40q", len(panics), panics[0])
		} else if len(ofails) > 0 {
			msg = fmt.Sprintf("%d exhaustive tokens violate the decoding rule, first: %s", len(ofails), ofails[0])
		}
		out.Notes[fmt.Sprintf("exhaustive_tokens_%d_symbols_len_%d", len(alphabet), maxlen)] = d[0]
		return lib.Case{
			Coq:  fmt.Sprintf("CDigest %s %s %s", lib.CBytes(alphabet), lib.CNat(maxlen), lib.CList(ds)),
			Desc: map[string]any{"op": "digest", "alphabet": string(alphabet), "maxlen": maxlen, "impl_digest": d, "panics": panics, "oracle_failures": ofails},
			Kind: "digest-exhaustive", Nontrivial: true, OracleOK: len(panics) == 0 && len(ofails) == 0,
			OracleMsg: msg, Size: 1000000,
		}
	}
	out.Add(digestCase(c17Alphabet, maxlen))
	smallAlphabet := []byte{'"', '0', 'x', 'X', '9', 'g'}
	lastCase := digestCase(smallAlphabet, maxlen+2)

	// (2) uint64 / byte spellings
	for i := 0; i < nU; i++ {
		var digits, kind string
		switch c := r.Intn(10); {
		case c < 4:
			kind = "u64-valid"
			var v uint64
			switch r.Intn(4) {
			case 0:
				v = r.U64()
			case 1:
				v = r.U64() >> uint(r.Intn(64))
			case 2:
				v = ^uint64(0) - uint64(r.Intn(3))
			default:
				v = uint64(1) << uint(r.Intn(64))
			}
			digits = spellU64(r, v)
		case c < 6:
			kind = "u64-long"
			digits = randDigits(r, r.Range(15, 24))
		case c < 9:
			kind = "u64-nonhex"
			b := []byte(randDigits(r, r.Range(1, 24)))
			bad := []byte("gGxX \"\\z:/@`-")
			b[r.Intn(len(b))] = bad[r.Intn(len(bad))]
			if r.Chance(1, 2) && len(b) > 17 {
				b[16+r.Intn(len(b)-16)] = 'g'
			}
			digits = string(b)
		default:
			kind = "u64-empty-or-odd-frame"
			digits = randDigits(r, r.Intn(3))
		}
		tok := []byte(`"0x` + digits + `"`)
		framed := true
		if r.Chance(1, 12) { // odd framing: positions are stripped, not contents
			tok = []byte("[1" + "X" + digits + "]")
			framed = false
		}
		k, v := u64Obs(tok)
		ok, msg := true, ""
		if framed {
			ok, msg = u64Oracle(digits, k, v)
		} else if k == "panic" {
			ok, msg = false, "panic"
		}
		out.Add(lib.Case{Coq: fmt.Sprintf("CU64 %s %s", lib.CBytes(tok), outcomeN(k, v)),
			Desc: map[string]any{"op": "Uint64.UnmarshalJSON", "token": string(tok), "impl": k, "value": v},
			Kind: kind, Nontrivial: len(tok) >= 5, OracleOK: ok, OracleMsg: msg, Size: len(tok)})
		if i%4 == 0 {
			k, v := byteObs(tok)
			ok, msg := true, ""
			if framed {
				ok, msg = u64Oracle(digits, k, v)
				if !ok && k == "ok" && strings.HasPrefix(msg, "valid quantity") {
					// Byte truncates to 8 bits
					n := new(big.Int)
					n.SetString("0"+digits, 16)
					if n.BitLen() <= 64 && v == n.Uint64()%256 {
						ok, msg = true, ""
					}
				}
			}
			out.Add(lib.Case{Coq: fmt.Sprintf("CByte %s %s", lib.CBytes(tok), outcomeN(k, v)),
				Desc: map[string]any{"op": "Byte.UnmarshalJSON", "token": string(tok), "impl": k, "value": v},
				Kind: "byte-" + kind, Nontrivial: len(tok) >= 5, OracleOK: ok, OracleMsg: msg, Size: len(tok)})
		}
	}

	// (3) sequences of decodes / writes into one destination
	for i := 0; i < nSeq; i++ {
		var hb eth.Bytes
		nops := r.Range(1, 6)
		var opsC, resC []string
		var descs []any
		ok, msg := true, ""
		size := 0
		for j := 0; j < nops; j++ {
			n := r.Intn(40)
			if r.Chance(1, 8) {
				n = r.Range(100, 600)
			}
			if cfg.Thorough() && r.Chance(1, 20) {
				n = r.Range(1000, 4096)
			}
			val := r.Bytes(n)
			if r.Chance(1, 3) { // Write
				var perr error
				p, _ := lib.Catch(func() { _, perr = hb.Write(val) })
				opsC = append(opsC, "DWrite "+lib.CBytes(val))
				resC = append(resC, lib.CPair(lib.CBool(!p && perr == nil), lib.CBytes(hb)))
				descs = append(descs, map[string]any{"op": "Write", "len": n})
				if p || !bytes.Equal(hb, val) {
					ok, msg = false, "Write left wrong contents"
				}
				size += n
				continue
			}
			hx := []byte(hex.EncodeToString(val))
			for k := range hx {
				if hx[k] >= 'a' && r.Chance(1, 3) {
					hx[k] = hx[k] - 'a' + 'A'
				}
			}
			valid := true
			switch r.Intn(8) {
			case 0:
				if len(hx) > 0 {
					hx[r.Intn(len(hx))] = "gz\" x"[r.Intn(5)]
					valid = false
				}
			case 1:
				hx = append(hx, '7')
				valid = false
			}
			tok := []byte(`"0x` + string(hx) + `"`)
			if r.Chance(1, 15) {
				tok = []byte([]string{"null", `""`, `"0x"`, `"0"`, "0", ""}[r.Intn(6)])
				valid = len(tok) >= 4
				val = nil
			}
			var perr error
			p, _ := lib.Catch(func() { perr = hb.UnmarshalJSON(append([]byte(nil), tok...)) })
			opsC = append(opsC, "DUnmarshal "+lib.CBytes(tok))
			resC = append(resC, lib.CPair(lib.CBool(!p && perr == nil), lib.CBytes(hb)))
			descs = append(descs, map[string]any{"op": "UnmarshalJSON", "token_len": len(tok), "valid": valid})
			size += len(tok)
			switch {
			case p:
				ok, msg = false, "panic in Bytes.UnmarshalJSON"
			case valid && (perr != nil || !bytes.Equal(hb, val)):
				ok, msg = false, "valid byte string decoded wrongly (stale or wrong bytes)"
			case !valid && perr == nil:
				ok, msg = false, "invalid byte string accepted"
			}
		}
		out.Add(lib.Case{Coq: fmt.Sprintf("CSeq %s %s", lib.CList(opsC), lib.CList(resC)),
			Desc: map[string]any{"op": "bytes-sequence", "ops": descs},
			Kind: "bytes-seq", Nontrivial: nops >= 2, OracleOK: ok, OracleMsg: msg, Size: size})
	}

	// (4) DecodeHex / EncodeHex
	for i := 0; i < nHex; i++ {
		val := r.Bytes(r.Intn(48))
		enc := eth.EncodeHex(val)
		ok := enc == "0x"+hex.EncodeToString(val)
		out.Add(lib.Case{Coq: fmt.Sprintf("CEncodeHex %s %s", lib.CBytes(val), lib.CStr(enc)),
			Desc: map[string]any{"op": "EncodeHex", "len": len(val)}, Kind: "encodehex", Nontrivial: len(val) > 0,
			OracleOK: ok, OracleMsg: "EncodeHex differs from encoding/hex", Size: len(val)})
		s := hex.EncodeToString(val)
		want := val
		switch r.Intn(5) {
		case 0:
			s = "0x" + s
		case 1:
			s = "0X" + strings.ToUpper(s)
		case 2: // odd number of digits: leading zero digit implied
			if len(s) > 0 && s[0] == '0' {
				s = "0x" + s[1:]
			}
		case 3: // invalid: prefix decoded so far is returned, no oracle beyond no-panic
			if len(s) > 2 {
				b := []byte(s)
				b[r.Intn(len(b))] = 'q'
				s = string(b)
				want = nil
			}
		}
		var got []byte
		p, _ := lib.Catch(func() { got = eth.DecodeHex(s) })
		ok = !p && (want == nil || bytes.Equal(got, want))
		out.Add(lib.Case{Coq: fmt.Sprintf("CDecodeHex %s %s", lib.CStr(s), lib.CBytes(got)),
			Desc: map[string]any{"op": "DecodeHex", "s": s}, Kind: "decodehex", Nontrivial: len(s) > 2,
			OracleOK: ok, OracleMsg: "DecodeHex wrong or panicked", Size: len(s)})
	}

	// (5) bint
	bintEnc := func(v uint64, pad int, buf []byte) {
		padC := "None"
		if pad > 0 {
			padC = "(Some " + lib.CBytes(buf) + ")"
		}
		orig := append([]byte(nil), buf...)
		var enc []byte
		p, _ := lib.Catch(func() { enc = bint.Encode(buf, v) })
		need := len(new(big.Int).SetUint64(v).Bytes())
		if need == 0 {
			need = 1
		}
		ok, msg := true, ""
		resC := lib.CPanic
		if !p {
			resC = lib.COk(lib.CBytes(enc))
			zeroed := bytes.Equal(orig, make([]byte, len(orig)))
			if zeroed && (new(big.Int).SetBytes(enc).Uint64() != v || bint.Decode(enc) != v || (pad > 0 && len(enc) != pad)) {
				ok, msg = false, "round trip failed"
			}
			if pad == 0 && len(enc) != need {
				ok, msg = false, fmt.Sprintf("nil buffer: encoding has %d bytes, the exact (minimal) encoding has %d", len(enc), need)
			}
			if pad > 0 && pad < need {
				ok, msg = false, "too-small buffer accepted"
			}
		} else if pad == 0 || pad >= need {
			ok, msg = false, fmt.Sprintf("Encode panicked on a large enough buffer (pad %d, value needs %d bytes)", pad, need)
		}
		out.Add(lib.Case{Coq: fmt.Sprintf("CBintEnc %s %s %s", padC, lib.CN(v), resC),
			Desc: map[string]any{"op": "bint.Encode", "pad": pad, "n": v}, Kind: "bint-encode", Nontrivial: pad >= 1,
			OracleOK: ok, OracleMsg: msg, Size: pad})
	}
	// boundary corpus: for every byte count k the smallest and the largest value with exactly
	// k significant bytes (and neighbours), into nil, k-1, k, k+1 and 32 bytes
	for k := 1; k <= 8; k++ {
		lo := uint64(1) << uint(8*(k-1))
		hi := lo<<7 | (lo<<7 - 1) // 2^(8k-1) + ... : top byte 0x7f.., exactly k bytes
		if k == 1 {
			lo = 1
		}
		mx := ^uint64(0) >> uint(64-8*k)
		for _, v := range []uint64{lo, lo + 1, hi, mx} {
			for j, pad := range []int{0, k - 1, k, k + 1, 32} {
				if j == 1 && pad == 0 {
					continue // k-1 = 0 would be the nil buffer again
				}
				var buf []byte
				if pad > 0 {
					buf = make([]byte, pad)
				}
				bintEnc(v, pad, buf)
			}
		}
	}
	bintEnc(0, 0, nil)
	bintEnc(0, 1, make([]byte, 1))
	for i := 0; i < nBint; i++ {
		var v uint64
		switch r.Intn(4) {
		case 0:
			v = r.U64()
		case 1:
			v = r.U64() >> uint(r.Intn(64))
		case 2:
			v = uint64(r.Intn(3))
		default:
			v = uint64(1)<<uint(r.Intn(64)) - uint64(r.Intn(2))
		}
		pad := r.Intn(41) // 0 = nil buffer
		if cfg.Thorough() {
			pad = i % 41
		}
		var buf []byte
		if pad > 0 {
			buf = make([]byte, pad)
			if r.Chance(1, 6) { // non-zeroed buffer: untouched bytes must stay
				buf = r.Bytes(pad)
			}
		}
		bintEnc(v, pad, buf)
		b := r.Bytes(r.Intn(41))
		if r.Chance(1, 2) && len(b) > 8 {
			for k := 0; k < len(b)-8; k++ {
				b[k] = 0
			}
		}
		var dv uint64
		p, _ := lib.Catch(func() { dv = bint.Decode(b) })
		want := new(big.Int).SetBytes(b)
		want.And(want, new(big.Int).SetUint64(^uint64(0)))
		ok := !p && dv == want.Uint64()
		out.Add(lib.Case{Coq: fmt.Sprintf("CBintDec %s %s", lib.CBytes(b), lib.CN(dv)),
			Desc: map[string]any{"op": "bint.Decode", "len": len(b)}, Kind: "bint-decode", Nontrivial: len(b) >= 1,
			OracleOK: ok, OracleMsg: "Decode differs from math/big low 64 bits", Size: len(b)})
	}
	out.Add(lastCase)
	return out.Flush()
}

func firstOr(xs []string, d string) string {
	if len(xs) > 0 {
		return xs[0]
	}
	return d
}
