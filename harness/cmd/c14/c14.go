package main

import (
	"context"
	"encoding/json"
	"fmt"
	"io"
	"log/slog"
	"os"
	"sort"
	"strings"
	"sync"

	"github.com/holiman/uint256"
	"github.com/indexsupply/shovel/dig"
	"github.com/indexsupply/shovel/eth"
	"github.com/indexsupply/shovel/jrpc2"
	"github.com/indexsupply/shovel/shovel/config"
	"github.com/indexsupply/shovel/shovel/glf"
	"github.com/indexsupply/shovel/wctx"
	"github.com/indexsupply/shovel/wpg"
	"github.com/jackc/pgx/v5"
	"github.com/jackc/pgx/v5/pgconn"
	"verif/harness/lib"
	"verif/harness/simnode"
)

const c14Header = `From Shovel Require Import Base.Outcome Model.Plan Model.Provides Corr.RunC14.
From Coq Require Import List String. Import ListNotations. Open Scope string_scope.`

// ---- the field names of dig.logWithCtx.get, the item each reads, its column type, and the node's value
type fieldDef struct {
	name  string
	class string // ctx header tx receipt log trace
	typ   string
	want  func(it item) string
}

type item struct {
	b  *simnode.Block
	t  *simnode.Tx
	l  *simnode.Log
	tr *simnode.Trace
	ti int // index of the trace within its transaction
}

func hx(b []byte) string     { return fmt.Sprintf("0x%x", b) }
func dec(n uint64) string    { return fmt.Sprintf("%d", n) }
func str(s string) string    { return "s:" + s }
func (f fieldDef) sel() bool { return f.class != "ctx" || f.name == "chain_id" }

const srcName, igName, chainID = "simsrc", "c14ig", uint64(7)

var fields = []fieldDef{
	{"src_name", "ctx", "text", func(it item) string { return str(srcName) }},
	{"ig_name", "ctx", "text", func(it item) string { return str(igName) }},
	{"chain_id", "ctx", "numeric", func(it item) string { return dec(chainID) }},
	{"block_hash", "header", "bytea", func(it item) string { return hx(it.b.Hash) }},
	{"block_num", "header", "numeric", func(it item) string { return dec(it.b.Num) }},
	{"block_time", "header", "numeric", func(it item) string { return dec(it.b.Time) }},
	{"tx_hash", "tx", "bytea", func(it item) string { return hx(it.t.Hash) }},
	{"tx_idx", "tx", "int", func(it item) string { return dec(it.t.Idx) }},
	{"tx_signer", "tx", "bytea", func(it item) string { return hx(it.t.From) }},
	{"tx_to", "tx", "bytea", func(it item) string { return hx(it.t.To) }},
	{"tx_value", "tx", "numeric", func(it item) string { return dec(it.t.Value) }},
	{"tx_input", "tx", "bytea", func(it item) string { return hx(it.t.Input) }},
	{"tx_type", "tx", "int", func(it item) string { return dec(uint64(it.t.Type)) }},
	{"tx_status", "receipt", "int", func(it item) string { return dec(uint64(it.t.Status)) }},
	{"log_idx", "log", "int", func(it item) string { return dec(it.l.Idx) }},
	{"tx_gas_used", "receipt", "numeric", func(it item) string { return dec(it.t.GasUsed) }},
	{"tx_gas_price", "tx", "numeric", func(it item) string { return dec(it.t.GasPrice) }},
	{"tx_effective_gas_price", "receipt", "numeric", func(it item) string { return dec(it.t.EffectiveGasPrice) }},
	{"tx_contract_address", "receipt", "bytea", func(it item) string { return hx(it.t.ContractAddress) }},
	{"tx_max_priority_fee_per_gas", "tx", "numeric", func(it item) string { return dec(it.t.MaxPrio) }},
	{"tx_max_fee_per_gas", "tx", "numeric", func(it item) string { return dec(it.t.MaxFee) }},
	{"tx_nonce", "tx", "numeric", func(it item) string { return dec(it.t.Nonce) }},
	{"log_addr", "log", "bytea", func(it item) string { return hx(it.l.Address) }},
	{"trace_action_call_type", "trace", "text", func(it item) string { return str(it.tr.CallType) }},
	{"trace_action_idx", "trace", "int", func(it item) string { return dec(uint64(it.ti)) }},
	{"trace_action_from", "trace", "bytea", func(it item) string { return hx(it.tr.From) }},
	{"trace_action_to", "trace", "bytea", func(it item) string { return hx(it.tr.To) }},
	{"trace_action_value", "trace", "numeric", func(it item) string { return dec(it.tr.Value) }},
}

func fieldByName(n string) *fieldDef {
	for i := range fields {
		if fields[i].name == n {
			return &fields[i]
		}
	}
	return nil
}

// canonical spelling of a value the row builder handed to CopyFrom
func canon(v any) string {
	switch x := v.(type) {
	case nil:
		return "nil"
	case []byte:
		return hx(x)
	case eth.Bytes:
		return hx(x)
	case string:
		return str(x)
	case uint64:
		return dec(x)
	case int:
		return fmt.Sprintf("%d", x)
	case eth.Uint64:
		return dec(uint64(x))
	case eth.Byte:
		return dec(uint64(x))
	case *uint256.Int:
		return x.Dec()
	case uint256.Int:
		return x.Dec()
	case bool:
		return fmt.Sprint(x)
	}
	return fmt.Sprintf("?%T:%v", v, v)
}

// ---- Go-level wpg.Conn capturing CopyFrom
type fakeConn struct {
	cols []string
	rows [][]string
}

func (f *fakeConn) CopyFrom(ctx context.Context, table pgx.Identifier, cols []string, src pgx.CopyFromSource) (int64, error) {
	f.cols = append([]string(nil), cols...)
	var n int64
	for src.Next() {
		vals, err := src.Values()
		if err != nil {
			return n, err
		}
		row := make([]string, len(vals))
		for i, v := range vals {
			row[i] = canon(v)
		}
		f.rows = append(f.rows, row)
		n++
	}
	return n, src.Err()
}
func (f *fakeConn) Exec(context.Context, string, ...any) (pgconn.CommandTag, error) {
	return pgconn.CommandTag{}, fmt.Errorf("fake conn: Exec not expected")
}
func (f *fakeConn) QueryRow(context.Context, string, ...any) pgx.Row { return nil }
func (f *fakeConn) Query(context.Context, string, ...any) (pgx.Rows, error) {
	return nil, fmt.Errorf("fake conn: Query not expected")
}

var _ wpg.Conn = (*fakeConn)(nil)

// ---- one case
type caseDesc struct {
	Mode     string          `json:"mode"` // tx log trace
	Sel      []string        `json:"sel"`
	Needs    []string        `json:"needs"`
	Plan     string          `json:"plan"`
	Fetches  []string        `json:"fetches"`
	Rows     int             `json:"rows"`
	WantRows int             `json:"want_rows"`
	Supplied map[string]bool `json:"supplied"`
	Bad      string          `json:"not_supplied,omitempty"`
	Detail   string          `json:"detail,omitempty"`
	Err      string          `json:"err,omitempty"`
	// a step of a sequence on ONE caching client: the whole sequence (to re-run it) and the position of this step
	// table columns the user declared up front for required bookkeeping fields (with no entry under `block`)
	Pre []string `json:"predeclared,omitempty"`
	// every selected field is stored under a column named c_<field> instead of <field>
	Renamed bool      `json:"renamed,omitempty"`
	Seq     []seqStep `json:"seq,omitempty"`
	Step    int       `json:"step,omitempty"`
}

// one Get + Insert of a sequence
type seqStep struct {
	Sel   []string `json:"sel"`
	Event bool     `json:"event"`
	// Fail: the first exchange of this kind (blocks headers receipts logs traces) of the step is answered with HTTP 500
	Fail string `json:"fail,omitempty"`
	// Fault: how it fails: "" / "http500" = HTTP 500; soft faults a node really produces, put into the reply once:
	// "null" ("result": null), "error" (an error member instead of the result), "empty" (an empty list where items exist)
	Fault string `json:"fault,omitempty"`
}

// session: the client shared by the steps of a sequence and what its caches hold
type session struct {
	c      *jrpc2.Client
	url    string
	cached map[string]bool // GHeaders / GBlocks segments fetched by earlier steps (same range)
}

type env struct {
	node  *simnode.Node
	chain *simnode.Chain
	event dig.Event
	start uint64
	limit uint64
}

func newEnv() *env {
	ev := dig.Event{Name: "Transfer", Type: "event", Inputs: []dig.Input{{Indexed: true, Name: "a", Type: "address", Column: "a"}}}
	g := simnode.Gen{Start: 100, N: 3, NTopics: 2, DataLen: -1, Topics0: [][]byte{ev.SignatureHash()}, Salt: 5,
		Shape: func(bn uint64) (int, func(int) int, func(int) int) {
			// three transactions per block: two logs, NO log (a plain transfer), one log;
			// the blocks mix log-less and log-carrying transactions
			return 3, func(ti int) int { return []int{2, 0, 1}[(ti+int(bn))%3] }, func(ti int) int { return 2 + ti%2 }
		}}
	ch := simnode.NewChain(g, nil)
	// transaction inputs stay non-empty although the logs carry no data
	ctr := uint64(0x77000000)
	for bi := range ch.Blocks {
		for ti := range ch.Blocks[bi].Txs {
			ctr++
			ch.Blocks[bi].Txs[ti].Input = []byte{byte(ctr >> 24), byte(ctr >> 16), byte(ctr >> 8), byte(ctr)}
		}
	}
	return &env{node: simnode.New(ch), chain: ch, event: ev, start: 100, limit: 3}
}

func modeOf(sel []string, withEvent bool) string {
	for _, s := range sel {
		if fieldByName(s).class == "trace" {
			return "trace"
		}
	}
	if withEvent {
		return "log"
	}
	return "tx"
}

func selectable(mode string, f *fieldDef) bool {
	switch f.class {
	case "log":
		return mode == "log"
	case "trace":
		return mode == "trace"
	}
	return true
}

func runCase(e *env, sel []string, withEvent bool, ss *session) (caseDesc, string) {
	mode := modeOf(sel, withEvent)
	d := caseDesc{Mode: mode, Sel: sel, Supplied: map[string]bool{}}
	ig := config.Integration{Name: igName, Enabled: true, Table: wpg.Table{Name: "c14"}}
	if withEvent {
		ig.Event = e.event
		ig.Table.Columns = append(ig.Table.Columns, wpg.Column{Name: "a", Type: "bytea"})
	}
	d.Pre = predeclare
	hasCol := func(n string) bool {
		for _, c := range ig.Table.Columns {
			if c.Name == n {
				return true
			}
		}
		return false
	}
	for _, n := range predeclare { // a schema written out in full: the column exists, `block` does not list the field
		if !hasCol(n) {
			ig.Table.Columns = append(ig.Table.Columns, wpg.Column{Name: n, Type: preType[n]})
		}
	}
	d.Renamed = renameCols
	colName := map[string]string{} // field -> column bound to it
	for _, s := range sel {
		cn := s
		if renameCols {
			cn = "c_" + s
		}
		colName[s] = cn
		ig.Block = append(ig.Block, dig.BlockData{Name: s, Column: cn})
		if !hasCol(cn) {
			ig.Table.Columns = append(ig.Table.Columns, wpg.Column{Name: cn, Type: fieldByName(s).typ})
		}
	}
	ig.AddRequiredFields()
	for _, bd := range ig.Block {
		d.Needs = append(d.Needs, bd.Name)
	}
	dest, err := dig.New(ig.Name, ig.Event, ig.Block, ig.Table, ig.Notification, ig.FilterAGG)
	if err != nil {
		d.Err = "dig.New: " + err.Error()
		return d, ""
	}
	filter := dest.Filter()
	d.Plan = filter.String()
	e.node.Reset()
	e.node.KeepSent(true)
	url := e.node.URL() + "/nocache"
	c := jrpc2.New(url)
	if ss != nil {
		url, c = ss.url, ss.c
	}
	ctx := wctx.WithChainID(wctx.WithSrcName(context.Background(), srcName), chainID)
	var blocks []eth.Block
	conn := &fakeConn{}
	panicked, pmsg := lib.Catch(func() {
		blocks, err = c.Get(ctx, url, &filter, e.start, e.limit)
		if err != nil {
			return
		}
		_, err = dest.Insert(ctx, &sync.Mutex{}, conn, blocks)
	})
	// requests the node saw, by the kind of exchange (the single header request of logs() belongs to the logs fetch)
	seen := map[string]bool{}
	for _, x := range e.node.Sent() {
		switch x.Kind {
		case "blocks":
			seen["GBlocks"] = true
		case "headers":
			seen["GHeaders"] = true
		case "receipts":
			seen["GReceipts"] = true
		case "logs":
			seen["GLogs"] = true
		case "traces":
			seen["GTraces"] = true
		}
	}
	if ss != nil {
		// a segment an earlier step of the sequence fetched is served from the client's cache
		if filter.UseBlocks && !seen["GBlocks"] && ss.cached["GBlocks"] {
			seen["GBlocks"] = true
		}
		if !filter.UseBlocks && filter.UseHeaders && !seen["GHeaders"] && ss.cached["GHeaders"] {
			seen["GHeaders"] = true
		}
		if !panicked && err == nil { // a failed fetch leaves nothing in the cache
			for _, k := range []string{"GBlocks", "GHeaders"} {
				if seen[k] {
					ss.cached[k] = true
				}
			}
		} else if (filter.UseBlocks && seen["GBlocks"] && !ss.cached["GBlocks"]) || (!filter.UseBlocks && filter.UseHeaders && seen["GHeaders"] && !ss.cached["GHeaders"]) {
			// the base fetch itself may have been the one that succeeded before a later request failed: it is cached then
			for _, x := range e.node.Sent() {
				if (x.Kind == "blocks" || x.Kind == "headers") && x.Status/100 == 2 {
					ss.cached[map[string]string{"blocks": "GBlocks", "headers": "GHeaders"}[x.Kind]] = true
				}
			}
		}
	}
	if !seen["GBlocks"] && !seen["GHeaders"] {
		seen["GNumbers"] = true
	}
	for _, k := range []string{"GNumbers", "GHeaders", "GBlocks", "GReceipts", "GLogs", "GTraces"} {
		if seen[k] {
			d.Fetches = append(d.Fetches, k)
		}
	}
	switch {
	case panicked:
		d.Err = "panic: " + pmsg
	case err != nil:
		d.Err = err.Error()
	}
	// expected items
	var items []item
	for bi := range e.chain.Blocks {
		b := &e.chain.Blocks[bi]
		for ti := range b.Txs {
			t := &b.Txs[ti]
			switch mode {
			case "tx":
				items = append(items, item{b: b, t: t})
			case "log":
				for li := range t.Logs {
					items = append(items, item{b: b, t: t, l: &t.Logs[li]})
				}
			case "trace":
				for k := range t.Traces {
					items = append(items, item{b: b, t: t, tr: &t.Traces[k], ti: k})
				}
			}
		}
	}
	d.WantRows, d.Rows = len(items), len(conn.rows)
	col := func(name string) int { // position of the column bound to field `name`
		if cn, ok := colName[name]; ok {
			name = cn
		}
		for i, c := range conn.cols {
			if c == name {
				return i
			}
		}
		return -1
	}
	// rows are produced block by block, transaction by transaction, item by item: compare positionally
	// after sorting both by (block, tx, item) as far as the row tells; a row that cannot be matched fails every field
	find := func(row []string) *item {
		bn, tx := col("block_num"), col("tx_idx")
		if bn < 0 || tx < 0 {
			return nil
		}
		for i := range items {
			it := &items[i]
			if dec(it.b.Num) != row[bn] || dec(it.t.Idx) != row[tx] {
				continue
			}
			switch mode {
			case "log":
				if k := col("log_idx"); k < 0 || dec(it.l.Idx) != row[k] {
					continue
				}
			case "trace":
				if k := col("trace_action_idx"); k < 0 || dec(uint64(it.ti)) != row[k] {
					continue
				}
			}
			return it
		}
		return nil
	}
	for _, s := range sel {
		f := fieldByName(s)
		ok := d.Err == "" && len(conn.rows) == len(items) && len(items) > 0
		if ok {
			k := col(s)
			seenItems := map[*item]bool{}
			for _, row := range conn.rows {
				it := find(row)
				if it == nil || k < 0 || seenItems[it] || row[k] != f.want(*it) {
					ok = false
					if d.Detail == "" {
						got := "?"
						if k >= 0 {
							got = row[k]
						}
						want := "(no such item)"
						if it != nil {
							want = f.want(*it)
						}
						d.Detail = fmt.Sprintf("%s: stored %s, node has %s", s, got, want)
					}
					break
				}
				seenItems[it] = true
			}
		} else if d.Detail == "" {
			d.Detail = fmt.Sprintf("%d rows stored, %d items on the node", len(conn.rows), len(items))
		}
		d.Supplied[s] = ok
		if !ok && d.Bad == "" {
			d.Bad = s
		}
	}
	// the required bookkeeping columns are stored too, with the node's indices (never NULL / a zero default)
	reqCols := []string{"ig_name", "src_name", "block_num", "tx_idx"}
	switch mode {
	case "log":
		reqCols = append(reqCols, "log_idx")
	case "trace":
		reqCols = append(reqCols, "trace_action_idx")
	}
	if d.Err == "" && d.Bad == "" && len(conn.rows) == len(items) {
		for _, rc := range reqCols {
			k := col(rc)
			bad := k < 0
			if !bad {
				f := fieldByName(rc)
				for _, row := range conn.rows {
					it := find(row)
					if it == nil || row[k] != f.want(*it) {
						bad = true
						break
					}
				}
			}
			if bad {
				d.Bad = rc
				d.Detail = fmt.Sprintf("required column %s is not stored with the node's value (columns copied: %v)", rc, conn.cols)
				break
			}
		}
	}
	// Coq term
	m := map[string]string{"tx": "MTx", "log": "MLog", "trace": "MTrace"}[mode]
	q := func(xs []string) string {
		ys := make([]string, len(xs))
		for i, x := range xs {
			ys[i] = `"` + x + `"`
		}
		return "[" + strings.Join(ys, "; ") + "]"
	}
	sup := make([]string, len(sel))
	for i, s := range sel {
		sup[i] = fmt.Sprintf(`("%s", %s)`, s, lib.CBool(d.Supplied[s]))
	}
	coq := fmt.Sprintf("CPlan %s %s %s [%s] [%s]", m, q(sel), q(d.Needs), strings.Join(d.Fetches, "; "), strings.Join(sup, "; "))
	return d, coq
}

func add(out *lib.Out, e *env, sel []string, withEvent bool, kind string) {
	addStep(out, e, sel, withEvent, kind, nil, nil, 0)
}

// the required bookkeeping columns a user may have declared in table.columns without listing them under `block`
var preType = map[string]string{"ig_name": "text", "src_name": "text", "block_num": "numeric", "tx_idx": "int", "log_idx": "int",
	"abi_idx": "int2", "trace_action_idx": "int2"}
var preNames = []string{"ig_name", "src_name", "block_num", "tx_idx", "log_idx", "abi_idx", "trace_action_idx"}
var predeclare []string

// renameCols: the selected fields are stored under columns named c_<field>
var renameCols bool

func addRenamed(out *lib.Out, e *env, sel []string, withEvent bool, kind string) {
	renameCols = true
	defer func() { renameCols = false }()
	add(out, e, sel, withEvent, kind)
}

// addPre: one case with table columns pre-declared
func addPre(out *lib.Out, e *env, sel []string, withEvent bool, kind string, pre []string) {
	predeclare = pre
	defer func() { predeclare = nil }()
	add(out, e, sel, withEvent, kind)
}

// addSeq runs a sequence of integrations over the same range on ONE caching client
func addSeq(out *lib.Out, e *env, seq []seqStep, kind string) {
	url := e.node.URL() + "/cached"
	ss := &session{c: jrpc2.New(url), url: url, cached: map[string]bool{}}
	for i, st := range seq {
		if st.Fail != "" {
			done := false
			k := st.Fail
			// the element of the exchange that carries the data (logs: [header, eth_getLogs])
			pos := 0
			if k == "logs" {
				pos = 1
			}
			switch st.Fault {
			case "", "http500":
				e.node.Pre(func(x *simnode.Exchange) {
					if !done && x.Kind() == k {
						done = true
						x.Status = 500
					}
				})
			default:
				c := map[string]simnode.Corruption{
					"null":  {Kind: "null-result", Pos: pos},
					"error": {Kind: "error-only", Pos: pos, Arg: -32000},
					"empty": {Kind: "items-empty", Pos: pos},
				}[st.Fault]
				e.node.Post(func(x *simnode.Exchange) {
					if !done && x.Kind() == k {
						done = true
						c.Apply(x)
					}
				})
			}
		}
		addStep(out, e, st.Sel, st.Event, kind, ss, seq, i)
		e.node.Pre(nil)
		e.node.Post(nil)
	}
}

func addStep(out *lib.Out, e *env, sel []string, withEvent bool, kind string, ss *session, seq []seqStep, step int) {
	d, coq := runCase(e, sel, withEvent, ss)
	d.Seq, d.Step = seq, step
	if len(seq) > 0 && seq[step].Fail != "" && d.Err != "" && !strings.HasPrefix(d.Err, "panic") && d.Rows == 0 {
		// the injected fault: the step fails (an error, nothing stored), nothing to compare.  When the client
		// ACCEPTS the faulty reply the step is judged like any other: every stored column = the node's value
		f := seq[step].Fault
		if f == "" {
			f = "http500"
		}
		out.Count("injected-" + f + "-" + seq[step].Fail)
		return
	}
	if coq == "" {
		coq = `CPlan MTx [] ["?"] [] []`
	}
	ok := d.Bad == "" && d.Err == ""
	msg := ""
	if !ok {
		msg = fmt.Sprintf("selected field %s is not stored with the node's value (%s) plan=%s requests=%v", d.Bad, d.Detail, d.Plan, d.Fetches)
		if len(d.Pre) > 0 {
			msg += fmt.Sprintf(" -- table.columns pre-declares %v, block lists only %v", d.Pre, sel)
		}
		if len(seq) > 0 {
			var plans []string
			for _, st := range seq[:step+1] {
				f := ""
				if st.Fail != "" {
					f = "/FAIL " + st.Fail + " " + st.Fault
				}
				plans = append(plans, fmt.Sprintf("%v/event=%v%s", st.Sel, st.Event, f))
			}
			msg += fmt.Sprintf(" -- step %d of a sequence on one caching client: %s", step+1, strings.Join(plans, " ; "))
		}
		if d.Err != "" {
			msg = "indexing failed: " + d.Err
		}
	}
	nontrivial := false
	for _, s := range sel {
		if fieldByName(s).class != "ctx" {
			nontrivial = true
		}
	}
	out.Add(lib.Case{Coq: coq, Desc: d, Kind: kind, Nontrivial: nontrivial, OracleOK: ok, OracleMsg: msg, Size: len(sel)})
	out.Count("mode-" + d.Mode)
	out.Count("plan-" + d.Plan)
}

// membership signature + item class + trace prefix, as Model/PlanCheck.v
func classKey(tables map[string][]string, f *fieldDef) string {
	k := ""
	for _, t := range []string{"header", "block", "receipt", "log", "trace"} {
		in := "0"
		for _, n := range tables[t] {
			if n == f.name {
				in = "1"
			}
		}
		k += in
	}
	return k + "/" + f.class + "/" + fmt.Sprint(strings.HasPrefix(f.name, "trace_"))
}

func runC14(cfg Cfg) error {
	slog.SetDefault(slog.New(slog.NewTextHandler(io.Discard, nil)))
	e := newEnv()
	defer e.node.Close()
	out := lib.NewOut("C14", cfg.Out, c14Header, "run", 100)
	out.Rule = "dig.New(config.AddRequiredFields(sel)).Filter() -> jrpc2.Client.Get against the scripted node (every field of every item distinct and non-zero) -> Integration.Insert into a Go-level wpg.Conn capturing CopyFrom: every selectable field alone, ALL unordered pairs exhaustively, one representative set per subset of membership classes, random larger sets; the same with table.columns pre-declaring the required bookkeeping columns (ig_name src_name block_num tx_idx log_idx abi_idx trace_action_idx: each singly and all together for every single field, all together for a sample of pairs and class representatives) while `block` does not list them; the same streams with every selected field stored under a column named c_<field> (every single, a sample of pairs and class representatives); without an event (transaction / trace rows) and with an event (log rows); 52 sequences of 2-3 integrations with different plans over the same range on ONE caching client (every ordered pair within the plans sharing the header cache and within those sharing the block cache, mixed triples), and sequences [X with one of its requests failing once; another plan Y; retry of X] for every plan X, every request kind of X, three Y; and [X with a soft fault in one reply (result null, error member; empty list for traces) ; retry of X]. Oracle: every stored column of every row equals the node's value for that item and the number of rows equals the number of items. Model-diff: required fields, requests seen by the node = dispatch(glf.New), observed supplied-matrix = Provides. non-trivial = at least one non-context field selected"
	if cfg.Replay != "" {
		raw, err := os.ReadFile(cfg.Replay)
		if err != nil {
			return err
		}
		var rep struct {
			FailingInput struct {
				Desc caseDesc `json:"desc"`
			} `json:"failing_input"`
		}
		if err := json.Unmarshal(raw, &rep); err != nil {
			return err
		}
		d := rep.FailingInput.Desc
		if len(d.Sel) == 0 {
			return fmt.Errorf("replay file has no failing input")
		}
		if len(d.Seq) > 0 {
			addSeq(out, e, d.Seq, "replay-sequence")
		} else {
			renameCols = d.Renamed
			addPre(out, e, d.Sel, d.Mode == "log", "replay", d.Pre)
			renameCols = false
		}
		return out.Flush()
	}
	rng := lib.NewRNG(cfg.Seed)
	var names []*fieldDef
	for i := range fields {
		if fields[i].sel() {
			names = append(names, &fields[i])
		}
	}
	valid := func(sel []*fieldDef, withEvent bool) ([]string, bool) {
		var s []string
		for _, f := range sel {
			s = append(s, f.name)
		}
		mode := modeOf(s, withEvent)
		if withEvent && mode != "log" {
			return s, false // an event with trace fields produces no rows by construction (processTx)
		}
		for _, f := range sel {
			if !selectable(mode, f) {
				return s, false
			}
		}
		return s, true
	}
	both := func(sel []*fieldDef, kind string) {
		for _, ev := range []bool{false, true} {
			if s, ok := valid(sel, ev); ok {
				add(out, e, s, ev, kind)
			}
		}
	}
	// sequences of integrations with different plans over the SAME range on ONE caching client: what an
	// earlier Get attached to the shared cached blocks (hash-only transactions of logs()/traces(), receipts,
	// traces) must not keep a later one from storing the node's values
	hGroup := []seqStep{
		{Sel: []string{"block_time", "tx_hash", "log_addr"}, Event: true},                                    // h,l
		{Sel: []string{"block_time", "tx_status", "tx_signer", "tx_to", "tx_type", "tx_hash"}, Event: false}, // h,r
		{Sel: []string{"block_time", "tx_gas_used", "tx_to", "tx_type", "trace_action_from"}, Event: false},  // h,r,t
		{Sel: []string{"block_time", "tx_contract_address", "tx_signer", "tx_to", "log_idx"}, Event: true},   // h,r with an event
		{Sel: []string{"block_time", "block_hash", "tx_effective_gas_price", "tx_signer"}, Event: false},     // h,r
	}
	bGroup := []seqStep{
		{Sel: []string{"tx_input", "tx_signer", "tx_to", "tx_type", "tx_gas_price"}, Event: false},        // b
		{Sel: []string{"tx_value", "log_addr", "tx_to"}, Event: true},                                     // l,b
		{Sel: []string{"tx_nonce", "tx_status", "tx_signer", "tx_type"}, Event: false},                    // b,r
		{Sel: []string{"tx_input", "trace_action_to", "tx_signer"}, Event: false},                         // b,t
		{Sel: []string{"tx_max_fee_per_gas", "tx_gas_used", "trace_action_value", "tx_to"}, Event: false}, // b,r,t
	}
	nseq := 0
	for _, g := range [][]seqStep{hGroup, bGroup} {
		for i := range g {
			for j := range g {
				if i == j {
					continue
				}
				addSeq(out, e, []seqStep{g[i], g[j]}, "sequence-2")
				nseq++
			}
		}
	}
	for k := 0; k < 12; k++ { // triples, the two caches mixed in
		a, b, c := hGroup[k%5], hGroup[(k+1+k/5)%5], bGroup[k%5]
		order := [][]seqStep{{a, b, c}, {a, c, b}, {c, a, b}, {b, a, hGroup[(k+3)%5]}}[k%4]
		addSeq(out, e, order, "sequence-3")
		nseq++
	}
	// sequences with a FAILED request: plan X with its k-th kind of request failing once, then another plan Y
	// (same or other cache), then the retry of X; nothing a failed Get left behind may reach a later one
	kindsOf := func(st seqStep) []string {
		d, _ := runCase(e, st.Sel, st.Event, nil)
		var ks []string
		for _, f := range d.Fetches {
			if k := map[string]string{"GBlocks": "blocks", "GHeaders": "headers", "GReceipts": "receipts", "GLogs": "logs", "GTraces": "traces"}[f]; k != "" {
				ks = append(ks, k)
			}
		}
		return ks
	}
	all := append(append([]seqStep{}, hGroup...), bGroup...)
	nfail := 0
	for xi, x := range all {
		for ki, k := range kindsOf(x) {
			xf := x
			xf.Fail = k
			for yo := 0; yo < 3; yo++ {
				// one neighbour of the same cache group, two of the other group
				var y seqStep
				switch yo {
				case 0:
					y = all[(xi/5)*5+(xi+1+ki)%5]
				default:
					y = all[((xi/5+1)%2)*5+(xi+ki+2*yo)%5]
				}
				addSeq(out, e, []seqStep{xf, y, x}, "sequence-failure")
				nfail++
			}
		}
	}
	// soft faults, once, followed by the retry: "result": null and an error member for every request kind of every
	// plan; an empty list where items exist for traces (the one kind where the client can tell: every other empty
	// list is indistinguishable from a block without transactions / a range without matching logs)
	nsoft := 0
	for _, x := range all {
		for _, k := range kindsOf(x) {
			faults := []string{"null", "error"}
			if k == "traces" {
				faults = append(faults, "empty")
			}
			for _, f := range faults {
				xf := x
				xf.Fail, xf.Fault = k, f
				addSeq(out, e, []seqStep{xf, x}, "sequence-soft-fault")
				nsoft++
			}
		}
	}
	out.Notes["sequences"] = nseq
	out.Notes["failure_sequences"] = nfail
	out.Notes["soft_fault_sequences"] = nsoft
	// singles
	for _, f := range names {
		both([]*fieldDef{f}, "single")
	}
	// table.columns pre-declaring required bookkeeping columns that `block` does not list: each singly and all
	// together, for every single field; all together for a sample of the pairs and of the class representatives
	pres := [][]string{preNames}
	for _, n := range preNames {
		pres = append(pres, []string{n})
	}
	bothPre := func(sel []*fieldDef, kind string, pre []string) {
		for _, ev := range []bool{false, true} {
			if s, ok := valid(sel, ev); ok {
				addPre(out, e, s, ev, kind, pre)
			}
		}
	}
	for _, f := range names {
		for _, pre := range pres {
			bothPre([]*fieldDef{f}, "single-predeclared", pre)
		}
	}
	// column name != field name: every single field (the bookkeeping fields block_num / tx_idx / log_idx /
	// trace_action_idx included: the user maps them to another column), a sample of pairs and class representatives
	bothRenamed := func(sel []*fieldDef, kind string) {
		for _, ev := range []bool{false, true} {
			if s, ok := valid(sel, ev); ok {
				addRenamed(out, e, s, ev, kind)
			}
		}
	}
	for _, f := range names {
		bothRenamed([]*fieldDef{f}, "single-renamed")
	}
	// all pairs, exhaustively
	npairs := 0
	for i := range names {
		for j := i + 1; j < len(names); j++ {
			both([]*fieldDef{names[i], names[j]}, "pair")
			if npairs%7 == int(cfg.Seed)%7 {
				bothPre([]*fieldDef{names[i], names[j]}, "pair-predeclared", preNames)
			}
			if npairs%5 == (int(cfg.Seed)+2)%5 {
				bothRenamed([]*fieldDef{names[i], names[j]}, "pair-renamed")
			}
			npairs++
		}
	}
	// one representative per subset of classes
	tables := glf.VerifTables()
	classOf := map[string][]*fieldDef{}
	var keys []string
	for _, f := range names {
		k := classKey(tables, f)
		if classOf[k] == nil {
			keys = append(keys, k)
		}
		classOf[k] = append(classOf[k], f)
	}
	sort.Strings(keys)
	nsub := 0
	for mask := 1; mask < 1<<len(keys); mask++ {
		var sel []*fieldDef
		for i, k := range keys {
			if mask&(1<<i) != 0 {
				l := classOf[k]
				sel = append(sel, l[(mask+int(cfg.Seed))%len(l)])
			}
		}
		both(sel, "class-subset")
		if mask%8 == int(cfg.Seed)%8 {
			bothPre(sel, "class-subset-predeclared", preNames)
		}
		if mask%6 == (int(cfg.Seed)+3)%6 {
			bothRenamed(sel, "class-subset-renamed")
		}
		nsub++
	}
	// random larger sets
	nr := 150
	if cfg.Thorough() {
		nr = 3000
	}
	for i := 0; i < nr; i++ {
		n := rng.Range(3, 12)
		perm := make([]*fieldDef, len(names))
		copy(perm, names)
		for k := len(perm) - 1; k > 0; k-- {
			j := rng.Intn(k + 1)
			perm[k], perm[j] = perm[j], perm[k]
		}
		ev := rng.Bool()
		var sel []*fieldDef
		mode := "tx"
		if ev {
			mode = "log"
		} else if rng.Chance(1, 2) {
			mode = "trace"
		}
		for _, f := range perm {
			if len(sel) < n && selectable(mode, f) {
				sel = append(sel, f)
			}
		}
		if s, ok := valid(sel, ev); ok {
			add(out, e, s, ev, "random-set")
		}
	}
	out.Notes["pairs"] = npairs
	out.Notes["classes"] = keys
	out.Notes["class_subsets"] = nsub
	out.Notes["exhaustive"] = true
	var tk []string
	for k, v := range tables {
		tk = append(tk, fmt.Sprintf("%s=%d", k, len(v)))
	}
	sort.Strings(tk)
	out.Notes["tables"] = tk
	return out.Flush()
}
