// c14: correspondence driver of property C14 (every selectable field is actually fetched).
package main

import "verif/harness/lib"

type Cfg = lib.Cfg

func main() { lib.Main(runC14) }
