// c15-translate regenerates coq/Gen/UserInputChecks.v and coq/Gen/RequiredFields.v
// from the repository's working tree (see harness/config/translate).
package main

import (
	"flag"
	"fmt"
	"os"

	"verif/harness/config/translate"
)

func main() {
	repo := flag.String("repo", "/repo", "repository")
	out := flag.String("out", "coq/Gen", "output directory")
	flag.Parse()
	if err := translate.WriteAll(*repo, *out); err != nil {
		fmt.Fprintln(os.Stderr, "translator:", err)
		os.Exit(2)
	}
}
