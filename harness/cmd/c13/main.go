// c13: correspondence driver of property C13 (only logs of the declared event
// are decoded: signature hash and topic count).
package main

import "verif/harness/lib"

func main() { lib.Main(runC13) }
