package main

import (
	"bytes"
	"context"
	"encoding/hex"
	"encoding/json"
	"fmt"
	"os"
	"sync"

	"github.com/indexsupply/shovel/dig"
	"github.com/indexsupply/shovel/eth"
	"github.com/indexsupply/shovel/shovel/config"
	"github.com/indexsupply/shovel/wpg"
	"verif/harness/abi"
	"verif/harness/lib"
)

const c13Header = `From Shovel Require Import Base.Outcome Model.AbiType Model.AbiScan Model.AbiEnc Model.AbiParse Model.AbiSig Corr.AbiCase Corr.RunC13.
From Coq Require Import List NArith ZArith. Import ListNotations. Open Scope N_scope.`

type known struct {
	name string
	ins  []*abi.Ty
	hash string
}

func knownEvents() []known {
	e := func(kind string, bits int, indexed bool, dims ...int) *abi.Ty {
		return &abi.Ty{EKind: kind, Bits: bits, Dims: dims, Indexed: indexed}
	}
	tup := func(dims []int, cs ...*abi.Ty) *abi.Ty { return &abi.Ty{EKind: "tuple", Comps: cs, Dims: dims} }
	ks := []known{
		{"Transfer", []*abi.Ty{e("address", 0, true), e("address", 0, true), e("uint", 256, false)},
			"ddf252ad1be2c89b69c2b068fc378daa952ba7f163c4a11628f55a4df523b3ef"},
		{"Approval", []*abi.Ty{e("address", 0, true), e("address", 0, true), e("uint", 256, false)},
			"8c5be1e5ebec7d5bd14f71427d1e84f3dd0314c0f7b2291e5b200ac8c7c3b925"},
		{"OrderFulfilled", []*abi.Ty{e("bytesN", 32, false), e("address", 0, true), e("address", 0, true), e("address", 0, false),
			tup([]int{0}, e("uint", 8, false), e("address", 0, false), e("uint", 256, false), e("uint", 256, false)),
			tup([]int{0}, e("uint", 8, false), e("address", 0, false), e("uint", 256, false), e("uint", 256, false), e("address", 0, false))},
			"9d9af8e38d66c62e2c12f0225249fd9d721c54b83f48d9352c97c6cacdcb6f31"},
	}
	for _, k := range ks {
		n := 0
		var name func(t *abi.Ty)
		name = func(t *abi.Ty) {
			t.Name = fmt.Sprintf("a%d", n)
			n++
			for _, c := range t.Comps {
				name(c)
			}
		}
		for _, t := range k.ins {
			name(t)
		}
	}
	return ks
}

type sigDesc struct {
	Op    string   `json:"op"`
	JSON  string   `json:"json"`
	Sig   string   `json:"signature,omitempty"`
	Logs  []any    `json:"logs,omitempty"`
	Block []string `json:"block,omitempty"` // block fields of the integration (plan shape)
}

type hashDesc struct {
	Op    string `json:"op"`
	Input string `json:"input"`
}

// hashCase: eth.Keccak on one input, compared by Coq with Model/Keccak.keccak256
// and here with the harness's own Keccak-256.
func hashCase(out *lib.Out, in []byte, kind string) {
	var got []byte
	p, pmsg := lib.Catch(func() { got = eth.Keccak(append([]byte(nil), in...)) })
	want := abi.Keccak256(in)
	ok, msg := true, ""
	switch {
	case p:
		ok, msg = false, "eth.Keccak panicked: "+pmsg
	case !bytes.Equal(got, want):
		ok, msg = false, fmt.Sprintf("eth.Keccak of %d bytes is %x, Keccak-256 is %x", len(in), got, want)
	}
	obs := append([]byte(nil), got...)
	out.Add(lib.Case{Coq: fmt.Sprintf("CHash %s %s", abi.CB(in), abi.CB(obs)),
		Desc: hashDesc{Op: "keccak", Input: hex.EncodeToString(in)}, Kind: kind, Nontrivial: len(in) > 0,
		OracleOK: ok, OracleMsg: msg, Size: len(in)})
}

func sigCase(out *lib.Out, d *abi.Decl, kind, wantHash string) {
	var sig string
	var sh []byte
	p, pmsg := lib.Catch(func() { sig = d.Event.Signature(); sh = d.Event.SignatureHash() })
	want := abi.CanonSig(d.Name, d.Ins)
	ok, msg := true, ""
	switch {
	case p:
		ok, msg = false, "Signature panicked: "+pmsg
	case sig != want:
		ok, msg = false, fmt.Sprintf("Event.Signature() = %q, canonical signature is %q", sig, want)
	case !bytes.Equal(sh, abi.Keccak256([]byte(want))):
		ok, msg = false, fmt.Sprintf("SignatureHash %x differs from Keccak-256 of the canonical signature %x", sh, abi.Keccak256([]byte(want)))
	case wantHash != "" && hex.EncodeToString(sh) != wantHash:
		ok, msg = false, fmt.Sprintf("SignatureHash of %s is %x, the known event topic is %s", want, sh, wantHash)
	}
	nidx := 0
	nontriv := false
	for _, t := range d.Ins {
		if t.Indexed {
			nidx++
		}
		if t.IsTuple() || len(t.Dims) > 0 {
			nontriv = true
		}
	}
	if got := dig.VerifNumIndexed(d.Event); got != nidx {
		ok, msg = false, fmt.Sprintf("numIndexed = %d, declaration has %d indexed inputs", got, nidx)
	}
	out.Add(lib.Case{
		Coq: fmt.Sprintf("CSig %s %s %s %s %s", abi.CB([]byte(d.Name)), abi.CoqTys(d.Ins), abi.CoqEvent(d.Event),
			abi.CB([]byte(sig)), lib.CNat(dig.VerifNumIndexed(d.Event))),
		Desc: sigDesc{Op: "signature", JSON: d.JSON, Sig: sig}, Kind: kind, Nontrivial: nontriv || wantHash != "",
		OracleOK: ok, OracleMsg: msg, Size: len(d.JSON)})
	hashCase(out, []byte(want), "keccak-signature")
}

type logDesc struct {
	What   string   `json:"what"`
	Topics []string `json:"topics"`
	Data   string   `json:"data"`
}

var gateMaxData = 640

// prebuilt: an integration (and a second one for the Insert sample) built
// BEFORE other hashing happens, with a copy of its signature hash taken at
// construction time.
type prebuilt struct {
	ig, ig2 dig.Integration
	snap    []byte
	plan    string // what the integration's own plan asks the node for
	shape   []string
}

// block-field sets that lead to every plan shape of glf (what the node is asked
// for): required fields only -> eth_getLogs; + log_addr; + block_time ->
// headers + logs; + tx_value / tx_input -> blocks + logs; + tx_status -> receipts
var planShapes = [][]string{
	nil,
	{"log_addr"},
	{"block_time"},
	{"tx_value", "tx_input"},
	{"tx_status"},
	{"block_hash", "tx_hash", "log_addr"},
}

var shapeCounter int

// newIntegration builds an integration the way production does:
// config.Integration.AddRequiredFields, then dig.New with its event, block
// fields, table and notification.
func newIntegration(d *abi.Decl, shape []string) (dig.Integration, string, error) {
	// the production path: config (event parsed from the declared JSON) ->
	// config.ValidateFix (AddRequiredFields, unique index, reference checks) -> dig.New
	ev, err := abi.ParseEvent(d.JSON)
	if err != nil {
		return dig.Integration{}, "", err
	}
	c := config.Integration{Name: "ig", Enabled: true, Event: ev, Table: wpg.Table{Name: "t"}}
	for _, f := range shape {
		c.Block = append(c.Block, dig.BlockData{Name: f, Column: f})
		c.Table.Columns = append(c.Table.Columns, wpg.Column{Name: f, Type: "bytea"})
	}
	for _, in := range ev.Selected() {
		c.Table.Columns = append(c.Table.Columns, wpg.Column{Name: in.Column, Type: "bytea"})
	}
	root := config.Root{Integrations: []config.Integration{c}}
	if err := config.ValidateFix(&root); err != nil {
		return dig.Integration{}, "", fmt.Errorf("config.ValidateFix: %w", err)
	}
	c = root.Integrations[0]
	ig, err := dig.New(c.Name, c.Event, c.Block, c.Table, c.Notification, c.FilterAGG)
	if err != nil {
		return ig, "", err
	}
	f := ig.Filter()
	plan := fmt.Sprintf("headers=%v blocks=%v receipts=%v logs=%v", f.UseHeaders, f.UseBlocks, f.UseReceipts, f.UseLogs)
	return ig, plan, nil
}

func build(d *abi.Decl) (*prebuilt, error) {
	shape := planShapes[shapeCounter%len(planShapes)]
	shapeCounter++
	ig, plan, err := newIntegration(d, shape)
	if err != nil {
		return nil, err
	}
	snap := append([]byte(nil), dig.VerifSigHash(ig)...)
	ig2, _, err := newIntegration(d, shape)
	if err != nil {
		return nil, err
	}
	return &prebuilt{ig: ig, ig2: ig2, snap: snap, plan: plan, shape: shape}, nil
}

// unrelatedHashing: what a running indexer does between building an
// integration and seeing its logs: other calls of eth.Keccak.
func unrelatedHashing(r *lib.RNG) {
	for i := 0; i < 3; i++ {
		eth.Keccak(r.Bytes(r.Range(1, 80)))
	}
	for i := 0; i < 2; i++ {
		tx := &eth.Tx{}
		tx.Hash() // no precomputed hash: hashes the (empty) raw buffer
	}
	eth.Keccak32(r.Bytes(40))
}

func gateCase(out *lib.Out, g *abi.Gen, d *abi.Decl, kind string, pre *prebuilt) error {
	if pre == nil {
		var err error
		if pre, err = build(d); err != nil {
			return err
		}
		unrelatedHashing(g.R)
	}
	ig := pre.ig
	out.Count("gate-plan: " + pre.plan)
	sigHash := abi.Keccak256([]byte(abi.CanonSig(d.Name, d.Ins))) // independent of the implementation
	nidx := 0
	for _, t := range d.Ins {
		if t.Indexed {
			nidx++
		}
	}
	r := g.R
	topicsFor := func(t0 []byte, n int) []eth.Bytes {
		ts := []eth.Bytes{}
		if n >= 1 {
			ts = append(ts, append([]byte(nil), t0...))
		}
		for i := 1; i < n; i++ {
			ts = append(ts, r.Bytes(32))
		}
		return ts
	}
	valid := func() ([]byte, int) {
		for try := 0; ; try++ {
			v := g.Value(d.Root, 3)
			data := abi.Encode(d.Root, v)
			if len(data) <= gateMaxData || try >= 30 {
				n := len(abi.ExpectedRows(d.Root, v, d.NCols))
				if !d.Root.InDomain() {
					n = -1 // outside the row rule: only "reaches the decoder" is checked
				}
				return data, n
			}
		}
	}
	if probe, _ := valid(); len(probe) > gateMaxData {
		return nil // a declaration whose smallest encodings are large: skipped (volume)
	}
	type lg struct {
		what     string
		topics   []eth.Bytes
		data     []byte
		wantRows int // -1: error expected or allowed (reaches decoding), 0: none, >0 rows
	}
	var logs []lg
	data, nrows := valid()
	logs = append(logs, lg{"matching", topicsFor(sigHash, nidx+1), data, nrows})
	for n := 0; n <= nidx+3; n++ {
		if n != nidx+1 {
			data, _ = valid()
			logs = append(logs, lg{fmt.Sprintf("same hash, %d topics", n), topicsFor(sigHash, n), data, 0})
		}
	}
	flip := append([]byte(nil), sigHash...)
	flip[r.Intn(32)] ^= 1 << uint(r.Intn(8))
	other := [][]byte{r.Bytes(32), flip, sigHash[:31], append(append([]byte(nil), sigHash...), 0), {}, abi.Keccak256([]byte(d.Name + "()")),
		abi.Keccak256([]byte(abi.CanonSig(d.Name+"x", d.Ins)))} // the last: same inputs layout, another name (Transfer vs Approval)
	for i, o := range other {
		data, _ = valid()
		logs = append(logs, lg{fmt.Sprintf("other first topic #%d", i), topicsFor(o, nidx+1), data, 0})
	}
	logs = append(logs, lg{"empty topic list", []eth.Bytes{}, data, 0})
	logs = append(logs, lg{"nil topic list", nil, data, 0})
	logs = append(logs, lg{"matching, truncated data", topicsFor(sigHash, nidx+1), data[:len(data)/2+1], -1})
	logs = append(logs, lg{"matching, random data", topicsFor(sigHash, nidx+1), r.Bytes(r.Range(1, 100)), -1})
	if d.NCols > 0 {
		logs = append(logs, lg{"matching, no data", topicsFor(sigHash, nidx+1), nil, -1})
	}
	data, nrows = valid()
	logs = append(logs, lg{"matching again", topicsFor(sigHash, nidx+1), data, nrows})

	ok, msg := true, ""
	var terms []string
	var descs []any
	var insertLogs eth.Logs
	insertWant := 0
	for i, l := range logs {
		el := &eth.Log{Idx: eth.Uint64(i), Address: make([]byte, 20), Topics: l.topics, Data: abi.FreshInput(l.data)}
		var n int
		var err error
		p, pmsg := lib.Catch(func() { n, err = dig.VerifGate(ig, el) })
		obs := "GPanic"
		switch {
		case p:
		case err != nil:
			obs = "GErr"
		default:
			obs = fmt.Sprintf("(GRows %s)", lib.CNat(n))
		}
		fail := func(m string) {
			if ok {
				ok, msg = false, fmt.Sprintf("%s: log %q of %s (integration plan: %s)", m, l.what, abi.CanonSig(d.Name, d.Ins), pre.plan)
			}
		}
		passes := len(l.topics) == nidx+1 && bytes.Equal(l.topics[0], sigHash)
		switch {
		case p:
			fail("processLog panicked (" + pmsg + ")")
		case !passes && (err != nil || n != 0):
			fail(fmt.Sprintf("a log of another event contributed (rows=%d err=%v)", n, err))
		case passes && l.wantRows > 0 && (err != nil || n != l.wantRows):
			fail(fmt.Sprintf("a log of the declared event gave rows=%d err=%v, expected %d rows", n, err, l.wantRows))
		case passes && l.wantRows == -1 && err == nil && n == 0:
			fail("a log of the declared event was dropped without reaching the decoder")
		}
		if !p && err == nil {
			insertLogs = append(insertLogs, *el)
			if passes { // a log of another event must contribute nothing, whatever processLog said
				insertWant += n
			}
		}
		ts := make([]string, len(l.topics))
		hs := make([]string, len(l.topics))
		for k, t := range l.topics {
			ts[k] = abi.CB(t)
			hs[k] = hex.EncodeToString(t)
		}
		terms = append(terms, fmt.Sprintf("(%s, %s, %s)", lib.CList(ts), abi.CB(l.data), obs))
		descs = append(descs, logDesc{What: l.what, Topics: hs, Data: hex.EncodeToString(l.data)})
		if p {
			break
		}
	}
	// the same logs (those that did not fail) through Integration.Insert
	if ok && d.NCols > 0 {
		ig2 := pre.ig2
		conn := &abi.RecConn{}
		blocks := make([]eth.Block, 1)
		blocks[0].Txs = make(eth.Txs, 1)
		blocks[0].Txs[0].Logs = insertLogs
		var nr int64
		var err error
		p, pmsg := lib.Catch(func() { nr, err = ig2.Insert(context.Background(), &sync.Mutex{}, conn, blocks) })
		switch {
		case p:
			ok, msg = false, "Integration.Insert panicked: "+pmsg
		case err != nil:
			ok, msg = false, "Integration.Insert failed: "+err.Error()
		case int(nr) != insertWant || len(conn.Rows) != insertWant:
			ok, msg = false, fmt.Sprintf("Integration.Insert copied %d rows from a transaction holding the declared event's logs and decoys of other events, %d expected (integration plan: %s)", nr, insertWant, pre.plan)
		}
	}
	// the stored hash, the event's hash and the pushed-down topic are byte-stable
	// across later hashing and still the Keccak-256 of the canonical signature
	unrelatedHashing(r)
	if ok {
		switch {
		case !bytes.Equal(pre.snap, sigHash):
			ok, msg = false, fmt.Sprintf("signature hash at construction %x is not the Keccak-256 of %s (%x)", pre.snap, abi.CanonSig(d.Name, d.Ins), sigHash)
		case !bytes.Equal(dig.VerifSigHash(ig), sigHash) || !bytes.Equal(dig.VerifSigHash(pre.ig2), sigHash):
			ok, msg = false, fmt.Sprintf("the integration's stored signature hash changed after later hashing: now %x, Keccak-256 of %s is %x", dig.VerifSigHash(ig), abi.CanonSig(d.Name, d.Ins), sigHash)
		case !bytes.Equal(d.Event.SignatureHash(), sigHash):
			ok, msg = false, "Event.SignatureHash() is not stable"
		default:
			f := ig.Filter()
			if ts := f.Topics(); len(ts) != 1 || len(ts[0]) != 1 || ts[0][0] != eth.EncodeHex(sigHash) {
				ok, msg = false, fmt.Sprintf("Filter().Topics() = %v, expected [[%s]]", ts, eth.EncodeHex(sigHash))
			}
		}
	}
	out.Add(lib.Case{
		Coq:  fmt.Sprintf("CGate %s %s %s", abi.CoqEvent(d.Event), abi.CB(pre.snap), lib.CList(terms)),
		Desc: sigDesc{Op: "gate", JSON: d.JSON, Logs: descs, Block: pre.shape}, Kind: kind, Nontrivial: true,
		OracleOK: ok, OracleMsg: msg, Size: len(d.JSON)})
	return nil
}

// fixedSameTopLevel: declarations built in ONE process, in both orders, that
// agree on the event name and on the top-level type strings (tuple, tuple[],
// tuple[2]) but differ in their components (types, order, nesting depth), plus
// same-signature-different-name controls.  Signature(), SignatureHash(), the
// topic Filter() sends and the gate decision must be those of THAT declaration.
func fixedSameTopLevel(out *lib.Out, r *lib.RNG) error {
	e := func(kind string, bits int, sel bool) *abi.Ty { return &abi.Ty{EKind: kind, Bits: bits, Sel: sel} }
	tup := func(dims []int, cs ...*abi.Ty) *abi.Ty { return &abi.Ty{EKind: "tuple", Comps: cs, Dims: dims} }
	groups := [][][]*abi.Ty{
		{{tup(nil, e("uint", 256, true), e("address", 0, false))},
			{tup(nil, e("address", 0, false), e("uint", 256, true))},
			{tup(nil, e("uint", 256, true), tup(nil, e("bool", 0, false), e("bytesN", 32, false)))}},
		{{tup([]int{0}, e("uint", 256, true), e("string", 0, false))},
			{tup([]int{0}, e("string", 0, false), e("uint", 256, true))},
			{tup([]int{0}, e("uint", 128, true), e("string", 0, false))}},
		{{tup([]int{2}, e("uint", 8, true), e("uint", 8, false))},
			{tup([]int{2}, e("uint", 8, true), e("uint", 16, false))},
			{tup([]int{2}, tup(nil, e("uint", 8, true), tup(nil, e("uint", 8, false))), e("uint", 8, false))}},
		{{e("uint", 256, false), tup(nil, e("bytes", 0, true)), tup([]int{0}, e("address", 0, false))},
			{e("uint", 256, false), tup(nil, e("string", 0, true)), tup([]int{0}, e("address", 0, false), e("bool", 0, false))}},
	}
	name := func(ins []*abi.Ty) {
		n, c := 0, 0
		var w func(t *abi.Ty)
		w = func(t *abi.Ty) {
			t.Name = fmt.Sprintf("a%d", n)
			n++
			if t.Sel {
				t.Col = fmt.Sprintf("c%d", c)
				c++
			}
			for _, x := range t.Comps {
				w(x)
			}
		}
		for _, t := range ins {
			w(t)
		}
	}
	run := func(evName string, ins []*abi.Ty) error {
		name(ins)
		d, err := abi.NewDecl(evName, ins)
		if err != nil {
			return err
		}
		sigCase(out, d, "signature-same-top-level-types", "")
		if d.Panic != "" {
			return nil
		}
		return gateCase(out, &abi.Gen{R: r.Fork(), MaxDepth: 2}, d, "gate-same-top-level-types", nil)
	}
	for gi, grp := range groups {
		for i := range grp { // construction order
			if err := run(fmt.Sprintf("P%d", gi), grp[i]); err != nil {
				return err
			}
		}
		for i := len(grp) - 1; i >= 0; i-- { // reverse order, another name
			if err := run(fmt.Sprintf("Q%d", gi), grp[i]); err != nil {
				return err
			}
		}
	}
	// an UNNAMED input in front of / between / behind named ones: the integration
	// built from the validated config must still be the DECLARED event
	for pos := 0; pos < 3; pos++ {
		ins := []*abi.Ty{e("address", 0, false), e("uint", 256, true)}
		ins[0].Indexed = true
		un := e("uint", 256, false)
		ins = append(ins[:pos], append([]*abi.Ty{un}, ins[pos:]...)...)
		name(ins)
		un.Name = ""
		d, err := abi.NewDecl("Deposit", ins)
		if err != nil {
			return err
		}
		sigCase(out, d, "signature-unnamed-input", "")
		if err := gateCase(out, &abi.Gen{R: r.Fork(), MaxDepth: 2}, d, "gate-unnamed-input", nil); err != nil {
			return err
		}
	}
	// controls: the same signature under different names, and the same name again
	for _, nm := range []string{"CtlA", "CtlB", "CtlA"} {
		if err := run(nm, []*abi.Ty{e("uint", 256, true), tup(nil, e("address", 0, false))}); err != nil {
			return err
		}
	}
	return nil
}

func runC13(cfg lib.Cfg) error {
	per := 24
	if cfg.Thorough() {
		per = 10
	}
	out := lib.NewOut("C13", cfg.Out, c13Header, "run", per)
	out.Rule = "signature: an input is a tuple or an array, or the event is a known-answer event; gate: always (each case pushes the matching log, every other topic count, six other first topics, empty/nil topic lists and matching logs with truncated/random/no data through one integration)"
	if cfg.Replay != "" {
		return replayC13(cfg, out)
	}
	r := lib.NewRNG(cfg.Seed)
	nSig, nGate, nMulti, nHash := 300, 30, 5, 30
	if cfg.Thorough() {
		nSig, nGate, nMulti, nHash, gateMaxData = 8000, 400, 40, 2000, 1500
	}
	if err := fixedSameTopLevel(out, r.Fork()); err != nil {
		return err
	}
	for _, k := range knownEvents() {
		d, err := abi.NewDecl(k.name, k.ins)
		if err != nil {
			return err
		}
		sigCase(out, d, "signature-known-answer", k.hash)
	}
	for i := 0; i < nSig; i++ {
		g := &abi.Gen{R: r.Fork(), MaxDepth: 4, AllowOut: true}
		ins := g.Inputs(false)
		if i%3 == 0 { // more indexed layouts
			for _, t := range ins {
				if g.R.Chance(1, 2) {
					t.Indexed = true
					clearSelTy(t)
				}
			}
		}
		name := fmt.Sprintf("Ev%d", i)
		if i%7 == 0 {
			name = "tuple" // an event name that contains the replaced word
		}
		d, err := abi.NewDecl(name, ins)
		if err != nil {
			return err
		}
		sigCase(out, d, "signature-random", "")
	}
	// Keccak at the block boundaries of the sponge (rate 136) and on random inputs
	hr := r.Fork()
	for _, n := range []int{0, 1, 55, 56, 134, 135, 136, 137, 271, 272, 273} {
		hashCase(out, hr.Bytes(n), "keccak-boundary-length")
	}
	for i := 0; i < nHash; i++ {
		hashCase(out, hr.Bytes(hr.Intn(600)), "keccak-random")
	}
	for i := 0; i < nGate; i++ {
		g := &abi.Gen{R: r.Fork(), MaxDepth: 2}
		ins := g.Inputs(true)
		for _, t := range ins { // vary the indexed layout; indexed inputs are never selected here
			if !t.Indexed && !hasSel(t) && g.R.Chance(1, 2) {
				t.Indexed = true
			}
		}
		d, err := abi.NewDecl(fmt.Sprintf("G%d", i), ins)
		if err != nil {
			return err
		}
		if d.Panic != "" {
			continue
		}
		if err := gateCase(out, g, d, "gate", nil); err != nil {
			return err
		}
	}
	// several integrations built first, then unrelated hashing, then the logs of
	// each integration, in construction order and in reverse order
	for grp := 0; grp < nMulti; grp++ {
		gr := r.Fork()
		k := gr.Range(2, 4)
		var decls []*abi.Decl
		var gens []*abi.Gen
		for len(decls) < k {
			g := &abi.Gen{R: gr.Fork(), MaxDepth: 2}
			ins := g.Inputs(true)
			for _, t := range ins {
				if !t.Indexed && !hasSel(t) && g.R.Chance(1, 2) {
					t.Indexed = true
				}
			}
			d, err := abi.NewDecl(fmt.Sprintf("M%d_%d", grp, len(decls)), ins)
			if err != nil {
				return err
			}
			if d.Panic != "" {
				continue
			}
			decls = append(decls, d)
			gens = append(gens, g)
		}
		for pass := 0; pass < 2; pass++ {
			pres := make([]*prebuilt, k)
			for i, d := range decls {
				var err error
				if pres[i], err = build(d); err != nil {
					return err
				}
			}
			unrelatedHashing(gr)
			for j := 0; j < k; j++ {
				i := j
				if pass == 1 {
					i = k - 1 - j
				}
				if err := gateCase(out, gens[i], decls[i], "gate-after-other-integrations", pres[i]); err != nil {
					return err
				}
			}
		}
	}
	out.Notes["gate_sequences"] = "every integration is built, then unrelated eth.Keccak / Tx.Hash calls are made, then its logs are processed; in addition groups of 2-4 integrations are all built first and processed in construction order and in reverse order; the stored hash, Event.SignatureHash() and Filter().Topics() are compared with the independent Keccak-256 again at the end of every case"
	out.Notes["keccak"] = "eth.Keccak on every canonical signature, on inputs of length 0,1,55,56,134,135,136,137,271,272,273 and on random inputs up to 600 bytes: compared by Coq with the executable Model/Keccak.keccak256 (CHash) and here with an independent Keccak-256 written in the harness; Event.SignatureHash also with the known topics of Transfer, Approval and Seaport OrderFulfilled; every gate case recomputes the stored hash as keccak256(event_sig) in the model"
	return out.Flush()
}

func hasSel(t *abi.Ty) bool {
	if t.Sel {
		return true
	}
	for _, c := range t.Comps {
		if hasSel(c) {
			return true
		}
	}
	return false
}

func clearSelTy(t *abi.Ty) {
	t.Sel, t.Col = false, ""
	for _, c := range t.Comps {
		clearSelTy(c)
	}
}

// canonical signature computed from the raw ABI JSON (independent of dig.Input)
func canonFromJSON(in map[string]any) string {
	ty, _ := in["type"].(string)
	comps, _ := in["components"].([]any)
	if len(ty) >= 5 && ty[:5] == "tuple" {
		s := "("
		for i, c := range comps {
			if i > 0 {
				s += ","
			}
			cm, _ := c.(map[string]any)
			s += canonFromJSON(cm)
		}
		return s + ")" + ty[5:]
	}
	return ty
}

func replayC13(cfg lib.Cfg, out *lib.Out) error {
	raw, err := os.ReadFile(cfg.Replay)
	if err != nil {
		return err
	}
	var rep struct {
		FailingInput struct {
			Desc struct {
				Op    string    `json:"op"`
				JSON  string    `json:"json"`
				Input string    `json:"input"`
				Logs  []logDesc `json:"logs"`
				Block []string  `json:"block"`
			} `json:"desc"`
		} `json:"failing_input"`
	}
	if err := json.Unmarshal(raw, &rep); err != nil {
		return err
	}
	ds := rep.FailingInput.Desc
	if ds.Op == "keccak" {
		in := abi.UnHex(ds.Input)
		got, want := eth.Keccak(in), abi.Keccak256(in)
		fmt.Printf("replay: eth.Keccak(%d bytes) = %x, Keccak-256 = %x\n", len(in), got, want)
		out.Notes["replay"] = cfg.Replay
		out.Add(lib.Case{Coq: fmt.Sprintf("CHash %s %s", abi.CB(in), abi.CB(got)), Desc: ds, Kind: "replay",
			OracleOK: bytes.Equal(got, want), OracleMsg: "replayed case still fails"})
		return out.Flush()
	}
	d, err := abi.DeclFromJSON(ds.JSON)
	if err != nil {
		return err
	}
	var rawEv struct {
		Name   string           `json:"name"`
		Inputs []map[string]any `json:"inputs"`
	}
	if err := json.Unmarshal([]byte(ds.JSON), &rawEv); err != nil {
		return err
	}
	want := rawEv.Name + "("
	nidx := 0
	for i, in := range rawEv.Inputs {
		if i > 0 {
			want += ","
		}
		want += canonFromJSON(in)
		if ix, _ := in["indexed"].(bool); ix {
			nidx++
		}
	}
	want += ")"
	wantHash := abi.Keccak256([]byte(want))
	ok := true
	var sig string
	var sh []byte
	if p, _ := lib.Catch(func() { sig = d.Event.Signature(); sh = d.Event.SignatureHash() }); p || sig != want || !bytes.Equal(sh, wantHash) {
		ok = false
	}
	fmt.Printf("replay: signature %q (canonical %q) hash %x (keccak %x) indexed %d/%d\n", sig, want, sh, wantHash, dig.VerifNumIndexed(d.Event), nidx)
	ig, plan, err := newIntegration(d, ds.Block)
	if err != nil {
		return err
	}
	fmt.Printf("  integration plan: %s\n", plan)
	unrelatedHashing(lib.NewRNG(cfg.Seed))
	if !bytes.Equal(dig.VerifSigHash(ig), wantHash) {
		fmt.Printf("  stored signature hash after later hashing: %x, expected %x\n", dig.VerifSigHash(ig), wantHash)
		ok = false
	}
	for _, l := range ds.Logs {
		el := &eth.Log{Address: make([]byte, 20), Data: abi.UnHex(l.Data)}
		for _, t := range l.Topics {
			el.Topics = append(el.Topics, abi.UnHex(t))
		}
		var n int
		var err error
		p, pmsg := lib.Catch(func() { n, err = dig.VerifGate(ig, el) })
		passes := len(el.Topics) == nidx+1 && bytes.Equal(el.Topics[0], wantHash)
		reached := err != nil || n > 0
		fmt.Printf("  %s: rows=%d err=%v panic=%v %s (should pass the gate: %v)\n", l.What, n, err, p, pmsg, passes)
		if p || passes != reached {
			ok = false
		}
	}
	out.Notes["replay"] = cfg.Replay
	out.Add(lib.Case{Coq: "CSig [] [] (mkevent [] []) [x40; x41] 0%nat", Desc: ds, Kind: "replay", OracleOK: ok, OracleMsg: "replayed case still fails"})
	return out.Flush()
}
