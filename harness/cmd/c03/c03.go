// Driver of property C03: after a reorg the table converges to the canonical
// chain.  Reorg histories (fork depth, replacement shorter / equal / longer,
// repeated and nested reorgs, a version switch at every node-call boundary of
// a step including between partitions), 1-3 integrations with hash plans on
// one source, batch 1-6 x concurrency 1-4.  Oracle at quiescence: table =
// projection of the final chain, position = final head; rows at or below the
// newest position under every fork keep their identity throughout.
package main

import (
	"fmt"

	"verif/harness/lib"
	ts "verif/harness/tasksim"
)

func world(name string, shapes []string, batch, conc, head int, seed uint64) *ts.Scenario {
	sc := &ts.Scenario{Name: name, Seed: seed, Head: head,
		Gen:  ts.GenOpts{MaxTxs: 2, MaxLogs: 3, Traces: true, Decoys: true, EmptyProb: 10},
		Srcs: []ts.SrcSpec{{Name: "main", ChainID: 1, Batch: batch, Conc: conc, URL: "http://main.invalid"}}}
	for i, sh := range shapes {
		sc.IGs = append(sc.IGs, ts.IGSpec{Name: fmt.Sprintf("ig%d", i+1), Shape: sh, Table: fmt.Sprintf("t%d", i+1),
			Sources: []ts.SrcRef{{Name: "main", Start: 1}}})
	}
	return sc
}

func rounds(ntasks, n int) []ts.Act {
	var out []ts.Act
	for i := 0; i < n; i++ {
		for t := 1; t <= ntasks; t++ {
			out = append(out, ts.Act{Do: "step", Tid: t})
		}
	}
	return out
}

func run(cfg lib.Cfg) error {
	shard := 8
	if !cfg.Thorough() {
		shard = 3 // quick tier: smaller files, the wall time is that of the largest shard
	}
	out := lib.NewOut("C03", cfg.Out, ts.Header(3), "run", shard)
	out.Rule = "non-trivial = rows of an indexed block were orphaned by a reorg (a reorg unwind deleted at least one row)"
	judge := func(sc *ts.Scenario, kind string) {
		ts.Judge(out, sc, kind, func(r *ts.Run) []string {
			return append(r.InvOracle(), r.ReorgOracle(r.Forks)...)
		}, func(r *ts.Run) bool {
			for _, e := range r.W.Rec.Events {
				if e.Kind == "op" && e.Op.Name == "DelRows" && e.Op.Fail == "" && e.Op.Count > 0 {
					return true
				}
			}
			return false
		})
	}
	if cfg.Replay != "" {
		sc, kind, err := ts.ReplayScenario(cfg.Replay)
		if err != nil {
			return err
		}
		judge(sc, kind)
		return out.Flush()
	}
	r := lib.NewRNG(cfg.Seed)

	// corpus: the witnesses of defects #2 (partly unwound batch) and #3 (reorg between two partition fetches)
	{
		sc := world("corpus-unwind-batch3", []string{"log"}, 3, 1, 6, 31)
		sc.Acts = append(rounds(1, 2), ts.Act{Do: "reorg", Fork: 5, Len: 4})
		sc.Acts = append(sc.Acts, rounds(1, 6)...)
		judge(sc, "corpus-unwind-whole-batch")
		sc = world("corpus-unwind-batch2-tx", []string{"tx"}, 2, 1, 4, 32)
		sc.Acts = append(rounds(1, 2), ts.Act{Do: "reorg", Fork: 4, Len: 3})
		sc.Acts = append(sc.Acts, rounds(1, 5)...)
		judge(sc, "corpus-unwind-whole-batch")
		// batch 4 over two partitions (1,2)(3,2): the first partition is served from the old version, the second from the new one
		sc = world("corpus-cross-partition", []string{"log"}, 4, 2, 8, 33)
		sc.Acts = append(rounds(1, 1),
			ts.Act{Do: "makever", Fork: 6, Len: 5},
			ts.Act{Do: "rpcver", Tid: 1, Call: "get@2#0", Ver: 2},
			ts.Act{Do: "step", Tid: 1},
			ts.Act{Do: "setver", Ver: 2})
		sc.Acts = append(sc.Acts, rounds(1, 6)...)
		judge(sc, "corpus-cross-partition-switch")
	}

	// DEEP reorgs: one reorg orphans 12-41 RECORDED POSITIONS (batch 1 and small batches, so
	// that positions ~ blocks); the unwinding step walks back one position per loop iteration
	// inside one transaction.  Whatever the depth (within the retained position history), the
	// table must converge to the replacing chain.  The last one through the real client.
	for v, c := range []struct {
		shape                   string
		batch, conc, head, fork int
		real                    bool
	}{
		{"log", 1, 1, 13, 2, false},   // positions 1..13, fork 2: 12 positions orphaned
		{"tx", 2, 2, 28, 4, false},    // positions 2,4..28; fork 4 (inside the batch 3..4): 13 positions
		{"trace", 1, 1, 42, 2, false}, // 41 positions
		{"log", 3, 2, 39, 2, false},   // positions 3,6..39: all 13 orphaned, nothing remains
		{"log", 1, 1, 14, 2, true},    // real client: 13 positions
	} {
		sc := world(fmt.Sprintf("corpus-deep-reorg-%d-b%dc%d-head%d-fork%d", v, c.batch, c.conc, c.head, c.fork), []string{c.shape}, c.batch, c.conc, c.head, uint64(101+v))
		sc.Real = c.real
		if c.shape == "trace" {
			sc.Gen.AlwaysTrace = true
		}
		if c.head > 20 {
			sc.Gen.MaxTxs, sc.Gen.MaxLogs, sc.Gen.EmptyProb = 1, 2, 40 // long chains: keep the tables small
		}
		newLen := c.head - c.fork + 2
		sc.Acts = append(rounds(1, (c.head+c.batch-1)/c.batch), ts.Act{Do: "reorg", Fork: uint64(c.fork), Len: newLen})
		sc.Acts = append(sc.Acts, rounds(1, (newLen+c.batch-1)/c.batch+4)...)
		judge(sc, "corpus-deep-reorg")
	}

	// a declaration whose table.columns ALREADY lists key / stamp columns (block_num, tx_idx,
	// log_idx, src_name, ig_name) without block entries for them (IGSpec.PreCols, through the
	// real ValidateFix): the unwind deletes by src_name / ig_name / block_num, so every row
	// must carry them; a reorg replaces indexed blocks that produced rows.
	for v, c := range []struct {
		shape string
		pre   []string
	}{
		{"log", []string{"block_num"}},
		{"tx", []string{"block_num", "tx_idx"}},
		{"log", []string{"src_name"}},
		{"log", []string{"ig_name", "src_name", "block_num", "tx_idx", "log_idx"}},
	} {
		sc := world(fmt.Sprintf("corpus-key-columns-predeclared-%d", v), []string{c.shape}, 2, 1+v%2, 6, uint64(111+v))
		sc.Gen.EmptyProb = 0
		sc.IGs[0].PreCols = c.pre
		sc.Acts = append(rounds(1, 3), ts.Act{Do: "reorg", Fork: 4, Len: 5})
		sc.Acts = append(sc.Acts, rounds(1, 7)...)
		judge(sc, "corpus-key-columns-predeclared")
	}

	// fresh start WITHOUT a configured start: the first recorded position (one block, or a
	// first batch of several blocks when the head moves between the two head queries of the
	// first step) is the ONLY one when the reorg orphans it: the unwind finds no remaining
	// position and has to remove every row of the pair.
	for v := 0; v < 4; v++ {
		shape := []string{"tx", "trace", "tx", "log"}[v]
		sc := world(fmt.Sprintf("corpus-fresh-start-unwind-%d", v), []string{shape}, 6, 1+v%2, 5, uint64(95+v))
		sc.Gen.EmptyProb, sc.Gen.AlwaysTrace = 0, true
		sc.IGs[0].Sources[0].Start = 0
		if v >= 2 {
			// the head grows from 5 to 8 between Latest(0) and Latest(local): first batch 5..8
			sc.Acts = append(sc.Acts, ts.Act{Do: "makever", K: 3}, ts.Act{Do: "switchat", Tid: 1, K: 2, Ver: 2}, ts.Act{Do: "step", Tid: 1}, ts.Act{Do: "setver", Ver: 2})
			sc.Acts = append(sc.Acts, ts.Act{Do: "reorg", Fork: 6, Len: 5})
		} else {
			sc.Acts = append(sc.Acts, ts.Act{Do: "step", Tid: 1}, ts.Act{Do: "reorg", Fork: 5, Len: 4})
		}
		sc.Acts = append(sc.Acts, rounds(1, 2)...)
		sc.Acts = append(sc.Acts, ts.Act{Do: "grow", K: 3})
		sc.Acts = append(sc.Acts, rounds(1, 6)...)
		judge(sc, "corpus-fresh-start-unwind")
	}

	// single faults inside the unwinding step: at every statement from the first DelCursors to
	// the statement after the last DelRows (error reply / connection drop / process death) and
	// at the load that follows the unwind; then fault-free to quiescence.  A failed unwinding
	// step must leave nothing behind: the table must still converge to the final chain.
	for bi, ub := range []struct {
		shape            string
		batch, head, pre int
		fork             uint64
		newLen           int
	}{
		{"log", 2, 6, 3, 3, 6}, // positions 2, 4, 6; fork 3: two unwinding iterations (6, 4), then re-index from 3
		{"tx", 3, 6, 2, 5, 4},  // positions 3, 6; fork 5: one iteration
	} {
		if bi > 0 && !cfg.Thorough() {
			break
		}
		build := func(inject []ts.Act, name string) *ts.Scenario {
			sc := world(fmt.Sprintf("unwind-fault-%d/%s", bi, name), []string{ub.shape}, ub.batch, 1, ub.head, uint64(91+bi))
			sc.Acts = append(rounds(1, ub.pre), ts.Act{Do: "reorg", Fork: ub.fork, Len: ub.newLen})
			sc.Acts = append(sc.Acts, inject...)
			sc.Acts = append(sc.Acts, ts.Act{Do: "step", Tid: 1}, ts.Act{Do: "clear"}, ts.Act{Do: "grow", K: 2})
			sc.Acts = append(sc.Acts, rounds(1, (ub.head+ub.newLen)/ub.batch+5)...)
			return sc
		}
		// probe the fault-free unwinding step: positions of its statements and node calls
		pr, err := build(nil, "probe").Exec()
		if err != nil {
			pr.Close()
			return fmt.Errorf("unwind-fault probe: %w", err)
		}
		st := pr.Steps[ub.pre]
		var names []string
		for _, e := range pr.W.Rec.Events[st.First:st.Last] {
			if e.Kind == "op" && e.Op.Name != "RLatest" && e.Op.Name != "RHash" && e.Op.Name != "RGet" {
				names = append(names, e.Op.Name)
			}
		}
		calls := st.Calls
		pr.Close()
		first, last := -1, -1
		for i, n := range names {
			if n == "DelCursors" && first < 0 {
				first = i
			}
			if n == "DelRows" {
				last = i
			}
		}
		if first < 0 {
			return fmt.Errorf("unwind-fault base %d: the probe step did not unwind", bi)
		}
		judge(build(nil, "fault-free"), "unwind-single-fault")
		for i := first; i <= last+1 && i < len(names); i++ {
			for _, k := range []string{"error", "drop", "crash"} {
				judge(build([]ts.Act{{Do: "fault", Tid: 1, At: i, Kind: k}}, fmt.Sprintf("db%d-%s-%s", i, names[i], k)), "unwind-single-fault")
			}
		}
		// the loads of the step (the one that detects the reorg, the ones between and after the unwinds)
		for _, c := range calls {
			if c.Kind == "get" {
				judge(build([]ts.Act{{Do: "rpcfail", Tid: 1, Call: c.Key()}}, "load-fails-"+c.Key()), "unwind-single-fault")
			}
		}
	}

	// SHORT batches (delta < batch size, the normal case near the head) over several
	// partitions: partitions are sized by ceil(batch/conc), not by ceil(delta/conc), so the
	// partition boundaries do not sit where an even split of the loaded blocks would put
	// them.  The reorg becomes visible between two partition fetches, at every boundary.
	for i, c := range []struct {
		shape                   string
		batch, conc, pre, delta int // pre: blocks indexed before (one step), delta: blocks of the short batch
	}{
		{"log", 8, 2, 0, 6},    // partitions (1,4)(5,2)
		{"tx", 9, 3, 0, 5},     // (1,3)(4,2)
		{"log", 10, 2, 10, 7},  // position 10, then (11,5)(16,2)
		{"trace", 12, 4, 0, 7}, // (1,3)(4,3)(7,1)
		{"tx", 6, 2, 6, 5},     // (7,3)(10,2)
		{"log", 7, 3, 0, 4},    // (1,3)(4,1)
	} {
		part := (c.batch + c.conc - 1) / c.conc
		nparts := (c.delta + part - 1) / part
		for b := 1; b < nparts; b++ { // the switch lands before partition b
			head := c.pre + c.delta
			sc := world(fmt.Sprintf("corpus-short-batch-%d-b%dc%d-delta%d-boundary%d", i, c.batch, c.conc, c.delta, b), []string{c.shape}, c.batch, c.conc, c.pre, uint64(71+i))
			if c.pre > 0 {
				sc.Acts = append(sc.Acts, rounds(1, 1)...)
			} else {
				sc.Head = 1 // block 0 and 1 exist; the chain grows to the short batch below
			}
			grow := head - sc.Head
			sc.Acts = append(sc.Acts, ts.Act{Do: "grow", K: grow})
			if c.pre == 0 {
				head = sc.Head + grow
			}
			// the replacement forks inside the partition BEFORE the boundary, so that the first
			// block of the next partition does not link to what was served before
			first := c.pre + 1
			fork := first + (b-1)*part + 1
			if part == 1 {
				fork = first + (b-1)*part
			}
			sc.Acts = append(sc.Acts, ts.Act{Do: "makever", Fork: uint64(fork), Len: head - fork + 3})
			for k := b; k < nparts; k++ {
				sc.Acts = append(sc.Acts, ts.Act{Do: "rpcver", Tid: 1, Call: fmt.Sprintf("get@%d#0", k*part), Ver: 3})
			}
			sc.Acts = append(sc.Acts, ts.Act{Do: "step", Tid: 1}, ts.Act{Do: "setver", Ver: 3})
			sc.Acts = append(sc.Acts, rounds(1, (head+3)/c.batch+5)...)
			judge(sc, "corpus-short-batch-partition-switch")
		}
	}

	// restarts that CHANGE batch size and concurrency between the moment a position is
	// written and the reorg that unwinds it ("whatever batch size was in effect when the
	// orphaned blocks were written"): larger -> smaller, smaller -> larger, -> 1
	for i, c := range []struct {
		shape           string
		b0, c0, b1, c1  int
		head, pre, post int
		fork            uint64
		newLen          int
	}{
		{"log", 4, 1, 2, 1, 8, 2, 8, 7, 4},  // position 8 written by blocks 5..8, unwound with batch 2; fork inside the batch
		{"log", 4, 2, 1, 1, 8, 2, 12, 5, 6}, // the whole batch 5..8 orphaned, unwound with batch 1
		{"tx", 6, 3, 2, 2, 12, 2, 10, 9, 6}, // two positions (6, 12); fork in the upper batch
		{"tx", 5, 1, 3, 4, 10, 2, 8, 2, 11}, // fork below every position but the first batch
		{"log", 2, 1, 5, 2, 8, 3, 6, 4, 7},  // smaller -> larger
		{"trace", 3, 3, 1, 1, 9, 3, 14, 8, 4},
	} {
		sc := world(fmt.Sprintf("rebatch-corpus-%d-b%dc%d-to-b%dc%d", i, c.b0, c.c0, c.b1, c.c1), []string{c.shape}, c.b0, c.c0, c.head, uint64(61+i))
		sc.Acts = append(rounds(1, c.pre), ts.Act{Do: "reconfig", K: c.b1, Len: c.c1}, ts.Act{Do: "reorg", Fork: c.fork, Len: c.newLen})
		sc.Acts = append(sc.Acts, rounds(1, 2)...)
		sc.Acts = append(sc.Acts, ts.Act{Do: "grow", K: 3})
		sc.Acts = append(sc.Acts, rounds(1, c.post+4)...)
		judge(sc, "rebatch-corpus")
	}

	// version switch at every node-call boundary of the step that follows a reorg
	type sbase struct {
		name        string
		shapes      []string
		batch, conc int
		head, pre   int // initial head, rounds before the reorg
		fork        uint64
		newLen      int
	}
	bases := []sbase{
		{"switch-log-b4c2", []string{"log"}, 4, 2, 9, 1, 3, 9},
		{"switch-tx-b2c2", []string{"tx"}, 2, 2, 6, 2, 4, 5},
		{"switch-log-b3c3-shorter", []string{"log"}, 3, 3, 8, 2, 5, 2},
	}
	if cfg.Thorough() {
		bases = append(bases,
			sbase{"switch-trace-b6c4", []string{"trace"}, 6, 4, 14, 1, 4, 13},
			sbase{"switch-2ig-b2c1", []string{"log", "tx"}, 2, 1, 6, 2, 3, 6},
			sbase{"switch-log-b5c2-deep", []string{"log"}, 5, 2, 12, 2, 2, 14},
		)
	}
	for _, b := range bases {
		build := func(k int) *ts.Scenario {
			sc := world(fmt.Sprintf("%s/k%d", b.name, k), b.shapes, b.batch, b.conc, b.head, 41)
			sc.Acts = append(rounds(len(b.shapes), b.pre), ts.Act{Do: "makever", Fork: b.fork, Len: b.newLen})
			sc.Acts = append(sc.Acts, ts.Act{Do: "switchat", Tid: 1, K: k, Ver: 2}, ts.Act{Do: "step", Tid: 1}, ts.Act{Do: "setver", Ver: 2})
			sc.Acts = append(sc.Acts, rounds(len(b.shapes), 3)...)
			sc.Acts = append(sc.Acts, ts.Act{Do: "grow", K: 3})
			sc.Acts = append(sc.Acts, rounds(len(b.shapes), (b.head+b.newLen+3)/b.batch+4)...)
			return sc
		}
		// probe: which canonical call indexes does the step use (all-old and all-new runs)
		idx := map[int]bool{0: true}
		for _, k := range []int{0, 1 << 20} {
			pr, err := build(k).Exec()
			if err == nil {
				stepNo := len(b.shapes) * b.pre
				if stepNo < len(pr.Steps) {
					for _, c := range pr.Steps[stepNo].Calls {
						idx[c.Idx] = true
						idx[c.Idx+1] = true
					}
				}
			}
			pr.Close()
		}
		for k := 0; k < 64; k++ {
			if idx[k] {
				judge(build(k), "switch-at-every-call-boundary")
			}
		}
	}

	// random reorg histories
	n := 30
	if cfg.Thorough() {
		n = 2500
	}
	hashShapes := []string{"log", "tx", "trace"}
	for i := 0; i < n; i++ {
		nig := 1 + r.Intn(3)
		var shapes []string
		for k := 0; k < nig; k++ {
			shapes = append(shapes, lib.Pick(r, hashShapes))
		}
		batch, conc := r.Range(1, 6), r.Range(1, 4)
		head := r.Range(3, 12)
		deep := i%10 == 9 // one reorg that orphans many recorded positions
		if deep {
			batch, nig, shapes = r.Range(1, 2), 1, shapes[:1]
			head = batch * r.Range(12, 20)
		}
		sc := world(fmt.Sprintf("reorg-%d", i), shapes, batch, conc, head, r.U64()%1_000_000)
		if i%6 == 3 {
			// the user's table.columns already lists some of the key / stamp columns
			sc.IGs[0].PreCols = [][]string{{"block_num"}, {"src_name", "block_num"}, {"ig_name"}, {"block_num", "tx_idx"}}[(i/6)%4]
		}
		h := head
		pos := 0 // rough upper bound of the highest position
		nre := 1 + r.Intn(3)
		kind := "random-reorg"
		if nre > 1 {
			kind = "random-repeated-reorg"
		}
		rebatch := r.Intn(3) == 0
		if deep {
			// everything is indexed, then blocks from a low fork point on are replaced
			sc.Gen.MaxTxs, sc.Gen.MaxLogs = 1, 2
			sc.Acts = append(sc.Acts, rounds(1, head/batch)...)
			fork := r.Range(1, max(1, head-12*batch))
			nl := head - fork + 1 + r.Range(-2, 3)
			sc.Acts = append(sc.Acts, ts.Act{Do: "reorg", Fork: uint64(fork), Len: nl})
			pos, h, nre, rebatch, kind = head, fork-1+nl, 0, false, "random-deep-reorg"
		}
		for k := 0; k < nre; k++ {
			rd := r.Range(0, 3)
			sc.Acts = append(sc.Acts, rounds(nig, rd)...)
			pos = max(pos, min(h, pos+rd*batch))
			if rebatch && r.Intn(3) != 0 {
				// the process is restarted with another batch size / concurrency before the reorg arrives
				batch = lib.Pick(r, []int{1, 1, 2, 3, 4, 6, max(1, batch-1), max(1, batch/2)})
				sc.Acts = append(sc.Acts, ts.Act{Do: "reconfig", K: batch, Len: r.Range(1, 4)})
				if r.Bool() {
					sc.Acts = append(sc.Acts, rounds(nig, 1)...)
					pos = max(pos, min(h, pos+batch))
				}
			}
			// fork depth 1 .. 2*batch+1 below the position, replacement -2 .. +3 relative
			depth := r.Range(1, 2*batch+1)
			fork := max(1, pos-depth+1)
			if fork > h {
				fork = h
			}
			nl := max(1, (h-fork+1)+r.Range(-2, 3))
			if r.Intn(3) == 0 {
				// the switch lands inside a step of a random task
				sc.Acts = append(sc.Acts, ts.Act{Do: "makever", Fork: uint64(fork), Len: nl},
					ts.Act{Do: "switchat", Tid: 1 + r.Intn(nig), K: r.Intn(6), Ver: k + 2})
				sc.Acts = append(sc.Acts, rounds(nig, 1)...)
				sc.Acts = append(sc.Acts, ts.Act{Do: "setver", Ver: k + 2})
				kind = "random-reorg-mid-step"
				pos = max(pos, min(max(h, fork-1+nl), pos+batch)) // that round may have advanced on either version
			} else {
				sc.Acts = append(sc.Acts, ts.Act{Do: "reorg", Fork: uint64(fork), Len: nl})
			}
			h = fork - 1 + nl
			if r.Intn(2) == 0 { // nested: the next reorg arrives while the unwind is in progress
				sc.Acts = append(sc.Acts, rounds(nig, 1)...)
				pos = max(pos, min(h, pos+batch))
			}
		}
		// the source settles: growth beyond everything recorded, then quiescence
		g := max(2, pos-h+2)
		sc.Acts = append(sc.Acts, ts.Act{Do: "grow", K: g})
		h += g
		sc.Acts = append(sc.Acts, rounds(nig, (h+batch)/batch+5)...)
		if rebatch {
			kind = "rebatch-" + kind
		}
		judge(sc, kind)
	}
	// the same through the real jrpc2.Client shared by the source's tasks (head,
	// header and block caches, maxreads = number of integrations) and the HTTP node
	nr := 12
	if cfg.Thorough() {
		nr = 400
	}
	// real client, headers + receipts plan, two integrations sharing the client (maxreads 2):
	// the reorg (fork below an indexed block) lands between the header exchange and the
	// receipts exchange of one Get; the retry is served the cached header segment.  The
	// switch position is enumerated over the first HTTP exchanges of the step.
	// real client, headers + logs plan, batch 2 straddling the fork (blocks 5 | 6): the node has
	// switched to the canonical version, but the [header, eth_getLogs] exchange of the load is
	// answered ONCE from the orphaned version, with a matching log in the common block 5 and
	// none in its block 6, while the canonical block 6 has a matching log.  The chain seed is
	// searched so that the contents have this shape (deterministic: first seed that fits).
	{
		fits := func(seed uint64) bool {
			rng := lib.NewRNG(seed)
			o := ts.GenOpts{MaxTxs: 2, MaxLogs: 3, Traces: true, Decoys: true, EmptyProb: 10}
			h := ts.NewHistory(rng.Fork(), 8, o)
			h.Reorg(rng, 6, 4)
			count := func(b *ts.Block, rowsOnly bool) int {
				n := 0
				for _, tx := range b.Txs {
					for _, l := range tx.Logs {
						if l.Kind == "transfer" || (!rowsOnly && l.Kind == "decoy-count") {
							n++
						}
					}
				}
				return n
			}
			v1, v2 := h.Versions[0], h.Versions[1]
			return count(v1.At(5), false) > 0 && count(v1.At(6), false) == 0 && count(v2.At(6), true) > 0
		}
		seed := uint64(0)
		for sd := uint64(1); sd < 400 && seed == 0; sd++ {
			if fits(sd) {
				seed = sd
			}
		}
		if seed == 0 {
			return fmt.Errorf("no chain seed has the stale-logs shape")
		}
		for k := 1; k <= 3; k++ {
			sc := world(fmt.Sprintf("corpus-real-stale-logs-below-fork-k%d", k), []string{"log"}, 2, 1, 8, seed)
			sc.Real = true
			sc.Acts = append(rounds(1, 2), ts.Act{Do: "reorg", Fork: 6, Len: 4},
				ts.Act{Do: "xswitch", K: k, Ver: 1}, ts.Act{Do: "step", Tid: 1})
			sc.Acts = append(sc.Acts, rounds(1, 10)...)
			judge(sc, "corpus-real-stale-logs-below-fork")
		}
	}
	// (a block of a cached segment can be read maxreads times: batch 1 with two integrations,
	// batch 2 with three, so that the retry still finds the segment of the failed request)
	for _, c := range []struct{ nig, batch int }{{2, 1}, {3, 2}} {
		for k := 0; k < 4; k++ {
			shapes := []string{"txr", "txr", "txr"}[:c.nig]
			sc := world(fmt.Sprintf("corpus-real-header-receipt-skew-%digs-b%d-k%d", c.nig, c.batch, k), shapes, c.batch, 1, 8, 97)
			sc.Real = true
			sc.Gen.EmptyProb = 0
			sc.Acts = append(rounds(c.nig, 4/c.batch), ts.Act{Do: "makever", Fork: 3, Len: 8},
				ts.Act{Do: "xswitch", K: k, Ver: 2}, ts.Act{Do: "step", Tid: 1}, ts.Act{Do: "setver", Ver: 2})
			sc.Acts = append(sc.Acts, rounds(c.nig, 10/c.batch+8)...)
			judge(sc, "corpus-real-header-receipt-skew")
		}
	}
	realShapes := []string{"log", "tx"}
	for i := 0; i < nr; i++ {
		nig := 1 + r.Intn(3)
		var shapes []string
		// a receipts plan (txr) is not mixed with log plans on one client here: a header segment
		// cached by a log-plan task carries the transactions that task's logs created, and an
		// EMPTY receipts reply from another chain version names no hash, so the receipts-plan
		// task indexes those transactions without receipt data (tx_status 0) — a defect class of
		// the client's cache (reported to the coordinator; C07/C08 territory), found at seed 4
		allTxr := r.Intn(4) == 0
		for k := 0; k < nig; k++ {
			if allTxr {
				shapes = append(shapes, "txr")
			} else {
				shapes = append(shapes, lib.Pick(r, realShapes))
			}
		}
		batch, conc := r.Range(1, 5), r.Range(1, 3)
		mid := r.Intn(3) == 0
		if mid {
			conc = 1 // "the k-th HTTP exchange" needs sequential partitions
		}
		if nig > 1 {
			// several tasks on one client (maxreads > 1) keep segments cached across a reorg;
			// which of them the client's five-segment cache has already evicted depends on the
			// order in which concurrent partition fetches arrive: sequential partitions only
			conc = 1
		}
		head := r.Range(3, 10)
		sc := world(fmt.Sprintf("real-reorg-%d", i), shapes, batch, conc, head, r.U64()%1_000_000)
		sc.Real = true
		h, pos := head, 0
		for k := 0; k < 1+r.Intn(2); k++ {
			rd := r.Range(1, 3)
			sc.Acts = append(sc.Acts, rounds(nig, rd)...)
			pos = max(pos, min(h, pos+rd*batch))
			fork := max(1, pos-r.Range(0, 2*batch))
			if fork > h {
				fork = h
			}
			nl := max(1, (h-fork+1)+r.Range(-2, 3))
			if mid {
				sc.Acts = append(sc.Acts, ts.Act{Do: "makever", Fork: uint64(fork), Len: nl},
					ts.Act{Do: "xswitch", K: r.Intn(5), Ver: k + 2}, ts.Act{Do: "step", Tid: 1 + r.Intn(nig)},
					ts.Act{Do: "setver", Ver: k + 2})
				pos = max(pos, min(max(h, fork-1+nl), pos+batch))
			} else {
				sc.Acts = append(sc.Acts, ts.Act{Do: "reorg", Fork: uint64(fork), Len: nl})
			}
			h = fork - 1 + nl
		}
		g := max(2, pos-h+2)
		sc.Acts = append(sc.Acts, ts.Act{Do: "grow", K: g})
		h += g
		// stale cached segments may be served maxreads times each: extra slack
		sc.Acts = append(sc.Acts, rounds(nig, (h+batch)/batch+8+2*nig)...)
		kind := "real-client-reorg"
		if mid {
			kind = "real-client-reorg-mid-step"
		}
		judge(sc, kind)
	}
	out.Notes["switch-enumeration"] = "for each base: the reorg becomes visible at every canonical node-call index of the step (head query, hash, each partition)"
	return out.Flush()
}
