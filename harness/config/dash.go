package config

import (
	"context"
	"encoding/json"
	"fmt"
	"net/http/httptest"
	"strings"
	"time"

	"github.com/indexsupply/shovel/shovel"
	shconfig "github.com/indexsupply/shovel/shovel/config"
	"github.com/indexsupply/shovel/shovel/web"
	"github.com/indexsupply/shovel/wctx"
	"github.com/indexsupply/shovel/wpg"
	"github.com/jackc/pgx/v5/pgxpool"
	"verif/harness/fakepg"
)

// DashEnv: the dashboard path through the REAL handler.  A wire-level fake
// Postgres (harness/fakepg) serves a pgxpool; web.Handler.SaveIntegration is
// called with the submitted JSON; it validates, stores, and restarts the
// manager, which loads the stored integration (config.Integrations) and
// builds the tasks (shovel.NewTask: `set application_name ...`).  The tasks
// end at once: every source reference of the seeds has stop == start and a
// cursor at that height is planted before the call.
type DashEnv struct {
	S    *fakepg.Server
	Pool *pgxpool.Pool
}

func NewDashEnv() (*DashEnv, error) {
	s, err := fakepg.Start()
	if err != nil {
		return nil, err
	}
	ctx := context.Background()
	pool, err := wpg.NewPool(ctx, s.URL())
	if err != nil {
		s.Close()
		return nil, err
	}
	if _, err := pool.Exec(ctx, shovel.Schema); err != nil {
		pool.Close()
		s.Close()
		return nil, fmt.Errorf("installing shovel.Schema: %w", err)
	}
	return &DashEnv{S: s, Pool: pool}, nil
}

func (e *DashEnv) Close() {
	e.Pool.Close()
	e.S.Close()
}

// DashObs: what the real dashboard path did.
type DashObs struct {
	Obs
	Status   int
	Body     string
	Stored   bool     // the insert into shovel.integrations was executed
	AppNames []string // `set application_name ...` texts received by the database
	AllSQL   []string // every text the database received during the call
	Hung     bool
}

func (e *DashEnv) Run(igDoc string, srcs []shconfig.Source) (coq string, o DashObs) {
	ctx := wctx.WithVersion(context.Background(), Version)
	var ig shconfig.Integration
	if err := json.NewDecoder(strings.NewReader(igDoc)).Decode(&ig); err != nil {
		o.Err = "decode: " + err.Error()
		return
	}
	o.Decoded = true
	coq = CInteg(ig)
	for _, q := range []string{"delete from shovel.integrations", "delete from shovel.task_updates", "delete from shovel.sources"} {
		if _, err := e.S.Exec(q); err != nil {
			o.Err = "reset: " + err.Error()
			return
		}
	}
	for _, ref := range ig.Sources {
		if src, ok := sourceByName(srcs, ref.Name); ok {
			stop := ref.Stop
			if stop == 0 {
				stop = 1 << 40 // a seed without stop would never end: plant a far cursor (ErrAhead is retried; avoided by the seeds)
			}
			_, err := e.S.Exec(`insert into shovel.task_updates(chain_id, src_name, ig_name, num, hash) values ($1, $2, $3, $4, $5)`,
				int64(src.ChainID), src.Name, ig.Name, stop, []byte{1})
			if err != nil {
				o.Err = "planting cursor: " + err.Error()
				return
			}
		}
	}
	conf := shconfig.Root{Sources: srcs}
	mgr := shovel.NewManager(ctx, e.Pool, conf)
	h := web.New(mgr, &conf, e.Pool)
	n0 := e.S.LogLen()
	rec := httptest.NewRecorder()
	req := httptest.NewRequest("POST", "/save-integration", strings.NewReader(igDoc))
	o.Panic = catch(func() { h.SaveIntegration(rec, req) })
	done := make(chan struct{})
	go func() { mgr.VerifCfgWait(); close(done) }()
	select {
	case <-done:
	case <-time.After(10 * time.Second):
		o.Hung = true
	}
	o.Status, o.Body = rec.Code, strings.TrimSpace(rec.Body.String())
	for _, en := range e.S.Log()[n0:] {
		o.AllSQL = append(o.AllSQL, en.SQL)
		if en.Kind == "insert" && en.Table == "shovel.integrations" && strings.HasPrefix(en.Outcome, "ok") {
			o.Stored = true
		}
		if strings.HasPrefix(en.SQL, "set application_name") {
			o.AppNames = append(o.AppNames, en.SQL)
		}
	}
	o.Accepted = o.Stored
	if !o.Stored {
		o.Err = o.Body
		return
	}
	loaded, err := shconfig.Integrations(ctx, e.Pool)
	if err != nil {
		o.Err = "config.Integrations: " + err.Error()
		return
	}
	o.Panic = catch(func() { driveTasks(&o.Obs, srcs, loaded) })
	return
}
