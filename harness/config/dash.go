package config

import (
	"context"
	"encoding/json"
	"fmt"
	"net/http/httptest"
	"net/url"
	"strings"
	"time"

	"github.com/indexsupply/shovel/shovel"
	shconfig "github.com/indexsupply/shovel/shovel/config"
	"github.com/indexsupply/shovel/shovel/web"
	"github.com/indexsupply/shovel/wctx"
	"github.com/indexsupply/shovel/wpg"
	"github.com/jackc/pgx/v5/pgxpool"
	"verif/harness/fakepg"
)

// DashEnv: the dashboard path through the REAL handler.  A wire-level fake
// Postgres (harness/fakepg) serves a pgxpool; web.Handler.SaveIntegration is
// called with the submitted JSON; it validates, stores, and restarts the
// manager, which loads the stored integration (config.Integrations) and
// builds the tasks (shovel.NewTask: `set application_name ...`).  The tasks
// end at once: every source reference of the seeds has stop == start and a
// cursor at that height is planted before the call.
type DashEnv struct {
	S    *fakepg.Server
	Pool *pgxpool.Pool
}

func NewDashEnv() (*DashEnv, error) {
	s, err := fakepg.Start()
	if err != nil {
		return nil, err
	}
	ctx := context.Background()
	pool, err := wpg.NewPool(ctx, s.URL())
	if err != nil {
		s.Close()
		return nil, err
	}
	if _, err := pool.Exec(ctx, shovel.Schema); err != nil {
		pool.Close()
		s.Close()
		return nil, fmt.Errorf("installing shovel.Schema: %w", err)
	}
	return &DashEnv{S: s, Pool: pool}, nil
}

func (e *DashEnv) Close() {
	e.Pool.Close()
	e.S.Close()
}

// DashObs: what the real dashboard path did.
type DashObs struct {
	Obs
	Status   int
	Body     string
	Stored   bool                   // the insert into shovel.integrations was executed
	AppNames []string               // `set application_name ...` texts received by the database
	AllSQL   []string               // every text the database received during the call and the step after it
	Params   []string               // every statement parameter the database received
	Loaded   []shconfig.Integration // what config.Integrations returned afterwards
	Hung     bool
}

func (e *DashEnv) Run(igDoc string, srcs []shconfig.Source) (coq string, o DashObs) {
	ctx := wctx.WithVersion(context.Background(), Version)
	var ig shconfig.Integration
	if err := json.NewDecoder(strings.NewReader(igDoc)).Decode(&ig); err != nil {
		o.Err = "decode: " + err.Error()
		return
	}
	o.Decoded = true
	coq = CInteg(ig)
	for _, q := range []string{"delete from shovel.integrations", "delete from shovel.task_updates", "delete from shovel.sources"} {
		if _, err := e.S.Exec(q); err != nil {
			o.Err = "reset: " + err.Error()
			return
		}
	}
	for _, ref := range ig.Sources {
		if src, ok := sourceByName(srcs, ref.Name); ok {
			stop := ref.Stop
			if stop == 0 {
				stop = 1 << 40 // a seed without stop would never end: plant a far cursor (ErrAhead is retried; avoided by the seeds)
			}
			_, err := e.S.Exec(`insert into shovel.task_updates(chain_id, src_name, ig_name, num, hash) values ($1, $2, $3, $4, $5)`,
				int64(src.ChainID), src.Name, ig.Name, stop, []byte{1})
			if err != nil {
				o.Err = "planting cursor: " + err.Error()
				return
			}
		}
	}
	conf := shconfig.Root{Sources: srcs}
	mgr := shovel.NewManager(ctx, e.Pool, conf)
	h := web.New(mgr, &conf, e.Pool)
	n0 := e.S.LogLen()
	rec := httptest.NewRecorder()
	req := httptest.NewRequest("POST", "/save-integration", strings.NewReader(igDoc))
	o.Panic = catch(func() { h.SaveIntegration(rec, req) })
	done := make(chan struct{})
	go func() { mgr.VerifCfgWait(); close(done) }()
	select {
	case <-done:
	case <-time.After(10 * time.Second):
		o.Hung = true
	}
	o.Status, o.Body = rec.Code, strings.TrimSpace(rec.Body.String())
	for _, en := range e.S.Log()[n0:] {
		o.AllSQL = append(o.AllSQL, en.SQL)
		o.Params = append(o.Params, renderParams(en.Params)...)
		if en.Kind == "insert" && en.Table == "shovel.integrations" && strings.HasPrefix(en.Outcome, "ok") {
			o.Stored = true
		}
		if strings.HasPrefix(en.SQL, "set application_name") {
			o.AppNames = append(o.AppNames, en.SQL)
		}
	}
	o.Accepted = o.Stored
	if !o.Stored {
		o.Err = o.Body
		return
	}
	loaded, err := shconfig.Integrations(ctx, e.Pool)
	if err != nil {
		o.Err = "config.Integrations: " + err.Error()
		return
	}
	o.Loaded = loaded
	o.Panic = catch(func() { driveTasks(&o.Obs, srcs, loaded) })
	// one Converge step of the stored integration (the tasks the manager started ended at once
	// at the planted cursor): the cursor statements, latestDependency with the stored
	// Dependencies, go over the wire.  `set application_name` of this second load is not
	// handed to the model (it was compared above).
	if o.Panic == "" {
		if _, err := e.S.Exec("delete from shovel.task_updates"); err == nil {
			n1 := e.S.LogLen()
			o.Panic = catch(func() { convergeOnce(ctx, e.Pool, conf, loaded) })
			for _, en := range e.S.Log()[n1:] {
				o.AllSQL = append(o.AllSQL, en.SQL)
				o.Params = append(o.Params, renderParams(en.Params)...)
			}
		}
	}
	return
}

// SrcObs: what the real web.Handler.SaveSource did.
type SrcObs struct {
	Obs
	Status   int
	Stored   bool     // the insert into shovel.sources was executed
	Quiet    bool     // no statement at all reached the database during the call
	AppNames []string // `set application_name ...`
	Store    []string // statements on shovel.sources / shovel.integrations
	AllSQL   []string
	Hung     bool
}

// RunSource: POST /save-source with the given name (valid chain id and URL)
// while an integration that refers to a source of that name is already stored
// (planted directly in shovel.integrations, with a cursor at its stop so that
// its task ends at once).  SaveSource validates, stores, restarts the
// manager: loadTasks reads the stored source and integration and NewTask
// builds the task.  Afterwards the sources and integrations are loaded the
// way the process does (config.Root.AllSources, config.Integrations) and the
// task's statements are driven through the Go-level Conn.
func (e *DashEnv) RunSource(name string, igDoc string) (coq string, o SrcObs) {
	ctx := wctx.WithVersion(context.Background(), Version)
	var ig shconfig.Integration
	if err := json.NewDecoder(strings.NewReader(igDoc)).Decode(&ig); err != nil {
		o.Err = "decode: " + err.Error()
		return
	}
	o.Decoded = true
	coq = CInteg(ig)
	for _, q := range []string{"delete from shovel.integrations", "delete from shovel.task_updates", "delete from shovel.sources"} {
		if _, err := e.S.Exec(q); err != nil {
			o.Err = "reset: " + err.Error()
			return
		}
	}
	if _, err := e.S.Exec(`insert into shovel.integrations(name, conf) values ($1, $2)`, ig.Name, igDoc); err != nil {
		o.Err = "planting integration: " + err.Error()
		return
	}
	for _, ref := range ig.Sources {
		stop := ref.Stop
		if stop == 0 {
			stop = 1 << 40
		}
		if _, err := e.S.Exec(`insert into shovel.task_updates(chain_id, src_name, ig_name, num, hash) values ($1, $2, $3, $4, $5)`,
			int64(1), ref.Name, ig.Name, stop, []byte{1}); err != nil {
			o.Err = "planting cursor: " + err.Error()
			return
		}
	}
	conf := shconfig.Root{}
	mgr := shovel.NewManager(ctx, e.Pool, conf)
	h := web.New(mgr, &conf, e.Pool)
	n0 := e.S.LogLen()
	form := url.Values{"chainID": {"1"}, "name": {name}, "ethURL": {"http://127.0.0.1:1"}}
	rec := httptest.NewRecorder()
	req := httptest.NewRequest("POST", "/save-source", strings.NewReader(form.Encode()))
	req.Header.Set("Content-Type", "application/x-www-form-urlencoded")
	o.Panic = catch(func() { h.SaveSource(rec, req) })
	done := make(chan struct{})
	go func() { mgr.VerifCfgWait(); close(done) }()
	select {
	case <-done:
	case <-time.After(10 * time.Second):
		o.Hung = true
	}
	o.Status = rec.Code
	log := e.S.Log()[n0:]
	o.Quiet = len(log) == 0
	for _, en := range log {
		o.AllSQL = append(o.AllSQL, en.SQL)
		if en.Kind == "insert" && en.Table == "shovel.sources" && strings.HasPrefix(en.Outcome, "ok") {
			o.Stored = true
		}
		switch {
		case strings.HasPrefix(en.SQL, "set application_name"):
			o.AppNames = append(o.AppNames, en.SQL)
		case en.Table == "shovel.sources" || en.Table == "shovel.integrations":
			o.Store = append(o.Store, strings.TrimSpace(strings.TrimSuffix(strings.Join(strings.Fields(en.SQL), " "), ";")))
		}
	}
	o.Accepted = o.Stored
	if !o.Stored {
		return
	}
	srcs, err := conf.AllSources(ctx, e.Pool)
	if err != nil {
		o.Err = "config.AllSources: " + err.Error()
		return
	}
	loaded, err := shconfig.Integrations(ctx, e.Pool)
	if err != nil {
		o.Err = "config.Integrations: " + err.Error()
		return
	}
	o.Panic = catch(func() { driveTasks(&o.Obs, srcs, loaded) })
	return
}
