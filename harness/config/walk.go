package config

import (
	"encoding/json"
	"fmt"
	"sort"
	"strconv"
	"strings"
)

// Pos is one string-valued position of a JSON document.
type Pos struct {
	Path  string // e.g. integrations/0/table/columns/1/name
	Value string
}

func walk(v any, path string, out *[]Pos) {
	switch x := v.(type) {
	case map[string]any:
		keys := make([]string, 0, len(x))
		for k := range x {
			keys = append(keys, k)
		}
		sort.Strings(keys)
		for _, k := range keys {
			walk(x[k], path+"/"+k, out)
		}
	case []any:
		for i, e := range x {
			walk(e, path+"/"+strconv.Itoa(i), out)
		}
	case string:
		*out = append(*out, Pos{strings.TrimPrefix(path, "/"), x})
	}
}

// Positions lists every string position of the document in a fixed order.
func Positions(doc string) ([]Pos, error) {
	var v any
	if err := json.Unmarshal([]byte(doc), &v); err != nil {
		return nil, err
	}
	var out []Pos
	walk(v, "", &out)
	return out, nil
}

func replaceAt(v any, parts []string, repl string) (any, error) {
	if len(parts) == 0 {
		if _, ok := v.(string); !ok {
			return nil, fmt.Errorf("not a string position")
		}
		return repl, nil
	}
	switch x := v.(type) {
	case map[string]any:
		c := map[string]any{}
		for k, e := range x {
			c[k] = e
		}
		e, ok := x[parts[0]]
		if !ok {
			return nil, fmt.Errorf("no key %q", parts[0])
		}
		n, err := replaceAt(e, parts[1:], repl)
		if err != nil {
			return nil, err
		}
		c[parts[0]] = n
		return c, nil
	case []any:
		i, err := strconv.Atoi(parts[0])
		if err != nil || i < 0 || i >= len(x) {
			return nil, fmt.Errorf("bad index %q", parts[0])
		}
		c := append([]any{}, x...)
		n, err := replaceAt(x[i], parts[1:], repl)
		if err != nil {
			return nil, err
		}
		c[i] = n
		return c, nil
	}
	return nil, fmt.Errorf("path runs into a scalar")
}

// ReplaceAt returns the document with the string at path replaced.
func ReplaceAt(doc, path, repl string) (string, error) {
	var v any
	if err := json.Unmarshal([]byte(doc), &v); err != nil {
		return "", err
	}
	n, err := replaceAt(v, strings.Split(path, "/"), repl)
	if err != nil {
		return "", err
	}
	b, err := json.Marshal(n)
	return string(b), err
}

func replaceAll(v any, old, repl string) any {
	switch x := v.(type) {
	case map[string]any:
		c := map[string]any{}
		for k, e := range x {
			c[k] = replaceAll(e, old, repl)
		}
		return c
	case []any:
		c := make([]any, len(x))
		for i, e := range x {
			c[i] = replaceAll(e, old, repl)
		}
		return c
	case string:
		if x == old {
			return repl
		}
		// an index entry "name desc" follows its column
		for _, suf := range []string{" asc", " desc"} {
			if x == old+suf {
				return repl + suf
			}
		}
	}
	return v
}

// ReplaceAll renames one identifier consistently (every string equal to it).
func ReplaceAll(doc, old, repl string) (string, error) {
	var v any
	if err := json.Unmarshal([]byte(doc), &v); err != nil {
		return "", err
	}
	b, err := json.Marshal(replaceAll(v, old, repl))
	return string(b), err
}

// Sub extracts the sub-document at path as JSON text.
func Sub(doc, path string) (string, error) {
	var v any
	if err := json.Unmarshal([]byte(doc), &v); err != nil {
		return "", err
	}
	for _, p := range strings.Split(path, "/") {
		switch x := v.(type) {
		case map[string]any:
			v = x[p]
		case []any:
			i, err := strconv.Atoi(p)
			if err != nil || i < 0 || i >= len(x) {
				return "", fmt.Errorf("bad index %q", p)
			}
			v = x[i]
		default:
			return "", fmt.Errorf("path runs into a scalar")
		}
	}
	b, err := json.Marshal(v)
	return string(b), err
}
