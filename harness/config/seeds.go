package config

import (
	"strings"
	"unicode"
)

// Seed configurations of the C15 walker.  Every identifier is distinctive so
// that the "consistent rename" stream can replace all occurrences of one
// identifier at once.  Together they contain: user-supplied unique and index
// lists (with a direction suffix), notification columns, a filter_ref on a
// top-level input and on a block field, a user-supplied "dependencies" list (the field has no json
// tag: the key is decoded and kept; it reaches latestDependency), nested event components with a
// filter_ref of their own (one with a user-supplied WRONG table that validation must overwrite,
// one in the documented form {integration, column}), a reserved word as column name, filter_agg, a
// string-typed input, transaction- and trace-shaped integrations.
var Seeds = map[string]string{
	"erc20": `{
  "pg_url": "postgres:///shovel",
  "eth_sources": [{"name": "mainnet", "chain_id": 1, "url": "http://127.0.0.1:8545"}],
  "integrations": [{
    "name": "transfers", "enabled": true,
    "sources": [{"name": "mainnet", "start": 10, "stop": 10}],
    "table": {"name": "xfers",
      "columns": [{"name": "log_addr", "type": "bytea"}, {"name": "sender", "type": "bytea"},
                  {"name": "rcpt", "type": "bytea"}, {"name": "amount", "type": "numeric"},
                  {"name": "memo", "type": "text"}, {"name": "from", "type": "bytea"}],
      "unique": [["ig_name", "src_name", "block_num", "tx_idx", "log_idx", "abi_idx"]],
      "index": [["sender"], ["block_num desc", "rcpt asc"]]},
    "filter_agg": "and",
    "notification": {"columns": ["sender", "amount", "memo"]},
    "block": [{"name": "log_addr", "column": "log_addr", "filter_op": "contains",
               "filter_arg": ["0xa0b86991c6218b36c1d19d4a2e9eb0ce3606eb48"]},
              {"name": "tx_signer", "column": "from"}],
    "event": {"name": "Transfer", "type": "event", "anonymous": false,
      "inputs": [{"indexed": true, "name": "src", "type": "address", "column": "sender"},
                 {"indexed": true, "name": "dst", "type": "address", "column": "rcpt"},
                 {"name": "wad", "type": "uint256", "column": "amount"},
                 {"name": "note", "type": "string", "column": "memo"}]}
  }]
}`,
	"refs": `{
  "pg_url": "postgres:///shovel",
  "eth_sources": [{"name": "base", "chain_id": 8453, "url": "http://127.0.0.1:8545"},
                  {"name": "opt", "chain_id": 10, "urls": ["http://127.0.0.1:8546"]}],
  "integrations": [{
    "name": "holders", "enabled": true,
    "sources": [{"name": "base", "start": 7, "stop": 7}, {"name": "opt", "start": 7, "stop": 7}],
    "table": {"name": "holders_t", "columns": [{"name": "addr", "type": "bytea"}, {"name": "tok", "type": "bytea"}]},
    "block": [{"name": "log_addr", "column": "tok"}],
    "event": {"name": "Joined", "type": "event",
      "inputs": [{"indexed": true, "name": "who", "type": "address", "column": "addr"}]}
  }, {
    "name": "moves", "enabled": true,
    "dependencies": ["holders"],
    "sources": [{"name": "base", "start": 7, "stop": 7}],
    "table": {"name": "moves_t", "columns": [{"name": "mover", "type": "bytea"}, {"name": "dest", "type": "bytea"},
                                              {"name": "qty", "type": "numeric"}]},
    "block": [{"name": "tx_to", "column": "dest", "filter_op": "contains",
               "filter_ref": {"integration": "holders", "column": "tok"}}],
    "event": {"name": "Moved", "type": "event",
      "inputs": [{"indexed": true, "name": "by", "type": "address", "column": "mover",
                  "filter_op": "contains", "filter_ref": {"integration": "holders", "table": "elsewhere_t", "column": "addr"}},
                 {"name": "n", "type": "uint256", "column": "qty"}]}
  }]
}`,
	"nested": `{
  "pg_url": "postgres:///shovel",
  "eth_sources": [{"name": "sepolia", "chain_id": 11155111, "url": "http://127.0.0.1:8545"}],
  "integrations": [{
    "name": "makers", "enabled": true,
    "sources": [{"name": "sepolia", "start": 3, "stop": 3}],
    "table": {"name": "makers_t", "columns": [{"name": "maddr", "type": "bytea"}]},
    "event": {"name": "Maker", "type": "event",
      "inputs": [{"indexed": true, "name": "m", "type": "address", "column": "maddr"}]}
  }, {
    "name": "orders", "enabled": true,
    "sources": [{"name": "sepolia", "start": 3, "stop": 3}],
    "table": {"name": "orders_t", "columns": [{"name": "maker", "type": "bytea"}, {"name": "amt", "type": "numeric"},
                                               {"name": "salt", "type": "bytea"}, {"name": "oid", "type": "numeric"}],
              "index": [["maker", "amt"]]},
    "event": {"name": "Filled", "type": "event",
      "inputs": [{"indexed": true, "name": "id", "type": "uint256", "column": "oid"},
                 {"name": "order", "type": "tuple",
                  "components": [
                    {"name": "mk", "type": "address", "column": "maker", "filter_op": "contains",
                     "filter_ref": {"integration": "makers", "table": "elsewhere_t", "column": "maddr"}},
                    {"name": "a", "type": "uint256", "column": "amt"},
                    {"name": "inner", "type": "tuple",
                     "components": [{"name": "s", "type": "bytes32", "column": "salt", "filter_op": "!contains",
                                     "filter_ref": {"integration": "makers", "column": "maddr"}}]}]}]}
  }]
}`,
	// a referenced table WITHOUT integration: ValidateFilterRefs refuses it on the
	// file path; on the dashboard path it is spliced after CheckUserInput
	"reftable": `{
  "pg_url": "postgres:///shovel",
  "eth_sources": [{"name": "zora", "chain_id": 7777777, "url": "http://127.0.0.1:8545"}],
  "integrations": [{
    "name": "pays", "enabled": true,
    "sources": [{"name": "zora", "start": 2, "stop": 2}],
    "table": {"name": "pays_t", "columns": [{"name": "payee", "type": "bytea"}]},
    "block": [{"name": "tx_to", "column": "payee", "filter_op": "contains",
               "filter_ref": {"table": "allow_t", "column": "acct"}, "filter_arg": ["0x01"]}]
  }]
}`,
	// components under inputs whose type is NOT tuple (address, bytes32, uint256, empty) next to
	// tuple, tuple[] and tuple[2], one to three levels deep: dig recurses whenever Components is
	// non-empty (Input.ABIType, Input.Selected), whatever the type string says; the selected
	// leaves carry filter_op contains with a filter_ref {integration, table, column} or a plain
	// filter_arg.  The array-typed inputs live in an integration of their own (the block
	// builder of the dynamic run covers static layouts only).
	"oddcomps": `{
  "pg_url": "postgres:///shovel",
  "eth_sources": [{"name": "linea", "chain_id": 59144, "url": "http://127.0.0.1:8545"}],
  "integrations": [{
    "name": "regs", "enabled": true,
    "sources": [{"name": "linea", "start": 4, "stop": 4}],
    "table": {"name": "regs_t", "columns": [{"name": "racct", "type": "bytea"}]},
    "event": {"name": "Reg", "type": "event",
      "inputs": [{"indexed": true, "name": "r", "type": "address", "column": "racct"}]}
  }, {
    "name": "odd", "enabled": true,
    "sources": [{"name": "linea", "start": 4, "stop": 4}],
    "table": {"name": "odd_t", "columns": [{"name": "ca", "type": "bytea"}, {"name": "cb", "type": "bytea"},
                                            {"name": "cu", "type": "bytea"}, {"name": "ce", "type": "bytea"},
                                            {"name": "ct", "type": "bytea"}, {"name": "cn", "type": "numeric"}]},
    "event": {"name": "Odd", "type": "event",
      "inputs": [
        {"name": "pa", "type": "address", "components": [
          {"name": "pa1", "type": "address", "column": "ca", "filter_op": "contains",
           "filter_ref": {"integration": "regs", "table": "regs_t", "column": "racct"}}]},
        {"name": "pb", "type": "bytes32", "components": [
          {"name": "pb1", "type": "", "components": [
            {"name": "pb2", "type": "bytes32", "column": "cb", "filter_op": "contains",
             "filter_ref": {"integration": "regs", "table": "regs_t", "column": "racct"}}]}]},
        {"name": "pu", "type": "uint256", "components": [
          {"name": "pu1", "type": "tuple", "components": [
            {"name": "pu2", "type": "address", "components": [
              {"name": "pu3", "type": "address", "column": "cu", "filter_op": "!contains",
               "filter_ref": {"integration": "regs", "table": "regs_t", "column": "racct"}},
              {"name": "pu4", "type": "uint256", "column": "cn"}]}]}]},
        {"name": "pe", "type": "", "components": [
          {"name": "pe1", "type": "address", "column": "ce", "filter_op": "contains",
           "filter_arg": ["0x00000000000000000000000000000000000000aa"]}]},
        {"name": "pt", "type": "tuple", "components": [
          {"name": "pt1", "type": "address", "column": "ct", "filter_op": "contains",
           "filter_ref": {"integration": "regs", "table": "regs_t", "column": "racct"}}]}]}
  }, {
    "name": "oddarr", "enabled": true,
    "sources": [{"name": "linea", "start": 4, "stop": 4}],
    "table": {"name": "oddarr_t", "columns": [{"name": "da", "type": "bytea"}, {"name": "db", "type": "bytea"},
                                               {"name": "dc", "type": "bytea"}]},
    "event": {"name": "OddArr", "type": "event",
      "inputs": [
        {"name": "qa", "type": "tuple[]", "components": [
          {"name": "qa1", "type": "address", "column": "da", "filter_op": "contains",
           "filter_ref": {"integration": "regs", "table": "regs_t", "column": "racct"}}]},
        {"name": "qb", "type": "tuple[2]", "components": [
          {"name": "qb1", "type": "bytes32", "components": [
            {"name": "qb2", "type": "bytes32", "column": "db", "filter_op": "contains",
             "filter_ref": {"integration": "regs", "table": "regs_t", "column": "racct"}}]}]},
        {"name": "qc", "type": "address", "components": [
          {"name": "qc1", "type": "address", "column": "dc", "filter_op": "contains",
           "filter_arg": ["0x00000000000000000000000000000000000000bb"]}]}]}
  }]
}`,
	// three integrations sharing ONE table, each with its own table definition: different
	// column sets, the second with unique and index lists, the third with columns only it
	// declares.  config.Migrate migrates every integration's wpg.Table (create table / create
	// [unique] index / alter table add column for each), config.DDL unites them: the table
	// definition of EVERY integration is spliced, not only the first one naming the table.
	"shared": `{
  "pg_url": "postgres:///shovel",
  "eth_sources": [{"name": "scroll", "chain_id": 534352, "url": "http://127.0.0.1:8545"}],
  "integrations": [{
    "name": "pooltx", "enabled": true,
    "sources": [{"name": "scroll", "start": 6, "stop": 6}],
    "table": {"name": "pool_t", "columns": [{"name": "txh", "type": "bytea"}]},
    "block": [{"name": "tx_hash", "column": "txh"}]
  }, {
    "name": "poollog", "enabled": true,
    "sources": [{"name": "scroll", "start": 6, "stop": 6}],
    "table": {"name": "pool_t",
      "columns": [{"name": "txh", "type": "bytea"}, {"name": "swapper", "type": "bytea"}, {"name": "vol", "type": "numeric"}],
      "unique": [["ig_name", "src_name", "block_num", "tx_idx", "log_idx", "abi_idx"], ["swapper", "vol"]],
      "index": [["swapper"], ["vol desc", "swapper asc"]]},
    "block": [{"name": "tx_hash", "column": "txh"}],
    "event": {"name": "Swap", "type": "event",
      "inputs": [{"indexed": true, "name": "who", "type": "address", "column": "swapper"},
                 {"name": "amt", "type": "uint256", "column": "vol"}]}
  }, {
    "name": "poolfee", "enabled": true,
    "sources": [{"name": "scroll", "start": 6, "stop": 6}],
    "table": {"name": "pool_t",
      "columns": [{"name": "payer", "type": "bytea"}, {"name": "fee", "type": "numeric"}, {"name": "memo2", "type": "text"}],
      "index": [["payer"]]},
    "notification": {"columns": ["payer"]},
    "event": {"name": "Fee", "type": "event",
      "inputs": [{"indexed": true, "name": "p", "type": "address", "column": "payer"},
                 {"name": "f", "type": "uint256", "column": "fee"},
                 {"name": "m", "type": "string", "column": "memo2"}]}
  }]
}`,
	// who depends on whom: two dependents referencing DIFFERENT integrations, references on an
	// input and on a block field, a "dependencies" key supplied by the user, a self reference.
	// Integration.Dependencies after ValidateFix is compared with the model's ig_deps, per
	// integration and in order.
	"deps": `{
  "pg_url": "postgres:///shovel",
  "eth_sources": [{"name": "blast", "chain_id": 81457, "url": "http://127.0.0.1:8545"}],
  "integrations": [{
    "name": "da", "enabled": true,
    "sources": [{"name": "blast", "start": 8, "stop": 8}],
    "table": {"name": "da_t", "columns": [{"name": "aaddr", "type": "bytea"}]},
    "event": {"name": "A", "type": "event", "inputs": [{"indexed": true, "name": "x", "type": "address", "column": "aaddr"}]}
  }, {
    "name": "db", "enabled": true,
    "dependencies": ["dc"],
    "sources": [{"name": "blast", "start": 8, "stop": 8}],
    "table": {"name": "db_t", "columns": [{"name": "bwho", "type": "bytea"}, {"name": "bto", "type": "bytea"}]},
    "block": [{"name": "tx_to", "column": "bto", "filter_op": "contains",
               "filter_ref": {"integration": "dc", "column": "cwho"}}],
    "event": {"name": "B", "type": "event",
      "inputs": [{"indexed": true, "name": "x", "type": "address", "column": "bwho", "filter_op": "contains",
                  "filter_ref": {"integration": "da", "column": "aaddr"}}]}
  }, {
    "name": "dc", "enabled": true,
    "sources": [{"name": "blast", "start": 8, "stop": 8}],
    "table": {"name": "dc_t", "columns": [{"name": "cwho", "type": "bytea"}]},
    "event": {"name": "C", "type": "event", "inputs": [{"indexed": true, "name": "x", "type": "address", "column": "cwho"}]}
  }, {
    "name": "dd", "enabled": true,
    "sources": [{"name": "blast", "start": 8, "stop": 8}],
    "table": {"name": "dd_t", "columns": [{"name": "dwho", "type": "bytea"}, {"name": "dsig", "type": "bytea"}]},
    "block": [{"name": "tx_signer", "column": "dsig", "filter_op": "contains",
               "filter_ref": {"integration": "dd", "column": "dwho"}}],
    "event": {"name": "D", "type": "event",
      "inputs": [{"indexed": true, "name": "x", "type": "address", "column": "dwho", "filter_op": "contains",
                  "filter_ref": {"integration": "dc", "column": "cwho"}}]}
  }]
}`,
	"txtrace": `{
  "pg_url": "postgres:///shovel",
  "eth_sources": [{"name": "gnosis", "chain_id": 100, "url": "http://127.0.0.1:8545"}],
  "integrations": [{
    "name": "calls", "enabled": true,
    "sources": [{"name": "gnosis", "start": 5, "stop": 5}],
    "table": {"name": "calls_t", "columns": [{"name": "callee", "type": "bytea"}, {"name": "calldata", "type": "bytea"},
                                              {"name": "signer", "type": "bytea"}],
              "index": [["callee"]]},
    "notification": {"columns": ["callee"]},
    "block": [{"name": "tx_to", "column": "callee", "filter_op": "contains",
               "filter_arg": ["0x6d27312e3b2d2d6d27312e3b2d2d6d27312e3b2d"]},
              {"name": "tx_input", "column": "calldata"}, {"name": "tx_signer", "column": "signer"}]
  }, {
    "name": "internals", "enabled": true,
    "sources": [{"name": "gnosis", "start": 5, "stop": 5}],
    "table": {"name": "traces_t", "columns": [{"name": "trace_action_from", "type": "bytea"},
                                               {"name": "trace_action_to", "type": "bytea"},
                                               {"name": "trace_action_value", "type": "numeric"}]},
    "block": [{"name": "trace_action_from", "column": "trace_action_from"},
              {"name": "trace_action_to", "column": "trace_action_to", "filter_op": "contains",
               "filter_ref": {"integration": "calls", "column": "callee"}},
              {"name": "trace_action_value", "column": "trace_action_value"}]
  }]
}`,
}

// SeedOrder fixes the iteration order.
var SeedOrder = []string{"erc20", "refs", "nested", "txtrace", "reftable", "oddcomps", "shared", "deps"}

// Markers planted into configuration positions.  Hostile = contains a
// character outside letters, digits, '_' and '-'.
type Marker struct {
	S       string
	Hostile bool
}

var Markers = []Marker{
	{"zq'1", true}, {"zq;2", true}, {"zq)3", true}, {"zq 4", true}, {"zqé5", false}, {"zq--6", false},
	{"zq\"7", true}, {"zq٣8", false}, {"zqⅧ9", true}, {"zq\u00a0a", true}, {"zq；b", true}, {"zq,(c", true},
	{"zq\\d", true}, {"zq/*e", true}, {"zq$f", true}, {"zq\ng", true}, {"zq.h", true}, {"zq_i-9", false},
	// index-entry markers (FirstIdxMarker..): a direction keyword before, after or instead of the
	// hostile part.  Hostile here = outside the alphabet as a plain identifier; for a table.index
	// position the verdict is IdxHostile (one trailing " asc" / " desc", exactly, may stay).
	{"zq desc); drop 1", true}, {"zq ASC;x", true}, {"zq asc desc", true}, {" desc", true}, {"zq  desc", true},
	{"desc", false}, {"zq desc ", true}, {"zq asc ", true}, {"zq asc", true}, {"zq DESC", true}, {"zq);-- desc", true},
	{"zq desc--", true}, {"zq\tdesc", true},
	// FirstUniMarker..: a valid prefix that contains NON-ASCII letters / digits, then a forbidden
	// character, then a tail (and mirror shapes): an identifier check that treats the bytes
	// before and after the first multi-byte rune differently must still reject these
	{"zq\u00e9(1", true}, {"zq\u00df;2", true}, {"zq\u044f'3", true}, {"zq\u4e2d 4", true}, {"zq\u0663)5", true},
	{"zq\u00e9\"6", true}, {"zq\u00e9,7", true}, {"zq\u00e9.8", true}, {"zq\u00e9\\9", true}, {"zq\u00e9/*a", true},
	{"zq\u00e9=b", true}, {"zq\u00e9%c", true}, {"zq\u00e9$d", true}, {"zq\u00e9\x00e", true}, {"zq\u00e9\nf", true},
	{"zq\u00e9\uff1bg", true}, {"zq\u00e9\u00a0h", true}, {"zq\u00e9\u2167i", true}, {"zq(\u00e9j", true},
	{"zq\u00e9(a int); drop table x; --", true}, {"zq\u00e9\u00df\u044f\u4e2d\u0663k", false},
}

// FirstUniMarker is the position of the first marker with a non-ASCII prefix.
const FirstUniMarker = 31

// FirstIdxMarker is the position of the first index-entry marker in Markers.
const FirstIdxMarker = 18

// IdxHostile is the verdict for a marker at a table.index position: strip ONE
// trailing " asc" or " desc" (exact spelling); what remains must consist of
// letters, digits, '_' and '-'.
func IdxHostile(s string) bool {
	switch {
	case strings.HasSuffix(s, " asc"):
		s = strings.TrimSuffix(s, " asc")
	case strings.HasSuffix(s, " desc"):
		s = strings.TrimSuffix(s, " desc")
	}
	for _, r := range s {
		if !(unicode.IsLetter(r) || unicode.IsDigit(r) || r == '_' || r == '-') {
			return true
		}
	}
	return false
}
