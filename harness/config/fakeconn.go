// Package config: shared harness code of properties C15 and C16
// (builder "config"): a Go-level fake of wpg.Conn that records every SQL text
// it receives and interprets the DDL/DML subset the configuration layer and
// dig.Integration issue, the JSON string-position walker, the seed
// configurations and the Coq printers of configurations.
package config

import (
	"context"
	"database/sql/driver"
	"encoding/hex"
	"errors"
	"fmt"
	"sort"
	"strings"
	"unicode"

	"github.com/holiman/uint256"
	"github.com/indexsupply/shovel/eth"
	"github.com/jackc/pgx/v5"
	"github.com/jackc/pgx/v5/pgconn"
)

// Stmt is one SQL text received by the fake together with its arguments.
type Stmt struct {
	Via  string // exec | query | queryrow | copy-describe | copy
	SQL  string
	Args []any
	Err  string // error returned to the caller ("" = success)
}

type Col struct{ Name, Type string }

type Table struct {
	Name string
	Cols []Col
	Rows []map[string]any // column name -> cell (absent = NULL)
}

type Index struct {
	Name   string
	Table  string
	Cols   []string
	Unique bool
}

// FakeConn implements wpg.Conn.
//
// Lenient (C15): every statement succeeds whatever its text; the
// information_schema lookup answers "no columns" so that Table.Migrate issues
// the create statements and one `alter table add column` per column; QueryRow
// answers "no rows".  Nothing is interpreted.
//
// Strict (C16): texts are parsed (unquoted identifiers fold to lower case as
// in Postgres; `--` starts a comment); what cannot be parsed is a syntax
// error; tables, indexes (index names are schema-global, `if not exists`
// keeps the first) and rows are kept; COPY checks that table and columns
// exist, that no column is named twice, and enforces every unique index
// (NULLs are distinct); a failing COPY inserts nothing.
type FakeConn struct {
	Lenient  bool
	RowFound bool // lenient mode: answer of QueryRow
	KeepCopy bool // keep the column list and rows of the last CopyFrom (LastCols, LastRows)
	LastCols []string
	LastRows [][]any
	Log      []Stmt
	Tables   map[string]*Table
	Indexes  map[string]*Index
	IdxSeq   []string // creation order of the indexes
	TabSeq   []string
	Notes    []string
}

func NewFake(lenient bool) *FakeConn {
	return &FakeConn{Lenient: lenient, Tables: map[string]*Table{}, Indexes: map[string]*Index{}}
}

func pgErr(code, msg string) error {
	return &pgconn.PgError{Code: code, Message: msg, Severity: "ERROR"}
}

// ---------------------------------------------------------------- tokenizer
type tok struct {
	k string // id | qid | str | num | par | p (punctuation)
	v string
}

func lowerASCII(s string) string {
	b := []byte(s)
	for i, c := range b {
		if c >= 'A' && c <= 'Z' {
			b[i] = c + 32
		}
	}
	return string(b)
}

func tokenize(s string) ([]tok, error) {
	var out []tok
	rs := []rune(s)
	i := 0
	for i < len(rs) {
		c := rs[i]
		switch {
		case c == ' ' || c == '\t' || c == '\n' || c == '\r' || c == '\f':
			i++
		case c == '-' && i+1 < len(rs) && rs[i+1] == '-':
			for i < len(rs) && rs[i] != '\n' {
				i++
			}
		case c == '/' && i+1 < len(rs) && rs[i+1] == '*':
			j := i + 2
			for j+1 < len(rs) && !(rs[j] == '*' && rs[j+1] == '/') {
				j++
			}
			if j+1 >= len(rs) {
				return nil, errors.New("unterminated /* comment")
			}
			i = j + 2
		case c == '"':
			j := i + 1
			var sb strings.Builder
			for {
				if j >= len(rs) {
					return nil, errors.New("unterminated quoted identifier")
				}
				if rs[j] == '"' {
					if j+1 < len(rs) && rs[j+1] == '"' {
						sb.WriteRune('"')
						j += 2
						continue
					}
					break
				}
				sb.WriteRune(rs[j])
				j++
			}
			if sb.Len() == 0 {
				return nil, errors.New("zero-length delimited identifier")
			}
			out = append(out, tok{"qid", sb.String()})
			i = j + 1
		case c == '\'':
			j := i + 1
			var sb strings.Builder
			for {
				if j >= len(rs) {
					return nil, errors.New("unterminated quoted string")
				}
				if rs[j] == '\'' {
					if j+1 < len(rs) && rs[j+1] == '\'' {
						sb.WriteRune('\'')
						j += 2
						continue
					}
					break
				}
				sb.WriteRune(rs[j])
				j++
			}
			out = append(out, tok{"str", sb.String()})
			i = j + 1
		case c == '$' && i+1 < len(rs) && rs[i+1] >= '0' && rs[i+1] <= '9':
			j := i + 1
			for j < len(rs) && rs[j] >= '0' && rs[j] <= '9' {
				j++
			}
			out = append(out, tok{"par", string(rs[i+1 : j])})
			i = j
		case c >= '0' && c <= '9':
			j := i
			for j < len(rs) && rs[j] >= '0' && rs[j] <= '9' {
				j++
			}
			// 12abc is a number followed by an identifier in Postgres (an error in every
			// position the statements below use); keep them as two tokens
			out = append(out, tok{"num", string(rs[i:j])})
			i = j
		case c == '_' || unicode.IsLetter(c) || c >= 0x80:
			j := i
			for j < len(rs) && (rs[j] == '_' || rs[j] == '$' || unicode.IsLetter(rs[j]) || unicode.IsDigit(rs[j]) || rs[j] >= 0x80) {
				j++
			}
			out = append(out, tok{"id", lowerASCII(string(rs[i:j]))})
			i = j
		case c == '>' && i+1 < len(rs) && rs[i+1] == '=':
			out = append(out, tok{"p", ">="})
			i += 2
		case c == '<' && i+1 < len(rs) && rs[i+1] == '=':
			out = append(out, tok{"p", "<="})
			i += 2
		default:
			out = append(out, tok{"p", string(c)})
			i++
		}
	}
	return out, nil
}

type parser struct {
	t []tok
	i int
}

func (p *parser) peek() tok {
	if p.i < len(p.t) {
		return p.t[p.i]
	}
	return tok{"eof", ""}
}
func (p *parser) next() tok { t := p.peek(); p.i++; return t }
func (p *parser) kw(words ...string) bool {
	save := p.i
	for _, w := range words {
		t := p.next()
		if t.k != "id" || t.v != w {
			p.i = save
			return false
		}
	}
	return true
}
func (p *parser) punct(v string) bool {
	t := p.peek()
	if t.k == "p" && t.v == v {
		p.i++
		return true
	}
	return false
}

var sqlReserved = map[string]bool{}

func init() {
	for _, w := range strings.Fields(`all analyse analyze and any array as asc asymmetric both case cast check collate column
constraint create current_catalog current_date current_role current_time current_timestamp current_user default deferrable desc
distinct do else end except false fetch for foreign from grant group having in initially intersect into lateral leading limit
localtime localtimestamp not null offset on only or order placing primary references returning select session_user some symmetric
table then to trailing true union unique user using variadic when where window with`) {
		sqlReserved[w] = true
	}
}

// ident: an identifier usable as a name (reserved words only when quoted)
func (p *parser) ident() (string, bool) {
	t := p.peek()
	switch {
	case t.k == "qid":
		p.i++
		return t.v, true
	case t.k == "id" && !sqlReserved[t.v]:
		p.i++
		return t.v, true
	}
	return "", false
}

// qualified name: [schema .] name ; schema "public" is dropped
func (p *parser) qname() (string, bool) {
	a, ok := p.ident()
	if !ok {
		return "", false
	}
	if p.punct(".") {
		b, ok := p.ident()
		if !ok {
			return "", false
		}
		if a == "public" {
			return b, true
		}
		return a + "." + b, true
	}
	return a, true
}

// a column type: one or more plain words, optional (n[,m]), optional []
func (p *parser) typ() (string, bool) {
	var parts []string
	for {
		t := p.peek()
		if t.k == "id" && !sqlReserved[t.v] {
			parts = append(parts, t.v)
			p.i++
			continue
		}
		break
	}
	if len(parts) == 0 {
		return "", false
	}
	s := strings.Join(parts, " ")
	if p.punct("(") {
		n := p.next()
		if n.k != "num" {
			return "", false
		}
		s += "(" + n.v
		if p.punct(",") {
			m := p.next()
			if m.k != "num" {
				return "", false
			}
			s += "," + m.v
		}
		if !p.punct(")") {
			return "", false
		}
		s += ")"
	}
	if p.punct("[") {
		if !p.punct("]") {
			return "", false
		}
		s += "[]"
	}
	return s, true
}

func synErr(sql string) error { return pgErr("42601", "syntax error in: "+sql) }

// execStrict interprets one statement.
func (f *FakeConn) execStrict(sql string, args []any) (string, error) {
	toks, err := tokenize(sql)
	if err != nil {
		return "", pgErr("42601", err.Error())
	}
	p := &parser{t: toks}
	end := func() bool {
		p.punct(";")
		return p.peek().k == "eof"
	}
	switch {
	case p.kw("create", "table", "if", "not", "exists"):
		name, ok := p.qname()
		if !ok || !p.punct("(") {
			return "", synErr(sql)
		}
		var cols []Col
		for {
			cn, ok := p.ident()
			if !ok {
				return "", synErr(sql)
			}
			ty, ok := p.typ()
			if !ok {
				return "", synErr(sql)
			}
			cols = append(cols, Col{cn, ty})
			if p.punct(",") {
				continue
			}
			break
		}
		if !p.punct(")") || !end() {
			return "", synErr(sql)
		}
		if _, exists := f.Tables[name]; exists {
			return "CREATE TABLE", nil // if not exists: skipped before the column list is looked at
		}
		seen := map[string]bool{}
		for _, c := range cols {
			if seen[c.Name] {
				return "", pgErr("42701", fmt.Sprintf("column %q specified more than once", c.Name))
			}
			seen[c.Name] = true
		}
		f.Tables[name] = &Table{Name: name, Cols: cols}
		f.TabSeq = append(f.TabSeq, name)
		return "CREATE TABLE", nil
	case p.kw("create", "unique", "index", "if", "not", "exists"), p.kw("create", "index", "if", "not", "exists"):
		unique := toks[1].v == "unique"
		iname, ok := p.ident()
		if !ok || !p.kw("on") {
			return "", synErr(sql)
		}
		tname, ok := p.qname()
		if !ok || !p.punct("(") {
			return "", synErr(sql)
		}
		var cols []string
		for {
			cn, ok := p.ident()
			if !ok {
				return "", synErr(sql)
			}
			if !p.kw("asc") {
				p.kw("desc")
			}
			cols = append(cols, cn)
			if p.punct(",") {
				continue
			}
			break
		}
		if !p.punct(")") || !end() {
			return "", synErr(sql)
		}
		if _, exists := f.Indexes[iname]; exists {
			return "CREATE INDEX", nil // if not exists: skipped (the name is taken, whatever it indexes)
		}
		t, ok := f.Tables[tname]
		if !ok {
			return "", pgErr("42P01", fmt.Sprintf("relation %q does not exist", tname))
		}
		for _, c := range cols {
			if !t.hasCol(c) {
				return "", pgErr("42703", fmt.Sprintf("column %q does not exist", c))
			}
		}
		if unique {
			if dup := t.firstDup(cols, nil); dup != "" {
				return "", pgErr("23505", "could not create unique index: duplicate key "+dup)
			}
		}
		f.Indexes[iname] = &Index{Name: iname, Table: tname, Cols: cols, Unique: unique}
		f.IdxSeq = append(f.IdxSeq, iname)
		return "CREATE INDEX", nil
	case p.kw("alter", "table"):
		tname, ok := p.qname()
		if !ok || !p.kw("add", "column", "if", "not", "exists") {
			return "", synErr(sql)
		}
		cn, ok := p.ident()
		if !ok {
			return "", synErr(sql)
		}
		ty, ok := p.typ()
		if !ok || !end() {
			return "", synErr(sql)
		}
		t, ok := f.Tables[tname]
		if !ok {
			return "", pgErr("42P01", fmt.Sprintf("relation %q does not exist", tname))
		}
		if !t.hasCol(cn) {
			t.Cols = append(t.Cols, Col{cn, ty})
		}
		return "ALTER TABLE", nil
	case p.kw("delete", "from"):
		tname, ok := p.qname()
		if !ok || !p.kw("where", "src_name") || !p.punct("=") || p.next() != (tok{"par", "1"}) ||
			!p.kw("and", "ig_name") || !p.punct("=") || p.next() != (tok{"par", "2"}) ||
			!p.kw("and", "block_num") || !p.punct(">=") || p.next() != (tok{"par", "3"}) || !end() {
			return "", synErr(sql)
		}
		t, ok := f.Tables[tname]
		if !ok {
			return "", pgErr("42P01", fmt.Sprintf("relation %q does not exist", tname))
		}
		if len(args) != 3 {
			return "", pgErr("08P01", "bind message supplies wrong number of parameters")
		}
		var keep []map[string]any
		n := 0
		for _, r := range t.Rows {
			if Canon(r["src_name"]) == Canon(args[0]) && Canon(r["ig_name"]) == Canon(args[1]) && numGE(r["block_num"], args[2]) {
				n++
				continue
			}
			keep = append(keep, r)
		}
		t.Rows = keep
		return fmt.Sprintf("DELETE %d", n), nil
	case p.kw("select", "pg_notify"):
		if !p.punct("(") {
			return "", synErr(sql)
		}
		ch := p.next()
		if ch.k != "str" || !p.punct(",") || p.next() != (tok{"par", "1"}) || !p.punct(")") || !end() {
			return "", synErr(sql)
		}
		f.Notes = append(f.Notes, ch.v)
		return "SELECT 1", nil
	}
	return "", synErr(sql)
}

func numGE(a, b any) bool {
	x, ok1 := toU64(a)
	y, ok2 := toU64(b)
	return ok1 && ok2 && x >= y
}

func toU64(v any) (uint64, bool) {
	switch x := v.(type) {
	case uint64:
		return x, true
	case eth.Uint64:
		return uint64(x), true
	case int:
		return uint64(x), x >= 0
	case int64:
		return uint64(x), x >= 0
	}
	return 0, false
}

func (t *Table) colType(n string) string {
	for _, c := range t.Cols {
		if c.Name == n {
			return c.Type
		}
	}
	return ""
}

// IntOf reads a Go integer cell.
func IntOf(v any) (int64, bool) {
	switch x := v.(type) {
	case int:
		return int64(x), true
	case int8:
		return int64(x), true
	case int16:
		return int64(x), true
	case int32:
		return int64(x), true
	case int64:
		return x, true
	case uint64:
		return int64(x), x < 1<<63
	case eth.Uint64:
		return int64(x), x < 1<<63
	case eth.Byte:
		return int64(x), true
	}
	return 0, false
}

func (t *Table) hasCol(n string) bool {
	for _, c := range t.Cols {
		if c.Name == n {
			return true
		}
	}
	return false
}

// Canon renders a cell for key comparison; "" + false for NULL.
func Canon(v any) string {
	switch x := v.(type) {
	case nil:
		return "\x00NULL"
	case string:
		return "s:" + x
	case []byte:
		if x == nil {
			return "\x00NULL"
		}
		return "b:" + hex.EncodeToString(x)
	case eth.Bytes:
		if x == nil {
			return "\x00NULL"
		}
		return "b:" + hex.EncodeToString(x)
	case uint64:
		return fmt.Sprintf("n:%d", x)
	case eth.Uint64:
		return fmt.Sprintf("n:%d", uint64(x))
	case eth.Byte:
		return fmt.Sprintf("n:%d", uint64(x))
	case int:
		return fmt.Sprintf("n:%d", x)
	case int64:
		return fmt.Sprintf("n:%d", x)
	case int16:
		return fmt.Sprintf("n:%d", x)
	case int32:
		return fmt.Sprintf("n:%d", x)
	case bool:
		return fmt.Sprintf("t:%v", x)
	case *uint256.Int:
		if x == nil {
			return "\x00NULL"
		}
		return "n:" + x.Dec()
	case driver.Valuer:
		d, err := x.Value()
		if err != nil {
			return "err:" + err.Error()
		}
		return Canon(d)
	}
	return fmt.Sprintf("?:%v", v)
}

func isNull(v any) bool { return Canon(v) == "\x00NULL" }

// firstDup reports a key that violates uniqueness of cols among the table's
// rows plus extra ("" = none).  A key with a NULL part never conflicts.
func (t *Table) firstDup(cols []string, extra []map[string]any) string {
	seen := map[string]bool{}
	all := append(append([]map[string]any{}, t.Rows...), extra...)
	for _, r := range all {
		var parts []string
		null := false
		for _, c := range cols {
			if isNull(r[c]) {
				null = true
				break
			}
			parts = append(parts, Canon(r[c]))
		}
		if null {
			continue
		}
		k := strings.Join(parts, "\x01")
		if seen[k] {
			return "(" + strings.Join(parts, ", ") + ")"
		}
		seen[k] = true
	}
	return ""
}

// ---------------------------------------------------------------- wpg.Conn
func (f *FakeConn) Exec(ctx context.Context, sql string, args ...any) (pgconn.CommandTag, error) {
	st := Stmt{Via: "exec", SQL: sql, Args: args}
	if f.Lenient {
		f.Log = append(f.Log, st)
		return pgconn.NewCommandTag("OK"), nil
	}
	tag, err := f.execStrict(sql, args)
	if err != nil {
		st.Err = err.Error()
	}
	f.Log = append(f.Log, st)
	return pgconn.NewCommandTag(tag), err
}

type fakeRows struct {
	names []string
	data  [][]string
	i     int
	err   error
}

func (r *fakeRows) Close()                        {}
func (r *fakeRows) Err() error                    { return r.err }
func (r *fakeRows) CommandTag() pgconn.CommandTag { return pgconn.NewCommandTag("SELECT") }
func (r *fakeRows) FieldDescriptions() []pgconn.FieldDescription {
	var fd []pgconn.FieldDescription
	for _, n := range r.names {
		fd = append(fd, pgconn.FieldDescription{Name: n, DataTypeOID: 25})
	}
	return fd
}
func (r *fakeRows) Next() bool {
	if r.err != nil || r.i >= len(r.data) {
		return false
	}
	r.i++
	return true
}
func (r *fakeRows) Scan(dest ...any) error {
	row := r.data[r.i-1]
	if len(dest) != len(row) {
		return fmt.Errorf("fakeRows.Scan: %d destinations for %d columns", len(dest), len(row))
	}
	for i, d := range dest {
		switch p := d.(type) {
		case *string:
			*p = row[i]
		case nil:
		default:
			return fmt.Errorf("fakeRows.Scan: unsupported destination %T", d)
		}
	}
	return nil
}
func (r *fakeRows) Values() ([]any, error) {
	var out []any
	for _, v := range r.data[r.i-1] {
		out = append(out, v)
	}
	return out, nil
}
func (r *fakeRows) RawValues() [][]byte {
	var out [][]byte
	for _, v := range r.data[r.i-1] {
		out = append(out, []byte(v))
	}
	return out
}
func (r *fakeRows) Conn() *pgx.Conn { return nil }

func squash(s string) string { return strings.Join(strings.Fields(s), " ") }

const infoSchemaQ = "select column_name, data_type from information_schema.columns where table_schema = 'public' and table_name = $1"

func (f *FakeConn) Query(ctx context.Context, sql string, args ...any) (pgx.Rows, error) {
	st := Stmt{Via: "query", SQL: sql, Args: args}
	rows := &fakeRows{names: []string{"column_name", "data_type"}}
	switch {
	case squash(sql) == infoSchemaQ && len(args) == 1:
		if !f.Lenient {
			if name, ok := args[0].(string); ok {
				if t, ok := f.Tables[name]; ok { // the catalog stores the folded name; the lookup is by exact string
					for _, c := range t.Cols {
						rows.data = append(rows.data, []string{c.Name, c.Type})
					}
				}
			}
		}
	case f.Lenient:
	default:
		rows.err = synErr(sql)
		st.Err = rows.err.Error()
	}
	f.Log = append(f.Log, st)
	return rows, nil
}

type fakeRow struct {
	found bool
	err   error
}

func (r fakeRow) Scan(dest ...any) error {
	if r.err != nil {
		return r.err
	}
	if !r.found {
		return pgx.ErrNoRows
	}
	if len(dest) == 1 {
		if p, ok := dest[0].(*bool); ok {
			*p = true
			return nil
		}
	}
	return errors.New("fakeRow.Scan: unsupported destination")
}

func (f *FakeConn) QueryRow(ctx context.Context, sql string, args ...any) pgx.Row {
	st := Stmt{Via: "queryrow", SQL: sql, Args: args}
	if f.Lenient {
		f.Log = append(f.Log, st)
		return fakeRow{found: f.RowFound}
	}
	res := fakeRow{}
	toks, err := tokenize(sql)
	p := &parser{t: toks}
	if err == nil && p.kw("select", "true", "from") {
		tn, ok1 := p.qname()
		ok2 := p.kw("where")
		cn, ok3 := p.ident()
		if ok1 && ok2 && ok3 && p.punct("=") && p.next() == (tok{"par", "1"}) && p.peek().k == "eof" && len(args) == 1 {
			t, ok := f.Tables[tn]
			switch {
			case !ok:
				res.err = pgErr("42P01", fmt.Sprintf("relation %q does not exist", tn))
			case !t.hasCol(cn):
				res.err = pgErr("42703", fmt.Sprintf("column %q does not exist", cn))
			default:
				for _, r := range t.Rows {
					if !isNull(r[cn]) && Canon(r[cn]) == Canon(args[0]) {
						res.found = true
					}
				}
			}
		} else {
			res.err = synErr(sql)
		}
	} else {
		res.err = synErr(sql)
	}
	if res.err != nil {
		st.Err = res.err.Error()
	}
	f.Log = append(f.Log, st)
	return res
}

// CopyFrom records the two texts pgx itself would send (statement
// description, then COPY) and, in strict mode, applies the rows.
func (f *FakeConn) CopyFrom(ctx context.Context, ident pgx.Identifier, cols []string, src pgx.CopyFromSource) (int64, error) {
	var qc []string
	for _, c := range cols {
		qc = append(qc, pgx.Identifier{c}.Sanitize())
	}
	qt := ident.Sanitize()
	desc := Stmt{Via: "copy-describe", SQL: fmt.Sprintf("select %s from %s", strings.Join(qc, ", "), qt)}
	cp := Stmt{Via: "copy", SQL: fmt.Sprintf("copy %s ( %s ) from stdin binary;", qt, strings.Join(qc, ", "))}
	var rows [][]any
	for src.Next() {
		v, err := src.Values()
		if err != nil {
			return 0, err
		}
		rows = append(rows, v)
	}
	cp.Args = []any{len(rows)}
	if f.KeepCopy {
		f.LastCols, f.LastRows = append([]string{}, cols...), rows
	}
	fail := func(err error) (int64, error) {
		cp.Err = err.Error()
		f.Log = append(f.Log, desc, cp)
		return 0, err
	}
	if f.Lenient {
		f.Log = append(f.Log, desc, cp)
		return int64(len(rows)), nil
	}
	// the quoted table name is looked up exactly (no case folding for quoted identifiers)
	tname := strings.Join([]string(ident), ".")
	t, ok := f.Tables[tname]
	if !ok {
		return fail(pgErr("42P01", fmt.Sprintf("relation %q does not exist", tname)))
	}
	seen := map[string]bool{}
	for _, c := range cols {
		if c == "" {
			return fail(pgErr("42601", "zero-length delimited identifier"))
		}
		if !t.hasCol(c) {
			return fail(pgErr("42703", fmt.Sprintf("column %q of relation %q does not exist", c, tname)))
		}
		if seen[c] {
			return fail(pgErr("42701", fmt.Sprintf("column %q specified more than once", c)))
		}
		seen[c] = true
	}
	// integer columns have a range (Postgres: 22003 "smallint out of range")
	for i, c := range cols {
		var lo, hi int64
		switch t.colType(c) {
		case "int2", "smallint":
			lo, hi = -32768, 32767
		case "int", "int4", "integer":
			lo, hi = -2147483648, 2147483647
		default:
			continue
		}
		for _, r := range rows {
			if i < len(r) {
				if v, ok := IntOf(r[i]); ok && (v < lo || v > hi) {
					return fail(pgErr("22003", fmt.Sprintf("value %d out of range for column %q of type %s", v, c, t.colType(c))))
				}
			}
		}
	}
	var add []map[string]any
	for _, r := range rows {
		if len(r) != len(cols) {
			return fail(pgErr("22P04", "row field count does not match the column list"))
		}
		m := map[string]any{}
		for i, c := range cols {
			m[c] = r[i]
		}
		add = append(add, m)
	}
	var names []string
	for n := range f.Indexes {
		names = append(names, n)
	}
	sort.Strings(names)
	for _, n := range names {
		ix := f.Indexes[n]
		if !ix.Unique || ix.Table != tname {
			continue
		}
		if dup := t.firstDup(ix.Cols, add); dup != "" {
			return fail(pgErr("23505", fmt.Sprintf("duplicate key value violates unique constraint %q: %s", n, dup)))
		}
	}
	t.Rows = append(t.Rows, add...)
	f.Log = append(f.Log, desc, cp)
	return int64(len(rows)), nil
}

// Texts returns every SQL text received so far.
func (f *FakeConn) Texts() []string {
	var out []string
	for _, s := range f.Log {
		out = append(out, s.SQL)
	}
	return out
}

// IsUniqueViolation reports whether err is the fake's (or Postgres') 23505.
func IsUniqueViolation(err error) bool {
	var pe *pgconn.PgError
	return errors.As(err, &pe) && pe.Code == "23505"
}
