package config

import (
	"context"
	"net/url"
	"strings"

	"github.com/indexsupply/shovel/eth"
	"github.com/indexsupply/shovel/jrpc2"
	"github.com/indexsupply/shovel/shovel"
	shconfig "github.com/indexsupply/shovel/shovel/config"
	"github.com/indexsupply/shovel/shovel/glf"
	"github.com/indexsupply/shovel/wctx"
	"github.com/indexsupply/shovel/wpg"
	"github.com/jackc/pgx/v5/pgxpool"
	"verif/harness/fakepg"
)

// scriptedSource serves one chain: block n has hash h(n) and parent h(n-1);
// the head is `head`; Get returns the marker-filled block of the task's
// integration, renumbered.
type scriptedSource struct {
	cl   *jrpc2.Client
	head uint64
	ig   shconfig.Integration
}

func hashOf(n uint64) []byte {
	b := make([]byte, 32)
	copy(b, ChainMarker)
	for i := 0; i < 8; i++ {
		b[31-i] = byte(n >> (8 * i))
	}
	return b
}

func (s *scriptedSource) NextURL() *jrpc2.URL { return s.cl.NextURL() }
func (s *scriptedSource) Hash(ctx context.Context, url string, n uint64) ([]byte, error) {
	return hashOf(n), nil
}
func (s *scriptedSource) Latest(ctx context.Context, url string, n uint64) (uint64, []byte, error) {
	return s.head, hashOf(s.head), nil
}
func (s *scriptedSource) Get(ctx context.Context, url string, f *glf.Filter, start, limit uint64) ([]eth.Block, error) {
	var out []eth.Block
	for n := start; n < start+limit; n++ {
		var b eth.Block
		if bs, ok := BlocksFor(s.ig); ok {
			b.Txs = bs[0].Txs
		}
		b.Header = eth.Header{Number: eth.Uint64(n), Hash: hashOf(n), Parent: hashOf(n - 1)}
		out = append(out, b)
	}
	return out, nil
}

// WireObs: what the database received on the wire on the file path.
type WireObs struct {
	Err      string
	AllSQL   []string // every statement text (white space normalised by the fake)
	AppNames []string // `set application_name ...`
	Cursor   []string // statements on shovel.task_updates
	Steps    int      // Converge calls that returned nil
	Params   []string // every statement parameter the database received, rendered
	Exits    bool     // a source URL does not parse: jrpc2.MustURL ends the PROCESS in loadTasks (not run)
}

// RunFileWire: the file path as cmd/shovel/main.go runs it against a real
// pool: shovel.Schema, config.Migrate, loadTasks (NewTask) and ONE
// Task.Converge per task against a scripted source, on a fresh wire-level
// fake Postgres.  conf must have passed ValidateFix.
func RunFileWire(conf shconfig.Root) (o WireObs) {
	// loadTasks builds a jrpc2 client per source; jrpc2.MustURL prints "unable to parse url" and
	// calls os.Exit(1) on a URL that url.Parse refuses.  That is the implementation's way of
	// rejecting the configuration at startup (after the migration, before any task statement);
	// the driver must not be taken down with it: such a configuration is not run on the wire.
	for _, sc := range conf.Sources {
		for _, u := range append(append([]string{}, sc.URLs...), sc.WSURL) {
			if _, err := url.Parse(u); err != nil {
				o.Exits = true
				return
			}
		}
	}
	s, err := fakepg.Start()
	if err != nil {
		o.Err = "fakepg: " + err.Error()
		return
	}
	defer s.Close()
	ctx := wctx.WithVersion(context.Background(), Version)
	pool, err := wpg.NewPool(ctx, s.URL())
	if err != nil {
		o.Err = "pool: " + err.Error()
		return
	}
	defer pool.Close()
	if _, err := pool.Exec(ctx, shovel.Schema); err != nil {
		o.Err = "schema: " + err.Error()
		return
	}
	n0 := s.LogLen()
	p := catch(func() {
		shconfig.Migrate(ctx, pool, conf) // names the fake's parser refuses (hyphen, ...) fail here as in Postgres
		o.Steps = convergeOnce(ctx, pool, conf, conf.Integrations)
	})
	if p != "" {
		o.Err = "panic: " + p
	}
	for _, en := range s.Log()[n0:] {
		o.AllSQL = append(o.AllSQL, en.SQL)
		o.Params = append(o.Params, renderParams(en.Params)...)
		switch {
		case strings.HasPrefix(en.SQL, "set application_name"):
			o.AppNames = append(o.AppNames, en.SQL)
		case en.Table == "shovel.task_updates":
			o.Cursor = append(o.Cursor, en.SQL)
		}
	}
	return
}

func renderParams(ps []fakepg.Value) []string {
	var out []string
	for _, p := range ps {
		switch x := p.(type) {
		case string:
			out = append(out, x)
		case []fakepg.Value:
			out = append(out, renderParams(x)...)
		case []byte:
			out = append(out, string(x))
		default:
			out = append(out, fakepg.FormatValue(p))
		}
	}
	return out
}

// convergeOnce builds the tasks of conf against the pool (loadTasks) and runs
// one Converge per task on the scripted source.
func convergeOnce(ctx context.Context, pool *pgxpool.Pool, conf shconfig.Root, igs []shconfig.Integration) (steps int) {
	tasks, err := shovel.VerifTaskLoad(ctx, pool, conf)
	if err != nil {
		return 0
	}
	byName := map[string]shconfig.Integration{}
	for _, ig := range igs {
		byName[ig.Name] = ig
	}
	for _, t := range tasks {
		info := t.VerifTaskInfo()
		head := info.Stop
		if head == 0 {
			head = info.Start + 1
		}
		t.VerifTaskSetSource(&scriptedSource{cl: jrpc2.New("http://127.0.0.1:1"), head: head, ig: byName[info.IGName]})
		if t.Converge() == nil {
			steps++
		}
	}
	return steps
}
