package config

import (
	"context"
	"encoding/json"
	"fmt"
	"strings"
	"sync"

	"github.com/holiman/uint256"
	"github.com/indexsupply/shovel/dig"
	"github.com/indexsupply/shovel/eth"
	shconfig "github.com/indexsupply/shovel/shovel/config"
	"github.com/indexsupply/shovel/wctx"
)

const Version = "verif1"

// ChainMarker is planted in every chain-derived value of the dynamic run.
const ChainMarker = "c';--\")("

func fill(n int) []byte {
	b := make([]byte, n)
	for i := range b {
		b[i] = ChainMarker[i%len(ChainMarker)]
	}
	return b
}

func word(n uint64) []byte {
	b := make([]byte, 32)
	for i := 0; i < 8; i++ {
		b[31-i] = byte(n >> (8 * i))
	}
	return b
}

func isDyn(t string) bool { return strings.HasPrefix(t, "string") || t == "bytes" }

func staticWords(in dig.Input) ([]byte, bool) {
	if strings.Contains(in.Type, "[") {
		return nil, false
	}
	if len(in.Components) > 0 {
		var out []byte
		for _, c := range in.Components {
			w, ok := staticWords(c)
			if !ok {
				return nil, false
			}
			out = append(out, w...)
		}
		return out, true
	}
	if isDyn(in.Type) {
		return nil, false
	}
	return fill(32), true
}

// EventData ABI-encodes marker values for the non-indexed inputs of an event
// (static leaves, tuples of static leaves, string/bytes); ok=false when the
// event uses a type the encoder does not cover.
func EventData(ev dig.Event) (data []byte, ok bool) {
	type part struct {
		head []byte
		dyn  []byte
		isd  bool
	}
	var parts []part
	headSize := 0
	for _, in := range ev.Inputs {
		if in.Indexed {
			continue
		}
		if len(in.Components) == 0 && isDyn(in.Type) && !strings.Contains(in.Type, "[") {
			payload := []byte(ChainMarker + " string payload")
			tail := append(word(uint64(len(payload))), payload...)
			for len(tail)%32 != 0 {
				tail = append(tail, 0)
			}
			parts = append(parts, part{dyn: tail, isd: true})
			headSize += 32
			continue
		}
		w, ok := staticWords(in)
		if !ok {
			return nil, false
		}
		parts = append(parts, part{head: w})
		headSize += len(w)
	}
	var head, tail []byte
	for _, p := range parts {
		if p.isd {
			head = append(head, word(uint64(headSize+len(tail)))...)
			tail = append(tail, p.dyn...)
		} else {
			head = append(head, p.head...)
		}
	}
	return append(head, tail...), true
}

// BlocksFor builds one block whose single transaction carries a log of the
// integration's event, a trace action and marker-filled fields.
func BlocksFor(ig shconfig.Integration) ([]eth.Block, bool) {
	data, ok := EventData(ig.Event)
	if !ok {
		return nil, false
	}
	addr := fill(20)
	for _, bd := range ig.Block {
		if bd.Name == "log_addr" && len(bd.Filter.Arg) > 0 {
			if a := eth.DecodeHex(bd.Filter.Arg[0]); len(a) == 20 {
				addr = a
			}
		}
	}
	topics := []eth.Bytes{ig.Event.SignatureHash()}
	for _, in := range ig.Event.Inputs {
		if in.Indexed {
			topics = append(topics, fill(32))
		}
	}
	tx := eth.Tx{Idx: 3, PrecompHash: fill(32), From: fill(20), To: fill(20), Data: fill(40)}
	tx.Value = *uint256.NewInt(5)
	tx.Logs = eth.Logs{{Idx: 9, Address: addr, Topics: topics, Data: data}}
	tx.TraceActions = []eth.TraceAction{{Idx: 0, From: fill(20), To: fill(20), CallType: ChainMarker}}
	b := eth.Block{Header: eth.Header{Number: 12, Hash: fill(32), Parent: fill(32)}}
	b.Txs = eth.Txs{tx}
	return []eth.Block{b}, true
}

// Observation of one configuration on one path.
type Obs struct {
	Decoded  bool
	Accepted bool
	Err      string
	Panic    string
	Static   []string // every SQL text, in order, of: Migrate; per task: Delete, Accept on each filter, COPY, notify
	Dynamic  []string // texts issued by Insert on BlocksFor (chain data full of markers)
	DynRows  int
}

func catch(f func()) (msg string) {
	defer func() {
		if r := recover(); r != nil {
			msg = fmt.Sprint(r)
		}
	}()
	f()
	return ""
}

func taskCtx(src shconfig.Source, igName string) context.Context {
	ctx := wctx.WithVersion(context.Background(), Version)
	ctx = wctx.WithChainID(ctx, src.ChainID)
	ctx = wctx.WithSrcName(ctx, src.Name)
	return wctx.WithIGName(ctx, igName)
}

// driveTask issues, through the fake, what one task (integration on source)
// issues through a wpg.Conn: NewDestination, Delete, Filter.Accept of every
// column definition on a byte-string datum, Insert (COPY), notify.
func driveTask(o *Obs, src shconfig.Source, ig shconfig.Integration) {
	ctx := taskCtx(src, ig.Name)
	static := NewFake(true)
	dest, err := dig.New(ig.Name, ig.Event, ig.Block, ig.Table, ig.Notification, ig.FilterAGG)
	if err != nil {
		o.Err = "dig.New: " + err.Error()
		return
	}
	dest.Delete(ctx, static, 7)
	for _, in := range ig.Event.Selected() {
		dig.VerifCfgAccept(ctx, in.Filter, static, []byte{1, 2, 3}, ig.FilterAGG)
	}
	for _, bd := range ig.Block {
		dig.VerifCfgAccept(ctx, bd.Filter, static, []byte{1, 2, 3}, ig.FilterAGG)
	}
	var mut sync.Mutex
	dest.Insert(ctx, &mut, static, nil)
	if len(ig.Notification.Columns) > 0 {
		row := make([]any, len(dig.VerifCfgColumns(dest)))
		for i := range row {
			row[i] = ChainMarker
		}
		dig.VerifCfgNotify(ctx, dest, static, [][]any{row})
	}
	o.Static = append(o.Static, static.Texts()...)

	if blocks, ok := BlocksFor(ig); ok {
		dyn := NewFake(true)
		dyn.RowFound = true
		dest2, _ := dig.New(ig.Name, ig.Event, ig.Block, ig.Table, ig.Notification, ig.FilterAGG)
		n, _ := dest2.Insert(ctx, &mut, dyn, blocks)
		o.DynRows += int(n)
		o.Dynamic = append(o.Dynamic, dyn.Texts()...)
	}
}

func sourceByName(srcs []shconfig.Source, name string) (shconfig.Source, bool) {
	for _, s := range srcs {
		if s.Name == name {
			return s, true
		}
	}
	return shconfig.Source{}, false
}

// RunFile: the file path of cmd/shovel/main.go.  Returns the Coq term of the
// configuration as decoded (before validation) and the observation.
func RunFile(doc string) (coq string, conf shconfig.Root, o Obs) {
	if err := json.NewDecoder(strings.NewReader(doc)).Decode(&conf); err != nil {
		o.Err = "decode: " + err.Error()
		return
	}
	o.Decoded = true
	coq = CRoot(conf)
	o.Panic = catch(func() {
		if err := shconfig.ValidateFix(&conf); err != nil {
			o.Err = err.Error()
			return
		}
		o.Accepted = true
		mig := NewFake(true)
		shconfig.Migrate(context.Background(), mig, conf)
		o.Static = append(o.Static, mig.Texts()...)
		driveTasks(&o, conf.Sources, conf.Integrations)
	})
	return
}

// driveTasks follows shovel.loadTasks: one task per source reference of every
// enabled integration; a reference that names no source fails the load as a
// whole.
// Loadable: every source reference of every enabled integration resolves
// (shovel.loadTasks succeeds).
func Loadable(srcs []shconfig.Source, igs []shconfig.Integration) bool {
	for _, ig := range igs {
		if !ig.Enabled {
			continue
		}
		for _, ref := range ig.Sources {
			if _, ok := sourceByName(srcs, ref.Name); !ok {
				return false
			}
		}
	}
	return true
}

func driveTasks(o *Obs, srcs []shconfig.Source, igs []shconfig.Integration) {
	if !Loadable(srcs, igs) {
		return
	}
	for _, ig := range igs {
		if !ig.Enabled {
			continue
		}
		for _, ref := range ig.Sources {
			src, _ := sourceByName(srcs, ref.Name)
			driveTask(o, src, ig)
		}
	}
}

// RunDash: the dashboard path, from the source of web.SaveIntegration,
// config.Integrations and shovel.loadTasks: decode, CheckUserInput only,
// store as JSON, load, run on the given (already validated) sources.
func RunDash(igDoc string, srcs []shconfig.Source) (coq string, ig shconfig.Integration, o Obs) {
	if err := json.NewDecoder(strings.NewReader(igDoc)).Decode(&ig); err != nil {
		o.Err = "decode: " + err.Error()
		return
	}
	o.Decoded = true
	coq = CInteg(ig)
	o.Panic = catch(func() {
		if err := shconfig.CheckUserInput(shconfig.Root{Integrations: []shconfig.Integration{ig}}); err != nil {
			o.Err = err.Error()
			return
		}
		cj, err := json.Marshal(ig)
		if err != nil {
			o.Err = "encode: " + err.Error()
			return
		}
		var loaded shconfig.Integration
		if err := json.Unmarshal(cj, &loaded); err != nil {
			o.Err = "load: " + err.Error()
			return
		}
		o.Accepted = true
		driveTasks(&o, srcs, []shconfig.Integration{loaded})
	})
	return
}
