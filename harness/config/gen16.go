package config

import (
	"bytes"
	"context"
	"encoding/json"
	"errors"
	"fmt"
	"sort"
	"strconv"
	"strings"
	"sync"

	"github.com/holiman/uint256"
	"github.com/indexsupply/shovel/dig"
	"github.com/indexsupply/shovel/eth"
	shconfig "github.com/indexsupply/shovel/shovel/config"
	"github.com/indexsupply/shovel/wpg"
	"github.com/jackc/pgx/v5/pgconn"
	"verif/harness/lib"
)

// ---------------------------------------------------------------- generator (C16)

var identity = []string{"ig_name", "src_name", "block_num", "tx_idx", "log_idx", "abi_idx", "trace_action_idx"}
var identityType = map[string]string{"ig_name": "text", "src_name": "text", "block_num": "numeric", "tx_idx": "int",
	"log_idx": "int", "abi_idx": "int2", "trace_action_idx": "int2"}

type fieldT struct{ name, typ string }

var logFields = []fieldT{{"log_addr", "bytea"}, {"tx_hash", "bytea"}, {"block_time", "numeric"}, {"tx_signer", "bytea"}}
var txFields = []fieldT{{"tx_hash", "bytea"}, {"tx_to", "bytea"}, {"tx_input", "bytea"}, {"tx_value", "numeric"}, {"tx_nonce", "numeric"}}
var traceFields = []fieldT{{"trace_action_from", "bytea"}, {"trace_action_to", "bytea"}, {"trace_action_value", "numeric"},
	{"trace_action_call_type", "text"}}

func colType(abi string) string {
	switch {
	case strings.HasPrefix(abi, "uint"):
		return "numeric"
	case abi == "bool":
		return "bool"
	}
	return "bytea"
}

// Case16 is one generated case: configuration, pre-existing catalog, chain.
type Case16 struct {
	Doc      string // the configuration as JSON
	Pre      []PreTable
	Features []string
	Blocks   []eth.Block
	ArrLen   map[string]int // "<block>/<log idx>" -> array length of the log's data
}

type PreTable struct {
	Name     string
	Cols     []Col
	KeyIndex []string // columns of a pre-existing unique index u_<name>; nil = none
}

func shuffle[T any](r *lib.RNG, xs []T) {
	for i := len(xs) - 1; i > 0; i-- {
		j := r.Intn(i + 1)
		xs[i], xs[j] = xs[j], xs[i]
	}
}

func subset[T any](r *lib.RNG, xs []T, min int) []T {
	var out []T
	for _, x := range xs {
		if r.Chance(1, 2) {
			out = append(out, x)
		}
	}
	for len(out) < min {
		out = append(out, xs[r.Intn(len(xs))])
		// duplicates removed below
	}
	return out
}

func hasFeature(fs []string, f string) bool {
	for _, x := range fs {
		if x == f {
			return true
		}
	}
	return false
}

func shapeOf(ig shconfig.Integration) string {
	for _, b := range ig.Block {
		if strings.HasPrefix(b.Name, "trace_") {
			return "trace"
		}
	}
	if len(ig.Event.Selected()) > 0 {
		return "log"
	}
	return "tx"
}

// GenCase16 derives everything from r.
func GenCase16(r *lib.RNG) Case16 {
	var cs Case16
	feat := map[string]bool{}
	conf := shconfig.Root{PGURL: "postgres:///shovel", Sources: []shconfig.Source{{Name: "main", ChainID: 1, URLs: []string{"http://127.0.0.1:8545"}}}}
	n := 1 + r.Intn(3)
	for i := 0; i < n; i++ {
		ig := shconfig.Integration{Name: fmt.Sprintf("ig%d", i), Enabled: true, Sources: []shconfig.Source{{Name: "main"}}}
		ig.Table.Name = fmt.Sprintf("t%d", i)
		var share *shconfig.Integration
		if i > 0 && r.Chance(1, 3) {
			share = &conf.Integrations[r.Intn(i)]
			ig.Table.Name = share.Table.Name
		}
		if share != nil && r.Chance(1, 2) {
			// same declaration under another name: same shape, same key
			raw, _ := json.Marshal(share)
			json.Unmarshal(raw, &ig)
			ig.Name = fmt.Sprintf("ig%d", i)
			ig.Sources = []shconfig.Source{{Name: "main"}}
			feat["shared-table-same-shape"] = true
			conf.Integrations = append(conf.Integrations, ig)
			continue
		}
		shape := []string{"log", "log", "tx", "trace"}[r.Intn(4)]
		var cols []wpg.Column
		addCol := func(name, typ string) {
			for _, c := range cols {
				if c.Name == name {
					return
				}
			}
			cols = append(cols, wpg.Column{Name: name, Type: typ})
		}
		addBD := func(name, column string) {
			for _, b := range ig.Block {
				if b.Name == name {
					return
				}
			}
			ig.Block = append(ig.Block, dig.BlockData{Name: name, Column: column})
		}
		var fields []fieldT
		switch shape {
		case "log":
			ig.Event = dig.Event{Name: fmt.Sprintf("Ev%d", i), Type: "event"}
			nIdx, nNon := r.Intn(3), r.Intn(3)
			k := 0
			for j := 0; j < nIdx; j++ {
				t := []string{"address", "uint256", "bytes32"}[r.Intn(3)]
				ig.Event.Inputs = append(ig.Event.Inputs, dig.Input{Indexed: true, Name: fmt.Sprintf("i%d", k), Type: t})
				k++
			}
			for j := 0; j < nNon; j++ {
				t := []string{"address", "uint256", "bool"}[r.Intn(3)]
				ig.Event.Inputs = append(ig.Event.Inputs, dig.Input{Name: fmt.Sprintf("i%d", k), Type: t})
				k++
			}
			// components of a tuple / tuple[] input: the tuple itself never has a column
			comps := func(prefix string) []dig.Input {
				var cs []dig.Input
				for j := 0; j < 1+r.Intn(3); j++ {
					t := []string{"address", "uint256", "bool", "bytes32"}[r.Intn(4)]
					cs = append(cs, dig.Input{Name: fmt.Sprintf("%s_%d", prefix, j), Type: t})
				}
				return cs
			}
			if r.Chance(1, 4) {
				nm := fmt.Sprintf("i%d", k)
				ig.Event.Inputs = append(ig.Event.Inputs, dig.Input{Name: nm, Type: "tuple", Components: comps(nm)})
				k++
				feat["tuple-components"] = true
			}
			switch r.Intn(6) {
			case 0, 1:
				ig.Event.Inputs = append(ig.Event.Inputs, dig.Input{Name: fmt.Sprintf("i%d", k), Type: "uint256[]"})
			case 2, 3:
				nm := fmt.Sprintf("i%d", k)
				ig.Event.Inputs = append(ig.Event.Inputs, dig.Input{Name: nm, Type: "tuple[]", Components: comps(nm)})
				feat["tuple-array-components"] = true
			}
			if len(ig.Event.Inputs) == 0 {
				ig.Event.Inputs = append(ig.Event.Inputs, dig.Input{Indexed: true, Name: "i0", Type: "address"})
			}
			// selection: everything with probability 3/4; or components only; or the
			// tuple-free siblings only
			mode := r.Intn(4) // 0,1: mixed; 2: components only; 3: siblings only
			sel := 0
			for j := range ig.Event.Inputs {
				in := &ig.Event.Inputs[j]
				if len(in.Components) > 0 {
					for q := range in.Components {
						if mode != 3 && r.Chance(3, 4) {
							in.Components[q].Column = "c_" + in.Components[q].Name
							sel++
						}
					}
					continue
				}
				if mode != 2 && r.Chance(3, 4) {
					in.Column = "c_" + in.Name
					sel++
				}
			}
			if sel == 0 {
				in := &ig.Event.Inputs[len(ig.Event.Inputs)-1]
				if len(in.Components) > 0 {
					in.Components[0].Column = "c_" + in.Components[0].Name
				} else {
					in.Column = "c_" + in.Name
				}
			}
			for _, in := range ig.Event.Selected() {
				addCol(in.Column, colType(in.Type))
			}
			fields = subset(r, logFields, 0)
		case "tx":
			fields = subset(r, txFields, 1)
		case "trace":
			fields = subset(r, traceFields, 1)
			if r.Chance(1, 3) {
				fields = append(fields, fieldT{"tx_hash", "bytea"})
			}
		}
		for _, f := range fields {
			col := f.name
			switch r.Intn(8) {
			case 0, 1:
				col = "c_" + f.name // renamed (a trace field then lives in a column without the trace_ prefix)
			case 2:
				if !strings.HasPrefix(f.name, "trace_") {
					// a NON-trace field stored in a column called trace_...: the mode follows the field name
					col = "trace_" + f.name
					feat["trace-named-column"] = true
				}
			}
			before := len(ig.Block)
			addBD(f.name, col)
			if len(ig.Block) > before {
				addCol(col, f.typ)
			}
		}
		// user-supplied identity columns / fields
		cand := []string{"ig_name", "src_name", "block_num", "tx_idx"}
		if shape == "log" {
			cand = append(cand, "log_idx")
		}
		for _, k := range cand {
			if !r.Chance(1, 16) {
				continue
			}
			switch r.Intn(7) {
			case 0, 1, 5: // field and column, same name
				addBD(k, k)
				addCol(k, identityType[k])
				feat["user-identity-plain"] = true
			case 2, 3, 6: // column only
				addCol(k, identityType[k])
				feat["user-identity-column"] = true
			case 4: // field mapped to another column name
				addBD(k, "u_"+k)
				addCol("u_"+k, identityType[k])
				feat["remapped-identity"] = true
			}
		}
		shuffle(r, cols)
		shuffle(r, ig.Block)
		ig.Table.Columns = cols
		if r.Chance(1, 5) && len(cols) > 0 {
			ig.Notification.Columns = []string{cols[r.Intn(len(cols))].Name}
		}
		if r.Chance(1, 20) {
			ig.Table.Unique = [][]string{{"block_num", "tx_idx"}}
			feat["user-unique"] = true
		}
		if r.Chance(1, 6) && len(cols) > 0 {
			ig.Table.Index = [][]string{{cols[r.Intn(len(cols))].Name, "block_num desc"}}
			feat["user-index"] = true
		}
		if r.Chance(1, 40) && len(cols) > 0 {
			// a mixed-case column name, consistently renamed
			j := r.Intn(len(cols))
			old, nw := cols[j].Name, "c_Mixed"+fmt.Sprint(i)
			cols[j].Name = nw
			for b := range ig.Block {
				if ig.Block[b].Column == old {
					ig.Block[b].Column = nw
				}
			}
			for e := range ig.Event.Inputs {
				if ig.Event.Inputs[e].Column == old {
					ig.Event.Inputs[e].Column = nw
				}
				for q := range ig.Event.Inputs[e].Components {
					if ig.Event.Inputs[e].Components[q].Column == old {
						ig.Event.Inputs[e].Components[q].Column = nw
					}
				}
			}
			for e := range ig.Notification.Columns {
				if ig.Notification.Columns[e] == old {
					ig.Notification.Columns[e] = nw
				}
			}
			for e := range ig.Table.Index {
				for q := range ig.Table.Index[e] {
					if ig.Table.Index[e][q] == old {
						ig.Table.Index[e][q] = nw
					}
				}
			}
			feat["mixed-case-identifier"] = true
		}
		if r.Chance(1, 8) {
			// a reference without a matching table column
			// a block field name the integration does not use yet (valid for every shape)
			unused := func() string {
				for _, n := range []string{"tx_hash", "tx_to", "tx_signer", "tx_nonce", "block_time"} {
					used := false
					for _, b := range ig.Block {
						used = used || b.Name == n
					}
					if !used {
						return n
					}
				}
				return "tx_type"
			}
			arg := []string{"0x00000000000000000000000000000000000000aa"}
			switch r.Intn(7) {
			case 0:
				if len(ig.Event.Inputs) > 0 {
					ig.Event.Inputs[0].Column = "nope"
				} else if len(ig.Block) > 0 {
					ig.Block[0].Column = "nope"
				}
			case 1:
				if len(ig.Block) > 0 {
					ig.Block[r.Intn(len(ig.Block))].Column = []string{"", "nope"}[r.Intn(2)]
				} else {
					ig.Notification.Columns = []string{"nope"}
				}
			case 2:
				ig.Notification.Columns = append(ig.Notification.Columns, []string{"nope", ""}[r.Intn(2)])
			case 3:
				// a block field WITHOUT column that only carries a filter (operator + argument)
				ig.Block = append(ig.Block, dig.BlockData{Name: unused(), Filter: dig.Filter{Op: "contains", Arg: arg}})
				feat["empty-block-column"] = true
			case 4:
				// ... with a filter_ref (to a column this integration declares) instead of an argument
				bd := dig.BlockData{Name: unused(), Filter: dig.Filter{Op: "contains", Arg: arg}}
				if len(cols) > 0 {
					bd.Filter = dig.Filter{Op: "contains", Ref: dig.Ref{Integration: ig.Name, Column: cols[0].Name}}
				}
				ig.Block = append(ig.Block, bd)
				feat["empty-block-column"] = true
			case 5:
				// ... without any filter
				ig.Block = append(ig.Block, dig.BlockData{Name: unused()})
				feat["empty-block-column"] = true
			case 6:
				// an existing block field loses its column and gets a filter operator only
				if len(ig.Block) > 0 {
					j := r.Intn(len(ig.Block))
					ig.Block[j].Column = ""
					ig.Block[j].Filter = dig.Filter{Op: []string{"contains", "!contains", "eq"}[r.Intn(3)]}
				} else {
					ig.Block = append(ig.Block, dig.BlockData{Name: unused(), Filter: dig.Filter{Op: "ne", Arg: arg}})
				}
				feat["empty-block-column"] = true
			}
			feat["dangling-reference"] = true
		}
		if share != nil {
			if shapeOf(*share) != shapeOf(ig) || hasNonIndexedSel(*share) != hasNonIndexedSel(ig) {
				feat["shared-table-different-shape"] = true
			} else {
				feat["shared-table-same-shape"] = true
			}
		}
		conf.Integrations = append(conf.Integrations, ig)
	}
	doc, _ := json.Marshal(conf)
	cs.Doc = string(doc)

	// pre-existing narrower tables, derived from the validated configuration
	var v shconfig.Root
	json.Unmarshal(doc, &v)
	if shconfig.ValidateFix(&v) == nil {
		seen := map[string]bool{}
		for _, ig := range v.Integrations {
			if seen[ig.Table.Name] {
				continue
			}
			seen[ig.Table.Name] = true
			if !r.Chance(1, 5) {
				continue
			}
			pt := PreTable{Name: strings.ToLower(ig.Table.Name)}
			have := map[string]bool{}
			for _, c := range ig.Table.Columns {
				if r.Chance(2, 3) {
					pt.Cols = append(pt.Cols, Col{strings.ToLower(c.Name), c.Type})
					have[strings.ToLower(c.Name)] = true
				}
			}
			if len(ig.Table.Unique) > 0 && r.Chance(1, 2) {
				all := true
				for _, k := range ig.Table.Unique[0] {
					all = all && have[k]
				}
				if all {
					pt.KeyIndex = ig.Table.Unique[0]
				}
			}
			cs.Pre = append(cs.Pre, pt)
			feat["pre-existing-narrower"] = true
		}
	}
	for f := range feat {
		cs.Features = append(cs.Features, f)
	}
	sort.Strings(cs.Features)

	// chain
	cs.ArrLen = map[string]int{}
	var logIgs []shconfig.Integration
	for _, ig := range conf.Integrations {
		if len(ig.Event.Inputs) > 0 {
			logIgs = append(logIgs, ig)
		}
	}
	num := uint64(100 + r.Intn(50))
	for b := 0; b < 1+r.Intn(3); b++ {
		num += uint64(1 + r.Intn(3))
		blk := eth.Block{Header: eth.Header{Number: eth.Uint64(num), Hash: r.Bytes(32), Parent: r.Bytes(32), Time: eth.Uint64(1700000000 + num)}}
		txi, logi := uint64(0), uint64(0)
		for t := 0; t < 1+r.Intn(3); t++ {
			txi += uint64(r.Intn(3))
			tx := eth.Tx{Idx: eth.Uint64(txi), PrecompHash: r.Bytes(32), From: r.Bytes(20), To: r.Bytes(20), Data: r.Bytes(8), Nonce: eth.Uint64(r.Intn(100))}
			tx.Value = *uint256.NewInt(uint64(r.Intn(1000)))
			txi++
			for l := 0; l < r.Intn(4); l++ {
				logi += uint64(r.Intn(2))
				lg := eth.Log{Idx: eth.Uint64(logi), Address: r.Bytes(20)}
				if len(logIgs) > 0 && r.Chance(4, 5) {
					ig := logIgs[r.Intn(len(logIgs))]
					arr := r.Intn(4)
					lg.Topics, lg.Data = encodeLog(r, ig.Event, arr)
					cs.ArrLen[fmt.Sprintf("%d/%d", num, logi)] = arr
				} else {
					lg.Topics = []eth.Bytes{r.Bytes(32)}
					lg.Data = r.Bytes(32)
				}
				tx.Logs = append(tx.Logs, lg)
				logi++
			}
			for a := 0; a < r.Intn(3); a++ {
				ta := eth.TraceAction{Idx: uint64(a), From: r.Bytes(20), To: r.Bytes(20), CallType: "call"}
				ta.Value = *uint256.NewInt(uint64(r.Intn(1000)))
				tx.TraceActions = append(tx.TraceActions, ta)
			}
			blk.Txs = append(blk.Txs, tx)
		}
		cs.Blocks = append(cs.Blocks, blk)
	}
	return cs
}

func hasNonIndexedSel(ig shconfig.Integration) bool {
	for _, in := range ig.Event.Selected() {
		if !in.Indexed {
			return true
		}
	}
	return false
}

func encodeLog(r *lib.RNG, ev dig.Event, arrLen int) ([]eth.Bytes, []byte) {
	topics := []eth.Bytes{ev.SignatureHash()}
	var head, tail []byte
	headSize := 0
	for _, in := range ev.Inputs {
		switch {
		case in.Indexed:
		case in.Type == "tuple":
			headSize += 32 * len(in.Components)
		default:
			headSize += 32
		}
	}
	val := func(t string) []byte {
		w := make([]byte, 32)
		switch {
		case t == "bool":
			w[31] = byte(r.Intn(2))
		case t == "address":
			copy(w[12:], r.Bytes(20))
		case t == "bytes32":
			copy(w, r.Bytes(32))
		default:
			copy(w[24:], r.Bytes(8))
		}
		return w
	}
	tupleWords := func(in dig.Input) []byte {
		var out []byte
		for _, c := range in.Components {
			out = append(out, val(c.Type)...)
		}
		return out
	}
	for _, in := range ev.Inputs {
		switch {
		case in.Indexed:
			topics = append(topics, val(in.Type))
		case in.Type == "tuple":
			head = append(head, tupleWords(in)...)
		case in.Type == "tuple[]":
			head = append(head, word(uint64(headSize+len(tail)))...)
			tail = append(tail, word(uint64(arrLen))...)
			for i := 0; i < arrLen; i++ {
				tail = append(tail, tupleWords(in)...)
			}
		case strings.HasSuffix(in.Type, "[]"):
			head = append(head, word(uint64(headSize+len(tail)))...)
			tail = append(tail, word(uint64(arrLen))...)
			for i := 0; i < arrLen; i++ {
				tail = append(tail, val("uint256")...)
			}
		default:
			head = append(head, val(in.Type)...)
		}
	}
	return topics, append(head, tail...)
}

// ---------------------------------------------------------------- running a case

type Run16 struct {
	Ig      int
	Written []string
	R1, R2  string // Coq copyres terms
	N1      int64
	E1, E2  string
	Abs     string // Coq term: the abstract blocks for this integration
}

type Obs16 struct {
	Decoded     bool
	Accepted    bool
	Err         string
	MigErr      string
	Catalog     string   // Coq term of the catalog after Migrate
	Printed     []string // config.DDL(conf)
	PrintedMiss string   // a written column that the printed schema lacks ("" = none)
	Runs        []Run16
	Conf        shconfig.Root
	Fake        *FakeConn
}

func classify(n int64, err error) string {
	var pe *pgconn.PgError
	switch {
	case err == nil:
		return fmt.Sprintf("(CopyOk %d%%nat)", n)
	case IsUniqueViolation(err):
		return "CopyDup"
	case errors.As(err, &pe):
		return "CopyColErr"
	}
	return "InsertErr"
}

// CCatalog prints the fake's catalog (creation order).
func CCatalog(f *FakeConn) string {
	var ts, is []string
	for _, n := range f.TabSeq {
		t := f.Tables[n]
		var cols []string
		for _, c := range t.Cols {
			cols = append(cols, c.Name)
		}
		ts = append(ts, "(Build_ptable "+CRunes(n)+" "+CStrs(cols)+")")
	}
	for _, n := range f.IdxSeq {
		ix := f.Indexes[n]
		is = append(is, "(Build_pindex "+CRunes(n)+" "+CRunes(ix.Table)+" "+CStrs(ix.Cols)+" "+cbool(ix.Unique)+")")
	}
	return "(Build_catalog [" + strings.Join(ts, "; ") + "] [" + strings.Join(is, "; ") + "])"
}

// Preload installs pre-existing tables and indexes.
func (f *FakeConn) Preload(pre []PreTable) {
	for _, p := range pre {
		f.Tables[p.Name] = &Table{Name: p.Name, Cols: append([]Col{}, p.Cols...)}
		f.TabSeq = append(f.TabSeq, p.Name)
	}
	for _, p := range pre {
		if p.KeyIndex != nil {
			n := "u_" + p.Name
			f.Indexes[n] = &Index{Name: n, Table: p.Name, Cols: p.KeyIndex, Unique: true}
			f.IdxSeq = append(f.IdxSeq, n)
		}
	}
}

func abstractBlocks(cs Case16, ig shconfig.Integration) string {
	sig := ig.Event.SignatureHash()
	nIdx := 0
	arrSel := false
	for _, in := range ig.Event.Inputs {
		if in.Indexed {
			nIdx++
		}
		if strings.HasSuffix(in.Type, "[]") && len((dig.Event{Inputs: []dig.Input{in}}).Selected()) > 0 {
			arrSel = true // the array itself, or components of its element tuple, are selected
		}
	}
	var bs []string
	for _, b := range cs.Blocks {
		var txs []string
		for _, t := range b.Txs {
			var ls, tas []string
			for _, l := range t.Logs {
				match := len(ig.Event.Inputs) > 0 && len(l.Topics)-1 == nIdx && bytes.Equal(sig, l.Topics[0])
				rows := 0
				if len(l.Data) > 0 {
					rows = 1
					if arrSel {
						if n := cs.ArrLen[fmt.Sprintf("%d/%d", b.Num(), uint64(l.Idx))]; n > 1 {
							rows = n
						}
					}
				}
				ls = append(ls, fmt.Sprintf("(Build_alog %d %s %d%%nat)", uint64(l.Idx), cbool(match), rows))
			}
			for _, a := range t.TraceActions {
				tas = append(tas, fmt.Sprint(a.Idx))
			}
			txs = append(txs, fmt.Sprintf("(Build_atx %d [%s] [%s])", uint64(t.Idx), strings.Join(ls, "; "), strings.Join(tas, "; ")))
		}
		bs = append(bs, fmt.Sprintf("(Build_ablock %d [%s])", b.Num(), strings.Join(txs, "; ")))
	}
	return "[" + strings.Join(bs, "; ") + "]"
}

// Run16Case runs the implementation: ValidateFix, Migrate into the strict
// fake (pre-loaded), then for every integration Insert of the blocks twice.
func Run16Case(cs Case16) (coq string, o Obs16) {
	var conf shconfig.Root
	if err := json.NewDecoder(strings.NewReader(cs.Doc)).Decode(&conf); err != nil {
		o.Err = "decode: " + err.Error()
		return
	}
	o.Decoded = true
	coq = CRoot(conf)
	if err := shconfig.ValidateFix(&conf); err != nil {
		o.Err = err.Error()
		return
	}
	o.Accepted = true
	o.Conf = conf
	o.Printed = shconfig.DDL(conf)
	// the printed schema, applied to an empty database, must hold every written column
	// (names compared as DDL spells them: the mixed-case finding is reported by the insert path)
	pf := NewFake(false)
	for _, st := range o.Printed {
		pf.Exec(context.Background(), st)
	}
	for _, ig := range conf.Integrations {
		dest, err := dig.New(ig.Name, ig.Event, ig.Block, ig.Table, ig.Notification, ig.FilterAGG)
		if err != nil {
			continue
		}
		t := pf.Tables[strings.ToLower(ig.Table.Name)]
		for _, w := range dig.VerifCfgColumns(dest) {
			if t == nil || !t.hasCol(strings.ToLower(w)) {
				o.PrintedMiss = fmt.Sprintf("integration %s writes column %q which the schema printed by config.DDL for table %q does not contain", ig.Name, w, ig.Table.Name)
			}
		}
	}
	f := NewFake(false)
	f.Preload(cs.Pre)
	o.Fake = f
	if err := shconfig.Migrate(context.Background(), f, conf); err != nil {
		o.MigErr = err.Error()
		return
	}
	o.Catalog = CCatalog(f)
	for k, ig := range conf.Integrations {
		src, ok := sourceByName(conf.Sources, ig.Sources[0].Name)
		if !ok {
			continue
		}
		ctx := taskCtx(src, ig.Name)
		dest, err := dig.New(ig.Name, ig.Event, ig.Block, ig.Table, ig.Notification, ig.FilterAGG)
		if err != nil {
			continue
		}
		run := Run16{Ig: k, Written: dig.VerifCfgColumns(dest), Abs: abstractBlocks(cs, ig)}
		var mut sync.Mutex
		blocks := copyBlocks(cs.Blocks)
		var n1, n2 int64
		var e1, e2 error
		if p := catch(func() { n1, e1 = dest.Insert(ctx, &mut, f, blocks) }); p != "" {
			e1 = errors.New("panic: " + p)
		}
		if p := catch(func() { n2, e2 = dest.Insert(ctx, &mut, f, blocks) }); p != "" {
			e2 = errors.New("panic: " + p)
		}
		run.R1, run.R2, run.N1 = classify(n1, e1), classify(n2, e2), n1
		if e1 != nil {
			run.E1 = e1.Error()
		}
		if e2 != nil {
			run.E2 = e2.Error()
		}
		o.Runs = append(o.Runs, run)
	}
	return
}

// eth.Block contains a mutex: build fresh values that share the slices
func copyBlocks(bs []eth.Block) []eth.Block {
	out := make([]eth.Block, len(bs))
	for i := range bs {
		out[i].Header = bs[i].Header
		out[i].Txs = bs[i].Txs
	}
	return out
}

// CPre prints the pre-existing catalog.
func CPre(pre []PreTable) string {
	var ts, is []string
	for _, p := range pre {
		var cols []string
		for _, c := range p.Cols {
			cols = append(cols, c.Name)
		}
		ts = append(ts, "(Build_ptable "+CRunes(p.Name)+" "+CStrs(cols)+")")
	}
	for _, p := range pre {
		if p.KeyIndex != nil {
			is = append(is, "(Build_pindex "+CRunes("u_"+p.Name)+" "+CRunes(p.Name)+" "+CStrs(p.KeyIndex)+" true)")
		}
	}
	return "(Build_catalog [" + strings.Join(ts, "; ") + "] [" + strings.Join(is, "; ") + "])"
}

// ---------------------------------------------------------------- huge arrays

// HugeObs: one log whose selected uint256[] carries n elements, inserted twice.
type HugeObs struct {
	N          int
	AbiType    string // "" = the int2 column AddRequiredFields adds, else the user-declared type
	Rows       int    // rows handed to COPY by the first insert
	R1, R2     string // outcome classes
	E1         string
	Problems   []string // direct-oracle findings
	OutOfRange bool     // first insert failed with 22003 (abi_idx beyond the column type)
}

// RunHuge builds the log with the encoder, runs ValidateFix/Migrate/Insert
// twice against the strict fake and judges by the direct oracle only: row i
// carries abi_idx i, the projections of the rows to the unique key in force
// are pairwise different, the second insert collides.
func RunHuge(n int, abiType string) (o HugeObs) {
	o.N, o.AbiType = n, abiType
	conf := shconfig.Root{Sources: []shconfig.Source{{Name: "main", ChainID: 1, URLs: []string{"http://127.0.0.1:8545"}}}}
	ig := shconfig.Integration{Name: "big", Enabled: true, Sources: []shconfig.Source{{Name: "main"}}}
	ig.Table = wpg.Table{Name: "big_t", Columns: []wpg.Column{{Name: "v", Type: "numeric"}}}
	if abiType != "" {
		ig.Table.Columns = append(ig.Table.Columns, wpg.Column{Name: "abi_idx", Type: abiType})
	}
	ig.Event = dig.Event{Name: "Big", Type: "event", Inputs: []dig.Input{{Name: "v", Type: "uint256[]", Column: "v"}}}
	conf.Integrations = []shconfig.Integration{ig}
	if err := shconfig.ValidateFix(&conf); err != nil {
		o.Problems = append(o.Problems, "rejected: "+err.Error())
		return
	}
	ig = conf.Integrations[0]
	f := NewFake(false)
	f.KeepCopy = true
	if err := shconfig.Migrate(context.Background(), f, conf); err != nil {
		o.Problems = append(o.Problems, "migration failed: "+err.Error())
		return
	}
	// the log: offset, length, n words (element i = i+1)
	data := make([]byte, 0, 64+32*n)
	data = append(data, word(32)...)
	data = append(data, word(uint64(n))...)
	for i := 0; i < n; i++ {
		data = append(data, word(uint64(i+1))...)
	}
	blk := eth.Block{Header: eth.Header{Number: 77, Hash: make([]byte, 32), Parent: make([]byte, 32)}}
	tx := eth.Tx{Idx: 2, PrecompHash: make([]byte, 32)}
	tx.Logs = eth.Logs{{Idx: 5, Address: make([]byte, 20), Topics: []eth.Bytes{ig.Event.SignatureHash()}, Data: data}}
	blk.Txs = eth.Txs{tx}
	dest, err := dig.New(ig.Name, ig.Event, ig.Block, ig.Table, ig.Notification, ig.FilterAGG)
	if err != nil {
		o.Problems = append(o.Problems, "dig.New: "+err.Error())
		return
	}
	ctx := taskCtx(conf.Sources[0], ig.Name)
	var mut sync.Mutex
	n1, e1 := dest.Insert(ctx, &mut, f, copyBlocks([]eth.Block{blk}))
	cols, rows := f.LastCols, f.LastRows
	o.Rows = len(rows)
	o.R1 = classify(n1, e1)
	if e1 != nil {
		o.E1 = e1.Error()
		var pe *pgconn.PgError
		o.OutOfRange = errors.As(e1, &pe) && pe.Code == "22003"
	}
	n2, e2 := dest.Insert(ctx, &mut, f, copyBlocks([]eth.Block{blk}))
	o.R2 = classify(n2, e2)
	// direct oracle on the rows Insert produced
	if len(rows) != n {
		o.Problems = append(o.Problems, fmt.Sprintf("%d rows for %d array elements", len(rows), n))
	}
	abiCol := -1
	for i, c := range cols {
		if c == "abi_idx" {
			abiCol = i
		}
	}
	if abiCol < 0 {
		o.Problems = append(o.Problems, "no abi_idx column is written")
		return
	}
	bad := 0
	for i, r := range rows {
		if v, ok := IntOf(r[abiCol]); !ok || v != int64(i) {
			if bad == 0 {
				o.Problems = append(o.Problems, fmt.Sprintf("row %d carries abi_idx %v", i, r[abiCol]))
			}
			bad++
		}
	}
	if bad > 1 {
		o.Problems = append(o.Problems, fmt.Sprintf("%d rows carry an abi_idx different from their position", bad))
	}
	// projections to the unique key in force, pairwise different
	var key []int
	if ix, ok := f.Indexes["u_big_t"]; ok {
		for _, k := range ix.Cols {
			for i, c := range cols {
				if c == k {
					key = append(key, i)
				}
			}
		}
		if len(key) != len(ix.Cols) {
			o.Problems = append(o.Problems, "a key column is not written")
		}
	} else {
		o.Problems = append(o.Problems, "no unique index u_big_t")
	}
	seen := make(map[string]int, len(rows))
	var kb []byte
	for i, r := range rows {
		kb = kb[:0]
		for _, j := range key {
			if v, ok := IntOf(r[j]); ok {
				kb = strconv.AppendInt(kb, v, 10)
			} else {
				kb = append(kb, Canon(r[j])...)
			}
			kb = append(kb, 1)
		}
		if j, dup := seen[string(kb)]; dup {
			o.Problems = append(o.Problems, fmt.Sprintf("rows %d and %d of one log share the unique key (abi_idx %v and %v)", j, i, rows[j][abiCol], r[abiCol]))
			break
		}
		seen[string(kb)] = i
	}
	switch {
	case o.OutOfRange:
		// abi_idx beyond the declared column type: Postgres refuses the COPY (observation, see design.d/C16.md)
	case !strings.HasPrefix(o.R1, "(CopyOk"):
		o.Problems = append(o.Problems, "first insert failed: "+o.E1)
	case o.R2 != "CopyDup":
		o.Problems = append(o.Problems, "re-insert of the same log did not hit the unique index: "+o.R2)
	}
	return
}
