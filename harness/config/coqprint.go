package config

import (
	"strconv"
	"strings"
	"unicode"

	"github.com/indexsupply/shovel/dig"
	shconfig "github.com/indexsupply/shovel/shovel/config"
	"github.com/indexsupply/shovel/wpg"
)

// CRunes prints a Go string as the list of its code points (Model/Config.v: str).
func CRunes(s string) string {
	if s == "" {
		return "[]"
	}
	// printable ASCII without a double quote: a Coq string literal converted by s2r
	// (much cheaper for coqc to read than a list of numerals)
	plain := true
	for _, r := range s {
		if r < 32 || r > 126 || r == '"' {
			plain = false
			break
		}
	}
	if plain {
		return "(s2r \"" + s + "\"%string)"
	}
	var b strings.Builder
	b.WriteString("[")
	first := true
	for _, r := range s {
		if !first {
			b.WriteString(";")
		}
		first = false
		b.WriteString(strconv.Itoa(int(r)))
	}
	b.WriteString("]")
	return b.String()
}

func CStrs(xs []string) string {
	var q []string
	for _, x := range xs {
		q = append(q, CRunes(x))
	}
	return "[" + strings.Join(q, "; ") + "]"
}

func cbool(b bool) string {
	if b {
		return "true"
	}
	return "false"
}

func cFilter(f dig.Filter) string {
	return "(Build_cfilter " + CRunes(f.Op) + " " + CStrs(f.Arg) + " (Build_ref " + CRunes(f.Ref.Integration) + " " +
		CRunes(f.Ref.Table) + " " + CRunes(f.Ref.Column) + "))"
}

func cInput(i dig.Input) string {
	var cs []string
	for _, c := range i.Components {
		cs = append(cs, cInput(c))
	}
	return "(Input " + cbool(i.Indexed) + " " + CRunes(i.Name) + " " + CRunes(i.Column) + " " + cFilter(i.Filter) +
		" [" + strings.Join(cs, "; ") + "])"
}

func CTable(t wpg.Table) string {
	var cols, un, ix []string
	for _, c := range t.Columns {
		cols = append(cols, "(Build_column "+CRunes(c.Name)+" "+CRunes(c.Type)+")")
	}
	for _, u := range t.Unique {
		un = append(un, CStrs(u))
	}
	for _, u := range t.Index {
		ix = append(ix, CStrs(u))
	}
	return "(Build_table " + CRunes(t.Name) + " [" + strings.Join(cols, "; ") + "] [" + strings.Join(un, "; ") + "] [" +
		strings.Join(ix, "; ") + "])"
}

func CInteg(g shconfig.Integration) string {
	var srcs, bl, ins []string
	for _, s := range g.Sources {
		srcs = append(srcs, s.Name)
	}
	for _, b := range g.Block {
		bl = append(bl, "(Build_blockdata "+CRunes(b.Name)+" "+CRunes(b.Column)+" "+cFilter(b.Filter)+")")
	}
	for _, i := range g.Event.Inputs {
		ins = append(ins, cInput(i))
	}
	return "(Build_integ " + CRunes(g.Name) + " " + cbool(g.Enabled) + " " + CStrs(srcs) + " " + CTable(g.Table) + " " +
		CRunes(g.FilterAGG) + " " + CStrs(g.Notification.Columns) + " [" + strings.Join(bl, "; ") + "] [" +
		strings.Join(ins, "; ") + "] " + CStrs(g.Dependencies) + ")"
}

func CRoot(c shconfig.Root) string {
	var srcs, igs []string
	for _, s := range c.Sources {
		srcs = append(srcs, s.Name)
	}
	for _, g := range c.Integrations {
		igs = append(igs, CInteg(g))
	}
	return "(Build_root " + CStrs(srcs) + " [" + strings.Join(igs, "; ") + "])"
}

// CClasses prints Go's classification of every non-ASCII code point that
// occurs in the given strings: (code point, IsLetter, IsDigit).
func CClasses(strs ...string) string {
	seen := map[rune]bool{}
	var out []string
	for _, s := range strs {
		for _, r := range s {
			if r < 128 || seen[r] {
				continue
			}
			seen[r] = true
			out = append(out, "("+strconv.Itoa(int(r))+", "+cbool(unicode.IsLetter(r))+", "+cbool(unicode.IsDigit(r))+")")
		}
	}
	return "[" + strings.Join(out, "; ") + "]"
}

// HashStr: the polynomial hash (mod 2^64) of Corr/RunC15.v (hash_str).
func HashStr(s string) string {
	h := uint64(1469598103934665603)
	for _, r := range s {
		h = h*33 + uint64(r) + 1
	}
	return strconv.FormatUint(h, 10)
}

// CDeps prints Integration.Dependencies of every integration, in order.
func CDeps(igs []shconfig.Integration) string {
	var out []string
	for _, g := range igs {
		out = append(out, CStrs(g.Dependencies))
	}
	return "[" + strings.Join(out, "; ") + "]"
}
