// Package translate regenerates coq/Gen/UserInputChecks.v and
// coq/Gen/RequiredFields.v from the Go source (go/ast only, offline).
//
// What is read:
//   - shovel/config/config.go  CheckUserInput: the closures it declares, the
//     check(...) calls with the selector path of their argument and the
//     `for range` statements around them; ValidateFix / SaveIntegration /
//     SaveSource: that the identifier check guards what follows it;
//     AddRequiredFields: the add("name","type") calls and their guards;
//     AddUniqueIndex: the `possible` literal;
//   - wpg/pg.go, dig/dig.go, shovel/task.go, shovel/web/web.go,
//     shovel/config/config.go: every place that builds SQL text (Sprintf,
//     +=, CopyFrom) in the anchored functions, and every Exec/Query/QueryRow
//     call of those files whose statement is not a constant;
//   - wpg/reserved_words.go: the reserved words quote() tests.
//
// Anything that does not have the expected syntactic shape is refused with an
// error that starts with "shape changed": the check then reports a broken tie.
package translate

import (
	"bytes"
	"fmt"
	"go/ast"
	"go/parser"
	"go/printer"
	"go/token"
	"os"
	"path/filepath"
	"sort"
	"strconv"
	"strings"
)

type file struct {
	fset *token.FileSet
	f    *ast.File
	path string
}

func parse(repo, rel string) (*file, error) {
	fset := token.NewFileSet()
	p := filepath.Join(repo, rel)
	f, err := parser.ParseFile(fset, p, nil, 0)
	if err != nil {
		return nil, fmt.Errorf("shape changed: cannot parse %s: %v", rel, err)
	}
	return &file{fset, f, rel}, nil
}

func (f *file) src(n ast.Node) string {
	var b bytes.Buffer
	printer.Fprint(&b, f.fset, n)
	return strings.Join(strings.Fields(b.String()), " ")
}

// fn finds a function; recv "" for plain functions, else the receiver type name.
func (f *file) fn(recv, name string) (*ast.FuncDecl, error) {
	for _, d := range f.f.Decls {
		fd, ok := d.(*ast.FuncDecl)
		if !ok || fd.Name.Name != name {
			continue
		}
		r := ""
		if fd.Recv != nil && len(fd.Recv.List) == 1 {
			t := fd.Recv.List[0].Type
			if s, ok := t.(*ast.StarExpr); ok {
				t = s.X
			}
			if id, ok := t.(*ast.Ident); ok {
				r = id.Name
			}
		}
		if r == recv {
			return fd, nil
		}
	}
	return nil, fmt.Errorf("shape changed: %s: function %s.%s not found", f.path, recv, name)
}

func shape(format string, a ...any) error {
	return fmt.Errorf("shape changed: "+format, a...)
}

// ------------------------------------------------------------ CheckUserInput
type Check struct{ Kind, Path string }

// expected bodies of the checking closures (go/printer, whitespace squashed)
var closureBodies = map[string][]string{
	"check": {
		`func(name, val string) { if err != nil { return } err = wstrings.Safe(val) if err != nil { err = fmt.Errorf("%q %w", val, err) } }`,
	},
	"checkIndexCol": {
		`func(name, val string) { switch { case strings.HasSuffix(val, " asc"): val = strings.TrimSuffix(val, " asc") case strings.HasSuffix(val, " desc"): val = strings.TrimSuffix(val, " desc") } check(name, val) }`,
	},
}

type cuiWalker struct {
	f        *file
	closures map[string]*ast.FuncLit
	checks   []Check
	depth    int
}

func (w *cuiWalker) path(env map[string]string, e ast.Expr) (string, error) {
	switch x := e.(type) {
	case *ast.Ident:
		p, ok := env[x.Name]
		if !ok {
			return "", shape("CheckUserInput: identifier %q is not the configuration or a range variable", x.Name)
		}
		return p, nil
	case *ast.SelectorExpr:
		p, err := w.path(env, x.X)
		if err != nil {
			return "", err
		}
		if p == "" {
			return x.Sel.Name, nil
		}
		return p + "." + x.Sel.Name, nil
	}
	return "", shape("CheckUserInput: unsupported argument expression %s", w.f.src(e))
}

func (w *cuiWalker) stmts(env map[string]string, list []ast.Stmt, self string, selfParam string, rec *bool) error {
	for _, s := range list {
		switch x := s.(type) {
		case *ast.DeclStmt:
			gd, ok := x.Decl.(*ast.GenDecl)
			if !ok || gd.Tok != token.VAR {
				return shape("CheckUserInput: unexpected declaration %s", w.f.src(s))
			}
			for _, sp := range gd.Specs {
				vs := sp.(*ast.ValueSpec)
				for i, n := range vs.Names {
					if i < len(vs.Values) {
						if fl, ok := vs.Values[i].(*ast.FuncLit); ok {
							w.closures[n.Name] = fl
							continue
						}
						return shape("CheckUserInput: unexpected initialiser of %s", n.Name)
					}
					// `err error`, `checkInputs func(...)`: declaration without value
				}
			}
		case *ast.AssignStmt:
			if len(x.Lhs) == 1 && len(x.Rhs) == 1 {
				if id, ok := x.Lhs[0].(*ast.Ident); ok {
					if fl, ok := x.Rhs[0].(*ast.FuncLit); ok {
						w.closures[id.Name] = fl
						continue
					}
				}
			}
			return shape("CheckUserInput: unexpected assignment %s", w.f.src(s))
		case *ast.RangeStmt:
			if x.Value == nil {
				return shape("CheckUserInput: range without value variable: %s", w.f.src(x.X))
			}
			if k, ok := x.Key.(*ast.Ident); !ok || k.Name != "_" {
				return shape("CheckUserInput: range with a key variable: %s", w.f.src(x.X))
			}
			p, err := w.path(env, x.X)
			if err != nil {
				return err
			}
			v := x.Value.(*ast.Ident).Name
			env2 := map[string]string{}
			for k, val := range env {
				env2[k] = val
			}
			env2[v] = p + "[]"
			if err := w.stmts(env2, x.Body.List, self, selfParam, rec); err != nil {
				return err
			}
		case *ast.ExprStmt:
			call, ok := x.X.(*ast.CallExpr)
			if !ok {
				return shape("CheckUserInput: unexpected statement %s", w.f.src(s))
			}
			id, ok := call.Fun.(*ast.Ident)
			if !ok {
				return shape("CheckUserInput: unexpected call %s", w.f.src(s))
			}
			if _, isChecker := closureBodies[id.Name]; isChecker {
				if len(call.Args) != 2 {
					return shape("CheckUserInput: %s with %d arguments", id.Name, len(call.Args))
				}
				p, err := w.path(env, call.Args[1])
				if err != nil {
					return err
				}
				w.checks = append(w.checks, Check{id.Name, p})
				continue
			}
			fl, ok := w.closures[id.Name]
			if !ok || len(call.Args) != 1 {
				return shape("CheckUserInput: call of unknown closure %s", w.f.src(s))
			}
			if id.Name == self {
				// recursive call of the walker: must descend into <range var>.Components
				sel, ok := call.Args[0].(*ast.SelectorExpr)
				if !ok || sel.Sel.Name != "Components" {
					return shape("CheckUserInput: recursive call %s does not descend into .Components", w.f.src(s))
				}
				p, err := w.path(env, sel.X)
				if err != nil {
					return err
				}
				if p != env[selfParam]+"[]" {
					return shape("CheckUserInput: recursive call %s is not on the range variable", w.f.src(s))
				}
				*rec = true
				continue
			}
			// a walker closure: func(xs []T) { for _, x := range xs { ...; walker(x.Components) } }
			if w.depth > 4 {
				return shape("CheckUserInput: closures nested too deeply")
			}
			if len(fl.Type.Params.List) != 1 || len(fl.Type.Params.List[0].Names) != 1 {
				return shape("CheckUserInput: closure %s must take one parameter", id.Name)
			}
			param := fl.Type.Params.List[0].Names[0].Name
			p, err := w.path(env, call.Args[0])
			if err != nil {
				return err
			}
			env2 := map[string]string{param: p}
			for k, val := range env {
				if k != param {
					env2[k] = val
				}
			}
			start := len(w.checks)
			isRec := false
			w.depth++
			if err := w.stmts(env2, fl.Body.List, id.Name, param, &isRec); err != nil {
				return err
			}
			w.depth--
			if isRec {
				for i := start; i < len(w.checks); i++ {
					if strings.HasPrefix(w.checks[i].Path, p+"[]") {
						w.checks[i].Path = p + "[]*" + strings.TrimPrefix(w.checks[i].Path, p+"[]")
					}
				}
			}
		case *ast.ReturnStmt:
			if len(x.Results) != 1 || w.f.src(x.Results[0]) != "err" {
				return shape("CheckUserInput: unexpected return %s", w.f.src(s))
			}
		default:
			return shape("CheckUserInput: unexpected statement %s", w.f.src(s))
		}
	}
	return nil
}

func checkUserInput(repo string) ([]Check, error) {
	f, err := parse(repo, "shovel/config/config.go")
	if err != nil {
		return nil, err
	}
	fd, err := f.fn("", "CheckUserInput")
	if err != nil {
		return nil, err
	}
	if len(fd.Type.Params.List) != 1 || len(fd.Type.Params.List[0].Names) != 1 || f.src(fd.Type.Params.List[0].Type) != "Root" {
		return nil, shape("CheckUserInput: expected one parameter of type Root")
	}
	w := &cuiWalker{f: f, closures: map[string]*ast.FuncLit{}}
	env := map[string]string{fd.Type.Params.List[0].Names[0].Name: ""}
	var rec bool
	if err := w.stmts(env, fd.Body.List, "", "", &rec); err != nil {
		return nil, err
	}
	for name, want := range closureBodies {
		fl, ok := w.closures[name]
		if !ok {
			if name == "check" {
				return nil, shape("CheckUserInput: closure check not found")
			}
			continue
		}
		got := f.src(fl)
		ok = false
		for _, wnt := range want {
			if got == wnt {
				ok = true
			}
		}
		if !ok {
			return nil, shape("CheckUserInput: closure %s no longer has the expected body: %s", name, got)
		}
	}
	if len(w.checks) == 0 {
		return nil, shape("CheckUserInput: no check(...) call found")
	}
	return w.checks, nil
}

// ------------------------------------------------------------ guarded calls
// guarded reports whether fd contains `if err := <callee>(...); err != nil { ...; return ... }`
// (or `if err = ...`) before the first call whose source starts with `before`.
func guarded(f *file, fd *ast.FuncDecl, callee, before string) bool {
	posGuard, posBefore := token.NoPos, token.NoPos
	ast.Inspect(fd.Body, func(n ast.Node) bool {
		switch x := n.(type) {
		case *ast.IfStmt:
			as, ok := x.Init.(*ast.AssignStmt)
			if !ok || len(as.Rhs) != 1 {
				return true
			}
			call, ok := as.Rhs[0].(*ast.CallExpr)
			if !ok || f.src(call.Fun) != callee || f.src(x.Cond) != "err != nil" || len(x.Body.List) == 0 {
				return true
			}
			if _, ok := x.Body.List[len(x.Body.List)-1].(*ast.ReturnStmt); ok && posGuard == token.NoPos {
				posGuard = x.Pos()
			}
		case *ast.CallExpr:
			if strings.HasPrefix(f.src(x.Fun), before) && posBefore == token.NoPos {
				posBefore = x.Pos()
			}
		}
		return true
	})
	return posGuard != token.NoPos && posBefore != token.NoPos && posGuard < posBefore
}

type Guard struct{ Where, What string }

func guards(repo string) ([]Guard, error) {
	var out []Guard
	cf, err := parse(repo, "shovel/config/config.go")
	if err != nil {
		return nil, err
	}
	vf, err := cf.fn("", "ValidateFix")
	if err != nil {
		return nil, err
	}
	if guarded(cf, vf, "CheckUserInput", "ValidateFilterRefs") {
		out = append(out, Guard{"config.ValidateFix", "CheckUserInput before ValidateFilterRefs"})
	}
	if guarded(cf, vf, "ValidateFilterRefs", "AddUniqueIndex") {
		out = append(out, Guard{"config.ValidateFix", "ValidateFilterRefs before AddUniqueIndex"})
	}
	wf, err := parse(repo, "shovel/web/web.go")
	if err != nil {
		return nil, err
	}
	si, err := wf.fn("Handler", "SaveIntegration")
	if err != nil {
		return nil, err
	}
	if guarded(wf, si, "config.CheckUserInput", "h.pgp.Exec") {
		out = append(out, Guard{"web.SaveIntegration", "config.CheckUserInput before h.pgp.Exec"})
	}
	ss, err := wf.fn("Handler", "SaveSource")
	if err != nil {
		return nil, err
	}
	if guarded(wf, ss, "wstrings.Safe", "h.pgp.Exec") {
		out = append(out, Guard{"web.SaveSource", "wstrings.Safe before h.pgp.Exec"})
	}
	return out, nil
}

// ------------------------------------------------------------ splice sites
type Site struct {
	Func string
	Kind string // Sprintf | += | CopyFrom
	Text string // format string / left-hand side
	Args []string
}

func constString(f *file, fd *ast.FuncDecl, e ast.Expr) (string, bool) {
	switch x := e.(type) {
	case *ast.BasicLit:
		if x.Kind == token.STRING {
			s, err := strconv.Unquote(x.Value)
			return s, err == nil
		}
	case *ast.Ident:
		var val string
		found := false
		look := func(n ast.Node) bool {
			gd, ok := n.(*ast.GenDecl)
			if !ok || gd.Tok != token.CONST {
				return true
			}
			for _, sp := range gd.Specs {
				vs := sp.(*ast.ValueSpec)
				for i, nm := range vs.Names {
					if nm.Name == x.Name && i < len(vs.Values) {
						if bl, ok := vs.Values[i].(*ast.BasicLit); ok && bl.Kind == token.STRING {
							if s, err := strconv.Unquote(bl.Value); err == nil {
								val, found = s, true
							}
						}
					}
				}
			}
			return true
		}
		ast.Inspect(fd.Body, look)
		if !found {
			for _, d := range f.f.Decls {
				ast.Inspect(d, func(n ast.Node) bool {
					if _, isFn := n.(*ast.FuncDecl); isFn {
						return false
					}
					return look(n)
				})
			}
		}
		return val, found
	}
	return "", false
}

func squash(s string) string { return strings.Join(strings.Fields(s), " ") }

func sitesOf(f *file, label string, fd *ast.FuncDecl) []Site {
	var out []Site
	ast.Inspect(fd.Body, func(n ast.Node) bool {
		switch x := n.(type) {
		case *ast.CallExpr:
			fun := f.src(x.Fun)
			switch {
			case fun == "fmt.Sprintf" && len(x.Args) > 0:
				format, ok := constString(f, fd, x.Args[0])
				if !ok {
					format = "<dynamic> " + f.src(x.Args[0])
				}
				var args []string
				for _, a := range x.Args[1:] {
					args = append(args, f.src(a))
				}
				out = append(out, Site{label, "Sprintf", squash(format), args})
			case strings.HasSuffix(fun, ".CopyFrom"):
				var args []string
				for _, a := range x.Args {
					args = append(args, f.src(a))
				}
				out = append(out, Site{label, "CopyFrom", "", args})
			}
		case *ast.AssignStmt:
			if x.Tok == token.ADD_ASSIGN && len(x.Lhs) == 1 && len(x.Rhs) == 1 {
				rhs := x.Rhs[0]
				if c, ok := rhs.(*ast.CallExpr); ok && f.src(c.Fun) == "fmt.Sprintf" {
					return true // listed as Sprintf
				}
				out = append(out, Site{label, "+=", f.src(x.Lhs[0]), []string{f.src(rhs)}})
			}
		}
		return true
	})
	return out
}

// dynamicSQL lists every Exec/Query/QueryRow call of the file whose statement
// argument is not a string constant.
func dynamicSQL(f *file, pkg string) []string {
	var out []string
	for _, d := range f.f.Decls {
		fd, ok := d.(*ast.FuncDecl)
		if !ok || fd.Body == nil {
			continue
		}
		name := fd.Name.Name
		if fd.Recv != nil && len(fd.Recv.List) == 1 {
			t := fd.Recv.List[0].Type
			if s, ok := t.(*ast.StarExpr); ok {
				t = s.X
			}
			name = f.src(t) + "." + name
		}
		ast.Inspect(fd.Body, func(n ast.Node) bool {
			call, ok := n.(*ast.CallExpr)
			if !ok {
				return true
			}
			sel, ok := call.Fun.(*ast.SelectorExpr)
			if !ok {
				return true
			}
			switch sel.Sel.Name {
			case "Exec", "Query", "QueryRow":
			default:
				return true
			}
			// database/sql style (first argument is the statement) or pgx style (ctx first)
			idx := 1
			if len(call.Args) <= idx {
				idx = 0
			}
			if len(call.Args) == 0 {
				return true
			}
			if _, ok := constString(f, fd, call.Args[idx]); ok {
				return true
			}
			if idx == 1 {
				if _, ok := constString(f, fd, call.Args[0]); ok {
					return true // db.QueryRow(q) of wpg.TestPG
				}
			}
			out = append(out, pkg+"."+name+": "+sel.Sel.Name+"("+f.src(call.Args[idx])+")")
			return true
		})
	}
	return out
}

func spliceSites(repo string) ([]Site, []string, error) {
	type anchor struct{ file, pkg, recv, name string }
	anchors := []anchor{
		{"wpg/pg.go", "wpg", "Table", "DDL"},
		{"wpg/pg.go", "wpg", "Table", "Migrate"},
		{"wpg/pg.go", "wpg", "", "Diff"},
		{"dig/dig.go", "dig", "Integration", "Delete"},
		{"dig/dig.go", "dig", "Filter", "Accept"},
		{"dig/dig.go", "dig", "Integration", "Insert"},
		{"dig/dig.go", "dig", "Integration", "notify"},
		{"shovel/task.go", "shovel", "", "NewTask"},
	}
	files := map[string]*file{}
	get := func(rel string) (*file, error) {
		if f, ok := files[rel]; ok {
			return f, nil
		}
		f, err := parse(repo, rel)
		if err == nil {
			files[rel] = f
		}
		return f, err
	}
	var sites []Site
	for _, a := range anchors {
		f, err := get(a.file)
		if err != nil {
			return nil, nil, err
		}
		fd, err := f.fn(a.recv, a.name)
		if err != nil {
			return nil, nil, err
		}
		label := a.pkg + "." + a.name
		if a.recv != "" {
			label = a.pkg + "." + a.recv + "." + a.name
		}
		sites = append(sites, sitesOf(f, label, fd)...)
	}
	var dyn []string
	for _, rel := range []struct{ file, pkg string }{
		{"wpg/pg.go", "wpg"}, {"dig/dig.go", "dig"}, {"shovel/task.go", "shovel"},
		{"shovel/web/web.go", "web"}, {"shovel/config/config.go", "config"}} {
		f, err := get(rel.file)
		if err != nil {
			return nil, nil, err
		}
		dyn = append(dyn, dynamicSQL(f, rel.pkg)...)
	}
	// a set: which call shapes exist, not how many
	sort.Strings(dyn)
	var uniq []string
	for i, d := range dyn {
		if i == 0 || d != dyn[i-1] {
			uniq = append(uniq, d)
		}
	}
	return sites, uniq, nil
}

// taskConsts lists the string constants declared inside the functions of
// shovel/task.go that mention shovel.task_updates (the cursor statements):
// constant text, parameters only.
func taskConsts(repo string) ([]string, error) {
	f, err := parse(repo, "shovel/task.go")
	if err != nil {
		return nil, err
	}
	var out []string
	for _, d := range f.f.Decls {
		fd, ok := d.(*ast.FuncDecl)
		if !ok || fd.Body == nil {
			continue
		}
		ast.Inspect(fd.Body, func(n ast.Node) bool {
			gd, ok := n.(*ast.GenDecl)
			if !ok || gd.Tok != token.CONST {
				return true
			}
			for _, sp := range gd.Specs {
				vs := sp.(*ast.ValueSpec)
				for _, v := range vs.Values {
					if bl, ok := v.(*ast.BasicLit); ok && bl.Kind == token.STRING {
						if t, err := strconv.Unquote(bl.Value); err == nil && strings.Contains(t, "shovel.task_updates") {
							out = append(out, strings.TrimSpace(strings.TrimSuffix(squash(t), ";")))
						}
					}
				}
			}
			return true
		})
	}
	if len(out) == 0 {
		return nil, shape("shovel/task.go: no constant statement on shovel.task_updates found")
	}
	sort.Strings(out)
	return out, nil
}

// storeConsts lists the string constants of shovel/web/web.go and
// shovel/config/config.go that mention shovel.sources or shovel.integrations:
// the dashboard stores and the loader reads with constant text, parameters only.
func storeConsts(repo string) ([]string, error) {
	var out []string
	for _, rel := range []string{"shovel/web/web.go", "shovel/config/config.go"} {
		f, err := parse(repo, rel)
		if err != nil {
			return nil, err
		}
		ast.Inspect(f.f, func(n ast.Node) bool {
			gd, ok := n.(*ast.GenDecl)
			if !ok || gd.Tok != token.CONST {
				return true
			}
			for _, sp := range gd.Specs {
				vs := sp.(*ast.ValueSpec)
				for _, v := range vs.Values {
					if bl, ok := v.(*ast.BasicLit); ok && bl.Kind == token.STRING {
						if t, err := strconv.Unquote(bl.Value); err == nil &&
							(strings.Contains(t, "shovel.sources") || strings.Contains(t, "shovel.integrations")) {
							out = append(out, strings.TrimSpace(strings.TrimSuffix(squash(t), ";")))
						}
					}
				}
			}
			return true
		})
	}
	if len(out) == 0 {
		return nil, shape("no constant statement on shovel.sources / shovel.integrations found")
	}
	sort.Strings(out)
	return out, nil
}

func reservedWords(repo string) ([]string, error) {
	f, err := parse(repo, "wpg/reserved_words.go")
	if err != nil {
		return nil, err
	}
	var out []string
	for _, d := range f.f.Decls {
		gd, ok := d.(*ast.GenDecl)
		if !ok || gd.Tok != token.VAR {
			continue
		}
		for _, sp := range gd.Specs {
			vs := sp.(*ast.ValueSpec)
			if len(vs.Names) != 1 || vs.Names[0].Name != "reservedWords" || len(vs.Values) != 1 {
				continue
			}
			cl, ok := vs.Values[0].(*ast.CompositeLit)
			if !ok {
				return nil, shape("reservedWords is not a composite literal")
			}
			for _, e := range cl.Elts {
				kv, ok := e.(*ast.KeyValueExpr)
				if !ok {
					return nil, shape("reservedWords: element without key")
				}
				bl, ok := kv.Key.(*ast.BasicLit)
				if !ok || bl.Kind != token.STRING {
					return nil, shape("reservedWords: key is not a string literal")
				}
				s, _ := strconv.Unquote(bl.Value)
				out = append(out, s)
			}
		}
	}
	if len(out) == 0 {
		return nil, shape("reservedWords not found in wpg/reserved_words.go")
	}
	sort.Strings(out)
	// quote() must still be: reserved (after ToLower) -> strconv.Quote, else unchanged
	pf, err := parse(repo, "wpg/pg.go")
	if err != nil {
		return nil, err
	}
	q, err := pf.fn("", "quote")
	if err != nil {
		return nil, err
	}
	const want = `{ if _, ok := reservedWords[strings.ToLower(s)]; ok { return strconv.Quote(s) } return s }`
	if got := pf.src(q.Body); got != want {
		return nil, shape("wpg.quote no longer has the expected body: %s", got)
	}
	return out, nil
}

// ------------------------------------------------------------ AddRequiredFields
type Req struct{ Guard, Arg, Name, Type string }

func requiredFields(repo string) ([]Req, []string, error) {
	f, err := parse(repo, "shovel/config/config.go")
	if err != nil {
		return nil, nil, err
	}
	fd, err := f.fn("Integration", "AddRequiredFields")
	if err != nil {
		return nil, nil, err
	}
	recv := fd.Recv.List[0].Names[0].Name
	closures := map[string]string{}
	var reqs []Req
	addCall := func(s ast.Stmt) (string, string, bool) {
		es, ok := s.(*ast.ExprStmt)
		if !ok {
			return "", "", false
		}
		c, ok := es.X.(*ast.CallExpr)
		if !ok || f.src(c.Fun) != "add" || len(c.Args) != 2 {
			return "", "", false
		}
		a, ok1 := c.Args[0].(*ast.BasicLit)
		b, ok2 := c.Args[1].(*ast.BasicLit)
		if !ok1 || !ok2 || a.Kind != token.STRING || b.Kind != token.STRING {
			return "", "", false
		}
		n, _ := strconv.Unquote(a.Value)
		t, _ := strconv.Unquote(b.Value)
		return n, t, true
	}
	for _, s := range fd.Body.List {
		switch x := s.(type) {
		case *ast.AssignStmt:
			if len(x.Lhs) == 1 && len(x.Rhs) == 1 && x.Tok == token.DEFINE {
				if fl, ok := x.Rhs[0].(*ast.FuncLit); ok {
					closures[f.src(x.Lhs[0])] = f.src(fl)
					continue
				}
			}
			return nil, nil, shape("AddRequiredFields: unexpected statement %s", f.src(s))
		case *ast.ExprStmt:
			n, t, ok := addCall(s)
			if !ok {
				return nil, nil, shape("AddRequiredFields: unexpected statement %s", f.src(s))
			}
			reqs = append(reqs, Req{"always", "", n, t})
		case *ast.IfStmt:
			if x.Init != nil || x.Else != nil || len(x.Body.List) != 1 || f.src(x.Cond) != "len("+recv+".Event.Selected()) > 0" {
				return nil, nil, shape("AddRequiredFields: unexpected if %s", f.src(x.Cond))
			}
			n, t, ok := addCall(x.Body.List[0])
			if !ok {
				return nil, nil, shape("AddRequiredFields: unexpected if body")
			}
			reqs = append(reqs, Req{"any-selected", "", n, t})
		case *ast.RangeStmt:
			if len(x.Body.List) != 1 {
				return nil, nil, shape("AddRequiredFields: unexpected range body")
			}
			ifs, ok := x.Body.List[0].(*ast.IfStmt)
			if !ok || ifs.Init != nil || ifs.Else != nil || len(ifs.Body.List) != 1 {
				return nil, nil, shape("AddRequiredFields: unexpected range body")
			}
			n, t, ok := addCall(ifs.Body.List[0])
			if !ok {
				return nil, nil, shape("AddRequiredFields: unexpected range body")
			}
			v := f.src(x.Value)
			over, cond := f.src(x.X), f.src(ifs.Cond)
			switch {
			case over == recv+".Event.Selected()" && cond == "!"+v+".Indexed":
				reqs = append(reqs, Req{"any-selected-not-indexed", "", n, t})
			case over == recv+".Block" && strings.HasPrefix(cond, "strings.HasPrefix("+v+".Name, ") && strings.HasSuffix(cond, ")"):
				lit := strings.TrimSuffix(strings.TrimPrefix(cond, "strings.HasPrefix("+v+".Name, "), ")")
				p, err := strconv.Unquote(lit)
				if err != nil {
					return nil, nil, shape("AddRequiredFields: prefix is not a literal: %s", cond)
				}
				reqs = append(reqs, Req{"any-block-prefix", p, n, t})
			default:
				return nil, nil, shape("AddRequiredFields: unexpected loop over %s with condition %s", over, cond)
			}
		default:
			return nil, nil, shape("AddRequiredFields: unexpected statement %s", f.src(s))
		}
	}
	want := map[string]string{
		"hasBD":  `func(name string) bool { for _, bd := range ` + recv + `.Block { if bd.Name == name { return true } } return false }`,
		"hasCol": `func(name string) bool { for _, c := range ` + recv + `.Table.Columns { if c.Name == name { return true } } return false }`,
		"add":    `func(name, t string) { if !hasBD(name) { ` + recv + `.Block = append(` + recv + `.Block, dig.BlockData{Name: name, Column: name}) } if !hasCol(name) { ` + recv + `.Table.Columns = append(` + recv + `.Table.Columns, wpg.Column{ Name: name, Type: t, }) } }`,
	}
	for k, w := range want {
		if closures[k] != w {
			return nil, nil, shape("AddRequiredFields: closure %s no longer has the expected body: %s", k, closures[k])
		}
	}
	if len(reqs) == 0 {
		return nil, nil, shape("AddRequiredFields: no add(...) call found")
	}
	// AddUniqueIndex: possible := []string{...}
	ui, err := f.fn("", "AddUniqueIndex")
	if err != nil {
		return nil, nil, err
	}
	var possible []string
	found := false
	var rest []string
	for _, s := range ui.Body.List {
		as, ok := s.(*ast.AssignStmt)
		if ok && len(as.Lhs) == 1 && f.src(as.Lhs[0]) == "possible" && len(as.Rhs) == 1 {
			cl, ok := as.Rhs[0].(*ast.CompositeLit)
			if !ok || f.src(cl.Type) != "[]string" {
				return nil, nil, shape("AddUniqueIndex: possible is not a []string literal")
			}
			for _, e := range cl.Elts {
				bl, ok := e.(*ast.BasicLit)
				if !ok || bl.Kind != token.STRING {
					return nil, nil, shape("AddUniqueIndex: possible has a non-literal element")
				}
				v, _ := strconv.Unquote(bl.Value)
				possible = append(possible, v)
			}
			found = true
			continue
		}
		rest = append(rest, f.src(s))
	}
	if !found {
		return nil, nil, shape("AddUniqueIndex: possible literal not found")
	}
	param := ui.Type.Params.List[0].Names[0].Name
	wantRest := []string{
		`if len(` + param + `.Unique) > 0 { return }`,
		`var uidx []string`,
		`for i := range possible { var found bool for j := range ` + param + `.Columns { if ` + param + `.Columns[j].Name == possible[i] { found = true break } } if found { uidx = append(uidx, possible[i]) } }`,
		`if len(uidx) > 0 { ` + param + `.Unique = append(` + param + `.Unique, uidx) }`,
	}
	if strings.Join(rest, "\n") != strings.Join(wantRest, "\n") {
		return nil, nil, shape("AddUniqueIndex no longer has the expected body:\n%s", strings.Join(rest, "\n"))
	}
	return reqs, possible, nil
}

// ------------------------------------------------------------ Coq output
func cstr(s string) string { return `"` + strings.ReplaceAll(s, `"`, `""`) + `"` }

func clist(xs []string) string {
	var q []string
	for _, x := range xs {
		q = append(q, cstr(x))
	}
	return "[" + strings.Join(q, "; ") + "]"
}

// UserInputChecks renders coq/Gen/UserInputChecks.v.
func UserInputChecks(repo string) (string, error) {
	checks, err := checkUserInput(repo)
	if err != nil {
		return "", err
	}
	gs, err := guards(repo)
	if err != nil {
		return "", err
	}
	sites, dyn, err := spliceSites(repo)
	if err != nil {
		return "", err
	}
	res, err := reservedWords(repo)
	if err != nil {
		return "", err
	}
	tcs, err := taskConsts(repo)
	if err != nil {
		return "", err
	}
	scs, err := storeConsts(repo)
	if err != nil {
		return "", err
	}
	var b strings.Builder
	b.WriteString("(* GENERATED by harness/config/translate from shovel/config/config.go, wpg/pg.go,\n   wpg/reserved_words.go, dig/dig.go, shovel/task.go, shovel/web/web.go.  Do not edit. *)\n")
	b.WriteString("From Coq Require Import List String.\nImport ListNotations.\nOpen Scope string_scope.\n\n")
	b.WriteString("(* CheckUserInput: (checking closure, selector path) *)\nDefinition checked : list (string * string) :=\n  [")
	for i, c := range checks {
		if i > 0 {
			b.WriteString(";\n   ")
		}
		b.WriteString("(" + cstr(c.Kind) + ", " + cstr(c.Path) + ")")
	}
	b.WriteString("].\n\n(* the identifier check guards what follows it *)\nDefinition guards : list (string * string) :=\n  [")
	for i, g := range gs {
		if i > 0 {
			b.WriteString(";\n   ")
		}
		b.WriteString("(" + cstr(g.Where) + ", " + cstr(g.What) + ")")
	}
	b.WriteString("].\n\n(* places that build SQL text: (function, kind, format or target, arguments) *)\nDefinition sites : list (string * string * string * list string) :=\n  [")
	for i, s := range sites {
		if i > 0 {
			b.WriteString(";\n   ")
		}
		b.WriteString("(" + cstr(s.Func) + ", " + cstr(s.Kind) + ", " + cstr(s.Text) + ", " + clist(s.Args) + ")")
	}
	b.WriteString("].\n\n(* Exec/Query/QueryRow calls whose statement is not a constant *)\nDefinition dynamic_sql : list string :=\n  [")
	for i, d := range dyn {
		if i > 0 {
			b.WriteString(";\n   ")
		}
		b.WriteString(cstr(d))
	}
	b.WriteString("].\n\nDefinition reserved : list string :=\n  " + clist(res) + ".\n")
	b.WriteString("\n(* constant statements of shovel/task.go on shovel.task_updates (white space squashed) *)\nDefinition task_consts : list string :=\n  " + clist(tcs) + ".\n")
	b.WriteString("\n(* constant statements of web.go / config.go on shovel.sources and shovel.integrations *)\nDefinition store_consts : list string :=\n  " + clist(scs) + ".\n")
	return b.String(), nil
}

// RequiredFields renders coq/Gen/RequiredFields.v.
func RequiredFields(repo string) (string, error) {
	reqs, possible, err := requiredFields(repo)
	if err != nil {
		return "", err
	}
	var b strings.Builder
	b.WriteString("(* GENERATED by harness/config/translate from shovel/config/config.go\n   (AddRequiredFields, AddUniqueIndex).  Do not edit. *)\n")
	b.WriteString("From Coq Require Import List String.\nImport ListNotations.\nOpen Scope string_scope.\n\n")
	b.WriteString("(* add(name, type) calls in order: (guard, guard argument, name, type) *)\nDefinition required : list (string * string * string * string) :=\n  [")
	for i, r := range reqs {
		if i > 0 {
			b.WriteString(";\n   ")
		}
		b.WriteString("(" + cstr(r.Guard) + ", " + cstr(r.Arg) + ", " + cstr(r.Name) + ", " + cstr(r.Type) + ")")
	}
	b.WriteString("].\n\nDefinition possible : list string :=\n  " + clist(possible) + ".\n")
	return b.String(), nil
}

func writeIfChanged(path, content string) error {
	if old, err := os.ReadFile(path); err == nil && string(old) == content {
		return nil
	}
	tmp := fmt.Sprintf("%s.tmp%d", path, os.Getpid())
	if err := os.WriteFile(tmp, []byte(content), 0o644); err != nil {
		return err
	}
	return os.Rename(tmp, path)
}

// WriteAll regenerates both files (the configuration model needs both).
func WriteAll(repo, out string) error {
	if err := os.MkdirAll(out, 0o755); err != nil {
		return err
	}
	rf, err := RequiredFields(repo)
	if err != nil {
		return err
	}
	ui, err := UserInputChecks(repo)
	if err != nil {
		return err
	}
	if err := writeIfChanged(filepath.Join(out, "RequiredFields.v"), rf); err != nil {
		return err
	}
	return writeIfChanged(filepath.Join(out, "UserInputChecks.v"), ui)
}
