// Package abi: generators, an independent Solidity ABI encoder, the value-level
// row oracle and the Coq printers shared by the drivers of C09, C10 and C13.
package abi

import (
	"fmt"
	"strconv"
	"strings"

	"verif/harness/lib"
)

// Ty is a type as the ABI JSON presents it: an elementary or tuple base, the
// array suffixes as written (innermost first, 0 = dynamic), and the selection.
type Ty struct {
	EKind   string // uint int address bool bytesN function bytes string | tuple
	Bits    int    // for uint/int/bytesN
	Comps   []*Ty
	Dims    []int
	Sel     bool // leaves only
	Indexed bool
	Name    string
	Col     string
}

func (t *Ty) IsTuple() bool { return t.EKind == "tuple" }

func (t *Ty) BaseName() string {
	switch t.EKind {
	case "uint", "int", "bytesN":
		n := t.EKind
		if n == "bytesN" {
			n = "bytes"
		}
		return n + strconv.Itoa(t.Bits)
	}
	return t.EKind
}

func dimsString(ds []int) string {
	var s strings.Builder
	for _, d := range ds {
		if d == 0 {
			s.WriteString("[]")
		} else {
			fmt.Fprintf(&s, "[%d]", d)
		}
	}
	return s.String()
}

// TypeString is the "type" member of the ABI JSON.
func (t *Ty) TypeString() string { return t.BaseName() + dimsString(t.Dims) }

// Canon is the canonical type of the Solidity ABI specification.
func (t *Ty) Canon() string {
	if !t.IsTuple() {
		return t.TypeString()
	}
	var cs []string
	for _, c := range t.Comps {
		cs = append(cs, c.Canon())
	}
	return "(" + strings.Join(cs, ",") + ")" + dimsString(t.Dims)
}

func CanonSig(name string, ins []*Ty) string {
	var cs []string
	for _, c := range ins {
		cs = append(cs, c.Canon())
	}
	return name + "(" + strings.Join(cs, ",") + ")"
}

func jsonStr(s string) string { return strconv.Quote(s) }

// JSON text of one input (what a Solidity compiler emits, plus "column").
func (t *Ty) JSON() string {
	var s strings.Builder
	fmt.Fprintf(&s, `{"name":%s,"type":%s`, jsonStr(t.Name), jsonStr(t.TypeString()))
	if t.Indexed {
		s.WriteString(`,"indexed":true`)
	}
	if t.Sel {
		fmt.Fprintf(&s, `,"column":%s`, jsonStr(t.Col))
	}
	if t.IsTuple() {
		s.WriteString(`,"components":[`)
		for i, c := range t.Comps {
			if i > 0 {
				s.WriteString(",")
			}
			s.WriteString(c.JSON())
		}
		s.WriteString("]")
	}
	s.WriteString("}")
	return s.String()
}

func EventJSON(name string, ins []*Ty) string {
	var cs []string
	for _, c := range ins {
		cs = append(cs, c.JSON())
	}
	return fmt.Sprintf(`{"name":%s,"type":"event","anonymous":false,"inputs":[%s]}`, jsonStr(name), strings.Join(cs, ","))
}

// Coq term of type jty.
func (t *Ty) Coq() string {
	ds := make([]string, len(t.Dims))
	for i, d := range t.Dims {
		ds[i] = strconv.Itoa(d)
	}
	dims := lib.CList(ds)
	if t.IsTuple() {
		cs := make([]string, len(t.Comps))
		for i, c := range t.Comps {
			cs[i] = c.Coq()
		}
		return fmt.Sprintf("(JTuple %s %s %s)", lib.CBool(t.Indexed), lib.CList(cs), dims)
	}
	var n string
	switch t.EKind {
	case "uint":
		n = fmt.Sprintf("(EUint %d)", t.Bits)
	case "int":
		n = fmt.Sprintf("(EInt %d)", t.Bits)
	case "bytesN":
		n = fmt.Sprintf("(EBytesN %d)", t.Bits)
	case "address":
		n = "EAddress"
	case "bool":
		n = "EBool"
	case "function":
		n = "EFunction"
	case "bytes":
		n = "EBytes"
	case "string":
		n = "EString"
	default:
		panic("ename " + t.EKind)
	}
	return fmt.Sprintf("(JElem %s %s %s %s)", lib.CBool(t.Indexed), n, lib.CBool(t.Sel), dims)
}

func CoqTys(ins []*Ty) string {
	cs := make([]string, len(ins))
	for i, c := range ins {
		cs[i] = c.Coq()
	}
	return lib.CList(cs)
}

// Node is the harness's own view of the decoder type of a (non-indexed) input:
// the base wrapped by its array suffixes.
type Node struct {
	Kind   byte // 's' word, 'd' bytes/string, 'a' array, 't' tuple
	K      int  // array length, 0 = dynamic
	Elem   *Node
	Fields []*Node
	Sel    bool
	Col    int
}

// Tree assigns the columns in the order the selected leaves appear.
func Tree(ins []*Ty) (*Node, int) {
	col := 0
	var conv func(t *Ty) *Node
	conv = func(t *Ty) *Node {
		var base *Node
		if t.IsTuple() {
			base = &Node{Kind: 't'}
			for _, c := range t.Comps {
				base.Fields = append(base.Fields, conv(c))
			}
		} else {
			k := byte('s')
			if t.EKind == "bytes" || t.EKind == "string" {
				k = 'd'
			}
			base = &Node{Kind: k, Sel: t.Sel}
			if t.Sel {
				base.Col = col
				col++
			}
		}
		for _, d := range t.Dims {
			base = &Node{Kind: 'a', K: d, Elem: base}
		}
		return base
	}
	root := &Node{Kind: 't'}
	for _, t := range ins {
		if t.Indexed {
			continue
		}
		root.Fields = append(root.Fields, conv(t))
	}
	return root, col
}

// Dynamic per the Solidity specification.
func (n *Node) Dynamic() bool {
	switch n.Kind {
	case 'd':
		return true
	case 'a':
		return n.K == 0 || n.Elem.Dynamic()
	case 't':
		for _, f := range n.Fields {
			if f.Dynamic() {
				return true
			}
		}
	}
	return false
}

func (n *Node) HasSel() bool {
	switch n.Kind {
	case 'a':
		return n.Elem.HasSel()
	case 't':
		for _, f := range n.Fields {
			if f.HasSel() {
				return true
			}
		}
		return false
	}
	return n.Sel
}

// hasSelArr: a selected array somewhere inside.
func (n *Node) hasSelArr() bool {
	switch n.Kind {
	case 'a':
		return n.Elem.HasSel()
	case 't':
		for _, f := range n.Fields {
			if f.hasSelArr() {
				return true
			}
		}
	}
	return false
}

// InDomain: no selected array inside a tuple that is an array element.
func (n *Node) InDomain() bool {
	switch n.Kind {
	case 'a':
		if !n.Elem.HasSel() {
			return true
		}
		if n.Elem.Kind == 'a' {
			return n.Elem.InDomain()
		}
		return !n.Elem.hasSelArr()
	case 't':
		for _, f := range n.Fields {
			if !f.InDomain() {
				return false
			}
		}
	}
	return true
}

// Depth of array nesting (degree of the row bound).
func (n *Node) Depth() int {
	switch n.Kind {
	case 'a':
		return 1 + n.Elem.Depth()
	case 't':
		d := 0
		for _, f := range n.Fields {
			if x := f.Depth(); x > d {
				d = x
			}
		}
		return d
	}
	return 0
}
