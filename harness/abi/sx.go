package abi

import (
	"encoding/hex"
	"fmt"
	"strings"

	"github.com/indexsupply/shovel/dig"
)

// S-expression printers of the scan cases (syntax: coq/Corr/AbiSx.v), read by
// the extracted second evaluator of the thorough tier.

func SxBytes(b []byte) string { return "#" + hex.EncodeToString(b) }

func sxBool(b bool) string {
	if b {
		return "1"
	}
	return "0"
}

func sxInput(i dig.Input) string {
	cs := make([]string, len(i.Components))
	for k, c := range i.Components {
		cs[k] = sxInput(c)
	}
	return fmt.Sprintf("(i %s %s (%s) %s)", sxBool(i.Indexed), SxBytes([]byte(i.Type)), strings.Join(cs, " "), sxBool(len(i.Column) > 0))
}

func SxEvent(e dig.Event) string {
	cs := make([]string, len(e.Inputs))
	for k, c := range e.Inputs {
		cs[k] = sxInput(c)
	}
	return fmt.Sprintf("(ev %s (%s))", SxBytes([]byte(e.Name)), strings.Join(cs, " "))
}

func SxVal(n *Node, v *Val) string {
	switch n.Kind {
	case 's':
		return "(w " + SxBytes(v.B) + ")"
	case 'd':
		return "(b " + SxBytes(v.B) + ")"
	}
	xs := make([]string, len(v.Elems))
	for i, e := range v.Elems {
		if n.Kind == 'a' {
			xs[i] = SxVal(n.Elem, e)
		} else {
			xs[i] = SxVal(n.Fields[i], e)
		}
	}
	tag := "t"
	if n.Kind == 'a' {
		tag = "a"
	}
	return "(" + tag + " (" + strings.Join(xs, " ") + "))"
}

func (o ScanObs) Sx() string {
	switch o.Kind {
	case "panic":
		return "(so 2 () 0 0)"
	case "err":
		return fmt.Sprintf("(so 1 () %d %d)", o.N, o.CLen)
	}
	rs := make([]string, len(o.Rows))
	for i, r := range o.Rows {
		cs := make([]string, len(r))
		for j, c := range r {
			switch {
			case !c.Present:
				cs[j] = "(none)"
			case c.Inside:
				cs[j] = fmt.Sprintf("(some (%d %d))", c.Off, c.Len)
			default:
				cs[j] = fmt.Sprintf("(some (%d %d))", uint64(1)<<62, c.Len)
			}
		}
		rs[i] = "(" + strings.Join(cs, " ") + ")"
	}
	return fmt.Sprintf("(so 0 (%s) %d %d)", strings.Join(rs, " "), o.N, o.CLen)
}

func (m Mut) Sx() string {
	switch m.Kind {
	case "id":
		return "(id)"
	case "trunc":
		return fmt.Sprintf("(trunc %d)", m.N)
	case "word":
		return fmt.Sprintf("(word %d %d)", m.I, m.K)
	case "wordv", "wordw":
		return fmt.Sprintf("(wordv %d %d)", m.I, m.V)
	case "raw":
		return "(raw " + SxBytes(m.Raw) + ")"
	}
	panic("mut")
}
