package abi

import (
	"encoding/json"
	"fmt"
	"reflect"
	"strconv"
	"strings"
	"unsafe"

	"github.com/indexsupply/shovel/dig"
	"verif/harness/lib"
)

// ParseEvent feeds the JSON text to the real decoder of declarations.
func ParseEvent(js string) (dig.Event, error) {
	var e dig.Event
	err := json.Unmarshal([]byte(js), &e)
	return e, err
}

func coqInput(i dig.Input) string {
	cs := make([]string, len(i.Components))
	for k, c := range i.Components {
		cs[k] = coqInput(c)
	}
	return fmt.Sprintf("(Inp %s %s %s %s)", lib.CBool(i.Indexed), CB([]byte(i.Type)), lib.CList(cs), lib.CBool(len(i.Column) > 0))
}

// CoqEvent prints what Go holds after parsing the JSON (type strings,
// components, indexed flags, column present) as a term of type event.
func CoqEvent(e dig.Event) string {
	cs := make([]string, len(e.Inputs))
	for k, c := range e.Inputs {
		cs[k] = coqInput(c)
	}
	return fmt.Sprintf("(mkevent %s %s)", CB([]byte(e.Name)), lib.CList(cs))
}

// CoqType prints every field of the implementation's type tree (term of type
// ot).  sel/pos of tuple nodes are never read by the decoder and are dropped.
func CoqType(v dig.VerifType) string {
	var kids []string
	switch v.Kind {
	case 'a':
		if v.Elem != nil {
			kids = append(kids, CoqType(*v.Elem))
		}
	case 't':
		for _, f := range v.Fields {
			kids = append(kids, CoqType(f))
		}
	}
	sel, pos := v.Sel, v.Pos
	if v.Kind == 't' {
		sel, pos = false, 0
	}
	return fmt.Sprintf("(OT %d %s %s %s %s %s %s)", v.Kind, lib.CBool(sel), lib.CNat(pos), lib.CBool(v.Static),
		lib.CZ(int64(v.Size)), lib.CZ(int64(v.Length)), lib.CList(kids))
}

func TypeString(v dig.VerifType) string {
	switch v.Kind {
	case 'a':
		return fmt.Sprintf("[%d]%s", v.Length, TypeString(*v.Elem))
	case 't':
		xs := make([]string, len(v.Fields))
		for i, f := range v.Fields {
			xs[i] = TypeString(f)
		}
		return "(" + strings.Join(xs, ",") + ")"
	}
	s := string(v.Kind)
	if v.Sel {
		s += fmt.Sprintf("*%d", v.Pos)
	}
	return s
}

// ObsCell is one decoded cell: where it lies relative to the input.
type ObsCell struct {
	Present bool
	Off     int64
	Len     int
	Inside  bool // the cell's memory is a sub-range of the input's memory
	B       []byte
}

type ScanObs struct {
	Kind     string // ok | err | panic
	PanicMsg string
	Rows     [][]ObsCell
	N        int // Result.Len() after the call
	CLen     int // len(collection) after the call
	CCap     int // cap(collection) after the call (read by reflection; not part of the model)
}

// FreshInput copies b into an allocation with cap == len, so that an over-read
// inside spare capacity cannot go unnoticed.
func FreshInput(b []byte) []byte {
	in := make([]byte, len(b))
	copy(in, b)
	return in[:len(b):len(b)]
}

// RunScan calls Result.Scan + Result.Bytes on one decoder instance.
func RunScan(res *dig.VerifResult, input []byte) (obs ScanObs) {
	var err error
	var rows [][][]byte
	p, msg := lib.Catch(func() {
		err = res.Scan(input)
		if err == nil {
			rows = res.Bytes()
		}
	})
	if p {
		return ScanObs{Kind: "panic", PanicMsg: msg}
	}
	obs.N, obs.CLen, obs.CCap = res.Len(), res.Collection(), collectionCap(res)
	if err != nil {
		obs.Kind = "err"
		return obs
	}
	obs.Kind = "ok"
	var base uintptr
	if len(input) > 0 {
		base = uintptr(unsafe.Pointer(&input[0]))
	}
	for _, r := range rows {
		or := make([]ObsCell, len(r))
		for j, c := range r {
			if len(c) == 0 {
				continue
			}
			p := uintptr(unsafe.Pointer(&c[0]))
			oc := ObsCell{Present: true, Len: len(c), B: c}
			if len(input) > 0 && p >= base && p+uintptr(len(c)) <= base+uintptr(len(input)) {
				oc.Inside = true
				oc.Off = int64(p - base)
			} else {
				oc.Off = -1
			}
			or[j] = oc
		}
		obs.Rows = append(obs.Rows, or)
	}
	return obs
}

// collectionCap reads cap(Result.collection) through the hook's wrapper.
func collectionCap(res *dig.VerifResult) (c int) {
	defer func() {
		if recover() != nil {
			c = -1
		}
	}()
	return reflect.ValueOf(res).Elem().FieldByName("r").Elem().FieldByName("collection").Cap()
}

// Coq term of type scan_obs.
func (o ScanObs) Coq() string {
	switch o.Kind {
	case "panic":
		return "(SO 2 [] 0%nat 0%nat)"
	case "err":
		return fmt.Sprintf("(SO 1 [] %s %s)", lib.CNat(o.N), lib.CNat(o.CLen))
	}
	rs := make([]string, len(o.Rows))
	for i, r := range o.Rows {
		cs := make([]string, len(r))
		for j, c := range r {
			switch {
			case !c.Present:
				cs[j] = "None"
			case c.Inside:
				cs[j] = fmt.Sprintf("(Some (%d, %d))", c.Off, c.Len)
			default: // outside the input: no model cell can match
				cs[j] = fmt.Sprintf("(Some (%d, %d))", uint64(1)<<62, c.Len)
			}
		}
		rs[i] = lib.CList(cs)
	}
	return fmt.Sprintf("(SO 0 %s %s %s)", lib.CList(rs), lib.CNat(o.N), lib.CNat(o.CLen))
}

// CellsInside: every decoded cell is a sub-range of the input.
func (o ScanObs) CellsInside() bool {
	for _, r := range o.Rows {
		for _, c := range r {
			if c.Present && !c.Inside {
				return false
			}
		}
	}
	return true
}

// CB prints a byte string with the byte constants of Corr/AbiCase.v.
func CB(b []byte) string {
	var s strings.Builder
	s.Grow(5*len(b) + 2)
	s.WriteString("[")
	for i, x := range b {
		if i > 0 {
			s.WriteString(";")
		}
		s.WriteString("x")
		s.WriteString(strconv.Itoa(int(x)))
	}
	s.WriteString("]")
	return s.String()
}

const hashP = 1000000007

// HashBytes is Corr/AbiCase.hash_bytes.
func HashBytes(b []byte) uint64 {
	h := uint64(7)
	for _, x := range b {
		h = (h*257 + uint64(x) + 1) % hashP
	}
	return h
}
