package abi

import (
	"bufio"
	"bytes"
	"fmt"
	"os"
	"os/exec"
	"path/filepath"
	"sort"
	"strings"
	"sync"
	"syscall"
	"time"

	"verif/harness/lib"
)

// The second evaluator of the thorough tier: the check functions of
// Corr/RunC09.v and Corr/RunC10.v extracted to OCaml (coq/Corr/ExtractAbi.v,
// ExtrOcamlBasic only) and driven by coq/extracted/abi_run.ml.

// VerifRoot is the framework directory, derived from the driver binary
// (harness/bin/<driver>).
func VerifRoot() (string, error) {
	exe, err := os.Executable()
	if err != nil {
		return "", err
	}
	root := filepath.Dir(filepath.Dir(filepath.Dir(exe)))
	if _, err := os.Stat(filepath.Join(root, "coq", "Corr", "ExtractAbi.v")); err != nil {
		return "", fmt.Errorf("cannot locate the framework from %s: %w", exe, err)
	}
	return root, nil
}

func run(dir string, timeout time.Duration, name string, args ...string) (string, error) {
	cmd := exec.Command("timeout", append([]string{fmt.Sprint(int(timeout.Seconds())), name}, args...)...)
	cmd.Dir = dir
	var out bytes.Buffer
	cmd.Stdout, cmd.Stderr = &out, &out
	err := cmd.Run()
	return out.String(), err
}

// BuildRunner re-extracts the checkers from the CURRENT model and builds the
// OCaml runner into work/abi_run (under the framework's Coq lock).
func BuildRunner() (string, error) {
	root, err := VerifRoot()
	if err != nil {
		return "", err
	}
	work := filepath.Join(root, "work")
	lock, err := os.OpenFile(filepath.Join(work, "coq.lock"), os.O_CREATE|os.O_RDWR, 0o644)
	if err != nil {
		return "", err
	}
	defer lock.Close()
	if err := syscall.Flock(int(lock.Fd()), syscall.LOCK_EX); err != nil {
		return "", err
	}
	defer syscall.Flock(int(lock.Fd()), syscall.LOCK_UN)
	coq := filepath.Join(root, "coq")
	if out, err := run(coq, 25*time.Minute, "make", "-j8", "Corr/AbiSx.vo"); err != nil {
		return "", fmt.Errorf("make Corr/AbiSx.vo: %v\n%s", err, tail(out))
	}
	ext := filepath.Join(coq, "extracted")
	if out, err := run(ext, 10*time.Minute, "coqc", "-noglob", "-Q", "..", "Shovel", "../Corr/ExtractAbi.v"); err != nil {
		return "", fmt.Errorf("extraction: %v\n%s", err, tail(out))
	}
	build := filepath.Join(work, "abi_build")
	os.RemoveAll(build)
	if err := os.MkdirAll(build, 0o755); err != nil {
		return "", err
	}
	defer os.RemoveAll(build)
	for _, f := range []string{"abi_extracted.ml", "abi_extracted.mli", "abi_run.ml"} {
		b, err := os.ReadFile(filepath.Join(ext, f))
		if err != nil {
			return "", err
		}
		if err := os.WriteFile(filepath.Join(build, f), b, 0o644); err != nil {
			return "", err
		}
	}
	bin := filepath.Join(work, "abi_run")
	if out, err := run(build, 10*time.Minute, "ocamlfind", "ocamlopt", "-O3", "-o", bin, "abi_extracted.mli", "abi_extracted.ml", "abi_run.ml"); err != nil {
		return "", fmt.Errorf("ocamlopt: %v\n%s", err, tail(out))
	}
	return bin, nil
}

func tail(s string) string {
	if len(s) > 1500 {
		return s[len(s)-1500:]
	}
	return s
}

// RunExtracted pipes the cases (one s-expression per line) through the
// extracted checker and returns the indices the model disagrees with.
func RunExtracted(bin, which string, lines []string) ([]int, error) {
	cmd := exec.Command(bin, which)
	cmd.Stdin = strings.NewReader(strings.Join(lines, "\n") + "\n")
	var out bytes.Buffer
	cmd.Stdout = &out
	cmd.Stderr = os.Stderr
	if err := cmd.Run(); err != nil {
		return nil, fmt.Errorf("extracted runner: %w", err)
	}
	var bad []int
	done := false
	sc := bufio.NewScanner(&out)
	for sc.Scan() {
		var a, b int
		if n, _ := fmt.Sscanf(sc.Text(), "FAIL %d", &a); n == 1 {
			bad = append(bad, a)
		} else if n, _ := fmt.Sscanf(sc.Text(), "DONE %d %d", &a, &b); n == 2 {
			done = true
			if a != len(lines) || b != len(bad) {
				return nil, fmt.Errorf("extracted runner counted %d cases / %d failures, sent %d / saw %d", a, b, len(lines), len(bad))
			}
		}
	}
	if !done {
		return nil, fmt.Errorf("extracted runner ended without DONE")
	}
	return bad, nil
}

// Pool runs batches on several runner processes.
type Pool struct {
	Bin, Which string
	sem        chan struct{}
	wg         sync.WaitGroup
	mu         sync.Mutex
	Err        error
	Cases      int
	Busy       time.Duration // summed wall time of the runner processes
}

func NewPool(bin, which string, workers int) *Pool {
	return &Pool{Bin: bin, Which: which, sem: make(chan struct{}, workers)}
}

// Go evaluates one batch asynchronously; onBad is called (serialised) with the
// failing indices of the batch.
func (p *Pool) Go(lines []string, onBad func(bad []int)) {
	p.sem <- struct{}{}
	p.wg.Add(1)
	go func() {
		defer func() { <-p.sem; p.wg.Done() }()
		t0 := time.Now()
		bad, err := RunExtracted(p.Bin, p.Which, lines)
		p.mu.Lock()
		defer p.mu.Unlock()
		p.Busy += time.Since(t0)
		p.Cases += len(lines)
		if err != nil && p.Err == nil {
			p.Err = err
		}
		if len(bad) > 0 {
			onBad(bad)
		}
	}()
}

func (p *Pool) Wait() error {
	p.wg.Wait()
	return p.Err
}

// Extractor batches cases for the pool and collects the ones the extracted
// model disagrees with (reported like a vm_compute mismatch).
type Extractor struct {
	pool    *Pool
	Batch   int
	lines   []string
	cases   []lib.Case
	batchNo int
	bad     []taggedCase
	Scans   int
	start   time.Time
}

type taggedCase struct {
	batch, idx int
	c          lib.Case
}

// NewExtractor builds the runner from the current model and starts a pool.
func NewExtractor(which string, workers, batch int) (*Extractor, error) {
	bin, err := BuildRunner()
	if err != nil {
		return nil, err
	}
	return &Extractor{pool: NewPool(bin, which, workers), Batch: batch, start: time.Now()}, nil
}

func (x *Extractor) Add(c lib.Case, sx string, scans int) {
	x.lines = append(x.lines, sx)
	x.cases = append(x.cases, c)
	x.Scans += scans
	if len(x.lines) >= x.Batch {
		x.Flush()
	}
}

func (x *Extractor) Flush() {
	if len(x.lines) == 0 {
		return
	}
	lines, cases, no := x.lines, x.cases, x.batchNo
	x.lines, x.cases = nil, nil
	x.batchNo++
	x.pool.Go(lines, func(bad []int) {
		for _, i := range bad {
			c := cases[i]
			c.Kind = "extracted-mismatch"
			c.OracleOK = false
			c.OracleMsg = "extracted-mismatch: the extracted model (second evaluator, thorough tier) disagrees with the implementation's observation on this case"
			x.bad = append(x.bad, taggedCase{no, i, c})
		}
	})
}

// Finish waits for the pool, adds the mismatching cases to out (so that they
// appear in oracle_failures AND are evaluated by the vm_compute reference run)
// and records the counts.
func (x *Extractor) Finish(out *lib.Out) error {
	x.Flush()
	if err := x.pool.Wait(); err != nil {
		return err
	}
	sort.Slice(x.bad, func(i, j int) bool {
		if x.bad[i].batch != x.bad[j].batch {
			return x.bad[i].batch < x.bad[j].batch
		}
		return x.bad[i].idx < x.bad[j].idx
	})
	for _, b := range x.bad {
		out.Add(b.c)
	}
	wall := time.Since(x.start).Seconds()
	out.Notes["extracted_cases"] = x.pool.Cases
	out.Notes["extracted_scans"] = x.Scans
	out.Notes["extracted_mismatches"] = len(x.bad)
	out.Notes["extracted_scans_per_second_per_runner"] = int(float64(x.Scans) / (x.pool.Busy.Seconds() + 1e-9))
	out.Notes["extracted_scans_per_second_wall"] = int(float64(x.Scans) / (wall + 1e-9))
	out.Notes["extracted_evaluator"] = "coq/Corr/ExtractAbi.v (ExtrOcamlBasic only) + coq/extracted/abi_run.ml, rebuilt from the current model by the driver; the vm_compute run over the shards remains the reference evaluator"
	return nil
}
