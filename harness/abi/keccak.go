package abi

// Independent Keccak-256 (original Keccak padding 0x01, rate 136), written
// from the specification; used to check eth.Keccak / Event.SignatureHash.

var keccakRC = [24]uint64{
	0x0000000000000001, 0x0000000000008082, 0x800000000000808A, 0x8000000080008000,
	0x000000000000808B, 0x0000000080000001, 0x8000000080008081, 0x8000000000008009,
	0x000000000000008A, 0x0000000000000088, 0x0000000080008009, 0x000000008000000A,
	0x000000008000808B, 0x800000000000008B, 0x8000000000008089, 0x8000000000008003,
	0x8000000000008002, 0x8000000000000080, 0x000000000000800A, 0x800000008000000A,
	0x8000000080008081, 0x8000000000008080, 0x0000000080000001, 0x8000000080008008,
}

var keccakRot = [5][5]uint{
	{0, 36, 3, 41, 18},
	{1, 44, 10, 45, 2},
	{62, 6, 43, 15, 61},
	{28, 55, 25, 21, 56},
	{27, 20, 39, 8, 14},
}

func rotl(x uint64, n uint) uint64 {
	if n == 0 {
		return x
	}
	return x<<n | x>>(64-n)
}

// state indexed a[x][y]
func keccakF(a *[5][5]uint64) {
	for round := 0; round < 24; round++ {
		var c, d [5]uint64
		for x := 0; x < 5; x++ {
			c[x] = a[x][0] ^ a[x][1] ^ a[x][2] ^ a[x][3] ^ a[x][4]
		}
		for x := 0; x < 5; x++ {
			d[x] = c[(x+4)%5] ^ rotl(c[(x+1)%5], 1)
		}
		for x := 0; x < 5; x++ {
			for y := 0; y < 5; y++ {
				a[x][y] ^= d[x]
			}
		}
		var b [5][5]uint64
		for x := 0; x < 5; x++ {
			for y := 0; y < 5; y++ {
				b[y][(2*x+3*y)%5] = rotl(a[x][y], keccakRot[x][y])
			}
		}
		for x := 0; x < 5; x++ {
			for y := 0; y < 5; y++ {
				a[x][y] = b[x][y] ^ (^b[(x+1)%5][y] & b[(x+2)%5][y])
			}
		}
		a[0][0] ^= keccakRC[round]
	}
}

func Keccak256(data []byte) []byte {
	const rate = 136
	msg := append([]byte(nil), data...)
	msg = append(msg, 0x01)
	for len(msg)%rate != 0 {
		msg = append(msg, 0)
	}
	msg[len(msg)-1] |= 0x80
	var a [5][5]uint64
	for off := 0; off < len(msg); off += rate {
		for i := 0; i < rate/8; i++ {
			var w uint64
			for k := 0; k < 8; k++ {
				w |= uint64(msg[off+8*i+k]) << (8 * uint(k))
			}
			a[i%5][i/5] ^= w
		}
		keccakF(&a)
	}
	out := make([]byte, 32)
	for i := 0; i < 4; i++ {
		w := a[i%5][i/5]
		for k := 0; k < 8; k++ {
			out[8*i+k] = byte(w >> (8 * uint(k)))
		}
	}
	return out
}
