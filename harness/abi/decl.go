package abi

import (
	"encoding/hex"
	"fmt"

	"github.com/indexsupply/shovel/dig"
	"verif/harness/lib"
)

// Decl is one generated event declaration together with everything derived
// from it on both sides.
type Decl struct {
	Name   string
	Ins    []*Ty
	JSON   string
	Event  dig.Event     // what Go holds after json.Unmarshal
	Root   *Node         // the harness's own type tree of the non-indexed inputs
	NCols  int           // number of selected leaves (harness)
	GoType dig.VerifType // Event.ABIType()
	GoCols int           // len(selected())
	Panic  string        // set when ABIType panicked
}

func NewDecl(name string, ins []*Ty) (*Decl, error) {
	d := &Decl{Name: name, Ins: ins, JSON: EventJSON(name, ins)}
	var err error
	d.Event, err = ParseEvent(d.JSON)
	if err != nil {
		return nil, fmt.Errorf("json: %w", err)
	}
	d.Root, d.NCols = Tree(ins)
	p, msg := lib.Catch(func() { d.GoType, d.GoCols, _ = dig.VerifEventType(d.Event) })
	if p {
		d.Panic = msg
	}
	return d, nil
}

// DeclFromJSON rebuilds a declaration from a replay description (no AST).
func DeclFromJSON(js string) (*Decl, error) {
	d := &Decl{JSON: js}
	var err error
	d.Event, err = ParseEvent(js)
	if err != nil {
		return nil, err
	}
	d.Name = d.Event.Name
	p, msg := lib.Catch(func() { d.GoType, d.GoCols, _ = dig.VerifEventType(d.Event) })
	if p {
		d.Panic = msg
	}
	return d, nil
}

// SameTree: the implementation's type tree is the one the JSON denotes.
func SameTree(n *Node, v dig.VerifType) (bool, string) {
	if n.Kind != v.Kind {
		return false, fmt.Sprintf("kind %c parsed as %c", n.Kind, v.Kind)
	}
	switch n.Kind {
	case 's', 'd':
		if n.Sel != v.Sel || (n.Sel && n.Col != v.Pos) {
			return false, fmt.Sprintf("selection/column differs (want sel=%v col=%d, got sel=%v pos=%d)", n.Sel, n.Col, v.Sel, v.Pos)
		}
	case 'a':
		if n.K != v.Length {
			return false, fmt.Sprintf("array length %d parsed as %d", n.K, v.Length)
		}
		if v.Elem == nil {
			return false, "array without element"
		}
		return SameTree(n.Elem, *v.Elem)
	case 't':
		if len(n.Fields) != len(v.Fields) {
			return false, "tuple arity"
		}
		for i := range n.Fields {
			if ok, m := SameTree(n.Fields[i], v.Fields[i]); !ok {
				return false, m
			}
		}
	}
	return true, ""
}

func Hex(b []byte) string { return hex.EncodeToString(b) }

func UnHex(s string) []byte {
	b, err := hex.DecodeString(s)
	if err != nil {
		panic(err)
	}
	return b
}

// RowsEqual compares decoded rows with the expected bytes.
func RowsEqual(obs ScanObs, want [][][]byte) (bool, string) {
	if len(obs.Rows) != len(want) {
		return false, fmt.Sprintf("%d rows decoded, %d expected", len(obs.Rows), len(want))
	}
	for i := range want {
		if len(obs.Rows[i]) != len(want[i]) {
			return false, fmt.Sprintf("row %d has %d cells, %d expected", i, len(obs.Rows[i]), len(want[i]))
		}
		for j := range want[i] {
			c := obs.Rows[i][j]
			switch {
			case len(want[i][j]) == 0 && c.Present:
				return false, fmt.Sprintf("row %d col %d: unexpected cell %x", i, j, c.B)
			case len(want[i][j]) > 0 && (!c.Present || string(c.B) != string(want[i][j])):
				return false, fmt.Sprintf("row %d col %d: decoded %x, encoded %x", i, j, c.B, want[i][j])
			}
		}
	}
	return true, ""
}
