package abi

import (
	"fmt"
	"math/big"
)

// Mut is one mutation of a valid encoding (Corr/RunC10.mut).
type Mut struct {
	Kind string `json:"kind"` // id | trunc | word | wordv | raw
	N    int    `json:"n,omitempty"`
	I    int    `json:"i,omitempty"`
	K    int    `json:"k,omitempty"`
	V    uint64 `json:"v,omitempty"`
	Raw  []byte `json:"raw,omitempty"`
}

const NBoundary = 15

func pow2(n uint) *big.Int { return new(big.Int).Lsh(big.NewInt(1), n) }

// Boundary value k for an input of the given length (the list of the property).
func Boundary(k, length int) *big.Int {
	sub := func(a *big.Int, b int64) *big.Int { return new(big.Int).Sub(a, big.NewInt(b)) }
	switch k {
	case 0:
		return big.NewInt(0)
	case 1:
		return big.NewInt(1)
	case 2:
		return big.NewInt(31)
	case 3:
		return big.NewInt(32)
	case 4:
		if length < 31 {
			return big.NewInt(0)
		}
		return big.NewInt(int64(length - 31))
	case 5:
		return big.NewInt(int64(length))
	case 6:
		return big.NewInt(int64(length + 1))
	case 7:
		return pow2(31)
	case 8:
		return pow2(32)
	case 9:
		return sub(pow2(63), 32)
	case 10:
		return sub(pow2(63), 1)
	case 11:
		return pow2(63)
	case 12:
		return sub(pow2(64), 32)
	case 13:
		return sub(pow2(64), 1)
	case 14:
		return pow2(255)
	}
	panic("boundary")
}

var BoundaryNames = []string{"0", "1", "31", "32", "len-31", "len", "len+1", "2^31", "2^32", "2^63-32", "2^63-1", "2^63", "2^64-32", "2^64-1", "2^255"}

func (m Mut) Apply(base []byte) []byte {
	switch m.Kind {
	case "id":
		return append([]byte(nil), base...)
	case "trunc":
		return append([]byte(nil), base[:m.N]...)
	case "word":
		out := append([]byte(nil), base...)
		copy(out[32*m.I:32*m.I+32], WordBig(Boundary(m.K, len(base))))
		return out
	case "wordv", "wordw":
		out := append([]byte(nil), base...)
		copy(out[32*m.I:32*m.I+32], Word(m.V))
		return out
	case "raw":
		return append([]byte(nil), m.Raw...)
	}
	panic("mut")
}

func (m Mut) Coq() string {
	switch m.Kind {
	case "id":
		return "MId"
	case "trunc":
		return fmt.Sprintf("(MTrunc %d)", m.N)
	case "word":
		return fmt.Sprintf("(MWord %d %d)", m.I, m.K)
	case "wordv", "wordw":
		return fmt.Sprintf("(MWordV %d %d)", m.I, m.V)
	case "raw":
		return "(MRaw " + CB(m.Raw) + ")"
	}
	panic("mut")
}

func (m Mut) String() string {
	switch m.Kind {
	case "trunc":
		return fmt.Sprintf("truncated to %d bytes", m.N)
	case "word":
		return fmt.Sprintf("word %d replaced by %s", m.I, BoundaryNames[m.K])
	case "wordv", "wordw":
		return fmt.Sprintf("word %d replaced by %d", m.I, m.V)
	case "raw":
		return fmt.Sprintf("%d raw bytes", len(m.Raw))
	}
	return "unchanged"
}
