package abi

import (
	"context"
	"errors"

	"github.com/jackc/pgx/v5"
	"github.com/jackc/pgx/v5/pgconn"
)

// RecConn is a Go-level wpg.Conn that records what Integration.Insert copies.
type RecConn struct{ Rows [][]any }

func (c *RecConn) CopyFrom(_ context.Context, _ pgx.Identifier, _ []string, src pgx.CopyFromSource) (int64, error) {
	var n int64
	for src.Next() {
		v, err := src.Values()
		if err != nil {
			return n, err
		}
		c.Rows = append(c.Rows, v)
		n++
	}
	return n, src.Err()
}
func (c *RecConn) Exec(context.Context, string, ...any) (pgconn.CommandTag, error) {
	return pgconn.CommandTag{}, errors.New("unexpected Exec")
}
func (c *RecConn) QueryRow(context.Context, string, ...any) pgx.Row { return nil }
func (c *RecConn) Query(context.Context, string, ...any) (pgx.Rows, error) {
	return nil, errors.New("unexpected Query")
}
