package abi

import (
	"math/big"
	"strings"

	"verif/harness/lib"
)

// Val is a typed value: B is the 32-byte word ('s') or the contents ('d');
// Elems are the array elements / tuple components.
type Val struct {
	B     []byte
	Elems []*Val
}

func Word(n uint64) []byte { return new(big.Int).SetUint64(n).FillBytes(make([]byte, 32)) }

func WordBig(n *big.Int) []byte {
	m := new(big.Int).And(n, new(big.Int).Sub(new(big.Int).Lsh(big.NewInt(1), 256), big.NewInt(1)))
	return m.FillBytes(make([]byte, 32))
}

// Encode is an independent implementation of the Solidity ABI encoding
// (head/tail layout) of a value.
func Encode(n *Node, v *Val) []byte {
	switch n.Kind {
	case 's':
		return append([]byte(nil), v.B...)
	case 'd':
		out := Word(uint64(len(v.B)))
		out = append(out, v.B...)
		for len(out)%32 != 0 {
			out = append(out, 0)
		}
		return out
	case 'a':
		ns := make([]*Node, len(v.Elems))
		for i := range ns {
			ns[i] = n.Elem
		}
		body := encSeq(ns, v.Elems)
		if n.K == 0 {
			return append(Word(uint64(len(v.Elems))), body...)
		}
		return body
	case 't':
		return encSeq(n.Fields, v.Elems)
	}
	panic("kind")
}

func encSeq(ns []*Node, vs []*Val) []byte {
	encs := make([][]byte, len(ns))
	headLen := 0
	for i := range ns {
		encs[i] = Encode(ns[i], vs[i])
		if ns[i].Dynamic() {
			headLen += 32
		} else {
			headLen += len(encs[i])
		}
	}
	var head, tail []byte
	for i := range ns {
		if ns[i].Dynamic() {
			head = append(head, Word(uint64(headLen+len(tail)))...)
			tail = append(tail, encs[i]...)
		} else {
			head = append(head, encs[i]...)
		}
	}
	return append(head, tail...)
}

// ---- the row rule, stated on values (the direct oracle of C09) -------------

type Cell struct {
	Col int
	B   []byte
}

// leafCells: the selected leaves that are not inside an array.
func leafCells(n *Node, v *Val) []Cell {
	switch n.Kind {
	case 's', 'd':
		if n.Sel && len(v.B) > 0 {
			return []Cell{{n.Col, v.B}}
		}
	case 't':
		var res []Cell
		for i, f := range n.Fields {
			res = append(res, leafCells(f, v.Elems[i])...)
		}
		return res
	}
	return nil
}

// elemRows: one entry per element of each selected innermost array, in order.
func elemRows(n *Node, v *Val) [][]Cell {
	var res [][]Cell
	switch n.Kind {
	case 'a':
		if !n.Elem.HasSel() {
			return nil
		}
		for _, e := range v.Elems {
			if n.Elem.Kind == 'a' {
				res = append(res, elemRows(n.Elem, e)...)
			} else {
				res = append(res, leafCells(n.Elem, e))
			}
		}
	case 't':
		for i, f := range n.Fields {
			res = append(res, elemRows(f, v.Elems[i])...)
		}
	}
	return res
}

// ExpectedRows: scalars once (in every row), one row per array element; one
// row when there is no array element at all.  nil = empty cell.
func ExpectedRows(root *Node, v *Val, ncols int) [][][]byte {
	rows := elemRows(root, v)
	if len(rows) == 0 {
		rows = [][]Cell{nil}
	}
	sc := leafCells(root, v)
	out := make([][][]byte, len(rows))
	for i, cs := range rows {
		r := make([][]byte, ncols)
		for _, c := range cs {
			r[c.Col] = c.B
		}
		for _, c := range sc {
			r[c.Col] = c.B
		}
		out[i] = r
	}
	return out
}

// CoqVal prints a value as a term of type aval.
func CoqVal(n *Node, v *Val) string {
	switch n.Kind {
	case 's':
		return "(VWord " + CB(v.B) + ")"
	case 'd':
		return "(VBytes " + CB(v.B) + ")"
	}
	xs := make([]string, len(v.Elems))
	for i, e := range v.Elems {
		if n.Kind == 'a' {
			xs[i] = CoqVal(n.Elem, e)
		} else {
			xs[i] = CoqVal(n.Fields[i], e)
		}
	}
	if n.Kind == 'a' {
		return "(VArr " + lib.CList(xs) + ")"
	}
	return "(VTuple " + lib.CList(xs) + ")"
}

// Cost is the bound on array-loop iterations and rows as a function of the
// type and the input length only (same formula as Model/AbiScan.cost).
func Cost(n *Node, inputLen int) *big.Int {
	switch n.Kind {
	case 'a':
		k := big.NewInt(int64(n.K))
		if n.K == 0 {
			k = big.NewInt(int64(inputLen / 32))
		}
		c := new(big.Int).Add(big.NewInt(1), Cost(n.Elem, inputLen))
		return c.Mul(c, k)
	case 't':
		s := new(big.Int)
		for _, f := range n.Fields {
			s.Add(s, Cost(f, inputLen))
		}
		return s
	}
	return new(big.Int)
}

func (n *Node) String() string {
	switch n.Kind {
	case 'a':
		if n.K == 0 {
			return n.Elem.String() + "[]"
		}
		return n.Elem.String() + "[" + big.NewInt(int64(n.K)).String() + "]"
	case 't':
		xs := make([]string, len(n.Fields))
		for i, f := range n.Fields {
			xs[i] = f.String()
		}
		return "(" + strings.Join(xs, ",") + ")"
	}
	s := string(n.Kind)
	if n.Sel {
		s += "*"
	}
	return s
}
